(** * SchemaJsonText — the printed text forms parse back: decimal (Rust and num-bigint parsers), hex,
    names; inverses of the byte-level decoders. *)
From Coq Require Import NArith ZArith Bool List Lia.
From CB Require Import Contract.SchemaJson Contract.SchemaJsonLemmas.
Import ListNotations.
Local Open Scope N_scope.
Arguments N.add : simpl never.
Arguments N.sub : simpl never.
Arguments N.mul : simpl never.
Arguments N.pow : simpl never.
Arguments N.div : simpl never.
Arguments N.modulo : simpl never.
Arguments N.eqb : simpl never.
Arguments N.ltb : simpl never.
Arguments N.leb : simpl never.
Arguments N.of_nat : simpl never.
Arguments Z.of_N : simpl never.
Arguments Z.to_N : simpl never.
Arguments Z.pow : simpl never.
Arguments Z.mul : simpl never.
Arguments Z.add : simpl never.
Arguments Z.sub : simpl never.
Arguments Z.opp : simpl never.
Arguments Z.ltb : simpl never.
Arguments Z.leb : simpl never.
Arguments Z.modulo : simpl never.

(* ------------------------------------------------------------------ strings *)
Lemma str_eqb_refl : forall a, str_eqb a a = true.
Proof. induction a as [|x a IH]; simpl; auto. rewrite N.eqb_refl. exact IH. Qed.

Lemma str_eqb_neq : forall a b, a <> b -> str_eqb a b = false.
Proof. intros a b H. destruct (str_eqb a b) eqn:E; auto. apply str_eqb_eq in E. contradiction. Qed.

(* ------------------------------------------------------------------ decimal *)
Lemma digit_char : forall m, m < 10 -> is_digit (48 + m) = true /\ 48 + m - 48 = m.
Proof.
  intros m H. split; [|lia]. unfold is_digit. apply andb_true_iff. split; apply N.leb_le; lia.
Qed.

Lemma parse_show_digits : forall fuel n acc, n < 2 ^ N.of_nat fuel -> (0 < fuel)%nat ->
  parse_digits (show_digits fuel n acc) 0 = parse_digits acc n.
Proof.
  induction fuel as [|f IH]; intros n acc Hn Hf; [lia|].
  cbn [show_digits].
  assert (Hdm : n = 10 * (n / 10) + n mod 10) by (apply N.div_mod; lia).
  assert (Hm : n mod 10 < 10) by (apply N.mod_lt; lia).
  remember (n mod 10) as m. remember (n / 10) as q.
  destruct (digit_char m Hm) as [Hd Hs].
  destruct (N.eqb_spec q 0) as [E|E].
  - cbn [parse_digits]. rewrite Hd, Hs. f_equal. lia.
  - assert (Hp : 2 ^ N.of_nat (S f) = 2 * 2 ^ N.of_nat f).
    { replace (N.of_nat (S f)) with (1 + N.of_nat f) by lia. rewrite N.pow_add_r. reflexivity. }
    destruct f as [|f'].
    { exfalso. change (2 ^ N.of_nat 1) with 2 in Hn. lia. }
    rewrite IH by lia.
    cbn [parse_digits]. rewrite Hd, Hs. f_equal. lia.
Qed.

Lemma show_digits_head : forall f n acc, exists d tl, show_digits (S f) n acc = d :: tl /\ is_digit d = true.
Proof.
  induction f as [|f IH]; intros n acc.
  - cbn [show_digits]. destruct (n / 10 =? 0); eexists; eexists; (split; [reflexivity|]);
      apply (digit_char (n mod 10)); apply N.mod_lt; lia.
  - cbn [show_digits]. destruct (n / 10 =? 0).
    + eexists; eexists; split; [reflexivity|]. apply (digit_char (n mod 10)); apply N.mod_lt; lia.
    + apply IH.
Qed.

Lemma show_digits_all : forall f n acc, forallb is_digit acc = true -> forallb is_digit (show_digits f n acc) = true.
Proof.
  induction f as [|f IH]; intros n acc H; cbn [show_digits]; auto.
  assert (Hd : is_digit (48 + n mod 10) = true) by (apply (digit_char (n mod 10)); apply N.mod_lt; lia).
  destruct (n / 10 =? 0).
  - cbn [forallb]. rewrite Hd. exact H.
  - apply IH. cbn [forallb]. rewrite Hd. exact H.
Qed.

Lemma parse_digits_show_N : forall n, parse_digits (show_N n) 0 = Some n.
Proof.
  intros n. unfold show_N. rewrite parse_show_digits; [reflexivity| |lia].
  pose proof (size_nat_bound n).
  replace (N.of_nat (S (N.size_nat n))) with (1 + N.of_nat (N.size_nat n)) by lia.
  rewrite N.pow_add_r. change (2 ^ 1) with 2. lia.
Qed.

Lemma show_N_head : forall n, exists d tl, show_N n = d :: tl /\ is_digit d = true.
Proof. intros. apply show_digits_head. Qed.

Lemma show_N_all : forall n, forallb is_digit (show_N n) = true.
Proof. intros. apply show_digits_all. reflexivity. Qed.

Lemma is_digit_range : forall d, is_digit d = true -> 48 <= d <= 57.
Proof. unfold is_digit. intros d H. apply andb_true_iff in H. destruct H as [H1 H2]. apply N.leb_le in H1, H2. lia. Qed.

Lemma parse_digits_us_digits : forall l a, forallb is_digit l = true -> parse_digits_us l a = parse_digits l a.
Proof.
  induction l as [|b l IH]; intros a H; [reflexivity|].
  cbn [forallb] in H. apply andb_true_iff in H. destruct H as [Hb Hl].
  cbn [parse_digits_us parse_digits]. rewrite Hb.
  destruct (N.eqb_spec b 95) as [->|]; [discriminate Hb|]. auto.
Qed.

Lemma parse_unsigned_show : forall b n, n < b -> parse_unsigned b (show_N n) = Some n.
Proof.
  intros b n H. unfold parse_unsigned.
  destruct (show_N_head n) as [d [tl [E Hd]]]. pose proof (parse_digits_show_N n) as P. rewrite E in *.
  apply is_digit_range in Hd.
  destruct (N.eqb_spec d 43); [lia|]. rewrite P.
  destruct (N.ltb_spec n b); [reflexivity|lia].
Qed.

Lemma parse_biguint_show : forall n, parse_biguint (show_N n) = Some n.
Proof.
  intros n. unfold parse_biguint.
  destruct (show_N_head n) as [d [tl [E Hd]]].
  pose proof (parse_digits_show_N n) as P. pose proof (show_N_all n) as A. rewrite E in *.
  apply is_digit_range in Hd.
  destruct (N.eqb_spec d 43); [lia|]. destruct (N.eqb_spec d 95); [lia|].
  rewrite parse_digits_us_digits by exact A. exact P.
Qed.

Lemma parse_signed_show : forall bits z, (- 2 ^ (bits - 1) <= z < 2 ^ (bits - 1))%Z ->
  parse_signed bits (show_Z z) = Some z.
Proof.
  intros bits z Hz. unfold parse_signed, show_Z.
  destruct z as [|p|p].
  - destruct (show_N_head (Z.to_N 0)) as [d [tl [E Hd]]]. pose proof (parse_digits_show_N (Z.to_N 0)) as P.
    rewrite E in *. apply is_digit_range in Hd.
    destruct (N.eqb_spec d 43); [lia|]. destruct (N.eqb_spec d 45); [lia|]. rewrite P.
    change (Z.of_N (Z.to_N 0)) with 0%Z.
    destruct (Z.leb_spec (- 2 ^ (bits - 1)) 0); [|lia]. destruct (Z.ltb_spec 0 (2 ^ (bits - 1))); [reflexivity|lia].
  - destruct (show_N_head (Z.to_N (Z.pos p))) as [d [tl [E Hd]]].
    pose proof (parse_digits_show_N (Z.to_N (Z.pos p))) as P.
    rewrite E in *. apply is_digit_range in Hd.
    destruct (N.eqb_spec d 43); [lia|]. destruct (N.eqb_spec d 45); [lia|]. rewrite P.
    rewrite Z2N.id by lia.
    destruct (Z.leb_spec (- 2 ^ (bits - 1)) (Z.pos p)); [|lia].
    destruct (Z.ltb_spec (Z.pos p) (2 ^ (bits - 1))); [reflexivity|lia].
  - destruct (N.eqb_spec 45 43); [lia|]. rewrite N.eqb_refl.
    destruct (show_N_head (N.pos p)) as [d [tl [E Hd]]]. pose proof (parse_digits_show_N (N.pos p)) as P.
    rewrite E in *. rewrite P.
    change (- Z.of_N (N.pos p))%Z with (Z.neg p).
    destruct (Z.leb_spec (- 2 ^ (bits - 1)) (Z.neg p)); [|lia].
    destruct (Z.ltb_spec (Z.neg p) (2 ^ (bits - 1))); [reflexivity|lia].
Qed.

Lemma parse_bigint_show : forall z, parse_bigint (show_Z z) = Some z.
Proof.
  intros z. unfold parse_bigint, show_Z.
  destruct z as [|p|p].
  - rewrite parse_biguint_show.
    destruct (show_N_head (Z.to_N 0)) as [d [tl [E Hd]]]. rewrite E. apply is_digit_range in Hd.
    destruct (N.eqb_spec d 45); [lia|]. reflexivity.
  - rewrite parse_biguint_show. rewrite Z2N.id by lia.
    destruct (show_N_head (Z.to_N (Z.pos p))) as [d [tl [E Hd]]]. rewrite E. apply is_digit_range in Hd.
    destruct (N.eqb_spec d 45); [lia|]. reflexivity.
  - rewrite N.eqb_refl. rewrite parse_biguint_show.
    destruct (show_N_head (N.pos p)) as [d [tl [E Hd]]]. rewrite E. apply is_digit_range in Hd.
    destruct (N.eqb_spec d 43); [lia|]. reflexivity.
Qed.

(* ------------------------------------------------------------------ hex *)
Lemma hex_val_digit : forall d, d < 16 -> hex_val (hex_digit d) = Some d.
Proof.
  intros d H. destruct d as [|p]; [reflexivity|].
  do 5 (destruct p as [p|p|]; try reflexivity; try (exfalso; lia)).
Qed.

Lemma hex_decode_encode : forall b, bytes_ok b = true -> hex_decode (hex_encode b) = Some b.
Proof.
  induction b as [|x b IH]; intros H; [reflexivity|].
  unfold bytes_ok in H. cbn [forallb] in H. apply andb_true_iff in H. destruct H as [Hx Hb]. apply N.ltb_lt in Hx.
  cbn [hex_encode hex_decode].
  rewrite hex_val_digit by (apply N.div_lt_upper_bound; lia).
  rewrite hex_val_digit by (apply N.mod_lt; lia).
  rewrite IH by exact Hb. f_equal. f_equal. pose proof (N.div_mod x 16). lia.
Qed.

(* ------------------------------------------------------------------ names *)
Lemma starts_with_skipn : forall p s, starts_with p s = true -> p ++ skipn (length p) s = s.
Proof.
  induction p as [|x p IH]; intros s H; [reflexivity|].
  destruct s as [|y s]; cbn [starts_with] in H; [discriminate|].
  apply andb_true_iff in H. destruct H as [H1 H2]. apply N.eqb_eq in H1. subst.
  cbn [length skipn app]. rewrite IH by exact H2. reflexivity.
Qed.

Lemma split_dot_inv : forall x c f, has_dot x = true -> split_dot x = (c, f) ->
  x = c ++ 46 :: f /\ has_dot c = false.
Proof.
  induction x as [|b x IH]; intros c f Hd Hs.
  - discriminate Hd.
  - cbn [split_dot] in Hs. unfold has_dot in Hd. cbn [existsb] in Hd.
    destruct (N.eqb_spec b 46) as [->|Hb].
    + injection Hs as <- <-. split; reflexivity.
    + cbn [orb] in Hd. destruct (split_dot x) as [a c'] eqn:E. injection Hs as <- <-.
      destruct (IH _ _ Hd eq_refl) as [-> Hc]. split; [reflexivity|].
      unfold has_dot. cbn [existsb]. destruct (N.eqb_spec b 46); [contradiction|]. exact Hc.
Qed.

(* ------------------------------------------------------------------ byte-level inverses *)
Lemma bytes_ok_app : forall a b, bytes_ok (a ++ b) = true -> bytes_ok a = true /\ bytes_ok b = true.
Proof. unfold bytes_ok. intros a b H. rewrite forallb_app in H. apply andb_true_iff in H. exact H. Qed.

Lemma le_dec_inv : forall k bs n r, le_dec k bs = Some (n, r) -> bytes_ok bs = true ->
  bs = le k n ++ r /\ n < 2 ^ (8 * N.of_nat k) /\ bytes_ok r = true.
Proof.
  induction k as [|k IH]; intros bs n r H Hb; cbn [le_dec] in H.
  - injection H as <- <-. repeat split; auto.
  - destruct bs as [|b bs]; [discriminate|].
    destruct (le_dec k bs) as [[m r']|] eqn:E; [|discriminate]. injection H as <- <-.
    unfold bytes_ok in Hb. cbn [forallb] in Hb. apply andb_true_iff in Hb. destruct Hb as [Hb1 Hb2].
    apply N.ltb_lt in Hb1.
    destruct (IH _ _ _ E Hb2) as [-> [Hm Hr]].
    rewrite pow256_S. cbn [le app].
    replace ((b + 256 * m) mod 256) with b.
    2:{ rewrite N.add_mod by lia. rewrite N.mul_comm, N.mod_mul by lia. rewrite N.add_0_r.
        rewrite N.mod_mod by lia. rewrite N.mod_small by lia. reflexivity. }
    replace ((b + 256 * m) / 256) with m.
    2:{ rewrite N.mul_comm, N.div_add by lia. rewrite N.div_small by lia. reflexivity. }
    repeat split; auto. lia.
Qed.

Lemma le_signed_dec_inv : forall k bs z r, (0 < k)%nat -> le_signed_dec k bs = Some (z, r) -> bytes_ok bs = true ->
  bs = le_signed k z ++ r /\ (- 2 ^ (8 * Z.of_nat k - 1) <= z < 2 ^ (8 * Z.of_nat k - 1))%Z /\ bytes_ok r = true.
Proof.
  unfold le_signed_dec, le_signed. intros k bs z r Hk H Hb.
  destruct (le_dec k bs) as [[n r']|] eqn:E; [|discriminate].
  destruct (le_dec_inv _ _ _ _ E Hb) as [-> [Hn Hr]].
  set (M := (2 ^ (8 * Z.of_nat k))%Z) in *.
  assert (HM : (M = 2 * 2 ^ (8 * Z.of_nat k - 1))%Z).
  { unfold M. replace (8 * Z.of_nat k)%Z with (1 + (8 * Z.of_nat k - 1))%Z at 1 by lia.
    rewrite Z.pow_add_r by lia. reflexivity. }
  assert (Hpos : (0 < 2 ^ (8 * Z.of_nat k - 1))%Z) by (apply Z.pow_pos_nonneg; lia).
  assert (Hn' : (0 <= Z.of_N n < M)%Z).
  { split; [lia|]. unfold M. rewrite <- Z_N_pow256. lia. }
  remember (2 ^ (8 * Z.of_nat k - 1))%Z as Hf.
  destruct (Z.ltb_spec (Z.of_N n) Hf); injection H as <- <-.
  - rewrite Z.mod_small by lia. rewrite N2Z.id. repeat split; auto; lia.
  - replace ((Z.of_N n - M) mod M)%Z with (Z.of_N n).
    2:{ apply Z.mod_unique with (q := (-1)%Z); lia. }
    rewrite N2Z.id. repeat split; auto; lia.
Qed.

(* ------------------------------------------------------------------ LEB128: what was decoded fits the constraint again *)
Lemma uleb_dec_inv : forall bs c shift acc v rest, bytes_ok bs = true ->
  uleb_dec bs c shift acc = Some (v, rest) ->
  exists pre m, bs = pre ++ rest /\ v = acc + m * 2 ^ shift /\ m < 2 ^ (7 * N.of_nat (length pre))
                /\ N.of_nat (length pre) <= c /\ (0 < length pre)%nat /\ bytes_ok rest = true.
Proof.
  induction bs as [|b bs IH]; intros c shift acc v rest Hb H; cbn [uleb_dec] in H.
  - destruct (c =? 0); discriminate.
  - destruct (N.eqb_spec c 0); [discriminate|].
    unfold bytes_ok in Hb. cbn [forallb] in Hb. apply andb_true_iff in Hb. destruct Hb as [Hb1 Hb2].
    assert (Hm : b mod 128 < 128) by (apply N.mod_lt; lia).
    destruct (N.ltb_spec b 128).
    + injection H as <- <-. exists [b], (b mod 128). cbn [length app].
      repeat split; auto; try lia; try (change (2 ^ (7 * N.of_nat 1)) with 128; exact Hm).
    + destruct (IH _ _ _ _ _ Hb2 H) as [pre [m [-> [Hv [Hmb [Hc [Hl Hr]]]]]]].
      exists (b :: pre), (b mod 128 + 128 * m). cbn [length app].
      repeat split; auto; try lia.
      * rewrite Hv. rewrite N.pow_add_r. change (2 ^ 7) with 128. lia.
      * replace (7 * N.of_nat (S (length pre))) with (7 + 7 * N.of_nat (length pre)) by lia.
        rewrite N.pow_add_r. change (2 ^ 7) with 128. lia.
Qed.

Lemma uleb_groups_short : forall fuel m (k : nat), (0 < k)%nat -> m < 2 ^ (7 * N.of_nat k) ->
  (length (uleb_groups fuel m) <= k)%nat.
Proof.
  induction fuel as [|f IH]; intros m k Hk Hm; cbn [uleb_groups]; [cbn; lia|].
  destruct (N.eqb_spec (m / 128) 0) as [E|E]; [cbn; lia|].
  cbn [length].
  destruct k as [|[|k']]; [lia| |].
  - exfalso. change (2 ^ (7 * N.of_nat 1)) with 128 in Hm. apply E. apply N.div_small. exact Hm.
  - assert (length (uleb_groups f (m / 128)) <= S k')%nat; [|lia].
    apply IH; [lia|].
    replace (7 * N.of_nat (S (S k'))) with (7 + 7 * N.of_nat (S k')) in Hm by lia.
    rewrite N.pow_add_r in Hm. change (2 ^ 7) with 128 in Hm.
    apply N.div_lt_upper_bound; lia.
Qed.

Lemma uleb_dec_enc : forall bs c n rest, bytes_ok bs = true -> uleb_dec bs c 0 0 = Some (n, rest) ->
  exists g pre, uleb_enc c n = Some g /\ bs = pre ++ rest /\ bytes_ok rest = true.
Proof.
  intros bs c n rest Hb H. destruct (uleb_dec_inv _ _ _ _ _ _ Hb H) as [pre [m [-> [Hv [Hm [Hc [Hl Hr]]]]]]].
  change (2 ^ 0) with 1 in Hv. assert (n = m) by lia. subst m.
  unfold uleb_enc. pose proof (uleb_groups_short (S (N.size_nat n)) n (length pre) Hl Hm).
  destruct (N.leb_spec (N.of_nat (length (uleb_groups (S (N.size_nat n)) n))) c); [|lia].
  eexists; eexists; repeat split; eauto.
Qed.

Lemma sleb_dec_inv : forall bs c shift acc v rest, bytes_ok bs = true ->
  sleb_dec bs c shift acc = Some (v, rest) ->
  exists pre m, bs = pre ++ rest /\ v = (acc + m * 2 ^ Z.of_N shift)%Z
                /\ (- 2 ^ (7 * Z.of_nat (length pre) - 1) <= m < 2 ^ (7 * Z.of_nat (length pre) - 1))%Z
                /\ N.of_nat (length pre) <= c /\ (0 < length pre)%nat /\ bytes_ok rest = true.
Proof.
  induction bs as [|b bs IH]; intros c shift acc v rest Hb H; cbn [sleb_dec] in H.
  - destruct (c =? 0); discriminate.
  - destruct (N.eqb_spec c 0); [discriminate|].
    unfold bytes_ok in Hb. cbn [forallb] in Hb. apply andb_true_iff in Hb. destruct Hb as [Hb1 Hb2].
    assert (Hm : b mod 128 < 128) by (apply N.mod_lt; lia).
    remember (b mod 128) as g.
    assert (Hpow : (2 ^ Z.of_N (shift + 7) = 128 * 2 ^ Z.of_N shift)%Z).
    { rewrite N2Z.inj_add. rewrite Z.pow_add_r by lia. change (2 ^ Z.of_N 7)%Z with 128%Z. lia. }
    remember (2 ^ Z.of_N shift)%Z as P.
    destruct (N.ltb_spec b 128).
    + exists [b]. cbn [length app]. change (2 ^ (7 * Z.of_nat 1 - 1))%Z with 64%Z.
      destruct (N.leb_spec 64 g); injection H as <- <-.
      * exists (Z.of_N g - 128)%Z. repeat split; auto; try lia.
      * exists (Z.of_N g). repeat split; auto; try lia.
    + destruct (IH _ _ _ _ _ Hb2 H) as [pre [m [-> [Hv [Hmb [Hc [Hl Hr]]]]]]].
      exists (b :: pre), (Z.of_N g + 128 * m)%Z. cbn [length app].
      repeat split; auto; try lia; try (rewrite Hv, Hpow; lia);
        (replace (7 * Z.of_nat (S (length pre)) - 1)%Z with (7 + (7 * Z.of_nat (length pre) - 1))%Z by lia;
         rewrite Z.pow_add_r by lia; change (2 ^ 7)%Z with 128%Z;
         remember (2 ^ (7 * Z.of_nat (length pre) - 1))%Z as Q; lia).
Qed.

Lemma sleb_groups_short : forall fuel m (k : nat), (0 < k)%nat ->
  (- 2 ^ (7 * Z.of_nat k - 1) <= m < 2 ^ (7 * Z.of_nat k - 1))%Z ->
  (length (sleb_groups fuel m) <= k)%nat.
Proof.
  induction fuel as [|f IH]; intros m k Hk Hm; cbn [sleb_groups]; [cbn; lia|].
  assert (Hdm : (m = 128 * (m / 128) + m mod 128)%Z) by (apply Z.div_mod; lia).
  assert (Hmm : (0 <= m mod 128 < 128)%Z) by (apply Z.mod_pos_bound; lia).
  remember (m mod 128)%Z as g. remember (m / 128)%Z as q. remember (Z.to_N g) as b.
  assert (Hb : Z.of_N b = g) by (subst b; rewrite Z2N.id; lia).
  destruct (((q =? 0)%Z && (b <? 64)) || ((q =? -1)%Z && (64 <=? b))) eqn:Efin; [cbn; lia|].
  cbn [length].
  destruct k as [|[|k']]; [lia| |].
  - exfalso. change (2 ^ (7 * Z.of_nat 1 - 1))%Z with 64%Z in Hm.
    apply orb_false_iff in Efin. destruct Efin as [E1 E2].
    destruct (Z.eqb_spec q 0) as [Q0|Q0]; destruct (Z.eqb_spec q (-1)) as [Q1|Q1]; cbn [andb] in E1, E2;
      try apply N.ltb_ge in E1; try apply N.leb_gt in E2; lia.
  - assert (length (sleb_groups f q) <= S k')%nat; [|lia].
    apply IH; [lia|].
    replace (7 * Z.of_nat (S (S k')) - 1)%Z with (7 + (7 * Z.of_nat (S k') - 1))%Z in Hm by lia.
    rewrite Z.pow_add_r in Hm by lia. change (2 ^ 7)%Z with 128%Z in Hm.
    remember (2 ^ (7 * Z.of_nat (S k') - 1))%Z as Q. lia.
Qed.

Lemma sleb_dec_enc : forall bs c z rest, bytes_ok bs = true -> sleb_dec bs c 0 0 = Some (z, rest) ->
  exists g pre, sleb_enc c z = Some g /\ bs = pre ++ rest /\ bytes_ok rest = true.
Proof.
  intros bs c z rest Hb H. destruct (sleb_dec_inv _ _ _ _ _ _ Hb H) as [pre [m [-> [Hv [Hm [Hc [Hl Hr]]]]]]].
  change (2 ^ Z.of_N 0)%Z with 1%Z in Hv. assert (z = m) by lia. subst m.
  unfold sleb_enc. pose proof (sleb_groups_short (S (N.size_nat (Z.abs_N z))) z (length pre) Hl Hm).
  destruct (N.leb_spec (N.of_nat (length (sleb_groups (S (N.size_nat (Z.abs_N z))) z))) c); [|lia].
  eexists; eexists; repeat split; eauto.
Qed.

(* ------------------------------------------------------------------ objects built by insertion *)
Lemma obj_get_app_none : forall k acc l, obj_get k acc = None -> obj_get k (acc ++ l) = obj_get k l.
Proof.
  induction acc as [|[k' v'] acc IH]; intros l H; [reflexivity|].
  cbn [obj_get app] in *. destruct (str_eqb k' k); [discriminate|]. auto.
Qed.

Lemma obj_insert_absent : forall k v acc, obj_get k acc = None -> obj_insert k v acc = acc ++ [(k, v)].
Proof.
  induction acc as [|[k' v'] acc IH]; intros H; [reflexivity|].
  cbn [obj_get obj_insert app] in *. destruct (str_eqb k' k); [discriminate|]. rewrite IH by exact H. reflexivity.
Qed.

Lemma obj_get_nodup : forall kvs k v, NoDup (map fst kvs) -> In (k, v) kvs -> obj_get k kvs = Some v.
Proof.
  induction kvs as [|[k' v'] kvs IH]; intros k v Hnd Hin; [destruct Hin|].
  cbn [map fst] in Hnd. inversion Hnd as [|? ? Hnotin Hnd']; subst.
  cbn [obj_get]. destruct Hin as [E|Hin].
  - injection E as -> ->. rewrite str_eqb_refl. reflexivity.
  - destruct (str_eqb k' k) eqn:E.
    + apply str_eqb_eq in E. subst k'. exfalso. apply Hnotin. apply (in_map fst) in Hin. exact Hin.
    + auto.
Qed.

Lemma nodup_str_NoDup : forall l, nodup_str l = true -> NoDup l.
Proof.
  induction l as [|x l IH]; intros H; [constructor|].
  cbn [nodup_str] in H. apply andb_true_iff in H. destruct H as [H1 H2]. apply negb_true_iff in H1.
  constructor; auto. intros Hin.
  assert (existsb (str_eqb x) l = true); [|congruence].
  apply existsb_exists. exists x. split; auto. apply str_eqb_refl.
Qed.
