(** C14 - proofs about the v0 host functions (HostV0.v). *)
From Coq Require Import NArith List Bool Lia.
From CB Require Import Gen.HostCosts Contract.HostBase Contract.HostBaseProofs Contract.HostV0.
Import ListNotations.
Local Open Scope N_scope.

Lemma lenN_le_bytes : forall k x, lenN (le_bytes k x) = N.of_nat k.
Proof. induction k; intros; cbn [le_bytes]; [reflexivity|]. rewrite lenN_cons, IHk. lia. Qed.

Global Hint Rewrite lenN_app lenN_firstnN lenN_skipnN lenN_zerosN lenN_resizeN lenN_cons lenN_nil
  lenN_le_bytes lenN_rev_append : lenN.

Ltac u32_facts :=
  repeat match goal with
  | |- context [u32 ?x] => lazymatch goal with H : u32 x <= x |- _ => fail | _ => pose proof (u32_le x); pose proof (u32_lt x); pose proof (u32_small x) end
  | H : context [u32 ?x] |- _ => lazymatch goal with H' : u32 x <= x |- _ => fail | _ => pose proof (u32_le x); pose proof (u32_lt x); pose proof (u32_small x) end
  end.

(** closes the goals left by [mstep]: results other than [Fault] are immediate; a [Fault] branch
    must be contradictory *)
Ltac finish_safe :=
  cbv beta iota zeta delta [fst snd];
  try discriminate;
  exfalso; bool_hyps; prim_facts; autorewrite with lenN in *; cbv [MAX_CONTRACT_STATE W32 W64 MAX_LOG_SIZE] in *;
  u32_facts; cbv [W32] in *; lia.

Definition safe {X A} (m : M X A) (s : st X) : Prop := snd (m s) <> Fault.

(** the 16 KiB invariant of the legacy state *)
Definition state_ok {X} (s : st (host X)) : Prop := lenN (h_state (hs s)) <= 16384.

Section V0.
Context {X : Type}.
Notation S0 := (st (host X)).

Lemma get_parameter_size_safe : forall s : S0, safe get_parameter_size s.
Proof. intros. unfold safe, get_parameter_size. mstep. finish_safe. Qed.

Lemma read_section_safe : forall param start length offset (s : S0),
  safe (read_section param start length offset) s.
Proof. intros. unfold safe, read_section. mstep; finish_safe. Qed.

Lemma get_parameter_section_safe : forall start length offset (s : S0),
  safe (get_parameter_section start length offset) s.
Proof. intros. unfold safe, get_parameter_section, read_section. mstep; finish_safe. Qed.

Lemma get_policy_section_safe : forall start length offset (s : S0),
  safe (get_policy_section start length offset) s.
Proof. intros. unfold safe, get_policy_section, read_section. mstep; finish_safe. Qed.

Lemma log_event_safe : forall start length (s : S0), safe (log_event start length) s.
Proof. intros. unfold safe, log_event, logs_push. mstep; finish_safe. Qed.

Lemma load_state_safe : forall start length offset (s : S0), safe (load_state start length offset) s.
Proof. intros. unfold safe, load_state, st_load_state. mstep; finish_safe. Qed.

Lemma write_state_safe : forall start length offset (s : S0),
  state_ok s -> safe (write_state start length offset) s.
Proof. intros ? ? ? s Hinv. destruct s as [e0 m0 ev0 h0]. unfold state_ok in Hinv. cbn [hs] in Hinv. unfold safe, write_state, st_write_state. mstep; finish_safe. Qed.

Lemma resize_state_safe : forall new_size (s : S0), safe (resize_state new_size) s.
Proof. intros. unfold safe, resize_state, st_resize_state. mstep; finish_safe. Qed.

Lemma state_size_safe : forall s : S0, safe state_size s.
Proof. intros. unfold safe, state_size. mstep. finish_safe. Qed.

Lemma get_slot_time_safe : forall s : S0, safe get_slot_time s.
Proof. intros. unfold safe, get_slot_time. mstep. finish_safe. Qed.

Lemma put_address_safe : forall addr start (s : S0), safe (put_address addr start) s.
Proof. intros. unfold safe, put_address. mstep; finish_safe. Qed.

Lemma get_receive_self_address_safe : forall start (s : S0), safe (get_receive_self_address start) s.
Proof. intros. unfold safe, get_receive_self_address. mstep; finish_safe. Qed.

Lemma get_receive_sender_safe : forall start (s : S0), safe (get_receive_sender start) s.
Proof. intros. unfold safe, get_receive_sender. mstep; finish_safe. Qed.

Lemma accept_safe : forall s : S0, safe accept s.
Proof. intros. unfold safe, accept, push_action. mstep; finish_safe. Qed.

Lemma simple_transfer_safe : forall a b (s : S0), safe (simple_transfer a b) s.
Proof. intros. unfold safe, simple_transfer, push_action. mstep; finish_safe. Qed.

Lemma send_safe : forall a b c d e f g (s : S0), safe (send a b c d e f g) s.
Proof. intros. unfold safe, send, out_send, push_action. mstep; finish_safe. Qed.

Lemma combine_and_safe : forall l r (s : S0), safe (combine_and l r) s.
Proof. intros. unfold safe, combine_and, out_combine, push_action. mstep; finish_safe. Qed.
Lemma combine_or_safe : forall l r (s : S0), safe (combine_or l r) s.
Proof. intros. unfold safe, combine_or, out_combine, push_action. mstep; finish_safe. Qed.

(** *** every v0 host call is total: it never reaches [Fault] *)
Theorem call_v0_safe : forall f args (s : S0), state_ok s -> safe (call_v0 f args) s.
Proof.
  intros f args s Hinv. unfold safe, call_v0.
  change (snd ((h <- get_hs ;; (if h_init h && v0_receive_only f then trap
            else if negb (h_init h) && match f with V0get_init_origin => true | _ => false end then trap
            else call_v0_raw f args)) s) <> Fault).
  cbv beta iota delta [bind get_hs].
  destruct (h_init (hs s) && v0_receive_only f); [unfold trap; cbn [snd]; discriminate|].
  destruct (negb (h_init (hs s)) && match f with V0get_init_origin => true | _ => false end); [unfold trap; cbn [snd]; discriminate|].
  destruct f; cbn [call_v0_raw];
    repeat (match goal with |- context [match ?l with [] => _ | _ :: _ => _ end] => is_var l; destruct l end; cbn [call_v0_raw]);
    try (unfold trap; cbn [snd]; discriminate).
  all: first
    [ apply accept_safe | apply simple_transfer_safe | apply send_safe | apply combine_and_safe
    | apply combine_or_safe | apply get_parameter_size_safe | apply get_parameter_section_safe
    | apply get_policy_section_safe | apply log_event_safe | apply load_state_safe
    | (apply write_state_safe; assumption) | apply resize_state_safe | apply state_size_safe
    | apply get_receive_self_address_safe | apply get_receive_sender_safe | apply get_slot_time_safe
    | (unfold get_init_origin, get_receive_invoker, get_receive_owner; mprims; apply put_address_safe)
    | (unfold get_receive_self_balance; mstep; finish_safe) ].
Qed.

End V0.
