(** C14 - proofs about the v0 host functions (HostV0.v). *)
From Coq Require Import NArith List Bool Lia.
From CB Require Import Gen.HostCosts Contract.HostBase Contract.HostBaseProofs Contract.HostV0.
Import ListNotations.
Local Open Scope N_scope.

Lemma lenN_le_bytes : forall k x, lenN (le_bytes k x) = N.of_nat k.
Proof. induction k; intros; cbn [le_bytes]; [reflexivity|]. rewrite lenN_cons, IHk. lia. Qed.

Global Hint Rewrite lenN_app lenN_firstnN lenN_skipnN lenN_zerosN lenN_resizeN lenN_cons lenN_nil
  lenN_le_bytes lenN_rev_append : lenN.

Ltac u32_facts :=
  repeat match goal with
  | |- context [u16 ?x] => lazymatch goal with H : u16 x < 65536 |- _ => fail | _ => pose proof (u16_lt x) end
  | H : context [u16 ?x] |- _ => lazymatch goal with H' : u16 x < 65536 |- _ => fail | _ => pose proof (u16_lt x) end
  | |- context [u32 ?x] => lazymatch goal with H : u32 x <= x |- _ => fail | _ => pose proof (u32_le x); pose proof (u32_lt x); pose proof (u32_small x) end
  | H : context [u32 ?x] |- _ => lazymatch goal with H' : u32 x <= x |- _ => fail | _ => pose proof (u32_le x); pose proof (u32_lt x); pose proof (u32_small x) end
  end.

(** closes the goals left by [mstep]: results other than [Fault] are immediate; a [Fault] branch
    must be contradictory *)
Ltac finish_safe :=
  cbv beta iota zeta delta [fst snd];
  try discriminate;
  exfalso; bool_hyps; prim_facts; autorewrite with lenN in *; cbv [MAX_CONTRACT_STATE W32 W64 MAX_LOG_SIZE] in *;
  u32_facts; cbv [W32] in *; lia.

Definition safe {X A} (m : M X A) (s : st X) : Prop := snd (m s) <> Fault.

(** the 16 KiB invariant of the legacy state *)
Definition state_ok {X} (s : st (host X)) : Prop := lenN (h_state (hs s)) <= 16384.

Ltac unfold_v0 :=
  unfold accept, simple_transfer, send, combine_and, combine_or, get_parameter_size, get_parameter_section,
    get_policy_section, log_event, load_state, write_state, resize_state, state_size, get_init_origin,
    get_receive_invoker, get_receive_self_address, get_receive_self_balance, get_receive_sender,
    get_receive_owner, get_slot_time, put_address, read_section, out_send, out_combine, push_action,
    logs_push, st_write_state, st_load_state, st_resize_state.

Ltac split_args args :=
  destruct args as [|?a [|?a [|?a [|?a [|?a [|?a [|?a [|?a args]]]]]]]].

Section V0.
Context {X : Type}.
Notation S0 := (st (host X)).

(** *** every v0 host call is total: for well-typed stack values it never reaches [Fault]
    (no out-of-bounds slice, no usize overflow) *)
Theorem call_v0_safe : forall f args (s : S0), args_wf (sig0 f) args -> state_ok s -> safe (call_v0 f args) s.
Proof.
  intros f args s Hwf H. destruct s as [e0 m0 ev0 h0]. unfold state_ok in H. cbn [hs] in H.
  unfold safe, call_v0.
  destruct f; split_args args; cbn [call_v0_raw sig0 args_wf] in *; unfold_v0; mstep; finish_safe.
Qed.

End V0.
