(** C16 - parse (print v) = v for the textual forms of [Text.v]: amounts, durations,
    contract addresses (timestamps are in [TimeProofs.v]). *)
From Coq Require Import NArith ZArith List Bool Lia.
From CB Require Import Contract.Text.
Import ListNotations.
Local Open Scope N_scope.

Arguments N.add : simpl never.
Arguments N.sub : simpl never.
Arguments N.mul : simpl never.
Arguments N.eqb : simpl never.
Arguments N.ltb : simpl never.
Arguments N.leb : simpl never.
Arguments N.pow : simpl never.
Arguments N.div : simpl never.
Arguments N.modulo : simpl never.


(** ** digit lists *)
Definition val_lsb (l : list N) : N := fold_right (fun d acc => d + 10 * acc) 0 l.
Fixpoint val_msb (acc : N) (l : list N) : N :=
  match l with [] => acc | d :: l' => val_msb (acc * 10 + d) l' end.
Definition all_digits (l : list N) : Prop := Forall (fun d => d < 10) l.

Lemma val_msb_app : forall a b acc, val_msb acc (a ++ b) = val_msb (val_msb acc a) b.
Proof. induction a; intros; cbn; auto. Qed.
Lemma val_msb_rev : forall l acc, val_msb acc (rev l) = acc * 10 ^ N.of_nat (length l) + val_lsb l.
Proof.
  induction l as [|d l IH]; intros acc.
  - cbn. change (10 ^ 0) with 1. lia.
  - cbn [rev length val_lsb fold_right]. rewrite val_msb_app, IH. cbn [val_msb].
    rewrite Nat2N.inj_succ, N.pow_succ_r'. fold (val_lsb l). lia.
Qed.
Lemma val_msb_ge : forall l acc, acc <= val_msb acc l.
Proof. induction l as [|d l IH]; intros acc; cbn; [lia|]. specialize (IH (acc * 10 + d)). lia. Qed.
Lemma val_msb_mono : forall l a b, a <= b -> val_msb a l <= val_msb b l.
Proof. induction l as [|d l IH]; intros a b H; cbn; [exact H|]. apply IH. lia. Qed.

Lemma all_digits_rev : forall l, all_digits l -> all_digits (rev l).
Proof. intros l H. apply Forall_rev. exact H. Qed.

Lemma digits_rev_digits : forall fuel n, all_digits (digits_rev fuel n).
Proof.
  induction fuel as [|f IH]; intros n; cbn; [constructor|].
  destruct (n <? 10) eqn:E.
  - apply N.ltb_lt in E. repeat constructor. exact E.
  - constructor; [apply N.mod_lt; lia | apply IH].
Qed.
Lemma digits_rev_val : forall fuel n, n < 10 ^ N.of_nat fuel -> val_lsb (digits_rev fuel n) = n.
Proof.
  induction fuel as [|f IH]; intros n H.
  - cbn in *. change (10 ^ 0) with 1 in H. lia.
  - rewrite Nat2N.inj_succ, N.pow_succ_r' in H. cbn [digits_rev].
    destruct (n <? 10) eqn:E.
    + cbn. lia.
    + cbn [val_lsb fold_right]. fold (val_lsb (digits_rev f (n / 10))).
      rewrite IH by (apply N.div_lt_upper_bound; lia).
      pose proof (N.div_mod n 10). lia.
Qed.
Lemma digits_rev_nonempty : forall fuel n, digits_rev (S fuel) n <> [].
Proof. intros. cbn. destruct (n <? 10); discriminate. Qed.
(** the most significant digit of a positive number is not zero *)
Lemma digits_rev_last : forall fuel n, 0 < n -> n < 10 ^ N.of_nat fuel -> 0 < last (digits_rev fuel n) 0.
Proof.
  induction fuel as [|f IH]; intros n Hp H.
  - change (10 ^ N.of_nat 0) with 1 in H. lia.
  - rewrite Nat2N.inj_succ, N.pow_succ_r' in H. cbn [digits_rev].
    destruct (n <? 10) eqn:E; [cbn; exact Hp|].
    apply N.ltb_ge in E.
    assert (Hq : 0 < n / 10) by (apply N.div_str_pos; lia).
    assert (Hl : n / 10 < 10 ^ N.of_nat f) by (apply N.div_lt_upper_bound; lia).
    specialize (IH _ Hq Hl).
    destruct f as [|f']; [change (10 ^ N.of_nat 0) with 1 in Hl; lia|].
    pose proof (digits_rev_nonempty f' (n / 10)) as NE.
    destruct (digits_rev (S f') (n / 10)) eqn:D; [congruence|]. exact IH.
Qed.

Definition P40 : N := 10 ^ 40.
Lemma W64_lt_P40 : W64 < P40. Proof. reflexivity. Qed.

Lemma dec_digits_digits : forall n, all_digits (dec_digits n).
Proof. intros. apply all_digits_rev, digits_rev_digits. Qed.
Lemma dec_digits_val : forall n acc, n < P40 ->
  val_msb acc (dec_digits n) = acc * 10 ^ N.of_nat (length (digits_rev 40 n)) + n.
Proof. intros n acc H. unfold dec_digits. rewrite val_msb_rev, digits_rev_val by exact H. reflexivity. Qed.
Lemma dec_digits_val0 : forall n, n < P40 -> val_msb 0 (dec_digits n) = n.
Proof. intros n H. rewrite dec_digits_val by exact H. lia. Qed.
Lemma dec_digits_cons : forall n, exists d ds, dec_digits n = d :: ds /\ d < 10.
Proof.
  intros n. pose proof (dec_digits_digits n) as H. unfold dec_digits in *.
  pose proof (digits_rev_nonempty 39 n) as NE.
  destruct (rev (digits_rev 40 n)) as [|d ds] eqn:E.
  - exfalso. apply NE. apply (f_equal (@rev N)) in E. rewrite rev_involutive in E. exact E.
  - exists d, ds. inversion H; subst. auto.
Qed.
Lemma dec_digits_head_pos : forall n d ds, 0 < n -> n < P40 -> dec_digits n = d :: ds -> 0 < d.
Proof.
  intros n d ds Hp H E. pose proof (digits_rev_last 40 n Hp H) as L.
  unfold dec_digits in E. apply (f_equal (@rev N)) in E. rewrite rev_involutive in E. rewrite E in L.
  cbn [rev] in L. rewrite last_last in L. exact L.
Qed.
Lemma dec_digits_zero : dec_digits 0 = [0].
Proof. reflexivity. Qed.

Lemma fixed_rev_digits : forall k n, all_digits (fixed_rev k n).
Proof. induction k; intros; cbn; constructor; [apply N.mod_lt; lia | apply IHk]. Qed.
Lemma fixed_rev_length : forall k n, length (fixed_rev k n) = k.
Proof. induction k; intros; cbn; [reflexivity | f_equal; apply IHk]. Qed.
Lemma fixed_rev_val : forall k n, n < 10 ^ N.of_nat k -> val_lsb (fixed_rev k n) = n.
Proof.
  induction k as [|k IH]; intros n H.
  - change (10 ^ N.of_nat 0) with 1 in H. cbn. lia.
  - rewrite Nat2N.inj_succ, N.pow_succ_r' in H. cbn [fixed_rev val_lsb fold_right].
    fold (val_lsb (fixed_rev k (n / 10))). rewrite IH by (apply N.div_lt_upper_bound; lia).
    pose proof (N.div_mod n 10). lia.
Qed.
Definition fixed_digits (k : nat) (n : N) : list N := rev (fixed_rev k n).
Lemma print_fixed_eq : forall k n, print_fixed k n = map digit_char (fixed_digits k n).
Proof. reflexivity. Qed.
Lemma fixed_digits_digits : forall k n, all_digits (fixed_digits k n).
Proof. intros. apply all_digits_rev, fixed_rev_digits. Qed.
Lemma fixed_digits_length : forall k n, length (fixed_digits k n) = k.
Proof. intros. unfold fixed_digits. rewrite rev_length. apply fixed_rev_length. Qed.
Lemma fixed_digits_val : forall k n acc, n < 10 ^ N.of_nat k ->
  val_msb acc (fixed_digits k n) = acc * 10 ^ N.of_nat k + n.
Proof.
  intros. unfold fixed_digits. rewrite val_msb_rev, fixed_rev_length, fixed_rev_val by assumption. reflexivity.
Qed.

(** ** characters *)
Lemma is_digit_char : forall d, d < 10 -> is_digit (digit_char d) = true.
Proof. intros d H. unfold is_digit, digit_char. rewrite andb_true_iff, !N.leb_le. lia. Qed.
Lemma digit_val_char : forall d, digit_val (digit_char d) = d.
Proof. intros. unfold digit_val, digit_char. lia. Qed.
Lemma digit_char_range : forall d, d < 10 -> 48 <= digit_char d <= 57.
Proof. intros. unfold digit_char. lia. Qed.
Lemma is_digit_false : forall c, (c < 48 \/ 57 < c) -> is_digit c = false.
Proof.
  intros c H. unfold is_digit. destruct (48 <=? c) eqn:A; [|reflexivity].
  apply N.leb_le in A. cbn. apply N.leb_gt. lia.
Qed.
Lemma is_ws_digit_char : forall d, d < 10 -> is_ws (digit_char d) = false.
Proof.
  intros d H. pose proof (digit_char_range d H) as R. set (c := digit_char d) in *. unfold is_ws.
  rewrite !orb_false_iff.
  repeat split; try (apply N.eqb_neq; lia);
    apply andb_false_iff; first [left; apply N.leb_gt; lia | right; apply N.leb_gt; lia].
Qed.

(** ** [parse_digits] / [parse_u64] on a printed number *)
Lemma parse_digits_ok : forall ds acc, all_digits ds -> val_msb acc ds < W64 ->
  parse_digits acc (map digit_char ds) = Some (val_msb acc ds).
Proof.
  induction ds as [|d ds IH]; intros acc Hd Hv; [reflexivity|].
  inversion Hd; subst. cbn [map parse_digits val_msb] in *.
  rewrite is_digit_char, digit_val_char by assumption.
  pose proof (val_msb_ge ds (acc * 10 + d)).
  assert (acc * 10 + d <? W64 = true) as -> by (apply N.ltb_lt; lia).
  apply IH; assumption.
Qed.
Lemma parse_digits_nondigit : forall s acc c, In c s -> is_digit c = false -> parse_digits acc s = None.
Proof.
  induction s as [|x s IH]; intros acc c Hin Hc; [destruct Hin|].
  cbn [parse_digits]. destruct Hin as [->|Hin].
  - rewrite Hc. reflexivity.
  - destruct (is_digit x); [|reflexivity]. destruct (_ <? W64); [|reflexivity]. eapply IH; eauto.
Qed.
Lemma parse_u64_digits : forall ds, all_digits ds -> ds <> [] -> val_msb 0 ds < W64 ->
  parse_u64 (map digit_char ds) = Some (val_msb 0 ds).
Proof.
  intros ds Hd Hne Hv. destruct ds as [|d ds]; [congruence|]. inversion Hd; subst.
  cbn [map parse_u64].
  assert (digit_char d =? 43 = false) as -> by (apply N.eqb_neq; unfold digit_char; lia).
  apply (parse_digits_ok (d :: ds)); assumption.
Qed.
Theorem parse_u64_print_dec : forall n, n < W64 -> parse_u64 (print_dec n) = Some n.
Proof.
  intros n H. assert (HP : n < P40) by (pose proof W64_lt_P40; lia).
  unfold print_dec. destruct (dec_digits_cons n) as (d & ds & E & _).
  rewrite <- (dec_digits_val0 n HP) at 2.
  apply parse_u64_digits; [apply dec_digits_digits | rewrite E; discriminate | rewrite dec_digits_val0; assumption].
Qed.

(** ** Amount *)
Lemma amt_frac_digits : forall ds acc after rest, all_digits ds ->
  after + N.of_nat (length ds) <= 6 -> val_msb acc ds < W64 ->
  amt_frac acc after (map digit_char ds ++ rest) = amt_frac (val_msb acc ds) (after + N.of_nat (length ds)) rest.
Proof.
  induction ds as [|d ds IH]; intros acc after rest Hd Hl Hv.
  - cbn. f_equal. lia.
  - inversion Hd; subst. cbn [map app amt_frac val_msb length] in *. rewrite Nat2N.inj_succ in *.
    assert (6 <=? after = false) as -> by (apply N.leb_gt; lia).
    rewrite is_digit_char, digit_val_char by assumption.
    pose proof (val_msb_ge ds (acc * 10 + d)).
    assert (acc * 10 + d <? W64 = true) as -> by (apply N.ltb_lt; lia).
    rewrite IH by (auto; lia). f_equal. lia.
Qed.
Lemma amt_int_digits : forall ds acc rest, all_digits ds -> val_msb acc ds < W64 ->
  amt_int acc (map digit_char ds ++ rest) = amt_int (val_msb acc ds) rest.
Proof.
  induction ds as [|d ds IH]; intros acc rest Hd Hv; [reflexivity|].
  inversion Hd; subst. cbn [map app amt_int val_msb] in *.
  rewrite is_digit_char, digit_val_char by assumption.
  pose proof (val_msb_ge ds (acc * 10 + d)).
  assert (acc * 10 + d <? W64 = true) as -> by (apply N.ltb_lt; lia).
  apply IH; assumption.
Qed.

(** the part after the dot, as printed by [Display]: "0" or six digits *)
Lemma amt_frac_printed : forall q r, r < 1000000 -> q * 1000000 + r < W64 ->
  amt_frac q 0 (if r =? 0 then [48] else print_fixed 6 r) = Ok (q * 1000000 + r).
Proof.
  intros q r Hr Hm. destruct (r =? 0) eqn:E.
  - apply N.eqb_eq in E. subst r. cbn [amt_frac].
    change (6 <=? 0) with false. change (is_digit 48) with true. cbv iota.
    change (digit_val 48) with 0.
    assert (q * 10 + 0 <? W64 = true) as -> by (apply N.ltb_lt; lia).
    change (0 + 1 =? 0) with false. cbv iota. unfold amt_finish.
    change (10 ^ (6 - (0 + 1))) with 100000.
    assert ((q * 10 + 0) * 100000 <? W64 = true) as -> by (apply N.ltb_lt; lia).
    f_equal. lia.
  - rewrite print_fixed_eq. rewrite <- (app_nil_r (map digit_char (fixed_digits 6 r))).
    rewrite amt_frac_digits.
    + rewrite fixed_digits_length, fixed_digits_val by exact Hr.
      change (0 + N.of_nat 6) with 6. change (10 ^ N.of_nat 6) with 1000000.
      cbn [amt_frac]. change (6 =? 0) with false. cbv iota. unfold amt_finish.
      change (10 ^ (6 - 6)) with 1.
      assert ((q * 1000000 + r) * 1 <? W64 = true) as -> by (apply N.ltb_lt; lia).
      f_equal. lia.
    + apply fixed_digits_digits.
    + rewrite fixed_digits_length. cbn. lia.
    + rewrite fixed_digits_val by exact Hr. change (10 ^ N.of_nat 6) with 1000000. exact Hm.
Qed.

Theorem amount_parse_print_all : forall m, m < W64 -> parse_amount (print_amount m) = Ok m.
Proof.
  intros m Hm. unfold print_amount.
  set (q := m / 1000000). set (r := m mod 1000000).
  assert (Hr : r < 1000000) by (apply N.mod_lt; lia).
  assert (Em : q * 1000000 + r = m) by (unfold q, r; pose proof (N.div_mod m 1000000); lia).
  assert (Hq : q < P40) by (pose proof W64_lt_P40; lia).
  clearbody q r.
  (* both shapes are: digits of q, a dot, the printed fraction *)
  assert (Shape : (if r =? 0 then print_dec q ++ [46; 48] else print_dec q ++ [46] ++ print_fixed 6 r)
                  = print_dec q ++ 46 :: (if r =? 0 then [48] else print_fixed 6 r)).
  { destruct (r =? 0); reflexivity. }
  rewrite Shape. clear Shape.
  pose proof (amt_frac_printed q r Hr ltac:(lia)) as F. rewrite Em in F.
  unfold print_dec. destruct (dec_digits_cons q) as (d & ds & E & Hd10).
  pose proof (dec_digits_digits q) as AD. pose proof (dec_digits_val0 q Hq) as V.
  rewrite E in AD, V |- *. assert (ADs : all_digits ds) by (inversion AD; assumption).
  cbn [map app parse_amount].
  rewrite is_digit_char by assumption.
  destruct (N.eq_dec q 0) as [Q0|Q0].
  - (* q = 0: the string starts with "0." *)
    clear V. subst q. rewrite dec_digits_zero in E. inversion E; subst d ds.
    change (digit_char 0 =? 48) with true. cbv iota. cbn [map app].
    change (46 =? 46) with true. cbv iota. exact F.
  - assert (Hd : 0 < d) by (eapply dec_digits_head_pos; eauto; lia).
    assert (digit_char d =? 48 = false) as -> by (apply N.eqb_neq; unfold digit_char; lia).
    rewrite digit_val_char.
    cbn [val_msb] in V. replace (0 * 10 + d) with d in V by lia.
    rewrite amt_int_digits by (auto; rewrite V; lia).
    rewrite V. cbn [amt_int]. change (is_digit 46) with false. change (46 =? 46) with true. cbv iota.
    exact F.
Qed.

(** ** Duration *)
Lemma span_digits_app : forall ds u rest, all_digits ds -> is_digit u = false ->
  span_digits (map digit_char ds ++ u :: rest) = (map digit_char ds, u :: rest).
Proof.
  induction ds as [|d ds IH]; intros u rest Hd Hu.
  - cbn. rewrite Hu. reflexivity.
  - inversion Hd; subst. cbn [map app span_digits]. rewrite is_digit_char by assumption.
    rewrite IH by assumption. reflexivity.
Qed.

Definition no_ws (w : list N) : Prop := Forall (fun c => is_ws c = false) w.
Lemma split_ws_aux_word : forall w cur tail, no_ws w ->
  split_ws_aux cur (w ++ tail) = split_ws_aux (rev w ++ cur) tail.
Proof.
  induction w as [|c w IH]; intros cur tail H; [reflexivity|].
  inversion H; subst. cbn [app split_ws_aux]. rewrite H2. rewrite IH by assumption.
  cbn [rev]. rewrite <- app_assoc. reflexivity.
Qed.
Lemma split_ws_word_space : forall w tail, no_ws w -> w <> [] ->
  split_ws_aux [] (w ++ 32 :: tail) = w :: split_ws_aux [] tail.
Proof.
  intros w tail H NE. rewrite split_ws_aux_word by exact H. rewrite app_nil_r.
  cbn [split_ws_aux]. change (is_ws 32) with true. cbv iota.
  destruct (rev w) eqn:E.
  - apply (f_equal (@rev N)) in E. rewrite rev_involutive in E. cbn in E. congruence.
  - rewrite <- E, rev_involutive. reflexivity.
Qed.
Lemma split_ws_word_end : forall w, no_ws w -> w <> [] -> split_ws_aux [] w = [w].
Proof.
  intros w H NE. rewrite <- (app_nil_r w) at 1. rewrite split_ws_aux_word by exact H. rewrite app_nil_r.
  cbn [split_ws_aux]. destruct (rev w) eqn:E.
  - apply (f_equal (@rev N)) in E. rewrite rev_involutive in E. cbn in E. congruence.
  - rewrite <- E, rev_involutive. reflexivity.
Qed.

Lemma no_ws_print_dec : forall n, no_ws (print_dec n).
Proof.
  intros n. unfold print_dec, no_ws. rewrite Forall_map.
  eapply Forall_impl; [|apply dec_digits_digits]. intros d H. apply is_ws_digit_char. exact H.
Qed.
Lemma no_ws_app : forall a b, no_ws a -> no_ws b -> no_ws (a ++ b).
Proof. intros. apply Forall_app. auto. Qed.
Lemma print_dec_nonempty : forall n, print_dec n <> [].
Proof. intros n. unfold print_dec. destruct (dec_digits_cons n) as (d & ds & E & _). rewrite E. discriminate. Qed.

(** one printed measure: number, then a unit that starts with a letter *)
Lemma measure_step : forall n u0 u k acc ms', n < W64 -> is_digit u0 = false ->
  unit_of (u0 :: u) = Some k -> n * k < W64 -> acc + n * k < W64 ->
  dur_fold acc ((print_dec n ++ u0 :: u) :: ms') = dur_fold (acc + n * k) ms'.
Proof.
  intros n u0 u k acc ms' Hn Hu Hk H1 H2. cbn [dur_fold]. unfold print_dec at 1.
  rewrite span_digits_app by (auto; apply dec_digits_digits).
  fold (print_dec n). rewrite parse_u64_print_dec by exact Hn. rewrite Hk.
  assert (n * k <? W64 = true) as -> by (apply N.ltb_lt; exact H1).
  assert (acc + n * k <? W64 = true) as -> by (apply N.ltb_lt; exact H2).
  reflexivity.
Qed.

Lemma mod_split : forall m k c, k <> 0 -> c <> 0 ->
  (m mod (k * c)) / k * k + m mod k = m mod (k * c).
Proof.
  intros m k c Hk Hc. rewrite (N.mod_mul_r m k c Hk Hc).
  set (x := (m / k) mod c). pose proof (N.mod_lt m k Hk) as L.
  replace (m mod k + k * x) with (m mod k + x * k) by lia.
  rewrite N.div_add by exact Hk. rewrite (N.div_small (m mod k) k L). lia.
Qed.

Theorem duration_parse_print_all : forall m, m < W64 -> parse_duration (print_duration m) = Ok m.
Proof.
  intros m Hm. unfold parse_duration, print_duration, split_ws.
  set (a := m / MS_D). set (b := (m mod MS_D) / MS_H). set (c := (m mod MS_H) / MS_M).
  set (d := (m mod MS_M) / MS_S). set (e := m mod MS_S).
  assert (Sum : a * MS_D + b * MS_H + c * MS_M + d * MS_S + e = m).
  { unfold a, b, c, d, e, MS_D, MS_H, MS_M, MS_S.
    pose proof (N.div_mod m 86400000 ltac:(lia)) as E0.
    pose proof (mod_split m 3600000 24 ltac:(lia) ltac:(lia)) as E1. change (3600000 * 24) with 86400000 in E1.
    pose proof (mod_split m 60000 60 ltac:(lia) ltac:(lia)) as E2. change (60000 * 60) with 3600000 in E2.
    pose proof (mod_split m 1000 60 ltac:(lia) ltac:(lia)) as E3. change (1000 * 60) with 60000 in E3.
    lia. }
  assert (nw : forall n u, no_ws u -> no_ws (print_dec n ++ u)) by (intros; apply no_ws_app; [apply no_ws_print_dec | assumption]).
  assert (ne : forall n (u : list N), print_dec n ++ u <> []).
  { intros n u X. apply app_eq_nil in X. destruct X as [X _]. exact (print_dec_nonempty n X). }
  (* regroup into words separated by single spaces *)
  replace (print_dec a ++ [100; 32] ++ print_dec b ++ [104; 32] ++ print_dec c ++ [109; 32]
           ++ print_dec d ++ [115; 32] ++ print_dec e ++ [109; 115])
    with ((print_dec a ++ [100]) ++ 32 :: (print_dec b ++ [104]) ++ 32 :: (print_dec c ++ [109]) ++ 32 ::
          (print_dec d ++ [115]) ++ 32 :: (print_dec e ++ [109; 115]))
    by (repeat (rewrite <- app_assoc; cbn [app]); reflexivity).
  assert (W1 : forall ch, is_ws ch = false -> no_ws [ch]) by (intros; repeat constructor; assumption).
  rewrite split_ws_word_space by (auto; apply nw, W1; reflexivity).
  rewrite split_ws_word_space by (auto; apply nw, W1; reflexivity).
  rewrite split_ws_word_space by (auto; apply nw, W1; reflexivity).
  rewrite split_ws_word_space by (auto; apply nw, W1; reflexivity).
  rewrite split_ws_word_end by (auto; apply nw; repeat constructor).
  assert (Ha : a * MS_D <= m) by lia.
  unfold MS_D, MS_H, MS_M, MS_S in *.
  rewrite (measure_step a 100 [] 86400000) by (try reflexivity; lia).
  rewrite (measure_step b 104 [] 3600000) by (try reflexivity; lia).
  rewrite (measure_step c 109 [] 60000) by (try reflexivity; lia).
  rewrite (measure_step d 115 [] 1000) by (try reflexivity; lia).
  rewrite (measure_step e 109 [115] 1) by (try reflexivity; lia).
  cbn [dur_fold]. f_equal. lia.
Qed.

(** ** ContractAddress *)
Lemma split_comma_app : forall a b, ~ In 44 a -> split_comma (a ++ 44 :: b) = Some (a, b).
Proof.
  induction a as [|c a IH]; intros b H.
  - cbn. change (44 =? 44) with true. reflexivity.
  - cbn [app split_comma]. destruct (c =? 44) eqn:E.
    + apply N.eqb_eq in E. subst. exfalso. apply H. left. reflexivity.
    + rewrite IH by (intros X; apply H; right; exact X). reflexivity.
Qed.
Lemma print_dec_no_comma : forall n, ~ In 44 (print_dec n).
Proof.
  intros n H. unfold print_dec in H. apply in_map_iff in H. destruct H as (d & E & Hin).
  pose proof (dec_digits_digits n) as AD. unfold all_digits in AD. rewrite Forall_forall in AD.
  specialize (AD _ Hin). unfold digit_char in E. lia.
Qed.

Theorem contract_address_parse_print_all : forall i j, i < W64 -> j < W64 ->
  parse_contract_address (print_contract_address (i, j)) = Ok (i, j).
Proof.
  intros i j Hi Hj. unfold print_contract_address. cbn [fst snd app].
  unfold parse_contract_address. change (60 =? 60) with true. cbv iota. cbn [negb].
  replace (60 :: print_dec i ++ 44 :: print_dec j ++ [62])
    with ((60 :: print_dec i ++ 44 :: print_dec j) ++ [62]) by (cbn [app]; rewrite <- app_assoc; reflexivity).
  rewrite last_last. change (62 =? 62) with true. cbn [negb].
  replace (print_dec i ++ 44 :: print_dec j ++ [62]) with ((print_dec i ++ 44 :: print_dec j) ++ [62])
    by (rewrite <- app_assoc; reflexivity).
  rewrite removelast_last.
  rewrite split_comma_app by apply print_dec_no_comma.
  rewrite !parse_u64_print_dec by assumption. reflexivity.
Qed.
