(** * CcSchemaCodecProofs — schemas round-trip through their binary form (decode (encode x) = x). *)
From Coq Require Import NArith ZArith Bool List Lia.
From CB Require Import Contract.SchemaJson Contract.SchemaJsonLemmas Contract.SchemaJsonProofs Contract.CcSchemaCodec.
Import ListNotations.
Local Open Scope N_scope.
Arguments N.add : simpl never.
Arguments N.sub : simpl never.
Arguments N.mul : simpl never.
Arguments N.pow : simpl never.
Arguments N.div : simpl never.
Arguments N.modulo : simpl never.
Arguments N.eqb : simpl never.
Arguments N.ltb : simpl never.
Arguments N.leb : simpl never.
Arguments N.of_nat : simpl never.
Arguments le : simpl never.
Arguments le_dec : simpl never.
Arguments take_n : simpl never.
Arguments dec_items : simpl never.
Arguments utf8_valid : simpl never.
Arguments dec_string : simpl never.

(* ------------------------------------------------------------------ well-formed schemas *)
(** What a schema value in memory satisfies: names are valid UTF-8; counts, array sizes and LEB128
    constraints are u32, tags are u8; the TaggedEnum map is in strictly increasing tag order. *)
Definition name_ok (s : str) : bool := utf8_valid s && (N.of_nat (length s) <? 2 ^ 32).
Definition u32_ok (n : N) : bool := n <? 2 ^ 32.
Definition len_ok (n : nat) : bool := N.of_nat n <? 2 ^ 32.
Fixpoint sorted_N (l : list N) : bool :=
  match l with
  | x :: ((y :: _) as r) => (x <? y) && sorted_N r
  | _ => true
  end.

Fixpoint cwf_ty (t : ty) : bool :=
  match t with
  | TPair a b => cwf_ty a && cwf_ty b
  | TList _ e | TSet _ e => cwf_ty e
  | TMap _ k v => cwf_ty k && cwf_ty v
  | TArray n e => u32_ok n && cwf_ty e
  | TStruct f => cwf_fields f
  | TEnum vs => len_ok (variants_len vs) && cwf_variants vs
  | TULeb128 c | TILeb128 c | TByteArray c => u32_ok c
  | TTaggedEnum vs => len_ok (tvariants_len vs) && sorted_N (tv_tags vs) && cwf_tvariants vs
  | _ => true
  end
with cwf_fields (f : fields) : bool :=
  match f with
  | FNamed l => len_ok (nfields_len l) && cwf_nfields l
  | FUnnamed l => len_ok (tys_len l) && cwf_tys l
  | FNone => true
  end
with cwf_nfields (l : nfields) : bool :=
  match l with NFnil => true | NFcons n t r => name_ok n && cwf_ty t && cwf_nfields r end
with cwf_tys (l : tys) : bool :=
  match l with TSnil => true | TScons t r => cwf_ty t && cwf_tys r end
with cwf_variants (l : variants) : bool :=
  match l with Vnil => true | Vcons n f r => name_ok n && cwf_fields f && cwf_variants r end
with cwf_tvariants (l : tvariants) : bool :=
  match l with TVnil => true | TVcons tag n f r => (tag <? 256) && name_ok n && cwf_fields f && cwf_tvariants r end.

Fixpoint variants_to_list (l : variants) : list (str * fields) :=
  match l with Vnil => [] | Vcons n f r => (n, f) :: variants_to_list r end.
Fixpoint tvariants_to_list (l : tvariants) : list (N * (str * fields)) :=
  match l with TVnil => [] | TVcons t n f r => (t, (n, f)) :: tvariants_to_list r end.

Lemma nfields_of_to : forall l, nfields_of_list (nfields_to_list l) = l.
Proof. induction l; simpl; congruence. Qed.
Lemma tys_of_to : forall l, tys_of_list (tys_to_list l) = l.
Proof. induction l; simpl; congruence. Qed.
Lemma variants_of_to : forall l, variants_of_list (variants_to_list l) = l.
Proof. induction l; simpl; congruence. Qed.
Lemma tvariants_of_to : forall l, tvariants_of_list (tvariants_to_list l) = l.
Proof. induction l; simpl; congruence. Qed.

(* ------------------------------------------------------------------ building blocks *)
Lemma u32_dec : forall n rest, len_ok n = true -> le_dec 4 (u32 n ++ rest) = Some (N.of_nat n, rest).
Proof.
  unfold len_ok, u32. intros n rest H. apply N.ltb_lt in H.
  rewrite N.mod_small by assumption. apply le_dec_le. exact H.
Qed.

Lemma enc_dec_str : forall s rest, name_ok s = true -> dec_str (enc_str s ++ rest) = Some (s, rest).
Proof.
  unfold name_ok, dec_str, enc_str, dec_string, dec_len. intros s rest H.
  apply andb_true_iff in H. destruct H as [Hu Hl].
  cbn [sl_bytes]. rewrite <- app_assoc. rewrite u32_dec by exact Hl.
  rewrite take_n_app, Hu. reflexivity.
Qed.

Lemma dec_vec_seq : forall {A} (item : list N -> option (A * list N)) n bs rest,
  len_ok n = true ->
  dec_vec item (u32 n ++ bs ++ rest) = dec_seq item n (bs ++ rest).
Proof.
  intros. unfold dec_vec. rewrite u32_dec by assumption. rewrite dec_items_seq, Nat2N.id. reflexivity.
Qed.

Lemma enc_dec_sl : forall s rest, dec_sl (enc_sl s ++ rest) = Some (s, rest).
Proof. destruct s; reflexivity. Qed.

Lemma map_build_sorted_N : forall {V} (l : list (N * V)),
  sorted_N (map fst l) = true -> map_build N.ltb l = Some l.
Proof.
  induction l as [|[k v] l IH]; intros H; [reflexivity|].
  cbn [map_build]. cbn [map fst sorted_N] in H.
  destruct l as [|[k' v'] l'].
  - reflexivity.
  - cbn [map fst] in H. apply andb_true_iff in H. destruct H as [H1 H2].
    rewrite IH by exact H2. cbn [map_insert]. rewrite H1. reflexivity.
Qed.

Lemma tv_tags_map : forall vs, map fst (tvariants_to_list vs) = tv_tags vs.
Proof. induction vs; simpl; congruence. Qed.

(* ------------------------------------------------------------------ Type, Fields *)
Definition Q_ty (t : ty) : Prop := cwf_ty t = true ->
  forall fuel rest, (length (enc_ty t) < fuel)%nat -> dec_ty fuel (enc_ty t ++ rest) = Some (t, rest).
Definition Q_fields (f : fields) : Prop := cwf_fields f = true ->
  forall fuel rest, (length (enc_fields f) < fuel)%nat -> dec_fields fuel (enc_fields f ++ rest) = Some (f, rest).
Definition Q_nfields (l : nfields) : Prop := cwf_nfields l = true ->
  forall fuel rest, (length (enc_nfields l) < fuel)%nat ->
  dec_seq (dec_pair dec_str (dec_ty fuel)) (nfields_len l) (enc_nfields l ++ rest) = Some (nfields_to_list l, rest).
Definition Q_tys (l : tys) : Prop := cwf_tys l = true ->
  forall fuel rest, (length (enc_tys l) < fuel)%nat ->
  dec_seq (dec_ty fuel) (tys_len l) (enc_tys l ++ rest) = Some (tys_to_list l, rest).
Definition Q_variants (l : variants) : Prop := cwf_variants l = true ->
  forall fuel rest, (length (enc_variants l) < fuel)%nat ->
  dec_seq (dec_pair dec_str (dec_fields fuel)) (variants_len l) (enc_variants l ++ rest) = Some (variants_to_list l, rest).
Definition Q_tvariants (l : tvariants) : Prop := cwf_tvariants l = true ->
  forall fuel rest, (length (enc_tvariants l) < fuel)%nat ->
  dec_seq (dec_pair (le_dec 1) (dec_pair dec_str (dec_fields fuel))) (tvariants_len l) (enc_tvariants l ++ rest)
  = Some (tvariants_to_list l, rest).

Ltac unf_enc :=
  cbn [enc_ty enc_fields enc_nfields enc_tys enc_variants enc_tvariants];
  fold enc_ty enc_fields enc_nfields enc_tys enc_variants enc_tvariants.
Ltac unf_enc_in H :=
  cbn [enc_ty enc_fields enc_nfields enc_tys enc_variants enc_tvariants] in H;
  fold enc_ty enc_fields enc_nfields enc_tys enc_variants enc_tvariants in H.
Ltac unf_cwf H :=
  cbn [cwf_ty cwf_fields cwf_nfields cwf_tys cwf_variants cwf_tvariants] in H;
  fold cwf_ty cwf_fields cwf_nfields cwf_tys cwf_variants cwf_tvariants in H.
Ltac unf_dec :=
  cbn [dec_ty dec_fields app]; fold dec_ty dec_fields.
Ltac split_and H :=
  repeat match type of H with
         | (_ && _)%bool = true => let H1 := fresh H in apply andb_true_iff in H; destruct H as [H H1]; try split_and H1
         end.
(** a nullary type constructor: one tag byte *)
Ltac leaf := intros _ fuel rest Hf; destruct fuel as [|f]; [cbn in Hf; lia|]; reflexivity.
(** a constructor with a size-length argument *)
Ltac leaf_sl := intros s _ fuel rest Hf; destruct fuel as [|f]; [cbn in Hf; lia|]; destruct s; reflexivity.

Lemma app_length3 : forall {A} (a b c : list A), length (a ++ b ++ c) = (length a + length b + length c)%nat.
Proof. intros. rewrite !app_length. lia. Qed.

Lemma codec_all :
  (forall t, Q_ty t) /\ (forall f, Q_fields f) /\ (forall l, Q_nfields l) /\ (forall l, Q_tys l)
  /\ (forall l, Q_variants l) /\ (forall l, Q_tvariants l).
Proof.
  apply ty_mutind; unfold Q_ty, Q_fields, Q_nfields, Q_tys, Q_variants, Q_tvariants.
  - leaf. - leaf. - leaf. - leaf. - leaf. - leaf. - leaf. - leaf. - leaf. - leaf. - leaf. - leaf.
  - leaf. - leaf. - leaf. - leaf. - leaf.
  - (* Pair *) intros a IHa b IHb Hw fuel rest Hf. unf_cwf Hw. split_and Hw.
    unf_enc_in Hf. cbn [length] in Hf. rewrite app_length in Hf.
    destruct fuel as [|f]; [lia|]. unf_enc. unf_dec. unfold dec_pair.
    rewrite <- app_assoc. rewrite IHa by (auto; lia). rewrite IHb by (auto; lia). reflexivity.
  - (* List *) intros s e IHe Hw fuel rest Hf. unf_cwf Hw.
    unf_enc_in Hf. cbn [length] in Hf. rewrite app_length in Hf.
    destruct fuel as [|f]; [lia|]. unf_enc. unf_dec. unfold dec_pair.
    rewrite <- app_assoc. rewrite enc_dec_sl. rewrite IHe by (auto; lia). reflexivity.
  - (* Set *) intros s e IHe Hw fuel rest Hf. unf_cwf Hw.
    unf_enc_in Hf. cbn [length] in Hf. rewrite app_length in Hf.
    destruct fuel as [|f]; [lia|]. unf_enc. unf_dec. unfold dec_pair.
    rewrite <- app_assoc. rewrite enc_dec_sl. rewrite IHe by (auto; lia). reflexivity.
  - (* Map *) intros s k IHk v IHv Hw fuel rest Hf. unf_cwf Hw. split_and Hw.
    unf_enc_in Hf. cbn [length] in Hf. rewrite app_length3 in Hf.
    destruct fuel as [|f]; [lia|]. unf_enc. unf_dec. unfold dec_pair.
    rewrite <- !app_assoc. rewrite enc_dec_sl. rewrite IHk by (auto; lia). rewrite IHv by (auto; lia). reflexivity.
  - (* Array *) intros n e IHe Hw fuel rest Hf. unf_cwf Hw. split_and Hw.
    unf_enc_in Hf. cbn [length] in Hf. rewrite app_length in Hf.
    destruct fuel as [|f]; [lia|]. unf_enc. unf_dec. unfold dec_pair.
    rewrite <- app_assoc. rewrite le_dec_le by (apply N.ltb_lt; exact Hw).
    rewrite IHe by (auto; lia). reflexivity.
  - (* Struct *) intros fs IHf Hw fuel rest Hf. unf_cwf Hw.
    unf_enc_in Hf. cbn [length] in Hf.
    destruct fuel as [|f]; [lia|]. unf_enc. unf_dec.
    rewrite IHf by (auto; lia). reflexivity.
  - (* Enum *) intros vs IHvs Hw fuel rest Hf. unf_cwf Hw. split_and Hw.
    unf_enc_in Hf. cbn [length] in Hf. rewrite app_length in Hf.
    destruct fuel as [|f]; [lia|]. unf_enc. unf_dec.
    rewrite <- app_assoc. rewrite dec_vec_seq by exact Hw.
    rewrite IHvs by (auto; lia). rewrite variants_of_to. reflexivity.
  - leaf_sl.
  - leaf_sl.
  - leaf_sl.
  - (* ULeb128 *) intros c Hw fuel rest Hf. unf_cwf Hw. destruct fuel as [|f]; [cbn in Hf; lia|].
    unf_enc. unf_dec. rewrite le_dec_le by (apply N.ltb_lt; exact Hw). reflexivity.
  - (* ILeb128 *) intros c Hw fuel rest Hf. unf_cwf Hw. destruct fuel as [|f]; [cbn in Hf; lia|].
    unf_enc. unf_dec. rewrite le_dec_le by (apply N.ltb_lt; exact Hw). reflexivity.
  - leaf_sl.
  - (* ByteArray *) intros c Hw fuel rest Hf. unf_cwf Hw. destruct fuel as [|f]; [cbn in Hf; lia|].
    unf_enc. unf_dec. rewrite le_dec_le by (apply N.ltb_lt; exact Hw). reflexivity.
  - (* TaggedEnum *) intros vs IHvs Hw fuel rest Hf. unf_cwf Hw. split_and Hw.
    unf_enc_in Hf. cbn [length] in Hf. rewrite app_length in Hf.
    destruct fuel as [|f]; [lia|]. unf_enc. unf_dec.
    rewrite <- app_assoc. rewrite dec_vec_seq by exact Hw.
    rewrite IHvs by (auto; lia).
    rewrite map_build_sorted_N by (rewrite tv_tags_map; assumption).
    rewrite tvariants_of_to. reflexivity.
  - (* FNamed *) intros l IHl Hw fuel rest Hf. unf_cwf Hw. split_and Hw.
    unf_enc_in Hf. cbn [length] in Hf. rewrite app_length in Hf.
    destruct fuel as [|f]; [lia|]. unf_enc. unf_dec.
    rewrite <- app_assoc. rewrite dec_vec_seq by exact Hw.
    rewrite IHl by (auto; lia). rewrite nfields_of_to. reflexivity.
  - (* FUnnamed *) intros l IHl Hw fuel rest Hf. unf_cwf Hw. split_and Hw.
    unf_enc_in Hf. cbn [length] in Hf. rewrite app_length in Hf.
    destruct fuel as [|f]; [lia|]. unf_enc. unf_dec.
    rewrite <- app_assoc. rewrite dec_vec_seq by exact Hw.
    rewrite IHl by (auto; lia). rewrite tys_of_to. reflexivity.
  - (* FNone *) intros _ fuel rest Hf. destruct fuel as [|f]; [cbn in Hf; lia|]. reflexivity.
  - (* NFnil *) intros _ fuel rest _. reflexivity.
  - (* NFcons *) intros n t IHt r IHr Hw fuel rest Hf. unf_cwf Hw. split_and Hw.
    unf_enc_in Hf. rewrite app_length3 in Hf.
    unf_enc. cbn [nfields_len dec_seq nfields_to_list]. unfold dec_pair at 1.
    rewrite <- !app_assoc. rewrite enc_dec_str by assumption.
    rewrite IHt by (auto; lia). rewrite IHr by (auto; lia). reflexivity.
  - (* TSnil *) intros _ fuel rest _. reflexivity.
  - (* TScons *) intros t IHt r IHr Hw fuel rest Hf. unf_cwf Hw. split_and Hw.
    unf_enc_in Hf. rewrite app_length in Hf.
    unf_enc. cbn [tys_len dec_seq tys_to_list].
    rewrite <- !app_assoc. rewrite IHt by (auto; lia). rewrite IHr by (auto; lia). reflexivity.
  - (* Vnil *) intros _ fuel rest _. reflexivity.
  - (* Vcons *) intros n f IHf r IHr Hw fuel rest Hf. unf_cwf Hw. split_and Hw.
    unf_enc_in Hf. rewrite app_length3 in Hf.
    unf_enc. cbn [variants_len dec_seq variants_to_list]. unfold dec_pair at 1.
    rewrite <- !app_assoc. rewrite enc_dec_str by assumption.
    rewrite IHf by (auto; lia). rewrite IHr by (auto; lia). reflexivity.
  - (* TVnil *) intros _ fuel rest _. reflexivity.
  - (* TVcons *) intros tag n f IHf r IHr Hw fuel rest Hf. unf_cwf Hw. split_and Hw.
    unf_enc_in Hf. cbn [length] in Hf. rewrite app_length3 in Hf.
    unf_enc. cbn [tvariants_len dec_seq tvariants_to_list]. unfold dec_pair at 1 2.
    cbn [app]. rewrite le_dec_1. rewrite <- !app_assoc.
    rewrite enc_dec_str by assumption.
    rewrite IHf by (auto; lia). rewrite IHr by (auto; lia). reflexivity.
Qed.

Theorem enc_dec_ty_top : forall t rest, cwf_ty t = true -> dec_ty_top (enc_ty t ++ rest) = Some (t, rest).
Proof.
  intros t rest Hw. unfold dec_ty_top. apply (proj1 codec_all t Hw). rewrite app_length. lia.
Qed.

(* ------------------------------------------------------------------ functions *)
Definition cwf_opt {A} (w : A -> bool) (o : option A) : bool := match o with Some a => w a | None => true end.
Definition cwf_f1 (f : function_v1) : bool :=
  match f with F1Param p => cwf_ty p | F1Ret r => cwf_ty r | F1Both p r => cwf_ty p && cwf_ty r end.
Definition cwf_f2 (f : function_v2) : bool :=
  cwf_opt cwf_ty (f2_param f) && cwf_opt cwf_ty (f2_ret f) && cwf_opt cwf_ty (f2_err f).

Lemma enc_dec_ty : forall t fuel rest, cwf_ty t = true -> (length (enc_ty t) < fuel)%nat ->
  dec_ty fuel (enc_ty t ++ rest) = Some (t, rest).
Proof. intros t fuel rest Hw Hf. exact (proj1 codec_all t Hw fuel rest Hf). Qed.

Lemma enc_dec_f1 : forall f fuel rest, cwf_f1 f = true -> (length (enc_f1 f) < fuel)%nat ->
  dec_f1 fuel (enc_f1 f ++ rest) = Some (f, rest).
Proof.
  intros [p|r|p r] fuel rest Hw Hf; cbn [enc_f1 cwf_f1 length] in *.
  - cbn [dec_f1 app]. rewrite enc_dec_ty by (auto; lia). reflexivity.
  - cbn [dec_f1 app]. rewrite enc_dec_ty by (auto; lia). reflexivity.
  - apply andb_true_iff in Hw. destruct Hw as [H1 H2]. rewrite app_length in Hf.
    cbn [dec_f1 app]. unfold dec_pair. rewrite <- app_assoc.
    rewrite enc_dec_ty by (auto; lia). rewrite enc_dec_ty by (auto; lia). reflexivity.
Qed.

Lemma enc_dec_f2 : forall f fuel rest, cwf_f2 f = true -> (length (enc_f2 f) < fuel)%nat ->
  dec_f2 fuel (enc_f2 f ++ rest) = Some (f, rest).
Proof.
  intros [p r e] fuel rest Hw Hf. unfold cwf_f2 in Hw. cbn [f2_param f2_ret f2_err] in Hw.
  apply andb_true_iff in Hw. destruct Hw as [Hw He]. apply andb_true_iff in Hw. destruct Hw as [Hp Hr].
  unfold enc_f2 in *. cbn [f2_param f2_ret f2_err] in *. cbn [length] in Hf. rewrite app_length3 in Hf.
  destruct p as [p|]; destruct r as [r|]; destruct e as [e|];
    cbn [cwf_opt] in Hp, Hr, He; cbn [enc_bare] in *; cbn [app];
    cbv [dec_f2 dec_if mem existsb N.eqb Pos.eqb orb N.ltb N.compare Pos.compare Pos.compare_cont f2_tag f2_param f2_ret f2_err];
    rewrite <- ?app_assoc; cbn [app];
    repeat (rewrite enc_dec_ty by (auto; cbn [length] in Hf; lia)); reflexivity.
Qed.

(* ------------------------------------------------------------------ maps, contracts, modules *)
Fixpoint sorted_str (l : list str) : bool :=
  match l with
  | x :: ((y :: _) as r) => str_ltb x y && sorted_str r
  | _ => true
  end.

Lemma map_build_sorted_str : forall {V} (l : list (str * V)),
  sorted_str (map fst l) = true -> map_build str_ltb l = Some l.
Proof.
  induction l as [|[k v] l IH]; intros H; [reflexivity|].
  cbn [map_build]. cbn [map fst sorted_str] in H.
  destruct l as [|[k' v'] l'].
  - reflexivity.
  - cbn [map fst] in H. apply andb_true_iff in H. destruct H as [H1 H2].
    rewrite IH by exact H2. cbn [map_insert]. rewrite H1. reflexivity.
Qed.

Definition cwf_map {V} (w : V -> bool) (m : list (str * V)) : bool :=
  len_ok (length m) && sorted_str (map fst m) && forallb (fun kv => name_ok (fst kv) && w (snd kv)) m.

Definition enc_entry {V} (e : V -> list N) (kv : str * V) : list N := enc_str (fst kv) ++ e (snd kv).

Lemma flat_map_len : forall {V} (e : V -> list N) (m : list (str * V)) kv, In kv m ->
  (length (e (snd kv)) <= length (flat_map (enc_entry e) m))%nat.
Proof.
  induction m as [|x m IH]; intros kv Hin; [destruct Hin|].
  cbn [flat_map]. rewrite app_length. destruct Hin as [->|Hin].
  - unfold enc_entry. rewrite app_length. lia.
  - specialize (IH _ Hin). lia.
Qed.

Lemma dec_seq_entries : forall {V} (e : V -> list N) (d : list N -> option (V * list N)) (w : V -> bool)
  (m : list (str * V)) rest,
  (forall kv r, In kv m -> w (snd kv) = true -> d (e (snd kv) ++ r) = Some (snd kv, r)) ->
  forallb (fun kv => name_ok (fst kv) && w (snd kv)) m = true ->
  dec_seq (dec_pair dec_str d) (length m) (flat_map (enc_entry e) m ++ rest) = Some (m, rest).
Proof.
  induction m as [|[k v] m IH]; intros rest Hd Hw; [reflexivity|].
  cbn [forallb fst snd] in Hw. apply andb_true_iff in Hw. destruct Hw as [Hkv Hw].
  apply andb_true_iff in Hkv. destruct Hkv as [Hk Hv].
  cbn [length dec_seq flat_map]. unfold enc_entry at 1. cbn [fst snd]. unfold dec_pair at 1.
  rewrite <- !app_assoc. rewrite enc_dec_str by assumption.
  rewrite (Hd (k, v)); [|left; reflexivity|exact Hv]. cbn [snd].
  rewrite IH; auto. intros kv r Hin. apply Hd. right. assumption.
Qed.

Lemma enc_dec_map : forall {V} (e : V -> list N) (d : list N -> option (V * list N)) (w : V -> bool)
  (m : list (str * V)) rest,
  (forall kv r, In kv m -> w (snd kv) = true -> d (e (snd kv) ++ r) = Some (snd kv, r)) ->
  cwf_map w m = true ->
  dec_map d (enc_map e m ++ rest) = Some (m, rest).
Proof.
  intros V e d w m rest Hd Hw. unfold cwf_map in Hw.
  apply andb_true_iff in Hw. destruct Hw as [Hw Hall]. apply andb_true_iff in Hw. destruct Hw as [Hlen Hsort].
  unfold dec_map, enc_map. rewrite <- app_assoc. rewrite dec_vec_seq by exact Hlen.
  change (fun kv : str * V => enc_str (fst kv) ++ e (snd kv)) with (enc_entry e).
  rewrite (dec_seq_entries e d w); auto.
  rewrite map_build_sorted_str by exact Hsort. reflexivity.
Qed.

Lemma enc_map_length : forall {V} (e : V -> list N) (m : list (str * V)),
  length (enc_map e m) = (4 + length (flat_map (enc_entry e) m))%nat.
Proof. intros. unfold enc_map, u32. rewrite app_length, le_length. reflexivity. Qed.

Lemma enc_dec_opt : forall {A} (e : A -> list N) (d : list N -> option (A * list N)) (w : A -> bool) o rest,
  (forall a r, o = Some a -> w a = true -> d (e a ++ r) = Some (a, r)) ->
  cwf_opt w o = true -> dec_opt d (enc_opt e o ++ rest) = Some (o, rest).
Proof.
  intros A e d w [a|] rest Hd Hw; cbn [enc_opt dec_opt app cwf_opt] in *.
  - rewrite Hd; auto.
  - reflexivity.
Qed.

Definition cwf_c0 (c : contract_v0) : bool :=
  cwf_opt cwf_ty (c0_state c) && cwf_opt cwf_ty (c0_init c) && cwf_map cwf_ty (c0_receive c).
Definition cwf_c1 (c : contract_v1) : bool := cwf_opt cwf_f1 (c1_init c) && cwf_map cwf_f1 (c1_receive c).
Definition cwf_c2 (c : contract_v2) : bool := cwf_opt cwf_f2 (c2_init c) && cwf_map cwf_f2 (c2_receive c).
Definition cwf_c3 (c : contract_v3) : bool :=
  cwf_opt cwf_f2 (c3_init c) && cwf_map cwf_f2 (c3_receive c) && cwf_opt cwf_ty (c3_event c).
Definition cwf_module (m : module_schema) : bool :=
  match m with
  | MV0 cs => cwf_map cwf_c0 cs
  | MV1 cs => cwf_map cwf_c1 cs
  | MV2 cs => cwf_map cwf_c2 cs
  | MV3 cs => cwf_map cwf_c3 cs
  end.

Lemma enc_opt_length : forall {A} (e : A -> list N) o a, o = Some a -> (length (e a) < length (enc_opt e o))%nat.
Proof. intros A e o a ->. cbn. lia. Qed.

Ltac len_solve :=
  repeat rewrite app_length in *; repeat rewrite enc_map_length in *;
  repeat match goal with
         | H : ?o = Some ?a |- context [length (?e ?a)] => pose proof (enc_opt_length e o a H); clear H
         | H : In ?kv ?m |- context [length (?e (snd ?kv))] => pose proof (flat_map_len e m kv H); clear H
         end; lia.

Lemma enc_dec_c0 : forall c fuel rest, cwf_c0 c = true -> (length (enc_c0 c) < fuel)%nat ->
  dec_c0 fuel (enc_c0 c ++ rest) = Some (c, rest).
Proof.
  intros [st i rc] fuel rest Hw Hf. unfold cwf_c0, enc_c0, dec_c0 in *. cbn [c0_state c0_init c0_receive] in *.
  apply andb_true_iff in Hw. destruct Hw as [Hw H3]. apply andb_true_iff in Hw. destruct Hw as [H1 H2].
  rewrite <- !app_assoc.
  rewrite (enc_dec_opt enc_ty (dec_ty fuel) cwf_ty); auto.
  2:{ intros a r Ha Hwa. apply enc_dec_ty; auto. len_solve. }
  rewrite (enc_dec_opt enc_ty (dec_ty fuel) cwf_ty); auto.
  2:{ intros a r Ha Hwa. apply enc_dec_ty; auto. len_solve. }
  rewrite (enc_dec_map enc_ty (dec_ty fuel) cwf_ty); auto.
  intros kv r Hin Hwa. apply enc_dec_ty; auto. len_solve.
Qed.

Lemma enc_dec_c1 : forall c fuel rest, cwf_c1 c = true -> (length (enc_c1 c) < fuel)%nat ->
  dec_c1 fuel (enc_c1 c ++ rest) = Some (c, rest).
Proof.
  intros [i rc] fuel rest Hw Hf. unfold cwf_c1, enc_c1, dec_c1 in *. cbn [c1_init c1_receive] in *.
  apply andb_true_iff in Hw. destruct Hw as [H1 H2].
  rewrite <- !app_assoc.
  rewrite (enc_dec_opt enc_f1 (dec_f1 fuel) cwf_f1); auto.
  2:{ intros a r Ha Hwa. apply enc_dec_f1; auto. len_solve. }
  rewrite (enc_dec_map enc_f1 (dec_f1 fuel) cwf_f1); auto.
  intros kv r Hin Hwa. apply enc_dec_f1; auto. len_solve.
Qed.

Lemma enc_dec_c2 : forall c fuel rest, cwf_c2 c = true -> (length (enc_c2 c) < fuel)%nat ->
  dec_c2 fuel (enc_c2 c ++ rest) = Some (c, rest).
Proof.
  intros [i rc] fuel rest Hw Hf. unfold cwf_c2, enc_c2, dec_c2 in *. cbn [c2_init c2_receive] in *.
  apply andb_true_iff in Hw. destruct Hw as [H1 H2].
  rewrite <- !app_assoc.
  rewrite (enc_dec_opt enc_f2 (dec_f2 fuel) cwf_f2); auto.
  2:{ intros a r Ha Hwa. apply enc_dec_f2; auto. len_solve. }
  rewrite (enc_dec_map enc_f2 (dec_f2 fuel) cwf_f2); auto.
  intros kv r Hin Hwa. apply enc_dec_f2; auto. len_solve.
Qed.

Lemma enc_dec_c3 : forall c fuel rest, cwf_c3 c = true -> (length (enc_c3 c) < fuel)%nat ->
  dec_c3 fuel (enc_c3 c ++ rest) = Some (c, rest).
Proof.
  intros [i rc ev] fuel rest Hw Hf. unfold cwf_c3, enc_c3, dec_c3 in *. cbn [c3_init c3_receive c3_event] in *.
  apply andb_true_iff in Hw. destruct Hw as [Hw H3]. apply andb_true_iff in Hw. destruct Hw as [H1 H2].
  rewrite <- !app_assoc.
  rewrite (enc_dec_opt enc_f2 (dec_f2 fuel) cwf_f2); auto.
  2:{ intros a r Ha Hwa. apply enc_dec_f2; auto. len_solve. }
  rewrite (enc_dec_map enc_f2 (dec_f2 fuel) cwf_f2); auto.
  2:{ intros kv r Hin Hwa. apply enc_dec_f2; auto. len_solve. }
  rewrite (enc_dec_opt enc_ty (dec_ty fuel) cwf_ty); auto.
  intros a r Ha Hwa. apply enc_dec_ty; auto. len_solve.
Qed.

Lemma enc_dec_module_body : forall m fuel rest, cwf_module m = true -> (length (enc_module_body m) < fuel)%nat ->
  dec_module_body fuel (module_version m) (enc_module_body m ++ rest) = Some (m, rest).
Proof.
  intros [cs|cs|cs|cs] fuel rest Hw Hf; cbn [cwf_module enc_module_body module_version dec_module_body] in *.
  - rewrite (enc_dec_map enc_c0 (dec_c0 fuel) cwf_c0); auto.
    intros kv r Hin Hwa. apply enc_dec_c0; auto. len_solve.
  - rewrite (enc_dec_map enc_c1 (dec_c1 fuel) cwf_c1); auto.
    intros kv r Hin Hwa. apply enc_dec_c1; auto. len_solve.
  - rewrite (enc_dec_map enc_c2 (dec_c2 fuel) cwf_c2); auto.
    intros kv r Hin Hwa. apply enc_dec_c2; auto. len_solve.
  - rewrite (enc_dec_map enc_c3 (dec_c3 fuel) cwf_c3); auto.
    intros kv r Hin Hwa. apply enc_dec_c3; auto. len_solve.
Qed.

Theorem enc_dec_versioned_top : forall m rest, cwf_module m = true ->
  dec_versioned_top (enc_versioned m ++ rest) = Some (m, rest).
Proof.
  intros m rest Hw. unfold dec_versioned_top, enc_versioned. cbn [app dec_versioned].
  apply enc_dec_module_body; auto. cbn [length]. rewrite app_length. lia.
Qed.

Theorem enc_dec_module_top : forall m rest, cwf_module m = true ->
  dec_module_top (module_version m) (enc_module_body m ++ rest) = Some (m, rest).
Proof.
  intros m rest Hw. unfold dec_module_top. apply enc_dec_module_body; auto. rewrite app_length. lia.
Qed.

Theorem schema_new_versioned : forall m v, cwf_module m = true -> schema_new (enc_versioned m) v = Some m.
Proof.
  intros m v Hw. unfold schema_new.
  pose proof (enc_dec_versioned_top m [] Hw) as H. rewrite app_nil_r in H. rewrite H. reflexivity.
Qed.

Theorem enc_dec_f1_top : forall f rest, cwf_f1 f = true -> dec_f1_top (enc_f1 f ++ rest) = Some (f, rest).
Proof. intros. unfold dec_f1_top. apply enc_dec_f1; auto. rewrite app_length. lia. Qed.
Theorem enc_dec_f2_top : forall f rest, cwf_f2 f = true -> dec_f2_top (enc_f2 f ++ rest) = Some (f, rest).
Proof. intros. unfold dec_f2_top. apply enc_dec_f2; auto. rewrite app_length. lia. Qed.

(** The decoder is not canonical: maps are decoded without an order check, so two different byte
    strings decode to the same schema (the property only claims encode-then-decode). *)
Example module_decoding_not_canonical :
  exists bs m, dec_versioned_top bs = Some (m, []) /\ enc_versioned m <> bs.
Proof.
  exists [255; 255; 0; 2; 0; 0; 0; 1; 0; 0; 0; 98; 0; 0; 0; 0; 0; 0; 1; 0; 0; 0; 97; 0; 0; 0; 0; 0; 0].
  eexists. split; [vm_compute; reflexivity|]. vm_compute. discriminate.
Qed.
