(** * SchemaJsonConverse — bytes -> JSON -> bytes: what [to_json] prints is accepted by [from_json],
    denotes the bytes that were read (exactly, unless the type contains LEB128 integers, whose padded
    encodings are read but never written) and is a fixed point of [normalize]. *)
From Coq Require Import NArith ZArith Bool List Lia.
From CB Require Import Contract.SchemaJson Contract.SchemaJsonLemmas Contract.SchemaJsonProofs Contract.SchemaJsonText.
Import ListNotations.
Local Open Scope N_scope.
Arguments N.add : simpl never.
Arguments N.sub : simpl never.
Arguments N.mul : simpl never.
Arguments N.pow : simpl never.
Arguments N.div : simpl never.
Arguments N.modulo : simpl never.
Arguments N.eqb : simpl never.
Arguments N.ltb : simpl never.
Arguments N.leb : simpl never.
Arguments Z.pow : simpl never.
Arguments Z.mul : simpl never.
Arguments Z.add : simpl never.
Arguments Z.sub : simpl never.
Arguments Z.ltb : simpl never.
Arguments Z.leb : simpl never.
Arguments Z.eqb : simpl never.
Arguments Z.opp : simpl never.
Arguments N.of_nat : simpl never.
Arguments Z.of_nat : simpl never.
Arguments Z.of_N : simpl never.
Arguments Z.to_N : simpl never.
Arguments le : simpl never.
Arguments le_dec : simpl never.
Arguments le_signed : simpl never.
Arguments le_signed_dec : simpl never.
Arguments take_n : simpl never.
Arguments dec_items : simpl never.
Arguments parse_unsigned : simpl never.
Arguments parse_signed : simpl never.
Arguments parse_biguint : simpl never.
Arguments parse_bigint : simpl never.
Arguments show_N : simpl never.
Arguments show_Z : simpl never.
Arguments hex_decode : simpl never.
Arguments hex_encode : simpl never.
Arguments utf8_valid : simpl never.
Arguments uleb_enc : simpl never.
Arguments sleb_enc : simpl never.
Arguments uleb_dec : simpl never.
Arguments sleb_dec : simpl never.
Arguments valid_contract_name : simpl never.
Arguments valid_receive_name : simpl never.
Arguments split_dot : simpl never.
Arguments enc_len : simpl never.
Arguments dec_len : simpl never.
Arguments is_u64 : simpl never.
Arguments is_i64 : simpl never.
Arguments bytes_ok : simpl never.

(** the text forms of the opaque leaves parse back (C16's theorems for the real codecs; the
    executable stub satisfies it, see [stub_leaves_rt]) *)
Record leaves_rt (L : leaves) : Prop := {
  acc_rt : forall a, N.of_nat (length a) = 32 -> bytes_ok a = true -> acc_parse L (acc_show L a) = Some a;
  ts_rt : forall m, m < 2 ^ 64 -> ts_parse L (ts_show L m) = Some m;
  dur_rt : forall m, m < 2 ^ 64 -> dur_parse L (dur_show L m) = Some m
}.

(** [fr] accepts with bytes [bs'], and [bs] = consumed prefix ++ [rest]; without LEB128 the prefix is [bs'] *)
Definition conv_ok (noleb : bool) (fr : option (list N)) (bs rest : list N) : Prop :=
  exists bs' pre, fr = Some bs' /\ bs = pre ++ rest /\ (noleb = true -> pre = bs').

Lemma conv_ok_intro : forall noleb fr bs rest bs' pre,
  fr = Some bs' -> bs = pre ++ rest -> (noleb = true -> pre = bs') -> conv_ok noleb fr bs rest.
Proof. intros. exists bs', pre. auto. Qed.

Lemma bytes_ok_rest : forall pre rest, bytes_ok (pre ++ rest) = true -> bytes_ok rest = true.
Proof. intros. apply bytes_ok_app in H. tauto. Qed.

Lemma pow8_le_64 : forall k : nat, (k <= 8)%nat -> (2 ^ (8 * Z.of_nat k) <= 2 ^ 64)%Z.
Proof. intros. apply Z.pow_le_mono_r; lia. Qed.

(* ------------------------------------------------------------------ numeric leaves *)
Lemma to_unum_conv : forall k bs j rest, (k <= 8)%nat -> bytes_ok bs = true -> to_unum k bs = Some (j, rest) ->
  exists n, j = JNum (Z.of_N n) /\ from_unum k j = Some (le k n) /\ bs = le k n ++ rest.
Proof.
  unfold to_unum, from_unum. intros k bs j rest Hk Hb H.
  destruct (le_dec k bs) as [[n r]|] eqn:E; [|discriminate]. apply Some_inj in H. injection H as <- <-.
  destruct (le_dec_inv _ _ _ _ E Hb) as [-> [Hn _]].
  exists n. split; [reflexivity|]. split; [|reflexivity].
  apply N2Z.inj_lt in Hn. rewrite Z_N_pow256 in Hn. pose proof (pow8_le_64 k Hk).
  unfold is_u64.
  destruct (Z.leb_spec 0 (Z.of_N n)); [|lia]. destruct (Z.ltb_spec (Z.of_N n) (2 ^ 64)); [|lia].
  destruct (Z.ltb_spec (Z.of_N n) (2 ^ (8 * Z.of_nat k))); [|lia].
  cbn [andb]. rewrite N2Z.id. reflexivity.
Qed.

Lemma to_snum_conv : forall k bs j rest, (0 < k <= 8)%nat -> bytes_ok bs = true -> to_snum k bs = Some (j, rest) ->
  exists z, j = JNum z /\ from_snum k j = Some (le_signed k z) /\ bs = le_signed k z ++ rest.
Proof.
  unfold to_snum, from_snum. intros k bs j rest Hk Hb H.
  destruct (le_signed_dec k bs) as [[z r]|] eqn:E; [|discriminate]. apply Some_inj in H. injection H as <- <-.
  destruct (le_signed_dec_inv _ _ _ _ (proj1 Hk) E Hb) as [-> [Hz _]].
  exists z. split; [reflexivity|]. split; [|reflexivity].
  assert (2 ^ (8 * Z.of_nat k - 1) <= 2 ^ 63)%Z by (apply Z.pow_le_mono_r; lia).
  unfold is_i64.
  destruct (Z.leb_spec (- 2 ^ 63) z); [|lia]. destruct (Z.ltb_spec z (2 ^ 63)); [|lia].
  destruct (Z.leb_spec (- 2 ^ (8 * Z.of_nat k - 1)) z); [|lia].
  destruct (Z.ltb_spec z (2 ^ (8 * Z.of_nat k - 1))); [|lia]. reflexivity.
Qed.

(* ------------------------------------------------------------------ sequences *)
Lemma dec_seq_conv : forall (item : list N -> option (json * list N)) (f : json -> option (list N)) (g : json -> json)
  (noleb : bool) n bs vs rest,
  (forall b v r, bytes_ok b = true -> item b = Some (v, r) -> conv_ok noleb (f v) b r /\ g v = v) ->
  bytes_ok bs = true -> dec_seq item n bs = Some (vs, rest) ->
  conv_ok noleb (from_list f vs) bs rest /\ map g vs = vs /\ length vs = n.
Proof.
  induction n as [|n IH]; intros bs vs rest Hitem Hb H; cbn [dec_seq] in H.
  - injection H as <- <-. split; [|auto]. apply (conv_ok_intro _ _ _ _ [] []); auto.
  - destruct (item bs) as [[v bs1]|] eqn:Ev; [|discriminate].
    destruct (dec_seq item n bs1) as [[vs' r]|] eqn:Es; [|discriminate]. injection H as <- <-.
    destruct (Hitem _ _ _ Hb Ev) as [[p [pre [Hf [-> Hx]]]] Hg].
    destruct (IH _ _ _ Hitem (bytes_ok_rest _ _ Hb) Es) as [[q [pre2 [Hf2 [-> Hx2]]]] [Hm Hl]].
    split; [|split].
    + apply (conv_ok_intro _ _ _ _ (p ++ q) (pre ++ pre2)).
      * cbn [from_list]. rewrite Hf, Hf2. reflexivity.
      * rewrite app_assoc. reflexivity.
      * intros Hn. rewrite Hx, Hx2 by assumption. reflexivity.
    + cbn [map]. rewrite Hg, Hm. reflexivity.
    + cbn [length]. lia.
Qed.

Lemma dec_items_conv : forall (item : list N -> option (json * list N)) (f : json -> option (list N)) (g : json -> json)
  (noleb : bool) n bs vs rest,
  (forall b v r, bytes_ok b = true -> item b = Some (v, r) -> conv_ok noleb (f v) b r /\ g v = v) ->
  bytes_ok bs = true -> dec_items item n bs = Some (vs, rest) ->
  conv_ok noleb (from_list f vs) bs rest /\ map g vs = vs /\ N.of_nat (length vs) = n.
Proof.
  intros item f g noleb n bs vs rest Hitem Hb H. rewrite dec_items_seq in H.
  destruct (dec_seq_conv _ _ _ _ _ _ _ _ Hitem Hb H) as [H1 [H2 H3]]. repeat split; auto. lia.
Qed.

Lemma dec_len_inv : forall s bs n r, dec_len s bs = Some (n, r) -> bytes_ok bs = true ->
  bs = le (sl_bytes s) n ++ r /\ bytes_ok r = true /\ enc_len s (N.to_nat n) = Some (le (sl_bytes s) n).
Proof.
  unfold dec_len, enc_len. intros s bs n r H Hb. destruct (le_dec_inv _ _ _ _ H Hb) as [-> [Hn Hr]].
  repeat split; auto. rewrite N2Nat.id. destruct (N.ltb_spec n (2 ^ (8 * N.of_nat (sl_bytes s)))); [reflexivity|lia].
Qed.

Lemma dec_string_inv : forall s bs x r, dec_string s bs = Some (x, r) -> bytes_ok bs = true ->
  exists l, with_len s x = Some (l ++ x) /\ bs = (l ++ x) ++ r /\ bytes_ok r = true /\ bytes_ok x = true.
Proof.
  unfold dec_string, with_len. intros s bs x r H Hb.
  destruct (dec_len s bs) as [[n r1]|] eqn:E; [|discriminate].
  destruct (take_n r1 n) as [[b rest]|] eqn:Et; [|discriminate].
  destruct (utf8_valid b); [|discriminate]. injection H as <- <-.
  destruct (dec_len_inv _ _ _ _ E Hb) as [-> [Hr1 Hl]].
  destruct (take_n_some _ _ _ _ Et) as [-> Hn]. subst n. rewrite Nat2N.id in Hl. rewrite Hl.
  destruct (bytes_ok_app _ _ Hr1) as [Hx Hr].
  eexists. split; [reflexivity|]. rewrite <- app_assoc. auto.
Qed.

(* ------------------------------------------------------------------ constants *)
Lemma eq_contract : str_eqb s_contract s_contract = true. Proof. reflexivity. Qed.
Lemma eq_func : str_eqb s_func s_func = true. Proof. reflexivity. Qed.
Lemma ne_contract_func : str_eqb s_contract s_func = false. Proof. reflexivity. Qed.
Lemma eq_index : str_eqb s_index s_index = true. Proof. reflexivity. Qed.
Lemma eq_subindex : str_eqb s_subindex s_subindex = true. Proof. reflexivity. Qed.
Lemma ne_index_subindex : str_eqb s_index s_subindex = false. Proof. reflexivity. Qed.

Section WithLeaves.
Variable L : leaves.
Hypothesis HL : leaves_rt L.

Ltac unf_to H :=
  cbn [to_json to_fields to_nfields to_tys to_variants to_tvariants] in H;
  fold (to_json L) (to_fields L) (to_nfields L) (to_tys L) (to_variants L) (to_tvariants L) in H.
Ltac unf_goal :=
  cbn [from_json from_fields from_nfields from_tys from_variants from_tvariants
       normalize normalize_fields normalize_nfields normalize_tys normalize_variants normalize_tvariants
       ty_no_leb fields_no_leb nfields_no_leb tys_no_leb variants_no_leb tvariants_no_leb];
  fold (from_json L) (from_fields L) (from_nfields L) (from_tys L) (from_variants L) (from_tvariants L)
       (normalize L) (normalize_fields L) (normalize_nfields L) (normalize_tys L)
       (normalize_variants L) (normalize_tvariants L)
       ty_no_leb fields_no_leb nfields_no_leb tys_no_leb variants_no_leb tvariants_no_leb.
Ltac unf_wf H :=
  cbn [ty_wf fields_wf nfields_wf tys_wf variants_wf tvariants_wf] in H;
  fold ty_wf fields_wf nfields_wf tys_wf variants_wf tvariants_wf in H.
Ltac unf_df H :=
  cbn [ty_distinct_fields fields_df nfields_df tys_df variants_df tvariants_df] in H;
  fold ty_distinct_fields fields_df nfields_df tys_df variants_df tvariants_df in H.
Ltac split_and H :=
  repeat match type of H with
         | (_ && _)%bool = true => let H1 := fresh H in apply andb_true_iff in H; destruct H as [H H1]; try split_and H1
         end.

Definition D_ty (t : ty) : Prop := ty_wf t = true -> ty_distinct_fields t = true ->
  forall bs j rest, bytes_ok bs = true -> to_json L t bs = Some (j, rest) ->
  conv_ok (ty_no_leb t) (from_json L t j) bs rest /\ normalize L t j = j.
Definition D_fields (f : fields) : Prop := fields_wf f = true -> fields_df f = true ->
  forall bs j rest, bytes_ok bs = true -> to_fields L f bs = Some (j, rest) ->
  conv_ok (fields_no_leb f) (from_fields L f j) bs rest /\ normalize_fields L f j = j.
Definition D_nfields (l : nfields) : Prop := nfields_wf l = true -> nfields_df l = true ->
  forall bs acc m rest, bytes_ok bs = true -> to_nfields L l bs acc = Some (m, rest) ->
  (forall n, In n (nf_names l) -> obj_get n acc = None) -> NoDup (nf_names l) ->
  exists kvs, m = acc ++ kvs /\ map fst kvs = nf_names l /\
    forall M, (forall k v, In (k, v) kvs -> obj_get k M = Some v) ->
      conv_ok (nfields_no_leb l) (from_nfields L l M) bs rest /\
      forall acc', (forall n, In n (nf_names l) -> obj_get n acc' = None) ->
        normalize_nfields L l M acc' = acc' ++ kvs.
Definition D_tys (l : tys) : Prop := tys_wf l = true -> tys_df l = true ->
  forall bs vs rest, bytes_ok bs = true -> to_tys L l bs = Some (vs, rest) ->
  conv_ok (tys_no_leb l) (from_tys L l vs) bs rest /\ normalize_tys L l vs = vs /\ length vs = tys_len l.
Definition D_variants (vs : variants) : Prop := variants_wf vs = true -> variants_df vs = true -> NoDup (v_names vs) ->
  forall i bs j rest, bytes_ok bs = true -> to_variants L vs i bs = Some (j, rest) ->
  exists name fv, j = JObj [(name, fv)] /\ In name (v_names vs) /\ i < N.of_nat (variants_len vs)
    /\ normalize_variants L vs name fv = fv
    /\ exists bs' pre, (forall i0, from_variants L vs name fv i0 = Some (i0 + i, bs'))
         /\ bs = pre ++ rest /\ (variants_no_leb vs = true -> pre = bs').
Definition D_tvariants (vs : tvariants) : Prop := tvariants_wf vs = true -> tvariants_df vs = true -> NoDup (tv_names vs) ->
  forall tag bs j rest, bytes_ok bs = true -> to_tvariants L vs tag bs = Some (j, rest) ->
  exists name fv, j = JObj [(name, fv)] /\ In name (tv_names vs)
    /\ normalize_tvariants L vs name fv = fv
    /\ exists bs' pre, from_tvariants L vs name fv = Some (tag :: bs')
         /\ bs = pre ++ rest /\ (tvariants_no_leb vs = true -> pre = bs').

(** leaves whose printed form is re-read to exactly the bytes [pre] *)
Ltac exact_leaf p := split; [apply (conv_ok_intro _ _ _ _ p p); [first [reflexivity|eassumption]|reflexivity|auto]|].

Lemma converse_all :
  (forall t, D_ty t) /\ (forall f, D_fields f) /\ (forall l, D_nfields l) /\ (forall l, D_tys l)
  /\ (forall vs, D_variants vs) /\ (forall vs, D_tvariants vs).
Proof.
  apply ty_mutind; unfold D_ty, D_fields, D_nfields, D_tys, D_variants, D_tvariants.
  - (* Unit *) intros _ _ bs j rest Hb H. unf_to H. injection H as <- <-. unf_goal.
    split; [|reflexivity]. apply (conv_ok_intro _ _ _ _ [] []); auto.
  - (* Bool *) intros _ _ bs j rest Hb H. unf_to H. destruct bs as [|b r]; [discriminate|].
    destruct b as [|[p|p|]]; try discriminate; injection H as <- <-; unf_goal.
    + exact_leaf [0]. reflexivity.
    + exact_leaf [1]. reflexivity.
  - (* U8 *) intros _ _ bs j rest Hb H. unf_to H. unf_goal.
    destruct (to_unum_conv 1 _ _ _ ltac:(lia) Hb H) as [n [-> [Hf ->]]]. exact_leaf (le 1 n). reflexivity.
  - (* U16 *) intros _ _ bs j rest Hb H. unf_to H. unf_goal.
    destruct (to_unum_conv 2 _ _ _ ltac:(lia) Hb H) as [n [-> [Hf ->]]]. exact_leaf (le 2 n). reflexivity.
  - (* U32 *) intros _ _ bs j rest Hb H. unf_to H. unf_goal.
    destruct (to_unum_conv 4 _ _ _ ltac:(lia) Hb H) as [n [-> [Hf ->]]]. exact_leaf (le 4 n). reflexivity.
  - (* U64 *) intros _ _ bs j rest Hb H. unf_to H. unf_goal.
    destruct (to_unum_conv 8 _ _ _ ltac:(lia) Hb H) as [n [-> [Hf ->]]]. exact_leaf (le 8 n). reflexivity.
  - (* U128 *) intros _ _ bs j rest Hb H. unf_to H.
    destruct (le_dec 16 bs) as [[n r]|] eqn:E; [|discriminate]. injection H as <- <-.
    destruct (le_dec_inv _ _ _ _ E Hb) as [-> [Hn _]]. change (2 ^ (8 * N.of_nat 16)) with (2 ^ 128) in Hn.
    unf_goal. unfold norm_dec_u. rewrite parse_unsigned_show by exact Hn.
    exact_leaf (le 16 n). reflexivity.
  - (* I8 *) intros _ _ bs j rest Hb H. unf_to H. unf_goal.
    destruct (to_snum_conv 1 _ _ _ ltac:(lia) Hb H) as [z [-> [Hf ->]]]. exact_leaf (le_signed 1 z). reflexivity.
  - (* I16 *) intros _ _ bs j rest Hb H. unf_to H. unf_goal.
    destruct (to_snum_conv 2 _ _ _ ltac:(lia) Hb H) as [z [-> [Hf ->]]]. exact_leaf (le_signed 2 z). reflexivity.
  - (* I32 *) intros _ _ bs j rest Hb H. unf_to H. unf_goal.
    destruct (to_snum_conv 4 _ _ _ ltac:(lia) Hb H) as [z [-> [Hf ->]]]. exact_leaf (le_signed 4 z). reflexivity.
  - (* I64 *) intros _ _ bs j rest Hb H. unf_to H. unf_goal.
    destruct (to_snum_conv 8 _ _ _ ltac:(lia) Hb H) as [z [-> [Hf ->]]]. exact_leaf (le_signed 8 z). reflexivity.
  - (* I128 *) intros _ _ bs j rest Hb H. unf_to H.
    destruct (le_signed_dec 16 bs) as [[z r]|] eqn:E; [|discriminate]. injection H as <- <-.
    destruct (le_signed_dec_inv 16 _ _ _ ltac:(lia) E Hb) as [-> [Hz _]].
    change (8 * Z.of_nat 16 - 1)%Z with (128 - 1)%Z in Hz.
    unf_goal. rewrite parse_signed_show by exact Hz.
    exact_leaf (le_signed 16 z). reflexivity.
  - (* Amount *) intros _ _ bs j rest Hb H. unf_to H.
    destruct (le_dec 8 bs) as [[n r]|] eqn:E; [|discriminate]. injection H as <- <-.
    destruct (le_dec_inv _ _ _ _ E Hb) as [-> [Hn _]]. change (2 ^ (8 * N.of_nat 8)) with (2 ^ 64) in Hn.
    unf_goal. unfold norm_dec_u. rewrite parse_unsigned_show by exact Hn.
    exact_leaf (le 8 n). reflexivity.
  - (* AccountAddress *) intros _ _ bs j rest Hb H. unf_to H.
    destruct (take_n bs 32) as [[a r]|] eqn:E; [|discriminate]. injection H as <- <-.
    destruct (take_n_some _ _ _ _ E) as [-> Hl]. destruct (bytes_ok_app _ _ Hb) as [Ha _].
    unf_goal. rewrite (acc_rt L HL a Hl Ha). rewrite Hl. rewrite N.eqb_refl.
    exact_leaf a. reflexivity.
  - (* ContractAddress *) intros _ _ bs j rest Hb H. unf_to H.
    destruct (le_dec 8 bs) as [[i r]|] eqn:E; [|discriminate].
    destruct (le_dec 8 r) as [[s r']|] eqn:E2; [|discriminate]. injection H as <- <-.
    destruct (le_dec_inv _ _ _ _ E Hb) as [-> [Hi Hr]]. destruct (le_dec_inv _ _ _ _ E2 Hr) as [-> [Hs _]].
    change (2 ^ (8 * N.of_nat 8)) with (2 ^ 64) in Hi, Hs.
    assert (Hui : is_u64 (Z.of_N i) = true).
    { unfold is_u64. destruct (Z.leb_spec 0 (Z.of_N i)); [|lia]. destruct (Z.ltb_spec (Z.of_N i) (2 ^ 64)); [reflexivity|].
      apply N2Z.inj_lt in Hi. change (Z.of_N (2 ^ 64)) with (2 ^ 64)%Z in Hi. lia. }
    assert (Hus : is_u64 (Z.of_N s) = true).
    { unfold is_u64. destruct (Z.leb_spec 0 (Z.of_N s)); [|lia]. destruct (Z.ltb_spec (Z.of_N s) (2 ^ 64)); [reflexivity|].
      apply N2Z.inj_lt in Hs. change (Z.of_N (2 ^ 64)) with (2 ^ 64)%Z in Hs. lia. }
    unf_goal. cbn [length Nat.leb obj_get]. rewrite eq_index, ne_index_subindex, eq_subindex, Hui, Hus.
    rewrite !N2Z.id. split; [|reflexivity].
    apply (conv_ok_intro _ _ _ _ (le 8 i ++ le 8 s) (le 8 i ++ le 8 s)); [reflexivity|rewrite <- app_assoc; reflexivity|auto].
  - (* Timestamp *) intros _ _ bs j rest Hb H. unf_to H.
    destruct (le_dec 8 bs) as [[m r]|] eqn:E; [|discriminate]. injection H as <- <-.
    destruct (le_dec_inv _ _ _ _ E Hb) as [-> [Hm _]]. change (2 ^ (8 * N.of_nat 8)) with (2 ^ 64) in Hm.
    unf_goal. rewrite (ts_rt L HL m Hm). destruct (N.ltb_spec m (2 ^ 64)); [|lia].
    exact_leaf (le 8 m). reflexivity.
  - (* Duration *) intros _ _ bs j rest Hb H. unf_to H.
    destruct (le_dec 8 bs) as [[m r]|] eqn:E; [|discriminate]. injection H as <- <-.
    destruct (le_dec_inv _ _ _ _ E Hb) as [-> [Hm _]]. change (2 ^ (8 * N.of_nat 8)) with (2 ^ 64) in Hm.
    unf_goal. rewrite (dur_rt L HL m Hm). destruct (N.ltb_spec m (2 ^ 64)); [|lia].
    exact_leaf (le 8 m). reflexivity.
  - (* Pair *) intros a IHa b IHb Hw Hd bs j rest Hb H. unf_wf Hw. unf_df Hd. split_and Hw. split_and Hd.
    unf_to H. unfold pair_item in H.
    destruct (to_json L a bs) as [[x r]|] eqn:Ea; [|discriminate].
    destruct (to_json L b r) as [[y r']|] eqn:Eb; [|discriminate]. injection H as <- <-.
    destruct (IHa Hw Hd _ _ _ Hb Ea) as [[p [pre [Hf [-> Hx]]]] Hn].
    destruct (IHb Hw0 Hd0 _ _ _ (bytes_ok_rest _ _ Hb) Eb) as [[q [pre2 [Hf2 [-> Hx2]]]] Hn2].
    unf_goal. rewrite Hf, Hf2, Hn, Hn2. split; [|reflexivity].
    apply (conv_ok_intro _ _ _ _ (p ++ q) (pre ++ pre2)); [reflexivity|rewrite app_assoc; reflexivity|intros Hl; apply andb_true_iff in Hl; destruct Hl; rewrite Hx, Hx2 by assumption; reflexivity].
  - (* List *) intros s e IHe Hw Hd bs j rest Hb H. unf_wf Hw. unf_df Hd. unf_to H.
    destruct (dec_len s bs) as [[n r]|] eqn:El; [|discriminate].
    destruct (dec_items (to_json L e) n r) as [[vs r']|] eqn:Ei; [|discriminate]. injection H as <- <-.
    destruct (dec_len_inv _ _ _ _ El Hb) as [-> [Hr Hel]].
    destruct (dec_items_conv _ (from_json L e) (normalize L e) (ty_no_leb e) _ _ _ _ (fun b v r0 Hb0 H0 => IHe Hw Hd b v r0 Hb0 H0) Hr Ei)
      as [[p [pre [Hf [-> Hx]]]] [Hm Hlen]].
    unf_goal. rewrite <- Hlen in Hel. rewrite Nat2N.id in Hel. rewrite Hel, Hf, Hm. split; [|reflexivity].
    apply (conv_ok_intro _ _ _ _ (le (sl_bytes s) n ++ p) (le (sl_bytes s) n ++ pre)); [rewrite <- Hlen; reflexivity|rewrite app_assoc; reflexivity|intros Hl; rewrite Hx by assumption; reflexivity].
  - (* Set *) intros s e IHe Hw Hd bs j rest Hb H. unf_wf Hw. unf_df Hd. unf_to H.
    destruct (dec_len s bs) as [[n r]|] eqn:El; [|discriminate].
    destruct (dec_items (to_json L e) n r) as [[vs r']|] eqn:Ei; [|discriminate]. injection H as <- <-.
    destruct (dec_len_inv _ _ _ _ El Hb) as [-> [Hr Hel]].
    destruct (dec_items_conv _ (from_json L e) (normalize L e) (ty_no_leb e) _ _ _ _ (fun b v r0 Hb0 H0 => IHe Hw Hd b v r0 Hb0 H0) Hr Ei)
      as [[p [pre [Hf [-> Hx]]]] [Hm Hlen]].
    unf_goal. rewrite <- Hlen in Hel. rewrite Nat2N.id in Hel. rewrite Hel, Hf, Hm. split; [|reflexivity].
    apply (conv_ok_intro _ _ _ _ (le (sl_bytes s) n ++ p) (le (sl_bytes s) n ++ pre)); [rewrite <- Hlen; reflexivity|rewrite app_assoc; reflexivity|intros Hl; rewrite Hx by assumption; reflexivity].
  - (* Map *) intros s k IHk v IHv Hw Hd bs j rest Hb H. unf_wf Hw. unf_df Hd. split_and Hw. split_and Hd. unf_to H.
    destruct (dec_len s bs) as [[n r]|] eqn:El; [|discriminate].
    destruct (dec_items (pair_item (to_json L k) (to_json L v)) n r) as [[vs r']|] eqn:Ei; [|discriminate].
    injection H as <- <-.
    destruct (dec_len_inv _ _ _ _ El Hb) as [-> [Hr Hel]].
    set (f := fun e => match e with
                       | JArr [x; y] => match from_json L k x, from_json L v y with
                                        | Some p, Some q => Some (p ++ q)
                                        | _, _ => None
                                        end
                       | _ => None
                       end).
    set (g := fun e => match e with
                       | JArr [x; y] => JArr [normalize L k x; normalize L v y]
                       | _ => e
                       end).
    assert (Hitem : forall b e r0, bytes_ok b = true -> pair_item (to_json L k) (to_json L v) b = Some (e, r0) ->
                    conv_ok (ty_no_leb k && ty_no_leb v) (f e) b r0 /\ g e = e).
    { intros b e r0 Hb0 H0. unfold pair_item in H0.
      destruct (to_json L k b) as [[x r1]|] eqn:Ea; [|discriminate].
      destruct (to_json L v r1) as [[y r2]|] eqn:Eb; [|discriminate]. injection H0 as <- <-.
      destruct (IHk Hw Hd _ _ _ Hb0 Ea) as [[p [pre [Hf [-> Hx]]]] Hn].
      destruct (IHv Hw0 Hd0 _ _ _ (bytes_ok_rest _ _ Hb0) Eb) as [[q [pre2 [Hf2 [-> Hx2]]]] Hn2].
      unfold f, g. rewrite Hf, Hf2, Hn, Hn2. split; [|reflexivity].
      apply (conv_ok_intro _ _ _ _ (p ++ q) (pre ++ pre2)); [reflexivity|rewrite app_assoc; reflexivity|intros Hl; apply andb_true_iff in Hl; destruct Hl; rewrite Hx, Hx2 by assumption; reflexivity]. }
    destruct (dec_items_conv _ f g _ _ _ _ _ Hitem Hr Ei) as [[p [pre [Hf [-> Hx]]]] [Hm Hlen]].
    unf_goal. fold f. fold g. rewrite <- Hlen in Hel. rewrite Nat2N.id in Hel. rewrite Hel, Hf, Hm. split; [|reflexivity].
    apply (conv_ok_intro _ _ _ _ (le (sl_bytes s) n ++ p) (le (sl_bytes s) n ++ pre)); [rewrite <- Hlen; reflexivity|rewrite app_assoc; reflexivity|intros Hl; rewrite Hx by assumption; reflexivity].
  - (* Array *) intros n e IHe Hw Hd bs j rest Hb H. unf_wf Hw. unf_df Hd. split_and Hd. apply N.ltb_lt in Hd. unf_to H.
    destruct (dec_items (to_json L e) n bs) as [[vs r']|] eqn:Ei; [|discriminate]. injection H as <- <-.
    destruct (dec_items_conv _ (from_json L e) (normalize L e) (ty_no_leb e) _ _ _ _ (fun b v r0 Hb0 H0 => IHe Hw Hd0 b v r0 Hb0 H0) Hb Ei)
      as [[p [pre [Hf [-> Hx]]]] [Hm Hlen]].
    unf_goal. rewrite Hlen. rewrite N.mod_small by exact Hd. rewrite N.eqb_refl, Hf, Hm. split; [|reflexivity].
    apply (conv_ok_intro _ _ _ _ p pre); [reflexivity|reflexivity|auto].
  - (* Struct *) intros f IHf Hw Hd bs j rest Hb H. unf_wf Hw. unf_df Hd. unf_to H. unf_goal. apply IHf; auto.
  - (* Enum *) intros vs IHvs Hw Hd bs j rest Hb H. unf_wf Hw. unf_df Hd. split_and Hd.
    apply nodup_str_NoDup in Hd. apply N.leb_le in Hd1. unf_to H.
    destruct (N.leb_spec (N.of_nat (variants_len vs)) 256) as [H256|H256].
    + destruct (le_dec 1 bs) as [[i r]|] eqn:E; [|discriminate].
      destruct (le_dec_inv _ _ _ _ E Hb) as [-> [Hi Hr]].
      destruct (IHvs Hw Hd0 Hd _ _ _ _ Hr H) as [name [fv [-> [Hin [Hlt [Hn [bs' [pre [Hfrom [-> Hx]]]]]]]]]].
      unf_goal. rewrite (Hfrom 0). rewrite N.add_0_l.
      destruct (N.leb_spec (N.of_nat (variants_len vs)) 256); [|lia]. rewrite Hn. split; [|reflexivity].
      apply (conv_ok_intro _ _ _ _ (le 1 i ++ bs') (le 1 i ++ pre)); [reflexivity|rewrite app_assoc; reflexivity|intros Hl; rewrite Hx by assumption; reflexivity].
    + destruct (le_dec 2 bs) as [[i r]|] eqn:E; [|discriminate].
      destruct (le_dec_inv _ _ _ _ E Hb) as [-> [Hi Hr]].
      destruct (IHvs Hw Hd0 Hd _ _ _ _ Hr H) as [name [fv [-> [Hin [Hlt [Hn [bs' [pre [Hfrom [-> Hx]]]]]]]]]].
      unf_goal. rewrite (Hfrom 0). rewrite N.add_0_l.
      destruct (N.leb_spec (N.of_nat (variants_len vs)) 256); [lia|].
      destruct (N.leb_spec (N.of_nat (variants_len vs)) 65536); [|lia]. rewrite Hn. split; [|reflexivity].
      apply (conv_ok_intro _ _ _ _ (le 2 i ++ bs') (le 2 i ++ pre)); [reflexivity|rewrite app_assoc; reflexivity|intros Hl; rewrite Hx by assumption; reflexivity].
  - (* String *) intros s _ _ bs j rest Hb H. unf_to H.
    destruct (dec_string s bs) as [[x r]|] eqn:E; [|discriminate]. injection H as <- <-.
    destruct (dec_string_inv _ _ _ _ E Hb) as [l [Hwl [-> _]]].
    unf_goal. rewrite Hwl. exact_leaf (l ++ x). reflexivity.
  - (* ContractName *) intros s _ _ bs j rest Hb H. unf_to H.
    destruct (dec_string s bs) as [[x r]|] eqn:E; [|discriminate].
    destruct (valid_contract_name x) eqn:Ev; [|discriminate].
    remember (skipn 5 x) as nm eqn:Enm. injection H as <- <-.
    destruct (dec_string_inv _ _ _ _ E Hb) as [l [Hwl [-> _]]].
    assert (Hx : s_init_ ++ nm = x).
    { subst nm. unfold valid_contract_name in Ev. split_and Ev. exact (starts_with_skipn s_init_ x Ev). }
    unf_goal. rewrite eq_contract, Hx, Ev, Hwl. exact_leaf (l ++ x). reflexivity.
  - (* ReceiveName *) intros s _ _ bs j rest Hb H. unf_to H.
    destruct (dec_string s bs) as [[x r]|] eqn:E; [|discriminate].
    destruct (valid_receive_name x) eqn:Ev; [|discriminate].
    destruct (split_dot x) as [c f] eqn:Es. injection H as <- <-.
    destruct (dec_string_inv _ _ _ _ E Hb) as [l [Hwl [-> _]]].
    assert (Hdot : has_dot x = true) by (unfold valid_receive_name in Ev; split_and Ev; exact Ev).
    destruct (split_dot_inv _ _ _ Hdot Es) as [Hx Hc].
    unf_goal. cbn [obj_get length Nat.eqb]. rewrite eq_contract, ne_contract_func, eq_func.
    rewrite Hc. cbn [negb andb]. rewrite <- Hx, Ev, Hwl. exact_leaf (l ++ x). reflexivity.
  - (* ULeb128 *) intros c _ _ bs j rest Hb H. unf_to H.
    destruct (uleb_dec bs c 0 0) as [[n r]|] eqn:E; [|discriminate]. injection H as <- <-.
    destruct (uleb_dec_enc _ _ _ _ Hb E) as [g [pre [He [-> _]]]].
    unf_goal. rewrite parse_biguint_show, He. split; [|reflexivity].
    apply (conv_ok_intro _ _ _ _ g pre); [reflexivity|reflexivity|discriminate].
  - (* ILeb128 *) intros c _ _ bs j rest Hb H. unf_to H.
    destruct (sleb_dec bs c 0 0) as [[z r]|] eqn:E; [|discriminate]. injection H as <- <-.
    destruct (sleb_dec_enc _ _ _ _ Hb E) as [g [pre [He [-> _]]]].
    unf_goal. rewrite parse_bigint_show, He. split; [|reflexivity].
    apply (conv_ok_intro _ _ _ _ g pre); [reflexivity|reflexivity|discriminate].
  - (* ByteList *) intros s _ _ bs j rest Hb H. unf_to H.
    destruct (dec_len s bs) as [[n r]|] eqn:El; [|discriminate].
    destruct (take_n r n) as [[b r']|] eqn:Et; [|discriminate]. injection H as <- <-.
    destruct (dec_len_inv _ _ _ _ El Hb) as [-> [Hr Hel]].
    destruct (take_n_some _ _ _ _ Et) as [-> Hn]. subst n. rewrite Nat2N.id in Hel.
    destruct (bytes_ok_app _ _ Hr) as [Hbb _].
    unf_goal. rewrite hex_decode_encode by exact Hbb. unfold with_len. rewrite Hel. split; [|reflexivity].
    apply (conv_ok_intro _ _ _ _ (le (sl_bytes s) (N.of_nat (length b)) ++ b) (le (sl_bytes s) (N.of_nat (length b)) ++ b)); [reflexivity|rewrite app_assoc; reflexivity|auto].
  - (* ByteArray *) intros n _ Hd bs j rest Hb H. unf_df Hd. apply N.ltb_lt in Hd. unf_to H.
    destruct (take_n bs n) as [[b r']|] eqn:Et; [|discriminate]. injection H as <- <-.
    destruct (take_n_some _ _ _ _ Et) as [-> Hn]. destruct (bytes_ok_app _ _ Hb) as [Hbb _].
    unf_goal. rewrite hex_decode_encode by exact Hbb. rewrite Hn, N.mod_small by exact Hd. rewrite N.eqb_refl.
    exact_leaf b. reflexivity.
  - (* TaggedEnum *) intros vs IHvs Hw Hd bs j rest Hb H. unf_wf Hw. unf_df Hd. split_and Hw. split_and Hd.
    apply nodup_str_NoDup in Hd. unf_to H. destruct bs as [|tag r]; [discriminate|].
    assert (Hr : bytes_ok r = true) by (apply (bytes_ok_rest [tag] r); exact Hb).
    destruct (IHvs Hw0 Hd0 Hd _ _ _ _ Hr H) as [name [fv [-> [Hin [Hn [bs' [pre [Hfrom [-> Hx]]]]]]]]].
    unf_goal. rewrite Hfrom, Hn. split; [|reflexivity].
    apply (conv_ok_intro _ _ _ _ (tag :: bs') (tag :: pre)); [reflexivity|reflexivity|].
    intros Hl. rewrite Hx by assumption. reflexivity.
  - (* FNamed *) intros l IHl Hw Hd bs j rest Hb H. unf_wf Hw. unf_df Hd. split_and Hd. apply nodup_str_NoDup in Hd.
    unf_to H. destruct (to_nfields L l bs []) as [[m r]|] eqn:E; [|discriminate]. injection H as <- <-.
    destruct (IHl Hw Hd0 _ _ _ _ Hb E (fun _ _ => eq_refl) Hd) as [kvs [-> [Hk Hall]]]. cbn [app] in *.
    assert (Hlook : forall k v, In (k, v) kvs -> obj_get k kvs = Some v).
    { intros k v Hin. apply obj_get_nodup; auto. rewrite Hk. exact Hd. }
    destruct (Hall kvs Hlook) as [Hc Hnorm].
    unf_goal. rewrite (Hnorm [] (fun _ _ => eq_refl)). cbn [app].
    assert (Hlen : length kvs = nfields_len l).
    { rewrite <- (map_length fst kvs), Hk. clear. induction l; cbn; auto. }
    rewrite Hlen, Nat.leb_refl. split; [exact Hc|reflexivity].
  - (* FUnnamed *) intros l IHl Hw Hd bs j rest Hb H. unf_wf Hw. unf_df Hd. unf_to H.
    destruct (to_tys L l bs) as [[vs r]|] eqn:E; [|discriminate]. injection H as <- <-.
    destruct (IHl Hw Hd _ _ _ Hb E) as [Hc [Hn Hlen]].
    unf_goal. rewrite Hlen, Nat.eqb_refl, Hn. split; [exact Hc|reflexivity].
  - (* FNone *) intros _ _ bs j rest Hb H. unf_to H. injection H as <- <-. unf_goal.
    split; [|reflexivity]. apply (conv_ok_intro _ _ _ _ [] []); auto.
  - (* NFnil *) intros _ _ bs acc m rest Hb H _ _. unf_to H. injection H as <- <-.
    exists []. rewrite app_nil_r. repeat split; auto.
    + unf_goal. apply (conv_ok_intro _ _ _ _ [] []); auto.
    + intros. unf_goal. rewrite app_nil_r. reflexivity.
  - (* NFcons *) intros name t IHt r IHr Hw Hd bs acc m rest Hb H Habs Hnd.
    unf_wf Hw. unf_df Hd. split_and Hw. split_and Hd. cbn [nf_names] in Habs, Hnd.
    inversion Hnd as [|? ? Hnotin Hnd']; subst.
    unf_to H. destruct (to_json L t bs) as [[v bs1]|] eqn:Et; [|discriminate].
    destruct (IHt Hw Hd _ _ _ Hb Et) as [[p [pre [Hf [-> Hx]]]] Hn].
    rewrite (obj_insert_absent name v acc (Habs name (or_introl eq_refl))) in H.
    assert (Habs1 : forall acc0, (forall n, In n (name :: nf_names r) -> obj_get n acc0 = None) ->
                    forall n, In n (nf_names r) -> obj_get n (acc0 ++ [(name, v)]) = None).
    { intros acc0 Ha n Hin. rewrite obj_get_app_none by (apply Ha; right; exact Hin).
      cbn [obj_get]. rewrite str_eqb_neq; [reflexivity|]. intros ->. contradiction. }
    destruct (IHr Hw0 Hd0 _ _ _ _ (bytes_ok_rest _ _ Hb) H (Habs1 acc Habs) Hnd') as [kvs [-> [Hk Hall]]].
    exists ((name, v) :: kvs). rewrite <- app_assoc. cbn [app map fst nf_names]. rewrite Hk.
    split; [reflexivity|]. split; [reflexivity|].
    intros M HM.
    destruct (Hall M (fun k v0 Hin => HM k v0 (or_intror Hin))) as [[q [pre2 [Hf2 [-> Hx2]]]] Hnorm].
    split.
    + unf_goal. rewrite (HM name v (or_introl eq_refl)), Hf, Hf2.
      apply (conv_ok_intro _ _ _ _ (p ++ q) (pre ++ pre2)); [reflexivity|rewrite app_assoc; reflexivity|intros Hl; apply andb_true_iff in Hl; destruct Hl; rewrite Hx, Hx2 by assumption; reflexivity].
    + intros acc' Ha'. unf_goal. rewrite (HM name v (or_introl eq_refl)), Hn.
      rewrite (obj_insert_absent name v acc' (Ha' name (or_introl eq_refl))).
      rewrite (Hnorm _ (Habs1 acc' Ha')). rewrite <- app_assoc. reflexivity.
  - (* TSnil *) intros _ _ bs vs rest Hb H. unf_to H. injection H as <- <-. unf_goal.
    repeat split; auto. apply (conv_ok_intro _ _ _ _ [] []); auto.
  - (* TScons *) intros t IHt r IHr Hw Hd bs vs rest Hb H. unf_wf Hw. unf_df Hd. split_and Hw. split_and Hd.
    unf_to H. destruct (to_json L t bs) as [[v bs1]|] eqn:Et; [|discriminate].
    destruct (to_tys L r bs1) as [[vs' r']|] eqn:Er; [|discriminate]. injection H as <- <-.
    destruct (IHt Hw Hd _ _ _ Hb Et) as [[p [pre [Hf [-> Hx]]]] Hn].
    destruct (IHr Hw0 Hd0 _ _ _ (bytes_ok_rest _ _ Hb) Er) as [[q [pre2 [Hf2 [-> Hx2]]]] [Hn2 Hlen]].
    unf_goal. cbn [tys_len length]. rewrite Hf, Hf2, Hn, Hn2, Hlen. repeat split; auto.
    apply (conv_ok_intro _ _ _ _ (p ++ q) (pre ++ pre2)); [reflexivity|rewrite app_assoc; reflexivity|intros Hl; apply andb_true_iff in Hl; destruct Hl; rewrite Hx, Hx2 by assumption; reflexivity].
  - (* Vnil *) intros _ _ _ i bs j rest _ H. unf_to H. discriminate.
  - (* Vcons *) intros n f IHf r IHr Hw Hd Hnd i bs j rest Hb H. unf_wf Hw. unf_df Hd. split_and Hw. split_and Hd.
    cbn [v_names] in Hnd. inversion Hnd as [|? ? Hnotin Hnd']; subst.
    unf_to H. destruct (N.eqb_spec i 0) as [->|Hi].
    + destruct (to_fields L f bs) as [[v bs1]|] eqn:Ef; [|discriminate]. injection H as <- <-.
      destruct (IHf Hw Hd _ _ _ Hb Ef) as [[p [pre [Hf [-> Hx]]]] Hn].
      exists n, v. split; [reflexivity|]. split; [left; reflexivity|]. split; [cbn [variants_len]; lia|].
      unf_goal. rewrite str_eqb_refl. split; [exact Hn|].
      exists p, pre. split; [|split; [reflexivity|]].
      * intros i0. rewrite Hf. rewrite N.add_0_r. reflexivity.
      * intros Hl. apply andb_true_iff in Hl. destruct Hl. auto.
    + destruct (IHr Hw0 Hd0 Hnd' _ _ _ _ Hb H) as [name [fv [-> [Hin [Hlt [Hn [bs' [pre [Hfrom [-> Hx]]]]]]]]]].
      exists name, fv. split; [reflexivity|]. split; [right; exact Hin|]. split; [cbn [variants_len]; lia|].
      assert (Hne : str_eqb n name = false) by (apply str_eqb_neq; intros ->; contradiction).
      unf_goal. rewrite Hne. split; [exact Hn|].
      exists bs', pre. split; [|split; [reflexivity|]].
      * intros i0. rewrite (Hfrom (i0 + 1)). f_equal. f_equal. lia.
      * intros Hl. apply andb_true_iff in Hl. destruct Hl. auto.
  - (* TVnil *) intros _ _ _ tag bs j rest _ H. unf_to H. discriminate.
  - (* TVcons *) intros tg n f IHf r IHr Hw Hd Hnd tag bs j rest Hb H. unf_wf Hw. unf_df Hd. split_and Hw. split_and Hd.
    cbn [tv_names] in Hnd. inversion Hnd as [|? ? Hnotin Hnd']; subst.
    unf_to H. destruct (N.eqb_spec tg tag) as [->|Ht].
    + destruct (to_fields L f bs) as [[v bs1]|] eqn:Ef; [|discriminate]. injection H as <- <-.
      destruct (IHf Hw Hd _ _ _ Hb Ef) as [[p [pre [Hf [-> Hx]]]] Hn].
      exists n, v. split; [reflexivity|]. split; [left; reflexivity|].
      unf_goal. rewrite str_eqb_refl. split; [exact Hn|].
      exists p, pre. split; [rewrite Hf; reflexivity|]. split; [reflexivity|].
      intros Hl. apply andb_true_iff in Hl. destruct Hl. auto.
    + destruct (IHr Hw0 Hd0 Hnd' _ _ _ _ Hb H) as [name [fv [-> [Hin [Hn [bs' [pre [Hfrom [-> Hx]]]]]]]]].
      exists name, fv. split; [reflexivity|]. split; [right; exact Hin|].
      assert (Hne : str_eqb n name = false) by (apply str_eqb_neq; intros ->; contradiction).
      unf_goal. rewrite Hne. split; [exact Hn|].
      exists bs', pre. split; [exact Hfrom|]. split; [reflexivity|].
      intros Hl. apply andb_true_iff in Hl. destruct Hl. auto.
Qed.

Theorem to_json_from_json_all : forall t bs j rest,
  ty_wf t = true -> ty_distinct_fields t = true -> bytes_ok bs = true ->
  to_json L t bs = Some (j, rest) ->
  exists bs' pre, from_json L t j = Some bs' /\ bs = pre ++ rest /\ (ty_no_leb t = true -> pre = bs').
Proof. intros t bs j rest Hw Hd Hb H. exact (proj1 (proj1 converse_all t Hw Hd bs j rest Hb H)). Qed.

Theorem printed_json_normal : forall t bs j rest,
  ty_wf t = true -> ty_distinct_fields t = true -> bytes_ok bs = true ->
  to_json L t bs = Some (j, rest) -> normalize L t j = j.
Proof. intros t bs j rest Hw Hd Hb H. exact (proj2 (proj1 converse_all t Hw Hd bs j rest Hb H)). Qed.

End WithLeaves.

(** the executable leaf instance satisfies the hypothesis (non-vacuity) *)
Lemma stub_leaves_rt : leaves_rt stub_leaves.
Proof.
  split.
  - intros a Hl Hb. cbn [acc_parse acc_show stub_leaves]. rewrite hex_decode_encode by exact Hb.
    rewrite Hl. reflexivity.
  - intros m Hm. cbn [ts_parse ts_show stub_leaves]. apply parse_unsigned_show. exact Hm.
  - intros m Hm. cbn [dur_parse dur_show stub_leaves]. apply parse_unsigned_show. exact Hm.
Qed.

(** The only byte strings [to_json] reads that [from_json] never writes: LEB128 integers with
    redundant groups - unsigned: trailing groups that are zero ([80 00] for 0); signed: trailing groups that
    only repeat the sign ([ff 7f] for -1, [80 00] for 0). *)
Example leb_padding_read_not_written :
  to_json stub_leaves (TULeb128 2) [128; 0] = Some (JStr [48], []) /\ from_json stub_leaves (TULeb128 2) (JStr [48]) = Some [0]
  /\ to_json stub_leaves (TILeb128 2) [255; 127] = Some (JStr [45; 49], []) /\ from_json stub_leaves (TILeb128 2) (JStr [45; 49]) = Some [127].
Proof. vm_compute. repeat split; reflexivity. Qed.
