(** C16 - executable model of the name validators in contracts-common types.rs:
    [ContractName::is_valid_contract_name], [ReceiveName::is_valid_receive_name],
    [is_valid_entrypoint_name].  A name is a list of Unicode scalar values; [str::len]
    is the UTF-8 byte length.  Definitions only. *)
From Coq Require Import NArith List Bool.
Import ListNotations.
Local Open Scope N_scope.

Definition MAX_FUNC_NAME_SIZE : N := 100.

Definition utf8_len_char (c : N) : N :=
  if c <? 128 then 1 else if c <? 2048 then 2 else if c <? 65536 then 3 else 4.
Fixpoint utf8_len (s : list N) : N :=
  match s with [] => 0 | c :: s' => utf8_len_char c + utf8_len s' end.

(** [char::is_ascii_alphanumeric] / [char::is_ascii_punctuation] *)
Definition is_ascii_alphanumeric (c : N) : bool :=
  ((48 <=? c) && (c <=? 57)) || ((65 <=? c) && (c <=? 90)) || ((97 <=? c) && (c <=? 122)).
Definition is_ascii_punctuation (c : N) : bool :=
  ((33 <=? c) && (c <=? 47)) || ((58 <=? c) && (c <=? 64))
  || ((91 <=? c) && (c <=? 96)) || ((123 <=? c) && (c <=? 126)).
Definition name_char_ok (c : N) : bool := is_ascii_alphanumeric c || is_ascii_punctuation c.

Definition contains_dot (s : list N) : bool := existsb (fun c => c =? 46) s.

(** [str::starts_with("init_")] *)
Definition INIT_PREFIX : list N := [105; 110; 105; 116; 95].
Fixpoint starts_with (p s : list N) : bool :=
  match p, s with
  | [], _ => true
  | x :: p', y :: s' => (x =? y) && starts_with p' s'
  | _ :: _, [] => false
  end.

Inductive contract_name_err := CNMissingInitPrefix | CNTooLong | CNContainsDot | CNInvalidCharacters.
Inductive receive_name_err := RNMissingDotSeparator | RNTooLong | RNInvalidCharacters.

(** the checks in the order of the code; [None] = accepted *)
Definition contract_name_check (s : list N) : option contract_name_err :=
  if negb (starts_with INIT_PREFIX s) then Some CNMissingInitPrefix
  else if MAX_FUNC_NAME_SIZE <? utf8_len s then Some CNTooLong
  else if contains_dot s then Some CNContainsDot
  else if negb (forallb name_char_ok s) then Some CNInvalidCharacters
  else None.

Definition receive_name_check (s : list N) : option receive_name_err :=
  if negb (contains_dot s) then Some RNMissingDotSeparator
  else if MAX_FUNC_NAME_SIZE <? utf8_len s then Some RNTooLong
  else if negb (forallb name_char_ok s) then Some RNInvalidCharacters
  else None.

(** NB: [>=], an entrypoint name has at most 99 bytes *)
Definition entrypoint_name_check (s : list N) : option receive_name_err :=
  if MAX_FUNC_NAME_SIZE <=? utf8_len s then Some RNTooLong
  else if negb (forallb name_char_ok s) then Some RNInvalidCharacters
  else None.

Definition valid_contract_name (s : list N) : bool :=
  match contract_name_check s with None => true | Some _ => false end.
Definition valid_receive_name (s : list N) : bool :=
  match receive_name_check s with None => true | Some _ => false end.
Definition valid_entrypoint_name (s : list N) : bool :=
  match entrypoint_name_check s with None => true | Some _ => false end.

(** [ReceiveName::get_name_parts]: split at the first dot *)
Fixpoint split_dot (s : list N) : list N * list N :=
  match s with
  | [] => ([], [])
  | c :: s' => if c =? 46 then ([], s') else let (a, b) := split_dot s' in (c :: a, b)
  end.

(** [OwnedReceiveName::construct]: contract name without "init_", a dot, the entrypoint *)
Definition construct_receive_name (contract entry : list N) : list N :=
  skipn 5 contract ++ [46] ++ entry.

(** ** the documented grammar, as explicit predicates *)
(** printable ASCII without the space: '!' ..= '~' *)
Definition name_char (c : N) : Prop := 33 <= c <= 126.

Definition contract_name_grammar (s : list N) : Prop :=
  (exists rest, s = INIT_PREFIX ++ rest)
  /\ N.of_nat (length s) <= 100
  /\ Forall (fun c => name_char c /\ c <> 46) s.

Definition receive_name_grammar (s : list N) : Prop :=
  In 46 s /\ N.of_nat (length s) <= 100 /\ Forall name_char s.

Definition entrypoint_name_grammar (s : list N) : Prop :=
  N.of_nat (length s) <= 99 /\ Forall name_char s.
