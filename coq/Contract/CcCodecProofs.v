(** C16 - laws of the codec combinators of [CcCodec.v]: round trip, canonicity,
    non-empty encodings, shrinking, bounded pre-allocation, rejection of unordered input. *)
From Coq Require Import NArith ZArith List Bool Lia.
From CB Require Import Contract.CcCodec.
Import ListNotations.
Local Open Scope N_scope.

Arguments N.add : simpl never.
Arguments N.sub : simpl never.
Arguments N.mul : simpl never.
Arguments N.eqb : simpl never.
Arguments N.ltb : simpl never.
Arguments N.leb : simpl never.
Arguments N.pow : simpl never.
Arguments N.div : simpl never.
Arguments N.modulo : simpl never.

(** ** unsigned integers *)
Lemma le_take_bytes : forall k n rest, n < 256 ^ N.of_nat k ->
  le_take k (le_bytes k n ++ rest) = Some (n, rest).
Proof.
  induction k as [|k IH]; intros n rest H.
  - cbn in *. assert (n = 0) by lia. subst. reflexivity.
  - rewrite Nat2N.inj_succ, N.pow_succ_r' in H.
    cbn [le_bytes le_take app].
    assert (Hm : n mod 256 < 256) by (apply N.mod_lt; lia).
    apply N.ltb_lt in Hm. rewrite Hm.
    rewrite IH by (apply N.div_lt_upper_bound; lia).
    f_equal. f_equal. rewrite N.add_comm. symmetry. apply N.div_mod. lia.
Qed.

Lemma le_take_canon : forall k bs v r, le_take k bs = Some (v, r) ->
  bs = le_bytes k v ++ r /\ v < 256 ^ N.of_nat k.
Proof.
  induction k as [|k IH]; intros bs v r H.
  - cbn in H. inversion H; subst. cbn. split; [reflexivity | lia].
  - cbn [le_take] in H. destruct bs as [|b bs']; [discriminate|].
    destruct (b <? 256) eqn:Hb; [|discriminate].
    destruct (le_take k bs') as [[v' r']|] eqn:Hk; [|discriminate].
    inversion H; subst; clear H.
    apply N.ltb_lt in Hb.
    destruct (IH _ _ _ Hk) as [E Hv]. subst bs'.
    rewrite Nat2N.inj_succ, N.pow_succ_r'.
    cbn [le_bytes app].
    assert (E1 : (b + 256 * v') mod 256 = b).
    { replace (b + 256 * v') with (b + v' * 256) by lia. rewrite N.mod_add by lia. apply N.mod_small; lia. }
    assert (E2 : (b + 256 * v') / 256 = v').
    { replace (b + 256 * v') with (v' * 256 + b) by lia. rewrite N.div_add_l by lia. rewrite (N.div_small b 256) by lia. lia. }
    rewrite E1, E2. split; [reflexivity | nia].
Qed.

Lemma le_take_length : forall k bs v r, le_take k bs = Some (v, r) -> length bs = (k + length r)%nat.
Proof.
  induction k as [|k IH]; intros bs v r H.
  - cbn in H. inversion H; subst. reflexivity.
  - cbn [le_take] in H. destruct bs as [|b bs']; [discriminate|].
    destruct (b <? 256); [|discriminate].
    destruct (le_take k bs') as [[v' r']|] eqn:Hk; [|discriminate].
    inversion H; subst. cbn. f_equal. eapply IH; eauto.
Qed.

Lemma le_bytes_length : forall k n, length (le_bytes k n) = k.
Proof. induction k; intros; cbn; [reflexivity | f_equal; apply IHk]. Qed.

Lemma uint_RT : forall k, RT (c_uint k).
Proof. intros k a rest H. apply le_take_bytes. exact H. Qed.
Lemma uint_Canon : forall k, Canon (c_uint k).
Proof. intros k bs a rest H. apply le_take_canon. exact H. Qed.
Lemma uint_NonEmpty : forall k, NonEmpty (c_uint (S k)).
Proof. intros k a _. cbn. discriminate. Qed.
Lemma uint_Shrinks : forall k, Shrinks (c_uint k).
Proof. intros k bs a r H. cbn in H. apply le_take_length in H. lia. Qed.
Lemma uint_AllocOK : forall K k, AllocOK K (c_uint k).
Proof.
  intros K k bs. cbn [pre c_uint]. split; [lia|].
  intros a r H. cbn in H. apply le_take_length in H. rewrite H. lia.
Qed.

(** ** unit *)
Lemma unit_RT : RT c_unit.
Proof. intros [] rest _. reflexivity. Qed.
Lemma unit_Canon : Canon c_unit.
Proof. intros bs [] rest H. cbn in H. inversion H; subst. split; [reflexivity | exact I]. Qed.
Lemma unit_Shrinks : Shrinks c_unit.
Proof. intros bs a r H. cbn in H. inversion H; subst. lia. Qed.
Lemma unit_AllocOK : forall K, AllocOK K c_unit.
Proof. intros K bs. cbn [pre c_unit]. split; [lia|]. intros a r H. cbn in H. inversion H; subst. lia. Qed.

(** ** change of representation *)
Section Map.
  Context {A B : Type} (c : codec A) (f : A -> B) (g : B -> A) (wfB : B -> Prop).
  Lemma map_RT : RT c -> (forall b, wfB b -> wf c (g b) /\ f (g b) = b) -> RT (c_map c f g wfB).
  Proof.
    intros Hc Hfg b rest Hb. destruct (Hfg b Hb) as [Hw E]. cbn.
    rewrite (Hc _ rest Hw). rewrite E. reflexivity.
  Qed.
  Lemma map_Canon : Canon c -> (forall a, wf c a -> g (f a) = a /\ wfB (f a)) -> Canon (c_map c f g wfB).
  Proof.
    intros Hc Hgf bs b rest H. cbn in H.
    destruct (dec c bs) as [[a r]|] eqn:Hd; [|discriminate]. inversion H; subst; clear H.
    destruct (Hc _ _ _ Hd) as [E Hw]. destruct (Hgf a Hw) as [E2 Hb]. cbn. rewrite E2. auto.
  Qed.
  Lemma map_NonEmpty : NonEmpty c -> (forall b, wfB b -> wf c (g b)) -> NonEmpty (c_map c f g wfB).
  Proof. intros Hc Hw b Hb. cbn. apply Hc. auto. Qed.
  Lemma map_Shrinks : Shrinks c -> Shrinks (c_map c f g wfB).
  Proof.
    intros Hc bs b r H. cbn in H. destruct (dec c bs) as [[a r']|] eqn:Hd; [|discriminate].
    inversion H; subst. eapply Hc; eauto.
  Qed.
  Lemma map_AllocOK : forall K, AllocOK K c -> AllocOK K (c_map c f g wfB).
  Proof.
    intros K Hc bs. destruct (Hc bs) as [H1 H2]. cbn [pre c_map]. split; [exact H1|].
    intros b r H. cbn in H. destruct (dec c bs) as [[a r']|] eqn:Hd; [|discriminate].
    inversion H; subst. eapply H2; eauto.
  Qed.
End Map.

(** ** refinement *)
Section Refine.
  Context {A : Type} (c : codec A) (ok : A -> bool).
  Lemma refine_RT : RT c -> RT (c_refine c ok).
  Proof. intros Hc a rest [Hw Hok]. cbn. rewrite (Hc _ rest Hw), Hok. reflexivity. Qed.
  Lemma refine_Canon : Canon c -> Canon (c_refine c ok).
  Proof.
    intros Hc bs a rest H. cbn in H. destruct (dec c bs) as [[a' r]|] eqn:Hd; [|discriminate].
    destruct (ok a') eqn:Hok; [|discriminate]. inversion H; subst.
    destruct (Hc _ _ _ Hd). cbn. auto.
  Qed.
  Lemma refine_NonEmpty : NonEmpty c -> NonEmpty (c_refine c ok).
  Proof. intros Hc a [Hw _]. cbn. auto. Qed.
  Lemma refine_Shrinks : Shrinks c -> Shrinks (c_refine c ok).
  Proof.
    intros Hc bs a r H. cbn in H. destruct (dec c bs) as [[a' r']|] eqn:Hd; [|discriminate].
    destruct (ok a'); [|discriminate]. inversion H; subst. eapply Hc; eauto.
  Qed.
  Lemma refine_AllocOK : forall K, AllocOK K c -> AllocOK K (c_refine c ok).
  Proof.
    intros K Hc bs. destruct (Hc bs) as [H1 H2]. cbn [pre c_refine]. split; [exact H1|].
    intros a r H. cbn in H. destruct (dec c bs) as [[a' r']|] eqn:Hd; [|discriminate].
    destruct (ok a'); [|discriminate]. inversion H; subst. eapply H2; eauto.
  Qed.
  (** a value failing the check is rejected, however it is followed *)
  Lemma refine_reject : RT c -> forall a rest, wf c a -> ok a = false -> dec (c_refine c ok) (enc c a ++ rest) = None.
  Proof. intros Hc a rest Hw Hok. cbn. rewrite (Hc _ rest Hw), Hok. reflexivity. Qed.
End Refine.

(** ** pair *)
Section Pair.
  Context {A B : Type} (ca : codec A) (cb : codec B).
  Lemma pair_RT : RT ca -> RT cb -> RT (c_pair ca cb).
  Proof.
    intros Ha Hb [a b] rest [Hwa Hwb]. cbn in *. rewrite <- app_assoc.
    rewrite (Ha _ _ Hwa), (Hb _ _ Hwb). reflexivity.
  Qed.
  Lemma pair_Canon : Canon ca -> Canon cb -> Canon (c_pair ca cb).
  Proof.
    intros Ha Hb bs [a b] rest H. cbn in H.
    destruct (dec ca bs) as [[a' r]|] eqn:Hda; [|discriminate].
    destruct (dec cb r) as [[b' r']|] eqn:Hdb; [|discriminate].
    inversion H; subst; clear H.
    destruct (Ha _ _ _ Hda) as [E1 W1]. destruct (Hb _ _ _ Hdb) as [E2 W2]. subst.
    cbn. rewrite <- app_assoc. auto.
  Qed.
  Lemma pair_NonEmpty_l : NonEmpty ca -> NonEmpty (c_pair ca cb).
  Proof.
    intros Ha [a b] [Hwa _]. cbn. specialize (Ha a Hwa). destruct (enc ca a); [congruence | discriminate].
  Qed.
  Lemma pair_Shrinks : Shrinks ca -> Shrinks cb -> Shrinks (c_pair ca cb).
  Proof.
    intros Ha Hb bs [a b] rest H. cbn in H.
    destruct (dec ca bs) as [[a' r]|] eqn:Hda; [|discriminate].
    destruct (dec cb r) as [[b' r']|] eqn:Hdb; [|discriminate].
    inversion H; subst. specialize (Ha _ _ _ Hda). specialize (Hb _ _ _ Hdb). lia.
  Qed.
  Lemma pair_AllocOK : forall K, Shrinks ca -> AllocOK K ca -> AllocOK K cb -> AllocOK K (c_pair ca cb).
  Proof.
    intros K Sa Ha Hb bs. destruct (Ha bs) as [A1 A2]. cbn [pre dec c_pair].
    destruct (dec ca bs) as [[a r]|] eqn:Hda.
    - specialize (A2 _ _ eq_refl). destruct (Hb r) as [B1 B2]. split; [lia|].
      intros [a' b'] rest H. destruct (dec cb r) as [[b r']|] eqn:Hdb; [|discriminate].
      inversion H; subst. specialize (B2 _ _ eq_refl). lia.
    - split; [lia | discriminate].
  Qed.
End Pair.

(** ** tagged sum *)
Section Sum.
  Context {A B : Type} (ca : codec A) (cb : codec B).
  Lemma sum_RT : RT ca -> RT cb -> RT (c_sum ca cb).
  Proof.
    intros Ha Hb [a|b] rest Hw; cbn in *.
    - rewrite (Ha _ _ Hw). reflexivity.
    - rewrite (Hb _ _ Hw). reflexivity.
  Qed.
  Lemma sum_Canon : Canon ca -> Canon cb -> Canon (c_sum ca cb).
  Proof.
    intros Ha Hb bs s rest H. cbn in H. destruct bs as [|t r]; [discriminate|].
    destruct (t =? 0) eqn:T0.
    - apply N.eqb_eq in T0. subst. destruct (dec ca r) as [[a r']|] eqn:Hd; [|discriminate].
      inversion H; subst. destruct (Ha _ _ _ Hd) as [E W]. subst. cbn. auto.
    - destruct (t =? 1) eqn:T1; [|discriminate].
      apply N.eqb_eq in T1. subst. destruct (dec cb r) as [[b r']|] eqn:Hd; [|discriminate].
      inversion H; subst. destruct (Hb _ _ _ Hd) as [E W]. subst. cbn. auto.
  Qed.
  Lemma sum_NonEmpty : NonEmpty (c_sum ca cb).
  Proof. intros [a|b] _; cbn; discriminate. Qed.
  Lemma sum_Shrinks : Shrinks ca -> Shrinks cb -> Shrinks (c_sum ca cb).
  Proof.
    intros Ha Hb bs s rest H. cbn in H. destruct bs as [|t r]; [discriminate|].
    destruct (t =? 0).
    - destruct (dec ca r) as [[a r']|] eqn:Hd; [|discriminate]. inversion H; subst.
      specialize (Ha _ _ _ Hd). cbn. lia.
    - destruct (t =? 1); [|discriminate].
      destruct (dec cb r) as [[b r']|] eqn:Hd; [|discriminate]. inversion H; subst.
      specialize (Hb _ _ _ Hd). cbn. lia.
  Qed.
  Lemma sum_AllocOK : forall K, AllocOK K ca -> AllocOK K cb -> AllocOK K (c_sum ca cb).
  Proof.
    intros K Ha Hb bs. cbn [pre dec c_sum]. destruct bs as [|t r]; [split; [lia | discriminate]|].
    cbn [length]. rewrite Nat2N.inj_succ.
    destruct (t =? 0).
    - destruct (Ha r) as [A1 A2]. split; [lia|]. intros s rest H.
      destruct (dec ca r) as [[a r']|] eqn:Hd; [|discriminate]. inversion H; subst.
      specialize (A2 _ _ eq_refl). lia.
    - destruct (t =? 1).
      + destruct (Hb r) as [B1 B2]. split; [lia|]. intros s rest H.
        destruct (dec cb r) as [[b r']|] eqn:Hd; [|discriminate]. inversion H; subst.
        specialize (B2 _ _ eq_refl). lia.
      + split; [lia | discriminate].
  Qed.
  (** an unknown tag is rejected *)
  Lemma sum_bad_tag : forall t r, t <> 0 -> t <> 1 -> dec (c_sum ca cb) (t :: r) = None.
  Proof.
    intros t r H0 H1. cbn. apply N.eqb_neq in H0, H1. rewrite H0, H1. reflexivity.
  Qed.
End Sum.

(** ** element loops *)
Section Elems.
  Context {A : Type} (c : codec A).

  Lemma enc_elems_cons : forall a xs, enc_elems c (a :: xs) = enc c a ++ enc_elems c xs.
  Proof. reflexivity. Qed.

  Lemma enc_elems_length_ge : NonEmpty c -> forall xs, Forall (wf c) xs ->
    (length xs <= length (enc_elems c xs))%nat.
  Proof.
    intros Hne xs H. induction H as [|a xs Ha _ IH]; [cbn; lia|].
    rewrite enc_elems_cons, app_length. cbn [length].
    specialize (Hne a Ha). destruct (enc c a); [congruence|]. cbn. lia.
  Qed.

  Lemma dec_elems_RT : RT c -> NonEmpty c -> forall xs rest fuel,
    Forall (wf c) xs -> (length xs <= fuel)%nat ->
    dec_elems c fuel (N.of_nat (length xs)) (enc_elems c xs ++ rest) = Some (xs, rest).
  Proof.
    intros Hrt Hne xs. induction xs as [|a xs IH]; intros rest fuel Hw Hf.
    - destruct fuel; reflexivity.
    - inversion Hw as [|? ? Ha Hxs]; subst.
      destruct fuel as [|f]; [cbn in Hf; lia|].
      cbn [length]. rewrite Nat2N.inj_succ.
      cbn [dec_elems].
      destruct (N.succ (N.of_nat (length xs)) =? 0) eqn:E; [apply N.eqb_eq in E; lia|].
      rewrite enc_elems_cons, <- app_assoc, (Hrt _ _ Ha).
      replace (N.succ (N.of_nat (length xs)) - 1) with (N.of_nat (length xs)) by lia.
      rewrite IH by (auto; cbn in Hf; lia). reflexivity.
  Qed.

  Lemma dec_elems_Canon : Canon c -> forall fuel cnt bs xs rest,
    dec_elems c fuel cnt bs = Some (xs, rest) ->
    bs = enc_elems c xs ++ rest /\ Forall (wf c) xs /\ N.of_nat (length xs) = cnt.
  Proof.
    intros Hc. induction fuel as [|f IH]; intros cnt bs xs rest H.
    - cbn in H. destruct (cnt =? 0) eqn:E; [|discriminate]. apply N.eqb_eq in E.
      inversion H; subst. cbn. auto.
    - cbn [dec_elems] in H. destruct (cnt =? 0) eqn:E.
      + apply N.eqb_eq in E. inversion H; subst. cbn. auto.
      + apply N.eqb_neq in E.
        destruct (dec c bs) as [[a r]|] eqn:Hd; [|discriminate].
        destruct (dec_elems c f (cnt - 1) r) as [[xs' r']|] eqn:Hr; [|discriminate].
        inversion H; subst; clear H.
        destruct (Hc _ _ _ Hd) as [E1 W1]. destruct (IH _ _ _ _ Hr) as [E2 [W2 L]]. subst.
        rewrite enc_elems_cons, <- app_assoc. repeat split; auto.
        cbn [length]. rewrite Nat2N.inj_succ. lia.
  Qed.

  Lemma dec_elems_Shrinks : Shrinks c -> forall fuel cnt bs xs rest,
    dec_elems c fuel cnt bs = Some (xs, rest) -> (length rest <= length bs)%nat.
  Proof.
    intros Hc. induction fuel as [|f IH]; intros cnt bs xs rest H.
    - cbn in H. destruct (cnt =? 0); [|discriminate]. inversion H; subst. lia.
    - cbn [dec_elems] in H. destruct (cnt =? 0).
      + inversion H; subst. lia.
      + destruct (dec c bs) as [[a r]|] eqn:Hd; [|discriminate].
        destruct (dec_elems c f (cnt - 1) r) as [[xs' r']|] eqn:Hr; [|discriminate].
        inversion H; subst. specialize (Hc _ _ _ Hd). specialize (IH _ _ _ _ Hr). lia.
  Qed.

  Lemma pre_elems_bound : forall K, AllocOK K c -> forall fuel cnt bs,
    pre_elems c fuel cnt bs <= K * N.of_nat (length bs)
    /\ forall xs rest, dec_elems c fuel cnt bs = Some (xs, rest) ->
         pre_elems c fuel cnt bs + K * N.of_nat (length rest) <= K * N.of_nat (length bs).
  Proof.
    intros K Hc. induction fuel as [|f IH]; intros cnt bs.
    - cbn. destruct (cnt =? 0); (split; [lia|]); intros xs rest H; inversion H; subst; lia.
    - cbn [pre_elems dec_elems]. destruct (cnt =? 0).
      + split; [lia|]. intros xs rest H. inversion H; subst. lia.
      + destruct (Hc bs) as [A1 A2].
        destruct (dec c bs) as [[a r]|] eqn:Hd.
        * specialize (A2 _ _ eq_refl). destruct (IH (cnt - 1) r) as [B1 B2]. split; [lia|].
          intros xs rest H.
          destruct (dec_elems c f (cnt - 1) r) as [[xs' r']|] eqn:Hr; [|discriminate].
          inversion H; subst. specialize (B2 _ _ eq_refl). lia.
        * split; [lia | discriminate].
  Qed.

  (** *** arrays *)
  Lemma array_RT : RT c -> NonEmpty c -> forall n, RT (c_array c n).
  Proof.
    intros Hrt Hne n xs rest [L W]. cbn. subst n. apply dec_elems_RT; auto.
  Qed.
  Lemma array_Canon : Canon c -> forall n, Canon (c_array c n).
  Proof.
    intros Hc n bs xs rest H. cbn in H. destruct (dec_elems_Canon Hc _ _ _ _ _ H) as [E [W L]].
    cbn. repeat split; auto. lia.
  Qed.
  Lemma array_Shrinks : Shrinks c -> forall n, Shrinks (c_array c n).
  Proof. intros Hc n bs xs rest H. cbn in H. eapply dec_elems_Shrinks; eauto. Qed.
  Lemma array_AllocOK : forall K, AllocOK K c -> forall n, AllocOK K (c_array c n).
  Proof. intros K Hc n bs. cbn [pre dec c_array]. apply pre_elems_bound. exact Hc. Qed.
  Lemma array_NonEmpty : NonEmpty c -> forall n, NonEmpty (c_array c (S n)).
  Proof.
    intros Hne n xs [L W]. cbn. destruct xs as [|a xs]; [discriminate|].
    inversion W; subst. rewrite enc_elems_cons. specialize (Hne a H1).
    destruct (enc c a); [congruence | discriminate].
  Qed.

  (** *** length-prefixed vectors *)
  Lemma vec_RT : RT c -> NonEmpty c -> forall k rsv, RT (c_vec c k rsv).
  Proof.
    intros Hrt Hne k rsv xs rest [L W]. cbn [dec enc c_vec]. rewrite <- app_assoc.
    rewrite le_take_bytes by exact L.
    apply dec_elems_RT; auto.
    rewrite app_length. pose proof (enc_elems_length_ge Hne xs W). lia.
  Qed.
  Lemma vec_Canon : Canon c -> forall k rsv, Canon (c_vec c k rsv).
  Proof.
    intros Hc k rsv bs xs rest H. cbn [dec c_vec] in H.
    destruct (le_take k bs) as [[n r]|] eqn:Hl; [|discriminate].
    destruct (le_take_canon _ _ _ _ Hl) as [E Hn].
    destruct (dec_elems_Canon Hc _ _ _ _ _ H) as [E2 [W L]]. subst.
    cbn [enc wf c_vec]. rewrite <- app_assoc. repeat split; auto.
  Qed.
  Lemma vec_NonEmpty : forall k rsv, NonEmpty (c_vec c (S k) rsv).
  Proof. intros k rsv xs _. cbn. discriminate. Qed.
  Lemma vec_Shrinks : Shrinks c -> forall k rsv, Shrinks (c_vec c k rsv).
  Proof.
    intros Hc k rsv bs xs rest H. cbn [dec c_vec] in H.
    destruct (le_take k bs) as [[n r]|] eqn:Hl; [|discriminate].
    apply le_take_length in Hl. apply (dec_elems_Shrinks Hc) in H. lia.
  Qed.
  (** the reservation is paid for by the length prefix: at most [K] slots per vector *)
  Lemma vec_AllocOK : forall K, AllocOK K c -> forall k rsv,
    (forall n, n < 256 ^ N.of_nat (S k) -> rsv n <= K) ->
    AllocOK K (c_vec c (S k) rsv).
  Proof.
    intros K Hc k rsv Hr bs. cbn [pre dec c_vec].
    destruct (le_take (S k) bs) as [[n r]|] eqn:Hl; [|split; [lia | discriminate]].
    pose proof (proj2 (le_take_canon _ _ _ _ Hl)) as Hn.
    apply le_take_length in Hl. rewrite Hl.
    destruct (pre_elems_bound K Hc (S (length r)) n r) as [B1 B2].
    specialize (Hr n Hn). rewrite Nat2N.inj_add, Nat2N.inj_succ.
    split; [lia|]. intros xs rest H. specialize (B2 _ _ H). lia.
  Qed.
  (** the number of slots reserved before the first element is read *)
  Lemma vec_reserve_le_max : forall n, rsv_std n <= MAX_PREALLOCATED_CAPACITY.
  Proof. intros n. unfold rsv_std. lia. Qed.
End Elems.

(** ** ordered collections *)
Section Ordered.
  Context {A : Type} (ltb : A -> A -> bool).

  Lemma isort_sorted_id : forall xs, strict_sorted ltb xs = true -> isort ltb xs = xs.
  Proof.
    induction xs as [|x xs IH]; intros H; [reflexivity|].
    cbn [isort]. cbn [strict_sorted] in H. destruct xs as [|y ys]; [reflexivity|].
    apply andb_prop in H as [Hxy Hs]. rewrite (IH Hs). cbn [insert]. rewrite Hxy. reflexivity.
  Qed.

  Section WithCodec.
    Context (cv : codec (list A)).
    Lemma ordered_RT : RT cv -> RT (c_ordered ltb cv).
    Proof. apply refine_RT. Qed.
    Lemma ordered_Canon : Canon cv -> Canon (c_ordered ltb cv).
    Proof. apply refine_Canon. Qed.
    (** the encoding of a collection with a duplicate or descending key is rejected *)
    Lemma ordered_reject_gen : RT cv -> forall xs rest, wf cv xs -> strict_sorted ltb xs = false ->
      dec (c_ordered ltb cv) (enc cv xs ++ rest) = None.
    Proof. intros H xs rest W S. apply refine_reject; auto. Qed.

    Lemma unordered_RT : RT cv -> RT (c_unordered ltb cv).
    Proof.
      intros Hc xs rest [W S]. cbn. rewrite (Hc _ _ W). rewrite (isort_sorted_id _ S), S. reflexivity.
    Qed.
    Lemma unordered_Shrinks : Shrinks cv -> Shrinks (c_unordered ltb cv).
    Proof.
      intros Hc bs xs r H. cbn in H. destruct (dec cv bs) as [[ys r']|] eqn:Hd; [|discriminate].
      destruct (strict_sorted ltb (isort ltb ys)); [|discriminate]. inversion H; subst. eapply Hc; eauto.
    Qed.
    Lemma unordered_AllocOK : forall K, AllocOK K cv -> AllocOK K (c_unordered ltb cv).
    Proof.
      intros K Hc bs. destruct (Hc bs) as [H1 H2]. cbn [pre c_unordered]. split; [exact H1|].
      intros xs r H. cbn in H. destruct (dec cv bs) as [[ys r']|] eqn:Hd; [|discriminate].
      destruct (strict_sorted ltb (isort ltb ys)); [|discriminate]. inversion H; subst. eapply H2; eauto.
    Qed.
    (** whatever is accepted is strictly ascending: no duplicates survive *)
    Lemma unordered_sound : forall bs xs r, dec (c_unordered ltb cv) bs = Some (xs, r) -> strict_sorted ltb xs = true.
    Proof.
      intros bs xs r H. cbn in H. destruct (dec cv bs) as [[ys r']|]; [|discriminate].
      destruct (strict_sorted ltb (isort ltb ys)) eqn:S; [|discriminate]. inversion H; subst. exact S.
    Qed.
  End WithCodec.
End Ordered.
