(** C16 - executable model of the textual form of [AccountAddress]
    (contracts-common types.rs, [serde_impl]: [bs58::encode(..).with_check_version(1)] /
    [bs58::decode(..).with_check(Some(1)).onto(&mut [0u8; 37])]) and of the hexadecimal
    forms ([HashBytes], [PublicKeyEd25519], ... in hashes.rs / types.rs).

    Base58 (Bitcoin alphabet) is a conversion of the big-endian number denoted by the byte
    string into base 58 that keeps the number of leading zero digits ([convert]); Base58Check
    appends the first four bytes of a double hash, which is a parameter [H4] of the model.
    Definitions only. *)
From Coq Require Import NArith List Bool.
Import ListNotations.
Local Open Scope N_scope.

(** ** positional numbers *)
(** least significant digit first; stops at 0, so no digit for 0 and no leading zero *)
Fixpoint radix_rev (fuel : nat) (b n : N) : list N :=
  match fuel with
  | O => []
  | S f => if n =? 0 then [] else n mod b :: radix_rev f b (n / b)
  end.
(** most significant digit first; [n < 2 ^ (log2 n + 1)] bounds the number of digits *)
Definition to_digits (b n : N) : list N := rev (radix_rev (S (N.to_nat (N.log2 n))) b n).
Definition of_digits (b : N) (ds : list N) : N := fold_left (fun a d => a * b + d) ds 0.

Fixpoint count_lz (ds : list N) : nat :=
  match ds with
  | d :: r => if d =? 0 then S (count_lz r) else O
  | [] => O
  end.
(** change of base that preserves the number of leading zero digits *)
Definition convert (b1 b2 : N) (ds : list N) : list N :=
  repeat 0 (count_lz ds) ++ to_digits b2 (of_digits b1 ds).

(** ** the Bitcoin alphabet *)
Definition B58_ALPHABET : list N :=
  [49;50;51;52;53;54;55;56;57;                              (* 1-9 *)
   65;66;67;68;69;70;71;72;  74;75;76;77;78;  80;81;82;83;84;85;86;87;88;89;90;   (* A-H J-N P-Z *)
   97;98;99;100;101;102;103;104;105;106;107;  109;110;111;112;113;114;115;116;117;118;119;120;121;122]. (* a-k m-z *)
Definition b58_char (d : N) : N := nth (N.to_nat d) B58_ALPHABET 0.
Fixpoint index_of (c : N) (l : list N) (i : N) : option N :=
  match l with
  | [] => None
  | x :: r => if x =? c then Some i else index_of c r (i + 1)
  end.
Definition b58_index (c : N) : option N := index_of c B58_ALPHABET 0.

Fixpoint map_opt {A B : Type} (f : A -> option B) (l : list A) : option (list B) :=
  match l with
  | [] => Some []
  | x :: r => match f x, map_opt f r with
              | Some y, Some ys => Some (y :: ys)
              | _, _ => None
              end
  end.

Definition b58_encode (bs : list N) : list N := map b58_char (convert 256 58 bs).
(** any character outside the alphabet (non-ASCII included) is an error *)
Definition b58_decode (s : list N) : option (list N) :=
  match map_opt b58_index s with
  | Some ds => Some (convert 58 256 ds)
  | None => None
  end.

(** ** AccountAddress: Base58Check, version byte 1, 32 bytes *)
Fixpoint bytes_eqb (a b : list N) : bool :=
  match a, b with
  | [], [] => true
  | x :: a', y :: b' => (x =? y) && bytes_eqb a' b'
  | _, _ => false
  end.

(** [Display for AccountAddress] *)
Definition print_account_address (H4 : list N -> list N) (a : list N) : list N :=
  let p := 1 :: a in b58_encode (p ++ H4 p).

(** [FromStr for AccountAddress]: decode into a buffer of 37 bytes (longer: error), at least
    the 4 checksum bytes, checksum of everything before them, version 1, 33 bytes left *)
Definition parse_account_address (H4 : list N -> list N) (s : list N) : option (list N) :=
  match b58_decode s with
  | None => None
  | Some raw =>
      let n := length raw in
      if Nat.ltb 37 n then None
      else if Nat.ltb n 4 then None
      else
        let payload := firstn (n - 4) raw in
        let ck := skipn (n - 4) raw in
        if bytes_eqb (H4 payload) ck then
          match payload with
          | v :: addr => if (v =? 1) && Nat.eqb (length addr) 32 then Some addr else None
          | [] => None
          end
        else None
  end.

(** ** hexadecimal forms *)
Definition hex_digit (d : N) : N := if d <? 10 then 48 + d else 87 + d.     (* lower case *)
Definition hex_digit_upper (d : N) : N := if d <? 10 then 48 + d else 55 + d.
(** [hex::val] / [char::to_digit(16)]: both cases *)
Definition hex_val (c : N) : option N :=
  if (48 <=? c) && (c <=? 57) then Some (c - 48)
  else if (97 <=? c) && (c <=? 102) then Some (c - 87)
  else if (65 <=? c) && (c <=? 70) then Some (c - 55)
  else None.

(** [write!(f, "{:02x}", byte)] for every byte *)
Fixpoint hex_print (bs : list N) : list N :=
  match bs with
  | [] => []
  | b :: r => hex_digit (b / 16) :: hex_digit (b mod 16) :: hex_print r
  end.
Fixpoint hex_print_upper (bs : list N) : list N :=
  match bs with
  | [] => []
  | b :: r => hex_digit_upper (b / 16) :: hex_digit_upper (b mod 16) :: hex_print_upper r
  end.

(** [hex::decode]: even length, every character a hex digit of either case *)
Fixpoint hex_decode (s : list N) : option (list N) :=
  match s with
  | [] => Some []
  | c1 :: c2 :: r =>
      match hex_val c1, hex_val c2, hex_decode r with
      | Some h, Some l, Some bs => Some (h * 16 + l :: bs)
      | _, _, _ => None
      end
  | [_] => None
  end.
(** [FromStr for HashBytes]: [hex::decode], then exactly 32 bytes *)
Definition parse_hash (s : list N) : option (list N) :=
  match hex_decode s with
  | Some bs => if Nat.eqb (length bs) 32 then Some bs else None
  | None => None
  end.

(** [FromStr for PublicKeyEd25519] etc.: [s.len() == 2 n], then [u8::from_str_radix(&s[2i..2i+2], 16)]
    for every pair.  [from_str_radix] accepts a leading [+], so a pair may be "+d".  The model
    is for ASCII strings (with other characters the byte offsets need not be character
    boundaries; the implementation then panics - recorded as an observation). *)
Definition pair_val (c1 c2 : N) : option N :=
  if c1 =? 43 then hex_val c2
  else match hex_val c1, hex_val c2 with
       | Some h, Some l => Some (h * 16 + l)
       | _, _ => None
       end.
Fixpoint hex_pairs (s : list N) : option (list N) :=
  match s with
  | [] => Some []
  | c1 :: c2 :: r =>
      match pair_val c1 c2, hex_pairs r with
      | Some b, Some bs => Some (b :: bs)
      | _, _ => None
      end
  | [_] => None
  end.
Definition parse_key (n : nat) (s : list N) : option (list N) :=
  if Nat.eqb (length s) (2 * n) then hex_pairs s else None.
