(** C14 - lemmas about the traversal energy of the v1 state tree (HostTreeEnergy.v). *)
From Coq Require Import NArith List Bool Lia.
From CB Require Trie.Radix.
From CB Require Import Contract.HostTreeEnergy.
Import ListNotations.
Local Open Scope N_scope.

Scheme tr_mut := Induction for Radix.tree Sort Prop
  with fr_mut := Induction for Radix.forest Sort Prop.

Lemma nlen_app : forall A (a b : list A), nlen (a ++ b) = nlen a + nlen b.
Proof. intros. unfold nlen. rewrite app_length. lia. Qed.

(** *** delete_prefix *)
Lemma dp_steps_le_size_both :
  (forall t : tr, forall E acc, dp_steps E acc t <= tnodes t + tstems t) /\
  (forall f : fr, forall E fk, dp_steps_f E fk f <= tnodes_f f + tstems_f f).
Proof.
  apply (conj (A := forall t : tr, forall E acc, dp_steps E acc t <= tnodes t + tstems t)).
  - apply (tr_mut unit (fun t => forall E acc, dp_steps E acc t <= tnodes t + tstems t)
                       (fun f => forall E fk, dp_steps_f E fk f <= tnodes_f f + tstems_f f)).
    + intros p ov cs IH E acc. cbn [dp_steps tnodes tstems].
      destruct (memk (acc ++ p) E); [specialize (IH E (acc ++ p))|]; lia.
    + intros E fk. cbn. lia.
    + intros c t IHt r IHr E fk. cbn [dp_steps_f tnodes_f tstems_f].
      specialize (IHt E (fk ++ [c])). specialize (IHr E fk). lia.
  - apply (fr_mut unit (fun t => forall E acc, dp_steps E acc t <= tnodes t + tstems t)
                       (fun f => forall E fk, dp_steps_f E fk f <= tnodes_f f + tstems_f f)).
    + intros p ov cs IH E acc. cbn [dp_steps tnodes tstems].
      destruct (memk (acc ++ p) E); [specialize (IH E (acc ++ p))|]; lia.
    + intros E fk. cbn. lia.
    + intros c t IHt r IHr E fk. cbn [dp_steps_f tnodes_f tstems_f].
      specialize (IHt E (fk ++ [c])). specialize (IHr E fk). lia.
Qed.

Lemma dp_steps_le_size : forall (t : tr) E acc, dp_steps E acc t <= tnodes t + tstems t.
Proof. exact (proj1 dp_steps_le_size_both). Qed.

(** the charge is linear in the number of nodes actually visited: each visited node costs its stem
    length + 1, and a stem is part of a key *)
Lemma dp_steps_le_visited_both : forall L,
  (forall t : tr, forall E acc, Forall (fun k => nlen k <= L) (node_keys acc t) ->
       dp_steps E acc t <= (L + 1) * dp_visited E acc t) /\
  (forall f : fr, forall E fk, Forall (fun k => nlen k <= L) (node_keys_f fk f) ->
       dp_steps_f E fk f <= (L + 1) * dp_visited_f E fk f).
Proof.
  intros L.
  assert (Ht : forall p ov cs,
    (forall E fk, Forall (fun k => nlen k <= L) (node_keys_f fk cs) -> dp_steps_f E fk cs <= (L + 1) * dp_visited_f E fk cs) ->
    forall E acc, Forall (fun k => nlen k <= L) (node_keys acc (Radix.Node p ov cs)) ->
      dp_steps E acc (Radix.Node p ov cs) <= (L + 1) * dp_visited E acc (Radix.Node p ov cs)).
  { intros p ov cs IH E acc HF. cbn [node_keys] in HF. inversion HF as [|? ? Hk Hr]; subst.
    rewrite nlen_app in Hk. cbn [dp_steps dp_visited].
    destruct (memk (acc ++ p) E); [specialize (IH E (acc ++ p) Hr)|]; nia. }
  assert (Hc : forall c (t : tr),
    (forall E acc, Forall (fun k => nlen k <= L) (node_keys acc t) -> dp_steps E acc t <= (L + 1) * dp_visited E acc t) ->
    forall r : fr,
    (forall E fk, Forall (fun k => nlen k <= L) (node_keys_f fk r) -> dp_steps_f E fk r <= (L + 1) * dp_visited_f E fk r) ->
    forall E fk, Forall (fun k => nlen k <= L) (node_keys_f fk (Radix.FCons c t r)) ->
      dp_steps_f E fk (Radix.FCons c t r) <= (L + 1) * dp_visited_f E fk (Radix.FCons c t r)).
  { intros c t IHt r IHr E fk HF. cbn [node_keys_f] in HF. apply Forall_app in HF. destruct HF as [H1 H2].
    cbn [dp_steps_f dp_visited_f]. specialize (IHt E (fk ++ [c]) H1). specialize (IHr E fk H2). nia. }
  split.
  - apply (tr_mut unit (fun t => forall E acc, Forall (fun k => nlen k <= L) (node_keys acc t) ->
                                   dp_steps E acc t <= (L + 1) * dp_visited E acc t)
                       (fun f => forall E fk, Forall (fun k => nlen k <= L) (node_keys_f fk f) ->
                                   dp_steps_f E fk f <= (L + 1) * dp_visited_f E fk f)); auto.
    intros E fk _. cbn. lia.
  - apply (fr_mut unit (fun t => forall E acc, Forall (fun k => nlen k <= L) (node_keys acc t) ->
                                   dp_steps E acc t <= (L + 1) * dp_visited E acc t)
                       (fun f => forall E fk, Forall (fun k => nlen k <= L) (node_keys_f fk f) ->
                                   dp_steps_f E fk f <= (L + 1) * dp_visited_f E fk f)); auto.
    intros E fk _. cbn. lia.
Qed.

Lemma dp_steps_le_visited : forall L (t : tr) E acc,
  Forall (fun k => nlen k <= L) (node_keys acc t) -> dp_steps E acc t <= (L + 1) * dp_visited E acc t.
Proof. intros L. exact (proj1 (dp_steps_le_visited_both L)). Qed.

Lemma dp_visited_le_nodes_both :
  (forall t : tr, forall E acc, 1 <= dp_visited E acc t <= tnodes t) /\
  (forall f : fr, forall E fk, dp_visited_f E fk f <= tnodes_f f).
Proof.
  assert (Ht : forall p ov (cs : fr), (forall E fk, dp_visited_f E fk cs <= tnodes_f cs) ->
             forall E acc, 1 <= dp_visited E acc (Radix.Node p ov cs) <= tnodes (Radix.Node p ov cs)).
  { intros p ov cs IH E acc. cbn [dp_visited tnodes]. destruct (memk (acc ++ p) E); [specialize (IH E (acc ++ p))|]; lia. }
  assert (Hc : forall c (t : tr), (forall E acc, 1 <= dp_visited E acc t <= tnodes t) ->
             forall r : fr, (forall E fk, dp_visited_f E fk r <= tnodes_f r) ->
             forall E fk, dp_visited_f E fk (Radix.FCons c t r) <= tnodes_f (Radix.FCons c t r)).
  { intros c t IHt r IHr E fk. cbn [dp_visited_f tnodes_f]. specialize (IHt E (fk ++ [c])). specialize (IHr E fk). lia. }
  split.
  - apply (tr_mut unit (fun t => forall E acc, 1 <= dp_visited E acc t <= tnodes t)
                       (fun f => forall E fk, dp_visited_f E fk f <= tnodes_f f)); auto.
    intros E fk. cbn. lia.
  - apply (fr_mut unit (fun t => forall E acc, 1 <= dp_visited E acc t <= tnodes t)
                       (fun f => forall E fk, dp_visited_f E fk f <= tnodes_f f)); auto.
    intros E fk. cbn. lia.
Qed.

(** more expanded nodes never make the charge smaller *)
Lemma dp_steps_mono_both : forall E E', (forall k, memk k E = true -> memk k E' = true) ->
  (forall t : tr, forall acc, dp_steps E acc t <= dp_steps E' acc t) /\
  (forall f : fr, forall fk, dp_steps_f E fk f <= dp_steps_f E' fk f).
Proof.
  intros E E' Hinc.
  assert (Ht : forall p ov (cs : fr), (forall fk, dp_steps_f E fk cs <= dp_steps_f E' fk cs) ->
             forall acc, dp_steps E acc (Radix.Node p ov cs) <= dp_steps E' acc (Radix.Node p ov cs)).
  { intros p ov cs IH acc. cbn [dp_steps]. destruct (memk (acc ++ p) E) eqn:Hm.
    - rewrite (Hinc _ Hm). specialize (IH (acc ++ p)). lia.
    - destruct (memk (acc ++ p) E'); lia. }
  assert (Hc : forall c (t : tr), (forall acc, dp_steps E acc t <= dp_steps E' acc t) ->
             forall r : fr, (forall fk, dp_steps_f E fk r <= dp_steps_f E' fk r) ->
             forall fk, dp_steps_f E fk (Radix.FCons c t r) <= dp_steps_f E' fk (Radix.FCons c t r)).
  { intros c t IHt r IHr fk. cbn [dp_steps_f]. specialize (IHt (fk ++ [c])). specialize (IHr fk). lia. }
  split.
  - apply (tr_mut unit (fun t => forall acc, dp_steps E acc t <= dp_steps E' acc t)
                       (fun f => forall fk, dp_steps_f E fk f <= dp_steps_f E' fk f)); auto.
    intros fk. cbn. lia.
  - apply (fr_mut unit (fun t => forall acc, dp_steps E acc t <= dp_steps E' acc t)
                       (fun f => forall fk, dp_steps_f E fk f <= dp_steps_f E' fk f)); auto.
    intros fk. cbn. lia.
Qed.

(** the subtree found at a prefix is part of the tree *)
Lemma find_sub_size_both :
  (forall t : tr, forall acc k a s, find_sub acc k t = Some (a, s) -> tnodes s <= tnodes t /\ tstems s <= tstems t) /\
  (forall f : fr, forall acc c k a s, find_sub_f acc c k f = Some (a, s) -> tnodes s <= tnodes_f f /\ tstems s <= tstems_f f).
Proof.
  assert (Ht : forall p ov (cs : fr),
     (forall acc c k a s, find_sub_f acc c k cs = Some (a, s) -> tnodes s <= tnodes_f cs /\ tstems s <= tstems_f cs) ->
     forall acc k a s, find_sub acc k (Radix.Node p ov cs) = Some (a, s) ->
       tnodes s <= tnodes (Radix.Node p ov cs) /\ tstems s <= tstems (Radix.Node p ov cs)).
  { intros p ov cs IH acc k a s. cbn [find_sub]. destruct (Radix.follow_stem k p).
    - intros [= <- <-]. lia.
    - intros [= <- <-]. lia.
    - intros H. apply IH in H. cbn [tnodes tstems]. lia.
    - discriminate. }
  assert (Hc : forall c0 (t : tr),
     (forall acc k a s, find_sub acc k t = Some (a, s) -> tnodes s <= tnodes t /\ tstems s <= tstems t) ->
     forall r : fr,
     (forall acc c k a s, find_sub_f acc c k r = Some (a, s) -> tnodes s <= tnodes_f r /\ tstems s <= tstems_f r) ->
     forall acc c k a s, find_sub_f acc c k (Radix.FCons c0 t r) = Some (a, s) ->
       tnodes s <= tnodes_f (Radix.FCons c0 t r) /\ tstems s <= tstems_f (Radix.FCons c0 t r)).
  { intros c0 t IHt r IHr acc c k a s. cbn [find_sub_f tnodes_f tstems_f]. destruct (c =? c0).
    - intros H. apply IHt in H. lia.
    - intros H. apply IHr in H. lia. }
  split.
  - apply (tr_mut unit
      (fun t => forall acc k a s, find_sub acc k t = Some (a, s) -> tnodes s <= tnodes t /\ tstems s <= tstems t)
      (fun f => forall acc c k a s, find_sub_f acc c k f = Some (a, s) -> tnodes s <= tnodes_f f /\ tstems s <= tstems_f f)); auto.
    intros acc c k a s. cbn. discriminate.
  - apply (fr_mut unit
      (fun t => forall acc k a s, find_sub acc k t = Some (a, s) -> tnodes s <= tnodes t /\ tstems s <= tstems t)
      (fun f => forall acc c k a s, find_sub_f acc c k f = Some (a, s) -> tnodes s <= tnodes_f f /\ tstems s <= tstems_f f)); auto.
    intros acc c k a s. cbn. discriminate.
Qed.

Definition size_root (r : option tr) : N := match r with None => 0 | Some t => tnodes t + tstems t end.

Theorem delete_prefix_steps_le_size : forall E key r, delete_prefix_steps E key r <= size_root r.
Proof.
  intros E key r. unfold delete_prefix_steps, find_sub_root, size_root. destruct r as [t|]; [|lia].
  destruct (find_sub [] (Radix.nib key) t) as [[a s]|] eqn:Hf; [|lia].
  apply (proj1 find_sub_size_both) in Hf. pose proof (dp_steps_le_size s E a). lia.
Qed.

(** *** next *)
Lemma sum_charges_app : forall a b, sum_charges (a ++ b) = sum_charges a + sum_charges b.
Proof. induction a as [|[n|k|k] a IH]; intros b; cbn [app sum_charges]; rewrite ?IH; lia. Qed.

Lemma dfs_charges_both :
  (forall t : tr, forall acc, sum_charges (dfs acc t) + nlen (tpath t) + 2 = 2 * (tnodes t + tstems t)) /\
  (forall f : fr, forall fk, sum_charges (dfs_f fk f) = 2 * (tnodes_f f + tstems_f f)).
Proof.
  assert (Ht : forall p ov (cs : fr), (forall fk, sum_charges (dfs_f fk cs) = 2 * (tnodes_f cs + tstems_f cs)) ->
     forall acc, sum_charges (dfs acc (Radix.Node p ov cs)) + nlen (tpath (Radix.Node p ov cs)) + 2
                 = 2 * (tnodes (Radix.Node p ov cs) + tstems (Radix.Node p ov cs))).
  { intros p ov cs IH acc. cbn [dfs tpath tnodes tstems sum_charges]. rewrite sum_charges_app, IH.
    destruct ov; cbn [sum_charges]; lia. }
  assert (Hc : forall c (t : tr), (forall acc, sum_charges (dfs acc t) + nlen (tpath t) + 2 = 2 * (tnodes t + tstems t)) ->
     forall r : fr, (forall fk, sum_charges (dfs_f fk r) = 2 * (tnodes_f r + tstems_f r)) ->
     forall fk, sum_charges (dfs_f fk (Radix.FCons c t r)) = 2 * (tnodes_f (Radix.FCons c t r) + tstems_f (Radix.FCons c t r))).
  { intros c t IHt r IHr fk. cbn [dfs_f sum_charges tnodes_f tstems_f]. rewrite sum_charges_app. cbn [sum_charges].
    specialize (IHt (fk ++ [c])). specialize (IHr fk). lia. }
  split.
  - apply (tr_mut unit (fun t => forall acc, sum_charges (dfs acc t) + nlen (tpath t) + 2 = 2 * (tnodes t + tstems t))
                       (fun f => forall fk, sum_charges (dfs_f fk f) = 2 * (tnodes_f f + tstems_f f))); auto.
  - apply (fr_mut unit (fun t => forall acc, sum_charges (dfs acc t) + nlen (tpath t) + 2 = 2 * (tnodes t + tstems t))
                       (fun f => forall fk, sum_charges (dfs_f fk f) = 2 * (tnodes_f f + tstems_f f))); auto.
Qed.

(** a complete walk (all `next` calls of one iterator together) charges exactly
    2 * (nodes + stem chunks) - 2 - (stem of the start node) steps *)
Theorem dfs_total_charge : forall (t : tr) acc,
  sum_charges (dfs acc t) + nlen (tpath t) + 2 = 2 * (tnodes t + tstems t).
Proof. exact (proj1 dfs_charges_both). Qed.

Lemma after_yield_le : forall k l r, after_yield k l = Some r -> sum_charges r <= sum_charges l.
Proof.
  intros k l. induction l as [|[n|k'|k'] l IH]; intros r; cbn [after_yield sum_charges]; try discriminate.
  - intros H. apply IH in H. lia.
  - destruct (keq k k'); [intros [= <-]; lia | apply IH].
  - apply IH.
Qed.
Lemma until_yield_le : forall l s e, fst (until_yield l s e) <= s + sum_charges l.
Proof.
  induction l as [|[n|k|k] l IH]; intros s e; cbn [until_yield sum_charges fst]; try lia.
  - specialize (IH (s + n) e). lia.
  - apply IH.
Qed.

(** one call of `next` charges at most what the whole walk charges: linear in the size of the tree *)
Theorem next_cost_le_size : forall r prefix started exhausted last,
  fst (next_cost r prefix started exhausted last) <= 2 * size_root r.
Proof.
  intros r prefix started exhausted last. unfold next_cost.
  destruct exhausted; [cbn; lia|].
  unfold find_sub_root, size_root. destruct r as [t|]; [|cbn; lia].
  destruct (find_sub [] (Radix.nib prefix) t) as [[a s]|] eqn:Hf; [|cbn; lia].
  apply (proj1 find_sub_size_both) in Hf. pose proof (dfs_total_charge s a) as Ht.
  set (evs := dfs a s) in *.
  assert (Hpos : forall pos, sum_charges pos <= sum_charges evs -> fst (until_yield pos 0 []) <= 2 * (tnodes t + tstems t)).
  { intros pos Hp. pose proof (until_yield_le pos 0 []). lia. }
  destruct started.
  - destruct (after_yield (Radix.nib last) evs) as [l|] eqn:Ha.
    + apply Hpos. eapply after_yield_le; eassumption.
    + apply Hpos. cbn. lia.
  - apply Hpos. lia.
Qed.
