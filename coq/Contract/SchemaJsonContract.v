(** * SchemaJsonContract — "the bytes are the contract-side encoding of the value".

    For the schema types that have a counterpart among C16's little-endian codec combinators
    (Contract/CcCodec.v, Contract/CcTypes.v: [Serial]/[Deserial] of concordium-contracts-common), the
    bytes [from_json] writes are [enc] of that codec applied to the value the JSON denotes, and the
    value is well-formed for the codec (so, by C16's round-trip laws, the contract's [Deserial] reads it
    back).  The fragment: unit, bool, u8..u128, i8..i128, Amount, ContractAddress, pairs, [Option<T>],
    [[T; n]], and with every size length: lists, sets, maps (as the listed sequence), strings, byte lists.

    CcCodec / CcTypes are imported only. *)
From Coq Require Import String.
From Coq Require Import NArith ZArith Bool List Lia.
From CB Require Import Contract.CcCodec Contract.CcTypes.
From CB Require Import Contract.SchemaJson Contract.SchemaJsonLemmas Contract.SchemaJsonProofs.
Import ListNotations.
Local Open Scope N_scope.
Arguments N.add : simpl never.
Arguments N.sub : simpl never.
Arguments N.mul : simpl never.
Arguments N.pow : simpl never.
Arguments N.div : simpl never.
Arguments N.modulo : simpl never.
Arguments N.eqb : simpl never.
Arguments N.ltb : simpl never.
Arguments N.leb : simpl never.
Arguments Z.pow : simpl never.
Arguments Z.mul : simpl never.
Arguments Z.add : simpl never.
Arguments Z.sub : simpl never.
Arguments Z.ltb : simpl never.
Arguments Z.leb : simpl never.
Arguments Z.opp : simpl never.
Arguments Z.modulo : simpl never.
Arguments N.of_nat : simpl never.
Arguments Z.of_nat : simpl never.
Arguments Z.of_N : simpl never.
Arguments Z.to_N : simpl never.

Definition s_None : str := Eval vm_compute in str_of "None".
Definition s_Some : str := Eval vm_compute in str_of "Some".

(* ------------------------------------------------------------------ the fragment *)
Inductive iw := W8 | W16 | W32 | W64 | W128.
Definition iw_bytes (w : iw) : nat := match w with W8 => 1 | W16 => 2 | W32 => 4 | W64 => 8 | W128 => 16 end%nat.

Inductive cty :=
| CUnit | CBool
| CUint (w : iw) | CSint (w : iw)
| CAmount | CContractAddress
| CPair (a b : cty)
| CList (s : size_len) (a : cty)
| CSet (s : size_len) (a : cty)
| CMap (s : size_len) (k v : cty)
| CArray (n : nat) (a : cty)
| COption (a : cty)
| CString (s : size_len)
| CByteList (s : size_len).

(** the Rust value universe of the fragment *)
Fixpoint sem (c : cty) : Type :=
  match c with
  | CUnit => unit
  | CBool => bool
  | CUint _ | CAmount => N
  | CSint _ => Z
  | CContractAddress => (N * N)%type
  | CPair a b => (sem a * sem b)%type
  | CList _ a | CSet _ a | CArray _ a => list (sem a)
  | CMap _ k v => list (sem k * sem v)
  | COption a => option (sem a)
  | CString _ | CByteList _ => list N
  end.

(** C16's codec of the type *)
Fixpoint codec_of (c : cty) : codec (sem c) :=
  match c with
  | CUnit => c_unit
  | CBool => c_bool
  | CUint w => c_uint (iw_bytes w)
  | CSint w => c_sint (iw_bytes w)
  | CAmount => c_u64
  | CContractAddress => c_pair c_u64 c_u64
  | CPair a b => c_pair (codec_of a) (codec_of b)
  | CList s a => c_vec (codec_of a) (sl_bytes s) rsv_std
  | CSet s a => c_vec (codec_of a) (sl_bytes s) rsv_std
  | CMap s k v => c_vec (c_pair (codec_of k) (codec_of v)) (sl_bytes s) rsv_std
  | CArray n a => c_array (codec_of a) n
  | COption a => c_option (codec_of a)
  | CString s => c_vec c_u8 (sl_bytes s) rsv_std
  | CByteList s => c_vec c_u8 (sl_bytes s) rsv_std
  end.

(** the schema type [SchemaType::get_type] gives it *)
Fixpoint ty_of (c : cty) : ty :=
  match c with
  | CUnit => TUnit
  | CBool => TBool
  | CUint W8 => TU8 | CUint W16 => TU16 | CUint W32 => TU32 | CUint W64 => TU64 | CUint W128 => TU128
  | CSint W8 => TI8 | CSint W16 => TI16 | CSint W32 => TI32 | CSint W64 => TI64 | CSint W128 => TI128
  | CAmount => TAmount
  | CContractAddress => TContractAddress
  | CPair a b => TPair (ty_of a) (ty_of b)
  | CList s a => TList s (ty_of a)
  | CSet s a => TSet s (ty_of a)
  | CMap s k v => TMap s (ty_of k) (ty_of v)
  | CArray n a => TArray (N.of_nat n) (ty_of a)
  | COption a => TEnum (Vcons s_None FNone (Vcons s_Some (FUnnamed (TScons (ty_of a) TSnil)) Vnil))
  | CString s => TString s
  | CByteList s => TByteList s
  end.

Fixpoint map_opt {A B} (f : A -> option B) (l : list A) : option (list B) :=
  match l with
  | [] => Some []
  | x :: r => match f x, map_opt f r with Some y, Some ys => Some (y :: ys) | _, _ => None end
  end.

(** the value a JSON document denotes (independent of bytes) *)
Fixpoint denote (c : cty) (j : json) {struct c} : option (sem c) :=
  match c return option (sem c) with
  | CUnit => Some tt
  | CBool => match j with JBool b => Some b | _ => None end
  | CUint W128 => match j with JStr s => parse_unsigned (2 ^ 128) s | _ => None end
  | CUint w => match j with
               | JNum z => if ((0 <=? z) && (z <? 2 ^ (8 * Z.of_nat (iw_bytes w))))%Z then Some (Z.to_N z) else None
               | _ => None
               end
  | CSint W128 => match j with JStr s => parse_signed 128 s | _ => None end
  | CSint w => match j with
               | JNum z => if ((- 2 ^ (8 * Z.of_nat (iw_bytes w) - 1) <=? z) && (z <? 2 ^ (8 * Z.of_nat (iw_bytes w) - 1)))%Z
                           then Some z else None
               | _ => None
               end
  | CAmount => match j with JStr s => parse_unsigned (2 ^ 64) s | _ => None end
  | CContractAddress =>
      match j with
      | JObj fs => match obj_get s_index fs with
                   | Some (JNum i) =>
                       if is_u64 i then
                         Some (Z.to_N i, Z.to_N match obj_get s_subindex fs with
                                                | Some (JNum z) => if is_u64 z then z else 0%Z
                                                | _ => 0%Z
                                                end)
                       else None
                   | _ => None
                   end
      | _ => None
      end
  | CPair a b => match j with
                 | JArr [x; y] => match denote a x, denote b y with Some u, Some v => Some (u, v) | _, _ => None end
                 | _ => None
                 end
  | CList _ a | CSet _ a | CArray _ a => match j with JArr vs => map_opt (denote a) vs | _ => None end
  | CMap _ k v =>
      match j with
      | JArr es => map_opt (fun e => match e with
                                     | JArr [x; y] => match denote k x, denote v y with
                                                      | Some u, Some w => Some (u, w)
                                                      | _, _ => None
                                                      end
                                     | _ => None
                                     end) es
      | _ => None
      end
  | COption a =>
      match j with
      | JObj [(name, fv)] =>
          if str_eqb s_None name then Some None
          else if str_eqb s_Some name then
                 match fv with
                 | JArr [x] => match denote a x with Some u => Some (Some u) | None => None end
                 | _ => None
                 end
               else None
      | _ => None
      end
  | CString _ => match j with JStr x => Some x | _ => None end
  | CByteList _ => match j with JStr x => hex_decode x | _ => None end
  end.

(* ------------------------------------------------------------------ bridges between the two developments *)
Lemma le_bytes_le : forall k n, le_bytes k n = le k n.
Proof. induction k as [|k IH]; intros n; [reflexivity|]. cbn [le_bytes le]. rewrite IH. reflexivity. Qed.

Lemma pow256_2 : forall k : nat, 256 ^ N.of_nat k = 2 ^ (8 * N.of_nat k).
Proof. intros. change 256 with (2 ^ 8). rewrite <- N.pow_mul_r. reflexivity. Qed.

Lemma enc_sint : forall k z, enc (c_sint k) z = le_signed k z.
Proof.
  intros. unfold c_sint, c_map, le_signed, of_signed. cbn [enc c_uint]. rewrite le_bytes_le.
  rewrite pow256_2, Z_N_pow256. reflexivity.
Qed.

Lemma signed_range_of : forall k z, (0 < k)%nat ->
  (- 2 ^ (8 * Z.of_nat k - 1) <= z < 2 ^ (8 * Z.of_nat k - 1))%Z -> signed_range k z.
Proof.
  intros k z Hk H. unfold signed_range. rewrite N2Z.inj_pow.
  replace (Z.of_N (8 * N.of_nat k - 1)) with (8 * Z.of_nat k - 1)%Z by lia. exact H.
Qed.

Lemma enc_len_vec : forall s n l, enc_len s n = Some l ->
  l = le_bytes (sl_bytes s) (N.of_nat n) /\ N.of_nat n < 256 ^ N.of_nat (sl_bytes s).
Proof.
  unfold enc_len. intros s n l H. destruct (N.ltb_spec (N.of_nat n) (2 ^ (8 * N.of_nat (sl_bytes s)))); [|discriminate].
  apply Some_inj in H. subst l. split; [symmetry; apply le_bytes_le|rewrite pow256_2; assumption].
Qed.

Lemma from_list_denote : forall {A} (c : codec A) (f : json -> option (list N)) (d : json -> option A) vs p,
  (forall v b, In v vs -> f v = Some b -> exists a, d v = Some a /\ wf c a /\ b = enc c a) ->
  from_list f vs = Some p ->
  exists xs, map_opt d vs = Some xs /\ Forall (wf c) xs /\ p = enc_elems c xs /\ length xs = length vs.
Proof.
  induction vs as [|v vs IH]; intros p Hi H; cbn [from_list] in H.
  - injection H as <-. exists []. repeat split; auto.
  - destruct (f v) as [a|] eqn:Ea; [|discriminate]. destruct (from_list f vs) as [b|] eqn:Eb; [|discriminate].
    injection H as <-.
    destruct (Hi v a (or_introl eq_refl) Ea) as [x [Hd [Hw ->]]].
    destruct (IH b (fun v0 b0 Hin => Hi v0 b0 (or_intror Hin)) eq_refl) as [xs [Hm [Hf [-> Hl]]]].
    exists (x :: xs). cbn [map_opt]. rewrite Hd, Hm. repeat split; auto. cbn [length]. lia.
Qed.

Lemma bytes_u8_elems : forall b, enc_elems c_u8 b = map (fun x => x mod 256) b.
Proof. induction b as [|x b IH]; [reflexivity|]. unfold enc_elems in *. cbn [map concat]. rewrite IH. reflexivity. Qed.

Lemma inr_range : forall lo hi b, inr lo hi b = true -> lo <= b <= hi.
Proof. unfold inr. intros lo hi b H. apply andb_true_iff in H. destruct H as [H1 H2]. apply N.leb_le in H1, H2. lia. Qed.
Lemma cont_range : forall b, cont b = true -> b <= 191.
Proof. unfold cont. intros b H. apply andb_true_iff in H. destruct H as [_ H2]. apply N.leb_le in H2. exact H2. Qed.

Lemma utf8_valid_cons : forall b0 r, SchemaJson.utf8_valid (b0 :: r) =
      if b0 <? 128 then SchemaJson.utf8_valid r
      else if inr 194 223 b0 then
        match r with b1 :: r1 => cont b1 && SchemaJson.utf8_valid r1 | _ => false end
      else if inr 224 239 b0 then
        match r with
        | b1 :: b2 :: r2 =>
            (if b0 =? 224 then inr 160 191 b1 else if b0 =? 237 then inr 128 159 b1 else cont b1)
            && cont b2 && SchemaJson.utf8_valid r2
        | _ => false
        end
      else if inr 240 244 b0 then
        match r with
        | b1 :: b2 :: b3 :: r3 =>
            (if b0 =? 240 then inr 144 191 b1 else if b0 =? 244 then inr 128 143 b1 else cont b1)
            && cont b2 && cont b3 && SchemaJson.utf8_valid r3
        | _ => false
        end
      else false.
Proof. reflexivity. Qed.

(** valid UTF-8 consists of bytes *)
Lemma utf8_valid_bytes : forall n s, (length s <= n)%nat -> SchemaJson.utf8_valid s = true -> Forall (fun b => b < 256) s.
Proof.
  induction n as [|n IH]; intros s Hl H.
  - destruct s; [constructor|cbn in Hl; lia].
  - destruct s as [|b0 r]; [constructor|]. cbn [length] in Hl. rewrite utf8_valid_cons in H.
    destruct (N.ltb_spec b0 128).
    + constructor; [lia|]. apply IH; [lia|exact H].
    + destruct (inr 194 223 b0) eqn:E2.
      * apply inr_range in E2. destruct r as [|b1 r1]; [discriminate|].
        apply andb_true_iff in H. destruct H as [H1 H2]. apply cont_range in H1.
        constructor; [lia|]. constructor; [lia|]. apply IH; [cbn [length] in Hl; lia|exact H2].
      * destruct (inr 224 239 b0) eqn:E3.
        { apply inr_range in E3. destruct r as [|b1 [|b2 r2]]; try discriminate.
          apply andb_true_iff in H. destruct H as [H H3]. apply andb_true_iff in H. destruct H as [H1 H2].
          apply cont_range in H2.
          assert (b1 <= 191).
          { destruct (b0 =? 224); [apply inr_range in H1; lia|].
            destruct (b0 =? 237); [apply inr_range in H1; lia|]. apply cont_range; exact H1. }
          constructor; [lia|]. constructor; [lia|]. constructor; [lia|]. apply IH; [cbn [length] in Hl; lia|exact H3]. }
        { destruct (inr 240 244 b0) eqn:E4; [|discriminate].
          apply inr_range in E4. destruct r as [|b1 [|b2 [|b3 r3]]]; try discriminate.
          apply andb_true_iff in H. destruct H as [H H4]. apply andb_true_iff in H. destruct H as [H H3].
          apply andb_true_iff in H. destruct H as [H1 H2]. apply cont_range in H2, H3.
          assert (b1 <= 191).
          { destruct (b0 =? 240); [apply inr_range in H1; lia|].
            destruct (b0 =? 244); [apply inr_range in H1; lia|]. apply cont_range; exact H1. }
          constructor; [lia|]. constructor; [lia|]. constructor; [lia|]. constructor; [lia|].
          apply IH; [cbn [length] in Hl; lia|exact H4]. }
Qed.

Lemma hex_val_lt : forall c x, hex_val c = Some x -> x < 16.
Proof.
  unfold hex_val. intros c x H.
  destruct ((48 <=? c) && (c <=? 57)) eqn:E1.
  { injection H as <-. apply andb_true_iff in E1. destruct E1 as [A B]. apply N.leb_le in A, B. lia. }
  destruct ((97 <=? c) && (c <=? 102)) eqn:E2.
  { injection H as <-. apply andb_true_iff in E2. destruct E2 as [A B]. apply N.leb_le in A, B. lia. }
  destruct ((65 <=? c) && (c <=? 70)) eqn:E3; [|discriminate].
  injection H as <-. apply andb_true_iff in E3. destruct E3 as [A B]. apply N.leb_le in A, B. lia.
Qed.

Lemma hex_decode_cons2 : forall a b r, hex_decode (a :: b :: r) =
  match hex_val a, hex_val b with
  | Some x, Some y => match hex_decode r with Some bs => Some (16 * x + y :: bs) | None => None end
  | _, _ => None
  end.
Proof. reflexivity. Qed.

Lemma hex_decode_bytes : forall n s b, (length s <= n)%nat -> hex_decode s = Some b -> Forall (fun x => x < 256) b.
Proof.
  induction n as [|n IH]; intros s b Hl H.
  - destruct s; [|cbn in Hl; lia]. injection H as <-. constructor.
  - destruct s as [|x [|y r]].
    + injection H as <-. constructor.
    + discriminate H.
    + rewrite hex_decode_cons2 in H.
      destruct (hex_val x) as [u|] eqn:Ex; [|discriminate H]. destruct (hex_val y) as [v|] eqn:Ey; [|discriminate H].
      destruct (hex_decode r) as [bs|] eqn:E; [|discriminate H]. injection H as <-.
      apply hex_val_lt in Ex. apply hex_val_lt in Ey. constructor; [lia|].
      apply (IH r bs); [cbn [length] in Hl; lia|exact E].
Qed.

Lemma u8_elems_id : forall b, Forall (fun x => x < 256) b -> enc_elems c_u8 b = b /\ Forall (wf c_u8) b.
Proof.
  induction 1 as [|x b Hx Hb [IH1 IH2]]; [split; [reflexivity|constructor]|].
  split.
  - unfold enc_elems in *. cbn [map concat]. rewrite IH1. unfold c_u8. cbn [enc c_uint le_bytes app].
    rewrite N.mod_small by exact Hx. reflexivity.
  - constructor; [|exact IH2]. unfold c_u8. cbn [wf c_uint]. exact Hx.
Qed.

Section WithLeaves.
Variable L : leaves.

Definition E_cty (c : cty) : Prop := forall j bs, json_wf j = true ->
  from_json L (ty_of c) j = Some bs ->
  exists v, denote c j = Some v /\ wf (codec_of c) v /\ bs = enc (codec_of c) v.

Lemma uint_case : forall (k : nat) j bs, (k <= 8)%nat -> from_unum k j = Some bs ->
  exists n, (match j with
             | JNum z => if ((0 <=? z) && (z <? 2 ^ (8 * Z.of_nat k)))%Z then Some (Z.to_N z) else None
             | _ => None
             end) = Some n /\ n < 256 ^ N.of_nat k /\ bs = le_bytes k n.
Proof.
  unfold from_unum. intros k j bs Hk H. destruct j; try discriminate.
  destruct (is_u64 z && (z <? 2 ^ (8 * Z.of_nat k))%Z) eqn:E; [|discriminate]. injection H as <-.
  apply andb_true_iff in E. destruct E as [E1 E2]. unfold is_u64 in E1. apply andb_true_iff in E1. destruct E1 as [E0 _].
  rewrite E0, E2. cbn [andb]. exists (Z.to_N z). apply Z.leb_le in E0. apply Z.ltb_lt in E2.
  split; [reflexivity|]. split; [|symmetry; apply le_bytes_le].
  rewrite pow256_2. apply N2Z.inj_lt. rewrite Z2N.id by lia. rewrite Z_N_pow256. exact E2.
Qed.

Lemma sint_case : forall (k : nat) j bs, (0 < k)%nat -> from_snum k j = Some bs ->
  exists z, (match j with
             | JNum z => if ((- 2 ^ (8 * Z.of_nat k - 1) <=? z) && (z <? 2 ^ (8 * Z.of_nat k - 1)))%Z then Some z else None
             | _ => None
             end) = Some z /\ signed_range k z /\ bs = enc (c_sint k) z.
Proof.
  unfold from_snum. intros k j bs Hk H. destruct j; try discriminate.
  match type of H with (if ?c then _ else _) = _ => destruct c eqn:E; [|discriminate] end. injection H as <-.
  apply andb_true_iff in E. destruct E as [E E2]. apply andb_true_iff in E. destruct E as [_ E1].
  rewrite E1, E2. cbn [andb]. exists z. apply Z.leb_le in E1. apply Z.ltb_lt in E2.
  repeat split; try apply signed_range_of; auto. rewrite enc_sint. reflexivity.
Qed.

Lemma contract_encoding_all : forall c, E_cty c.
Proof.
  induction c; unfold E_cty in *; intros j bs Hj H.
  - (* unit *) cbn in H. injection H as <-. exists tt. repeat split; auto; try exact I.
  - (* bool *) cbn in H. destruct j; try discriminate. injection H as <-. exists b. repeat split; auto; try exact I; try (destruct b; reflexivity).
  - (* uint *)
    destruct w; cbn [ty_of from_json] in H; cbn [denote codec_of iw_bytes].
    + destruct (uint_case 1 _ _ ltac:(lia) H) as [n [Hd [Hw ->]]]. exists n. auto.
    + destruct (uint_case 2 _ _ ltac:(lia) H) as [n [Hd [Hw ->]]]. exists n. auto.
    + destruct (uint_case 4 _ _ ltac:(lia) H) as [n [Hd [Hw ->]]]. exists n. auto.
    + destruct (uint_case 8 _ _ ltac:(lia) H) as [n [Hd [Hw ->]]]. exists n. auto.
    + destruct j; try discriminate. destruct (parse_unsigned (2 ^ 128) s) as [n|] eqn:E; [|discriminate].
      injection H as <-. exists n. split; [first [reflexivity|exact E]|]. split.
      * apply parse_unsigned_bound in E. cbn [wf c_uint]. rewrite pow256_2. exact E.
      * cbn [enc c_uint]. first [reflexivity|rewrite le_bytes_le; reflexivity].
  - (* sint *)
    destruct w; cbn [ty_of from_json] in H; cbn [denote codec_of iw_bytes].
    + destruct (sint_case 1 _ _ ltac:(lia) H) as [z [Hd [Hw ->]]]. exists z. auto.
    + destruct (sint_case 2 _ _ ltac:(lia) H) as [z [Hd [Hw ->]]]. exists z. auto.
    + destruct (sint_case 4 _ _ ltac:(lia) H) as [z [Hd [Hw ->]]]. exists z. auto.
    + destruct (sint_case 8 _ _ ltac:(lia) H) as [z [Hd [Hw ->]]]. exists z. auto.
    + destruct j; try discriminate. destruct (parse_signed 128 s) as [z|] eqn:E; [|discriminate].
      injection H as <-. exists z. split; [first [reflexivity|exact E]|]. split.
      * apply parse_signed_bound in E. apply (signed_range_of 16); [lia|exact E].
      * rewrite enc_sint. reflexivity.
  - (* Amount *) cbn [ty_of from_json] in H. destruct j; try discriminate.
    destruct (parse_unsigned (2 ^ 64) s) as [n|] eqn:E; [|discriminate]. injection H as <-.
    exists n. cbn [denote]. split; [first [reflexivity|exact E]|]. split.
    + apply parse_unsigned_bound in E. exact E.
    + cbn [codec_of]. unfold c_u64. cbn [enc c_uint]. first [reflexivity|rewrite le_bytes_le; reflexivity].
  - (* ContractAddress *) cbn [ty_of from_json] in H. destruct j as [| | | | | |fs]; try discriminate.
    destruct (length fs <=? 2)%nat; [|discriminate].
    destruct (obj_get s_index fs) as [[| | i | | | |]|] eqn:Ei; try discriminate.
    destruct (is_u64 i) eqn:Eu; [|discriminate]. injection H as <-.
    cbn [denote]. rewrite Ei, Eu.
    set (sub := match obj_get s_subindex fs with Some (JNum z) => if is_u64 z then z else 0%Z | _ => 0%Z end).
    assert (Hsub : is_u64 sub = true).
    { unfold sub. destruct (obj_get s_subindex fs) as [[| | z | | | |]|]; try reflexivity. destruct (is_u64 z) eqn:Ez; auto. }
    eexists. split; [reflexivity|].
    unfold is_u64 in Eu, Hsub. apply andb_true_iff in Eu. apply andb_true_iff in Hsub.
    destruct Eu as [Eu1 Eu2]. destruct Hsub as [Hs1 Hs2].
    apply Z.leb_le in Eu1. apply Z.ltb_lt in Eu2. apply Z.leb_le in Hs1. apply Z.ltb_lt in Hs2.
    cbn [codec_of]. unfold c_u64. cbn [wf enc c_pair c_uint fst snd]. try rewrite !le_bytes_le.
    repeat split; auto; apply N2Z.inj_lt; rewrite Z2N.id by lia; assumption.
  - (* Pair *) cbn [ty_of from_json] in H. fold (from_json L) in H. destruct j as [| | | | |l|]; try discriminate.
    destruct l as [|x [|y [|]]]; try discriminate.
    destruct (from_json L (ty_of c1) x) as [p|] eqn:Ea; [|discriminate].
    destruct (from_json L (ty_of c2) y) as [q|] eqn:Eb; [|discriminate]. injection H as <-.
    cbn [json_wf forallb] in Hj. apply andb_true_iff in Hj. destruct Hj as [_ Hj].
    apply andb_true_iff in Hj. destruct Hj as [Hx Hy]. apply andb_true_iff in Hy. destruct Hy as [Hy _].
    destruct (IHc1 _ _ Hx Ea) as [u [Hu [Hwu ->]]]. destruct (IHc2 _ _ Hy Eb) as [v [Hv [Hwv ->]]].
    exists (u, v). cbn [denote]. rewrite Hu, Hv. repeat split; auto.
  - (* List *) cbn [ty_of from_json] in H. fold (from_json L) in H. destruct j as [| | | | |vs|]; try discriminate.
    destruct (enc_len s (length vs)) as [l|] eqn:El; [|discriminate].
    destruct (from_list (from_json L (ty_of c)) vs) as [p|] eqn:Ep; [|discriminate]. injection H as <-.
    cbn [json_wf] in Hj. apply andb_true_iff in Hj. destruct Hj as [_ Hj].
    destruct (from_list_denote (codec_of c) _ (denote c) vs p
                (fun v b Hin Hv => IHc v b (forallb_In _ _ _ Hj Hin) Hv) Ep) as [xs [Hm [Hf [-> Hl]]]].
    destruct (enc_len_vec _ _ _ El) as [-> Hlen].
    exists xs. cbn [denote]. rewrite Hm. cbn [codec_of wf enc c_vec]. rewrite Hl. repeat split; auto.
  - (* Set *) cbn [ty_of from_json] in H. fold (from_json L) in H. destruct j as [| | | | |vs|]; try discriminate.
    destruct (enc_len s (length vs)) as [l|] eqn:El; [|discriminate].
    destruct (from_list (from_json L (ty_of c)) vs) as [p|] eqn:Ep; [|discriminate]. injection H as <-.
    cbn [json_wf] in Hj. apply andb_true_iff in Hj. destruct Hj as [_ Hj].
    destruct (from_list_denote (codec_of c) _ (denote c) vs p
                (fun v b Hin Hv => IHc v b (forallb_In _ _ _ Hj Hin) Hv) Ep) as [xs [Hm [Hf [-> Hl]]]].
    destruct (enc_len_vec _ _ _ El) as [-> Hlen].
    exists xs. cbn [denote]. rewrite Hm. cbn [codec_of wf enc c_vec]. rewrite Hl. repeat split; auto.
  - (* Map *) cbn [ty_of from_json] in H. fold (from_json L) in H. destruct j as [| | | | |es|]; try discriminate.
    destruct (enc_len s (length es)) as [l|] eqn:El; [|discriminate].
    match type of H with match ?x with _ => _ end = _ => destruct x as [p|] eqn:Ep; [|discriminate] end.
    injection H as <-.
    cbn [json_wf] in Hj. apply andb_true_iff in Hj. destruct Hj as [_ Hj].
    set (d := fun e => match e with
                       | JArr [x; y] => match denote c1 x, denote c2 y with Some u, Some w => Some (u, w) | _, _ => None end
                       | _ => None
                       end).
    match type of Ep with from_list ?f _ = _ =>
      destruct (from_list_denote (c_pair (codec_of c1) (codec_of c2)) f d es p) as [xs [Hm [Hf [-> Hl]]]]; [|exact Ep|] end.
    { intros e b Hin He. destruct e as [| | | | |pr|]; try discriminate.
      destruct pr as [|x [|y [|]]]; try discriminate.
      destruct (from_json L (ty_of c1) x) as [p1|] eqn:E1; [|discriminate].
      destruct (from_json L (ty_of c2) y) as [p2|] eqn:E2; [|discriminate]. injection He as <-.
      pose proof (forallb_In _ _ _ Hj Hin) as Hwe. cbn [json_wf forallb] in Hwe.
      apply andb_true_iff in Hwe. destruct Hwe as [_ Hwe].
      apply andb_true_iff in Hwe. destruct Hwe as [Hx Hy]. apply andb_true_iff in Hy. destruct Hy as [Hy _].
      destruct (IHc1 _ _ Hx E1) as [u [Hu [Hwu ->]]]. destruct (IHc2 _ _ Hy E2) as [w [Hw [Hww ->]]].
      exists (u, w). unfold d. rewrite Hu, Hw. repeat split; auto. }
    destruct (enc_len_vec _ _ _ El) as [-> Hlen].
    exists xs. cbn [denote]. fold d. rewrite Hm. cbn [codec_of wf enc c_vec]. rewrite Hl. repeat split; auto.
  - (* Array *) cbn [ty_of from_json] in H. fold (from_json L) in H. destruct j as [| | | | |vs|]; try discriminate.
    destruct (N.eqb_spec (N.of_nat (length vs) mod 2 ^ 32) (N.of_nat n)) as [En|]; [|discriminate].
    cbn [json_wf] in Hj. apply andb_true_iff in Hj. destruct Hj as [Hlen Hj]. apply N.ltb_lt in Hlen.
    rewrite N.mod_small in En by assumption.
    destruct (from_list_denote (codec_of c) _ (denote c) vs bs
                (fun v b Hin Hv => IHc v b (forallb_In _ _ _ Hj Hin) Hv) H) as [xs [Hm [Hf [-> Hl]]]].
    exists xs. cbn [denote]. rewrite Hm. cbn [codec_of wf enc c_array]. repeat split; auto. lia.
  - (* Option *) cbn [ty_of from_json] in H. fold (from_json L) (from_variants L) in H.
    destruct j as [| | | | | |m]; try discriminate. destruct m as [|[name fv] [|]]; try discriminate.
    cbn [json_wf forallb snd] in Hj. apply andb_true_iff in Hj. destruct Hj as [Hfv _].
    cbn [denote]. cbn [from_variants from_fields from_tys] in H. fold (from_json L) in H.
    destruct (str_eqb s_None name).
    + cbn [variants_len] in H. injection H as <-. exists None. repeat split; auto; try exact I.
    + destruct (str_eqb s_Some name); [|discriminate].
      destruct fv as [| | | | |vs|]; try discriminate.
      destruct vs as [|x [|]]; cbn [tys_len length Nat.eqb] in H; try discriminate.
      destruct (from_json L (ty_of c) x) as [p|] eqn:Ex; [|discriminate].
      cbn [variants_len] in H. injection H as <-.
      cbn [json_wf forallb] in Hfv. apply andb_true_iff in Hfv. destruct Hfv as [_ Hfv].
      apply andb_true_iff in Hfv. destruct Hfv as [Hx _].
      destruct (IHc _ _ Hx Ex) as [u [Hu [Hwu ->]]].
      exists (Some u). rewrite Hu. repeat split; auto. rewrite app_nil_r. reflexivity.
  - (* String *) cbn [ty_of from_json] in H. destruct j; try discriminate. unfold with_len in H.
    destruct (enc_len s (length s0)) as [l|] eqn:El; [|discriminate]. injection H as <-.
    destruct (enc_len_vec _ _ _ El) as [-> Hlen].
    cbn [json_wf] in Hj. apply andb_true_iff in Hj. destruct Hj as [Hu _].
    destruct (u8_elems_id s0 (utf8_valid_bytes _ s0 (le_n _) Hu)) as [He Hw].
    exists s0. cbn [denote codec_of wf enc c_vec]. rewrite He. repeat split; auto.
  - (* ByteList *) cbn [ty_of from_json] in H. destruct j as [| | | |x| |]; try discriminate.
    destruct (hex_decode x) as [b|] eqn:E; [|discriminate]. unfold with_len in H.
    destruct (enc_len s (length b)) as [l|] eqn:El; [|discriminate]. injection H as <-.
    destruct (enc_len_vec _ _ _ El) as [-> Hlen].
    destruct (u8_elems_id b (hex_decode_bytes _ _ _ (le_n _) E)) as [He Hw].
    exists b. cbn [denote]. rewrite E. cbn [codec_of wf enc c_vec]. rewrite He. repeat split; auto.
Qed.

Theorem bytes_are_contract_encoding_all : forall c j bs, json_wf j = true ->
  from_json L (ty_of c) j = Some bs ->
  exists v, denote c j = Some v /\ wf (codec_of c) v /\ bs = enc (codec_of c) v.
Proof. exact contract_encoding_all. Qed.

End WithLeaves.
