(** * SchemaJsonProofs — JSON -> bytes -> JSON is the normalisation, for every schema type. *)
From Coq Require Import NArith ZArith Bool List Lia.
From CB Require Import Contract.SchemaJson Contract.SchemaJsonLemmas.
Import ListNotations.
Local Open Scope N_scope.
Arguments N.add : simpl never.
Arguments N.sub : simpl never.
Arguments N.mul : simpl never.
Arguments N.pow : simpl never.
Arguments N.div : simpl never.
Arguments N.modulo : simpl never.
Arguments N.eqb : simpl never.
Arguments N.ltb : simpl never.
Arguments N.leb : simpl never.
Arguments Z.pow : simpl never.
Arguments Z.mul : simpl never.
Arguments Z.add : simpl never.
Arguments Z.sub : simpl never.
Arguments Z.ltb : simpl never.
Arguments Z.leb : simpl never.
Arguments Z.eqb : simpl never.
Arguments Z.opp : simpl never.
Arguments N.of_nat : simpl never.
Arguments Z.of_nat : simpl never.
Arguments Z.of_N : simpl never.
Arguments Z.to_N : simpl never.
Arguments le : simpl never.
Arguments le_dec : simpl never.
Arguments le_signed : simpl never.
Arguments le_signed_dec : simpl never.
Arguments take_n : simpl never.
Arguments dec_items : simpl never.
Arguments parse_unsigned : simpl never.
Arguments parse_signed : simpl never.
Arguments parse_biguint : simpl never.
Arguments parse_bigint : simpl never.
Arguments show_N : simpl never.
Arguments show_Z : simpl never.
Arguments hex_decode : simpl never.
Arguments hex_encode : simpl never.
Arguments utf8_valid : simpl never.
Arguments uleb_enc : simpl never.
Arguments sleb_enc : simpl never.
Arguments uleb_dec : simpl never.
Arguments sleb_dec : simpl never.
Arguments valid_contract_name : simpl never.
Arguments valid_receive_name : simpl never.
Arguments split_dot : simpl never.
Arguments enc_len : simpl never.
Arguments dec_len : simpl never.
Arguments is_u64 : simpl never.
Arguments is_i64 : simpl never.

Scheme ty_mut := Induction for ty Sort Prop
  with fields_mut := Induction for fields Sort Prop
  with nfields_mut := Induction for nfields Sort Prop
  with tys_mut := Induction for tys Sort Prop
  with variants_mut := Induction for variants Sort Prop
  with tvariants_mut := Induction for tvariants Sort Prop.
Combined Scheme ty_mutind from ty_mut, fields_mut, nfields_mut, tys_mut, variants_mut, tvariants_mut.

Lemma Some_inj : forall {A} (a b : A), Some a = Some b -> a = b.
Proof. intros A a b H. injection H. auto. Qed.
(* [injection] reduces the equation it produces; this does not *)
Ltac inj H := apply Some_inj in H; subst.

Ltac des H :=
  repeat match type of H with
         | match ?x with _ => _ end = Some _ => let E := fresh "E" in destruct x eqn:E; try discriminate
         | (if ?x then _ else _) = Some _ => let E := fresh "E" in destruct x eqn:E; try discriminate
         | (let '(_, _) := ?x in _) = Some _ => let E := fresh "E" in destruct x eqn:E; try discriminate
         end.

(* ------------------------------------------------------------------ numeric leaves *)
Lemma from_unum_to_unum : forall k j bs rest, from_unum k j = Some bs ->
  to_unum k (bs ++ rest) = Some (j, rest).
Proof.
  unfold from_unum, to_unum. intros k j bs rest H. destruct j; try discriminate.
  destruct (is_u64 z && (z <? 2 ^ (8 * Z.of_nat k))%Z) eqn:E; try discriminate. injection H as <-.
  apply andb_true_iff in E. destruct E as [E1 E2]. unfold is_u64 in E1.
  apply andb_true_iff in E1. destruct E1 as [E0 _]. apply Z.leb_le in E0. apply Z.ltb_lt in E2.
  rewrite le_dec_le.
  - rewrite Z2N.id by lia. reflexivity.
  - apply N2Z.inj_lt. rewrite Z2N.id by lia. rewrite Z_N_pow256. assumption.
Qed.

Lemma from_snum_to_snum : forall k j bs rest, (0 < k)%nat -> from_snum k j = Some bs ->
  to_snum k (bs ++ rest) = Some (j, rest).
Proof.
  unfold from_snum, to_snum. intros k j bs rest Hk H. destruct j; try discriminate.
  match type of H with (if ?c then _ else _) = _ => destruct c eqn:E; try discriminate end.
  injection H as <-.
  apply andb_true_iff in E. destruct E as [E E2]. apply andb_true_iff in E. destruct E as [_ E1].
  apply Z.leb_le in E1. apply Z.ltb_lt in E2.
  rewrite le_signed_roundtrip; auto.
Qed.

Lemma parse_unsigned_bound : forall b s n, parse_unsigned b s = Some n -> n < b.
Proof.
  unfold parse_unsigned. intros b s n H. cbv zeta in H.
  des H. injection H as <-. apply N.ltb_lt. assumption.
Qed.

Lemma parse_signed_bound : forall bits s z, parse_signed bits s = Some z ->
  (- 2 ^ (bits - 1) <= z < 2 ^ (bits - 1))%Z.
Proof.
  unfold parse_signed. intros bits s z H.
  match type of H with (let '(_, _) := ?x in _) = _ => destruct x as [neg d] end.
  des H. injection H as <-.
  match goal with E : (_ && _)%bool = true |- _ => apply andb_true_iff in E; destruct E as [E1 E2] end.
  apply Z.leb_le in E1. apply Z.ltb_lt in E2. lia.
Qed.

Lemma with_len_dec : forall s payload bs rest, with_len s payload = Some bs ->
  exists l, bs = l ++ payload /\ dec_len s (l ++ payload ++ rest) = Some (N.of_nat (length payload), payload ++ rest).
Proof.
  unfold with_len. intros s payload bs rest H.
  destruct (enc_len s (length payload)) as [l|] eqn:E; try discriminate. injection H as <-.
  exists l. split; auto. apply enc_len_dec_len. assumption.
Qed.

Lemma with_len_string : forall s x bs rest, utf8_valid x = true -> with_len s x = Some bs ->
  dec_string s (bs ++ rest) = Some (x, rest).
Proof.
  intros s x bs rest Hu H. destruct (with_len_dec _ _ _ rest H) as [l [-> Hd]].
  unfold dec_string. rewrite <- app_assoc, Hd, take_n_app, Hu. reflexivity.
Qed.

Lemma obj_get_wf : forall k m v, forallb (fun kv => json_wf (snd kv)) m = true -> obj_get k m = Some v -> json_wf v = true.
Proof.
  induction m as [|[k' v'] m IH]; intros v Hw H; cbn [obj_get] in H; try discriminate.
  cbn [forallb snd] in Hw. apply andb_true_iff in Hw. destruct Hw as [H1 H2].
  destruct (str_eqb k' k).
  - injection H as <-. assumption.
  - auto.
Qed.

Lemma forallb_In : forall {A} (f : A -> bool) l x, forallb f l = true -> In x l -> f x = true.
Proof. intros. eapply forallb_forall; eauto. Qed.

(* ------------------------------------------------------------------ tagged enums: the tag found by name is found by tag *)
Section WithLeaves.
Variable L : leaves.

(* [cbn] leaves the other components of a mutual fixpoint as raw [fix .. for f]; fold them back *)
Ltac unf_from H :=
  cbn [from_json from_fields from_nfields from_tys from_variants from_tvariants] in H;
  fold (from_json L) (from_fields L) (from_nfields L) (from_tys L) (from_variants L) (from_tvariants L) in H.
Ltac unf_goal :=
  cbn [to_json to_fields to_nfields to_tys to_variants to_tvariants
       normalize normalize_fields normalize_nfields normalize_tys normalize_variants normalize_tvariants];
  fold (to_json L) (to_fields L) (to_nfields L) (to_tys L) (to_variants L) (to_tvariants L)
       (normalize L) (normalize_fields L) (normalize_nfields L) (normalize_tys L)
       (normalize_variants L) (normalize_tvariants L).
Ltac unf_wf H :=
  cbn [ty_wf fields_wf nfields_wf tys_wf variants_wf tvariants_wf] in H;
  fold ty_wf fields_wf nfields_wf tys_wf variants_wf tvariants_wf in H.

Lemma from_tvariants_tag : forall vs name fv p, from_tvariants L vs name fv = Some p ->
  exists tag p', p = tag :: p' /\ In tag (tv_tags vs).
Proof.
  induction vs as [|tag n f r IH]; intros name fv p H; unf_from H; try discriminate.
  destruct (str_eqb n name).
  - destruct (from_fields L f fv); try discriminate. injection H as <-.
    eexists. eexists. split; [reflexivity|]. left. reflexivity.
  - destruct (IH _ _ _ H) as [t [p' [-> Hin]]]. exists t, p'. split; auto. right. assumption.
Qed.

Lemma existsb_In_N : forall x l, existsb (N.eqb x) l = false -> ~ In x l.
Proof.
  induction l as [|y l IH]; intros H Hin; cbn [existsb] in H; [destruct Hin|].
  apply orb_false_iff in H. destruct H as [H1 H2]. destruct Hin as [->|Hin].
  - rewrite N.eqb_refl in H1. discriminate.
  - apply IH; auto.
Qed.

(* ------------------------------------------------------------------ the main induction *)
Definition P_ty (t : ty) : Prop := ty_wf t = true ->
  forall j bs rest, json_wf j = true -> from_json L t j = Some bs ->
  to_json L t (bs ++ rest) = Some (normalize L t j, rest).
Definition P_fields (f : fields) : Prop := fields_wf f = true ->
  forall j bs rest, json_wf j = true -> from_fields L f j = Some bs ->
  to_fields L f (bs ++ rest) = Some (normalize_fields L f j, rest).
Definition P_nfields (l : nfields) : Prop := nfields_wf l = true ->
  forall m acc bs rest, forallb (fun kv => json_wf (snd kv)) m = true -> from_nfields L l m = Some bs ->
  to_nfields L l (bs ++ rest) acc = Some (normalize_nfields L l m acc, rest).
Definition P_tys (l : tys) : Prop := tys_wf l = true ->
  forall vs bs rest, forallb json_wf vs = true -> from_tys L l vs = Some bs ->
  to_tys L l (bs ++ rest) = Some (normalize_tys L l vs, rest).
Definition P_variants (vs : variants) : Prop := variants_wf vs = true ->
  forall name fv i i' bs rest, json_wf fv = true -> from_variants L vs name fv i = Some (i', bs) ->
  exists k : nat, i' = i + N.of_nat k /\ (k < variants_len vs)%nat /\
    to_variants L vs (N.of_nat k) (bs ++ rest) = Some (JObj [(name, normalize_variants L vs name fv)], rest).
Definition P_tvariants (vs : tvariants) : Prop := tvariants_wf vs = true -> nodup_N (tv_tags vs) = true ->
  forall name fv bs rest, json_wf fv = true -> from_tvariants L vs name fv = Some bs ->
  exists tag p, bs = tag :: p /\
    to_tvariants L vs tag (p ++ rest) = Some (JObj [(name, normalize_tvariants L vs name fv)], rest).

Lemma roundtrip_all :
  (forall t, P_ty t) /\ (forall f, P_fields f) /\ (forall l, P_nfields l) /\ (forall l, P_tys l)
  /\ (forall vs, P_variants vs) /\ (forall vs, P_tvariants vs).
Proof.
  apply ty_mutind; unfold P_ty, P_fields, P_nfields, P_tys, P_variants, P_tvariants.
  - (* Unit *) intros _ j bs rest _ H. cbn in H. inj H. reflexivity.
  - (* Bool *) intros _ j bs rest _ H. cbn in H. destruct j; try discriminate. inj H.
    destruct b; reflexivity.
  - (* U8 *) intros _ j bs rest _ H. unf_from H. unf_goal. apply from_unum_to_unum; auto.
  - (* U16 *) intros _ j bs rest _ H. unf_from H. unf_goal. apply from_unum_to_unum; auto.
  - (* U32 *) intros _ j bs rest _ H. unf_from H. unf_goal. apply from_unum_to_unum; auto.
  - (* U64 *) intros _ j bs rest _ H. unf_from H. unf_goal. apply from_unum_to_unum; auto.
  - (* U128 *) intros _ j bs rest _ H. unf_from H. destruct j; try discriminate.
    destruct (parse_unsigned (2 ^ 128) s) as [n|] eqn:E; try discriminate. inj H.
    unf_goal. unfold norm_dec_u. rewrite E.
    rewrite le_dec_le; [reflexivity|]. apply parse_unsigned_bound in E. exact E.
  - (* I8 *) intros _ j bs rest _ H. unf_from H. unf_goal. apply from_snum_to_snum; [lia|assumption].
  - (* I16 *) intros _ j bs rest _ H. unf_from H. unf_goal. apply from_snum_to_snum; [lia|assumption].
  - (* I32 *) intros _ j bs rest _ H. unf_from H. unf_goal. apply from_snum_to_snum; [lia|assumption].
  - (* I64 *) intros _ j bs rest _ H. unf_from H. unf_goal. apply from_snum_to_snum; [lia|assumption].
  - (* I128 *) intros _ j bs rest _ H. unf_from H. destruct j; try discriminate.
    destruct (parse_signed 128 s) as [z|] eqn:E; try discriminate. inj H.
    unf_goal. rewrite E.
    rewrite le_signed_roundtrip; [reflexivity|lia|]. apply parse_signed_bound in E. exact E.
  - (* Amount *) intros _ j bs rest _ H. unf_from H. destruct j; try discriminate.
    destruct (parse_unsigned (2 ^ 64) s) as [n|] eqn:E; try discriminate. inj H.
    unf_goal. unfold norm_dec_u. rewrite E.
    rewrite le_dec_le; [reflexivity|]. apply parse_unsigned_bound in E. exact E.
  - (* AccountAddress *) intros _ j bs rest _ H. unf_from H. destruct j; try discriminate.
    destruct (acc_parse L s) as [a|] eqn:E; try discriminate.
    destruct (N.eqb_spec (N.of_nat (length a)) 32) as [E2|]; try discriminate. inj H.
    unf_goal. rewrite E. rewrite <- E2. rewrite take_n_app. reflexivity.
  - (* ContractAddress *) intros _ j bs rest _ H. unf_from H. destruct j; try discriminate.
    destruct (length l <=? 2)%nat; try discriminate.
    destruct (obj_get s_index l) as [[| | i | | | |]|] eqn:Ei; try discriminate.
    destruct (is_u64 i) eqn:Eu; try discriminate. inj H.
    unf_goal. rewrite Ei.
    set (sub := match obj_get s_subindex l with Some (JNum z) => if is_u64 z then z else 0%Z | _ => 0%Z end).
    assert (Hsub : is_u64 sub = true).
    { unfold sub. destruct (obj_get s_subindex l) as [[| | z | | | |]|]; try reflexivity.
      destruct (is_u64 z) eqn:Ez; auto. }
    unfold is_u64 in Eu, Hsub. apply andb_true_iff in Eu. apply andb_true_iff in Hsub.
    destruct Eu as [Eu1 Eu2]. destruct Hsub as [Hs1 Hs2].
    apply Z.leb_le in Eu1. apply Z.ltb_lt in Eu2. apply Z.leb_le in Hs1. apply Z.ltb_lt in Hs2.
    rewrite <- app_assoc. rewrite le_dec_le.
    2:{ apply N2Z.inj_lt. rewrite Z2N.id by lia. exact Eu2. }
    rewrite le_dec_le.
    2:{ apply N2Z.inj_lt. rewrite Z2N.id by lia. exact Hs2. }
    rewrite !Z2N.id by lia. reflexivity.
  - (* Timestamp *) intros _ j bs rest _ H. unf_from H. destruct j; try discriminate.
    destruct (ts_parse L s) as [m|] eqn:E; try discriminate.
    destruct (N.ltb_spec m (2 ^ 64)); try discriminate. inj H.
    unf_goal. rewrite E. rewrite le_dec_le; [reflexivity|assumption].
  - (* Duration *) intros _ j bs rest _ H. unf_from H. destruct j; try discriminate.
    destruct (dur_parse L s) as [m|] eqn:E; try discriminate.
    destruct (N.ltb_spec m (2 ^ 64)); try discriminate. inj H.
    unf_goal. rewrite E. rewrite le_dec_le; [reflexivity|assumption].
  - (* Pair *) intros a IHa b IHb Hw j bs rest Hj H. unf_wf Hw. apply andb_true_iff in Hw. destruct Hw as [Hwa Hwb].
    unf_from H. destruct j as [| | | | |l|]; try discriminate.
    destruct l as [|x [|y [|]]]; try discriminate.
    destruct (from_json L a x) as [p|] eqn:Ea; try discriminate.
    destruct (from_json L b y) as [q|] eqn:Eb; try discriminate. inj H.
    cbn [json_wf forallb] in Hj. apply andb_true_iff in Hj. destruct Hj as [_ Hj].
    apply andb_true_iff in Hj. destruct Hj as [Hx Hy]. apply andb_true_iff in Hy. destruct Hy as [Hy _].
    unf_goal. unfold pair_item. rewrite <- app_assoc.
    rewrite (IHa Hwa _ _ _ Hx Ea). rewrite (IHb Hwb _ _ _ Hy Eb). reflexivity.
  - (* List *) intros s e IHe Hw j bs rest Hj H. unf_wf Hw.
    unf_from H. destruct j as [| | | | |vs|]; try discriminate.
    destruct (enc_len s (length vs)) as [l|] eqn:El; try discriminate.
    destruct (from_list (from_json L e) vs) as [p|] eqn:Ep; try discriminate. inj H.
    cbn [json_wf] in Hj. apply andb_true_iff in Hj. destruct Hj as [_ Hj].
    unf_goal. rewrite <- app_assoc. rewrite (enc_len_dec_len _ _ _ _ El).
    rewrite (dec_items_from_list (from_json L e) (normalize L e)); auto.
    intros v b r Hin Hv. apply IHe; auto. eapply forallb_In; eauto.
  - (* Set *) intros s e IHe Hw j bs rest Hj H. unf_wf Hw.
    unf_from H. destruct j as [| | | | |vs|]; try discriminate.
    destruct (enc_len s (length vs)) as [l|] eqn:El; try discriminate.
    destruct (from_list (from_json L e) vs) as [p|] eqn:Ep; try discriminate. inj H.
    cbn [json_wf] in Hj. apply andb_true_iff in Hj. destruct Hj as [_ Hj].
    unf_goal. rewrite <- app_assoc. rewrite (enc_len_dec_len _ _ _ _ El).
    rewrite (dec_items_from_list (from_json L e) (normalize L e)); auto.
    intros v b r Hin Hv. apply IHe; auto. eapply forallb_In; eauto.
  - (* Map *) intros s k IHk v IHv Hw j bs rest Hj H. unf_wf Hw. apply andb_true_iff in Hw. destruct Hw as [Hwk Hwv].
    unf_from H. destruct j as [| | | | |es|]; try discriminate.
    destruct (enc_len s (length es)) as [l|] eqn:El; try discriminate.
    match type of H with match ?x with _ => _ end = _ => destruct x as [p|] eqn:Ep; try discriminate end.
    inj H.
    cbn [json_wf] in Hj. apply andb_true_iff in Hj. destruct Hj as [_ Hj].
    unf_goal. rewrite <- app_assoc. rewrite (enc_len_dec_len _ _ _ _ El).
    erewrite (dec_items_from_list _ (fun e => match e with
                                       | JArr [x; y] => JArr [normalize L k x; normalize L v y]
                                       | _ => e
                                       end)); [reflexivity| |exact Ep].
    intros e b r Hin He. destruct e as [| | | | |pr|]; try discriminate.
    destruct pr as [|x [|y [|]]]; try discriminate.
    destruct (from_json L k x) as [p1|] eqn:E1; try discriminate.
    destruct (from_json L v y) as [p2|] eqn:E2; try discriminate. injection He as <-.
    pose proof (forallb_In _ _ _ Hj Hin) as Hwe. cbn [json_wf forallb] in Hwe.
    apply andb_true_iff in Hwe. destruct Hwe as [_ Hwe].
    apply andb_true_iff in Hwe. destruct Hwe as [Hx Hy]. apply andb_true_iff in Hy. destruct Hy as [Hy _].
    unfold pair_item. rewrite <- app_assoc.
    rewrite (IHk Hwk _ _ _ Hx E1). rewrite (IHv Hwv _ _ _ Hy E2). reflexivity.
  - (* Array *) intros n e IHe Hw j bs rest Hj H. unf_wf Hw.
    unf_from H. destruct j as [| | | | |vs|]; try discriminate.
    destruct (N.eqb_spec (N.of_nat (length vs) mod 2 ^ 32) n) as [En|]; try discriminate.
    cbn [json_wf] in Hj. apply andb_true_iff in Hj. destruct Hj as [Hlen Hj]. apply N.ltb_lt in Hlen.
    rewrite N.mod_small in En by assumption. subst n.
    unf_goal.
    rewrite (dec_items_from_list (from_json L e) (normalize L e) _ _ _ rest); auto.
    intros v b r Hin Hv. apply IHe; auto. eapply forallb_In; eauto.
  - (* Struct *) intros f IHf Hw j bs rest Hj H. unf_wf Hw. unf_from H.
    unf_goal. apply IHf; auto.
  - (* Enum *) intros vs IHvs Hw j bs rest Hj H. unf_wf Hw. unf_from H.
    destruct j as [| | | | | |m]; try discriminate.
    destruct m as [|[name fv] [|]]; try discriminate.
    destruct (from_variants L vs name fv 0) as [[i p]|] eqn:Ev; try discriminate.
    cbn [json_wf forallb snd] in Hj. apply andb_true_iff in Hj. destruct Hj as [Hfv _].
    destruct (IHvs Hw _ _ _ _ _ rest Hfv Ev) as [k [Hi [Hk Hto]]].
    rewrite N.add_0_l in Hi. subst i.
    unf_goal.
    destruct (N.leb_spec (N.of_nat (variants_len vs)) 256) as [H256|H256].
    + inj H. rewrite <- app_assoc. rewrite le_dec_le.
      * exact Hto.
      * change (2 ^ (8 * N.of_nat 1)) with 256. lia.
    + destruct (N.leb_spec (N.of_nat (variants_len vs)) 65536) as [H64k|H64k]; try discriminate.
      inj H. rewrite <- app_assoc. rewrite le_dec_le.
      * exact Hto.
      * change (2 ^ (8 * N.of_nat 2)) with 65536. lia.
  - (* String *) intros s _ j bs rest Hj H. unf_from H. destruct j; try discriminate.
    cbn [json_wf] in Hj. apply andb_true_iff in Hj. destruct Hj as [Hu _].
    unf_goal. rewrite (with_len_string _ _ _ _ Hu H). reflexivity.
  - (* ContractName *) intros s _ j bs rest Hj H. unf_from H.
    destruct j as [| | | | | |m]; try discriminate.
    destruct m as [|[k [| | | |name| |]] [|]]; try discriminate.
    destruct (str_eqb k s_contract) eqn:Ek; try discriminate.
    destruct (valid_contract_name (s_init_ ++ name)) eqn:Ev; try discriminate.
    apply str_eqb_eq in Ek. subst k.
    assert (Hu : utf8_valid (s_init_ ++ name) = true).
    { apply name_chars_utf8. unfold valid_contract_name in Ev.
      apply andb_true_iff in Ev. destruct Ev as [_ Ev]. exact Ev. }
    unf_goal. rewrite (with_len_string _ _ _ _ Hu H). rewrite Ev. reflexivity.
  - (* ReceiveName *) intros s _ j bs rest Hj H. unf_from H.
    destruct j as [| | | | | |m]; try discriminate.
    destruct (obj_get s_contract m) as [[| | | |c| |]|] eqn:Ec; try discriminate.
    destruct (obj_get s_func m) as [[| | | |f| |]|] eqn:Ef; try discriminate.
    destruct (length m =? 2)%nat; try discriminate.
    destruct (negb (has_dot c) && valid_receive_name (c ++ 46 :: f)) eqn:Ev; try discriminate.
    apply andb_true_iff in Ev. destruct Ev as [Ed Ev]. apply negb_true_iff in Ed.
    assert (Hu : utf8_valid (c ++ 46 :: f) = true).
    { apply name_chars_utf8. unfold valid_receive_name in Ev.
      apply andb_true_iff in Ev. destruct Ev as [_ Ev]. exact Ev. }
    unf_goal. rewrite (with_len_string _ _ _ _ Hu H). rewrite Ev.
    rewrite split_dot_app by assumption. rewrite Ec, Ef. reflexivity.
  - (* ULeb128 *) intros c _ j bs rest _ H. unf_from H. destruct j; try discriminate.
    destruct (parse_biguint s) as [n|] eqn:E; try discriminate.
    unf_goal. rewrite E. rewrite (uleb_roundtrip _ _ _ _ H). reflexivity.
  - (* ILeb128 *) intros c _ j bs rest _ H. unf_from H. destruct j; try discriminate.
    destruct (parse_bigint s) as [z|] eqn:E; try discriminate.
    unf_goal. rewrite E. rewrite (sleb_roundtrip _ _ _ _ H). reflexivity.
  - (* ByteList *) intros s _ j bs rest _ H. unf_from H. destruct j as [| | | |x| |]; try discriminate.
    destruct (hex_decode x) as [b|] eqn:E; try discriminate.
    destruct (with_len_dec _ _ _ rest H) as [l [-> Hd]].
    unf_goal. rewrite E. rewrite <- app_assoc, Hd, take_n_app. reflexivity.
  - (* ByteArray *) intros n _ j bs rest Hj H. unf_from H. destruct j as [| | | |x| |]; try discriminate.
    destruct (hex_decode x) as [b|] eqn:E; try discriminate.
    destruct (N.eqb_spec (N.of_nat (length b) mod 2 ^ 32) n) as [En|]; try discriminate.
    cbn [json_wf] in Hj. apply andb_true_iff in Hj. destruct Hj as [_ Hlen]. apply N.ltb_lt in Hlen.
    pose proof (hex_decode_length _ _ E) as Hl.
    rewrite N.mod_small in En.
    2:{ change (2 ^ 33) with (2 * 2 ^ 32) in Hlen. lia. }
    subst n. apply Some_inj in H. subst bs. unf_goal. rewrite E, take_n_app. reflexivity.
  - (* TaggedEnum *) intros vs IHvs Hw j bs rest Hj H. unf_wf Hw. apply andb_true_iff in Hw. destruct Hw as [Hnd Hw].
    unf_from H. destruct j as [| | | | | |m]; try discriminate.
    destruct m as [|[name fv] [|]]; try discriminate.
    cbn [json_wf forallb snd] in Hj. apply andb_true_iff in Hj. destruct Hj as [Hfv _].
    destruct (IHvs Hw Hnd _ _ _ rest Hfv H) as [tag [p [-> Hto]]].
    unf_goal; cbn [app]. exact Hto.
  - (* FNamed *) intros l IHl Hw j bs rest Hj H. unf_wf Hw. unf_from H.
    destruct j as [| | | | | |m]; try discriminate.
    destruct (length m <=? nfields_len l)%nat; try discriminate.
    cbn [json_wf] in Hj.
    unf_goal. rewrite (IHl Hw _ [] _ rest Hj H). reflexivity.
  - (* FUnnamed *) intros l IHl Hw j bs rest Hj H. unf_wf Hw. unf_from H.
    destruct j as [| | | | |vs|]; try discriminate.
    destruct (tys_len l =? length vs)%nat; try discriminate.
    cbn [json_wf] in Hj. apply andb_true_iff in Hj. destruct Hj as [_ Hj].
    unf_goal. rewrite (IHl Hw _ _ rest Hj H). reflexivity.
  - (* FNone *) intros _ j bs rest _ H. cbn in H. inj H. reflexivity.
  - (* NFnil *) intros _ m acc bs rest _ H. cbn in H. inj H. reflexivity.
  - (* NFcons *) intros name t IHt r IHr Hw m acc bs rest Hm H. unf_wf Hw.
    apply andb_true_iff in Hw. destruct Hw as [Hwt Hwr]. unf_from H.
    destruct (obj_get name m) as [v|] eqn:Ev; try discriminate.
    destruct (from_json L t v) as [p|] eqn:Ep; try discriminate.
    destruct (from_nfields L r m) as [q|] eqn:Eq; try discriminate. inj H.
    unf_goal. rewrite Ev. rewrite <- app_assoc.
    rewrite (IHt Hwt _ _ _ (obj_get_wf _ _ _ Hm Ev) Ep).
    apply IHr; auto.
  - (* TSnil *) intros _ vs bs rest _ H. cbn in H. inj H. destruct vs; reflexivity.
  - (* TScons *) intros t IHt r IHr Hw vs bs rest Hvs H. unf_wf Hw.
    apply andb_true_iff in Hw. destruct Hw as [Hwt Hwr]. unf_from H.
    destruct vs as [|v vs']; try discriminate.
    destruct (from_json L t v) as [p|] eqn:Ep; try discriminate.
    destruct (from_tys L r vs') as [q|] eqn:Eq; try discriminate. inj H.
    cbn [forallb] in Hvs. apply andb_true_iff in Hvs. destruct Hvs as [Hv Hvs'].
    unf_goal. rewrite <- app_assoc.
    rewrite (IHt Hwt _ _ _ Hv Ep). rewrite (IHr Hwr _ _ _ Hvs' Eq). reflexivity.
  - (* Vnil *) intros _ name fv i i' bs rest _ H. cbn in H. discriminate.
  - (* Vcons *) intros n f IHf r IHr Hw name fv i i' bs rest Hfv H. unf_wf Hw.
    apply andb_true_iff in Hw. destruct Hw as [Hwf Hwr]. unf_from H.
    destruct (str_eqb n name) eqn:En.
    + destruct (from_fields L f fv) as [p|] eqn:Ep; try discriminate. injection H as <- <-.
      apply str_eqb_eq in En. subst n.
      exists O. split; [lia|]. split; [cbn; lia|].
      unf_goal. change (N.of_nat 0) with 0. rewrite N.eqb_refl.
      rewrite (IHf Hwf _ _ _ Hfv Ep). rewrite (proj2 (N.eqb_eq _ _) eq_refl) || idtac.
      destruct (str_eqb name name) eqn:Enn; [reflexivity|].
      exfalso. clear -Enn. induction name as [|x name IH]; cbn in Enn; [discriminate|].
      rewrite N.eqb_refl in Enn. cbn in Enn. auto.
    + destruct (IHr Hwr _ _ _ _ _ rest Hfv H) as [k [Hi [Hk Hto]]].
      exists (S k). split; [lia|]. split; [cbn [variants_len]; lia|].
      unf_goal. rewrite En.
      destruct (N.eqb_spec (N.of_nat (S k)) 0); [lia|].
      replace (N.pred (N.of_nat (S k))) with (N.of_nat k) by lia. exact Hto.
  - (* TVnil *) intros _ _ name fv bs rest _ H. cbn in H. discriminate.
  - (* TVcons *) intros tag n f IHf r IHr Hw Hnd name fv bs rest Hfv H. unf_wf Hw.
    apply andb_true_iff in Hw. destruct Hw as [Hwf Hwr]. cbn [tv_tags nodup_N] in Hnd.
    apply andb_true_iff in Hnd. destruct Hnd as [Hnotin Hnd]. apply negb_true_iff in Hnotin.
    unf_from H.
    destruct (str_eqb n name) eqn:En.
    + destruct (from_fields L f fv) as [p|] eqn:Ep; try discriminate. inj H.
      apply str_eqb_eq in En. subst n.
      exists tag, p. split; [reflexivity|].
      unf_goal. rewrite N.eqb_refl.
      rewrite (IHf Hwf _ _ _ Hfv Ep).
      destruct (str_eqb name name) eqn:Enn; [reflexivity|].
      exfalso. clear -Enn. induction name as [|x name IH]; cbn in Enn; [discriminate|].
      rewrite N.eqb_refl in Enn. cbn in Enn. auto.
    + destruct (from_tvariants_tag _ _ _ _ H) as [t' [p' [Hbs Hin]]].
      destruct (IHr Hwr Hnd _ _ _ rest Hfv H) as [t2 [p2 [Hbs2 Hto]]].
      exists t2, p2. split; [assumption|].
      unf_goal. rewrite En.
      assert (t2 = t') by congruence. subst t2.
      destruct (N.eqb_spec tag t') as [->|]; [|exact Hto].
      exfalso. exact (existsb_In_N _ _ Hnotin Hin).
Qed.

Theorem json_roundtrip_rest : forall t j bs rest,
  ty_wf t = true -> json_wf j = true -> from_json L t j = Some bs ->
  to_json L t (bs ++ rest) = Some (normalize L t j, rest).
Proof. intros t j bs rest Hw Hj H. exact (proj1 roundtrip_all t Hw j bs rest Hj H). Qed.

Theorem json_roundtrip_exact : forall t j bs,
  ty_wf t = true -> json_wf j = true -> from_json L t j = Some bs ->
  to_json L t bs = Some (normalize L t j, []).
Proof.
  intros t j bs Hw Hj H. pose proof (json_roundtrip_rest t j bs [] Hw Hj H) as R.
  rewrite app_nil_r in R. exact R.
Qed.

End WithLeaves.
