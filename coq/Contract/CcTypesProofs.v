(** C16 - the codec laws for the concrete type terms of [CcTypes.v]. *)
From Coq Require Import NArith ZArith List Bool Lia.
From CB Require Import Contract.CcCodec Contract.CcCodecProofs Contract.Names Contract.CcTypes.
Import ListNotations.
Local Open Scope N_scope.

Arguments N.add : simpl never.
Arguments N.sub : simpl never.
Arguments N.mul : simpl never.
Arguments N.eqb : simpl never.
Arguments N.ltb : simpl never.
Arguments N.leb : simpl never.
Arguments N.pow : simpl never.
Arguments N.div : simpl never.
Arguments N.modulo : simpl never.

(** all five laws at once, for codecs whose decoder is canonical *)
Definition Laws {A} (K : N) (c : codec A) : Prop :=
  RT c /\ Canon c /\ Shrinks c /\ AllocOK K c.
(** the same without canonicity (unordered input is accepted and sorted) *)
Definition LawsNC {A} (K : N) (c : codec A) : Prop :=
  RT c /\ Shrinks c /\ AllocOK K c.

Lemma laws_uint : forall K k, Laws K (c_uint k).
Proof. intros. unfold Laws. repeat apply conj; [apply uint_RT | apply uint_Canon | apply uint_Shrinks | apply uint_AllocOK]. Qed.

Lemma laws_pair : forall {A B} K (ca : codec A) (cb : codec B), Laws K ca -> Laws K cb -> Laws K (c_pair ca cb).
Proof.
  intros A B K ca cb (R1 & C1 & S1 & A1) (R2 & C2 & S2 & A2). unfold Laws. repeat apply conj.
  - apply pair_RT; auto.
  - apply pair_Canon; auto.
  - apply pair_Shrinks; auto.
  - apply pair_AllocOK; auto.
Qed.
Lemma laws_refine : forall {A} K (c : codec A) ok, Laws K c -> Laws K (c_refine c ok).
Proof.
  intros A K c ok (R & C & S & Al). unfold Laws. repeat apply conj.
  - apply refine_RT; auto.
  - apply refine_Canon; auto.
  - apply refine_Shrinks; auto.
  - apply refine_AllocOK; auto.
Qed.
Lemma laws_sum : forall {A B} K (ca : codec A) (cb : codec B), Laws K ca -> Laws K cb -> Laws K (c_sum ca cb).
Proof.
  intros A B K ca cb (R1 & C1 & S1 & A1) (R2 & C2 & S2 & A2). unfold Laws. repeat apply conj.
  - apply sum_RT; auto.
  - apply sum_Canon; auto.
  - apply sum_Shrinks; auto.
  - apply sum_AllocOK; auto.
Qed.
Lemma laws_array : forall {A} K (c : codec A) n, Laws K c -> NonEmpty c -> Laws K (c_array c n).
Proof.
  intros A K c n (R & C & S & Al) NE. unfold Laws. repeat apply conj.
  - apply array_RT; auto.
  - apply array_Canon; auto.
  - apply array_Shrinks; auto.
  - apply array_AllocOK; auto.
Qed.
Lemma laws_vec : forall {A} K (c : codec A) k rsv, Laws K c -> NonEmpty c ->
  (forall n, n < 256 ^ N.of_nat (S k) -> rsv n <= K) ->
  Laws K (c_vec c (S k) rsv).
Proof.
  intros A K c k rsv (R & C & S & Al) NE HR. unfold Laws. repeat apply conj.
  - apply vec_RT; auto.
  - apply vec_Canon; auto.
  - apply vec_Shrinks; auto.
  - apply vec_AllocOK; auto.
Qed.
Lemma laws_unit : forall K, Laws K c_unit.
Proof. intros. unfold Laws. repeat apply conj; [apply unit_RT | apply unit_Canon | apply unit_Shrinks | apply unit_AllocOK]. Qed.

Lemma rsv_std_le : forall K n, MAX_PREALLOCATED_CAPACITY <= K -> rsv_std n <= K.
Proof. intros K n H. unfold rsv_std. lia. Qed.
Lemma rsv_none_le : forall K n, rsv_none n <= K.
Proof. intros. unfold rsv_none. lia. Qed.

Lemma laws_nc_unordered : forall {A} K ltb (cv : codec (list A)), Laws K cv -> LawsNC K (c_unordered ltb cv).
Proof.
  intros A K ltb cv (R & C & S & Al). unfold LawsNC. repeat apply conj.
  - apply unordered_RT; auto.
  - apply unordered_Shrinks; auto.
  - apply unordered_AllocOK; auto.
Qed.

(** ** signed integers *)
Lemma pow256_pos : forall k, 0 < 256 ^ N.of_nat k.
Proof. intros. apply N.neq_0_lt_0. apply N.pow_nonzero. lia. Qed.
Lemma half_double : forall k, (0 < k)%nat -> 2 * 2 ^ (8 * N.of_nat k - 1) = 256 ^ N.of_nat k.
Proof.
  intros k Hk. replace 256 with (2 ^ 8) by reflexivity. rewrite <- N.pow_mul_r.
  replace (8 * N.of_nat k) with (N.succ (8 * N.of_nat k - 1)) at 2 by lia.
  rewrite N.pow_succ_r'. reflexivity.
Qed.

Lemma sint_to_of : forall k z, (0 < k)%nat -> signed_range k z -> to_signed k (of_signed k z) = z /\ of_signed k z < 256 ^ N.of_nat k.
Proof.
  intros k z Hk [Hlo Hhi]. unfold to_signed, of_signed.
  pose proof (half_double k Hk) as HD. pose proof (pow256_pos k) as HP.
  set (M := 256 ^ N.of_nat k) in *. set (H := 2 ^ (8 * N.of_nat k - 1)) in *.
  assert (HM : (0 < Z.of_N M)%Z) by lia.
  assert (HZ : Z.of_N M = (2 * Z.of_N H)%Z) by lia.
  destruct (Z_lt_le_dec z 0) as [Hneg|Hpos].
  - assert (E : (z mod Z.of_N M = z + Z.of_N M)%Z).
    { symmetry. apply Z.mod_unique with (q := (-1)%Z); lia. }
    rewrite E. split.
    + destruct (Z.to_N (z + Z.of_N M) <? H) eqn:L.
      * apply N.ltb_lt in L. lia.
      * rewrite Z2N.id by lia. lia.
    + lia.
  - assert (E : (z mod Z.of_N M = z)%Z) by (apply Z.mod_small; lia).
    rewrite E. split.
    + destruct (Z.to_N z <? H) eqn:L.
      * rewrite Z2N.id by lia. reflexivity.
      * apply N.ltb_ge in L. lia.
    + lia.
Qed.

Lemma sint_of_to : forall k v, (0 < k)%nat -> v < 256 ^ N.of_nat k -> of_signed k (to_signed k v) = v /\ signed_range k (to_signed k v).
Proof.
  intros k v Hk Hv. unfold to_signed, of_signed, signed_range.
  pose proof (half_double k Hk) as HD.
  set (M := 256 ^ N.of_nat k) in *. set (H := 2 ^ (8 * N.of_nat k - 1)) in *.
  assert (HZ : Z.of_N M = (2 * Z.of_N H)%Z) by lia.
  destruct (v <? H) eqn:L.
  - apply N.ltb_lt in L. rewrite Z.mod_small by lia. rewrite N2Z.id. split; [reflexivity | lia].
  - apply N.ltb_ge in L.
    assert (E : ((Z.of_N v - Z.of_N M) mod Z.of_N M = Z.of_N v)%Z).
    { symmetry. apply Z.mod_unique with (q := (-1)%Z); lia. }
    rewrite E, N2Z.id. split; [reflexivity | lia].
Qed.

Lemma laws_sint : forall K k, (0 < k)%nat -> Laws K (c_sint k).
Proof.
  intros K k Hk. unfold c_sint, Laws. repeat apply conj.
  - apply map_RT; [apply uint_RT|]. intros z Hz. destruct (sint_to_of k z Hk Hz). split; assumption.
  - apply map_Canon; [apply uint_Canon|]. intros v Hv. apply sint_of_to; assumption.
  - apply map_Shrinks, uint_Shrinks.
  - apply map_AllocOK, uint_AllocOK.
Qed.

(** ** bool, option *)
Lemma laws_bool : forall K, Laws K c_bool.
Proof.
  intros K. unfold c_bool, Laws. repeat apply conj.
  - apply map_RT; [apply refine_RT, uint_RT|]. intros [|] _; cbn; repeat split; reflexivity || (cbv; reflexivity).
  - apply map_Canon; [apply refine_Canon, uint_Canon|].
    intros n [_ Hn]. apply N.ltb_lt in Hn. assert (n = 0 \/ n = 1) as [->| ->] by lia; split; (reflexivity || exact I).
  - apply map_Shrinks, refine_Shrinks, uint_Shrinks.
  - apply map_AllocOK, refine_AllocOK, uint_AllocOK.
Qed.
(** only 0 and 1 decode to a [bool] *)
Lemma bool_rejects_other : forall b rest, 2 <= b -> dec c_bool (b :: rest) = None.
Proof.
  intros b rest H. cbn. destruct (b <? 256) eqn:B; [|reflexivity].
  replace (b + 256 * 0) with b by lia. assert (b <? 2 = false) as -> by (apply N.ltb_ge; lia). reflexivity.
Qed.

Lemma laws_option : forall {A} K (c : codec A), Laws K c -> Laws K (c_option c).
Proof.
  intros A K c L. pose proof (laws_sum K c_unit c (laws_unit K) L) as (R & C & S & Al).
  unfold c_option, Laws. repeat apply conj.
  - apply map_RT; [exact R|]. intros [a|] H; split; cbn; auto.
  - apply map_Canon; [exact C|]. intros [[]|a] H; split; cbn; auto.
  - apply map_Shrinks; exact S.
  - apply map_AllocOK; exact Al.
Qed.

(** ** byte arrays, vectors, strings *)
Lemma u8_NonEmpty : NonEmpty c_u8. Proof. apply (uint_NonEmpty 0). Qed.

Lemma laws_bytes : forall K n, Laws K (c_bytes n).
Proof. intros. apply laws_array; [apply laws_uint | apply u8_NonEmpty]. Qed.

Lemma laws_vec32 : forall {A} K (c : codec A), MAX_PREALLOCATED_CAPACITY <= K -> Laws K c -> NonEmpty c -> Laws K (c_vec32 c).
Proof. intros. apply laws_vec; auto. intros; apply rsv_std_le; auto. Qed.
Lemma laws_vec16 : forall {A} K (c : codec A), MAX_PREALLOCATED_CAPACITY <= K -> Laws K c -> NonEmpty c -> Laws K (c_vec16 c).
Proof. intros. apply laws_vec; auto. intros; apply rsv_std_le; auto. Qed.
Lemma laws_vec8 : forall {A} K (c : codec A), MAX_PREALLOCATED_CAPACITY <= K -> Laws K c -> NonEmpty c -> Laws K (c_vec8 c).
Proof. intros. apply laws_vec; auto. intros; apply rsv_std_le; auto. Qed.
Lemma laws_vec64 : forall {A} K (c : codec A), MAX_PREALLOCATED_CAPACITY <= K -> Laws K c -> NonEmpty c -> Laws K (c_vec64 c).
Proof. intros. apply laws_vec; auto. intros; apply rsv_std_le; auto. Qed.

Lemma laws_string : forall K, MAX_PREALLOCATED_CAPACITY <= K -> Laws K c_string.
Proof. intros. apply laws_refine, laws_vec32; [assumption | apply laws_uint | apply u8_NonEmpty]. Qed.

(** ** collections with numeric keys *)
Lemma laws_set_ordered : forall K k ck, Laws K ck -> NonEmpty ck -> Laws K (c_set_ordered (S k) ck).
Proof. intros. apply laws_refine, laws_vec; auto. intros; apply rsv_none_le. Qed.
Lemma laws_map_ordered : forall {V} K k ck (cv : codec V), Laws K ck -> NonEmpty ck -> Laws K cv ->
  Laws K (c_map_ordered (S k) ck cv).
Proof.
  intros. apply laws_refine, laws_vec; [apply laws_pair; auto | apply pair_NonEmpty_l; auto |].
  intros; apply rsv_none_le.
Qed.
Lemma laws_set32 : forall K ck, MAX_PREALLOCATED_CAPACITY <= K -> Laws K ck -> NonEmpty ck -> LawsNC K (c_set32 ck).
Proof. intros. apply laws_nc_unordered, laws_vec32; auto. Qed.
Lemma laws_map32 : forall {V} K ck (cv : codec V), MAX_PREALLOCATED_CAPACITY <= K -> Laws K ck -> NonEmpty ck -> Laws K cv ->
  LawsNC K (c_map32 ck cv).
Proof.
  intros. apply laws_nc_unordered, laws_vec32; [assumption | apply laws_pair; auto | apply pair_NonEmpty_l; auto].
Qed.
Lemma laws_set_unordered : forall K k ck, Laws K ck -> NonEmpty ck -> LawsNC K (c_set_unordered (S k) ck).
Proof. intros. apply laws_nc_unordered, laws_vec; auto. intros; apply rsv_none_le. Qed.
Lemma laws_map_unordered : forall {V} K k ck (cv : codec V), Laws K ck -> NonEmpty ck -> Laws K cv ->
  LawsNC K (c_map_unordered (S k) ck cv).
Proof.
  intros. apply laws_nc_unordered, laws_vec; [apply laws_pair; auto | apply pair_NonEmpty_l; auto |].
  intros; apply rsv_none_le.
Qed.

(** duplicate or descending keys are rejected by the order-checking decoders *)
Lemma set_ordered_reject : forall k ck xs rest, RT ck -> NonEmpty ck ->
  N.of_nat (length xs) < 256 ^ N.of_nat k -> Forall (wf ck) xs ->
  strict_sorted N.ltb xs = false ->
  dec (c_set_ordered k ck) (le_bytes k (N.of_nat (length xs)) ++ enc_elems ck xs ++ rest) = None.
Proof.
  intros k ck xs rest R NE L W S. unfold c_set_ordered. rewrite app_assoc.
  apply (ordered_reject_gen N.ltb (c_vec ck k rsv_none)); [apply vec_RT; auto | split; auto | exact S].
Qed.
Lemma map_ordered_reject : forall {V} k ck (cv : codec V) xs rest, RT ck -> NonEmpty ck -> RT cv ->
  N.of_nat (length xs) < 256 ^ N.of_nat k -> Forall (wf (c_pair ck cv)) xs ->
  strict_sorted key_ltb xs = false ->
  dec (c_map_ordered k ck cv) (le_bytes k (N.of_nat (length xs)) ++ enc_elems (c_pair ck cv) xs ++ rest) = None.
Proof.
  intros V k ck cv xs rest R NE RV L W S. unfold c_map_ordered. rewrite app_assoc.
  apply (ordered_reject_gen key_ltb (c_vec (c_pair ck cv) k rsv_none));
    [apply vec_RT; [apply pair_RT; auto | apply pair_NonEmpty_l; auto] | split; auto | exact S].
Qed.
(** [strict_sorted] is the documented order: each key strictly above its predecessor *)
Lemma strict_sorted_spec : forall xs, strict_sorted N.ltb xs = true <->
  (forall i, (S i < length xs)%nat -> nth i xs 0 < nth (S i) xs 0).
Proof.
  induction xs as [|x xs IH]; [cbn; split; [intros _ i Hi; lia | reflexivity]|].
  cbn [strict_sorted]. destruct xs as [|y ys].
  - split; [intros _ i Hi; cbn in Hi; lia | reflexivity].
  - rewrite andb_true_iff, N.ltb_lt, IH. split.
    + intros [Hxy Hr] i Hi. destruct i as [|i]; [exact Hxy|]. apply (Hr i). cbn in *. lia.
    + intros Hall. split.
      * apply (Hall O). cbn. lia.
      * intros i Hi. apply (Hall (S i)). cbn in *. lia.
Qed.

(** ** chain types *)
Lemma laws_address : forall K, Laws K c_address.
Proof. intros. apply laws_sum; [apply laws_bytes | apply laws_pair; apply laws_uint]. Qed.
Lemma address_bad_tag : forall t r, 2 <= t -> dec c_address (t :: r) = None.
Proof. intros t r H. apply sum_bad_tag; lia. Qed.
Lemma laws_account_balance : forall K, Laws K c_account_balance.
Proof. intros. apply laws_refine, laws_pair; [apply laws_uint | apply laws_pair; apply laws_uint]. Qed.
Lemma laws_exchange_rate : forall K, Laws K c_exchange_rate.
Proof. intros. apply laws_refine, laws_pair; apply laws_uint. Qed.
Lemma laws_exchange_rates : forall K, Laws K c_exchange_rates.
Proof. intros. apply laws_pair; apply laws_exchange_rate. Qed.
Lemma laws_threshold : forall K, Laws K c_threshold.
Proof. intros. apply laws_refine, laws_uint. Qed.
Lemma laws_contract_name : forall K, MAX_PREALLOCATED_CAPACITY <= K -> Laws K c_contract_name.
Proof. intros. apply laws_refine, laws_vec16; [assumption | apply laws_uint | apply u8_NonEmpty]. Qed.
Lemma laws_receive_name : forall K, MAX_PREALLOCATED_CAPACITY <= K -> Laws K c_receive_name.
Proof. intros. apply laws_refine, laws_vec16; [assumption | apply laws_uint | apply u8_NonEmpty]. Qed.
Lemma laws_entrypoint_name : forall K, MAX_PREALLOCATED_CAPACITY <= K -> Laws K c_entrypoint_name.
Proof. intros. apply laws_refine, laws_vec16; [assumption | apply laws_uint | apply u8_NonEmpty]. Qed.
Lemma laws_parameter : forall K, MAX_PREALLOCATED_CAPACITY <= K -> Laws K c_parameter.
Proof. intros. apply laws_vec16; [assumption | apply laws_uint | apply u8_NonEmpty]. Qed.
Lemma laws_attribute_value : forall K, Laws K c_attribute_value.
Proof. intros. apply laws_refine, laws_vec; [apply laws_uint | apply u8_NonEmpty | intros; apply rsv_none_le]. Qed.
(** the policy decoder reserves [len] slots for a u16 [len]: bounded by 65535 *)
Lemma laws_policy : Laws 65535 c_policy.
Proof.
  unfold c_policy. repeat (apply laws_pair; [apply laws_uint|]).
  apply laws_vec.
  - apply laws_pair; [apply laws_uint | apply laws_attribute_value].
  - apply pair_NonEmpty_l, u8_NonEmpty.
  - (* the declared length was read from two bytes *)
    intros n Hn. unfold rsv_all. change (256 ^ N.of_nat 2) with 65536 in Hn. lia.
Qed.
