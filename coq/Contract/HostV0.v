(** C14 - executable model of the v0 host functions
    (smart-contracts/wasm-chain-integration/src/v0/mod.rs: State, Logs, Outcome, and the host module).
    Definitions only.  Every guard is transcribed in the order of the Rust code; arguments are the
    values popped from the stack (u32 < 2^32, u64 < 2^64), named as in the Rust code. *)
From Coq Require Import NArith List Bool.
From CB Require Import Gen.HostCosts Contract.HostBase.
Import ListNotations.
Local Open Scope N_scope.

Inductive action : Type :=
| AAccept
| ATransfer (addr : list N) (amount : N)
| ASend (index subindex : N) (name : list N) (amount : N) (param : list N)
| AAnd (l r : N)
| AOr (l r : N).

(** Host state shared by the v0 hosts and (through [h_ext]) the v1 hosts. *)
Record host (X : Type) : Type := mkHost {
  h_init : bool;                 (* InitHost (true) or ReceiveHost (false) *)
  h_state : list N;              (* v0 flat state *)
  h_logs : list (list N);        (* chronological *)
  h_actions : list action;       (* Outcome::cur_state *)
  h_param : list N;
  h_policy : list N;
  h_limit : bool;                (* limit_logs_and_return_values *)
  h_maxparam : N;                (* max_parameter_size *)
  h_frames : N;                  (* activation_frames *)
  h_slot_time : N;
  h_origin : list N; h_invoker : list N; h_owner : list N;   (* 32 bytes each *)
  h_self_index : N; h_self_sub : N; h_balance : N;
  h_sender : list N;             (* serialisation of the sender Address: 33 or 17 bytes *)
  h_ext : X }.
Arguments mkHost {X}.
Arguments h_init {X}. Arguments h_state {X}. Arguments h_logs {X}. Arguments h_actions {X}.
Arguments h_param {X}. Arguments h_policy {X}. Arguments h_limit {X}. Arguments h_maxparam {X}.
Arguments h_frames {X}. Arguments h_slot_time {X}. Arguments h_origin {X}. Arguments h_invoker {X}.
Arguments h_owner {X}. Arguments h_self_index {X}. Arguments h_self_sub {X}. Arguments h_balance {X}.
Arguments h_sender {X}. Arguments h_ext {X}.

Section V0.
Context {X : Type}.
Notation H := (host X).
Notation MH := (M (host X)).

Definition with_state (h : H) (s : list N) : H :=
  mkHost (h_init h) s (h_logs h) (h_actions h) (h_param h) (h_policy h) (h_limit h) (h_maxparam h)
         (h_frames h) (h_slot_time h) (h_origin h) (h_invoker h) (h_owner h) (h_self_index h)
         (h_self_sub h) (h_balance h) (h_sender h) (h_ext h).
Definition with_logs (h : H) (l : list (list N)) : H :=
  mkHost (h_init h) (h_state h) l (h_actions h) (h_param h) (h_policy h) (h_limit h) (h_maxparam h)
         (h_frames h) (h_slot_time h) (h_origin h) (h_invoker h) (h_owner h) (h_self_index h)
         (h_self_sub h) (h_balance h) (h_sender h) (h_ext h).
Definition with_actions (h : H) (a : list action) : H :=
  mkHost (h_init h) (h_state h) (h_logs h) a (h_param h) (h_policy h) (h_limit h) (h_maxparam h)
         (h_frames h) (h_slot_time h) (h_origin h) (h_invoker h) (h_owner h) (h_self_index h)
         (h_self_sub h) (h_balance h) (h_sender h) (h_ext h).
Definition with_frames (h : H) (f : N) : H :=
  mkHost (h_init h) (h_state h) (h_logs h) (h_actions h) (h_param h) (h_policy h) (h_limit h) (h_maxparam h)
         f (h_slot_time h) (h_origin h) (h_invoker h) (h_owner h) (h_self_index h)
         (h_self_sub h) (h_balance h) (h_sender h) (h_ext h).
Definition with_balance (h : H) (b : N) : H :=
  mkHost (h_init h) (h_state h) (h_logs h) (h_actions h) (h_param h) (h_policy h) (h_limit h) (h_maxparam h)
         (h_frames h) (h_slot_time h) (h_origin h) (h_invoker h) (h_owner h) (h_self_index h)
         (h_self_sub h) b (h_sender h) (h_ext h).
Definition with_ext {Y} (h : H) (e : Y) : host Y :=
  mkHost (h_init h) (h_state h) (h_logs h) (h_actions h) (h_param h) (h_policy h) (h_limit h) (h_maxparam h)
         (h_frames h) (h_slot_time h) (h_origin h) (h_invoker h) (h_owner h) (h_self_index h)
         (h_self_sub h) (h_balance h) (h_sender h) e.

(** *** `Logs::log_event` *)
Definition logs_push (event : list N) : MH N :=
  h <- get_hs ;;
  let cur_len := lenN (h_logs h) in
  if (negb (h_limit h) && (cur_len <=? U32MAX)) || (cur_len <? MAX_NUM_LOGS)
  then set_hs (with_logs h (h_logs h ++ [event])) ;;; ret 1
  else ret 0.

(** *** `State::{write_state, load_state, resize_state}` *)
Definition st_write_state (offset : N) (bytes : list N) : MH N :=
  h <- get_hs ;;
  let length := lenN bytes in
  let slen := u32 (lenN (h_state h)) in                     (* self.len() *)
  ensure (offset <=? slen) ;;;
  (* offset.checked_add(length).ok_or_else(..)? : an overflow is an error, not a panic *)
  ensure (offset + length <? W64) ;;;
  let end_ := u32 (N.min (offset + length) MAX_CONTRACT_STATE) in
  let state1 := if slen <? end_ then resizeN (h_state h) end_ else h_state h in
  (if slen <? end_ then emit (EvAlloc (end_ - lenN (h_state h))) else ret tt) ;;;
  dst <- vslice state1 offset end_ ;;                       (* &mut self.state[offset..end] *)
  let written := N.min (lenN dst) length in
  match storeN state1 offset (firstnN written bytes) with
  | Some state2 => set_hs (with_state h state2) ;;; emit (EvCopy written) ;;; ret (u32 written)
  | None => fault
  end.

Definition st_load_state (offset start dlen : N) : MH N :=
  h <- get_hs ;;
  ensure (offset <=? lenN (h_state h)) ;;;
  src <- vslice (h_state h) offset (lenN (h_state h)) ;;    (* &self.state[offset..] *)
  amt <- write_to_mem start dlen src ;;
  ret (u32 amt).

Definition st_resize_state (new_size : N) : MH N :=
  h <- get_hs ;;
  if MAX_CONTRACT_STATE <? new_size then ret 0
  else
    (if lenN (h_state h) <? new_size then emit (EvAlloc (new_size - lenN (h_state h))) else ret tt) ;;;
    set_hs (with_state h (resizeN (h_state h) new_size)) ;;; ret 1.

(** *** `Outcome::*` *)
Definition push_action (a : action) : MH N :=
  h <- get_hs ;;
  let response := lenN (h_actions h) in
  set_hs (with_actions h (h_actions h ++ [a])) ;;; ret (u32 response).

Definition out_send (addr_index addr_subindex : N) (name : list N) (amount : N) (param : list N) : MH N :=
  h <- get_hs ;;
  (* ensure!(len <= MAX_FUNC_NAME_SIZE) (fix: before the UTF-8 scan); from_utf8(..)? ; ReceiveName::new(..)? *)
  ensure (lenN name <=? 100) ;;;
  emit (EvFixed (lenN name)) ;;;                             (* the scan: now at most 100 bytes *)
  ensure (valid_receive_name name) ;;;
  emit (EvFixed (lenN name)) ;;;                             (* rn.to_owned(): at most 100 bytes *)
  ensure (lenN param <=? h_maxparam h) ;;;
  emit (EvCopy (lenN param)) ;;;                             (* parameter_bytes.to_vec() *)
  push_action (ASend addr_index addr_subindex name amount param).

Definition out_combine (mk : N -> N -> action) (l r : N) : MH N :=
  h <- get_hs ;;
  let response := u32 (lenN (h_actions h)) in
  ensure ((l <? response) && (r <? response)) ;;;
  push_action (mk l r).

(** *** `v0::host::*` *)
Definition get_parameter_size : MH (option N) :=
  h <- get_hs ;; ret (Some (u32 (lenN (h_param h)))).

(** shared by get_parameter_section (v0 and v1) once the parameter is selected *)
Definition read_section (param : list N) (start length offset : N) : MH (option N) :=
  write_end <- uadd start length ;;
  ensure_fits (write_end) ;;;
  off_end <- uadd offset length ;;
  let end_ := N.min off_end (lenN param) in
  ensure (offset <=? end_) ;;;
  _ <- mslice start write_end ;;                             (* &mut memory[start..write_end] *)
  src <- vslice param offset end_ ;;                         (* &param[offset..end] *)
  amt <- write_to_mem start length src ;;
  ret (Some (u32 amt)).

Definition get_parameter_section (start length offset : N) : MH (option N) :=
  h <- get_hs ;;
  tick (copy_parameter_cost length) ;;;
  read_section (h_param h) start length offset.

Definition get_policy_section (start length offset : N) : MH (option N) :=
  h <- get_hs ;;
  tick (copy_from_host_cost length) ;;;
  read_section (h_policy h) start length offset.

Definition log_event (start length : N) : MH (option N) :=
  end_ <- uadd start length ;;
  ensure_fits (end_) ;;;
  if length <=? MAX_LOG_SIZE then
    tick (log_event_cost length) ;;;
    bytes <- mslice start end_ ;;
    emit (EvCopy length) ;;;                                 (* memory[start..end].to_vec() *)
    r <- logs_push bytes ;;
    ret (Some r)
  else ret (Some U32MAX).                                    (* -1i32 *)

Definition load_state (start length offset : N) : MH (option N) :=
  tick (copy_from_host_cost length) ;;;
  end_ <- uadd start length ;;
  ensure_fits (end_) ;;;
  _ <- mslice start end_ ;;
  r <- st_load_state offset start length ;;
  ret (Some r).

Definition write_state (start length offset : N) : MH (option N) :=
  tick (copy_to_host_cost length) ;;;
  end_ <- uadd start length ;;
  ensure_fits (end_) ;;;
  bytes <- mslice start end_ ;;
  r <- st_write_state offset bytes ;;
  ret (Some r).

Definition resize_state (new_size : N) : MH (option N) :=
  h <- get_hs ;;
  let old_size := u32 (lenN (h_state h)) in
  (if old_size <? new_size then tick (additional_state_size_cost (new_size - old_size)) else ret tt) ;;;
  r <- st_resize_state new_size ;;
  ret (Some r).

Definition state_size : MH (option N) :=
  h <- get_hs ;; ret (Some (u32 (lenN (h_state h)))).

Definition get_slot_time : MH (option N) :=
  h <- get_hs ;; ret (Some (h_slot_time h)).

(** writes a fixed 32-byte address at [start] *)
Definition put_address (addr : list N) (start : N) : MH (option N) :=
  end_ <- uadd start 32 ;;
  ensure_fits end_ ;;;
  _ <- mslice start end_ ;;
  mstore start (firstnN 32 (addr ++ zerosN 32)) ;;; emit (EvFixed 32) ;;; ret None.

Definition get_init_origin (start : N) : MH (option N) :=
  h <- get_hs ;; put_address (h_origin h) start.
Definition get_receive_invoker (start : N) : MH (option N) :=
  h <- get_hs ;; put_address (h_invoker h) start.
Definition get_receive_owner (start : N) : MH (option N) :=
  h <- get_hs ;; put_address (h_owner h) start.

Definition get_receive_self_address (start : N) : MH (option N) :=
  h <- get_hs ;;
  end_ <- uadd start 16 ;;
  ensure_fits end_ ;;;
  mid <- uadd start 8 ;;
  _ <- mslice start mid ;;
  mstore start (le_bytes 8 (h_self_index h)) ;;;
  _ <- mslice mid end_ ;;
  mstore mid (le_bytes 8 (h_self_sub h)) ;;; emit (EvFixed 16) ;;; ret None.

Definition get_receive_self_balance : MH (option N) :=
  h <- get_hs ;; ret (Some (h_balance h)).

Definition get_receive_sender (start : N) : MH (option N) :=
  h <- get_hs ;;
  ensure_fits (start + 1) ;;;                                (* ensure!(start < memory.len()) *)
  mborrow_from start ;;;                                     (* &mut memory[start..] *)
  (* Address::serial into the remaining slice fails (-> trap) when it does not fit *)
  ensure_fits (start + lenN (h_sender h)) ;;;
  mstore start (h_sender h) ;;; emit (EvFixed (lenN (h_sender h))) ;;; ret None.

Definition accept : MH (option N) :=
  tick BASE_ACTION_COST ;;;
  r <- push_action AAccept ;; ret (Some r).

Definition simple_transfer (addr_start amount : N) : MH (option N) :=
  tick BASE_ACTION_COST ;;;
  addr_end <- uadd addr_start 32 ;;
  ensure_fits addr_end ;;;
  bytes <- mslice addr_start addr_end ;;
  emit (EvFixed 32) ;;;
  r <- push_action (ATransfer bytes amount) ;; ret (Some r).

Definition send (addr_index addr_subindex receive_name_start receive_name_len amount
                 parameter_start parameter_len : N) : MH (option N) :=
  tick (action_send_cost parameter_len) ;;;
  parameter_end <- uadd parameter_start parameter_len ;;
  receive_name_end <- uadd receive_name_start receive_name_len ;;
  ensure_fits (parameter_end) ;;;
  ensure_fits (receive_name_end) ;;;
  name <- mslice receive_name_start receive_name_end ;;
  param <- mslice parameter_start parameter_end ;;
  r <- out_send addr_index addr_subindex name amount param ;;
  ret (Some r).

Definition combine_and (left right : N) : MH (option N) :=
  tick BASE_ACTION_COST ;;; r <- out_combine AAnd left right ;; ret (Some r).
Definition combine_or (left right : N) : MH (option N) :=
  tick BASE_ACTION_COST ;;; r <- out_combine AOr left right ;; ret (Some r).

(** *** call-depth tracking *)
Definition track_call : MH unit :=
  h <- get_hs ;;
  if h_frames h =? 0 then trap else set_hs (with_frames h (h_frames h - 1)).
Definition track_return : MH unit :=
  h <- get_hs ;; set_hs (with_frames h (h_frames h + 1)).
(** [n] nested calls followed by their returns *)
Fixpoint nested_calls (n : nat) : MH unit :=
  match n with O => ret tt | S k => track_call ;;; nested_calls k ;;; track_return end.

(** *** `InterpreterEnergy::charge_memory_alloc` *)
Definition charge_memory_alloc (num_pages : N) : MH unit := tick (num_pages * MEMORY_COST_FACTOR).

(** *** dispatch (`Host::call` of InitHost / ReceiveHost) *)
Inductive v0fn : Type :=
| V0accept | V0simple_transfer | V0send | V0combine_and | V0combine_or
| V0get_parameter_size | V0get_parameter_section | V0get_policy_section | V0log_event
| V0load_state | V0write_state | V0resize_state | V0state_size
| V0get_init_origin | V0get_receive_invoker | V0get_receive_self_address
| V0get_receive_self_balance | V0get_receive_sender | V0get_receive_owner | V0get_slot_time.

Definition v0_receive_only (f : v0fn) : bool :=
  match f with
  | V0accept | V0simple_transfer | V0send | V0combine_and | V0combine_or
  | V0get_receive_invoker | V0get_receive_self_address | V0get_receive_self_balance
  | V0get_receive_sender | V0get_receive_owner => true
  | _ => false
  end.

(** parameter types of the imports (bounds of the popped values): I32 -> 2^32, I64 -> 2^64 *)
Definition sig0 (f : v0fn) : list N :=
  match f with
  | V0accept | V0get_parameter_size | V0state_size | V0get_receive_self_balance | V0get_slot_time => []
  | V0simple_transfer => [W32; W64]
  | V0send => [W64; W64; W32; W32; W64; W32; W32]
  | V0combine_and | V0combine_or | V0log_event => [W32; W32]
  | V0get_parameter_section | V0get_policy_section | V0load_state | V0write_state => [W32; W32; W32]
  | _ => [W32]
  end.

Definition call_v0_raw (f : v0fn) (args : list N) : MH (option N) :=
  match f, args with
  | V0accept, [] => accept
  | V0simple_transfer, [a; b] => simple_transfer a b
  | V0send, [a; b; c; d; e; f'; g] => send a b c d e f' g
  | V0combine_and, [l; r] => combine_and l r
  | V0combine_or, [l; r] => combine_or l r
  | V0get_parameter_size, [] => get_parameter_size
  | V0get_parameter_section, [a; b; c] => get_parameter_section a b c
  | V0get_policy_section, [a; b; c] => get_policy_section a b c
  | V0log_event, [a; b] => log_event a b
  | V0load_state, [a; b; c] => load_state a b c
  | V0write_state, [a; b; c] => write_state a b c
  | V0resize_state, [a] => resize_state a
  | V0state_size, [] => state_size
  | V0get_init_origin, [a] => get_init_origin a
  | V0get_receive_invoker, [a] => get_receive_invoker a
  | V0get_receive_self_address, [a] => get_receive_self_address a
  | V0get_receive_self_balance, [] => get_receive_self_balance
  | V0get_receive_sender, [a] => get_receive_sender a
  | V0get_receive_owner, [a] => get_receive_owner a
  | V0get_slot_time, [] => get_slot_time
  | _, _ => trap
  end.

Definition call_v0 (f : v0fn) (args : list N) : MH (option N) :=
  h <- get_hs ;;
  if h_init h && v0_receive_only f then trap                 (* "Not implemented for init" *)
  else if negb (h_init h) && match f with V0get_init_origin => true | _ => false end then trap
  else call_v0_raw f args.

End V0.
