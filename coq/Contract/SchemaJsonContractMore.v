(** * SchemaJsonContractMore — which of the harness's 26 contract-side Rust types are instances of the fragment
    [cty] of [SchemaJsonContract.v] (21 of them), and the contract-side encoding of three of the remaining five
    (Timestamp, Duration = u64 milliseconds; AccountAddress = 32 raw bytes) relative to the abstract text codecs. *)
From Coq Require Import NArith ZArith Bool List Lia.
From CB Require Import Contract.CcCodec Contract.CcTypes.
From CB Require Import Contract.SchemaJson Contract.SchemaJsonContract.
Import ListNotations.
Local Open Scope N_scope.

(** [SchemaType::get_type()] of the Rust types exercised by harness mode [contract], as fragment terms:
    u8 u16 u32 u64 u128 i8 i16 i32 i64 i128 bool Amount ContractAddress [u8;4] Vec<u16> Vec<Option<i8>> String
    Option<u64> BTreeSet<u32> BTreeMap<u8,i32> (u8,(bool,u64)) *)
Definition rust_types_in_fragment : list cty :=
  [CUint W8; CUint W16; CUint W32; CUint W64; CUint W128; CSint W8; CSint W16; CSint W32; CSint W64; CSint W128;
   CBool; CAmount; CContractAddress; CArray 4 (CUint W8); CList SL32 (CUint W16); CList SL32 (COption (CSint W8));
   CString SL32; COption (CUint W64); CSet SL32 (CUint W32); CMap SL32 (CUint W8) (CSint W32);
   CPair (CUint W8) (CPair CBool (CUint W64))].

Theorem rust_types_contract_encoding : forall (L : leaves) c, In c rust_types_in_fragment ->
  forall j bs, json_wf j = true -> from_json L (ty_of c) j = Some bs ->
  exists v, denote c j = Some v /\ wf (codec_of c) v /\ bs = enc (codec_of c) v.
Proof. intros L c _. apply bytes_are_contract_encoding_all. Qed.

(** Timestamp / Duration: the bytes are the u64 encoding of the milliseconds the text codec parses *)
Theorem timestamp_contract_encoding : forall (L : leaves) j bs, from_json L TTimestamp j = Some bs ->
  exists s m, j = JStr s /\ ts_parse L s = Some m /\ wf (c_uint 8) m /\ bs = enc (c_uint 8) m.
Proof.
  intros L j bs H. cbn [from_json] in H. destruct j; try discriminate.
  destruct (ts_parse L s) as [m|] eqn:E; [|discriminate].
  destruct (N.ltb_spec m (2 ^ 64)); [|discriminate]. injection H as <-.
  exists s, m. repeat split; auto; try (cbn [enc c_uint]; symmetry; apply le_bytes_le).
Qed.

Theorem duration_contract_encoding : forall (L : leaves) j bs, from_json L TDuration j = Some bs ->
  exists s m, j = JStr s /\ dur_parse L s = Some m /\ wf (c_uint 8) m /\ bs = enc (c_uint 8) m.
Proof.
  intros L j bs H. cbn [from_json] in H. destruct j; try discriminate.
  destruct (dur_parse L s) as [m|] eqn:E; [|discriminate].
  destruct (N.ltb_spec m (2 ^ 64)); [|discriminate]. injection H as <-.
  exists s, m. repeat split; auto; try (cbn [enc c_uint]; symmetry; apply le_bytes_le).
Qed.

(** AccountAddress: exactly the 32 bytes the text codec parses *)
Theorem account_contract_encoding : forall (L : leaves) j bs, from_json L TAccountAddress j = Some bs ->
  exists s, j = JStr s /\ acc_parse L s = Some bs /\ length bs = 32%nat.
Proof.
  intros L j bs H. cbn [from_json] in H. destruct j; try discriminate.
  destruct (acc_parse L s) as [a|] eqn:E; [|discriminate].
  destruct (N.eqb_spec (N.of_nat (length a)) 32); [|discriminate]. injection H as <-.
  exists s. repeat split; auto. lia.
Qed.
