(** * CcSchemaCodec — the binary form of schemas (schema.rs 522-1087, 1187-1217).

    [Serial]/[Deserial] of [SizeLength], [Type], [Fields], [FunctionV1], [FunctionV2],
    [ContractV0..V3], [ModuleV0..V3], [VersionedModuleSchema], and [VersionedModuleSchema::new].
    Definitions only.  Decoders recurse on explicit fuel; the entry points pass
    [S (length input)], which is never exhausted (every nested [Type] consumes its tag byte).

    [String] = u32 length + UTF-8 bytes (checked on decode); [Vec<T>] = u32 count + items;
    [Option<T>] = tag 0 / 1; [BTreeMap<K,V>] = u32 count + pairs in increasing key order, decoded
    WITHOUT an order check but rejecting duplicate keys ([deserial_map_no_length_no_order_check]). *)
From Coq Require Import NArith ZArith Bool List.
From CB Require Import Contract.SchemaJson.
Import ListNotations.
Local Open Scope N_scope.

(* ------------------------------------------------------------------ module-level AST *)
Inductive function_v1 :=
| F1Param (p : ty)
| F1Ret (r : ty)
| F1Both (p r : ty).
Record function_v2 := { f2_param : option ty; f2_ret : option ty; f2_err : option ty }.
Record contract_v0 := { c0_state : option ty; c0_init : option ty; c0_receive : list (str * ty) }.
Record contract_v1 := { c1_init : option function_v1; c1_receive : list (str * function_v1) }.
Record contract_v2 := { c2_init : option function_v2; c2_receive : list (str * function_v2) }.
Record contract_v3 := { c3_init : option function_v2; c3_receive : list (str * function_v2); c3_event : option ty }.
(** maps are association lists in strictly increasing key order (bytewise, as [String: Ord]) *)
Inductive module_schema :=
| MV0 (cs : list (str * contract_v0))
| MV1 (cs : list (str * contract_v1))
| MV2 (cs : list (str * contract_v2))
| MV3 (cs : list (str * contract_v3)).

(* ------------------------------------------------------------------ conversions between the mutual lists and [list] *)
Fixpoint nfields_to_list (l : nfields) : list (str * ty) :=
  match l with NFnil => [] | NFcons n t r => (n, t) :: nfields_to_list r end.
Fixpoint nfields_of_list (l : list (str * ty)) : nfields :=
  match l with [] => NFnil | (n, t) :: r => NFcons n t (nfields_of_list r) end.
Fixpoint tys_to_list (l : tys) : list ty :=
  match l with TSnil => [] | TScons t r => t :: tys_to_list r end.
Fixpoint tys_of_list (l : list ty) : tys :=
  match l with [] => TSnil | t :: r => TScons t (tys_of_list r) end.
Fixpoint variants_of_list (l : list (str * fields)) : variants :=
  match l with [] => Vnil | (n, f) :: r => Vcons n f (variants_of_list r) end.
Fixpoint tvariants_of_list (l : list (N * (str * fields))) : tvariants :=
  match l with [] => TVnil | (t, (n, f)) :: r => TVcons t n f (tvariants_of_list r) end.
Fixpoint tvariants_len (l : tvariants) : nat := match l with TVnil => O | TVcons _ _ _ r => S (tvariants_len r) end.

(* ------------------------------------------------------------------ encoders *)
Definition u32 (n : nat) : list N := le 4 (N.of_nat n mod 2 ^ 32).   (* [len() as u32] *)
Definition enc_str (s : str) : list N := u32 (length s) ++ s.
Definition enc_sl (s : size_len) : list N :=
  [match s with SL8 => 0 | SL16 => 1 | SL32 => 2 | SL64 => 3 end].
Definition enc_opt {A : Type} (e : A -> list N) (o : option A) : list N :=
  match o with None => [0] | Some a => 1 :: e a end.

Fixpoint enc_ty (t : ty) : list N :=
  match t with
  | TUnit => [0] | TBool => [1] | TU8 => [2] | TU16 => [3] | TU32 => [4] | TU64 => [5]
  | TI8 => [6] | TI16 => [7] | TI32 => [8] | TI64 => [9]
  | TAmount => [10] | TAccountAddress => [11] | TContractAddress => [12] | TTimestamp => [13] | TDuration => [14]
  | TPair a b => 15 :: enc_ty a ++ enc_ty b
  | TList s e => 16 :: enc_sl s ++ enc_ty e
  | TSet s e => 17 :: enc_sl s ++ enc_ty e
  | TMap s k v => 18 :: enc_sl s ++ enc_ty k ++ enc_ty v
  | TArray n e => 19 :: le 4 n ++ enc_ty e
  | TStruct f => 20 :: enc_fields f
  | TEnum vs => 21 :: u32 (variants_len vs) ++ enc_variants vs
  | TString s => 22 :: enc_sl s
  | TU128 => [23] | TI128 => [24]
  | TContractName s => 25 :: enc_sl s
  | TReceiveName s => 26 :: enc_sl s
  | TULeb128 c => 27 :: le 4 c
  | TILeb128 c => 28 :: le 4 c
  | TByteList s => 29 :: enc_sl s
  | TByteArray n => 30 :: le 4 n
  | TTaggedEnum vs => 31 :: u32 (tvariants_len vs) ++ enc_tvariants vs
  end
with enc_fields (f : fields) : list N :=
  match f with
  | FNamed l => 0 :: u32 (nfields_len l) ++ enc_nfields l
  | FUnnamed l => 1 :: u32 (tys_len l) ++ enc_tys l
  | FNone => [2]
  end
with enc_nfields (l : nfields) : list N :=
  match l with NFnil => [] | NFcons n t r => enc_str n ++ enc_ty t ++ enc_nfields r end
with enc_tys (l : tys) : list N :=
  match l with TSnil => [] | TScons t r => enc_ty t ++ enc_tys r end
with enc_variants (l : variants) : list N :=
  match l with Vnil => [] | Vcons n f r => enc_str n ++ enc_fields f ++ enc_variants r end
with enc_tvariants (l : tvariants) : list N :=
  match l with TVnil => [] | TVcons tag n f r => tag :: enc_str n ++ enc_fields f ++ enc_tvariants r end.

Definition enc_f1 (f : function_v1) : list N :=
  match f with
  | F1Param p => 0 :: enc_ty p
  | F1Ret r => 1 :: enc_ty r
  | F1Both p r => 2 :: enc_ty p ++ enc_ty r
  end.
Definition f2_tag (f : function_v2) : N :=
  match f2_param f, f2_ret f, f2_err f with
  | Some _, None, None => 0
  | None, Some _, None => 1
  | Some _, Some _, None => 2
  | None, None, Some _ => 3
  | Some _, None, Some _ => 4
  | None, Some _, Some _ => 5
  | Some _, Some _, Some _ => 6
  | None, None, None => 7
  end.
Definition enc_bare {A : Type} (e : A -> list N) (o : option A) : list N :=
  match o with None => [] | Some a => e a end.
Definition enc_f2 (f : function_v2) : list N :=
  f2_tag f :: enc_bare enc_ty (f2_param f) ++ enc_bare enc_ty (f2_ret f) ++ enc_bare enc_ty (f2_err f).

Definition enc_map {V : Type} (e : V -> list N) (m : list (str * V)) : list N :=
  u32 (length m) ++ flat_map (fun kv => enc_str (fst kv) ++ e (snd kv)) m.

Definition enc_c0 (c : contract_v0) : list N :=
  enc_opt enc_ty (c0_state c) ++ enc_opt enc_ty (c0_init c) ++ enc_map enc_ty (c0_receive c).
Definition enc_c1 (c : contract_v1) : list N := enc_opt enc_f1 (c1_init c) ++ enc_map enc_f1 (c1_receive c).
Definition enc_c2 (c : contract_v2) : list N := enc_opt enc_f2 (c2_init c) ++ enc_map enc_f2 (c2_receive c).
Definition enc_c3 (c : contract_v3) : list N :=
  enc_opt enc_f2 (c3_init c) ++ enc_map enc_f2 (c3_receive c) ++ enc_opt enc_ty (c3_event c).

(** without the version prefix ([ModuleVx::serial]) *)
Definition enc_module_body (m : module_schema) : list N :=
  match m with
  | MV0 cs => enc_map enc_c0 cs
  | MV1 cs => enc_map enc_c1 cs
  | MV2 cs => enc_map enc_c2 cs
  | MV3 cs => enc_map enc_c3 cs
  end.
Definition module_version (m : module_schema) : N :=
  match m with MV0 _ => 0 | MV1 _ => 1 | MV2 _ => 2 | MV3 _ => 3 end.
(** [VersionedModuleSchema::serial]: ff ff, version byte, module *)
Definition enc_versioned (m : module_schema) : list N :=
  255 :: 255 :: module_version m :: enc_module_body m.

(* ------------------------------------------------------------------ decoders *)
Definition dec_sl (bs : list N) : option (size_len * list N) :=
  match bs with
  | 0 :: r => Some (SL8, r) | 1 :: r => Some (SL16, r) | 2 :: r => Some (SL32, r) | 3 :: r => Some (SL64, r)
  | _ => None
  end.
Definition dec_str (bs : list N) : option (str * list N) := dec_string SL32 bs.
Definition dec_vec {A : Type} (item : list N -> option (A * list N)) (bs : list N) : option (list A * list N) :=
  match le_dec 4 bs with
  | Some (n, r) => dec_items item n r
  | None => None
  end.
Definition dec_opt {A : Type} (d : list N -> option (A * list N)) (bs : list N) : option (option A * list N) :=
  match bs with
  | 0 :: r => Some (None, r)
  | 1 :: r => match d r with Some (a, r') => Some (Some a, r') | None => None end
  | _ => None
  end.
Definition dec_pair {A B : Type} (da : list N -> option (A * list N)) (db : list N -> option (B * list N))
  (bs : list N) : option ((A * B) * list N) :=
  match da bs with
  | Some (a, r) => match db r with Some (b, r') => Some ((a, b), r') | None => None end
  | None => None
  end.
Definition with_sl {A : Type} (k : size_len -> A) (bs : list N) : option (A * list N) :=
  match dec_sl bs with Some (s, r) => Some (k s, r) | None => None end.

(** sorted association list from decoded pairs; a repeated key is an error; the order in the input
    does not matter (no order check in the implementation) *)
Fixpoint str_ltb (a b : str) : bool :=
  match a, b with
  | [], [] => false
  | [], _ :: _ => true
  | _ :: _, [] => false
  | x :: a', y :: b' => if x <? y then true else if y <? x then false else str_ltb a' b'
  end.
Fixpoint map_insert {K V : Type} (ltb : K -> K -> bool) (k : K) (v : V) (m : list (K * V)) : option (list (K * V)) :=
  match m with
  | [] => Some [(k, v)]
  | (k', v') :: r =>
      if ltb k k' then Some ((k, v) :: m)
      else if ltb k' k then match map_insert ltb k v r with Some r' => Some ((k', v') :: r') | None => None end
      else None
  end.
Fixpoint map_build {K V : Type} (ltb : K -> K -> bool) (l : list (K * V)) : option (list (K * V)) :=
  match l with
  | [] => Some []
  | (k, v) :: r => match map_build ltb r with Some m => map_insert ltb k v m | None => None end
  end.
Definition dec_map {V : Type} (d : list N -> option (V * list N)) (bs : list N) : option (list (str * V) * list N) :=
  match dec_vec (dec_pair dec_str d) bs with
  | Some (l, r) => match map_build str_ltb l with Some m => Some (m, r) | None => None end
  | None => None
  end.

Fixpoint dec_ty (fuel : nat) (bs : list N) {struct fuel} : option (ty * list N) :=
  match fuel with
  | O => None
  | S f =>
      match bs with
      | [] => None
      | tag :: r =>
          match tag with
          | 0 => Some (TUnit, r) | 1 => Some (TBool, r) | 2 => Some (TU8, r) | 3 => Some (TU16, r)
          | 4 => Some (TU32, r) | 5 => Some (TU64, r) | 6 => Some (TI8, r) | 7 => Some (TI16, r)
          | 8 => Some (TI32, r) | 9 => Some (TI64, r) | 10 => Some (TAmount, r)
          | 11 => Some (TAccountAddress, r) | 12 => Some (TContractAddress, r)
          | 13 => Some (TTimestamp, r) | 14 => Some (TDuration, r)
          | 15 => match dec_pair (dec_ty f) (dec_ty f) r with
                  | Some ((a, b), r') => Some (TPair a b, r') | None => None end
          | 16 => match dec_pair dec_sl (dec_ty f) r with
                  | Some ((s, e), r') => Some (TList s e, r') | None => None end
          | 17 => match dec_pair dec_sl (dec_ty f) r with
                  | Some ((s, e), r') => Some (TSet s e, r') | None => None end
          | 18 => match dec_pair dec_sl (dec_pair (dec_ty f) (dec_ty f)) r with
                  | Some ((s, (k, v)), r') => Some (TMap s k v, r') | None => None end
          | 19 => match dec_pair (le_dec 4) (dec_ty f) r with
                  | Some ((n, e), r') => Some (TArray n e, r') | None => None end
          | 20 => match dec_fields f r with Some (fs, r') => Some (TStruct fs, r') | None => None end
          | 21 => match dec_vec (dec_pair dec_str (dec_fields f)) r with
                  | Some (l, r') => Some (TEnum (variants_of_list l), r') | None => None end
          | 22 => with_sl TString r
          | 23 => Some (TU128, r) | 24 => Some (TI128, r)
          | 25 => with_sl TContractName r
          | 26 => with_sl TReceiveName r
          | 27 => match le_dec 4 r with Some (c, r') => Some (TULeb128 c, r') | None => None end
          | 28 => match le_dec 4 r with Some (c, r') => Some (TILeb128 c, r') | None => None end
          | 29 => with_sl TByteList r
          | 30 => match le_dec 4 r with Some (n, r') => Some (TByteArray n, r') | None => None end
          | 31 => match dec_vec (dec_pair (le_dec 1) (dec_pair dec_str (dec_fields f))) r with
                  | Some (l, r') => match map_build N.ltb l with
                                    | Some m => Some (TTaggedEnum (tvariants_of_list m), r')
                                    | None => None
                                    end
                  | None => None
                  end
          | _ => None
          end
      end
  end
with dec_fields (fuel : nat) (bs : list N) {struct fuel} : option (fields * list N) :=
  match fuel with
  | O => None
  | S f =>
      match bs with
      | 0 :: r => match dec_vec (dec_pair dec_str (dec_ty f)) r with
                  | Some (l, r') => Some (FNamed (nfields_of_list l), r') | None => None end
      | 1 :: r => match dec_vec (dec_ty f) r with
                  | Some (l, r') => Some (FUnnamed (tys_of_list l), r') | None => None end
      | 2 :: r => Some (FNone, r)
      | _ => None
      end
  end.

Definition dec_f1 (fuel : nat) (bs : list N) : option (function_v1 * list N) :=
  match bs with
  | 0 :: r => match dec_ty fuel r with Some (p, r') => Some (F1Param p, r') | None => None end
  | 1 :: r => match dec_ty fuel r with Some (p, r') => Some (F1Ret p, r') | None => None end
  | 2 :: r => match dec_pair (dec_ty fuel) (dec_ty fuel) r with
              | Some ((p, q), r') => Some (F1Both p q, r') | None => None end
  | _ => None
  end.
Definition dec_if {A : Type} (c : bool) (d : list N -> option (A * list N)) (bs : list N) : option (option A * list N) :=
  if c then match d bs with Some (a, r) => Some (Some a, r) | None => None end else Some (None, bs).
Definition mem (x : N) (l : list N) : bool := existsb (N.eqb x) l.
Definition dec_f2 (fuel : nat) (bs : list N) : option (function_v2 * list N) :=
  match bs with
  | idx :: r =>
      if 7 <? idx then None else
      match dec_if (mem idx [0; 2; 4; 6]) (dec_ty fuel) r with
      | Some (p, r1) =>
          match dec_if (mem idx [1; 2; 5; 6]) (dec_ty fuel) r1 with
          | Some (rv, r2) =>
              match dec_if (mem idx [3; 4; 5; 6]) (dec_ty fuel) r2 with
              | Some (e, r3) => Some ({| f2_param := p; f2_ret := rv; f2_err := e |}, r3)
              | None => None
              end
          | None => None
          end
      | None => None
      end
  | [] => None
  end.

Definition dec_c0 (fuel : nat) (bs : list N) : option (contract_v0 * list N) :=
  match dec_opt (dec_ty fuel) bs with
  | Some (st, r1) => match dec_opt (dec_ty fuel) r1 with
                     | Some (i, r2) => match dec_map (dec_ty fuel) r2 with
                                       | Some (rc, r3) => Some ({| c0_state := st; c0_init := i; c0_receive := rc |}, r3)
                                       | None => None
                                       end
                     | None => None
                     end
  | None => None
  end.
Definition dec_c1 (fuel : nat) (bs : list N) : option (contract_v1 * list N) :=
  match dec_opt (dec_f1 fuel) bs with
  | Some (i, r1) => match dec_map (dec_f1 fuel) r1 with
                    | Some (rc, r2) => Some ({| c1_init := i; c1_receive := rc |}, r2)
                    | None => None
                    end
  | None => None
  end.
Definition dec_c2 (fuel : nat) (bs : list N) : option (contract_v2 * list N) :=
  match dec_opt (dec_f2 fuel) bs with
  | Some (i, r1) => match dec_map (dec_f2 fuel) r1 with
                    | Some (rc, r2) => Some ({| c2_init := i; c2_receive := rc |}, r2)
                    | None => None
                    end
  | None => None
  end.
Definition dec_c3 (fuel : nat) (bs : list N) : option (contract_v3 * list N) :=
  match dec_opt (dec_f2 fuel) bs with
  | Some (i, r1) => match dec_map (dec_f2 fuel) r1 with
                    | Some (rc, r2) => match dec_opt (dec_ty fuel) r2 with
                                       | Some (ev, r3) => Some ({| c3_init := i; c3_receive := rc; c3_event := ev |}, r3)
                                       | None => None
                                       end
                    | None => None
                    end
  | None => None
  end.

Definition dec_module_body (fuel : nat) (version : N) (bs : list N) : option (module_schema * list N) :=
  match version with
  | 0 => match dec_map (dec_c0 fuel) bs with Some (cs, r) => Some (MV0 cs, r) | None => None end
  | 1 => match dec_map (dec_c1 fuel) bs with Some (cs, r) => Some (MV1 cs, r) | None => None end
  | 2 => match dec_map (dec_c2 fuel) bs with Some (cs, r) => Some (MV2 cs, r) | None => None end
  | 3 => match dec_map (dec_c3 fuel) bs with Some (cs, r) => Some (MV3 cs, r) | None => None end
  | _ => None
  end.
Definition dec_versioned (fuel : nat) (bs : list N) : option (module_schema * list N) :=
  match bs with
  | 255 :: 255 :: v :: r => dec_module_body fuel v r
  | _ => None
  end.

(** entry points: fuel = one more than the input length *)
Definition dec_ty_top (bs : list N) : option (ty * list N) := dec_ty (S (length bs)) bs.
Definition dec_f1_top (bs : list N) := dec_f1 (S (length bs)) bs.
Definition dec_f2_top (bs : list N) := dec_f2 (S (length bs)) bs.
Definition dec_versioned_top (bs : list N) := dec_versioned (S (length bs)) bs.
Definition dec_module_top (version : N) (bs : list N) := dec_module_body (S (length bs)) version bs.
(** [VersionedModuleSchema::new]: the version prefix wins; otherwise the caller's version is needed.
    ([from_bytes] does not require the input to be consumed.) *)
Definition schema_new (bs : list N) (version : option N) : option module_schema :=
  match dec_versioned_top bs with
  | Some (m, _) => Some m
  | None => match version with
            | Some v => match dec_module_top v bs with Some (m, _) => Some m | None => None end
            | None => None
            end
  end.
