(** * CcSchemaNew — [VersionedModuleSchema::new] (schema.rs:1187) as a dispatch with its three error kinds, on
    bytes with and without the version prefix.

    [from_bytes::<VersionedModuleSchema>] is tried first (prefix ff ff, version byte, module; trailing bytes are
    not an error); only when it fails does the caller's [schema_version] decide:
    [Some(0..3)] -> that module version's decoder (failure = ParseError), [Some(_)] -> InvalidSchemaVersion,
    [None] -> MissingSchemaVersion. *)
From Coq Require Import NArith ZArith Bool List Lia.
From CB Require Import Contract.SchemaJson Contract.CcSchemaCodec Contract.CcSchemaCodecProofs Contract.Base64 Contract.Base64Proofs.
Import ListNotations.
Local Open Scope N_scope.
Arguments N.add : simpl never.
Arguments N.mul : simpl never.
Arguments N.pow : simpl never.
Arguments N.div : simpl never.
Arguments N.modulo : simpl never.
Arguments N.eqb : simpl never.
Arguments N.ltb : simpl never.
Arguments N.leb : simpl never.
Arguments N.of_nat : simpl never.
#[local] Ltac Zify.zify_post_hook ::= Z.to_euclidean_division_equations.

Inductive new_error := NewParseError | NewMissingVersion | NewInvalidVersion.
Inductive new_result := NewOk (m : module_schema) | NewErr (e : new_error).

Definition schema_new_r (bs : list N) (version : option N) : new_result :=
  match dec_versioned_top bs with
  | Some (m, _) => NewOk m
  | None =>
      match version with
      | None => NewErr NewMissingVersion
      | Some v => if v <=? 3
                  then match dec_module_top v bs with
                       | Some (m, _) => NewOk m
                       | None => NewErr NewParseError
                       end
                  else NewErr NewInvalidVersion
      end
  end.

Definition contracts_count (m : module_schema) : nat :=
  match m with MV0 cs => length cs | MV1 cs => length cs | MV2 cs => length cs | MV3 cs => length cs end.

(** the unversioned bytes do not begin with the prefix ff ff: the low 16 bits of the contract count are not all set *)
Definition no_prefix_clash (m : module_schema) : Prop := N.of_nat (contracts_count m) mod 65536 <> 65535.

(** the option-valued [schema_new] of [CcSchemaCodec.v] is this dispatch without the error kinds *)
Theorem schema_new_r_ok : forall bs v m, schema_new_r bs v = NewOk m <-> schema_new bs v = Some m.
Proof.
  intros bs v m. unfold schema_new_r, schema_new.
  destruct (dec_versioned_top bs) as [[m' r]|].
  - split; intros H; inversion H; reflexivity.
  - destruct v as [v|]; [|split; discriminate].
    destruct (N.leb_spec v 3) as [Hle|Hgt].
    + destruct (dec_module_top v bs) as [[m' r]|]; split; intros H; inversion H; reflexivity.
    + split; [discriminate|].
      unfold dec_module_top, dec_module_body.
      destruct v as [|[[[]|[]|]|[[]|[]|]|]]; try lia; discriminate.
Qed.

(** total: one of the four outcomes, and which one is decided by the two decoders and the hint alone *)
Theorem schema_new_r_total : forall bs v,
  (exists m, schema_new_r bs v = NewOk m) \/ schema_new_r bs v = NewErr NewParseError \/
  schema_new_r bs v = NewErr NewMissingVersion \/ schema_new_r bs v = NewErr NewInvalidVersion.
Proof.
  intros bs v. destruct (schema_new_r bs v) as [m|[]]; eauto.
Qed.

Theorem schema_new_r_errors : forall bs v,
  (schema_new_r bs v = NewErr NewMissingVersion <-> dec_versioned_top bs = None /\ v = None) /\
  (schema_new_r bs v = NewErr NewInvalidVersion <-> dec_versioned_top bs = None /\ exists x, v = Some x /\ 3 < x) /\
  (schema_new_r bs v = NewErr NewParseError <->
     dec_versioned_top bs = None /\ exists x, v = Some x /\ x <= 3 /\ dec_module_top x bs = None).
Proof.
  intros bs v. unfold schema_new_r.
  destruct (dec_versioned_top bs) as [[m r]|].
  { repeat split; try discriminate; intros [H _]; discriminate. }
  destruct v as [x|].
  - destruct (N.leb_spec x 3).
    + destruct (dec_module_top x bs) as [[m r]|] eqn:E; repeat split; try discriminate;
        try (intros [_ H']; try discriminate; destruct H' as [y [Hy Hy']]; inversion Hy; subst; try lia;
             destruct Hy' as [_ Hy']; congruence).
      exists x. auto.
    + repeat split; try discriminate;
        try (intros [_ H']; try discriminate; destruct H' as [y [Hy Hy']]; inversion Hy; subst; lia).
      exists x. auto.
  - repeat split; try discriminate; intros [_ [y [Hy _]]]; discriminate.
Qed.

(** with the prefix: the hint is irrelevant, trailing bytes are ignored *)
Theorem schema_new_r_versioned : forall m rest v, cwf_module m = true ->
  schema_new_r (enc_versioned m ++ rest) v = NewOk m.
Proof.
  intros m rest v Hw. unfold schema_new_r. rewrite enc_dec_versioned_top by auto. reflexivity.
Qed.

Lemma le4_prefix : forall n, exists a b, le 4 n = n mod 256 :: (n / 256) mod 256 :: a :: b.
Proof. intros n. cbn [le]. do 2 eexists. reflexivity. Qed.

Lemma body_not_versioned : forall m rest, cwf_module m = true -> no_prefix_clash m ->
  dec_versioned_top (enc_module_body m ++ rest) = None.
Proof.
  intros m rest Hw Hc. unfold dec_versioned_top.
  assert (Hb : exists k tl, enc_module_body m = u32 k ++ tl /\ k = contracts_count m).
  { destruct m as [cs|cs|cs|cs]; cbn [enc_module_body contracts_count]; unfold enc_map; eauto. }
  destruct Hb as [k [tl [-> ->]]]. unfold no_prefix_clash in Hc.
  assert (Hl : N.of_nat (contracts_count m) < 2 ^ 32).
  { destruct m as [cs|cs|cs|cs]; cbn [cwf_module contracts_count] in *; unfold cwf_map in Hw;
      apply andb_true_iff in Hw; destruct Hw as [Hw _]; apply andb_true_iff in Hw; destruct Hw as [Hw _];
      unfold len_ok in Hw; apply N.ltb_lt in Hw; exact Hw. }
  unfold u32. rewrite N.mod_small by exact Hl.
  remember (N.of_nat (contracts_count m)) as n.
  destruct (le4_prefix n) as [a [b ->]]. cbn [app dec_versioned].
  remember (n mod 256) as x. remember ((n / 256) mod 256) as y.
  assert (Hxy : ~ (x = 255 /\ y = 255)) by (subst x y; lia).
  clear - Hxy.
  destruct (N.eq_dec x 255) as [->|Hx].
  - destruct (N.eq_dec y 255) as [->|Hy]; [tauto|].
    destruct y as [|[[[[[[[[]|[]|]|[]|]|[]|]|[]|]|[]|]|[]|]|[]|]]; try reflexivity; congruence.
  - destruct x as [|[[[[[[[[]|[]|]|[]|]|[]|]|[]|]|[]|]|[]|]|[]|]]; try reflexivity; congruence.
Qed.

(** without the prefix: the right hint gives the module, no hint / a hint above 3 the two specific errors *)
Theorem schema_new_r_unversioned : forall m rest, cwf_module m = true -> no_prefix_clash m ->
  schema_new_r (enc_module_body m ++ rest) (Some (module_version m)) = NewOk m /\
  schema_new_r (enc_module_body m ++ rest) None = NewErr NewMissingVersion /\
  (forall v, 3 < v -> schema_new_r (enc_module_body m ++ rest) (Some v) = NewErr NewInvalidVersion).
Proof.
  intros m rest Hw Hc. unfold schema_new_r. rewrite body_not_versioned by auto.
  repeat split.
  - assert (Hv : module_version m <=? 3 = true) by (destruct m; reflexivity).
    rewrite Hv. rewrite enc_dec_module_top by auto. reflexivity.
  - intros v Hv. destruct (N.leb_spec v 3); [lia|reflexivity].
Qed.

(** consistency of the two forms: same result  <=>  same schema *)
Theorem schema_new_forms_agree : forall m1 m2 hint r1 r2,
  cwf_module m1 = true -> cwf_module m2 = true -> no_prefix_clash m1 ->
  (schema_new_r (enc_module_body m1 ++ r1) (Some (module_version m1)) = schema_new_r (enc_versioned m2 ++ r2) hint
   <-> m1 = m2).
Proof.
  intros m1 m2 hint r1 r2 H1 H2 Hc.
  destruct (schema_new_r_unversioned m1 r1 H1 Hc) as [-> _].
  rewrite schema_new_r_versioned by auto. split; [intros H; inversion H; reflexivity|intros ->; reflexivity].
Qed.

(** the hint is needed: the bytes without prefix do not determine the version *)
Theorem unversioned_bytes_ambiguous :
  enc_module_body (MV0 []) = enc_module_body (MV1 []) /\ MV0 [] <> MV1 [] /\
  schema_new_r (enc_module_body (MV0 [])) (Some 1) = NewOk (MV1 []).
Proof. repeat split; try discriminate; reflexivity. Qed.

(** ... but bytes and version together do *)
Theorem unversioned_injective : forall m1 m2, cwf_module m1 = true -> cwf_module m2 = true ->
  module_version m1 = module_version m2 -> enc_module_body m1 = enc_module_body m2 -> m1 = m2.
Proof.
  intros m1 m2 H1 H2 Hv He.
  pose proof (enc_dec_module_top m1 [] H1) as A. pose proof (enc_dec_module_top m2 [] H2) as B.
  rewrite Hv, He in A. rewrite A in B. inversion B. reflexivity.
Qed.

(** [from_base64_str]: base64 (no padding) then the versioned decoder *)
Definition schema_from_base64 (s : list N) : option module_schema :=
  match b64_decode s with
  | Some bytes => match dec_versioned_top bytes with Some (m, _) => Some m | None => None end
  | None => None
  end.

Theorem schema_b64_roundtrip : forall m, cwf_module m = true -> b64_bytes_ok (enc_versioned m) = true ->
  exists bytes, b64_decode (b64_encode (enc_versioned m)) = Some bytes /\ dec_versioned_top bytes = Some (m, []).
Proof.
  intros m Hw Hb. exists (enc_versioned m). split; [apply b64_decode_encode; auto|].
  pose proof (enc_dec_versioned_top m [] Hw) as H. rewrite app_nil_r in H. exact H.
Qed.

(** executable probe for the correspondence run: result kind and the module re-encoded with prefix *)
Definition new_probe (bs : list N) (v : option N) : N * list N :=
  match schema_new_r bs v with
  | NewOk m => (0, enc_versioned m)
  | NewErr NewParseError => (1, [])
  | NewErr NewMissingVersion => (2, [])
  | NewErr NewInvalidVersion => (3, [])
  end.
