(** C16 - executable model of the arithmetic on [Amount], [Duration], [Timestamp] and of
    the [ExchangeRates] conversions in contracts-common types.rs.  Values are [N] below
    [W64]; [None] is the [None] of the Rust function; [quotient_remainder] and the
    conversions use unchecked operators, their panics are the outcome [None] too (named
    explicitly).  Definitions only. *)
From Coq Require Import NArith List Bool.
Local Open Scope N_scope.

Definition W64 : N := 18446744073709551616.
Definition W128 : N := 340282366920938463463374607431768211456.

(** [u64::checked_add], [u64::checked_sub] *)
Definition checked_add (x y : N) : option N := if x + y <? W64 then Some (x + y) else None.
Definition checked_sub (x y : N) : option N := if y <=? x then Some (x - y) else None.

(** [Amount::checked_add/checked_sub], [Duration::checked_add/checked_sub],
    [Timestamp::checked_add/checked_sub] (a duration is added to / subtracted from the
    milliseconds) are all the [u64] operation on the wrapped number. *)
Definition amount_checked_add := checked_add.
Definition amount_checked_sub := checked_sub.
Definition duration_checked_add := checked_add.
Definition duration_checked_sub := checked_sub.
Definition timestamp_checked_add := checked_add.
Definition timestamp_checked_sub := checked_sub.

(** [Timestamp::duration_since] and [duration_between] *)
Definition duration_since (t before : N) : option N := checked_sub t before.
Definition duration_between (t other : N) : N := if other <=? t then t - other else other - t.

(** [Amount::quotient_remainder]; [None] = division by zero panic *)
Definition quotient_remainder (x d : N) : option (N * N) :=
  if d =? 0 then None else Some (x / d, x mod d).

(** the plain operators: [None] = overflow panic in a build with overflow checks *)
Definition add_or_panic (x y : N) : option N := checked_add x y.
Definition sub_or_panic (x y : N) : option N := checked_sub x y.
Definition mul_or_panic (x y : N) : option N := if x * y <? W64 then Some (x * y) else None.

(** [ExchangeRates::convert_euro_cent_to_amount]: u128 arithmetic (cannot overflow),
    result truncated by [as u64] *)
Definition convert_euro_cent_to_amount (num den cents : N) : option N :=
  if den =? 0 then None else Some ((num * cents / (den * 100)) mod W64).
(** [convert_amount_to_euro_cent]: [micro_ccd * 100 * denominator] in u128; [None] =
    overflow / division-by-zero panic *)
Definition convert_amount_to_euro_cent (num den micro : N) : option N :=
  if num =? 0 then None
  else if micro * 100 * den <? W128 then Some ((micro * 100 * den / num) mod W64) else None.
