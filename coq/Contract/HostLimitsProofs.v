(** C14 - limit invariants, charge-before-work, call depth and result encodings. *)
From Coq Require Import NArith List Bool Lia.
From CB Require Import Gen.HostCosts Contract.HostBase Contract.HostBaseProofs Contract.HostV0
  Contract.HostV0Proofs Contract.HostV1 Contract.HostV1Proofs.
Import ListNotations.
Local Open Scope N_scope.

Ltac arith_close :=
  cbn [negb andb orb] in *; bool_hyps; prim_facts; autorewrite with lenN in *;
  cbv [MAX_CONTRACT_STATE W32 W64 MAX_LOG_SIZE MAX_NUM_LOGS MAX_ENTRY_SIZE MAX_KEY_SIZE N.shiftl Pos.shiftl Pos.iter] in *;
  u32_facts; cbv [W32] in *; lia.

Ltac proj_red :=
  cbv beta iota zeta delta [fst snd hs HostV0.h_state HostV0.h_logs HostV0.h_limit HostV0.h_ext HostV0.h_frames
                            with_state with_logs with_actions with_frames with_balance with_ext
                            HostV1.x_rv HostV1.x_is HostV1.is_entries HostV1.x_entrypoint] in *.

(** ** Legacy state never exceeds 16 KiB *)
Section V0.
Context {X : Type}.
Notation S0 := (st (host X)).

Ltac dst0 s := destruct s as [e0 m0 ev0 h0]; destruct h0.

Theorem call_v0_state_ok : forall f args (s : S0), state_ok s -> state_ok (fst (call_v0 f args s)).
Proof.
  intros f args s H. dst0 s. unfold state_ok in *. cbn [hs HostV0.h_state] in H.
  unfold call_v0. destruct f; split_args args; cbn [call_v0_raw]; unfold_v0;
    mstep; proj_red; first [assumption | arith_close].
Qed.

(** ** Logs: at most 64 per execution segment while limits are on; each at most 512 bytes *)
Definition logs_ok (s : S0) : Prop :=
  (h_limit (hs s) = true -> lenN (h_logs (hs s)) <= 64)
  /\ Forall (fun e => lenN e <= 512) (h_logs (hs s)).

Lemma logs_ok_push : forall (logs : list (list N)) ev,
  Forall (fun e => lenN e <= 512) logs -> lenN ev <= 512 -> Forall (fun e => lenN e <= 512) (logs ++ [ev]).
Proof. intros. apply Forall_app. split; [assumption|]. constructor; [assumption|constructor]. Qed.

Theorem call_v0_logs_ok : forall f args (s : S0), logs_ok s -> logs_ok (fst (call_v0 f args s)).
Proof.
  intros f args s [H1 H2]. dst0 s. unfold logs_ok in *. cbn [hs HostV0.h_logs HostV0.h_limit] in H1, H2.
  unfold call_v0. destruct f; split_args args; cbn [call_v0_raw]; unfold_v0;
    mstep; proj_red; (split; [try assumption; intros Hl; try specialize (H1 Hl); try subst; try discriminate; try arith_close
                             | try assumption; try (apply logs_ok_push; [assumption | arith_close])]).
Qed.

(** ** send: the parameter obeys max_parameter_size *)
Theorem send_param_limit : forall a b c d e f g (s s' : S0) r,
  send a b c d e f g s = (s', Ok r) ->
  exists acts name param, h_actions (hs s') = acts ++ [ASend a b name e param] /\ lenN param <= h_maxparam (hs s).
Proof.
  intros a b c d e f g s s' r. dst0 s. unfold send, out_send, push_action. mstep; intros [= <- <-]; try discriminate.
  all: cbv beta iota zeta delta [hs HostV0.h_actions HostV0.h_maxparam with_actions] in *.
  all: eexists _, _, _; split; [reflexivity|]. all: arith_close.
Qed.

(** ** call depth *)
Lemma track_call_eq : forall s : S0,
  track_call s = if h_frames (hs s) =? 0 then (s, Trap)
                 else (mkSt (energy s) (mem s) (evs s) (with_frames (hs s) (h_frames (hs s) - 1)), Ok tt).
Proof. intros. unfold track_call, bind, get_hs, trap, set_hs. destruct (h_frames (hs s) =? 0); reflexivity. Qed.
Lemma track_return_eq : forall s : S0,
  track_return s = (mkSt (energy s) (mem s) (evs s) (with_frames (hs s) (h_frames (hs s) + 1)), Ok tt).
Proof. intros. reflexivity. Qed.
Lemma frames_with_frames : forall (h : host X) f, h_frames (with_frames h f) = f.
Proof. intros. destruct h. reflexivity. Qed.

Lemma nested_calls_spec : forall n (s : S0),
  (N.of_nat n <= h_frames (hs s) ->
     exists s', nested_calls n s = (s', Ok tt) /\ h_frames (hs s') = h_frames (hs s))
  /\ (h_frames (hs s) < N.of_nat n -> exists s', nested_calls n s = (s', Trap)).
Proof.
  induction n as [|n IH]; intros s.
  - split; [intros _; exists s; split; reflexivity | lia].
  - cbn [nested_calls]. unfold bind. rewrite track_call_eq.
    destruct (N.eqb_spec (h_frames (hs s)) 0) as [E|E].
    + split; [lia|]. intros _. eexists. reflexivity.
    + set (s1 := {| energy := energy s; mem := mem s; evs := evs s; hs := with_frames (hs s) (h_frames (hs s) - 1) |}).
      assert (Hf : h_frames (hs s1) = h_frames (hs s) - 1) by (unfold s1; cbn [hs]; apply frames_with_frames).
      destruct (IH s1) as [IH1 IH2]. split.
      * intros Hle. destruct IH1 as [s2 [E2 F2]]; [rewrite Hf; lia|].
        rewrite E2, track_return_eq. eexists. split; [reflexivity|].
        cbn [hs]. rewrite frames_with_frames. lia.
      * intros Hlt. destruct IH2 as [s2 E2]; [rewrite Hf; lia|].
        rewrite E2. eexists. reflexivity.
Qed.

End V0.

(** ** v1: return value limit, entry size limit are invariant *)
Lemma entry_ok_set : forall es id k v, Forall entry_ok es -> lenN v <= 1073741824 ->
  Forall entry_ok (setnthN id (mkEntry k (Some v) true) es).
Proof. intros. apply setnthN_Forall; [assumption|]. unfold entry_ok. cbn. assumption. Qed.
Lemma entry_ok_del : forall es id k, Forall entry_ok es -> Forall entry_ok (setnthN id (mkEntry k None true) es).
Proof. intros. apply setnthN_Forall; [assumption|]. unfold entry_ok. cbn. exact I. Qed.
Lemma entry_ok_app : forall es k, Forall entry_ok es -> Forall entry_ok (es ++ [mkEntry k (Some []) true]).
Proof. intros. apply Forall_app. split; [assumption|]. constructor; [|constructor]. unfold entry_ok. cbn. lia. Qed.
Lemma entry_ok_map : forall es key, Forall entry_ok es ->
  Forall entry_ok (map (fun e => if is_prefix key (e_key e) then mkEntry (e_key e) None true else e) es).
Proof.
  intros es key H. induction H; cbn [map]; constructor; auto.
  destruct (is_prefix key (e_key x)); [exact I | assumption].
Qed.

Ltac proj_red1 :=
  cbv beta iota zeta delta [fst snd hs HostV0.h_state HostV0.h_logs HostV0.h_limit HostV0.h_ext HostV0.h_frames
                            with_state with_logs with_actions with_frames with_balance with_ext
                            HostV1.x_rv HostV1.x_is HostV1.is_entries HostV1.x_entrypoint
                            with_is with_rv with_params with_hash with_flags with_exp is_set_changed is_with_entries
                            is_push_handle] in *.

Ltac entries_close :=
  repeat first [ assumption | apply entry_ok_del | apply entry_ok_app | apply entry_ok_map
               | (apply entry_ok_set; [| live_facts; arith_close]) ].

Theorem call_v1_v1_ok : forall f args (s : st H1), v1_ok s -> v1_ok (fst (call_v1 f args s)).
Proof.
  intros f args s (Hrv & Hent & Hep). dst s. unfold v1_ok in *.
  cbn [hs HostV0.h_limit HostV0.h_ext HostV1.x_rv HostV1.x_is HostV1.is_entries HostV1.x_entrypoint] in Hrv, Hent, Hep.
  unfold call_v1. destruct f; split_args args; cbn [call_v1_raw]; unfold_v1; unfold_v0;
    mstep1; proj_red1;
    (split; [| split];
      [ try assumption; intros Hl; try specialize (Hrv Hl); try assumption;
        repeat (match goal with H : context [if ?c then _ else _] |- _ => destruct c eqn:? end); try discriminate; try arith_close
      | entries_close
      | assumption ]).
Qed.

Theorem call_v1_logs_ok : forall f args (s : st H1), logs_ok s -> logs_ok (fst (call_v1 f args s)).
Proof.
  intros f args s [H1 H2]. dst s. unfold logs_ok in *. cbn [hs HostV0.h_logs HostV0.h_limit] in H1, H2.
  unfold call_v1. destruct f; split_args args; cbn [call_v1_raw]; unfold_v1; unfold_v0;
    mstep1; proj_red1;
    (split; [try assumption; intros Hl; try specialize (H1 Hl); try subst; try discriminate; try arith_close
            | try assumption; try (apply logs_ok_push; [assumption | arith_close])]).
Qed.
