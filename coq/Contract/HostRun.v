(** C14 - script runner: the Gallina counterpart of the modules the harness assembles.
    A script is a list of host calls whose arguments are constants or values loaded from earlier
    result slots (slot i = memory bytes [8i, 8i+8)); each result is stored into its slot.
    Interrupts of v1 `invoke`/`upgrade` are answered by scripted responses.  Definitions only. *)
From Coq Require Import NArith List Bool.
From CB Require Import Gen.HostCosts Contract.HostBase Contract.HostV0 Contract.HostV1.
Import ListNotations.
Local Open Scope N_scope.

Inductive arg : Type := AC (v : N) | AS32 (slot : N) | AS64 (slot : N).
Inductive fnid : Type := F0 (f : v0fn) | F1 (f : v1fn).
Record call : Type := mkCall { c_fn : fnid; c_args : list arg; c_rw : N }.   (* result width 0/4/8 *)

Definition eval_arg (a : arg) : M1 N :=
  match a with
  | AC v => ret v
  | AS32 k => bs <- mslice (8 * k) (8 * k + 4) ;; ret (le_val bs)
  | AS64 k => bs <- mslice (8 * k) (8 * k + 8) ;; ret (le_val bs)
  end.
Fixpoint eval_args (l : list arg) : M1 (list N) :=
  match l with
  | [] => ret []
  | a :: t => v <- eval_arg a ;; vs <- eval_args t ;; ret (v :: vs)
  end.

Record racc : Type := mkAcc {
  ra_ints : list (list N);            (* serialised interrupts, chronological *)
  ra_segs : list (list (list N));     (* log segments returned with each interrupt *)
  ra_changed : list bool;
  ra_nested : list (N * N * bool) }.  (* class, remaining energy, lower-bound flag of nested runs *)

(** What the environment does while a contract is interrupted. *)
Record nested : Type := mkNested {    (* a re-entrant call on a fresh generation of the same state *)
  n_param : list N; n_data : list (N * list N); n_calls : list call; n_ret : N;
  n_commit : bool; n_energy : N }.
Record rsp : Type := mkRsp {
  r_resp : response;
  r_setlock : option (list N * N);    (* verification hook: set the reference count of a lock *)
  r_pad : N;                          (* verification hook: pad the parameter list to this length *)
  r_nested : option nested }.

Definition default_response : response := RespOk 2387225703656530728 None false.
Definition default_rsp : rsp := mkRsp default_response None 0 None.

Definition store_result (i w v : N) : M1 unit :=
  if w =? 0 then ret tt else mstore (8 * i) (le_bytes (N.to_nat w) v).

Fixpoint apply_data (m : memory) (segs : list (N * list N)) : memory :=
  match segs with
  | [] => m
  | (off, bs) :: t => match mem_store m off bs with Some m' => apply_data m' t | None => apply_data m t end
  end.

(** calls of a nested run: an interrupt inside it is not handled (treated as failure) *)
Fixpoint run_calls_inner (calls : list call) (i : N) : M1 unit :=
  match calls with
  | [] => ret tt
  | c :: rest =>
      args <- eval_args (c_args c) ;;
      r <- match c_fn c with
           | F0 f => val (call_v0 f args)
           | F1 f => call_v1 f args
           end ;;
      match r with
      | HVal None => run_calls_inner rest (i + 1)
      | HVal (Some v) => store_result i (c_rw c) v ;;; run_calls_inner rest (i + 1)
      | HInt _ => trap
      end
  end.

Definition set_upd (r : response) (u : bool) : response :=
  match r with RespOk b d _ => RespOk b d u | RespReject c d _ => RespReject c d u | RespFail n _ => RespFail n u end.

(** `make_fresh_generation`: every entry is read-only (not owned) in the new generation, which has
    no handles, iterators or locks of its own *)
Definition fresh_generation (s : istate) : istate :=
  mkIS 0 (map (fun e => mkEntry (e_key e) (e_val e) false) (is_entries s)) [] [] [] false.

(** run the nested call; on success with [n_commit] the outer state continues on the nested
    generation (entries and locks of the nested run), otherwise it is rolled back *)
Definition exec_nested (n : nested) : M1 (bool * (N * N * bool)) :=
  fun s =>
    let h := hs s in
    let x := h_ext h in
    let ih := with_ext (with_balance (with_actions (with_logs (with_state h []) []) []) (h_balance h))
                (mkExt [] [n_param n] (fresh_generation (x_is x)) (x_rp x) (x_entrypoint x) [] [] false false []) in
    let ih := mkHost false [] [] [] (n_param n) (h_policy h) (h_limit h) (h_maxparam h) MAX_ACTIVATION_FRAMES
                (h_slot_time h) (h_origin h) (h_invoker h) (h_owner h) (h_self_index h) (h_self_sub h)
                (h_balance h) (h_sender h) (h_ext ih) in
    let '(s', r) := (charge_memory_alloc 1 ;;; run_calls_inner (n_calls n) 0)
                      (mkSt (n_energy n) (apply_data (mkMem 65536 []) (n_data n)) [] ih) in
    let cls := match r with
               | Ok _ => if 2147483648 <=? n_ret n then 1 else 0
               | Trap => 2 | OutOfEnergy => 3 | Fault => 5 end in
    let ix := h_ext (hs s') in
    let res := (cls, energy s', x_lower ix) in
    if (cls =? 0) && n_commit n then
      let is0 := x_is x in
      let is1 := x_is ix in
      (* the outer execution continues on the nested generation: its expanded nodes are the nested run's *)
      let x' := with_exp (with_is x (mkIS (is_gen is0) (is_entries is1) (is_emap is0) (is_iters is0) (is_locks is1) (is_changed is0)))
                         (x_exp ix) in
      (mkSt (energy s) (mem s) (evs s) (with_ext h x'), Ok (true, res))
    else (s, Ok (false, res)).

Definition apply_hooks (r : rsp) : M1 unit :=
  x <- get_x ;;
  let s := x_is x in
  let s' := match r_setlock r with
            | Some (k, c) => mkIS (is_gen s) (is_entries s) (is_emap s) (is_iters s) (lock_set k c (is_locks s)) (is_changed s)
            | None => s end in
  (* a lock count forced to 0 unlocks the subtree of a live iterator: its walk is then outside the model *)
  let x1 := match r_setlock r with
            | Some (_, 0) => with_flags x (x_unspec x) true
            | _ => x end in
  set_x (with_is x1 s').
Definition apply_pad (r : rsp) : M1 unit :=
  x <- get_x ;;
  let len := lenN (x_params x) in
  if len <? r_pad r then set_x (with_params x (x_params x ++ N.iter (r_pad r - len) (cons []) [])) else ret tt.

Fixpoint run_calls (calls : list call) (i : N) (resps : list rsp) (acc : racc) : M1 racc :=
  match calls with
  | [] => ret acc
  | c :: rest =>
      args <- eval_args (c_args c) ;;
      r <- match c_fn c with
           | F0 f => val (call_v0 f args)
           | F1 f => call_v1 f args
           end ;;
      match r with
      | HVal None => run_calls rest (i + 1) resps acc
      | HVal (Some v) => store_result i (c_rw c) v ;;; run_calls rest (i + 1) resps acc
      | HInt int =>
          h <- get_hs ;;
          let seg := if i_clear int then h_logs h else [] in
          (if i_clear int then set_hs (with_logs h []) else ret tt) ;;;
          s <- get_is ;;
          let rs := match resps with r :: _ => r | [] => default_rsp end in
          apply_hooks rs ;;;
          nres <- match r_nested rs with
                  | Some n => x <- exec_nested n ;; ret (Some x)
                  | None => ret None
                  end ;;
          apply_pad rs ;;;
          let resp := match nres with Some (u, _) => set_upd (r_resp rs) u | None => r_resp rs end in
          let acc' := mkAcc (ra_ints acc ++ [i_bytes int]) (ra_segs acc ++ [seg])
                            (ra_changed acc ++ [is_changed s])
                            (ra_nested acc ++ match nres with Some (_, x) => [x] | None => [] end) in
          v <- resume resp ;;
          store_result i 8 v ;;;
          run_calls rest (i + 1) (tl resps) acc'
      end
  end.

(** arithmetic byte runs: a compact way for the check to write long patterned inputs *)
Definition runN (n s d : N) : list N :=
  rev_append (snd (N.iter n (fun ca => (let c := fst ca + d mod 256 in if c <? 256 then c else c - 256, fst ca :: snd ca))
                          (s mod 256, []))) [].

(** *** initial configuration *)
Definition addr_bytes (base : N) : list N := map (fun i => base + N.of_nat i) (seq 0 32).

Record script : Type := mkScript {
  s_ver1 : bool; s_init : bool; s_pv : N; s_pages : N;
  s_param : list N; s_policy : list N; s_sender_acc : bool;
  s_state0 : list N; s_kv0 : list (list N * list N);
  s_data : list (N * list N);
  s_calls : list call; s_ret : N;                    (* return code as u32 bit pattern *)
  s_resps : list rsp; s_digests : list (list N) }.

Definition sender_bytes (acc : bool) : list N :=
  if acc then 0 :: addr_bytes 112
  else 1 :: le_bytes 8 578437695752307201 ++ le_bytes 8 1735880461161533969.

Definition init_host (sc : script) : H1 :=
  mkHost (s_init sc)
         (if s_init sc then [] else s_state0 sc) [] []
         (s_param sc) (s_policy sc)
         (s_pv sc =? 4) (if s_pv sc =? 4 then 1024 else 65535)
         MAX_ACTIVATION_FRAMES
         72623859790382856                               (* slot time 0x0102030405060708 *)
         (addr_bytes 16) (addr_bytes 48) (addr_bytes 80)
         72623859790382856 1230066625199609624 2387509390608836392
         (sender_bytes (s_sender_acc sc))
         (mkExt [] [s_param sc]
                (mkIS 0 (if s_init sc then [] else map (fun kv => mkEntry (fst kv) (Some (snd kv)) false) (s_kv0 sc))
                      [] [] [] false)
                (rparams_of (s_pv sc)) [114; 101; 99; 118] (s_digests sc) [] false false []).

Definition init_st (sc : script) (e : N) : st H1 :=
  mkSt e (apply_data (mkMem (s_pages sc * 65536) []) (s_data sc)) [] (init_host sc).

Definition run_body (sc : script) : M1 racc :=
  charge_memory_alloc (s_pages sc) ;;;
  run_calls (s_calls sc) 0 (s_resps sc) (mkAcc [] [] [] []).

(** *** outcome *)
Record outcome : Type := mkOut {
  o_class : N;          (* 0 success, 1 reject, 2 trap, 3 out of energy, 4 invalid return, 5 FAULT *)
  o_code : N;
  o_rem : N;
  o_state : list N;
  o_kv : list (list N * list N);
  o_logs : list (list (list N));
  o_rv : list N;
  o_actions : list action;
  o_ints : list (list N);
  o_changed : list bool;
  o_hashes : list (N * list N);
  o_unspec : bool; o_lower : bool;
  o_nested : list (N * N * bool);
  o_events : list event }.

Definition live_kv (s : istate) : list (list N * list N) :=
  map (fun ki => match nthN (snd ki) (is_entries s) with
                 | Some e => (fst ki, match e_val e with Some v => v | None => [] end)
                 | None => (fst ki, [])
                 end)
      (live_with_prefix [] (is_entries s) 0).

Definition classify (sc : script) (h : H1) : N :=
  let n := s_ret sc in
  let neg := 2147483648 <=? n in
  if s_ver1 sc then
    if s_init sc then (if n =? 0 then 0 else if neg then 1 else 4)
    else (if neg then 1 else 0)
  else
    if s_init sc then (if n =? 0 then 0 else if neg then 1 else 2)
    else (if neg then 1 else if n <? lenN (h_actions h) then 0 else 2).

Definition run_script (sc : script) (e : N) : outcome :=
  let '(s, r) := run_body sc (init_st sc e) in
  let h := hs s in
  let x := h_ext h in
  let mk cls acc :=
    mkOut cls (s_ret sc) (energy s) (h_state h) (live_kv (x_is x))
          (ra_segs acc ++ [h_logs h]) (x_rv x)
          (if s_ver1 sc then [] else firstnN (s_ret sc + 1) (h_actions h))
          (ra_ints acc) (ra_changed acc ++ [is_changed (x_is x)])
          (rev (x_hashlog x)) (x_unspec x) (x_lower x) (ra_nested acc) (rev (evs s)) in
  match r with
  | Ok acc => mk (classify sc h) acc
  | Trap => mk 2 (mkAcc [] [] [] [])
  | OutOfEnergy => mk 3 (mkAcc [] [] [] [])
  | Fault => mk 5 (mkAcc [] [] [] [])
  end.

(** a compact view for printing: byte strings are packed into 32-byte little-endian words
    (printing thousands of list elements dominates the evaluation time otherwise); payloads are
    dropped for outcomes in which the implementation reports none *)
Fixpoint packN (l : list N) (k mult cur : N) : list N :=
  match l with
  | [] => if k =? 0 then [] else [cur]
  | b :: t => if k =? 31 then (cur + b * mult) :: packN t 0 1 0
              else packN t (k + 1) (mult * 256) (cur + b * mult)
  end.
Definition pk (l : list N) : N * list N := (lenN l, packN l 0 1 0).
Definition pk_action (a : action) :=
  match a with
  | AAccept => (0, 0, 0, pk [], 0, pk [])
  | ATransfer addr amount => (1, 0, 0, pk addr, amount, pk [])
  | ASend i s name amount param => (2, i, s, pk name, amount, pk param)
  | AAnd l r => (3, l, r, pk [], 0, pk [])
  | AOr l r => (4, l, r, pk [], 0, pk [])
  end.

Definition run_view (sc : script) (e : N) :=
  let o := run_script sc e in
  let keep := (o_class o <=? 1) in
  (o_class o, o_code o, o_rem o,
   pk (if keep then o_state o else []),
   (if keep then map (fun kv => (pk (fst kv), pk (snd kv))) (o_kv o) else []),
   (if keep then map (map pk) (o_logs o) else []),
   pk (if keep then o_rv o else []),
   (if keep then map pk_action (o_actions o) else []),
   (map pk (o_ints o), o_changed o, map (fun kd => (fst kd, pk (snd kd))) (o_hashes o),
    (o_unspec o, o_lower o),
    flat_map (fun ev => match ev with EvTick c => [c] | _ => [] end) (o_events o))).

(** *** call depth: an entrypoint calling a function that recurses [n] more times *)
Definition run_depth (n : nat) (e : N) : N * N :=
  let h := init_host (mkScript false true 4 1 [] [] true [] [] [] [] 0 [] []) in
  let '(s, r) := (charge_memory_alloc 1 ;;; nested_calls (S n)) (mkSt e (mkMem 65536 []) [] h) in
  (match r with Ok _ => 0 | Trap => 2 | OutOfEnergy => 3 | Fault => 5 end, energy s).
