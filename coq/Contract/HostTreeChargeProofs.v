(** C14 - the tree-traversal charge precedes the work: when [state_delete_prefix] or
    [state_iterator_next] end in OutOfEnergy, nothing the contract or the chain can observe has
    changed (linear memory, entries, iterators, locks, expanded nodes, logs, return value). *)
From Coq Require Import NArith List Bool Lia.
From CB Require Import Gen.HostCosts Contract.HostBase Contract.HostBaseProofs Contract.HostV0
  Contract.HostV0Proofs Contract.HostTreeEnergy Contract.HostV1 Contract.HostV1Proofs.
Import ListNotations.
Local Open Scope N_scope.

(** what is observable of a v1 execution state, apart from the energy and the event trace *)
Definition observables (s : st H1) :=
  (mem s, is_entries (x_is (h_ext (hs s))), is_iters (x_is (h_ext (hs s))), is_locks (x_is (h_ext (hs s))),
   is_emap (x_is (h_ext (hs s))), x_exp (h_ext (hs s)), h_logs (hs s), x_rv (h_ext (hs s))).

Ltac ooe_close :=
  cbv beta iota zeta delta [fst snd]; intros Hooe; try discriminate Hooe;
  cbv beta iota zeta delta [observables mem hs h_ext x_is x_exp x_rv h_logs is_entries is_iters is_locks is_emap
                            is_set_changed is_with_entries with_ext with_is with_exp];
  reflexivity.

Theorem delete_prefix_ooe_unchanged : forall key_start key_len (s : st H1),
  snd (state_delete_prefix key_start key_len s) = OutOfEnergy ->
  observables (fst (state_delete_prefix key_start key_len s)) = observables s.
Proof.
  intros ks kl s. dst s. unfold state_delete_prefix. mstep1; ooe_close.
Qed.

Theorem iterator_next_ooe_unchanged : forall it (s : st H1),
  snd (state_iterator_next it s) = OutOfEnergy ->
  observables (fst (state_iterator_next it s)) = observables s.
Proof.
  intros it s. dst s. unfold state_iterator_next. mstep1; ooe_close.
Qed.
