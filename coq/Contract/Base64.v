(** * Base64 — the [base64] 0.21 engine [general_purpose::STANDARD_NO_PAD] as used by
    [VersionedModuleSchema::from_base64_str] (schema.rs:1210): standard alphabet, no padding written,
    [DecodePaddingMode::RequireNone], [decode_allow_trailing_bits = false].  Definitions only (executable).
    Characters are their ASCII codes; an error is [None]. *)
From Coq Require Import NArith Bool List.
Import ListNotations.
Local Open Scope N_scope.

Definition b64_char (v : N) : N :=
  if v <? 26 then 65 + v
  else if v <? 52 then 97 + (v - 26)
  else if v <? 62 then 48 + (v - 52)
  else if v =? 62 then 43 else 47.

(** the decode table: everything outside the alphabet (in particular '=' = 61) is invalid *)
Definition b64_val (c : N) : option N :=
  if (65 <=? c) && (c <=? 90) then Some (c - 65)
  else if (97 <=? c) && (c <=? 122) then Some (c - 97 + 26)
  else if (48 <=? c) && (c <=? 57) then Some (c - 48 + 52)
  else if c =? 43 then Some 62
  else if c =? 47 then Some 63
  else None.

Fixpoint b64_encode (bs : list N) : list N :=
  match bs with
  | [] => []
  | [a] => [b64_char (a / 4); b64_char ((a mod 4) * 16)]
  | [a; b] => [b64_char (a / 4); b64_char ((a mod 4) * 16 + b / 16); b64_char ((b mod 16) * 4)]
  | a :: b :: c :: r =>
      b64_char (a / 4) :: b64_char ((a mod 4) * 16 + b / 16) :: b64_char ((b mod 16) * 4 + c / 64)
      :: b64_char (c mod 64) :: b64_encode r
  end.

(** [strict = true]: the unused low bits of the last symbol must be zero (InvalidLastSymbol otherwise);
    a single left-over symbol is InvalidLength; any '=' is InvalidByte / InvalidPadding *)
Fixpoint b64_decode_gen (strict : bool) (s : list N) : option (list N) :=
  match s with
  | [] => Some []
  | [_] => None
  | [x; y] =>
      match b64_val x, b64_val y with
      | Some p, Some q => if strict && negb (q mod 16 =? 0) then None else Some [p * 4 + q / 16]
      | _, _ => None
      end
  | [x; y; z] =>
      match b64_val x, b64_val y, b64_val z with
      | Some p, Some q, Some r =>
          if strict && negb (r mod 4 =? 0) then None else Some [p * 4 + q / 16; (q mod 16) * 16 + r / 4]
      | _, _, _ => None
      end
  | x :: y :: z :: w :: rest =>
      match b64_val x, b64_val y, b64_val z, b64_val w with
      | Some p, Some q, Some r, Some t =>
          match b64_decode_gen strict rest with
          | Some l => Some (p * 4 + q / 16 :: (q mod 16) * 16 + r / 4 :: (r mod 4) * 64 + t :: l)
          | None => None
          end
      | _, _, _, _ => None
      end
  end.

Definition b64_decode := b64_decode_gen true.
(** what an engine with [decode_allow_trailing_bits = true] would do *)
Definition b64_decode_lax := b64_decode_gen false.

Definition b64_bytes_ok (l : list N) : bool := forallb (fun b => b <? 256) l.
