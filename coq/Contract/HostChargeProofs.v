(** C14 - charge-before-work, allocation charging, size limits of invoke/create, result encodings. *)
From Coq Require Import NArith List Bool Lia.
From CB Require Import Gen.HostCosts Contract.HostBase Contract.HostBaseProofs Contract.HostV0
  Contract.HostV0Proofs Contract.HostV1 Contract.HostV1Proofs Contract.HostLimitsProofs.
Import ListNotations.
Local Open Scope N_scope.

(** the energy each host call is scheduled to charge before any length-proportional work *)
Definition sched0 {X} (f : v0fn) (args : list N) (h : host X) : N :=
  match f, args with
  | V0get_parameter_section, [_; length; _] => copy_parameter_cost length
  | V0get_policy_section, [_; length; _] => copy_from_host_cost length
  | V0log_event, [_; length] => log_event_cost length
  | V0load_state, [_; length; _] => copy_from_host_cost length
  | V0write_state, [_; length; _] => copy_to_host_cost length
  | V0resize_state, [new_size] => additional_state_size_cost (new_size - u32 (lenN (h_state h)))
  | V0send, [_; _; _; _; _; _; parameter_len] => action_send_cost parameter_len
  | V0accept, _ | V0simple_transfer, _ | V0combine_and, _ | V0combine_or, _ => BASE_ACTION_COST
  | _, _ => 0
  end.

Definition sched1 (f : v1fn) (args : list N) : N :=
  match f, args with
  | V1invoke, _ => INVOKE_BASE_COST
  | V1write_output, [_; length; _] => write_output_cost length
  | V1get_parameter_section, [_; _; length; _] => copy_parameter_cost length
  | V1get_policy_section, [_; length; _] => copy_from_host_cost length
  | V1log_event, [_; length] => log_event_cost length
  | V1state_lookup_entry, [_; key_len] => lookup_entry_cost key_len
  | V1state_create_entry, [_; key_len] => create_entry_cost key_len
  | V1state_delete_entry, [_; key_len] => delete_entry_cost key_len
  | V1state_delete_prefix, [_; key_len] => delete_prefix_find_cost key_len
  | V1state_iterate_prefix, [_; prefix_len] => new_iterator_cost prefix_len
  | V1state_iterator_next, _ => ITERATOR_NEXT_COST
  | V1state_iterator_delete, _ => DELETE_ITERATOR_BASE_COST
  | V1state_iterator_key_size, _ => ITERATOR_KEY_SIZE_COST
  | V1state_iterator_key_read, [_; _; length; _] => copy_from_host_cost length
  | V1state_entry_read, [_; _; length; _] => read_entry_cost length
  | V1state_entry_write, [_; _; length; _] => write_entry_cost length
  | V1state_entry_size, _ => ENTRY_SIZE_COST
  | V1state_entry_resize, _ => RESIZE_ENTRY_BASE_COST
  | V1verify_ed25519_signature, [_; _; _; message_len] => verify_ed25519_cost message_len
  | V1verify_ecdsa_secp256k1_signature, _ => VERIFY_ECDSA_SECP256K1_COST
  | V1hash_sha2_256, [_; data_len; _] => hash_sha2_256_cost data_len
  | V1hash_sha3_256, [_; data_len; _] => hash_sha3_256_cost data_len
  | V1hash_keccak_256, [_; data_len; _] => hash_keccak_256_cost data_len
  | _, _ => 0
  end.

Ltac cbw_close :=
  cbv beta iota zeta delta [fst evs cbw rev app cbw_from alloc_paid alloc_paid_from existsb];
  cbn [orb andb];
  first [ reflexivity
        | (rewrite ?N.leb_refl, ?orb_true_r; cbn [orb andb]; reflexivity)
        | (exfalso; arith_close) ].

Section V0.
Context {X : Type}.
Notation S0 := (st (host X)).
Ltac dst0 s := destruct s as [e0 m0 ev0 h0]; destruct h0.

Theorem call_v0_cbw : forall f args (s : S0), evs s = [] -> state_ok s ->
  cbw (sched0 f args (hs s)) (evs (fst (call_v0 f args s))) = true.
Proof.
  intros f args s He H. dst0 s. cbn [evs] in He. subst ev0. unfold state_ok in H. cbn [hs HostV0.h_state] in H.
  unfold call_v0. destruct f; split_args args; cbn [call_v0_raw sched0 hs HostV0.h_state]; unfold_v0;
    mstep; proj_red; cbw_close.
Qed.

(** growth of the legacy state is paid for: by [additional_state_size_cost] in resize_state, and in
    write_state by the copy cost, which dominates the number of bytes the state can grow *)
Theorem resize_state_alloc_paid : forall new_size (s : S0), evs s = [] -> state_ok s ->
  alloc_paid additional_state_size_cost (evs (fst (resize_state new_size s))) = true.
Proof.
  intros n s He H. dst0 s. cbn [evs] in He. subst ev0. unfold state_ok in H. cbn [hs HostV0.h_state] in H.
  unfold_v0. cbv beta iota zeta delta [bind get_hs hs HostV0.h_state].
  rewrite ?(u32_small (lenN h_state)) by (unfold W32; lia). mstep; proj_red; cbw_close.
Qed.
Theorem write_state_alloc_paid : forall start length offset (s : S0), evs s = [] -> state_ok s ->
  alloc_paid (fun n => n) (evs (fst (write_state start length offset s))) = true.
Proof.
  intros a b c s He H. dst0 s. cbn [evs] in He. subst ev0. unfold state_ok in H. cbn [hs HostV0.h_state] in H.
  unfold_v0. mstep; proj_red;
    cbv beta iota zeta delta [fst evs cbw rev app cbw_from alloc_paid alloc_paid_from existsb]; cbn [orb andb];
    try reflexivity.
  all: rewrite orb_false_r, andb_true_r; apply N.leb_le; unfold copy_to_host_cost; arith_close.
Qed.

(** result codes *)
Theorem log_event_codes : forall a b (s s' : S0) r, log_event a b s = (s', Ok r) ->
  r = Some 0 \/ r = Some 1 \/ (r = Some 4294967295 /\ 512 < b).
Proof.
  intros a b s s' r. dst0 s. unfold_v0. mstep; intros [= <- <-]; try discriminate; auto.
  right. right. split; [reflexivity|]. arith_close.
Qed.
Theorem resize_state_codes : forall n (s s' : S0) r, resize_state n s = (s', Ok r) ->
  (r = Some 0 /\ 16384 < n /\ h_state (hs s') = h_state (hs s)) \/ (r = Some 1 /\ n <= 16384 /\ lenN (h_state (hs s')) = n).
Proof.
  intros n s s' r. dst0 s. unfold_v0. mstep; intros [= <- <-]; try discriminate; proj_red.
  all: first [ left; split; [reflexivity|]; split; [arith_close | reflexivity]
             | right; split; [reflexivity|]; split; arith_close ].
Qed.
Theorem write_state_result : forall a b c (s s' : S0) r, state_ok s -> write_state a b c s = (s', Ok r) ->
  exists n, r = Some n /\ n <= b /\ c + n <= 16384.
Proof.
  intros a b c s s' r H. dst0 s. unfold state_ok in H. cbn [hs HostV0.h_state] in H.
  unfold_v0. mstep; intros [= <- <-]; try discriminate.
  all: eexists; split; [reflexivity|]; split; arith_close.
Qed.
End V0.

Theorem call_v1_cbw : forall f args (s : st H1), evs s = [] ->
  cbw (sched1 f args) (evs (fst (call_v1 f args s))) = true.
Proof.
  intros f args s He. dst s. cbn [evs] in He. subst ev0.
  unfold call_v1. destruct f; split_args args; cbn [call_v1_raw sched1]; unfold_v1; unfold_v0;
    mstep1; proj_red1; cbw_close.
Qed.

Theorem write_return_value_alloc_paid : forall a b c (s : st H1), evs s = [] ->
  alloc_paid additional_output_size_cost (evs (fst (write_return_value a b c s))) = true.
Proof. intros a b c s He. dst s. cbn [evs] in He. subst ev0. unfold_v1. mstep1; proj_red1; cbw_close. Qed.
Theorem entry_write_alloc_paid : forall a b c d (s : st H1), evs s = [] ->
  alloc_paid additional_entry_size_cost (evs (fst (state_entry_write a b c d s))) = true.
Proof. intros a b c d s He. dst s. cbn [evs] in He. subst ev0. unfold_v1. mstep1; proj_red1; cbw_close. Qed.
Theorem entry_resize_alloc_paid : forall a b (s : st H1), evs s = [] ->
  alloc_paid additional_entry_size_cost (evs (fst (state_entry_resize a b s))) = true.
Proof. intros a b s He. dst s. cbn [evs] in He. subst ev0. unfold_v1. mstep1; proj_red1; cbw_close. Qed.

(** limits of invoke(call) parameters and of keys *)
Theorem parse_call_args_param_limit : forall data maxp (s s' : st H1) i,
  parse_call_args data maxp s = (s', Ok i) -> u16 (le_val (firstnN 2 (skipnN 16 data))) <= maxp.
Proof.
  intros data maxp s s' i. dst s. unfold_v1. mstep1; intros [= <- <-]; try discriminate. arith_close.
Qed.
Theorem create_entry_key_limit : forall a b (s s' : st H1) r,
  state_create_entry a b s = (s', Ok r) -> b <= 1073741824.
Proof.
  intros a b s s' r. dst s. unfold_v1. mstep1; intros [= <- <-]; try discriminate; arith_close.
Qed.
Theorem entry_resize_limit : forall a b (s s' : st H1), state_entry_resize a b s = (s', Ok (Some 1)) -> b <= 1073741824.
Proof.
  intros a b s s'. dst s. unfold_v1. mstep1; intros [= <-]; try discriminate; arith_close.
Qed.

(** handle and response encodings *)
Theorem handle_roundtrip : forall gen idx, gen < W32 -> idx < W32 -> split_handle (handle gen idx) = (gen, idx).
Proof.
  intros gen idx Hg Hi. unfold split_handle, handle, u32.
  rewrite N.div_add_l by discriminate. rewrite (N.div_small idx W32 Hi), N.add_0_r, (N.mod_small gen W32 Hg).
  rewrite N.add_comm, N.mod_add by discriminate. rewrite (N.mod_small idx W32 Hi). reflexivity.
Qed.
Theorem handle_fits_u64 : forall gen idx, gen < W32 -> idx < W32 -> handle gen idx < W64.
Proof. intros gen idx Hg Hi. unfold handle. unfold W32, W64 in *. lia. Qed.
Theorem none_is_not_a_handle : forall gen idx, gen < 2147483648 -> idx < W32 ->
  handle gen idx <> U64MAX /\ handle gen idx <> NEW_ERR.
Proof. intros gen idx Hg Hi. unfold handle, NEW_ERR, U64MAX. unfold W32 in *. split; lia. Qed.
Theorem resume_fail_code : forall n u (s s' : st H1) v,
  resume (RespFail n u) s = (s', Ok v) -> v = n * 4294967296.
Proof. intros n u s s' v. dst s. unfold resume. mstep1; intros [= <- <-]. reflexivity. Qed.
Theorem resume_ok_layout : forall len tag, len <= MAX_PARAMS -> (tag = 0 \/ tag = 8388608) ->
  let v := (len + tag) * 1099511627776 in
  v < W64 /\ v mod 1099511627776 = 0 /\ (v / 1099511627776) mod 8388608 = len /\ (v / 1099511627776) / 8388608 = tag / 8388608.
Proof.
  intros len tag Hl Ht v. unfold v, MAX_PARAMS, W64 in *.
  rewrite N.div_mul by discriminate. rewrite N.mod_mul by discriminate.
  destruct Ht as [-> | ->].
  - rewrite N.add_0_r. repeat split; try lia. + apply N.mod_small. lia. + rewrite N.div_small by lia. reflexivity.
  - repeat split; try lia.
    + replace (len + 8388608) with (len + 1 * 8388608) by lia. rewrite N.mod_add by discriminate. apply N.mod_small. lia.
    + replace (len + 8388608) with (len + 1 * 8388608) by lia. rewrite N.div_add by discriminate.
      rewrite N.div_small by lia. reflexivity.
Qed.

(** O2 (after the fix): the name handled by `send` / `invoke(call)` is scanned and copied only after its
    length has been checked against MAX_FUNC_NAME_SIZE: all work outside the length-charged copies is
    bounded by 100 bytes, independently of the length arguments *)
Ltac fixed_close :=
  cbv beta iota zeta delta [fst evs fixed_le forallb];
  repeat (apply andb_true_intro; split); try reflexivity; apply N.leb_le; arith_close.

Theorem send_fixed_work_bounded : forall X a b c d e f g (s : st (host X)), evs s = [] ->
  fixed_le 100 (evs (fst (send a b c d e f g s))) = true.
Proof.
  intros X a b c d e f g s He. destruct s as [e0 m0 ev0 h0]; destruct h0. cbn [evs] in He. subst ev0.
  unfold_v0. mstep; proj_red; fixed_close.
Qed.
Theorem invoke_fixed_work_bounded : forall a b c (s : st H1), evs s = [] ->
  fixed_le 100 (evs (fst (invoke a b c s))) = true.
Proof.
  intros a b c s He. dst s. cbn [evs] in He. subst ev0.
  unfold_v1. mstep1; proj_red1; fixed_close.
Qed.
