(** * Contract/V1ClassifyProofs — proofs about [Contract/V1Classify.v]

    1. the classification is a total function whose value is characterised case by case
       ([classify_receive_spec], [classify_init_spec]); reject reasons are exactly the negative return
       codes ([reject_reason_rule], [init_reject_reason_rule]); the [Err] path of
       [process_receive_result] is taken only for a missing / non-i32 result;
    2. the host component of the machine (energy, activation frames) is restored exactly by
       capture + resume ([t_capture_resume]; it is the [Interrupted] branch + [resume_receive] of
       [Contract/V1Resume.v] on these two fields: [tsave_is_interrupt_out]) and therefore agrees at the
       end of the full run, for any number of interrupts ([t_resume_equiv]);
    3. the engine's loop: every [ReceiveResult] before the last is an [Interrupt], the last one is the
       classification of the uninterrupted run up to the logs handed out earlier, and the logs handed
       out + the final logs are the logs of the uninterrupted run ([e_drive_classifies_as_direct]). *)
From Coq Require Import ZArith NArith List Bool Lia FMapPositive.
From CB Require Import Common.IntN Wasm.Syntax Wasm.Sem Wasm.Compile Wasm.Machine Wasm.Resume Wasm.ResumeProofs
     Contract.V1Resume Contract.V1ResumeProofs Contract.V1Classify.
Import ListNotations.
Local Open Scope Z_scope.

(** ** 1. classification *)
Lemma i32_signed_range z : -2147483648 <= i32_signed z < 2147483648.
Proof.
  unfold i32_signed. cbv zeta. pose proof (Z.mod_pos_bound z 4294967296 ltac:(lia)).
  destruct (Z.ltb_spec (z mod 4294967296) 2147483648); lia.
Qed.

(** the value of [process_receive_result] (after [?] / [.into()]) in every case: total, a function *)
Theorem classify_receive_spec : forall h r,
  finalise (process_receive_result h r) =
  match r with
  | MSuccess (Some (VI32 z)) =>
      if 0 <=? i32_signed z then RRSuccess (hv_logs h) (hv_changed h) (hv_retval h) (hv_energy h)
      else RRReject (i32_signed z) (hv_retval h) (hv_energy h)
  | MSuccess _ => RRTrap 0%N
  | MInterrupted k =>
      if should_clear_logs k then RRInterrupt (hv_energy h) (hv_changed h) (hv_logs h) k []
      else RRInterrupt (hv_energy h) (hv_changed h) [] k (hv_logs h)
  | MErr true => RROutOfEnergy
  | MErr false => RRTrap (hv_energy h)
  end.
Proof.
  intros h [[[z|z]|]|k|[|]]; cbn [process_receive_result finalise]; try reflexivity.
  - cbv zeta. destruct (Z.leb_spec 0 (i32_signed z)); [reflexivity|].
    unfold reason_from_wasm_error_code. destruct (Z.ltb_spec (i32_signed z) 0); [reflexivity | lia].
  - destruct (should_clear_logs k); reflexivity.
Qed.

(** the [Err(InvalidReturnCodeError)] path is taken exactly when the result is missing or not an i32:
    the [Err] branch of [reason_from_wasm_error_code] is dead code under [process_receive_result] *)
Theorem receive_invalid_iff : forall h r,
  (exists v, process_receive_result h r = inl v) <->
  (r = MSuccess None \/ exists z, r = MSuccess (Some (VI64 z))).
Proof.
  intros h r. split.
  - intros [v Hv]. destruct r as [[[z|z]|]|k|[|]]; cbn [process_receive_result] in Hv; try discriminate.
    + cbv zeta in Hv. destruct (0 <=? i32_signed z) eqn:E; [discriminate|].
      unfold reason_from_wasm_error_code in Hv. apply Z.leb_gt in E.
      destruct (Z.ltb_spec (i32_signed z) 0); [discriminate | lia].
    + right. eexists; reflexivity.
    + left; reflexivity.
  - intros [->|[z ->]]; eexists; reflexivity.
Qed.

(** reject reasons: exactly the negative return codes *)
Theorem reject_reason_rule : forall h r reason v e,
  finalise (process_receive_result h r) = RRReject reason v e <->
  (exists z, r = MSuccess (Some (VI32 z)) /\ reason = i32_signed z /\ -2147483648 <= reason < 0
             /\ v = hv_retval h /\ e = hv_energy h).
Proof.
  intros h r reason v e. rewrite classify_receive_spec. split.
  - destruct r as [[[z|z]|]|k|[|]]; try discriminate.
    + destruct (Z.leb_spec 0 (i32_signed z)); [discriminate|]. intros E; inversion E; subst.
      exists z. pose proof (i32_signed_range z). repeat split; lia.
    + destruct (should_clear_logs k); discriminate.
  - intros [z [-> [-> [Hr [-> ->]]]]]. destruct (Z.leb_spec 0 (i32_signed z)); [lia | reflexivity].
Qed.

Theorem variant_rule : forall h r,
  variant_of (finalise (process_receive_result h r)) =
  match r with
  | MSuccess (Some (VI32 z)) => if 0 <=? i32_signed z then VSuccess else VReject
  | MSuccess _ => VTrap
  | MInterrupted _ => VInterrupt
  | MErr true => VOutOfEnergy
  | MErr false => VTrap
  end.
Proof.
  intros h r. rewrite classify_receive_spec.
  destruct r as [[[z|z]|]|k|[|]]; try reflexivity.
  - destruct (0 <=? i32_signed z); reflexivity.
  - destruct (should_clear_logs k); reflexivity.
Qed.

(** the init counterpart: 0 succeeds, negative codes reject, positive codes are a protocol violation
    ([Err(InvalidReturnCodeError { value: Some(n) })]) *)
Theorem classify_init_spec : forall h r,
  process_init_result h r =
  match r with
  | MSuccess (Some (VI32 z)) =>
      if i32_signed z =? 0 then inr (IRSuccess (hv_logs h) (hv_retval h) (hv_energy h))
      else if i32_signed z <? 0 then inr (IRReject (i32_signed z) (hv_retval h) (hv_energy h))
      else inl (Some (i32_signed z))
  | MSuccess _ => inl None
  | MInterrupted _ => inl None
  | MErr true => inr IROutOfEnergy
  | MErr false => inr (IRTrap (hv_energy h))
  end.
Proof.
  intros h [[[z|z]|]|k|[|]]; cbn [process_init_result]; try reflexivity.
  cbv zeta. destruct (i32_signed z =? 0); [reflexivity|].
  unfold reason_from_wasm_error_code. destruct (i32_signed z <? 0); reflexivity.
Qed.

Theorem init_reject_reason_rule : forall h r reason v e,
  process_init_result h r = inr (IRReject reason v e) <->
  (exists z, r = MSuccess (Some (VI32 z)) /\ reason = i32_signed z /\ -2147483648 <= reason < 0
             /\ v = hv_retval h /\ e = hv_energy h).
Proof.
  intros h r reason v e. rewrite classify_init_spec. split.
  - destruct r as [[[z|z]|]|k|[|]]; try discriminate.
    destruct (Z.eqb_spec (i32_signed z) 0); [discriminate|].
    destruct (Z.ltb_spec (i32_signed z) 0); [|discriminate]. intros E; inversion E; subst.
    exists z. pose proof (i32_signed_range z). repeat split; lia.
  - intros [z [-> [-> [Hr [-> ->]]]]]. destruct (Z.eqb_spec (i32_signed z) 0); [lia|].
    destruct (Z.ltb_spec (i32_signed z) 0); [reflexivity | lia].
Qed.

(** a receive method returning a POSITIVE code succeeds, an init method returning it is a protocol
    violation: the two entry kinds differ exactly there (observation O-C13-1 of design/C13.md) *)
Theorem receive_init_differ_exactly_on_positive : forall h z,
  (variant_of (finalise (process_receive_result h (MSuccess (Some (VI32 z))))) = VSuccess
   /\ process_init_result h (MSuccess (Some (VI32 z))) = inl (Some (i32_signed z)))
  <-> 0 < i32_signed z.
Proof.
  intros h z. rewrite variant_rule, classify_init_spec.
  destruct (Z.leb_spec 0 (i32_signed z)); destruct (Z.eqb_spec (i32_signed z) 0);
    destruct (Z.ltb_spec (i32_signed z) 0); split; try lia; try (intros [? ?]; discriminate);
    try (intros _; split; reflexivity).
Qed.

(** ** 2. the host component across interrupt + resume *)
Lemma trestore_tsave h : trestore (tsave h) = h.
Proof. destruct h; reflexivity. Qed.

Theorem t_capture_resume : forall s l r, tresume (tcapture s l) l r = tdirect s l r.
Proof.
  intros [st h] l r. unfold tresume, tcapture, tdirect. cbn [fst snd].
  rewrite capture_resume_machine, trestore_tsave. reflexivity.
Qed.

(** [tsave] / [trestore] are [process_receive_result] ([Interrupted]) + [resume_receive] of
    [Contract/V1Resume.v] on the two fields the interpreter drives *)
Definition hostc_of (rh : receive_host) : hostc :=
  {| hc_energy := rh_energy rh; hc_frames := rh_activation_frames rh |}.
Theorem tsave_is_interrupt_out : forall clear rh su cur r rh' w,
  resume_in (snd (interrupt_out clear rh)) (fst (fst (interrupt_out clear rh))) su cur r = Some (rh', w) ->
  tsave (hostc_of rh) = (fst (fst (interrupt_out clear rh)), sv_activation_frames (snd (interrupt_out clear rh)))
  /\ hostc_of rh' = trestore (tsave (hostc_of rh)).
Proof.
  intros clear rh su cur r rh' w E.
  destruct (interrupt_preserves_host_fields_thm _ _ _ _ _ _ _ E) as [Hf [He _]].
  split; [reflexivity|]. rewrite trestore_tsave. unfold hostc_of. rewrite Hf, He. reflexivity.
Qed.

(** a saved host that forgets the frames in use does not have the property (seeded change 6) *)
Example reset_frames_not_restored :
  let h := {| hc_energy := 5%N; hc_frames := 1019%N |} in
  trestore (hc_energy h, MAX_ACTIVATION_FRAMES) <> h.
Proof. cbv. discriminate. Qed.

Section TrackedProofs.
Variable art : artifact.
Variable X : Type.
Variable hfun : X -> nat -> hquery -> N -> X * hanswer.

(** interrupt + resume any number of times = the uninterrupted run: final machine state or trap, the
    host component at the end (remaining energy, activation frames), the world (logs, return value,
    state-changed flag), tick trace, number of host calls *)
Theorem t_resume_equiv : forall choose rounds fuel w n tr s,
  (fuel <= rounds)%nat ->
  t_drive art X hfun choose rounds fuel w n tr s = t_run_direct art X hfun fuel w n tr s.
Proof.
  intros. unfold t_drive, t_run_direct. apply drive_eq_direct; [exact t_capture_resume | assumption].
Qed.

(** host functions only append to the logs and only count state changes up *)
Definition logs_prefix (w w' : world X) : Prop :=
  (exists m, w_logs w' = w_logs w ++ m) /\ (w_changes w <= w_changes w')%nat.
Lemma logs_prefix_refl w : logs_prefix w w.
Proof. split; [exists []; symmetry; apply app_nil_r | lia]. Qed.
Lemma logs_prefix_trans a b c : logs_prefix a b -> logs_prefix b c -> logs_prefix a c.
Proof.
  intros [[m Hm] H1] [[m' Hm'] H2]. split; [|lia]. exists (m ++ m'). rewrite Hm', Hm. symmetry. apply app_assoc.
Qed.
Lemma thcall_prefix w n q : logs_prefix w (fst (thcall X hfun w n q)).
Proof.
  unfold thcall. destruct (hfun (w_x w) n (fst q) (hc_energy (snd q))) as [x' [cost eff resp nl rv chg|e]].
  - destruct (hc_energy (snd q) <? cost)%N; cbn [fst].
    + split; cbn [w_logs w_changes]; [exists []; symmetry; apply app_nil_r | lia].
    + split; cbn [w_logs w_changes]; [exists nl; reflexivity | lia].
  - split; cbn [fst w_logs w_changes]; [exists []; symmetry; apply app_nil_r | lia].
Qed.
Lemma ltb_split mark c : (mark <= c)%nat -> ((0 <? mark)%nat || (mark <? c)%nat) = (0 <? c)%nat.
Proof.
  intros H. destruct (Nat.ltb_spec 0 mark); destruct (Nat.ltb_spec mark c); destruct (Nat.ltb_spec 0 c);
    cbn; try reflexivity; lia.
Qed.

Lemma run_config_prefix : forall choose fuel w n tr s,
  match t_run_config art X hfun choose fuel w n tr s with
  | RCDone _ _ _ _ _ _ _ res => logs_prefix w (r_host res)
  | RCInterrupted _ _ _ _ _ _ _ q l r k w' n' tr' f' => logs_prefix w w'
  end.
Proof.
  intros choose. unfold t_run_config. induction fuel as [|f IH]; intros w n tr s.
  - cbn [run_config r_host]. apply logs_prefix_refl.
  - cbn [run_config]. destruct (tstep art s) as [s'|o|q s' l].
    + apply IH.
    + cbn [r_host]. apply logs_prefix_refl.
    + pose proof (thcall_prefix w n q) as Hp.
      destruct (thcall X hfun w n q) as [w' [[a r]|]]; cbn [fst] in Hp.
      * destruct (choose n q).
        -- exact Hp.
        -- specialize (IH w' (S n) (tr ++ tev art s) (tdirect (tapply s' a) l r)).
           match goal with |- match ?e with _ => _ end => destruct e end;
             eapply logs_prefix_trans; eassumption.
      * cbn [r_host]. exact Hp.
Qed.

Lemma firstn_skipn_prefix (A : Type) (l m : list A) k :
  (k <= length l)%nat -> firstn k l ++ skipn k (l ++ m) = l ++ m.
Proof.
  intros Hk. rewrite skipn_app. replace (k - length l)%nat with O by lia. cbn [skipn].
  rewrite app_assoc, firstn_skipn. reflexivity.
Qed.
Lemma firstn_prefix (A : Type) (l m : list A) k :
  (k <= length l)%nat -> firstn k (l ++ m) = firstn k l.
Proof.
  intros Hk. rewrite firstn_app. replace (k - length l)%nat with O by lia. cbn [firstn]. apply app_nil_r.
Qed.

Variable entry : nat.
Variable kind_of : hquery -> interrupt_kind.

Lemma classify_final_handed : forall handed mark res,
  match classify_final art X entry handed mark res with
  | Some f => exists d, classify_final art X entry O O res = Some d /\ strip_logs f = strip_logs d
                        /\ (variant_of d = VSuccess ->
                            logs_of f = skipn handed (w_logs (r_host res)) /\ logs_of d = w_logs (r_host res)
                            /\ changed_of f = (mark <? w_changes (r_host res))%nat
                            /\ changed_of d = (0 <? w_changes (r_host res))%nat)
  | None => classify_final art X entry O O res = None
  end.
Proof.
  intros handed mark res. unfold classify_final. destruct (machine_result_of art X entry res) as [[m e]|]; [|reflexivity].
  eexists. split; [reflexivity|]. unfold view. split.
  - rewrite !classify_receive_spec. cbn [hv_energy hv_logs hv_retval hv_changed].
    destruct m as [[[z|z]|]|k|[|]]; try reflexivity.
    + destruct (0 <=? i32_signed z); reflexivity.
    + destruct (should_clear_logs k); reflexivity.
  - rewrite !classify_receive_spec. cbn [hv_energy hv_logs hv_retval hv_changed skipn].
    destruct m as [[[z|z]|]|k|[|]]; cbn [variant_of]; try discriminate.
    + destruct (0 <=? i32_signed z); cbn [variant_of logs_of changed_of]; [intros _; repeat split; reflexivity | discriminate].
    + destruct (should_clear_logs k); discriminate.
Qed.

Definition is_interrupt (r : receive_result) : Prop := variant_of r = VInterrupt.

Lemma e_drive_spec : forall choose rounds fuel w n tr s handed mark acc,
  (fuel <= rounds)%nat -> (handed <= length (w_logs w))%nat -> (mark <= w_changes w)%nat ->
  match e_drive art X hfun entry kind_of choose rounds fuel w n tr s handed mark acc with
  | Some rs =>
      exists ints final d,
        rs = acc ++ ints ++ [final]
        /\ Forall is_interrupt ints
        /\ classify_final art X entry O O (t_run_direct art X hfun fuel w n tr s) = Some d
        /\ strip_logs final = strip_logs d
        /\ (variant_of d = VSuccess ->
            firstn handed (w_logs w) ++ concat (map logs_of ints) ++ logs_of final = logs_of d
            /\ ((0 <? mark)%nat || existsb changed_of ints || changed_of final) = changed_of d)
  | None => classify_final art X entry O O (t_run_direct art X hfun fuel w n tr s) = None
  end.
Proof.
  intros choose. induction rounds as [|rdn IH]; intros fuel w n tr s handed mark acc Hle Hh Hmk.
  - cbn [e_drive].
    pose proof (run_config_spec _ _ _ _ _ _ _ _ _ (tstep art) (tev art) tapply tdirect tcapture tresume (thcall X hfun)
                  t_capture_resume choose fuel w n tr s) as Hs.
    pose proof (run_config_prefix choose fuel w n tr s) as Hp.
    unfold t_run_config in *. unfold t_run_direct.
    destruct (run_config tstate tconfig tquery (option Z) teffect hresponse tout (world X) N (tstep art) (tev art) tapply tdirect tcapture
                (thcall X hfun) choose fuel w n tr s) as [res|q l r k w' n' tr' f'].
    + rewrite Hs. pose proof (classify_final_handed handed mark res) as Hc.
      destruct (classify_final art X entry handed mark res) as [f|]; [|exact Hc].
      destruct Hc as [d [Hd [Hst Hl]]]. exists [], f, d. repeat split; try assumption.
      * constructor.
      * destruct (Hl H) as [Hf [Hdl _]]. cbn [map concat app]. rewrite Hf, Hdl.
        destruct Hp as [[m Hm] _]. rewrite Hm. apply firstn_skipn_prefix. exact Hh.
      * destruct (Hl H) as [_ [_ [Hcf Hcd]]]. cbn [existsb]. rewrite orb_false_r, Hcf, Hcd.
        apply ltb_split. destruct Hp as [_ Hc]. lia.
    + destruct Hs as [Hlt _]. lia.
  - cbn [e_drive].
    pose proof (run_config_spec _ _ _ _ _ _ _ _ _ (tstep art) (tev art) tapply tdirect tcapture tresume (thcall X hfun)
                  t_capture_resume choose fuel w n tr s) as Hs.
    pose proof (run_config_prefix choose fuel w n tr s) as Hp.
    unfold t_run_config in *. unfold t_run_direct in *.
    destruct (run_config tstate tconfig tquery (option Z) teffect hresponse tout (world X) N (tstep art) (tev art) tapply tdirect tcapture
                (thcall X hfun) choose fuel w n tr s) as [res|q l r k w' n' tr' f'].
    + rewrite Hs. pose proof (classify_final_handed handed mark res) as Hc.
      destruct (classify_final art X entry handed mark res) as [f|]; [|exact Hc].
      destruct Hc as [d [Hd [Hst Hl]]]. exists [], f, d. repeat split; try assumption.
      * constructor.
      * destruct (Hl H) as [Hf [Hdl _]]. cbn [map concat app]. rewrite Hf, Hdl.
        destruct Hp as [[m Hm] _]. rewrite Hm. apply firstn_skipn_prefix. exact Hh.
      * destruct (Hl H) as [_ [_ [Hcf Hcd]]]. cbn [existsb]. rewrite orb_false_r, Hcf, Hcd.
        apply ltb_split. destruct Hp as [_ Hc]. lia.
    + destruct Hs as [Hlt Heq]. rewrite Heq.
      destruct Hp as [[m Hm] Hch].
      set (rr := finalise (process_receive_result (view X handed mark w' (fst (snd k))) (MInterrupted (kind_of (fst q))))).
      set (handed' := if should_clear_logs (kind_of (fst q)) then length (w_logs w') else handed).
      assert (Hh' : (handed' <= length (w_logs w'))%nat).
      { unfold handed'. destruct (should_clear_logs (kind_of (fst q))); [lia|]. rewrite Hm, app_length. lia. }
      specialize (IH f' w' n' tr' (tresume k l r) handed' (w_changes w') (acc ++ [rr]) ltac:(lia) Hh' ltac:(lia)).
      unfold t_run_direct in IH.
      match goal with |- match ?e with _ => _ end => destruct e as [rs|] end; [|exact IH].
      destruct IH as [ints [final [d [Hrs [Hall [Hd [Hst Hl]]]]]]].
      exists (rr :: ints), final, d. repeat split; try assumption.
      * rewrite Hrs, <- app_assoc. reflexivity.
      * constructor; [|assumption]. unfold is_interrupt, rr. rewrite variant_rule. reflexivity.
      * destruct (Hl H) as [Hl1 _]. rewrite <- Hl1. cbn [map concat]. rewrite <- !app_assoc.
        rewrite (app_assoc (firstn handed (w_logs w))). f_equal.
        unfold rr, handed'. rewrite classify_receive_spec. unfold view. cbn [hv_logs hv_energy hv_changed hv_retval].
        destruct (should_clear_logs (kind_of (fst q))); cbn [logs_of].
        -- rewrite firstn_all, Hm. apply firstn_skipn_prefix. exact Hh.
        -- rewrite app_nil_r, Hm. symmetry. apply firstn_prefix. exact Hh.
      * destruct (Hl H) as [_ Hl2]. rewrite <- Hl2. cbn [existsb]. rewrite !orb_assoc. f_equal. f_equal.
        unfold rr. rewrite classify_receive_spec. unfold view. cbn [hv_logs hv_energy hv_changed hv_retval].
        destruct (should_clear_logs (kind_of (fst q))); cbn [changed_of]; apply ltb_split; lia.
Qed.

(** the engine theorem: the [ReceiveResult]s of an execution interrupted any number of times are
    [Interrupt]s followed by the classification of the uninterrupted run (same variant, reject reason,
    return value, state-changed flag, remaining energy); on success the logs handed out with the
    interrupts followed by the final logs are exactly the logs of the uninterrupted run; and the
    interrupted execution has a result iff the uninterrupted one has (fuel artefact) *)
Theorem e_drive_classifies_as_direct : forall choose rounds fuel w s,
  (fuel <= rounds)%nat ->
  match e_drive art X hfun entry kind_of choose rounds fuel w O [] s O O [] with
  | Some rs =>
      exists ints final d,
        rs = ints ++ [final]
        /\ Forall is_interrupt ints
        /\ e_direct art X hfun entry fuel w s = Some d
        /\ strip_logs final = strip_logs d
        /\ (variant_of d = VSuccess ->
            concat (map logs_of ints) ++ logs_of final = logs_of d
            /\ (existsb changed_of ints || changed_of final) = changed_of d)
  | None => e_direct art X hfun entry fuel w s = None
  end.
Proof.
  intros choose rounds fuel w s Hle.
  pose proof (e_drive_spec choose rounds fuel w O [] s O O [] Hle ltac:(lia) ltac:(lia)) as Hs.
  unfold e_direct.
  destruct (e_drive art X hfun entry kind_of choose rounds fuel w O [] s O O []) as [rs|]; [|exact Hs].
  destruct Hs as [ints [final [d [Hrs [Hall [Hd [Hst Hl]]]]]]].
  exists ints, final, d. repeat split; try assumption; destruct (Hl H) as [H1 H2]; assumption.
Qed.
End TrackedProofs.

(** ** non-vacuity: a contract that calls one import and returns its parameter *)
Definition demo_art : artifact :=
  {| a_imports := [{| ft_params := []; ft_result := Some T_i64 |}]; a_types := []; a_table := []; a_memory := None;
     a_globals := [];
     a_code := [{| cf_type_idx := O; cf_params := [T_i64]; cf_num_locals := O; cf_return := Some T_i32;
                   cf_num_registers := 2; cf_constants := [];
                   cf_code := [7; 0; 0; 0; 0; 1; 0; 0; 0; 6]%N |}] |}.
Definition demo_hfun : unit -> nat -> hquery -> N -> unit * hanswer :=
  fun x _ _ _ => (x, HOk 5%N None (Some 42) [[1; 2]%N] (Some [9%N]) true).
Definition demo_start (code : Z) : option tstate :=
  match init_state demo_art O [VI64 code] with Some st => Some (st, initial_hostc 100%N) | None => None end.
Definition demo_run (k : interrupt_kind) (code : Z) : option (list receive_result) :=
  match demo_start code with
  | Some s => e_drive demo_art unit demo_hfun O (fun _ => k) (fun _ _ => true) 10 10 (initial_world tt) O [] s O O []
  | None => None
  end.
Definition demo_direct (code : Z) : option receive_result :=
  match demo_start code with
  | Some s => e_direct demo_art unit demo_hfun O 10 (initial_world tt) s
  | None => None
  end.
(** a transfer hands the logs out with the interrupt; a query keeps them; the return code decides *)
Example demo_runs :
  demo_run ITransfer 0 = Some [RRInterrupt 95 true [[1; 2]%N] ITransfer []; RRSuccess [] false [9%N] 95]
  /\ demo_run IQueryExchangeRates 0
     = Some [RRInterrupt 95 true [] IQueryExchangeRates [[1; 2]%N]; RRSuccess [[1; 2]%N] false [9%N] 95]
  /\ demo_run ITransfer (-3) = Some [RRInterrupt 95 true [[1; 2]%N] ITransfer []; RRReject (-3) [9%N] 95]
  /\ demo_run ITransfer 7 = Some [RRInterrupt 95 true [[1; 2]%N] ITransfer []; RRSuccess [] false [9%N] 95]
  /\ demo_direct 0 = Some (RRSuccess [[1; 2]%N] true [9%N] 95)
  /\ demo_direct (-3) = Some (RRReject (-3) [9%N] 95).
Proof. vm_compute. repeat split. Qed.
(** the host component at the end of the demo run: 5 charged by the host function, the entrypoint's
    [Return] reported to [track_return] *)
Example demo_host_component :
  match demo_start 0 with
  | Some s => match r_out (t_drive demo_art unit demo_hfun (fun _ _ => true) 10 10 (initial_world tt) O [] s) with
              | OHalt (inr _, h) => Some h | _ => None end
  | None => None
  end = Some {| hc_energy := 95; hc_frames := 1025 |}.
Proof. vm_compute. reflexivity. Qed.
(** the four outcomes without result value / of a failing machine, and the init rule *)
Example classify_samples :
  let h := {| hv_energy := 77; hv_logs := [[1%N]]; hv_retval := [2%N]; hv_changed := false |} in
  finalise (process_receive_result h (MSuccess (Some (VI32 4294967295)))) = RRReject (-1) [2%N] 77
  /\ finalise (process_receive_result h (MSuccess (Some (VI32 2147483648)))) = RRReject (-2147483648) [2%N] 77
  /\ finalise (process_receive_result h (MSuccess (Some (VI32 1)))) = RRSuccess [[1%N]] false [2%N] 77
  /\ finalise (process_receive_result h (MSuccess None)) = RRTrap 0
  /\ finalise (process_receive_result h (MErr true)) = RROutOfEnergy
  /\ finalise (process_receive_result h (MErr false)) = RRTrap 77
  /\ process_init_result h (MSuccess (Some (VI32 1))) = inl (Some 1)
  /\ process_init_result h (MSuccess (Some (VI32 0))) = inr (IRSuccess [[1%N]] [2%N] 77)
  /\ process_init_result h (MSuccess (Some (VI32 4294967295))) = inr (IRReject (-1) [2%N] 77).
Proof. vm_compute. repeat split. Qed.
