(** C16 - the name validators accept exactly the documented grammar. *)
From Coq Require Import NArith List Bool Lia.
From CB Require Import Contract.Names.
Import ListNotations.
Local Open Scope N_scope.

Arguments N.add : simpl never.
Arguments N.leb : simpl never.
Arguments N.ltb : simpl never.
Arguments N.eqb : simpl never.

Lemma name_char_ok_spec : forall c, name_char_ok c = true <-> name_char c.
Proof.
  intros c. unfold name_char_ok, is_ascii_alphanumeric, is_ascii_punctuation, name_char.
  rewrite !orb_true_iff, !andb_true_iff, !N.leb_le. lia.
Qed.

Lemma starts_with_spec : forall p s, starts_with p s = true <-> exists rest, s = p ++ rest.
Proof.
  induction p as [|x p IH]; intros s.
  - cbn. split; [intros _; exists s; reflexivity | reflexivity].
  - destruct s as [|y s]; cbn.
    + split; [discriminate | intros [r H]; discriminate].
    + rewrite andb_true_iff, N.eqb_eq, IH. split.
      * intros [-> [r ->]]. exists r. reflexivity.
      * intros [r H]. inversion H; subst. split; [reflexivity | exists r; reflexivity].
Qed.

Lemma contains_dot_spec : forall s, contains_dot s = true <-> In 46 s.
Proof.
  intros s. unfold contains_dot. rewrite existsb_exists. split.
  - intros [c [Hin Hc]]. apply N.eqb_eq in Hc. subst. exact Hin.
  - intros H. exists 46. split; [exact H | reflexivity].
Qed.

Lemma utf8_len_ascii : forall s, Forall name_char s -> utf8_len s = N.of_nat (length s).
Proof.
  induction 1 as [|c s Hc _ IH]; [reflexivity|].
  cbn [utf8_len length]. rewrite IH, Nat2N.inj_succ. unfold utf8_len_char.
  destruct (c <? 128) eqn:E; [lia|]. apply N.ltb_ge in E. unfold name_char in Hc. lia.
Qed.

Lemma forallb_name_char : forall s, forallb name_char_ok s = true <-> Forall name_char s.
Proof.
  intros s. rewrite forallb_forall, Forall_forall. split; intros H c Hc; apply name_char_ok_spec; auto.
Qed.

Lemma negb_true_false : forall b, negb b = false <-> b = true.
Proof. destruct b; cbn; split; congruence. Qed.

(** *** contract names *)
Lemma contract_name_iff_grammar : forall s, valid_contract_name s = true <-> contract_name_grammar s.
Proof.
  intros s. unfold valid_contract_name, contract_name_check, contract_name_grammar.
  split.
  - destruct (starts_with INIT_PREFIX s) eqn:P; cbn [negb]; [|discriminate].
    destruct (MAX_FUNC_NAME_SIZE <? utf8_len s) eqn:L; [discriminate|].
    destruct (contains_dot s) eqn:D; [discriminate|].
    destruct (forallb name_char_ok s) eqn:F; cbn [negb]; [|discriminate]. intros _.
    apply starts_with_spec in P. apply forallb_name_char in F. apply N.ltb_ge in L.
    rewrite (utf8_len_ascii s F) in L. unfold MAX_FUNC_NAME_SIZE in L.
    repeat split; [exact P | exact L |].
    rewrite Forall_forall in *. intros c Hc. split; [auto|].
    intros ->. apply contains_dot_spec in Hc. congruence.
  - intros [P [L F]].
    assert (F1 : Forall name_char s) by (eapply Forall_impl; [|exact F]; cbn; tauto).
    apply starts_with_spec in P. rewrite P. cbn [negb].
    rewrite (utf8_len_ascii s F1). unfold MAX_FUNC_NAME_SIZE.
    assert (100 <? N.of_nat (length s) = false) as -> by (apply N.ltb_ge; exact L).
    destruct (contains_dot s) eqn:D.
    + apply contains_dot_spec in D. rewrite Forall_forall in F. destruct (F _ D) as [_ X]. congruence.
    + apply forallb_name_char in F1. rewrite F1. reflexivity.
Qed.

(** *** receive names *)
Lemma receive_name_iff_grammar : forall s, valid_receive_name s = true <-> receive_name_grammar s.
Proof.
  intros s. unfold valid_receive_name, receive_name_check, receive_name_grammar. split.
  - destruct (contains_dot s) eqn:D; cbn [negb]; [|discriminate].
    destruct (MAX_FUNC_NAME_SIZE <? utf8_len s) eqn:L; [discriminate|].
    destruct (forallb name_char_ok s) eqn:F; cbn [negb]; [|discriminate]. intros _.
    apply contains_dot_spec in D. apply forallb_name_char in F. apply N.ltb_ge in L.
    rewrite (utf8_len_ascii s F) in L. unfold MAX_FUNC_NAME_SIZE in L. auto.
  - intros [D [L F]]. apply contains_dot_spec in D. rewrite D. cbn [negb].
    rewrite (utf8_len_ascii s F). unfold MAX_FUNC_NAME_SIZE.
    assert (100 <? N.of_nat (length s) = false) as -> by (apply N.ltb_ge; exact L).
    apply forallb_name_char in F. rewrite F. reflexivity.
Qed.

(** *** entrypoint names (at most 99 bytes: the code compares with [>=]) *)
Lemma entrypoint_name_iff_grammar : forall s, valid_entrypoint_name s = true <-> entrypoint_name_grammar s.
Proof.
  intros s. unfold valid_entrypoint_name, entrypoint_name_check, entrypoint_name_grammar. split.
  - destruct (MAX_FUNC_NAME_SIZE <=? utf8_len s) eqn:L; [discriminate|].
    destruct (forallb name_char_ok s) eqn:F; cbn [negb]; [|discriminate]. intros _.
    apply forallb_name_char in F. apply N.leb_gt in L.
    rewrite (utf8_len_ascii s F) in L. unfold MAX_FUNC_NAME_SIZE in L. split; [lia | exact F].
  - intros [L F]. rewrite (utf8_len_ascii s F). unfold MAX_FUNC_NAME_SIZE.
    assert (100 <=? N.of_nat (length s) = false) as -> by (apply N.leb_gt; lia).
    apply forallb_name_char in F. rewrite F. reflexivity.
Qed.

(** a name is printed as itself, so "parse (print n) = n" is: a valid name stays valid *)
(** [OwnedReceiveName::construct] of valid names has the expected parts *)
Lemma split_dot_app : forall a b, ~ In 46 a -> split_dot (a ++ 46 :: b) = (a, b).
Proof.
  induction a as [|c a IH]; intros b H; cbn.
  - reflexivity.
  - destruct (c =? 46) eqn:E; [apply N.eqb_eq in E; subst; exfalso; apply H; left; reflexivity|].
    rewrite IH by (intros X; apply H; right; exact X). reflexivity.
Qed.

Lemma construct_receive_name_parts : forall c e,
  contract_name_grammar c ->
  split_dot (construct_receive_name c e) = (skipn 5 c, e).
Proof.
  intros c e [[rest ->] [_ F]]. unfold construct_receive_name.
  change (skipn 5 (INIT_PREFIX ++ rest)) with rest.
  apply (split_dot_app rest e). intros Hin.
  rewrite Forall_forall in F. destruct (F 46) as [_ X]; [apply in_or_app; right; exact Hin | congruence].
Qed.

Lemma construct_receive_name_valid : forall c e,
  contract_name_grammar c -> entrypoint_name_grammar e ->
  N.of_nat (length c) + N.of_nat (length e) <= 104 ->
  receive_name_grammar (construct_receive_name c e).
Proof.
  intros c e [[rest ->] [_ F]] [_ Fe] L. unfold construct_receive_name.
  change (skipn 5 (INIT_PREFIX ++ rest)) with rest.
  rewrite app_length in L. cbn [length INIT_PREFIX] in L.
  repeat split.
  - apply in_or_app. right. left. reflexivity.
  - rewrite !app_length. cbn [length]. lia.
  - apply Forall_app. split.
    + apply Forall_app in F. destruct F as [_ F]. eapply Forall_impl; [|exact F]. cbn. tauto.
    + constructor; [unfold name_char; lia | exact Fe].
Qed.
