(** C14 - well-formedness of the v0 action tree (Outcome::cur_state): every And/Or node refers only to
    strictly smaller action identifiers (no self reference, no forward reference). *)
From Coq Require Import NArith List Bool Lia.
From CB Require Import Gen.HostCosts Contract.HostBase Contract.HostBaseProofs Contract.HostV0
  Contract.HostV0Proofs Contract.HostLimitsProofs.
Import ListNotations.
Local Open Scope N_scope.

Definition child_ok (i : N) (a : action) : Prop :=
  match a with
  | AAnd l r | AOr l r => l < i /\ r < i
  | _ => True
  end.

Fixpoint wf_from (n : N) (acts : list action) : Prop :=
  match acts with
  | [] => True
  | a :: t => child_ok n a /\ wf_from (N.succ n) t
  end.

Definition v0_actions_wf (acts : list action) : Prop := wf_from 0 acts.

Lemma wf_from_snoc : forall acts n a,
  wf_from n acts -> child_ok (n + lenN acts) a -> wf_from n (acts ++ [a]).
Proof.
  induction acts as [|b t IH]; intros n a Hw Hc; cbn [app wf_from] in *.
  - rewrite lenN_nil, N.add_0_r in Hc. split; [assumption|exact I].
  - destruct Hw as [Hb Ht]. split; [assumption|]. apply IH; [assumption|].
    rewrite lenN_cons in Hc. replace (N.succ n + lenN t) with (n + N.succ (lenN t)) by lia. assumption.
Qed.

Lemma wf_from_nth : forall acts n i a,
  wf_from n acts -> nth_error acts i = Some a -> child_ok (n + N.of_nat i) a.
Proof.
  induction acts as [|b t IH]; intros n i a Hw Hn; destruct i; cbn [nth_error] in Hn; try discriminate.
  - injection Hn as <-. destruct Hw as [Hb _]. rewrite N.add_0_r. assumption.
  - destruct Hw as [_ Ht]. specialize (IH _ _ _ Ht Hn).
    replace (n + N.of_nat (S i)) with (N.succ n + N.of_nat i) by lia. assumption.
Qed.

Section V0.
Context {X : Type}.
Notation S0 := (st (host X)).

Definition actions_ok (s : S0) : Prop := v0_actions_wf (h_actions (hs s)).

(** the combinators succeed exactly on identifiers of actions that already exist *)
Theorem out_combine_ok_iff : forall mk l r (s : S0),
  (exists s' x, out_combine mk l r s = (s', Ok x)) <->
  (l < u32 (lenN (h_actions (hs s))) /\ r < u32 (lenN (h_actions (hs s)))).
Proof.
  intros mk l r s. destruct s as [e0 m0 ev0 h0]. destruct h0.
  unfold out_combine, push_action, ensure, bind, get_hs, set_hs, ret, trap. cbn [hs HostV0.h_actions].
  destruct (N.ltb_spec l (u32 (lenN h_actions))); destruct (N.ltb_spec r (u32 (lenN h_actions))); cbn [andb];
    split; try (intros [s' [x Hx]]; discriminate); try (intros [? ?]; lia); try (intros _; split; assumption);
    intros _; eexists _, _; reflexivity.
Qed.

Theorem call_v0_actions_ok : forall f args (s : S0), actions_ok s -> actions_ok (fst (call_v0 f args s)).
Proof.
  intros f args s H. destruct s as [e0 m0 ev0 h0]; destruct h0. unfold actions_ok, v0_actions_wf in *.
  cbn [hs HostV0.h_actions] in H.
  unfold call_v0. destruct f; split_args args; cbn [call_v0_raw]; unfold_v0;
    mstep; cbv beta iota zeta delta [fst snd hs HostV0.h_actions with_state with_logs with_actions with_frames with_balance with_ext] in *;
    first [assumption
          | apply wf_from_snoc; [assumption|]; cbn [child_ok]; first [exact I | bool_hyps; prim_facts; u32_facts; lia]].
Qed.

End V0.
