(** C16 - checked arithmetic is exact or reports overflow; quotient/remainder law. *)
From Coq Require Import NArith List Bool Lia.
From CB Require Import Contract.CheckedArith.
Local Open Scope N_scope.

Arguments N.add : simpl never.
Arguments N.sub : simpl never.
Arguments N.mul : simpl never.
Arguments N.leb : simpl never.
Arguments N.ltb : simpl never.
Arguments N.eqb : simpl never.

Lemma checked_add_spec : forall x y z, checked_add x y = Some z <-> z = x + y /\ z < W64.
Proof.
  intros x y z. unfold checked_add. destruct (x + y <? W64) eqn:E.
  - apply N.ltb_lt in E. split; [intros H; inversion H; subst; auto | intros [-> _]; reflexivity].
  - apply N.ltb_ge in E. split; [discriminate | intros [-> H]; lia].
Qed.
Lemma checked_add_none : forall x y, checked_add x y = None <-> W64 <= x + y.
Proof.
  intros x y. unfold checked_add. destruct (x + y <? W64) eqn:E.
  - apply N.ltb_lt in E. split; [discriminate | lia].
  - apply N.ltb_ge in E. split; [auto | reflexivity].
Qed.
(** never a wrapped result *)
Lemma checked_add_no_wrap : forall x y z, x < W64 -> y < W64 -> checked_add x y = Some z -> z <> (x + y) mod W64 \/ x + y < W64.
Proof. intros x y z _ _ H. apply checked_add_spec in H. right. lia. Qed.

Lemma checked_sub_spec : forall x y z, checked_sub x y = Some z <-> y <= x /\ z + y = x.
Proof.
  intros x y z. unfold checked_sub. destruct (y <=? x) eqn:E.
  - apply N.leb_le in E. split; [intros H; inversion H; subst; split; lia | intros [_ H]; f_equal; lia].
  - apply N.leb_gt in E. split; [discriminate | intros [H _]; lia].
Qed.
Lemma checked_sub_none : forall x y, checked_sub x y = None <-> x < y.
Proof.
  intros x y. unfold checked_sub. destruct (y <=? x) eqn:E.
  - apply N.leb_le in E. split; [discriminate | lia].
  - apply N.leb_gt in E. split; [auto | reflexivity].
Qed.
Lemma checked_sub_in_range : forall x y z, x < W64 -> checked_sub x y = Some z -> z < W64.
Proof. intros x y z Hx H. apply checked_sub_spec in H. lia. Qed.

Lemma duration_between_spec : forall t o, duration_between t o + N.min t o = N.max t o.
Proof. intros t o. unfold duration_between. destruct (o <=? t) eqn:E; [apply N.leb_le in E | apply N.leb_gt in E]; lia. Qed.
Lemma duration_between_sym : forall t o, duration_between t o = duration_between o t.
Proof.
  intros t o. unfold duration_between.
  destruct (o <=? t) eqn:E1; destruct (t <=? o) eqn:E2; try reflexivity.
  - apply N.leb_le in E1, E2. lia.
  - apply N.leb_gt in E1, E2. lia.
Qed.

Lemma quotient_remainder_law : forall x d q r, quotient_remainder x d = Some (q, r) <->
  d <> 0 /\ x = q * d + r /\ r < d.
Proof.
  intros x d q r. unfold quotient_remainder. destruct (d =? 0) eqn:E.
  - apply N.eqb_eq in E. split; [discriminate | intros [H _]; congruence].
  - apply N.eqb_neq in E. split.
    + intros H. inversion H; subst. repeat split; [exact E | | apply N.mod_lt; exact E].
      rewrite N.mul_comm. apply N.div_mod. exact E.
    + intros [_ [Hx Hr]]. f_equal.
      symmetry in Hx. rewrite N.mul_comm in Hx.
      destruct (N.div_mod_unique d q (x / d) r (x mod d) Hr (N.mod_lt x d E)) as [-> ->];
        [rewrite Hx; apply N.div_mod; exact E | reflexivity].
Qed.
Lemma quotient_remainder_in_range : forall x d q r, x < W64 -> quotient_remainder x d = Some (q, r) -> q < W64 /\ r < W64.
Proof.
  intros x d q r Hx H. apply quotient_remainder_law in H. destruct H as [Hd [E Hr]].
  subst x. assert (Q : q * 1 <= q * d) by (apply N.mul_le_mono_l; lia). rewrite N.mul_1_r in Q. lia.
Qed.

Lemma mul_or_panic_spec : forall x y z, mul_or_panic x y = Some z <-> z = x * y /\ z < W64.
Proof.
  intros x y z. unfold mul_or_panic. destruct (x * y <? W64) eqn:E.
  - apply N.ltb_lt in E. split; [intros H; inversion H; subst; auto | intros [-> _]; reflexivity].
  - apply N.ltb_ge in E. split; [discriminate | intros [-> H]; lia].
Qed.

(** exchange rates: when the quotient fits into 64 bits it is the floor of the rational value *)
Lemma convert_euro_cent_exact : forall num den cents v, den <> 0 ->
  num * cents / (den * 100) < W64 ->
  convert_euro_cent_to_amount num den cents = Some v ->
  v * (den * 100) <= num * cents < (v + 1) * (den * 100).
Proof.
  intros num den cents v Hd Hfit H. unfold convert_euro_cent_to_amount in H.
  apply N.eqb_neq in Hd. rewrite Hd in H. apply N.eqb_neq in Hd. inversion H; subst; clear H.
  rewrite N.mod_small by exact Hfit.
  assert (P : den * 100 <> 0) by lia.
  pose proof (N.div_mod (num * cents) (den * 100) P) as E. pose proof (N.mod_lt (num * cents) (den * 100) P) as L.
  set (a := num * cents) in *. set (b := den * 100) in *. set (q := a / b) in *. set (r := a mod b) in *.
  clearbody q r a b. subst a. split; [lia|]. rewrite N.mul_add_distr_r. lia.
Qed.
Lemma convert_euro_cent_monotone : forall num den c1 c2, c1 <= c2 ->
  num * c1 / (den * 100) <= num * c2 / (den * 100).
Proof.
  intros. destruct (N.eq_dec den 0) as [->|Hd]; [change (0 * 100) with 0; destruct (num * c1), (num * c2); reflexivity|].
  apply N.div_le_mono; [lia | nia].
Qed.
