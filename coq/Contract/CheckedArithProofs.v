(** C16 - checked arithmetic is exact or reports overflow; quotient/remainder law. *)
From Coq Require Import NArith List Bool Lia.
From CB Require Import Contract.CheckedArith.
Local Open Scope N_scope.

Arguments N.add : simpl never.
Arguments N.sub : simpl never.
Arguments N.mul : simpl never.
Arguments N.leb : simpl never.
Arguments N.ltb : simpl never.
Arguments N.eqb : simpl never.

Lemma checked_add_spec : forall x y z, checked_add x y = Some z <-> z = x + y /\ z < W64.
Proof.
  intros x y z. unfold checked_add. destruct (x + y <? W64) eqn:E.
  - apply N.ltb_lt in E. split; [intros H; inversion H; subst; auto | intros [-> _]; reflexivity].
  - apply N.ltb_ge in E. split; [discriminate | intros [-> H]; lia].
Qed.
Lemma checked_add_none : forall x y, checked_add x y = None <-> W64 <= x + y.
Proof.
  intros x y. unfold checked_add. destruct (x + y <? W64) eqn:E.
  - apply N.ltb_lt in E. split; [discriminate | lia].
  - apply N.ltb_ge in E. split; [auto | reflexivity].
Qed.
(** never a wrapped result *)
Lemma checked_add_no_wrap : forall x y z, x < W64 -> y < W64 -> checked_add x y = Some z -> z <> (x + y) mod W64 \/ x + y < W64.
Proof. intros x y z _ _ H. apply checked_add_spec in H. right. lia. Qed.

Lemma checked_sub_spec : forall x y z, checked_sub x y = Some z <-> y <= x /\ z + y = x.
Proof.
  intros x y z. unfold checked_sub. destruct (y <=? x) eqn:E.
  - apply N.leb_le in E. split; [intros H; inversion H; subst; split; lia | intros [_ H]; f_equal; lia].
  - apply N.leb_gt in E. split; [discriminate | intros [H _]; lia].
Qed.
Lemma checked_sub_none : forall x y, checked_sub x y = None <-> x < y.
Proof.
  intros x y. unfold checked_sub. destruct (y <=? x) eqn:E.
  - apply N.leb_le in E. split; [discriminate | lia].
  - apply N.leb_gt in E. split; [auto | reflexivity].
Qed.
Lemma checked_sub_in_range : forall x y z, x < W64 -> checked_sub x y = Some z -> z < W64.
Proof. intros x y z Hx H. apply checked_sub_spec in H. lia. Qed.

Lemma duration_between_spec : forall t o, duration_between t o + N.min t o = N.max t o.
Proof. intros t o. unfold duration_between. destruct (o <=? t) eqn:E; [apply N.leb_le in E | apply N.leb_gt in E]; lia. Qed.
Lemma duration_between_sym : forall t o, duration_between t o = duration_between o t.
Proof.
  intros t o. unfold duration_between.
  destruct (o <=? t) eqn:E1; destruct (t <=? o) eqn:E2; try reflexivity.
  - apply N.leb_le in E1, E2. lia.
  - apply N.leb_gt in E1, E2. lia.
Qed.

Lemma quotient_remainder_law : forall x d q r, quotient_remainder x d = Some (q, r) <->
  d <> 0 /\ x = q * d + r /\ r < d.
Proof.
  intros x d q r. unfold quotient_remainder. destruct (d =? 0) eqn:E.
  - apply N.eqb_eq in E. split; [discriminate | intros [H _]; congruence].
  - apply N.eqb_neq in E. split.
    + intros H. inversion H; subst. repeat split; [exact E | | apply N.mod_lt; exact E].
      rewrite N.mul_comm. apply N.div_mod. exact E.
    + intros [_ [Hx Hr]]. f_equal.
      symmetry in Hx. rewrite N.mul_comm in Hx.
      destruct (N.div_mod_unique d q (x / d) r (x mod d) Hr (N.mod_lt x d E)) as [-> ->];
        [rewrite Hx; apply N.div_mod; exact E | reflexivity].
Qed.
Lemma quotient_remainder_in_range : forall x d q r, x < W64 -> quotient_remainder x d = Some (q, r) -> q < W64 /\ r < W64.
Proof.
  intros x d q r Hx H. apply quotient_remainder_law in H. destruct H as [Hd [E Hr]].
  subst x. assert (Q : q * 1 <= q * d) by (apply N.mul_le_mono_l; lia). rewrite N.mul_1_r in Q. lia.
Qed.

Lemma mul_or_panic_spec : forall x y z, mul_or_panic x y = Some z <-> z = x * y /\ z < W64.
Proof.
  intros x y z. unfold mul_or_panic. destruct (x * y <? W64) eqn:E.
  - apply N.ltb_lt in E. split; [intros H; inversion H; subst; auto | intros [-> _]; reflexivity].
  - apply N.ltb_ge in E. split; [discriminate | intros [-> H]; lia].
Qed.

(** exchange rates: when the quotient fits into 64 bits it is the floor of the rational value *)
Lemma convert_euro_cent_exact : forall num den cents v, den <> 0 ->
  num * cents / (den * 100) < W64 ->
  convert_euro_cent_to_amount num den cents = Some v ->
  v * (den * 100) <= num * cents < (v + 1) * (den * 100).
Proof.
  intros num den cents v Hd Hfit H. unfold convert_euro_cent_to_amount in H.
  apply N.eqb_neq in Hd. rewrite Hd in H. apply N.eqb_neq in Hd. inversion H; subst; clear H.
  rewrite N.mod_small by exact Hfit.
  assert (P : den * 100 <> 0) by lia.
  pose proof (N.div_mod (num * cents) (den * 100) P) as E. pose proof (N.mod_lt (num * cents) (den * 100) P) as L.
  set (a := num * cents) in *. set (b := den * 100) in *. set (q := a / b) in *. set (r := a mod b) in *.
  clearbody q r a b. subst a. split; [lia|]. rewrite N.mul_add_distr_r. lia.
Qed.
Lemma convert_euro_cent_monotone : forall num den c1 c2, c1 <= c2 ->
  num * c1 / (den * 100) <= num * c2 / (den * 100).
Proof.
  intros. destruct (N.eq_dec den 0) as [->|Hd]; [change (0 * 100) with 0; destruct (num * c1), (num * c2); reflexivity|].
  apply N.div_le_mono; [lia | nia].
Qed.

(** ** exchange-rate conversions at the u128 level *)
Definition euro_floor (num den cents : N) : N := num * cents / (den * 100).
Definition cent_floor (num den micro : N) : N := micro * 100 * den / num.

(** the floor of the rational value *)
Lemma floor_law : forall a b, b <> 0 -> (a / b) * b <= a < (a / b + 1) * b.
Proof.
  intros a b Hb. pose proof (N.div_mod a b Hb) as E. pose proof (N.mod_lt a b Hb) as L.
  set (q := a / b) in *. set (r := a mod b) in *. clearbody q r. subst a.
  split; [lia|]. rewrite N.mul_add_distr_r. lia.
Qed.
Lemma floor_unique : forall a b q, b <> 0 -> q * b <= a < (q + 1) * b -> q = a / b.
Proof.
  intros a b q Hb [H1 H2]. rewrite N.mul_add_distr_r in H2.
  apply (N.div_unique a b q (a - q * b)); lia.
Qed.

(** [convert_euro_cent_to_amount]: the u128 products of u64 values cannot overflow *)
Lemma euro_cent_no_intermediate_overflow : forall num den cents,
  num < W64 -> den < W64 -> cents < W64 -> num * cents < W128 /\ den * 100 < W128.
Proof.
  intros num den cents H1 H2 H3. unfold W64, W128 in *. split; [|lia].
  assert (num * cents <= 18446744073709551615 * 18446744073709551615) by (apply N.mul_le_mono; lia). lia.
Qed.
Lemma euro_cent_result : forall num den cents, den <> 0 ->
  convert_euro_cent_to_amount num den cents = Some (euro_floor num den cents mod W64)
  /\ euro_floor num den cents * (den * 100) <= num * cents < (euro_floor num den cents + 1) * (den * 100).
Proof.
  intros num den cents Hd. split.
  - unfold convert_euro_cent_to_amount. apply N.eqb_neq in Hd. rewrite Hd. reflexivity.
  - apply floor_law. lia.
Qed.
(** exact in the rationals (floor) exactly when the true result fits into 64 bits;
    otherwise [as u64] keeps the low 64 bits: the overflow is NOT reported *)
Lemma euro_cent_exact_iff : forall num den cents v, den <> 0 ->
  convert_euro_cent_to_amount num den cents = Some v ->
  (v = euro_floor num den cents <-> euro_floor num den cents < W64).
Proof.
  intros num den cents v Hd H. destruct (euro_cent_result num den cents Hd) as [E _].
  rewrite E in H. inversion H; subst. split.
  - intros X. rewrite <- X. apply N.mod_lt. unfold W64. lia.
  - intros X. apply N.mod_small. exact X.
Qed.
Lemma euro_cent_monotone_when_fits : forall num den c1 c2 v1 v2, den <> 0 -> c1 <= c2 ->
  euro_floor num den c2 < W64 ->
  convert_euro_cent_to_amount num den c1 = Some v1 -> convert_euro_cent_to_amount num den c2 = Some v2 ->
  v1 <= v2.
Proof.
  intros num den c1 c2 v1 v2 Hd Hc Hfit H1 H2.
  pose proof (convert_euro_cent_monotone num den c1 c2 Hc) as M. fold (euro_floor num den c1) (euro_floor num den c2) in M.
  apply (euro_cent_exact_iff _ _ _ _ Hd) in H2 as E2. apply E2 in Hfit as ->.
  apply (euro_cent_exact_iff _ _ _ _ Hd) in H1 as E1.
  assert (F1 : euro_floor num den c1 < W64) by lia. apply E1 in F1 as ->. exact M.
Qed.
(** witness: 2 euro cents per ... numerator 200, denominator 1: the result wraps at 2^63 cents *)
Lemma euro_cent_truncation_witness :
  convert_euro_cent_to_amount 200 1 9223372036854775807 = Some 18446744073709551614
  /\ convert_euro_cent_to_amount 200 1 9223372036854775808 = Some 0
  /\ euro_floor 200 1 9223372036854775808 = W64.
Proof. repeat split; vm_compute; reflexivity. Qed.

(** [convert_amount_to_euro_cent]: [None] (arithmetic-overflow panic of the checked build, or
    division by zero) exactly when the u128 product does not fit *)
Lemma amount_to_euro_cent_none_iff : forall num den micro,
  convert_amount_to_euro_cent num den micro = None <-> num = 0 \/ W128 <= micro * 100 * den.
Proof.
  intros num den micro. unfold convert_amount_to_euro_cent.
  destruct (num =? 0) eqn:E; [apply N.eqb_eq in E; split; auto|]. apply N.eqb_neq in E.
  destruct (micro * 100 * den <? W128) eqn:L.
  - apply N.ltb_lt in L. split; [discriminate | intros [X|X]; [congruence | lia]].
  - apply N.ltb_ge in L. split; auto.
Qed.
Lemma amount_to_euro_cent_result : forall num den micro v,
  convert_amount_to_euro_cent num den micro = Some v ->
  num <> 0 /\ micro * 100 * den < W128 /\ v = cent_floor num den micro mod W64
  /\ cent_floor num den micro * num <= micro * 100 * den < (cent_floor num den micro + 1) * num.
Proof.
  intros num den micro v H. unfold convert_amount_to_euro_cent in H.
  destruct (num =? 0) eqn:E; [discriminate|]. apply N.eqb_neq in E.
  destruct (micro * 100 * den <? W128) eqn:L; [|discriminate]. apply N.ltb_lt in L. inversion H; subst.
  repeat split; try assumption; apply floor_law; exact E.
Qed.
Lemma amount_to_euro_cent_exact_iff : forall num den micro v,
  convert_amount_to_euro_cent num den micro = Some v ->
  (v = cent_floor num den micro <-> cent_floor num den micro < W64).
Proof.
  intros num den micro v H. destruct (amount_to_euro_cent_result _ _ _ _ H) as (_ & _ & -> & _). split.
  - intros X. rewrite <- X. apply N.mod_lt. unfold W64. lia.
  - intros X. apply N.mod_small. exact X.
Qed.
(** a reported overflow is a real one: when the u128 product does not fit, the true result
    exceeds u64 (the numerator is a u64) *)
Lemma amount_to_euro_cent_none_sound : forall num den micro, num <> 0 -> num < W64 ->
  W128 <= micro * 100 * den -> W64 <= cent_floor num den micro.
Proof.
  intros num den micro Hn Hlt H. unfold cent_floor.
  apply N.div_le_lower_bound; [exact Hn|]. unfold W64, W128 in *. nia.
Qed.
(** ... but not every overflow is reported: the result is truncated by [as u64] *)
Lemma amount_to_euro_cent_truncation_witness :
  convert_amount_to_euro_cent 1 1 9223372036854775808 = Some 0
  /\ cent_floor 1 1 9223372036854775808 = 50 * W64.
Proof. split; vm_compute; reflexivity. Qed.
Lemma cent_floor_monotone : forall num den m1 m2, m1 <= m2 -> cent_floor num den m1 <= cent_floor num den m2.
Proof.
  intros num den m1 m2 H. unfold cent_floor. destruct (N.eq_dec num 0) as [->|Hn].
  - destruct (m1 * 100 * den), (m2 * 100 * den); reflexivity.
  - apply N.div_le_mono; [exact Hn | nia].
Qed.
Lemma amount_to_euro_cent_monotone_when_fits : forall num den m1 m2 v1 v2, m1 <= m2 ->
  cent_floor num den m2 < W64 ->
  convert_amount_to_euro_cent num den m1 = Some v1 -> convert_amount_to_euro_cent num den m2 = Some v2 ->
  v1 <= v2.
Proof.
  intros num den m1 m2 v1 v2 Hm Hfit H1 H2.
  pose proof (cent_floor_monotone num den m1 m2 Hm) as M.
  apply amount_to_euro_cent_exact_iff in H2 as E2. apply E2 in Hfit as ->.
  apply amount_to_euro_cent_exact_iff in H1 as E1.
  assert (F1 : cent_floor num den m1 < W64) by lia. apply E1 in F1 as ->. exact M.
Qed.
