(** C16 - [parse_timestamp (print_timestamp ms) = Ok ms] for every u64, the calendar
    round trip behind it (400-year era swept exhaustively, eras handled algebraically), and the
    refutation of the printer before the repair. *)
From Coq Require Import NArith ZArith List Bool Lia.
From CB Require Import Contract.Text Contract.TextProofs.
Import ListNotations.
Local Open Scope N_scope.

Arguments N.add : simpl never.
Arguments N.sub : simpl never.
Arguments N.mul : simpl never.
Arguments N.eqb : simpl never.
Arguments N.ltb : simpl never.
Arguments N.leb : simpl never.
Arguments N.pow : simpl never.
Arguments N.div : simpl never.
Arguments N.modulo : simpl never.

(** ** one 400-year era, swept exhaustively *)
Definition doe_ok (doe : N) : bool :=
  let '(yoe, m, d) := civil_of_doe doe in
  let yy := if m <=? 2 then yoe + 1 else yoe in
  (yoe <? 400) && (1 <=? m) && (m <=? 12) && (1 <=? d) && (d <=? days_in_month yy m)
  && (doe_of_civil yoe m d =? doe) && ((146037 <=? doe) || (yy <=? 399)).

Definition sweep_step (st : N * bool) : N * bool := (fst st + 1, snd st && doe_ok (fst st)).
Definition sweep (n : N) : N * bool := N.iter n sweep_step (0, true).

Lemma sweep_fst : forall n, fst (sweep n) = n.
Proof.
  induction n as [|n IH] using N.peano_ind; [reflexivity|].
  unfold sweep in *. rewrite N.iter_succ. unfold sweep_step at 1. cbn [fst]. rewrite IH. lia.
Qed.
Lemma sweep_sound : forall n, snd (sweep n) = true -> forall i, i < n -> doe_ok i = true.
Proof.
  induction n as [|n IH] using N.peano_ind; intros H i Hi; [lia|].
  unfold sweep in H. rewrite N.iter_succ in H. fold (sweep n) in H.
  unfold sweep_step in H. cbn [snd] in H. rewrite sweep_fst in H.
  apply andb_prop in H as [H1 H2].
  destruct (N.eq_dec i n) as [->|Hne]; [exact H2 | apply IH; [exact H1 | lia]].
Qed.
Lemma sweep_era : snd (sweep 146097) = true.
Proof. vm_compute. reflexivity. Qed.
Lemma doe_ok_all : forall doe, doe < 146097 -> doe_ok doe = true.
Proof. exact (sweep_sound 146097 sweep_era). Qed.

(** ** leap years repeat every 400 years *)
Lemma is_leap_add400 : forall y e, is_leap (y + e * 400) = is_leap y.
Proof.
  intros y e. unfold is_leap.
  replace (y + e * 400) with (y + (e * 100) * 4) at 1 by lia. rewrite N.mod_add by lia.
  replace (y + e * 400) with (y + (e * 4) * 100) at 1 by lia. rewrite N.mod_add by lia.
  rewrite N.mod_add by lia. reflexivity.
Qed.

(** ** the calendar round trip for every day *)
Lemma civil_roundtrip : forall z y m d, civil_from_shifted z = (y, m, d) ->
  shifted_from_civil y m d = z /\ valid_date y m d = true
  /\ (z < 3652365 -> y <= 9999) /\ (719468 <= z -> 1600 <= y).
Proof.
  intros z y m d H. unfold civil_from_shifted, DAYS_PER_ERA in H.
  set (era := z / 146097) in *. set (doe := z mod 146097) in *.
  assert (Hdoe : doe < 146097) by (apply N.mod_lt; lia).
  assert (Hz : z = 146097 * era + doe) by (apply N.div_mod; lia).
  pose proof (doe_ok_all doe Hdoe) as OK. unfold doe_ok in OK.
  destruct (civil_of_doe doe) as [[yoe m0] d0]. inversion H; subst m0 d0; clear H.
  match goal with H : _ = y |- _ => rewrite H end.
  set (yy := if m <=? 2 then yoe + 1 else yoe) in *.
  repeat (apply andb_prop in OK; destruct OK as [OK ?]).
  match goal with H : (yoe <? 400) = true |- _ => apply N.ltb_lt in H end.
  assert (Hy : y = yy + era * 400).
  { subst y yy. destruct (m <=? 2); lia. }
  assert (Hy' : (if m <=? 2 then y - 1 else y) = yoe + era * 400).
  { subst y yy. destruct (m <=? 2); lia. }
  clearbody era doe.
  split; [|split; [|split]].
  - unfold shifted_from_civil, DAYS_PER_ERA. cbv zeta. rewrite Hy'.
    rewrite N.div_add by lia. rewrite N.mod_add by lia.
    rewrite (N.div_small yoe 400) by assumption. rewrite (N.mod_small yoe 400) by assumption.
    match goal with H : (doe_of_civil yoe m d =? doe) = true |- _ => apply N.eqb_eq in H; rewrite H end.
    lia.
  - unfold valid_date. rewrite Hy. unfold days_in_month. rewrite is_leap_add400.
    fold (days_in_month yy m).
    repeat (apply andb_true_intro; split); assumption.
  - intros Hlt.
    match goal with H : (_ || _) = true |- _ => apply orb_prop in H; destruct H as [H|H] end.
    + apply N.leb_le in H. assert (era <= 23) by lia. subst yy. destruct (m <=? 2); lia.
    + apply N.leb_le in H. assert (era <= 24) by lia. lia.
  - intros Hge. assert (4 <= era) by lia. lia.
Qed.

(** ** pieces of the RFC 3339 parser on printed fields *)
Lemma take_digits_digits : forall ds acc rest, all_digits ds ->
  take_digits (length ds) acc (map digit_char ds ++ rest) = Some (val_msb acc ds, rest).
Proof.
  induction ds as [|x ds IH]; intros acc rest H; [reflexivity|].
  inversion H; subst. cbn [length take_digits map app val_msb].
  rewrite is_digit_char, digit_val_char by assumption. apply IH. assumption.
Qed.
Lemma take_fixed : forall k n rest, n < 10 ^ N.of_nat k ->
  take_digits k 0 (print_fixed k n ++ rest) = Some (n, rest).
Proof.
  intros k n rest H. rewrite print_fixed_eq.
  rewrite <- (fixed_digits_length k n) at 1.
  rewrite take_digits_digits by apply fixed_digits_digits.
  rewrite fixed_digits_val by exact H. replace (0 * 10 ^ N.of_nat k + n) with n by lia. reflexivity.
Qed.
Lemma expect_hd : forall c s, expect c (c :: s) = Some s.
Proof. intros. cbn. rewrite N.eqb_refl. reflexivity. Qed.

Lemma print_fixed3 : forall f, print_fixed 3 f =
  [digit_char ((f / 10 / 10) mod 10); digit_char ((f / 10) mod 10); digit_char (f mod 10)].
Proof. reflexivity. Qed.

Lemma parse_frac_none : forall rest, parse_frac (43 :: rest) = Some (0, 43 :: rest).
Proof. reflexivity. Qed.
Lemma parse_frac_millis : forall f rest, f < 1000 ->
  parse_frac (46 :: print_fixed 3 f ++ 43 :: rest) = Some (f * 1000000, 43 :: rest).
Proof.
  intros f rest Hf. rewrite print_fixed3. cbn [app].
  set (a := (f / 10 / 10) mod 10). set (b := (f / 10) mod 10). set (c := f mod 10).
  assert (Ha : a < 10) by (apply N.mod_lt; lia).
  assert (Hb : b < 10) by (apply N.mod_lt; lia).
  assert (Hc : c < 10) by (apply N.mod_lt; lia).
  assert (E : a * 100 + b * 10 + c = f).
  { unfold a, b, c. pose proof (N.div_mod f 10 ltac:(lia)). pose proof (N.div_mod (f / 10) 10 ltac:(lia)).
    assert (f / 10 / 10 < 10) by (apply N.div_lt_upper_bound; [lia|]; apply N.div_lt_upper_bound; lia).
    rewrite (N.mod_small (f / 10 / 10) 10) by assumption. lia. }
  clearbody a b c.
  unfold parse_frac. rewrite is_digit_char by assumption.
  cbn [frac_digits]. rewrite !is_digit_char by assumption. rewrite !digit_val_char.
  change (is_digit 43) with false. cbv iota.
  change (10 ^ N.of_nat 8) with 100000000. change (10 ^ N.of_nat 7) with 10000000. change (10 ^ N.of_nat 6) with 1000000.
  f_equal. f_equal. lia.
Qed.

(** the string printed for calendar fields: [print_rfc3339] with the fields named *)
Definition TZ_UTC : list N := [43; 48; 48; 58; 48; 48].
Definition rfc_string (y mo d h mi s frac : N) : list N :=
  print_fixed 4 y ++ 45 :: print_fixed 2 mo ++ 45 :: print_fixed 2 d ++ 84 ::
  print_fixed 2 h ++ 58 :: print_fixed 2 mi ++ 58 :: print_fixed 2 s ++
  (if frac =? 0 then [] else 46 :: print_fixed 3 frac) ++ TZ_UTC.

Lemma parse_rfc_string : forall y mo d h mi s frac,
  y < 10000 -> mo < 100 -> d < 100 -> h < 100 -> mi < 100 -> s < 100 -> frac < 1000 ->
  parse_rfc3339 (rfc_string y mo d h mi s frac) =
    if valid_date y mo d && (h <=? 23) && (mi <=? 59) && (s <=? 60) then
      if (y =? 0) && (mo <=? 2) then Err TBeforeUnixEpoch else
      let local_ms := shifted_from_civil y mo d * MS_D + h * MS_H + mi * MS_M + s * MS_S + frac in
      let utc := (Z.of_N local_ms - Z.of_N (EPOCH_SHIFT * MS_D) - 0 * 1000)%Z in
      if (utc <? 0)%Z then Err TBeforeUnixEpoch else Ok (Z.to_N utc)
    else Err TParseError.
Proof.
  intros y mo d h mi s frac Hy Hmo Hd Hh Hmi Hs Hf.
  unfold parse_rfc3339, rfc_string.
  rewrite (take_fixed 4 y) by exact Hy. cbv iota beta. rewrite expect_hd. cbv iota beta.
  rewrite (take_fixed 2 mo) by exact Hmo. cbv iota beta. rewrite expect_hd. cbv iota beta.
  rewrite (take_fixed 2 d) by exact Hd. cbv iota beta.
  change (84 =? 84) with true. cbn [orb negb]. cbv iota.
  rewrite (take_fixed 2 h) by exact Hh. cbv iota beta. rewrite expect_hd. cbv iota beta.
  rewrite (take_fixed 2 mi) by exact Hmi. cbv iota beta. rewrite expect_hd. cbv iota beta.
  rewrite (take_fixed 2 s) by exact Hs. cbv iota beta.
  assert (P : parse_frac ((if frac =? 0 then [] else 46 :: print_fixed 3 frac) ++ TZ_UTC)
              = Some (frac * 1000000, TZ_UTC)).
  { destruct (frac =? 0) eqn:E.
    - apply N.eqb_eq in E. subst frac. reflexivity.
    - cbn [app]. unfold TZ_UTC. apply parse_frac_millis. exact Hf. }
  rewrite P. cbv iota beta.
  change (parse_offset TZ_UTC) with (Some (0%Z, @nil N)). cbv iota beta.
  rewrite N.div_mul by lia. reflexivity.
Qed.

Lemma print_rfc3339_fields : forall ms y mo d,
  civil_from_shifted (ms / MS_D + EPOCH_SHIFT) = (y, mo, d) ->
  print_rfc3339 ms = rfc_string y mo d ((ms mod MS_D) / MS_H) (((ms mod MS_D) mod MS_H) / MS_M)
                                  (((ms mod MS_D) mod MS_M) / MS_S) ((ms mod MS_D) mod MS_S).
Proof.
  intros ms y mo d H. unfold print_rfc3339. rewrite H. unfold rfc_string, TZ_UTC.
  repeat (rewrite <- app_assoc; cbn [app]). reflexivity.
Qed.

Lemma rfc_string_not_u64 : forall y mo d h mi s frac, parse_u64 (rfc_string y mo d h mi s frac) = None.
Proof.
  intros. unfold rfc_string. rewrite print_fixed_eq.
  pose proof (fixed_digits_digits 4 y) as AD. pose proof (fixed_digits_length 4 y) as L.
  destruct (fixed_digits 4 y) as [|x xs]; [discriminate|]. inversion AD; subst.
  cbn [map app parse_u64].
  assert (digit_char x =? 43 = false) as -> by (apply N.eqb_neq; unfold digit_char; lia).
  apply (parse_digits_nondigit _ 0 45); [|reflexivity].
  right. apply in_or_app. right. left. reflexivity.
Qed.

(** ** the theorem *)
Theorem timestamp_parse_print_all : forall ms, ms < W64 -> parse_timestamp (print_timestamp ms) = Ok ms.
Proof.
  intros ms Hms. unfold print_timestamp, parse_timestamp.
  destruct (ms <? YEAR_10000_MS) eqn:E.
  - apply N.ltb_lt in E. unfold YEAR_10000_MS in E.
    destruct (civil_from_shifted (ms / MS_D + EPOCH_SHIFT)) as [[y mo] d] eqn:C.
    rewrite (print_rfc3339_fields ms y mo d C). rewrite rfc_string_not_u64.
    destruct (civil_roundtrip _ _ _ _ C) as (RT & V & Y9 & Y1).
    unfold MS_D, MS_H, MS_M, MS_S, EPOCH_SHIFT in *.
    set (days := ms / 86400000) in *. set (tod := ms mod 86400000) in *.
    assert (Htod : tod < 86400000) by (apply N.mod_lt; lia).
    assert (Hms' : ms = 86400000 * days + tod) by (apply N.div_mod; lia).
    assert (Hdays : days < 2932897) by lia.
    specialize (Y9 ltac:(lia)). specialize (Y1 ltac:(lia)).
    set (h := tod / 3600000). set (mi := (tod mod 3600000) / 60000).
    set (s := (tod mod 60000) / 1000). set (f := tod mod 1000).
    assert (Sum : h * 3600000 + mi * 60000 + s * 1000 + f = tod).
    { unfold h, mi, s, f.
      pose proof (N.div_mod tod 3600000 ltac:(lia)) as E0.
      pose proof (mod_split tod 60000 60 ltac:(lia) ltac:(lia)) as E1. change (60000 * 60) with 3600000 in E1.
      pose proof (mod_split tod 1000 60 ltac:(lia) ltac:(lia)) as E2. change (1000 * 60) with 60000 in E2.
      lia. }
    assert (Hh : h <= 23) by (unfold h; apply N.lt_succ_r; apply N.div_lt_upper_bound; lia).
    assert (Hmi : mi <= 59).
    { unfold mi. apply N.lt_succ_r. apply N.div_lt_upper_bound; [lia|]. pose proof (N.mod_lt tod 3600000 ltac:(lia)). lia. }
    assert (Hs : s <= 59).
    { unfold s. apply N.lt_succ_r. apply N.div_lt_upper_bound; [lia|]. pose proof (N.mod_lt tod 60000 ltac:(lia)). lia. }
    assert (Hf : f < 1000) by (apply N.mod_lt; lia).
    assert (Vd : valid_date y mo d = true) by exact V.
    unfold valid_date in V. repeat (apply andb_prop in V; destruct V as [V ?]).
    assert (Hmo : mo <= 12) by (apply N.leb_le; assumption).
    assert (Hd : d <= 31).
    { match goal with H : (d <=? days_in_month y mo) = true |- _ => apply N.leb_le in H; revert H end.
      unfold days_in_month. destruct (mo =? 2); [destruct (is_leap y)|destruct (_ || _)]; lia. }
    clearbody h mi s f.
    rewrite parse_rfc_string by lia.
    rewrite Vd.
    assert (h <=? 23 = true) as -> by (apply N.leb_le; exact Hh).
    assert (mi <=? 59 = true) as -> by (apply N.leb_le; exact Hmi).
    assert (s <=? 60 = true) as -> by (apply N.leb_le; lia).
    cbn [andb].
    assert (y =? 0 = false) as -> by (apply N.eqb_neq; lia). cbn [andb].
    rewrite RT. cbv zeta. unfold MS_D, MS_H, MS_M, MS_S, EPOCH_SHIFT.
    match goal with |- (if (?u <? 0)%Z then _ else _) = _ => assert (U : u = Z.of_N ms) by lia; rewrite U end.
    assert ((Z.of_N ms <? 0)%Z = false) as -> by (apply Z.ltb_ge; lia).
    rewrite N2Z.id. reflexivity.
  - rewrite parse_u64_print_dec by exact Hms. reflexivity.
Qed.

(** ** before the repair: [timestamp_millis() as i64] - the printed form of the largest
    timestamp is a date before the unix epoch, which the parser rejects; years from 10000
    on are printed in a notation the parser rejects. *)
Lemma timestamp_prefix_refuted_max :
  print_timestamp_prefix 18446744073709551615
    = [49;57;54;57;45;49;50;45;51;49;84;50;51;58;53;57;58;53;57;46;57;57;57;43;48;48;58;48;48]
  /\ parse_timestamp (print_timestamp_prefix 18446744073709551615) = Err TBeforeUnixEpoch.
Proof. split; vm_compute; reflexivity. Qed.
Lemma timestamp_prefix_refuted_year10000 :
  parse_timestamp (print_timestamp_prefix 253402300800000) = Err TParseError.
Proof. vm_compute. reflexivity. Qed.
Lemma timestamp_prefix_roundtrip_refuted :
  exists ms, ms < W64 /\ parse_timestamp (print_timestamp_prefix ms) <> Ok ms.
Proof. exists 18446744073709551615. split; [reflexivity|]. vm_compute. discriminate. Qed.
