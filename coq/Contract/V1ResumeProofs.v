(** * Contract/V1ResumeProofs — the response word is decodable (hence injective on what a contract can
    observe), [migrate] preserves or invalidates handles exactly by the [state_updated] flag, and no
    energy is charged across an interrupt. *)
From Coq Require Import NArith ZArith PeanoNat List Bool Lia.
From CB Require Import Trie.Radix Trie.PrefixMap Trie.Locks Trie.InstanceState Trie.InstanceStateProofs
     Contract.V1Resume.
Import ListNotations.
Local Open Scope N_scope.


(** ** shifts and ors are sums here *)
Lemma lor_disjoint a b k : b < 2 ^ k -> N.lor (N.shiftl a k) b = a * 2 ^ k + b.
Proof.
  intros Hb. rewrite N.shiftl_mul_pow2.
  assert (Hl : N.land (a * 2 ^ k) b = 0).
  { apply N.bits_inj. intros n. rewrite N.land_spec, N.bits_0.
    destruct (N.ltb_spec n k) as [Hn|Hn].
    - rewrite N.mul_pow2_bits_low by exact Hn. reflexivity.
    - destruct (N.eq_dec b 0) as [->|Hb0]; [rewrite N.bits_0; apply andb_false_r|].
      rewrite (N.bits_above_log2 b n); [apply andb_false_r|].
      apply N.log2_lt_pow2; [lia|]. eapply N.lt_le_trans; [exact Hb|]. apply N.pow_le_mono_r; lia. }
  rewrite <- N.lxor_lor by exact Hl. symmetry. apply N.add_nocarry_lxor. exact Hl.
Qed.

Lemma lor_tag len : len <= MAX_PARAM_INDEX -> N.lor len UPDATED_TAG = UPDATED_TAG + len.
Proof.
  intros H. rewrite N.lor_comm. change UPDATED_TAG with (N.shiftl 1 23) at 1.
  rewrite lor_disjoint; [reflexivity|]. unfold MAX_PARAM_INDEX in H. change (2 ^ 23) with 8388608. lia.
Qed.

Lemma code_u32_bound code : code_u32 code < 4294967296.
Proof.
  unfold code_u32. pose proof (Z.mod_pos_bound code 4294967296 ltac:(lia)). lia.
Qed.

(** the word in arithmetic form *)
Definition word_arith (state_updated : bool) (params : list (list N)) (r : invoke_response) : N :=
  let len := N.of_nat (length params) in
  let tag := if state_updated then UPDATED_TAG else 0 in
  match r with
  | RSuccess _ (Some _) => (tag + len) * 1099511627776
  | RSuccess _ None => tag * 1099511627776
  | RFailure (FContractReject code _) => len * 1099511627776 + code_u32 code
  | RFailure k => failure_number k * 4294967296
  end.

Lemma response_word_arith su params r w ps :
  response_word su params r = Some (w, ps) -> w = word_arith su params r.
Proof.
  unfold response_word, word_arith. cbv zeta.
  destruct r as [bal [d|]|k].
  - destruct (N.ltb_spec MAX_PARAM_INDEX (N.of_nat (length params))) as [|Hle]; [discriminate|].
    intros E; inversion E; subst; clear E. rewrite N.shiftl_mul_pow2. change (2 ^ 40) with 1099511627776.
    destruct su.
    + rewrite lor_tag by exact Hle. reflexivity.
    + rewrite N.lor_0_r. reflexivity.
  - intros E; inversion E; subst. rewrite N.shiftl_mul_pow2. reflexivity.
  - destruct k as [code d| | | | | | | | | | |]; [|intros E; inversion E; subst; clear E; vm_compute; reflexivity ..].
    destruct (N.ltb_spec MAX_PARAM_INDEX (N.of_nat (length params))) as [|Hle]; [discriminate|].
    intros E; inversion E; subst; clear E.
    rewrite lor_disjoint; [reflexivity|]. change (2 ^ 40) with 1099511627776.
    pose proof (code_u32_bound code). lia.
Qed.

(** ** arithmetic of the three fields *)
Lemma hi_mod_low a : (a * 1099511627776) mod 4294967296 = 0.
Proof. replace (a * 1099511627776) with (a * 256 * 4294967296) by lia. apply N.mod_mul. lia. Qed.
Lemma hi_mid a : (a * 1099511627776 / 4294967296) mod 256 = 0.
Proof.
  replace (a * 1099511627776) with (a * 256 * 4294967296) by lia. rewrite N.div_mul by lia. apply N.mod_mul. lia.
Qed.
Lemma hi_hi a : a * 1099511627776 / 1099511627776 = a.
Proof. apply N.div_mul. lia. Qed.
Lemma rej_low a c : c < 4294967296 -> (a * 1099511627776 + c) mod 4294967296 = c.
Proof.
  intros H. replace (a * 1099511627776 + c) with (c + a * 256 * 4294967296) by lia.
  rewrite N.mod_add by lia. apply N.mod_small. exact H.
Qed.
Lemma rej_hi a c : c < 4294967296 -> (a * 1099511627776 + c) / 1099511627776 = a.
Proof.
  intros H. rewrite N.div_add_l by lia. rewrite N.div_small by lia. lia.
Qed.
Lemma tag_mod len : len < 8388608 -> (8388608 + len) mod 8388608 = len.
Proof.
  intros H. replace (8388608 + len) with (len + 1 * 8388608) by lia. rewrite N.mod_add by lia. apply N.mod_small. exact H.
Qed.

(** ** the word determines everything a contract can learn from it *)
Definition reject_code_nonzero (r : invoke_response) : Prop :=
  match r with RFailure (FContractReject code _) => code_u32 code <> 0 | _ => True end.

Theorem decode_response_word su params r w ps :
  params <> [] -> reject_code_nonzero r ->
  response_word su params r = Some (w, ps) -> decode_word w = shape_of su params r.
Proof.
  intros Hne Hc E. pose proof (response_word_arith _ _ _ _ _ E) as Hw. subst w.
  assert (Hlen : 1 <= N.of_nat (length params)) by (destruct params; [contradiction | cbn [length]; lia]).
  unfold response_word in E. cbv zeta in E.
  unfold decode_word, word_arith, shape_of. cbv zeta.
  destruct r as [bal [d|]|k].
  - destruct (N.ltb_spec MAX_PARAM_INDEX (N.of_nat (length params))) as [|Hle]; [discriminate|].
    unfold MAX_PARAM_INDEX in Hle. set (len := N.of_nat (length params)) in *.
    rewrite hi_mod_low, hi_mid, hi_hi. cbn [N.eqb negb].
    destruct su; unfold UPDATED_TAG.
    + rewrite tag_mod by lia.
      destruct (N.leb_spec 8388608 (8388608 + len)); [|lia].
      destruct (N.eqb_spec len 0); [lia|]. reflexivity.
    + rewrite N.add_0_l. rewrite (N.mod_small len 8388608) by lia.
      destruct (N.leb_spec 8388608 len); [lia|].
      destruct (N.eqb_spec len 0); [lia|]. reflexivity.
  - destruct su; unfold UPDATED_TAG; vm_compute; reflexivity.
  - destruct k as [code d| | | | | | | | | | |]; [|vm_compute; reflexivity ..].
    destruct (N.ltb_spec MAX_PARAM_INDEX (N.of_nat (length params))) as [|Hle]; [discriminate|].
    unfold MAX_PARAM_INDEX in Hle. set (len := N.of_nat (length params)) in *.
    cbn [reject_code_nonzero] in Hc. pose proof (code_u32_bound code) as Hb. set (c := code_u32 code) in *.
    rewrite rej_low, rej_hi by exact Hb.
    destruct (N.eqb_spec c 0); [contradiction|]. reflexivity.
Qed.

(** distinct responses (as far as a contract can tell them apart) give distinct words *)
Theorem response_word_encoding_injective_thm : forall su1 ps1 r1 su2 ps2 r2 w p1 p2,
  ps1 <> [] -> ps2 <> [] -> reject_code_nonzero r1 -> reject_code_nonzero r2 ->
  response_word su1 ps1 r1 = Some (w, p1) -> response_word su2 ps2 r2 = Some (w, p2) ->
  shape_of su1 ps1 r1 = shape_of su2 ps2 r2.
Proof.
  intros su1 ps1 r1 su2 ps2 r2 w p1 p2 H1 H2 C1 C2 E1 E2.
  rewrite <- (decode_response_word _ _ _ _ _ H1 C1 E1). apply (decode_response_word _ _ _ _ _ H2 C2 E2).
Qed.

(** the side condition is needed: a reject with code 0 would be read as a successful call with a
    return value (the engine only rejects with negative codes: [process_receive_result]) *)
Example reject_code_zero_collides :
  response_word false [[]] (RFailure (FContractReject 0 [1])) = Some (1099511627776, [[]; [1]])
  /\ response_word false [[]] (RSuccess 0 (Some [1])) = Some (1099511627776, [[]; [1]]).
Proof. split; vm_compute; reflexivity. Qed.

(** non-vacuity: all fourteen shapes with one parameter vector *)
Example response_words_sample :
  map (fun r => option_map fst (response_word true [[]] r))
      [RSuccess 7 None; RSuccess 7 (Some [1]); RFailure (FContractReject (-1) [2]); RFailure FSignatureCheckFailed]
  = [Some 9223372036854775808; Some 9223373136366403584; Some 1103806595071; Some 47244640256].
Proof. vm_compute. reflexivity. Qed.

(** too many parameters: the only failure *)
Theorem response_word_total su params r :
  response_word su params r = None <->
  (MAX_PARAM_INDEX < N.of_nat (length params)
   /\ match r with RSuccess _ (Some _) | RFailure (FContractReject _ _) => True | _ => False end).
Proof.
  unfold response_word. cbv zeta.
  destruct r as [bal [d|]|k]; [| |destruct k];
    try (split; [discriminate | intros [_ []]]);
    (destruct (N.ltb_spec MAX_PARAM_INDEX (N.of_nat (length params)));
     split; [intros _; split; [assumption|exact I] | reflexivity | discriminate | intros [Hx _]; lia]).
Qed.

(** ** migrate *)
Lemma resume_is_migrate commit inner outer :
  resume commit inner outer = migrate (commit && touched inner) (snd inner) outer.
Proof.
  destruct inner as [ii ig], outer as [oi og]. unfold resume, migrate, touched. cbn [fst snd].
  destruct (commit && (is_changed ii || is_touched ii)); reflexivity.
Qed.

(** a handle that was valid at the interrupt is valid after the resume iff the state was not
    updated; when it stays valid it denotes the same entry with the same contents *)
Theorem resume_preserves_or_invalidates_thm : forall state_updated cur outer id x,
  entry_of (fst outer) (snd outer) id = Some x ->
  let f := migrate state_updated cur outer in
  (state_updated = false -> entry_of (fst f) (snd f) id = Some x)
  /\ (state_updated = true -> entry_of (fst f) (snd f) id = None)
  /\ (entry_of (fst f) (snd f) id <> None <-> state_updated = false).
Proof.
  intros su cur [oi og] id x Hv. cbn [fst snd] in Hv. cbv zeta.
  assert (Hg : id_gen id = is_gen oi).
  { unfold entry_of in Hv. destruct (N.eqb_spec (id_gen id) (is_gen oi)); [assumption | discriminate]. }
  assert (Hup : entry_of (fst (migrate true cur (oi, og))) (snd (migrate true cur (oi, og))) id = None).
  { unfold migrate. cbn [fst snd]. apply entry_of_stale. cbn [is_gen]. lia. }
  assert (Hno : entry_of (fst (migrate false cur (oi, og))) (snd (migrate false cur (oi, og))) id = Some x).
  { unfold migrate. cbn [fst snd]. unfold entry_of in *. cbn [is_gen]. exact Hv. }
  destruct su.
  - split; [discriminate|]. split; [intros _; exact Hup|]. rewrite Hup. split; [intros H; contradiction | discriminate].
  - split; [intros _; exact Hno|]. split; [discriminate|]. rewrite Hno. split; [reflexivity | discriminate].
Qed.

(** every operation on a stale handle answers "invalid" after an updating resume *)
Theorem migrate_updated_invalidates : forall cur outer o,
  is_handle_op o = true -> id_gen (op_id o) = is_gen (fst outer) ->
  let f := migrate true cur outer in
  c_op o f = ((after_invalid o (fst f), snd f), invalid_answer o).
Proof.
  intros cur [oi og] o Ho Hg. cbv zeta. unfold migrate. cbn [fst snd] in *.
  apply stale_id_invalid; [assumption|]. cbn [is_gen]. lia.
Qed.

(** without update the suspended call continues on its own generation record and tables *)
Theorem migrate_not_updated_same : forall cur outer,
  snd (migrate false cur outer) = snd outer /\ is_gen (fst (migrate false cur outer)) = is_gen (fst outer).
Proof. intros cur [oi og]. split; reflexivity. Qed.

(** ** the host across an interrupt *)
(** every field of the host that survives an interrupt comes back unchanged: activation frames,
    energy (when the embedder passes back what it was handed), return value; the logs handed out plus
    the logs kept are the logs produced (nothing lost, nothing duplicated); the parameters grow by
    exactly what the response word announces; the balance is the new balance on success and unchanged
    on failure; the instance state is migrated *)
Theorem interrupt_preserves_host_fields_thm : forall clear h su cur r h' w,
  resume_in (snd (interrupt_out clear h)) (fst (fst (interrupt_out clear h))) su cur r = Some (h', w) ->
  rh_activation_frames h' = rh_activation_frames h
  /\ rh_energy h' = rh_energy h
  /\ rh_return_value h' = rh_return_value h
  /\ snd (fst (interrupt_out clear h)) ++ rh_logs h' = rh_logs h
  /\ response_word su (rh_params h) r = Some (w, rh_params h')
  /\ rh_self_balance h' = match r with RSuccess b _ => b | RFailure _ => rh_self_balance h end
  /\ rh_frame h' = migrate su cur (rh_frame h).
Proof.
  intros clear h su cur r h' w. unfold resume_in, interrupt_out.
  cbn [fst snd sv_params sv_frame sv_activation_frames sv_logs sv_return_value sv_self_balance].
  destruct (response_word su (rh_params h) r) as [[w0 ps]|]; [|discriminate].
  intros E; inversion E; subst; clear E. cbn.
  repeat split. destruct clear; [apply app_nil_r | reflexivity].
Qed.

(** a host whose saved activation frames were reset to the maximum would NOT have this property
    (the seeded change the first version of the check missed) *)
Example reset_activation_frames_differs :
  let h := {| rh_energy := 5; rh_activation_frames := 1019; rh_logs := []; rh_return_value := [];
              rh_params := [[]]; rh_self_balance := 1; rh_frame := (i_fresh, empty_gen) |} in
  rh_activation_frames h <> MAX_ACTIVATION_FRAMES
  /\ enter_calls h 1020 = None.
Proof. split; [discriminate | reflexivity]. Qed.

(** the call-depth budget: [n] nested calls succeed iff [n] frames are left, and returning restores them *)
Theorem enter_leave_calls : forall h n,
  (enter_calls h n <> None <-> n <= rh_activation_frames h)
  /\ (forall h1, enter_calls h n = Some h1 -> leave_calls h1 n = h).
Proof.
  intros h n. unfold enter_calls. destruct (N.leb_spec n (rh_activation_frames h)) as [Hle|Hgt]; split.
  - split; [intros _; exact Hle | discriminate].
  - intros h1 E. inversion E; subst; clear E. destruct h. unfold leave_calls. cbn in *. f_equal. lia.
  - split; [intros H; contradiction | lia].
  - discriminate.
Qed.

(** energy at the interrupt = energy at the resume ([resume_receive] charges nothing before [run_config]) *)
Theorem energy_across_interrupt_thm : forall clear h su cur r h' w,
  resume_in (snd (interrupt_out clear h)) (fst (fst (interrupt_out clear h))) su cur r = Some (h', w) ->
  rh_energy h' = rh_energy h.
Proof. intros clear h su cur r h' w E. apply (interrupt_preserves_host_fields_thm _ _ _ _ _ _ _ E). Qed.
