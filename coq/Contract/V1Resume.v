(** * Contract/V1Resume — the v1 engine's resume layer
    (smart-contracts/wasm-chain-integration/src/v1/mod.rs: [process_receive_result] 2010-2098,
    [resume_receive] 2265-2323, [InvokeFailure::encode_as_u64] 1794-1819;
    v1/types.rs [InstanceState::migrate] 987-1016).

    - [response_word]: the u64 that [resume_receive] pushes with [RunConfig::push_value] for every
      [InvokeResponse] / [InvokeFailure] variant, together with the parameter it appends to
      [host.stateless.parameters] ([None] = [ResumeError::TooManyInterrupts]);
    - [decode_word]: what a contract can read back from the word;
    - [migrate]: [InstanceState::migrate] on the handle-layer model of [Trie/InstanceState.v]
      (generation counter, entry-handle table, iterator table), driven by the [state_updated] flag;
    - the energy hand-off: [process_receive_result] returns [remaining_energy = host.energy] next to
      the saved host, [resume_receive] rebuilds the host with the energy it is given and charges
      nothing before [run_config];
    - [engine_scenario]: the reference for the end-to-end check (harness/c13/src/engine.rs): what the
      generated contract observes after each resume.

    Definitions only (proofs: [Contract/V1ResumeProofs.v]); everything is executable. *)
From Coq Require Import NArith ZArith PeanoNat List Bool.
From CB Require Import Trie.Radix Trie.PrefixMap Trie.Locks Trie.InstanceState.
Import ListNotations.
Local Open Scope N_scope.

(** ** responses *)
Inductive invoke_failure :=
| FContractReject (code : Z) (data : list N)          (* code : i32 *)
| FInsufficientAmount | FNonExistentAccount | FNonExistentContract | FNonExistentEntrypoint
| FSendingV0Failed | FRuntimeError | FUpgradeInvalidModuleRef | FUpgradeInvalidContractName
| FUpgradeInvalidVersion | FSignatureDataMalformed | FSignatureCheckFailed.

Inductive invoke_response :=
| RSuccess (new_balance : N) (data : option (list N))
| RFailure (kind : invoke_failure).

(** [0b0111_1111_1111_1111_1111_1111]: the largest parameter index; bit 23 is the state-updated tag *)
Definition MAX_PARAM_INDEX : N := 8388607.
Definition UPDATED_TAG : N := 8388608.

Definition failure_number (k : invoke_failure) : N :=
  match k with
  | FContractReject _ _ => 0
  | FInsufficientAmount => 1 | FNonExistentAccount => 2 | FNonExistentContract => 3
  | FNonExistentEntrypoint => 4 | FSendingV0Failed => 5 | FRuntimeError => 6
  | FUpgradeInvalidModuleRef => 7 | FUpgradeInvalidContractName => 8 | FUpgradeInvalidVersion => 9
  | FSignatureDataMalformed => 10 | FSignatureCheckFailed => 11
  end.

(** [code as u32 as u64] *)
Definition code_u32 (code : Z) : N := Z.to_N (code mod 4294967296).

(** the word pushed and the new parameter vector; written with the shifts and ors of the code *)
Definition response_word (state_updated : bool) (params : list (list N)) (r : invoke_response)
  : option (N * list (list N)) :=
  let len := N.of_nat (length params) in
  match r with
  | RSuccess _ data =>
      let tag := if state_updated then UPDATED_TAG else 0 in
      match data with
      | Some d =>
          if MAX_PARAM_INDEX <? len then None
          else Some (N.shiftl (N.lor len tag) 40, params ++ [d])
      | None => Some (N.shiftl tag 40, params)
      end
  | RFailure (FContractReject code d) =>
      if MAX_PARAM_INDEX <? len then None
      else Some (N.lor (N.shiftl len 40) (code_u32 code), params ++ [d])
  | RFailure k => Some (N.shiftl (failure_number k) 32, params)
  end.

(** what the word tells the contract *)
Inductive word_shape :=
| WSuccess (state_updated : bool) (param_index : option N)
| WReject (param_index : N) (code32 : N)
| WFailure (number : N).

Definition shape_of (state_updated : bool) (params : list (list N)) (r : invoke_response) : word_shape :=
  match r with
  | RSuccess _ (Some _) => WSuccess state_updated (Some (N.of_nat (length params)))
  | RSuccess _ None => WSuccess state_updated None
  | RFailure (FContractReject code _) => WReject (N.of_nat (length params)) (code_u32 code)
  | RFailure k => WFailure (failure_number k)
  end.

Definition decode_word (w : N) : word_shape :=
  let low := w mod 4294967296 in
  let mid := (w / 4294967296) mod 256 in
  let hi := w / 1099511627776 in
  if negb (low =? 0) then WReject hi low
  else if negb (mid =? 0) then WFailure mid
  else WSuccess (UPDATED_TAG <=? hi) (if hi mod UPDATED_TAG =? 0 then None else Some (hi mod UPDATED_TAG)).

(** ** InstanceState::migrate
    [outer] is the suspended call (its [istate] carries [current_generation]; the tables
    [entry_mapping] / [iterators] are [g_handles] / [g_iters] of its trie generation); [cur] is the
    trie generation the instance has after the interrupt was handled. *)
Definition migrate (state_updated : bool) (cur : gen) (outer : frame) : frame :=
  let (oi, og) := outer in
  if state_updated then
    (mkI (is_gen oi + 1) false true, mkGen (g_root cur) (g_ents cur) (g_locks cur) [] [])
  else
    (mkI (is_gen oi) false (is_changed oi || is_touched oi), og).

(** ** the energy hand-off *)
Record receive_host := { rh_energy : N; rh_params : list (list N); rh_frame : frame }.
Record saved_host := { sv_params : list (list N); sv_frame : frame }.
(** [process_receive_result], [Interrupted] branch: remaining energy and the saved host *)
Definition interrupt_out (h : receive_host) : N * saved_host :=
  (rh_energy h, {| sv_params := rh_params h; sv_frame := rh_frame h |}).
(** [resume_receive] up to [run_config]: migrate, rebuild the host with the given energy, compute
    the response word (which may append a parameter); no energy is charged here *)
Definition resume_in (s : saved_host) (energy : N) (state_updated : bool) (cur : gen) (r : invoke_response)
  : option (receive_host * N) :=
  match response_word state_updated (sv_params s) r with
  | Some (w, ps) => Some ({| rh_energy := energy; rh_params := ps; rh_frame := migrate state_updated cur (sv_frame s) |}, w)
  | None => None
  end.

(** ** the end-to-end scenario of harness/c13/src/engine.rs *)
Record estep := {
  es_resp : invoke_response;
  es_upd : bool;                          (* state_updated reported on resume *)
  es_reentrant : option (list N);         (* a re-entrant call writes these bytes to the entry *)
  es_refresh : bool;                      (* the contract replaces its handle by the fresh one *)
  es_write : option (list N)              (* the contract writes these bytes through the fresh handle *)
}.
(** what the contract writes to its return value after each resume: the pushed word; return code
    and 4 bytes read through the handle obtained before the interrupt; the id of a fresh lookup;
    return code and 4 bytes read through it *)
Record eobs := { eo_word : N; eo_rc1 : N; eo_bytes1 : list N; eo_id2 : N; eo_rc2 : N; eo_bytes2 : list N }.

Definition the_key : list N := [107].                   (* "k" *)
Definition pad4 (v : list N) : list N := firstn 4 (v ++ [0; 0; 0; 0]).
(** [state_entry_read(id, dst, 4, 0)] into a zeroed buffer *)
Definition read4 (f : frame) (id : N) : N * list N :=
  match snd (c_op (CRead id) f) with
  | XBytes v => (N.of_nat (Nat.min 4 (length v)), pad4 v)
  | _ => (INVALID32, [0; 0; 0; 0])
  end.
Definition out_id (x : cout) : N := match x with XId i => i | _ => ID_NONE end.

(** the re-entrant call [c.set]: lookup, write 4 bytes *)
Definition reentrant_set (f : frame) (w : list N) : frame :=
  let inner := inner_frame f in
  let (f1, x) := c_op (CLookup the_key) inner in
  fst (c_op (CWrite (out_id x) 0 w) f1).

Fixpoint scenario_steps (steps : list estep) (f : frame) (e : N) (params : list (list N)) : option (list eobs * frame) :=
  match steps with
  | [] => Some ([], f)
  | s :: rest =>
      let cur := match es_reentrant s with
                 | Some w => snd (reentrant_set f w)
                 | None => snd (inner_frame f)
                 end in
      match response_word (es_upd s) params (es_resp s) with
      | None => None
      | Some (w, params') =>
          let f1 := migrate (es_upd s) cur f in
          let (rc1, b1) := read4 f1 e in
          let (f2, x) := c_op (CLookup the_key) f1 in
          let e2 := out_id x in
          let (rc2, b2) := read4 f2 e2 in
          let e' := if es_refresh s then e2 else e in
          let f3 := match es_write s with
                    | Some wr => fst (c_op (CWrite e2 0 wr) f2)
                    | None => f2
                    end in
          match scenario_steps rest f3 e' params' with
          | Some (os, ff) =>
              Some ({| eo_word := w; eo_rc1 := rc1; eo_bytes1 := b1; eo_id2 := e2; eo_rc2 := rc2; eo_bytes2 := b2 |} :: os, ff)
          | None => None
          end
      end
  end.

(** the whole receive call: create the entry, write "ABCD", run the steps; result: the
    observations and the final value of the entry *)
Definition engine_scenario (steps : list estep) : option (list eobs * list N) :=
  let (f0, x) := c_op (CCreate the_key) (i_fresh, empty_gen) in
  let e := out_id x in
  let f1 := fst (c_op (CWrite e 0 [65; 66; 67; 68]) f0) in
  match scenario_steps steps f1 e [[]] with
  | Some (os, ff) =>
      let (f2, y) := c_op (CLookup the_key) ff in
      Some (os, match snd (c_op (CRead (out_id y)) f2) with XBytes v => v | _ => [] end)
  | None => None
  end.
