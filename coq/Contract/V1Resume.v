(** * Contract/V1Resume — the v1 engine's resume layer
    (smart-contracts/wasm-chain-integration/src/v1/mod.rs: [process_receive_result] 2010-2098,
    [resume_receive] 2265-2323, [InvokeFailure::encode_as_u64] 1794-1819;
    v1/types.rs [InstanceState::migrate] 987-1016).

    - [response_word]: the u64 that [resume_receive] pushes with [RunConfig::push_value] for every
      [InvokeResponse] / [InvokeFailure] variant, together with the parameter it appends to
      [host.stateless.parameters] ([None] = [ResumeError::TooManyInterrupts]);
    - [decode_word]: what a contract can read back from the word;
    - [migrate]: [InstanceState::migrate] on the handle-layer model of [Trie/InstanceState.v]
      (generation counter, entry-handle table, iterator table), driven by the [state_updated] flag;
    - the host across an interrupt: every field of [ReceiveHost] that survives it (energy, activation
      frames, logs, return value, parameters, self balance, instance state): [interrupt_out] is the
      [Interrupted] branch of [process_receive_result], [resume_in] is [resume_receive] up to
      [run_config];
    - [engine_scenario]: the reference for the end-to-end check (harness/c13/src/engine.rs): what the
      generated contract observes after each resume.

    Definitions only (proofs: [Contract/V1ResumeProofs.v]); everything is executable. *)
From Coq Require Import NArith ZArith PeanoNat List Bool.
From CB Require Import Trie.Radix Trie.PrefixMap Trie.Locks Trie.InstanceState.
Import ListNotations.
Local Open Scope N_scope.

(** ** responses *)
Inductive invoke_failure :=
| FContractReject (code : Z) (data : list N)          (* code : i32 *)
| FInsufficientAmount | FNonExistentAccount | FNonExistentContract | FNonExistentEntrypoint
| FSendingV0Failed | FRuntimeError | FUpgradeInvalidModuleRef | FUpgradeInvalidContractName
| FUpgradeInvalidVersion | FSignatureDataMalformed | FSignatureCheckFailed.

Inductive invoke_response :=
| RSuccess (new_balance : N) (data : option (list N))
| RFailure (kind : invoke_failure).

(** [0b0111_1111_1111_1111_1111_1111]: the largest parameter index; bit 23 is the state-updated tag *)
Definition MAX_PARAM_INDEX : N := 8388607.
Definition UPDATED_TAG : N := 8388608.

Definition failure_number (k : invoke_failure) : N :=
  match k with
  | FContractReject _ _ => 0
  | FInsufficientAmount => 1 | FNonExistentAccount => 2 | FNonExistentContract => 3
  | FNonExistentEntrypoint => 4 | FSendingV0Failed => 5 | FRuntimeError => 6
  | FUpgradeInvalidModuleRef => 7 | FUpgradeInvalidContractName => 8 | FUpgradeInvalidVersion => 9
  | FSignatureDataMalformed => 10 | FSignatureCheckFailed => 11
  end.

(** [code as u32 as u64] *)
Definition code_u32 (code : Z) : N := Z.to_N (code mod 4294967296).

(** the word pushed and the new parameter vector; written with the shifts and ors of the code *)
Definition response_word (state_updated : bool) (params : list (list N)) (r : invoke_response)
  : option (N * list (list N)) :=
  let len := N.of_nat (length params) in
  match r with
  | RSuccess _ data =>
      let tag := if state_updated then UPDATED_TAG else 0 in
      match data with
      | Some d =>
          if MAX_PARAM_INDEX <? len then None
          else Some (N.shiftl (N.lor len tag) 40, params ++ [d])
      | None => Some (N.shiftl tag 40, params)
      end
  | RFailure (FContractReject code d) =>
      if MAX_PARAM_INDEX <? len then None
      else Some (N.lor (N.shiftl len 40) (code_u32 code), params ++ [d])
  | RFailure k => Some (N.shiftl (failure_number k) 32, params)
  end.

(** what the word tells the contract *)
Inductive word_shape :=
| WSuccess (state_updated : bool) (param_index : option N)
| WReject (param_index : N) (code32 : N)
| WFailure (number : N).

Definition shape_of (state_updated : bool) (params : list (list N)) (r : invoke_response) : word_shape :=
  match r with
  | RSuccess _ (Some _) => WSuccess state_updated (Some (N.of_nat (length params)))
  | RSuccess _ None => WSuccess state_updated None
  | RFailure (FContractReject code _) => WReject (N.of_nat (length params)) (code_u32 code)
  | RFailure k => WFailure (failure_number k)
  end.

Definition decode_word (w : N) : word_shape :=
  let low := w mod 4294967296 in
  let mid := (w / 4294967296) mod 256 in
  let hi := w / 1099511627776 in
  if negb (low =? 0) then WReject hi low
  else if negb (mid =? 0) then WFailure mid
  else WSuccess (UPDATED_TAG <=? hi) (if hi mod UPDATED_TAG =? 0 then None else Some (hi mod UPDATED_TAG)).

(** ** InstanceState::migrate
    [outer] is the suspended call (its [istate] carries [current_generation]; the tables
    [entry_mapping] / [iterators] are [g_handles] / [g_iters] of its trie generation); [cur] is the
    trie generation the instance has after the interrupt was handled. *)
Definition migrate (state_updated : bool) (cur : gen) (outer : frame) : frame :=
  let (oi, og) := outer in
  if state_updated then
    (mkI (is_gen oi + 1) false true, mkGen (g_root cur) (g_ents cur) (g_locks cur) [] [])
  else
    (mkI (is_gen oi) false (is_changed oi || is_touched oi), og).

(** ** the host across an interrupt
    [ReceiveHost] = energy + [StateLessReceiveHost] (activation frames left, logs, return value,
    parameters, receive context, configuration) + instance state.  [process_receive_result]
    ([Interrupted] branch) returns the remaining energy and the logs of the section next to the saved
    host ([SavedHost]: the stateless part converted with [From<StateLessReceiveHost<ParameterRef,_>>
    for StateLessReceiveHost<ParameterVec,_>] + generation, entry mapping, iterators);
    [resume_receive] rebuilds the host from it. *)
Definition MAX_ACTIVATION_FRAMES : N := 1024.
Record receive_host := {
  rh_energy : N;
  rh_activation_frames : N;            (* how many more nested calls are allowed *)
  rh_logs : list (list N);
  rh_return_value : list N;
  rh_params : list (list N);
  rh_self_balance : N;                 (* the field of the receive context that [resume_receive] updates *)
  rh_frame : frame
}.
Record saved_host := {
  sv_activation_frames : N; sv_logs : list (list N); sv_return_value : list N;
  sv_params : list (list N); sv_self_balance : N; sv_frame : frame
}.
(** remaining energy, logs handed out with the interrupt ([should_clear_logs]: transfers, calls and
    upgrades hand the logs of the section out and clear them; queries keep them), saved host *)
Definition interrupt_out (clear_logs : bool) (h : receive_host) : N * list (list N) * saved_host :=
  (rh_energy h, if clear_logs then rh_logs h else [],
   {| sv_activation_frames := rh_activation_frames h;
      sv_logs := if clear_logs then [] else rh_logs h;
      sv_return_value := rh_return_value h; sv_params := rh_params h;
      sv_self_balance := rh_self_balance h; sv_frame := rh_frame h |}).
(** [resume_receive] up to [run_config]: migrate, rebuild the host with the given energy, set the new
    balance on success, compute the response word (which may append a parameter); nothing is charged *)
Definition resume_in (s : saved_host) (energy : N) (state_updated : bool) (cur : gen) (r : invoke_response)
  : option (receive_host * N) :=
  match response_word state_updated (sv_params s) r with
  | Some (w, ps) =>
      Some ({| rh_energy := energy; rh_activation_frames := sv_activation_frames s; rh_logs := sv_logs s;
               rh_return_value := sv_return_value s; rh_params := ps;
               rh_self_balance := match r with RSuccess b _ => b | RFailure _ => sv_self_balance s end;
               rh_frame := migrate state_updated cur (sv_frame s) |}, w)
  | None => None
  end.

(** [track_call] n times (nested), [None] = "Too many nested functions." *)
Definition enter_calls (h : receive_host) (n : N) : option receive_host :=
  if n <=? rh_activation_frames h then
    Some {| rh_energy := rh_energy h; rh_activation_frames := rh_activation_frames h - n; rh_logs := rh_logs h;
            rh_return_value := rh_return_value h; rh_params := rh_params h; rh_self_balance := rh_self_balance h;
            rh_frame := rh_frame h |}
  else None.
Definition leave_calls (h : receive_host) (n : N) : receive_host :=
  {| rh_energy := rh_energy h; rh_activation_frames := rh_activation_frames h + n; rh_logs := rh_logs h;
     rh_return_value := rh_return_value h; rh_params := rh_params h; rh_self_balance := rh_self_balance h;
     rh_frame := rh_frame h |}.
Definition with_frame (h : receive_host) (f : frame) : receive_host :=
  {| rh_energy := rh_energy h; rh_activation_frames := rh_activation_frames h; rh_logs := rh_logs h;
     rh_return_value := rh_return_value h; rh_params := rh_params h; rh_self_balance := rh_self_balance h;
     rh_frame := f |}.
Definition with_log (h : receive_host) (l : list N) : receive_host :=
  {| rh_energy := rh_energy h; rh_activation_frames := rh_activation_frames h; rh_logs := rh_logs h ++ [l];
     rh_return_value := rh_return_value h; rh_params := rh_params h; rh_self_balance := rh_self_balance h;
     rh_frame := rh_frame h |}.

(** ** the end-to-end scenario of harness/c13/src/engine.rs *)
Record estep := {
  es_resp : invoke_response;
  es_upd : bool;                          (* state_updated reported on resume *)
  es_reentrant : option (list N);         (* a re-entrant call writes these bytes to the entry *)
  es_refresh : bool;                      (* the contract replaces its handle by the fresh one *)
  es_write : option (list N);             (* the contract writes these bytes through the fresh handle *)
  es_depth : N;                           (* nested calls below the entrypoint when [invoke] is called *)
  es_recurse : N                          (* nested calls made right after the resume, at that depth *)
}.
(** what the contract writes to its return value after each resume: the pushed word; its own balance;
    the result of the recursion ([u32::MAX] without recursion); return code and 4 bytes read through the
    handle obtained before the interrupt; the id of a fresh lookup; return code and 4 bytes read
    through it *)
Record eobs := { eo_word : N; eo_balance : N; eo_rec : N; eo_rc1 : N; eo_bytes1 : list N; eo_id2 : N; eo_rc2 : N; eo_bytes2 : list N }.

Definition the_key : list N := [107].                   (* "k" *)
Definition pad4 (v : list N) : list N := firstn 4 (v ++ [0; 0; 0; 0]).
(** [state_entry_read(id, dst, 4, 0)] into a zeroed buffer *)
Definition read4 (f : frame) (id : N) : N * list N :=
  match snd (c_op (CRead id) f) with
  | XBytes v => (N.of_nat (Nat.min 4 (length v)), pad4 v)
  | _ => (INVALID32, [0; 0; 0; 0])
  end.
Definition out_id (x : cout) : N := match x with XId i => i | _ => ID_NONE end.

(** the re-entrant call [c.set]: lookup, write 4 bytes *)
Definition reentrant_set (f : frame) (w : list N) : frame :=
  let inner := inner_frame f in
  let (f1, x) := c_op (CLookup the_key) inner in
  fst (c_op (CWrite (out_id x) 0 w) f1).

(** outcome of the scenario: the observations, the final entry value and the logs handed out per
    section (one per interrupt + the final one) - or a trap at a step - or too many interrupts *)
Inductive eresult :=
| EDone (obs : list eobs) (final : list N) (log_sections : list (list (list N)))
| ETrap (step : nat)
| ETooMany.

Fixpoint scenario_steps (steps : list estep) (i : nat) (h : receive_host) (e : N)
  : option (list eobs * receive_host * list (list (list N))) + nat :=
  match steps with
  | [] => inl (Some ([], h, []))
  | s :: rest =>
      (* the contract logs the step number, descends to the depth of the call and invokes *)
      let h := with_log h [N.of_nat i] in
      match enter_calls h (es_depth s) with
      | None => inr i
      | Some hd =>
          let '(energy, logs_out, saved) := interrupt_out true hd in
          let cur := match es_reentrant s with
                     | Some w => snd (reentrant_set (rh_frame hd) w)
                     | None => snd (inner_frame (rh_frame hd))
                     end in
          match resume_in saved energy (es_upd s) cur (es_resp s) with
          | None => inl None
          | Some (hr, w) =>
              (* recursion right after the resume, still at depth [es_depth] *)
              match enter_calls hr (es_recurse s) with
              | None => inr i
              | Some hrec =>
                  let h1 := leave_calls (leave_calls hrec (es_recurse s)) (es_depth s) in
                  let f1 := rh_frame h1 in
                  let (rc1, b1) := read4 f1 e in
                  let (f2, x) := c_op (CLookup the_key) f1 in
                  let e2 := out_id x in
                  let (rc2, b2) := read4 f2 e2 in
                  let e' := if es_refresh s then e2 else e in
                  let f3 := match es_write s with
                            | Some wr => fst (c_op (CWrite e2 0 wr) f2)
                            | None => f2
                            end in
                  let o := {| eo_word := w; eo_balance := rh_self_balance h1;
                              eo_rec := if es_recurse s =? 0 then INVALID32 else es_recurse s - 1;
                              eo_rc1 := rc1; eo_bytes1 := b1; eo_id2 := e2; eo_rc2 := rc2; eo_bytes2 := b2 |} in
                  match scenario_steps rest (S i) (with_frame h1 f3) e' with
                  | inl (Some (os, hf, ls)) => inl (Some (o :: os, hf, logs_out :: ls))
                  | inl None => inl None
                  | inr j => inr j
                  end
              end
          end
      end
  end.

Definition initial_host (balance : N) (f : frame) : receive_host :=
  {| rh_energy := 0; rh_activation_frames := MAX_ACTIVATION_FRAMES; rh_logs := []; rh_return_value := [];
     rh_params := [[]]; rh_self_balance := balance; rh_frame := f |}.

(** the whole receive call: create the entry, write "ABCD", run the steps, log [255] *)
Definition engine_scenario (balance : N) (steps : list estep) : eresult :=
  let (f0, x) := c_op (CCreate the_key) (i_fresh, empty_gen) in
  let e := out_id x in
  let f1 := fst (c_op (CWrite e 0 [65; 66; 67; 68]) f0) in
  match scenario_steps steps O (initial_host balance f1) e with
  | inl (Some (os, hf, ls)) =>
      let (f2, y) := c_op (CLookup the_key) (rh_frame hf) in
      EDone os (match snd (c_op (CRead (out_id y)) f2) with XBytes v => v | _ => [] end) (ls ++ [rh_logs hf ++ [[255]]])
  | inl None => ETooMany
  | inr j => ETrap j
  end.
