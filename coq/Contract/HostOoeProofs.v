(** C14 - charge before work over observables, for every v1 host function except the two with
    staged charges: a call that ends in OutOfEnergy has changed nothing observable (linear memory,
    entries, iterators, locks, handle map, expanded nodes, logs, return value).
    [state_entry_write] and [state_entry_resize] are excluded: they first make the entry owned
    (`get_mut`: copy-on-write into the current generation, charged by `allocate`) and only then
    charge the growth, so an OutOfEnergy at the second charge leaves the entry marked owned
    (observation O3; invisible to the contract, and the state is discarded on OutOfEnergy). *)
From Coq Require Import NArith List Bool Lia.
From CB Require Import Gen.HostCosts Contract.HostBase Contract.HostBaseProofs Contract.HostV0
  Contract.HostV0Proofs Contract.HostTreeEnergy Contract.HostV1 Contract.HostV1Proofs Contract.HostLimitsProofs
  Contract.HostTreeChargeProofs.
Import ListNotations.
Local Open Scope N_scope.

Theorem call_v1_ooe_unchanged_partial : forall f args (s : st H1),
  f <> V1state_entry_write -> f <> V1state_entry_resize ->
  snd (call_v1 f args s) = OutOfEnergy -> observables (fst (call_v1 f args s)) = observables s.
Proof.
  intros f args s Hw Hr. dst s. unfold call_v1.
  destruct f; try (exfalso; apply Hw; reflexivity); try (exfalso; apply Hr; reflexivity); clear Hw Hr; split_args args; cbn [call_v1_raw]; unfold_v1; unfold_v0; mstep1; try ooe_close.
Qed.
