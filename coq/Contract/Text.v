(** C16 - executable model of the textual forms in
    smart-contracts/contracts-common/concordium-contracts-common/src/types.rs:
    [FromStr]/[Display] for [Amount], [Duration], [ContractAddress], [Timestamp].

    Strings are lists of Unicode scalar values ([char]s) as [N].  [u64] arithmetic is
    explicit: values are [N] below [W64]; [checked_*] failures are errors, an unchecked
    [+]/[*] that would overflow is the outcome [Panic] (what a build with overflow checks
    does; see DESIGN.md observation O4 - outside the claim of C16).

    Definitions only (this file must stay executable and proof free). *)
From Coq Require Import NArith ZArith List Bool.
Import ListNotations.
Local Open Scope N_scope.

Definition W64 : N := 18446744073709551616.   (* 2^64 *)

Inductive res (E A : Type) : Type :=
| Ok (a : A)
| Err (e : E)
| Panic.
Arguments Ok {E A} a.
Arguments Err {E A} e.
Arguments Panic {E A}.

(** ** characters *)
Definition is_digit (c : N) : bool := (48 <=? c) && (c <=? 57).
Definition digit_val (c : N) : N := c - 48.
Definition digit_char (d : N) : N := 48 + d.

(** [char::is_whitespace]: the Unicode [White_Space] property. *)
Definition is_ws (c : N) : bool :=
  ((9 <=? c) && (c <=? 13)) || (c =? 32) || (c =? 133) || (c =? 160) || (c =? 5760)
  || ((8192 <=? c) && (c <=? 8202)) || (c =? 8232) || (c =? 8233) || (c =? 8239)
  || (c =? 8287) || (c =? 12288).

Fixpoint list_eqb (a b : list N) : bool :=
  match a, b with
  | [], [] => true
  | x :: a', y :: b' => (x =? y) && list_eqb a' b'
  | _, _ => false
  end.

(** ** decimal printing: [{}] on an unsigned integer, and [{:0k}] for values below 10^k *)
Fixpoint digits_rev (fuel : nat) (n : N) : list N :=
  match fuel with
  | O => []
  | S f => if n <? 10 then [n] else n mod 10 :: digits_rev f (n / 10)
  end.
(** enough fuel for every number below 10^40 (u64 and u128 fit) *)
Definition dec_digits (n : N) : list N := rev (digits_rev 40 n).
Definition print_dec (n : N) : list N := map digit_char (dec_digits n).

Fixpoint fixed_rev (k : nat) (n : N) : list N :=
  match k with
  | O => []
  | S k' => n mod 10 :: fixed_rev k' (n / 10)
  end.
Definition print_fixed (k : nat) (n : N) : list N := map digit_char (rev (fixed_rev k n)).

(** ** [u64::from_str]: optional [+], at least one ASCII digit, checked accumulation *)
Fixpoint parse_digits (acc : N) (s : list N) : option N :=
  match s with
  | [] => Some acc
  | c :: s' =>
      if is_digit c then
        let a := acc * 10 + digit_val c in
        if a <? W64 then parse_digits a s' else None
      else None
  end.
Definition parse_u64 (s : list N) : option N :=
  match s with
  | [] => None
  | c :: s' =>
      if c =? 43 then match s' with [] => None | _ => parse_digits 0 s' end
      else parse_digits 0 s
  end.

(** ** Amount *)
Inductive amount_err := AOverflow | AExpectedDot | AExpectedDigit | AExpectedMore
                      | AExpectedDigitOrDot | AAtMostSixDecimals.

(** [Display for Amount] *)
Definition print_amount (m : N) : list N :=
  let q := m / 1000000 in
  let r := m mod 1000000 in
  if r =? 0 then print_dec q ++ [46; 48]
  else print_dec q ++ [46] ++ print_fixed 6 r.

(** end of input: the [for _ in 0..6 - after_dot] loop of [checked_mul(10)] *)
Definition amt_finish (acc after : N) : res amount_err N :=
  let v := acc * 10 ^ (6 - after) in
  if v <? W64 then Ok v else Err AOverflow.

(** state 3: after the dot *)
Fixpoint amt_frac (acc after : N) (s : list N) : res amount_err N :=
  match s with
  | [] => if after =? 0 then Err AExpectedMore else amt_finish acc after
  | c :: s' =>
      if 6 <=? after then Err AAtMostSixDecimals
      else if is_digit c then
        let a := acc * 10 + digit_val c in
        if a <? W64 then amt_frac a (after + 1) s' else Err AOverflow
      else Err AExpectedDigit
  end.

(** state 2: reading the integral part (first digit was 1-9) *)
Fixpoint amt_int (acc : N) (s : list N) : res amount_err N :=
  match s with
  | [] => amt_finish acc 0
  | c :: s' =>
      if is_digit c then
        let a := acc * 10 + digit_val c in
        if a <? W64 then amt_int a s' else Err AOverflow
      else if c =? 46 then amt_frac acc 0 s'
      else Err AExpectedDigitOrDot
  end.

(** [FromStr for Amount] (states 0 and 1 inline) *)
Definition parse_amount (s : list N) : res amount_err N :=
  match s with
  | [] => Err AExpectedMore
  | c :: s' =>
      if is_digit c then
        if c =? 48 then
          match s' with
          | [] => amt_finish 0 0
          | c' :: s'' => if c' =? 46 then amt_frac 0 0 s'' else Err AExpectedDot
          end
        else amt_int (digit_val c) s'
      else Err AExpectedDigit
  end.

(** ** Duration *)
Inductive dur_err := DMissingUnit | DFailedParsingNumber | DInvalidUnit.

Definition MS_S : N := 1000.
Definition MS_M : N := 60000.
Definition MS_H : N := 3600000.
Definition MS_D : N := 86400000.

(** [Display for Duration]: "{}d {}h {}m {}s {}ms" *)
Definition print_duration (m : N) : list N :=
  print_dec (m / MS_D) ++ [100; 32]
  ++ print_dec ((m mod MS_D) / MS_H) ++ [104; 32]
  ++ print_dec ((m mod MS_H) / MS_M) ++ [109; 32]
  ++ print_dec ((m mod MS_M) / MS_S) ++ [115; 32]
  ++ print_dec (m mod MS_S) ++ [109; 115].

(** [str::split_whitespace] *)
Fixpoint split_ws_aux (cur : list N) (s : list N) : list (list N) :=
  match s with
  | [] => match cur with [] => [] | _ => [rev cur] end
  | c :: s' =>
      if is_ws c then
        match cur with
        | [] => split_ws_aux [] s'
        | _ => rev cur :: split_ws_aux [] s'
        end
      else split_ws_aux (c :: cur) s'
  end.
Definition split_ws (s : list N) : list (list N) := split_ws_aux [] s.

(** [measure.find(|c| !c.is_ascii_digit())] + [split_at] *)
Fixpoint span_digits (s : list N) : list N * list N :=
  match s with
  | [] => ([], [])
  | c :: s' =>
      if is_digit c then let (a, b) := span_digits s' in (c :: a, b)
      else ([], s)
  end.

(** the unit table *)
Definition unit_of (u : list N) : option N :=
  if list_eqb u [109; 115] then Some 1
  else if list_eqb u [115] then Some MS_S
  else if list_eqb u [109] then Some MS_M
  else if list_eqb u [104] then Some MS_H
  else if list_eqb u [100] then Some MS_D
  else None.

(** the [for measure in s.split_whitespace()] loop; [duration += n * unit] is unchecked *)
Fixpoint dur_fold (acc : N) (ms : list (list N)) : res dur_err N :=
  match ms with
  | [] => Ok acc
  | m :: ms' =>
      let (n, u) := span_digits m in
      match u with
      | [] => Err DMissingUnit
      | _ =>
          match parse_u64 n with
          | None => Err DFailedParsingNumber
          | Some nv =>
              match unit_of u with
              | None => Err DInvalidUnit
              | Some k =>
                  if nv * k <? W64 then
                    if acc + nv * k <? W64 then dur_fold (acc + nv * k) ms' else Panic
                  else Panic
              end
          end
      end
  end.
Definition parse_duration (s : list N) : res dur_err N := dur_fold 0 (split_ws s).

(** ** ContractAddress: "<index,subindex>" *)
Inductive caddr_err := CMissingStartBracket | CMissingEndBracket | CNoComma
                     | CParseIndex | CParseSubIndex.

Definition print_contract_address (a : N * N) : list N :=
  [60] ++ print_dec (fst a) ++ [44] ++ print_dec (snd a) ++ [62].

(** [split_once(',')] *)
Fixpoint split_comma (s : list N) : option (list N * list N) :=
  match s with
  | [] => None
  | c :: s' =>
      if c =? 44 then Some ([], s')
      else match split_comma s' with
           | Some (a, b) => Some (c :: a, b)
           | None => None
           end
  end.

Definition parse_contract_address (s : list N) : res caddr_err (N * N) :=
  match s with
  | [] => Err CMissingStartBracket
  | c :: s' =>
      if negb (c =? 60) then Err CMissingStartBracket
      else if negb (last s 0 =? 62) then Err CMissingEndBracket
      else
        match split_comma (removelast s') with
        | None => Err CNoComma
        | Some (i, j) =>
            match parse_u64 i with
            | None => Err CParseIndex
            | Some iv =>
                match parse_u64 j with
                | None => Err CParseSubIndex
                | Some jv => Ok (iv, jv)
                end
            end
        end
  end.

(** ** Timestamp: milliseconds since the unix epoch <-> RFC 3339 (UTC) *)

(** proleptic Gregorian calendar; days are counted from 0000-03-01 ("shifted days"):
    day 0 of era 0.  The unix epoch is shifted day [EPOCH_SHIFT]. *)
Definition EPOCH_SHIFT : N := 719468.
Definition DAYS_PER_ERA : N := 146097.

(** year-of-era, month (1-12), day (1-31) and the "January or February" flag from the day of era *)
Definition civil_of_doe (doe : N) : N * N * N :=
  let yoe := (doe - doe / 1460 + doe / 36524 - doe / 146096) / 365 in
  let doy := doe - (365 * yoe + yoe / 4 - yoe / 100) in
  let mp := (5 * doy + 2) / 153 in
  let d := doy - (153 * mp + 2) / 5 + 1 in
  let m := if mp <? 10 then mp + 3 else mp - 9 in
  (yoe, m, d).

(** civil date (year, month, day) of a shifted day number *)
Definition civil_from_shifted (z : N) : N * N * N :=
  let era := z / DAYS_PER_ERA in
  let doe := z mod DAYS_PER_ERA in
  let '(yoe, m, d) := civil_of_doe doe in
  let y := yoe + era * 400 in
  ((if m <=? 2 then y + 1 else y), m, d).

(** day of era from (year of era, month, day), the year of era counted from March *)
Definition doe_of_civil (yoe m d : N) : N :=
  let mp := if 2 <? m then m - 3 else m + 9 in
  let doy := (153 * mp + 2) / 5 + d - 1 in
  yoe * 365 + yoe / 4 - yoe / 100 + doy.

(** shifted day number of a civil date; only defined for (y, m) not before 0000-03 *)
Definition shifted_from_civil (y m d : N) : N :=
  let y' := if m <=? 2 then y - 1 else y in
  let era := y' / 400 in
  let yoe := y' mod 400 in
  era * DAYS_PER_ERA + doe_of_civil yoe m d.

Definition is_leap (y : N) : bool :=
  ((y mod 4 =? 0) && negb (y mod 100 =? 0)) || (y mod 400 =? 0).
Definition days_in_month (y m : N) : N :=
  if m =? 2 then (if is_leap y then 29 else 28)
  else if (m =? 4) || (m =? 6) || (m =? 9) || (m =? 11) then 30 else 31.
Definition valid_date (y m d : N) : bool :=
  (1 <=? m) && (m <=? 12) && (1 <=? d) && (d <=? days_in_month y m).

(** first millisecond of the year 10000 *)
Definition YEAR_10000_MS : N := 253402300800000.

(** [DateTime<Utc>::to_rfc3339] for a time with millisecond precision, years 0000-9999:
    SecondsFormat::AutoSi prints no fraction or exactly three digits; offset "+00:00" *)
Definition print_rfc3339 (ms : N) : list N :=
  let days := ms / MS_D in
  let tod := ms mod MS_D in
  let '(y, mo, d) := civil_from_shifted (days + EPOCH_SHIFT) in
  let h := tod / MS_H in
  let mi := (tod mod MS_H) / MS_M in
  let s := (tod mod MS_M) / MS_S in
  let frac := tod mod MS_S in
  print_fixed 4 y ++ [45] ++ print_fixed 2 mo ++ [45] ++ print_fixed 2 d ++ [84]
  ++ print_fixed 2 h ++ [58] ++ print_fixed 2 mi ++ [58] ++ print_fixed 2 s
  ++ (if frac =? 0 then [] else [46] ++ print_fixed 3 frac)
  ++ [43; 48; 48; 58; 48; 48].

(** [Display for Timestamp] after the repair: RFC 3339 exactly when the year has four
    digits, otherwise the plain number of milliseconds. *)
Definition print_timestamp (ms : N) : list N :=
  if ms <? YEAR_10000_MS then print_rfc3339 ms else print_dec ms.

(** exactly [k] ASCII digits ([scan::number(s, k, k)]) *)
Fixpoint take_digits (k : nat) (acc : N) (s : list N) : option (N * list N) :=
  match k with
  | O => Some (acc, s)
  | S k' =>
      match s with
      | c :: s' => if is_digit c then take_digits k' (acc * 10 + digit_val c) s' else None
      | [] => None
      end
  end.
Definition expect (ch : N) (s : list N) : option (list N) :=
  match s with
  | c :: s' => if c =? ch then Some s' else None
  | [] => None
  end.

(** [scan::nanosecond]: 1..9 digits scaled to nanoseconds, further digits skipped *)
Fixpoint frac_digits (k : nat) (acc : N) (s : list N) : N * list N :=
  match s with
  | c :: s' =>
      if is_digit c then
        match k with
        | O => frac_digits O acc s'                      (* skipped *)
        | S k' => frac_digits k' (acc + digit_val c * 10 ^ N.of_nat k') s'
        end
      else (acc, s)
  | [] => (acc, s)
  end.
Definition parse_frac (s : list N) : option (N * list N) :=
  match s with
  | 46 :: s' =>
      match s' with
      | c :: _ => if is_digit c then Some (frac_digits 9 0 s') else None
      | [] => None
      end
  | _ => Some (0, s)
  end.

(** [scan::timezone_offset] with mandatory colon, "Z"/"z" allowed, U+2212 allowed;
    result in seconds, RFC 3339 range check included *)
Definition parse_offset (s : list N) : option (Z * list N) :=
  match s with
  | [] => None
  | c :: s' =>
      if (c =? 90) || (c =? 122) then Some (0%Z, s')
      else
        let sign := if c =? 43 then Some 1%Z
                    else if (c =? 45) || (c =? 8722) then Some (-1)%Z else None in
        match sign with
        | None => None
        | Some sg =>
            match take_digits 2 0 s' with
            | None => None
            | Some (hh, s1) =>
                match expect 58 s1 with
                | None => None
                | Some s2 =>
                    match take_digits 2 0 s2 with
                    | None => None
                    | Some (mm, s3) =>
                        if (mm <=? 59) && (hh <=? 23)
                        then Some ((sg * Z.of_N (hh * 3600 + mm * 60))%Z, s3)
                        else None
                    end
                end
            end
        end
  end.

Inductive ts_err := TParseError | TBeforeUnixEpoch.

(** [DateTime::parse_from_rfc3339] followed by [timestamp_millis().try_into()] *)
Definition parse_rfc3339 (s : list N) : res ts_err N :=
  match take_digits 4 0 s with None => Err TParseError | Some (y, s) =>
  match expect 45 s with None => Err TParseError | Some s =>
  match take_digits 2 0 s with None => Err TParseError | Some (mo, s) =>
  match expect 45 s with None => Err TParseError | Some s =>
  match take_digits 2 0 s with None => Err TParseError | Some (d, s) =>
  match s with
  | [] => Err TParseError
  | sep :: s =>
  if negb ((sep =? 84) || (sep =? 116) || (sep =? 32)) then Err TParseError else
  match take_digits 2 0 s with None => Err TParseError | Some (h, s) =>
  match expect 58 s with None => Err TParseError | Some s =>
  match take_digits 2 0 s with None => Err TParseError | Some (mi, s) =>
  match expect 58 s with None => Err TParseError | Some s =>
  match take_digits 2 0 s with None => Err TParseError | Some (sec, s) =>
  match parse_frac s with None => Err TParseError | Some (nanos, s) =>
  match parse_offset s with None => Err TParseError | Some (off, s) =>
  match s with
  | _ :: _ => Err TParseError
  | [] =>
      if valid_date y mo d && (h <=? 23) && (mi <=? 59) && (sec <=? 60) then
        (* year 0000, January and February lie before shifted day 0: certainly before 1970 *)
        if (y =? 0) && (mo <=? 2) then Err TBeforeUnixEpoch else
        let local_ms := shifted_from_civil y mo d * MS_D + h * MS_H + mi * MS_M
                        + sec * MS_S + nanos / 1000000 in
        let utc := (Z.of_N local_ms - Z.of_N (EPOCH_SHIFT * MS_D) - off * 1000)%Z in
        if (utc <? 0)%Z then Err TBeforeUnixEpoch else Ok (Z.to_N utc)
      else Err TParseError
  end end end end end end end end end end end end end end.

(** [FromStr for Timestamp]: a plain [u64] first, RFC 3339 otherwise *)
Definition parse_timestamp (s : list N) : res ts_err N :=
  match parse_u64 s with
  | Some v => Ok v
  | None => parse_rfc3339 s
  end.

(** ** the printer before the repair ([timestamp_millis() as i64]), kept so that a
    regression is understood: reinterpretation as [i64], chrono's range, then RFC 3339
    with chrono's sign-and-five-digits notation for years outside 0..=9999. *)
Definition CHRONO_MAX_MS : Z := 8210266876799999.     (* +262142-12-31T23:59:59.999 *)
Definition CHRONO_MIN_MS : Z := (-8334601228800000).  (* -262143-01-01T00:00:00 *)

Definition print_year_chrono (y : Z) : list N :=
  if ((0 <=? y) && (y <=? 9999))%Z then print_fixed 4 (Z.to_N y)
  else (if (y <? 0)%Z then [45] else [43])
       ++ (let a := Z.to_N (Z.abs y) in if a <? 10000 then print_fixed 4 a else print_dec a).

Definition print_timestamp_prefix (ms : N) : list N :=
  let t := if ms <? 9223372036854775808 then Z.of_N ms else (Z.of_N ms - Z.of_N W64)%Z in
  if ((t <? CHRONO_MIN_MS) || (CHRONO_MAX_MS <? t))%Z then print_dec ms
  else
    let days := (t / Z.of_N MS_D)%Z in                       (* floor *)
    let tod := Z.to_N (t mod Z.of_N MS_D)%Z in
    (* shift by whole eras so that the day number is non-negative *)
    let eras := 2000%Z in
    let z := Z.to_N (days + Z.of_N EPOCH_SHIFT + eras * Z.of_N DAYS_PER_ERA)%Z in
    let '(y0, mo, d) := civil_from_shifted z in
    let y := (Z.of_N y0 - eras * 400)%Z in
    let h := tod / MS_H in
    let mi := (tod mod MS_H) / MS_M in
    let s := (tod mod MS_M) / MS_S in
    let frac := tod mod MS_S in
    print_year_chrono y ++ [45] ++ print_fixed 2 mo ++ [45] ++ print_fixed 2 d ++ [84]
    ++ print_fixed 2 h ++ [58] ++ print_fixed 2 mi ++ [58] ++ print_fixed 2 s
    ++ (if frac =? 0 then [] else [46] ++ print_fixed 3 frac)
    ++ [43; 48; 48; 58; 48; 48].
