(** * SchemaJsonLeb — the padded LEB128 forms of [Type::ULeb128(c)] / [Type::ILeb128(c)] as an iff.

    [uleb_fixed k n] / [sleb_fixed k z] are THE encodings with exactly [S k] bytes ([k] groups with the
    continuation bit, one final group).  [deserial_biguint] / [deserial_bigint] accept exactly those with
    [S k <= c] whose value fits [7 * S k] bits (unsigned) / [7 * S k] bits two's complement (signed);
    [serial_biguint] / [serial_bigint] write the one with the least [k]; the longer ones are the shortest one
    with the continuation bit set on its last byte followed by groups that only repeat zero / the sign.
    [uleb_strip] / [sleb_strip] remove that padding syntactically (no arithmetic on the value). *)
From Coq Require Import NArith ZArith Bool List Lia.
From CB Require Import Contract.SchemaJson Contract.SchemaJsonLemmas Contract.SchemaJsonText.
Import ListNotations.
Local Open Scope N_scope.
Arguments N.add : simpl never.
Arguments N.sub : simpl never.
Arguments N.mul : simpl never.
Arguments N.pow : simpl never.
Arguments N.div : simpl never.
Arguments N.modulo : simpl never.
Arguments N.eqb : simpl never.
Arguments N.ltb : simpl never.
Arguments N.leb : simpl never.
Arguments Z.pow : simpl never.
Arguments Z.mul : simpl never.
Arguments Z.add : simpl never.
Arguments Z.sub : simpl never.
Arguments Z.modulo : simpl never.
Arguments Z.div : simpl never.
Arguments Z.ltb : simpl never.
Arguments Z.leb : simpl never.
Arguments Z.eqb : simpl never.
Arguments N.of_nat : simpl never.
Arguments Z.of_nat : simpl never.
Arguments Z.of_N : simpl never.
Arguments Z.to_N : simpl never.
#[local] Ltac Zify.zify_post_hook ::= Z.to_euclidean_division_equations.

(* ------------------------------------------------------------------ definitions (executable) *)
(** the encoding of [n] with exactly [S k] bytes *)
Fixpoint uleb_fixed (k : nat) (n : N) : list N :=
  match k with
  | O => [n mod 128]
  | S k' => (n mod 128 + 128) :: uleb_fixed k' (n / 128)
  end.

Fixpoint sleb_fixed (k : nat) (z : Z) : list N :=
  match k with
  | O => [Z.to_N (z mod 128)%Z]
  | S k' => (Z.to_N (z mod 128)%Z + 128) :: sleb_fixed k' (z / 128)%Z
  end.

Definition is_single (v : N) (l : list N) : bool :=
  match l with [x] => x =? v | _ => false end.

(** drop the redundant trailing groups of an unsigned encoding: a zero group after a continuation bit *)
Fixpoint uleb_strip (bs : list N) : list N :=
  match bs with
  | [] => []
  | b :: r => match r with
              | [] => [b mod 128]
              | _ :: _ => let r' := uleb_strip r in
                          if is_single 0 r' then [b mod 128] else (b mod 128 + 128) :: r'
              end
  end.

(** signed: a final group 0 after a group with bit 6 clear, or 127 after a group with bit 6 set *)
Fixpoint sleb_strip (bs : list N) : list N :=
  match bs with
  | [] => []
  | b :: r => match r with
              | [] => [b mod 128]
              | _ :: _ => let r' := sleb_strip r in
                          let g := b mod 128 in
                          if (is_single 0 r' && (g <? 64)) || (is_single 127 r' && (64 <=? g))
                          then [g] else (g + 128) :: r'
              end
  end.

Lemma uleb_strip_cons2 : forall b x l, uleb_strip (b :: x :: l) =
  if is_single 0 (uleb_strip (x :: l)) then [b mod 128] else (b mod 128 + 128) :: uleb_strip (x :: l).
Proof. reflexivity. Qed.
Lemma sleb_strip_cons2 : forall b x l, sleb_strip (b :: x :: l) =
  if (is_single 0 (sleb_strip (x :: l)) && (b mod 128 <? 64)) || (is_single 127 (sleb_strip (x :: l)) && (64 <=? b mod 128))
  then [b mod 128] else (b mod 128 + 128) :: sleb_strip (x :: l).
Proof. reflexivity. Qed.

(** the value fits [S k] bytes *)
Definition ufits (k : nat) (n : N) : Prop := n < 2 ^ (7 * N.of_nat (S k)).
Definition sfits (k : nat) (z : Z) : Prop :=
  (- 2 ^ (7 * Z.of_nat (S k) - 1) <= z < 2 ^ (7 * Z.of_nat (S k) - 1))%Z.

(* ------------------------------------------------------------------ arithmetic helpers *)
Lemma upow_S : forall k : nat, 2 ^ (7 * N.of_nat (S k)) = 128 * 2 ^ (7 * N.of_nat k).
Proof.
  intros k. replace (7 * N.of_nat (S k)) with (7 + 7 * N.of_nat k) by lia.
  rewrite N.pow_add_r. reflexivity.
Qed.

Lemma spow_S : forall k : nat, (2 ^ (7 * Z.of_nat (S (S k)) - 1) = 128 * 2 ^ (7 * Z.of_nat (S k) - 1))%Z.
Proof.
  intros k. replace (7 * Z.of_nat (S (S k)) - 1)%Z with (7 + (7 * Z.of_nat (S k) - 1))%Z by lia.
  rewrite Z.pow_add_r by lia. reflexivity.
Qed.

Lemma upow_1 : 2 ^ (7 * N.of_nat 1) = 128.
Proof. reflexivity. Qed.
Lemma spow_1 : (2 ^ (7 * Z.of_nat 1 - 1) = 64)%Z.
Proof. reflexivity. Qed.

Lemma ufits_div : forall k n, ufits (S k) n -> ufits k (n / 128).
Proof.
  unfold ufits. intros k n H. rewrite upow_S in H. apply N.div_lt_upper_bound; lia.
Qed.

Lemma sfits_div : forall k z, sfits (S k) z -> sfits k (z / 128)%Z.
Proof.
  unfold sfits. intros k z H. rewrite spow_S in H.
  remember (2 ^ (7 * Z.of_nat (S k) - 1))%Z as P.
  split.
  - apply Z.div_le_lower_bound; lia.
  - apply Z.div_lt_upper_bound; lia.
Qed.

Lemma mod128_add : forall m, m < 128 -> (m + 128) mod 128 = m.
Proof.
  intros m H. rewrite N.add_mod by lia. rewrite N.mod_same by lia. rewrite N.add_0_r.
  rewrite N.mod_mod by lia. apply N.mod_small; lia.
Qed.

Lemma uleb_fixed_length : forall k n, length (uleb_fixed k n) = S k.
Proof. induction k; intros; cbn [uleb_fixed length]; auto. Qed.
Lemma sleb_fixed_length : forall k z, length (sleb_fixed k z) = S k.
Proof. induction k; intros; cbn [sleb_fixed length]; auto. Qed.

Lemma uleb_fixed_ok : forall k n, bytes_ok (uleb_fixed k n) = true.
Proof.
  induction k; intros n; cbn [uleb_fixed]; unfold bytes_ok in *; cbn [forallb];
    pose proof (N.mod_lt n 128 ltac:(lia)).
  - destruct (N.ltb_spec (n mod 128) 256); [reflexivity|lia].
  - destruct (N.ltb_spec (n mod 128 + 128) 256); [|lia]. apply IHk.
Qed.

Lemma sleb_fixed_ok : forall k z, bytes_ok (sleb_fixed k z) = true.
Proof.
  induction k; intros z; cbn [sleb_fixed]; unfold bytes_ok in *; cbn [forallb];
    pose proof (Z.mod_pos_bound z 128 ltac:(lia)).
  - destruct (N.ltb_spec (Z.to_N (z mod 128)%Z) 256); [reflexivity|lia].
  - destruct (N.ltb_spec (Z.to_N (z mod 128)%Z + 128) 256); [|lia]. apply IHk.
Qed.

(* ------------------------------------------------------------------ unsigned: the decoder accepts exactly the fixed forms *)
Lemma uleb_fixed_dec : forall k n c shift acc rest, ufits k n -> N.of_nat (S k) <= c ->
  uleb_dec (uleb_fixed k n ++ rest) c shift acc = Some (acc + n * 2 ^ shift, rest).
Proof.
  induction k as [|k IH]; intros n c shift acc rest Hn Hc; cbn [uleb_fixed app uleb_dec];
    pose proof (N.mod_lt n 128 ltac:(lia)) as Hm;
    pose proof (N.div_mod n 128 ltac:(lia)) as Hdm;
    destruct (N.eqb_spec c 0); try lia.
  - unfold ufits in Hn. rewrite upow_1 in Hn.
    rewrite N.mod_mod by lia. destruct (N.ltb_spec (n mod 128) 128); [|lia].
    rewrite N.mod_small by lia. reflexivity.
  - destruct (N.ltb_spec (n mod 128 + 128) 128); [lia|].
    rewrite mod128_add by lia. rewrite IH.
    + f_equal. f_equal. rewrite N.pow_add_r. change (2 ^ 7) with 128. lia.
    + apply ufits_div; auto.
    + lia.
Qed.

Lemma uleb_dec_fixed : forall bs c shift acc v rest, bytes_ok bs = true ->
  uleb_dec bs c shift acc = Some (v, rest) ->
  exists k n, bs = uleb_fixed k n ++ rest /\ ufits k n /\ N.of_nat (S k) <= c /\ v = acc + n * 2 ^ shift.
Proof.
  induction bs as [|b bs IH]; intros c shift acc v rest Hb H; cbn [uleb_dec] in H.
  - destruct (c =? 0); discriminate.
  - destruct (N.eqb_spec c 0); [discriminate|].
    unfold bytes_ok in Hb. cbn [forallb] in Hb. apply andb_true_iff in Hb. destruct Hb as [Hb1 Hb2].
    apply N.ltb_lt in Hb1.
    destruct (N.ltb_spec b 128).
    + injection H as <- <-. exists O, b. unfold ufits. rewrite upow_1. cbn [uleb_fixed app].
      rewrite N.mod_small by lia. repeat split; auto; lia.
    + destruct (IH _ _ _ _ _ Hb2 H) as [k [m [-> [Hf [Hc Hv]]]]].
      exists (S k), (b mod 128 + 128 * m).
      assert (Hm : b mod 128 < 128) by (apply N.mod_lt; lia).
      assert (Hq : (b mod 128 + 128 * m) / 128 = m).
      { symmetry. apply N.div_unique with (r := b mod 128); lia. }
      assert (Hr : (b mod 128 + 128 * m) mod 128 = b mod 128).
      { symmetry. apply N.mod_unique with (q := m); lia. }
      cbn [uleb_fixed app]. rewrite Hq, Hr. repeat split.
      * f_equal. pose proof (N.div_mod b 128 ltac:(lia)).
        assert (b / 128 = 1); [|lia].
        assert (b / 128 < 2) by (apply N.div_lt_upper_bound; lia).
        assert (1 <= b / 128) by (apply N.div_le_lower_bound; lia). lia.
      * unfold ufits in *. rewrite upow_S. lia.
      * lia.
      * rewrite Hv. rewrite N.pow_add_r. change (2 ^ 7) with 128. lia.
Qed.

(** the iff for [Type::ULeb128(c)] *)
Theorem uleb_dec_iff : forall bs c n rest, bytes_ok bs = true ->
  (uleb_dec bs c 0 0 = Some (n, rest) <->
   exists k, N.of_nat (S k) <= c /\ ufits k n /\ bs = uleb_fixed k n ++ rest).
Proof.
  intros bs c n rest Hb. split.
  - intros H. destruct (uleb_dec_fixed _ _ _ _ _ _ Hb H) as [k [m [-> [Hf [Hc Hv]]]]].
    change (2 ^ 0) with 1 in Hv. assert (n = m) by lia. subst m. exists k. auto.
  - intros [k [Hc [Hf ->]]]. rewrite uleb_fixed_dec by auto. f_equal. f_equal. change (2 ^ 0) with 1. lia.
Qed.

(** the encoding of a given length is unique: value and length determine the bytes *)
Lemma uleb_fixed_inj : forall k n m, ufits k n -> ufits k m -> uleb_fixed k n = uleb_fixed k m -> n = m.
Proof.
  induction k as [|k IH]; intros n m Hn Hm H; cbn [uleb_fixed] in H.
  - unfold ufits in *. rewrite upow_1 in *. injection H as H. rewrite !N.mod_small in H by lia. exact H.
  - injection H as H1 H2. apply IH in H2; try (apply ufits_div; assumption).
    pose proof (N.div_mod n 128 ltac:(lia)). pose proof (N.div_mod m 128 ltac:(lia)). lia.
Qed.

(* ------------------------------------------------------------------ unsigned: what serial_biguint writes is the shortest fixed form *)
Lemma uleb_groups_nonempty : forall f n, exists b r, uleb_groups (S f) n = b :: r.
Proof. intros f n. cbn [uleb_groups]. destruct (n / 128 =? 0); eauto. Qed.

Lemma uleb_groups_is_fixed : forall fuel n, n < 2 ^ N.of_nat fuel -> (fuel > 0)%nat ->
  uleb_groups fuel n = uleb_fixed (pred (length (uleb_groups fuel n))) n.
Proof.
  induction fuel as [|f IH]; intros n Hn Hf; [lia|].
  cbn [uleb_groups]. destruct (N.eqb_spec (n / 128) 0) as [E|E]; [reflexivity|].
  destruct f as [|f'].
  { exfalso. change (2 ^ N.of_nat 1) with 2 in Hn. apply E. apply N.div_small. lia. }
  destruct (uleb_groups_nonempty f' (n / 128)) as [b [r Hg]].
  cbn [length pred]. rewrite Hg at 2. cbn [length uleb_fixed]. f_equal.
  rewrite IH at 1; [rewrite Hg; reflexivity| |lia].
  replace (N.of_nat (S (S f'))) with (1 + N.of_nat (S f')) in Hn by lia.
  rewrite N.pow_add_r in Hn. change (2 ^ 1) with 2 in Hn.
  apply N.div_lt_upper_bound; lia.
Qed.

Lemma uleb_groups_fits : forall fuel n, n < 2 ^ N.of_nat fuel -> (fuel > 0)%nat ->
  ufits (pred (length (uleb_groups fuel n))) n.
Proof.
  induction fuel as [|f IH]; intros n Hn Hf; [lia|].
  cbn [uleb_groups]. destruct (N.eqb_spec (n / 128) 0) as [E|E].
  - cbn [length pred]. unfold ufits. rewrite upow_1.
    pose proof (N.div_mod n 128 ltac:(lia)). pose proof (N.mod_lt n 128 ltac:(lia)). lia.
  - destruct f as [|f'].
    { exfalso. change (2 ^ N.of_nat 1) with 2 in Hn. apply E. apply N.div_small. lia. }
    destruct (uleb_groups_nonempty f' (n / 128)) as [b [r Hg]].
    cbn [length pred].
    assert (Hq : n / 128 < 2 ^ N.of_nat (S f')).
    { replace (N.of_nat (S (S f'))) with (1 + N.of_nat (S f')) in Hn by lia.
      rewrite N.pow_add_r in Hn. change (2 ^ 1) with 2 in Hn. apply N.div_lt_upper_bound; lia. }
    specialize (IH (n / 128) Hq ltac:(lia)). rewrite Hg in *. cbn [length pred] in *.
    unfold ufits in *. rewrite upow_S.
    pose proof (N.div_mod n 128 ltac:(lia)). pose proof (N.mod_lt n 128 ltac:(lia)). lia.
Qed.

Lemma fuel_ok_N : forall n, n < 2 ^ N.of_nat (S (N.size_nat n)).
Proof.
  intros n. pose proof (size_nat_bound n).
  replace (N.of_nat (S (N.size_nat n))) with (1 + N.of_nat (N.size_nat n)) by lia.
  rewrite N.pow_add_r. change (2 ^ 1) with 2. lia.
Qed.

(** [serial_biguint] writes the fixed form with the least number of bytes, when that is within [c] *)
Theorem uleb_enc_canonical : forall c n g, uleb_enc c n = Some g ->
  exists k, g = uleb_fixed k n /\ ufits k n /\ N.of_nat (S k) <= c /\
            (forall k', ufits k' n -> (k <= k')%nat).
Proof.
  unfold uleb_enc. intros c n g H.
  remember (S (N.size_nat n)) as fuel.
  destruct (N.leb_spec (N.of_nat (length (uleb_groups fuel n))) c); [|discriminate].
  injection H as <-.
  assert (Hn : n < 2 ^ N.of_nat fuel) by (subst fuel; apply fuel_ok_N).
  assert (Hf : (fuel > 0)%nat) by lia.
  exists (pred (length (uleb_groups fuel n))). repeat split.
  - apply uleb_groups_is_fixed; auto.
  - apply uleb_groups_fits; auto.
  - subst fuel. destruct (uleb_groups_nonempty (N.size_nat n) n) as [b [r Hg]]. rewrite Hg in *.
    cbn [length pred] in *. lia.
  - intros k' Hk'. pose proof (uleb_groups_short fuel n (S k') ltac:(lia) Hk'). lia.
Qed.

(** conversely every value that fits [c] bytes is written *)
Theorem uleb_enc_iff : forall c n, (exists g, uleb_enc c n = Some g) <-> (exists k, ufits k n /\ N.of_nat (S k) <= c).
Proof.
  intros c n. split.
  - intros [g H]. destruct (uleb_enc_canonical _ _ _ H) as [k [_ [Hf [Hc _]]]]. eauto.
  - intros [k [Hf Hc]]. unfold uleb_enc.
    pose proof (uleb_groups_short (S (N.size_nat n)) n (S k) ltac:(lia) Hf).
    destruct (N.leb_spec (N.of_nat (length (uleb_groups (S (N.size_nat n)) n))) c); [eauto|lia].
Qed.

(* ------------------------------------------------------------------ unsigned: the padded forms, syntactically *)
Lemma uleb_fixed_zero : forall j, uleb_fixed j 0 = repeat 128 j ++ [0].
Proof. induction j; cbn [uleb_fixed repeat app]; [reflexivity|]. change (0 / 128) with 0. rewrite IHj. reflexivity. Qed.

(** a longer form = the shorter one with its last byte's continuation bit set, [j] groups [0x80], one [0x00] *)
Theorem uleb_fixed_pad : forall k j n, ufits k n ->
  uleb_fixed (k + S j) n =
  removelast (uleb_fixed k n) ++ [last (uleb_fixed k n) 0 + 128] ++ repeat 128 j ++ [0].
Proof.
  induction k as [|k IH]; intros j n Hf.
  - unfold ufits in Hf. rewrite upow_1 in Hf. cbn [Nat.add uleb_fixed removelast last app].
    rewrite N.div_small by lia. rewrite uleb_fixed_zero. reflexivity.
  - cbn [Nat.add uleb_fixed]. rewrite IH by (apply ufits_div; auto).
    remember (uleb_fixed k (n / 128)) as l. destruct l as [|x l'].
    { pose proof (uleb_fixed_length k (n / 128)) as Hl. rewrite <- Heql in Hl. discriminate. }
    reflexivity.
Qed.

Lemma uleb_groups_single0 : forall f m, is_single 0 (uleb_groups (S f) m) = true -> m = 0.
Proof.
  intros f m H. cbn [uleb_groups] in H. destruct (N.eqb_spec (m / 128) 0) as [E|E].
  - cbn [is_single] in H. apply N.eqb_eq in H. pose proof (N.div_mod m 128 ltac:(lia)). lia.
  - destruct f; cbn [uleb_groups is_single] in H; [apply N.eqb_eq in H; lia|].
    destruct (m / 128 / 128 =? 0); discriminate.
Qed.

(** [uleb_strip] of any accepted form is what [serial_biguint] writes *)
Theorem uleb_strip_fixed : forall k n fuel, ufits k n -> n < 2 ^ N.of_nat fuel -> (fuel > 0)%nat ->
  uleb_strip (uleb_fixed k n) = uleb_groups fuel n.
Proof.
  induction k as [|k IH]; intros n fuel Hf Hn Hfu; (destruct fuel as [|f]; [lia|]).
  - unfold ufits in Hf. rewrite upow_1 in Hf. cbn [uleb_fixed uleb_strip uleb_groups].
    rewrite N.div_small by lia. rewrite N.mod_mod by lia. reflexivity.
  - cbn [uleb_fixed]. pose proof (uleb_fixed_length k (n / 128)) as Hl.
    remember (uleb_fixed k (n / 128)) as l. destruct l as [|x l']; [discriminate|].
    rewrite uleb_strip_cons2. rewrite Heql. pose proof (N.mod_lt n 128 ltac:(lia)).
    rewrite mod128_add by lia. cbn [uleb_groups].
    destruct (N.eqb_spec (n / 128) 0) as [E|E].
    + rewrite E. rewrite (IH 0 1%nat); try lia; [reflexivity|].
      unfold ufits. assert (2 ^ (7 * N.of_nat (S k)) <> 0) by (apply N.pow_nonzero; lia). lia.
    + destruct f as [|f'].
      { exfalso. change (2 ^ N.of_nat 1) with 2 in Hn. apply E. apply N.div_small. lia. }
      assert (Hq : n / 128 < 2 ^ N.of_nat (S f')).
      { replace (N.of_nat (S (S f'))) with (1 + N.of_nat (S f')) in Hn by lia.
        rewrite N.pow_add_r in Hn. change (2 ^ 1) with 2 in Hn. apply N.div_lt_upper_bound; lia. }
      rewrite (IH (n / 128) (S f')); auto; try lia; [|apply ufits_div; auto].
      destruct (is_single 0 (uleb_groups (S f') (n / 128))) eqn:Es; [|reflexivity].
      apply uleb_groups_single0 in Es. contradiction.
Qed.

(* ------------------------------------------------------------------ signed *)
Lemma sleb_fixed_dec : forall k z c shift acc rest, sfits k z -> N.of_nat (S k) <= c ->
  sleb_dec (sleb_fixed k z ++ rest) c shift acc = Some ((acc + z * 2 ^ Z.of_N shift)%Z, rest).
Proof.
  induction k as [|k IH]; intros z c shift acc rest Hz Hc; cbn [sleb_fixed app sleb_dec];
    pose proof (Z.mod_pos_bound z 128 ltac:(lia)) as Hm;
    pose proof (Z.div_mod z 128 ltac:(lia)) as Hdm;
    remember (Z.to_N (z mod 128)%Z) as b eqn:Eb;
    assert (Hb : Z.of_N b = (z mod 128)%Z) by (subst b; rewrite Z2N.id; lia);
    assert (Hb128 : b < 128) by lia;
    assert (Hpow : (2 ^ Z.of_N (shift + 7) = 128 * 2 ^ Z.of_N shift)%Z)
      by (rewrite N2Z.inj_add; rewrite Z.pow_add_r by lia; change (2 ^ Z.of_N 7)%Z with 128%Z; lia);
    destruct (N.eqb_spec c 0); try lia.
  - unfold sfits in Hz. rewrite spow_1 in Hz.
    rewrite N.mod_small by lia. destruct (N.ltb_spec b 128); [|lia].
    f_equal. f_equal. rewrite Hb, Hpow. remember (2 ^ Z.of_N shift)%Z as P.
    destruct (N.leb_spec 64 b).
    + assert (z / 128 = -1)%Z by lia. lia.
    + assert (z / 128 = 0)%Z by lia. lia.
  - destruct (N.ltb_spec (b + 128) 128); [lia|].
    rewrite mod128_add by lia. rewrite IH.
    + f_equal. f_equal. rewrite Hb, Hpow. remember (2 ^ Z.of_N shift)%Z as P. lia.
    + apply sfits_div; auto.
    + lia.
Qed.

Lemma sleb_dec_fixed : forall bs c shift acc v rest, bytes_ok bs = true ->
  sleb_dec bs c shift acc = Some (v, rest) ->
  exists k z, bs = sleb_fixed k z ++ rest /\ sfits k z /\ N.of_nat (S k) <= c /\ v = (acc + z * 2 ^ Z.of_N shift)%Z.
Proof.
  induction bs as [|b bs IH]; intros c shift acc v rest Hb H; cbn [sleb_dec] in H.
  - destruct (c =? 0); discriminate.
  - destruct (N.eqb_spec c 0); [discriminate|].
    unfold bytes_ok in Hb. cbn [forallb] in Hb. apply andb_true_iff in Hb. destruct Hb as [Hb1 Hb2].
    apply N.ltb_lt in Hb1.
    assert (Hpow : (2 ^ Z.of_N (shift + 7) = 128 * 2 ^ Z.of_N shift)%Z)
      by (rewrite N2Z.inj_add; rewrite Z.pow_add_r by lia; change (2 ^ Z.of_N 7)%Z with 128%Z; lia).
    destruct (N.ltb_spec b 128).
    + rewrite N.mod_small in H by lia.
      destruct (N.leb_spec 64 b); injection H as <- <-.
      * exists O, (Z.of_N b - 128)%Z. unfold sfits. rewrite spow_1. cbn [sleb_fixed app].
        replace ((Z.of_N b - 128) mod 128)%Z with (Z.of_N b).
        2:{ apply Z.mod_unique with (q := (-1)%Z); lia. }
        rewrite N2Z.id. repeat split; auto; try lia.
        all: try (rewrite Hpow; remember (2 ^ Z.of_N shift)%Z as P; lia).
      * exists O, (Z.of_N b). unfold sfits. rewrite spow_1. cbn [sleb_fixed app].
        rewrite Z.mod_small by lia. rewrite N2Z.id. repeat split; auto; lia.
    + destruct (IH _ _ _ _ _ Hb2 H) as [k [m [-> [Hf [Hc Hv]]]]].
      assert (Hm : b mod 128 < 128) by (apply N.mod_lt; lia).
      exists (S k), (Z.of_N (b mod 128) + 128 * m)%Z.
      assert (Hq : ((Z.of_N (b mod 128) + 128 * m) / 128 = m)%Z).
      { symmetry. apply Z.div_unique with (r := Z.of_N (b mod 128)); lia. }
      assert (Hr : ((Z.of_N (b mod 128) + 128 * m) mod 128 = Z.of_N (b mod 128))%Z).
      { symmetry. apply Z.mod_unique with (q := m); lia. }
      cbn [sleb_fixed app]. rewrite Hq, Hr, N2Z.id. repeat split.
      * f_equal. pose proof (N.div_mod b 128 ltac:(lia)).
        assert (b / 128 = 1); [|lia].
        assert (b / 128 < 2) by (apply N.div_lt_upper_bound; lia).
        assert (1 <= b / 128) by (apply N.div_le_lower_bound; lia). lia.
      * unfold sfits in *. rewrite spow_S. remember (2 ^ (7 * Z.of_nat (S k) - 1))%Z as P. lia.
      * unfold sfits in *. rewrite spow_S. remember (2 ^ (7 * Z.of_nat (S k) - 1))%Z as P. lia.
      * lia.
      * rewrite Hv, Hpow. remember (2 ^ Z.of_N shift)%Z as P. lia.
Qed.

(** the iff for [Type::ILeb128(c)] *)
Theorem sleb_dec_iff : forall bs c z rest, bytes_ok bs = true ->
  (sleb_dec bs c 0 0 = Some (z, rest) <->
   exists k, N.of_nat (S k) <= c /\ sfits k z /\ bs = sleb_fixed k z ++ rest).
Proof.
  intros bs c z rest Hb. split.
  - intros H. destruct (sleb_dec_fixed _ _ _ _ _ _ Hb H) as [k [m [-> [Hf [Hc Hv]]]]].
    change (2 ^ Z.of_N 0)%Z with 1%Z in Hv. assert (z = m) by lia. subst m. exists k. auto.
  - intros [k [Hc [Hf ->]]]. rewrite sleb_fixed_dec by auto. f_equal. f_equal.
    change (2 ^ Z.of_N 0)%Z with 1%Z. lia.
Qed.

Lemma sleb_fixed_inj : forall k n m, sfits k n -> sfits k m -> sleb_fixed k n = sleb_fixed k m -> n = m.
Proof.
  induction k as [|k IH]; intros n m Hn Hm H; cbn [sleb_fixed] in H;
    pose proof (Z.mod_pos_bound n 128 ltac:(lia)); pose proof (Z.mod_pos_bound m 128 ltac:(lia)).
  - unfold sfits in *. rewrite spow_1 in *. injection H as H. apply Z2N.inj in H; lia.
  - injection H as Ha Hb. apply IH in Hb; try (apply sfits_div; assumption).
    assert (Hc : Z.to_N (n mod 128) = Z.to_N (m mod 128)) by lia. apply Z2N.inj in Hc; lia.
Qed.

Definition sleb_last (z' : Z) (b : N) : bool :=
  ((z' =? 0)%Z && (b <? 64)) || ((z' =? -1)%Z && (64 <=? b)).

Lemma sleb_groups_unfold : forall f z, sleb_groups (S f) z =
  if sleb_last (z / 128)%Z (Z.to_N (z mod 128)%Z) then [Z.to_N (z mod 128)%Z]
  else (Z.to_N (z mod 128)%Z + 128) :: sleb_groups f (z / 128)%Z.
Proof. reflexivity. Qed.

Lemma sleb_last_fits : forall z, sleb_last (z / 128)%Z (Z.to_N (z mod 128)%Z) = true <-> (-64 <= z < 64)%Z.
Proof.
  intros z. unfold sleb_last.
  pose proof (Z.mod_pos_bound z 128 ltac:(lia)); pose proof (Z.div_mod z 128 ltac:(lia)).
  destruct (Z.eqb_spec (z / 128) 0); destruct (Z.eqb_spec (z / 128) (-1));
    destruct (N.ltb_spec (Z.to_N (z mod 128)%Z) 64); destruct (N.leb_spec 64 (Z.to_N (z mod 128)%Z));
    cbn [andb orb]; split; intros; try discriminate; try reflexivity; try lia.
Qed.

Lemma sleb_groups_nonempty : forall f z, exists b r, sleb_groups (S f) z = b :: r.
Proof. intros f z. rewrite sleb_groups_unfold. destruct (sleb_last _ _); eauto. Qed.

Lemma sfuel_div : forall f z, (- 2 ^ Z.of_nat (S (S f)) <= z < 2 ^ Z.of_nat (S (S f)))%Z ->
  (- 2 ^ Z.of_nat (S f) <= z / 128 < 2 ^ Z.of_nat (S f))%Z.
Proof.
  intros f z H.
  assert (Hp : (2 ^ Z.of_nat (S (S f)) = 2 * 2 ^ Z.of_nat (S f))%Z).
  { replace (Z.of_nat (S (S f))) with (1 + Z.of_nat (S f))%Z by lia. rewrite Z.pow_add_r by lia. reflexivity. }
  assert (0 < 2 ^ Z.of_nat (S f))%Z by (apply Z.pow_pos_nonneg; lia).
  remember (2 ^ Z.of_nat (S f))%Z as Q. split.
  - apply Z.div_le_lower_bound; lia.
  - apply Z.div_lt_upper_bound; lia.
Qed.

Lemma sfuel_1 : forall z, (- 2 ^ Z.of_nat 1 <= z < 2 ^ Z.of_nat 1)%Z -> (-64 <= z < 64)%Z.
Proof. intros z. change (2 ^ Z.of_nat 1)%Z with 2%Z. lia. Qed.

Lemma sleb_groups_is_fixed : forall fuel z, (- 2 ^ Z.of_nat fuel <= z < 2 ^ Z.of_nat fuel)%Z -> (fuel > 0)%nat ->
  sleb_groups fuel z = sleb_fixed (pred (length (sleb_groups fuel z))) z
  /\ sfits (pred (length (sleb_groups fuel z))) z.
Proof.
  induction fuel as [|f IH]; intros z Hz Hf; [lia|].
  rewrite sleb_groups_unfold.
  destruct (sleb_last _ _) eqn:E.
  - cbn [length pred sleb_fixed]. split; [reflexivity|]. apply sleb_last_fits in E.
    unfold sfits. rewrite spow_1. lia.
  - destruct f as [|f'].
    { exfalso. apply sfuel_1 in Hz. apply sleb_last_fits in Hz. congruence. }
    destruct (sleb_groups_nonempty f' (z / 128)%Z) as [b [r Hg]].
    destruct (IH (z / 128)%Z (sfuel_div _ _ Hz) ltac:(lia)) as [IH1 IH2].
    cbn [length pred]. rewrite Hg in *. cbn [length pred sleb_fixed] in *. split.
    + f_equal. exact IH1.
    + unfold sfits in *. rewrite spow_S. remember (2 ^ (7 * Z.of_nat (S (length r)) - 1))%Z as P.
      pose proof (Z.mod_pos_bound z 128 ltac:(lia)); pose proof (Z.div_mod z 128 ltac:(lia)). lia.
Qed.

Lemma fuel_ok_Z : forall z, let fuel := S (N.size_nat (Z.abs_N z)) in
  (- 2 ^ Z.of_nat fuel <= z < 2 ^ Z.of_nat fuel)%Z.
Proof.
  intros z fuel. subst fuel. pose proof (abs_size_bound z).
  replace (Z.of_nat (S (N.size_nat (Z.abs_N z)))) with (1 + Z.of_nat (N.size_nat (Z.abs_N z)))%Z by lia.
  rewrite Z.pow_add_r by lia. change (2 ^ 1)%Z with 2%Z.
  assert (0 < 2 ^ Z.of_nat (N.size_nat (Z.abs_N z)))%Z by (apply Z.pow_pos_nonneg; lia). lia.
Qed.

Theorem sleb_enc_canonical : forall c z g, sleb_enc c z = Some g ->
  exists k, g = sleb_fixed k z /\ sfits k z /\ N.of_nat (S k) <= c /\
            (forall k', sfits k' z -> (k <= k')%nat).
Proof.
  unfold sleb_enc. intros c z g H.
  pose proof (fuel_ok_Z z) as Hz. cbv zeta in Hz.
  remember (S (N.size_nat (Z.abs_N z))) as fuel.
  destruct (N.leb_spec (N.of_nat (length (sleb_groups fuel z))) c); [|discriminate].
  injection H as <-.
  assert (Hf : (fuel > 0)%nat) by lia.
  destruct (sleb_groups_is_fixed fuel z Hz Hf) as [H1 H2].
  exists (pred (length (sleb_groups fuel z))). split; [exact H1|]. split; [exact H2|]. split.
  - subst fuel. destruct (sleb_groups_nonempty (N.size_nat (Z.abs_N z)) z) as [b [r Hg]]. rewrite Hg in *.
    cbn [length pred] in *. lia.
  - intros k' Hk'. pose proof (sleb_groups_short fuel z (S k') ltac:(lia) Hk'). lia.
Qed.

Theorem sleb_enc_iff : forall c z, (exists g, sleb_enc c z = Some g) <-> (exists k, sfits k z /\ N.of_nat (S k) <= c).
Proof.
  intros c z. split.
  - intros [g H]. destruct (sleb_enc_canonical _ _ _ H) as [k [_ [Hf [Hc _]]]]. eauto.
  - intros [k [Hf Hc]]. unfold sleb_enc.
    pose proof (sleb_groups_short (S (N.size_nat (Z.abs_N z))) z (S k) ltac:(lia) Hf).
    destruct (N.leb_spec (N.of_nat (length (sleb_groups (S (N.size_nat (Z.abs_N z))) z))) c); [eauto|lia].
Qed.

(** sign padding: groups 0x80.. 0x00 for a non-negative value, 0xff.. 0x7f for a negative one *)
Definition sign_cont (z : Z) : N := if (z <? 0)%Z then 255 else 128.
Definition sign_last (z : Z) : N := if (z <? 0)%Z then 127 else 0.

Lemma sleb_fixed_sign : forall j z, (z = 0 \/ z = -1)%Z ->
  sleb_fixed j z = repeat (sign_cont z) j ++ [sign_last z].
Proof.
  induction j; intros z Hz; cbn [sleb_fixed repeat app].
  - destruct Hz; subst; reflexivity.
  - rewrite IHj; destruct Hz; subst; auto; reflexivity.
Qed.

Theorem sleb_fixed_pad : forall k j z, sfits k z ->
  sleb_fixed (k + S j) z =
  removelast (sleb_fixed k z) ++ [last (sleb_fixed k z) 0 + 128] ++ repeat (sign_cont z) j ++ [sign_last z].
Proof.
  induction k as [|k IH]; intros j z Hf.
  - unfold sfits in Hf. rewrite spow_1 in Hf. cbn [Nat.add sleb_fixed removelast last app].
    pose proof (Z.mod_pos_bound z 128 ltac:(lia)); pose proof (Z.div_mod z 128 ltac:(lia)).
    assert (Hq : (z / 128 = 0 /\ 0 <= z \/ z / 128 = -1 /\ z < 0)%Z) by lia.
    rewrite sleb_fixed_sign by lia. unfold sign_cont, sign_last.
    destruct Hq as [[-> Hs]|[-> Hs]]; destruct (Z.ltb_spec z 0); try lia; reflexivity.
  - cbn [Nat.add sleb_fixed]. rewrite IH by (apply sfits_div; auto).
    remember (sleb_fixed k (z / 128)%Z) as l. destruct l as [|x l'].
    { pose proof (sleb_fixed_length k (z / 128)%Z) as Hl. rewrite <- Heql in Hl. discriminate. }
    assert (Hs : forall w, (w / 128 <? 0)%Z = (w <? 0)%Z).
    { intros w. pose proof (Z.mod_pos_bound w 128 ltac:(lia)); pose proof (Z.div_mod w 128 ltac:(lia)).
      destruct (Z.ltb_spec (w / 128) 0); destruct (Z.ltb_spec w 0); try reflexivity; lia. }
    unfold sign_cont, sign_last. rewrite Hs. reflexivity.
Qed.

Lemma sleb_groups_single : forall f m, (- 2 ^ Z.of_nat (S f) <= m < 2 ^ Z.of_nat (S f))%Z ->
  (is_single 0 (sleb_groups (S f) m) = true -> m = 0%Z) /\
  (is_single 127 (sleb_groups (S f) m) = true -> m = (-1)%Z).
Proof.
  intros f m Hm. rewrite sleb_groups_unfold.
  pose proof (Z.mod_pos_bound m 128 ltac:(lia)); pose proof (Z.div_mod m 128 ltac:(lia)).
  destruct (sleb_last _ _) eqn:E.
  - apply sleb_last_fits in E. cbn [is_single]. split; intros Hs; apply N.eqb_eq in Hs; lia.
  - destruct f as [|f'].
    + cbn [sleb_groups is_single]. split; intros Hs; apply N.eqb_eq in Hs; lia.
    + destruct (sleb_groups_nonempty f' (m / 128)%Z) as [b [r Hg]]. rewrite Hg. cbn [is_single].
      split; discriminate.
Qed.

Theorem sleb_strip_fixed : forall k z fuel, sfits k z ->
  (- 2 ^ Z.of_nat fuel <= z < 2 ^ Z.of_nat fuel)%Z -> (fuel > 0)%nat ->
  sleb_strip (sleb_fixed k z) = sleb_groups fuel z.
Proof.
  induction k as [|k IH]; intros z fuel Hf Hz Hfu; (destruct fuel as [|f]; [lia|]).
  - unfold sfits in Hf. rewrite spow_1 in Hf. cbn [sleb_fixed sleb_strip]. rewrite sleb_groups_unfold.
    apply sleb_last_fits in Hf. rewrite Hf.
    pose proof (Z.mod_pos_bound z 128 ltac:(lia)). rewrite N.mod_small by lia. reflexivity.
  - cbn [sleb_fixed]. pose proof (sleb_fixed_length k (z / 128)%Z) as Hl.
    remember (sleb_fixed k (z / 128)%Z) as l. destruct l as [|x l']; [discriminate|].
    rewrite sleb_strip_cons2. rewrite Heql.
    pose proof (Z.mod_pos_bound z 128 ltac:(lia)) as Hm. pose proof (Z.div_mod z 128 ltac:(lia)) as Hdm.
    remember (Z.to_N (z mod 128)%Z) as b eqn:Eb.
    assert (Hb128 : b < 128) by lia.
    rewrite mod128_add by lia. rewrite sleb_groups_unfold. rewrite <- Eb.
    destruct (sleb_last (z / 128)%Z b) eqn:E.
    + (* the value fits one byte: the tail is pure sign padding *)
      assert (Hq : (z / 128 = 0 \/ z / 128 = -1)%Z).
      { unfold sleb_last in E. destruct (Z.eqb_spec (z / 128) 0); [auto|].
        destruct (Z.eqb_spec (z / 128) (-1)); [auto|]. cbn [andb orb] in E. discriminate. }
      rewrite (IH (z / 128)%Z 1%nat); try lia; [|apply sfits_div; auto].
      unfold sleb_last in E. clear Hdm Hm Heql Hf Hz.
      destruct Hq as [Hq|Hq]; rewrite Hq in *;
        [change (sleb_groups 1 0) with [0]|change (sleb_groups 1 (-1)) with [127]];
        destruct (b <? 64); destruct (64 <=? b); vm_compute in E |- *; try reflexivity; discriminate.
    + destruct f as [|f'].
      { exfalso. apply sfuel_1 in Hz. apply sleb_last_fits in Hz. subst b. congruence. }
      pose proof (sfuel_div _ _ Hz) as Hq.
      rewrite (IH (z / 128)%Z (S f')); auto; try lia; [|apply sfits_div; auto].
      destruct (sleb_groups_single f' (z / 128)%Z Hq) as [S0 S1].
      unfold sleb_last in E.
      destruct (is_single 0 (sleb_groups (S f') (z / 128)%Z)) eqn:E0;
      destruct (is_single 127 (sleb_groups (S f') (z / 128)%Z)) eqn:E1.
      * pose proof (S0 eq_refl). pose proof (S1 eq_refl). lia.
      * rewrite (S0 eq_refl) in E.
        destruct (b <? 64); destruct (64 <=? b); vm_compute in E; try discriminate; cbn [andb orb]; reflexivity.
      * rewrite (S1 eq_refl) in E.
        destruct (b <? 64); destruct (64 <=? b); vm_compute in E; try discriminate; cbn [andb orb]; reflexivity.
      * cbn [andb orb]. reflexivity.
Qed.

(* ------------------------------------------------------------------ the normal form theorem for the two schema types *)
Arguments uleb_enc : simpl never.
Arguments sleb_enc : simpl never.
Arguments uleb_dec : simpl never.
Arguments sleb_dec : simpl never.
Arguments show_N : simpl never.
Arguments show_Z : simpl never.
Arguments parse_biguint : simpl never.
Arguments parse_bigint : simpl never.

(** bytes -> JSON -> bytes for [ULeb128(c)]: accepted iff a fixed form within [c] bytes; the text is the decimal
    value; converting back writes [uleb_strip] of the bytes that were read, which is the shortest form *)
Theorem uleb_normal_form : forall L c bs j rest, bytes_ok bs = true ->
  (to_json L (TULeb128 c) bs = Some (j, rest) <->
   exists k n, N.of_nat (S k) <= c /\ ufits k n /\ bs = uleb_fixed k n ++ rest /\ j = JStr (show_N n)).
Proof.
  intros L c bs j rest Hb. cbn [to_json]. split.
  - destruct (uleb_dec bs c 0 0) as [[n r]|] eqn:E; [|discriminate].
    intros H. injection H as <- <-. apply uleb_dec_iff in E; auto. destruct E as [k [Hc [Hf ->]]].
    exists k, n. auto.
  - intros [k [n [Hc [Hf [-> ->]]]]].
    assert (E : uleb_dec (uleb_fixed k n ++ rest) c 0 0 = Some (n, rest)).
    { apply uleb_dec_iff; eauto. }
    rewrite E. reflexivity.
Qed.

Theorem sleb_normal_form : forall L c bs j rest, bytes_ok bs = true ->
  (to_json L (TILeb128 c) bs = Some (j, rest) <->
   exists k z, N.of_nat (S k) <= c /\ sfits k z /\ bs = sleb_fixed k z ++ rest /\ j = JStr (show_Z z)).
Proof.
  intros L c bs j rest Hb. cbn [to_json]. split.
  - destruct (sleb_dec bs c 0 0) as [[n r]|] eqn:E; [|discriminate].
    intros H. injection H as <- <-. apply sleb_dec_iff in E; auto. destruct E as [k [Hc [Hf ->]]].
    exists k, n. auto.
  - intros [k [n [Hc [Hf [-> ->]]]]].
    assert (E : sleb_dec (sleb_fixed k n ++ rest) c 0 0 = Some (n, rest)).
    { apply sleb_dec_iff; eauto. }
    rewrite E. reflexivity.
Qed.

(** bytes -> JSON -> bytes: every accepted form prints the decimal value, and converting that back writes
    [uleb_strip] of the bytes read = the unique shortest form (no form of the value is shorter; a form of the
    same length is the same bytes); [uleb_strip] is idempotent on accepted forms *)
Theorem uleb_from_to_json : forall L c k n rest, N.of_nat (S k) <= c -> ufits k n ->
  let canon := uleb_strip (uleb_fixed k n) in
  to_json L (TULeb128 c) (uleb_fixed k n ++ rest) = Some (JStr (show_N n), rest) /\
  from_json L (TULeb128 c) (JStr (show_N n)) = Some canon /\
  to_json L (TULeb128 c) (canon ++ rest) = Some (JStr (show_N n), rest) /\
  (forall k', ufits k' n -> (length canon <= S k')%nat) /\
  (length canon = S k -> canon = uleb_fixed k n) /\
  uleb_strip canon = canon.
Proof.
  intros L c k n rest Hc Hf canon.
  assert (Hs : canon = uleb_groups (S (N.size_nat n)) n).
  { apply uleb_strip_fixed; auto; [apply fuel_ok_N|lia]. }
  assert (He : uleb_enc c n = Some canon).
  { rewrite Hs. unfold uleb_enc. pose proof (uleb_groups_short (S (N.size_nat n)) n (S k) ltac:(lia) Hf).
    destruct (N.leb_spec (N.of_nat (length (uleb_groups (S (N.size_nat n)) n))) c); [reflexivity|lia]. }
  destruct (uleb_enc_canonical _ _ _ He) as [k0 [Hg [Hf0 [Hc0 Hmin]]]].
  assert (T : forall k1, N.of_nat (S k1) <= c -> ufits k1 n ->
              to_json L (TULeb128 c) (uleb_fixed k1 n ++ rest) = Some (JStr (show_N n), rest)).
  { intros k1 H1 H2. cbn [to_json]. rewrite uleb_fixed_dec by auto. change (2 ^ 0) with 1.
    replace (0 + n * 1) with n by lia. reflexivity. }
  split; [apply T; auto|]. split.
  { cbn [from_json]. rewrite parse_biguint_show. exact He. }
  split; [rewrite Hg; apply T; auto|]. split.
  { intros k' Hk'. rewrite Hg, uleb_fixed_length. apply le_n_S. apply Hmin; auto. }
  split.
  { intros Hl. rewrite Hg in Hl |- *. rewrite uleb_fixed_length in Hl. injection Hl as ->. reflexivity. }
  rewrite Hg at 1. rewrite Hs. apply uleb_strip_fixed; auto; [apply fuel_ok_N|lia].
Qed.

Theorem sleb_from_to_json : forall L c k z rest, N.of_nat (S k) <= c -> sfits k z ->
  let canon := sleb_strip (sleb_fixed k z) in
  to_json L (TILeb128 c) (sleb_fixed k z ++ rest) = Some (JStr (show_Z z), rest) /\
  from_json L (TILeb128 c) (JStr (show_Z z)) = Some canon /\
  to_json L (TILeb128 c) (canon ++ rest) = Some (JStr (show_Z z), rest) /\
  (forall k', sfits k' z -> (length canon <= S k')%nat) /\
  (length canon = S k -> canon = sleb_fixed k z) /\
  sleb_strip canon = canon.
Proof.
  intros L c k z rest Hc Hf canon.
  pose proof (fuel_ok_Z z) as Hz. cbv zeta in Hz.
  assert (Hs : canon = sleb_groups (S (N.size_nat (Z.abs_N z))) z).
  { apply sleb_strip_fixed; auto; lia. }
  assert (He : sleb_enc c z = Some canon).
  { rewrite Hs. unfold sleb_enc. pose proof (sleb_groups_short (S (N.size_nat (Z.abs_N z))) z (S k) ltac:(lia) Hf).
    destruct (N.leb_spec (N.of_nat (length (sleb_groups (S (N.size_nat (Z.abs_N z))) z))) c); [reflexivity|lia]. }
  destruct (sleb_enc_canonical _ _ _ He) as [k0 [Hg [Hf0 [Hc0 Hmin]]]].
  assert (T : forall k1, N.of_nat (S k1) <= c -> sfits k1 z ->
              to_json L (TILeb128 c) (sleb_fixed k1 z ++ rest) = Some (JStr (show_Z z), rest)).
  { intros k1 H1 H2. cbn [to_json]. rewrite sleb_fixed_dec by auto. change (2 ^ Z.of_N 0)%Z with 1%Z.
    replace (0 + z * 1)%Z with z by lia. reflexivity. }
  split; [apply T; auto|]. split.
  { cbn [from_json]. rewrite parse_bigint_show. exact He. }
  split; [rewrite Hg; apply T; auto|]. split.
  { intros k' Hk'. rewrite Hg, sleb_fixed_length. apply le_n_S. apply Hmin; auto. }
  split.
  { intros Hl. rewrite Hg in Hl |- *. rewrite sleb_fixed_length in Hl. injection Hl as ->. reflexivity. }
  rewrite Hg at 1. rewrite Hs. apply sleb_strip_fixed; auto; lia.
Qed.

(** the two directions together, on arbitrary input bytes: the form in which the task states it *)
Theorem uleb_to_from_json : forall L c bs j rest, bytes_ok bs = true ->
  to_json L (TULeb128 c) bs = Some (j, rest) ->
  exists pre, bs = pre ++ rest /\ from_json L (TULeb128 c) j = Some (uleb_strip pre) /\
              to_json L (TULeb128 c) (uleb_strip pre ++ rest) = Some (j, rest) /\
              (length (uleb_strip pre) <= length pre)%nat /\
              (length (uleb_strip pre) = length pre -> uleb_strip pre = pre).
Proof.
  intros L c bs j rest Hb H. apply uleb_normal_form in H; auto.
  destruct H as [k [n [Hc [Hf [-> ->]]]]].
  destruct (uleb_from_to_json L c k n rest Hc Hf) as [_ [H2 [H3 [H4 [H5 _]]]]].
  exists (uleb_fixed k n). rewrite uleb_fixed_length. repeat split; auto.
Qed.

Theorem sleb_to_from_json : forall L c bs j rest, bytes_ok bs = true ->
  to_json L (TILeb128 c) bs = Some (j, rest) ->
  exists pre, bs = pre ++ rest /\ from_json L (TILeb128 c) j = Some (sleb_strip pre) /\
              to_json L (TILeb128 c) (sleb_strip pre ++ rest) = Some (j, rest) /\
              (length (sleb_strip pre) <= length pre)%nat /\
              (length (sleb_strip pre) = length pre -> sleb_strip pre = pre).
Proof.
  intros L c bs j rest Hb H. apply sleb_normal_form in H; auto.
  destruct H as [k [n [Hc [Hf [-> ->]]]]].
  destruct (sleb_from_to_json L c k n rest Hc Hf) as [_ [H2 [H3 [H4 [H5 _]]]]].
  exists (sleb_fixed k n). rewrite sleb_fixed_length. repeat split; auto.
Qed.

(* ------------------------------------------------------------------ executable probe for the correspondence run *)
Fixpoint leb_list_eqb (a b : list N) : bool :=
  match a, b with
  | [], [] => true
  | x :: a', y :: b' => (x =? y) && leb_list_eqb a' b'
  | _, _ => false
  end.

(** decoded value (sign, magnitude), bytes left, [strip] of the bytes read, "the bytes read are the fixed form of
    the value", "the value fits that many bytes", and what the encoder writes for the value *)
Definition leb_probe (signed : bool) (c : N) (bs : list N)
  : option (bool * N * N * list N * bool * bool * option (list N)) :=
  if signed then
    match sleb_dec bs c 0 0 with
    | Some (z, rest) =>
        let pre := firstn (length bs - length rest) bs in
        let k := pred (length pre) in
        Some ((z <? 0)%Z, Z.abs_N z, N.of_nat (length rest), sleb_strip pre, leb_list_eqb pre (sleb_fixed k z),
              ((- 2 ^ (7 * Z.of_nat (S k) - 1) <=? z) && (z <? 2 ^ (7 * Z.of_nat (S k) - 1)))%Z, sleb_enc c z)
    | None => None
    end
  else
    match uleb_dec bs c 0 0 with
    | Some (n, rest) =>
        let pre := firstn (length bs - length rest) bs in
        let k := pred (length pre) in
        Some (false, n, N.of_nat (length rest), uleb_strip pre, leb_list_eqb pre (uleb_fixed k n),
              n <? 2 ^ (7 * N.of_nat (S k)), uleb_enc c n)
    | None => None
    end.
