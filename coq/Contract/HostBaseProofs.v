(** C14 - facts about the list/memory primitives of HostBase.v (bridges to the standard library)
    and the tactic that symbolically executes a host function. *)
From Coq Require Import NArith List Bool Lia.
From CB Require Import Contract.HostBase.
Import ListNotations.
Local Open Scope N_scope.

Lemma lenN_acc_spec : forall A (l : list A) acc, lenN_acc l acc = acc + N.of_nat (length l).
Proof.
  induction l as [|x t IH]; intros acc; cbn [lenN_acc length].
  - lia.
  - rewrite IH. lia.
Qed.
Lemma lenN_spec : forall A (l : list A), lenN l = N.of_nat (length l).
Proof. intros. unfold lenN. rewrite lenN_acc_spec. lia. Qed.

Lemma lenN_nil : forall A, lenN (@nil A) = 0.
Proof. reflexivity. Qed.
Lemma lenN_cons : forall A (x : A) l, lenN (x :: l) = N.succ (lenN l).
Proof. intros. rewrite !lenN_spec. cbn [length]. lia. Qed.
Lemma lenN_app : forall A (a b : list A), lenN (a ++ b) = lenN a + lenN b.
Proof. intros. rewrite !lenN_spec, app_length. lia. Qed.

Lemma pred_to_nat : forall n, n <> 0 -> N.to_nat n = S (N.to_nat (N.pred n)).
Proof. intros. lia. Qed.

Lemma rev_firstnN_spec : forall A n (l acc : list A),
  rev_firstnN n l acc = rev (firstn (N.to_nat n) l) ++ acc.
Proof.
  intros A n l. revert n. induction l as [|x t IH]; intros n acc; cbn [rev_firstnN].
  - rewrite firstn_nil. reflexivity.
  - destruct (N.eqb_spec n 0) as [->|Hn].
    + reflexivity.
    + rewrite IH, (pred_to_nat n Hn). cbn [firstn rev]. rewrite <- app_assoc. reflexivity.
Qed.
Lemma firstnN_spec : forall A n (l : list A), firstnN n l = firstn (N.to_nat n) l.
Proof.
  intros. unfold firstnN. rewrite rev_firstnN_spec, app_nil_r, rev_append_rev, app_nil_r, rev_involutive.
  reflexivity.
Qed.
Lemma skipnN_spec : forall A n (l : list A), skipnN n l = skipn (N.to_nat n) l.
Proof.
  intros A n l. revert n. induction l as [|x t IH]; intros n; cbn [skipnN].
  - rewrite skipn_nil. reflexivity.
  - destruct (N.eqb_spec n 0) as [->|Hn].
    + reflexivity.
    + rewrite IH, (pred_to_nat n Hn). reflexivity.
Qed.
Lemma has_len_spec : forall A n (l : list A), has_len n l = (n <=? lenN l).
Proof.
  intros A n l. revert n. induction l as [|x t IH]; intros n; cbn [has_len].
  - rewrite lenN_nil. destruct (N.eqb_spec n 0); destruct (N.leb_spec n 0); lia.
  - rewrite lenN_cons. destruct (N.eqb_spec n 0) as [->|Hn].
    + symmetry. apply N.leb_le. lia.
    + rewrite IH. destruct (N.leb_spec (N.pred n) (lenN t)); destruct (N.leb_spec n (N.succ (lenN t))); lia.
Qed.

Lemma lenN_firstnN : forall A n (l : list A), lenN (firstnN n l) = N.min n (lenN l).
Proof. intros. rewrite firstnN_spec, !lenN_spec, firstn_length. lia. Qed.
Lemma lenN_skipnN : forall A n (l : list A), lenN (skipnN n l) = lenN l - n.
Proof. intros. rewrite skipnN_spec, !lenN_spec, skipn_length. lia. Qed.
Lemma lenN_zerosN : forall n, lenN (zerosN n) = n.
Proof.
  intros n. unfold zerosN. induction n using N.peano_ind.
  - reflexivity.
  - rewrite N.iter_succ, lenN_cons, IHn. reflexivity.
Qed.
Lemma lenN_rev_append : forall A (a b : list A), lenN (rev_append a b) = lenN a + lenN b.
Proof. intros. rewrite rev_append_rev, lenN_app, !lenN_spec, rev_length. reflexivity. Qed.
Lemma lenN_rev_firstnN : forall A n (l : list A), lenN (rev_firstnN n l []) = N.min n (lenN l).
Proof. intros. rewrite rev_firstnN_spec, app_nil_r, !lenN_spec, rev_length, firstn_length. lia. Qed.

(** *** slices and stores of host-side vectors *)
Lemma sliceN_some : forall A (l : list A) a b r, sliceN l a b = Some r -> a <= b /\ b <= lenN l /\ lenN r = b - a.
Proof.
  intros A l a b r. unfold sliceN. rewrite has_len_spec.
  destruct (N.leb_spec a b); destruct (N.leb_spec b (lenN l)); cbn [andb]; try discriminate.
  intros [= <-]. rewrite lenN_firstnN, lenN_skipnN. lia.
Qed.
Lemma sliceN_none : forall A (l : list A) a b, sliceN l a b = None -> ~ (a <= b /\ b <= lenN l).
Proof.
  intros A l a b. unfold sliceN. rewrite has_len_spec.
  destruct (N.leb_spec a b); destruct (N.leb_spec b (lenN l)); cbn [andb]; try discriminate; lia.
Qed.
Lemma storeN_some : forall A (l : list A) a bs l', storeN l a bs = Some l' -> a + lenN bs <= lenN l /\ lenN l' = lenN l.
Proof.
  intros A l a bs l'. unfold storeN. rewrite has_len_spec.
  destruct (N.leb_spec (a + lenN bs) (lenN l)); try discriminate.
  intros [= <-]. rewrite lenN_rev_append, lenN_rev_firstnN, lenN_app, lenN_skipnN. lia.
Qed.
Lemma storeN_none : forall A (l : list A) a bs, storeN l a bs = None -> ~ (a + lenN bs <= lenN l).
Proof.
  intros A l a bs. unfold storeN. rewrite has_len_spec.
  destruct (N.leb_spec (a + lenN bs) (lenN l)); try discriminate. lia.
Qed.
Lemma lenN_resizeN : forall l n, lenN (resizeN l n) = n.
Proof.
  intros. unfold resizeN. destruct (N.leb_spec n (lenN l)).
  - rewrite lenN_firstnN. lia.
  - rewrite lenN_app, lenN_zerosN. lia.
Qed.

(** *** memory *)
Lemma mem_slice_some : forall m a b r, mem_slice m a b = Some r -> a <= b /\ b <= m_len m /\ lenN r = b - a.
Proof.
  intros m a b r. unfold mem_slice.
  destruct (N.leb_spec a b); destruct (N.leb_spec b (m_len m)); cbn [andb]; try discriminate.
  intros [= <-]. rewrite lenN_app, lenN_zerosN, lenN_firstnN, lenN_skipnN. lia.
Qed.
Lemma mem_slice_none : forall m a b, mem_slice m a b = None -> ~ (a <= b /\ b <= m_len m).
Proof.
  intros m a b. unfold mem_slice.
  destruct (N.leb_spec a b); destruct (N.leb_spec b (m_len m)); cbn [andb]; try discriminate; lia.
Qed.
Lemma mem_store_some : forall m a bs m', mem_store m a bs = Some m' -> a + lenN bs <= m_len m /\ m_len m' = m_len m.
Proof.
  intros m a bs m'. unfold mem_store. destruct (N.leb_spec (a + lenN bs) (m_len m)); try discriminate.
  intros [= <-]. cbn [m_len]. lia.
Qed.
Lemma mem_store_none : forall m a bs, mem_store m a bs = None -> ~ (a + lenN bs <= m_len m).
Proof.
  intros m a bs. unfold mem_store. destruct (N.leb_spec (a + lenN bs) (m_len m)); try discriminate. lia.
Qed.

Lemma u32_le : forall x, u32 x <= x.
Proof. intros. unfold u32. apply N.mod_le. discriminate. Qed.
Lemma u32_small : forall x, x < W32 -> u32 x = x.
Proof. intros. unfold u32. apply N.mod_small. assumption. Qed.
Lemma u32_lt : forall x, u32 x < W32.
Proof. intros. unfold u32. apply N.mod_lt. discriminate. Qed.

Lemma u16_lt : forall x, u16 x < 65536.
Proof. intros. unfold u16. apply N.mod_lt. discriminate. Qed.

(** *** symbolic execution of monadic host functions
    [mstep] unfolds the monad combinators, splits every guard and every checked primitive, and
    records what each outcome of a primitive implies as hypotheses usable by [lia]. *)
Ltac mprims :=
  cbv beta iota zeta delta [bind ret trap fault ensure emit tick get_hs set_hs mem_len get_energy mslice mstore
                            vslice uadd lift_trap write_to_mem ensure_fits mborrow_from
                            energy mem evs hs fst snd].

Ltac bool_hyps :=
  repeat match goal with
  | H : (_ <=? _) = true |- _ => apply N.leb_le in H
  | H : (_ <=? _) = false |- _ => apply N.leb_gt in H
  | H : (_ <? _) = true |- _ => apply N.ltb_lt in H
  | H : (_ <? _) = false |- _ => apply N.ltb_ge in H
  | H : (_ =? _) = true |- _ => apply N.eqb_eq in H
  | H : (_ =? _) = false |- _ => apply N.eqb_neq in H
  | H : (_ && _) = true |- _ => apply andb_true_iff in H; destruct H
  | H : (_ || _) = false |- _ => apply orb_false_iff in H; destruct H
  | H : negb _ = true |- _ => apply negb_true_iff in H
  | H : negb _ = false |- _ => apply negb_false_iff in H
  end.

Ltac prim_facts :=
  repeat match goal with
  | H : sliceN _ _ _ = Some _ |- _ => apply sliceN_some in H; destruct H as (? & ? & ?)
  | H : sliceN _ _ _ = None |- _ => apply sliceN_none in H
  | H : storeN _ _ _ = Some _ |- _ => apply storeN_some in H; destruct H as (? & ?)
  | H : storeN _ _ _ = None |- _ => apply storeN_none in H
  | H : mem_slice _ _ _ = Some _ |- _ => apply mem_slice_some in H; destruct H as (? & ? & ?)
  | H : mem_slice _ _ _ = None |- _ => apply mem_slice_none in H
  | H : mem_store _ _ _ = Some _ |- _ => apply mem_store_some in H; destruct H as (? & ?)
  | H : mem_store _ _ _ = None |- _ => apply mem_store_none in H
  end.

Ltac msplit :=
  match goal with
  | |- context [match mem_slice ?m ?a ?b with _ => _ end] => destruct (mem_slice m a b) eqn:?
  | |- context [match mem_store ?m ?a ?b with _ => _ end] => destruct (mem_store m a b) eqn:?
  | |- context [match sliceN ?m ?a ?b with _ => _ end] => destruct (sliceN m a b) eqn:?
  | |- context [match storeN ?m ?a ?b with _ => _ end] => destruct (storeN m a b) eqn:?
  | |- context [if ?c then _ else _] => destruct c eqn:?
  end.

Ltac mstep := mprims; repeat (msplit; mprims).

(** generic splitting of the remaining [option]/list/pair matches (scrutinee is neutral after [cbv iota]) *)
Ltac not_match t :=
  lazymatch t with
  | context [match _ with _ => _ end] => fail
  | _ => idtac
  end.
Ltac msplit_more :=
  match goal with
  | |- context [let (_, _) := ?p in _] => is_var p; destruct p eqn:?
  | |- context [match ?o with Some _ => _ | None => _ end] => not_match o; destruct o eqn:?
  | |- context [match ?l with [] => _ | _ :: _ => _ end] => not_match l; destruct l eqn:?
  end.
Ltac mstep_with unf := unf; repeat (first [msplit | msplit_more]; unf).

Lemma nthN_Forall : forall A (P : A -> Prop) l i x, Forall P l -> nthN i l = Some x -> P x.
Proof.
  intros A P l. induction l as [|y t IH]; intros i x HF; cbn [nthN]; [discriminate|].
  inversion HF; subst. destruct (i =? 0).
  - intros [= <-]. assumption.
  - apply IH. assumption.
Qed.
Lemma setnthN_Forall : forall A (P : A -> Prop) l i x, Forall P l -> P x -> Forall P (setnthN i x l).
Proof.
  intros A P l. induction l as [|y t IH]; intros i x HF Hx; cbn [setnthN]; [constructor|].
  inversion HF; subst. destruct (i =? 0); constructor; auto.
Qed.

(** usize additions of two u32 values (what the Rust comments call "cannot overflow on 64-bit
    machines") never overflow: the checked operator returns the exact sum *)
Lemma uadd_u32 : forall X a b (s : st X), a < W32 -> b < W32 -> uadd a b s = (s, Ok (a + b)).
Proof.
  intros X a b s Ha Hb. unfold uadd. destruct (N.ltb_spec (a + b) W64); [reflexivity|].
  unfold W32, W64 in *. lia.
Qed.
