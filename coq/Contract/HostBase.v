(** C14 - common machinery of the host-function models (definitions only, executable).

    A host function is a computation [M X A] over
      - the remaining interpreter energy,
      - the contract's linear memory ([list N], bytes),
      - an event list recording the ORDER of energy charges and of copies / allocations,
      - a host state [X] (logs, state, parameters, ...).
    It ends as [Ok a], [Trap] (an `ensure!`/`bail!`/`?` of the Rust code), [OutOfEnergy]
    (a failed `tick_energy`) or [Fault].  [Fault] is what the *checked* primitives return when
    the Rust code would index a slice out of bounds or overflow an addition: it stands for a
    panic / undefined behaviour.  The theorems of Props/C14.v show that no host function ever
    returns [Fault] (for states satisfying the stated invariants). *)
From Coq Require Import NArith List Bool.
Import ListNotations.
Local Open Scope N_scope.

Definition W8 : N := 256.
Definition W16 : N := 65536.
Definition W32 : N := 4294967296.
Definition W64 : N := 18446744073709551616.
Definition u32 (x : N) : N := x mod W32.          (* `x as u32` *)
Definition u16 (x : N) : N := x mod W16.          (* a value read as u16 *)
Definition U32MAX : N := 4294967295.
Definition U64MAX : N := 18446744073709551615.

(** ** Lists indexed by [N]
    The functions that walk the 64 KiB memory are tail-recursive (the model is run with vm_compute);
    HostBaseProofs.v relates them to [length]/[firstn]/[skipn]/[++]. *)
Fixpoint lenN_acc {A} (l : list A) (acc : N) : N :=
  match l with [] => acc | _ :: t => lenN_acc t (N.succ acc) end.
Definition lenN {A} (l : list A) : N := lenN_acc l 0.
Fixpoint rev_firstnN {A} (n : N) (l acc : list A) : list A :=
  match l with [] => acc | x :: t => if n =? 0 then acc else rev_firstnN (N.pred n) t (x :: acc) end.
Definition firstnN {A} (n : N) (l : list A) : list A := rev_append (rev_firstnN n l []) [].
Fixpoint skipnN {A} (n : N) (l : list A) : list A :=
  match l with [] => [] | _ :: t => if n =? 0 then l else skipnN (N.pred n) t end.
Definition zerosN (n : N) : list N := N.iter n (cons 0) [].
Fixpoint nthN {A} (n : N) (l : list A) : option A :=
  match l with [] => None | x :: t => if n =? 0 then Some x else nthN (N.pred n) t end.
Fixpoint setnthN {A} (n : N) (v : A) (l : list A) : list A :=
  match l with [] => [] | x :: t => if n =? 0 then v :: t else x :: setnthN (N.pred n) v t end.

(** [has_len n l = (n <=? lenN l)] (lemma [has_len_spec]) without walking the whole list *)
Fixpoint has_len {A} (n : N) (l : list A) : bool :=
  match l with [] => n =? 0 | _ :: t => if n =? 0 then true else has_len (N.pred n) t end.

(** `v[a..b]` on a host-side vector or on memory: [None] unless [a <= b <= len]. *)
Definition sliceN {A} (l : list A) (a b : N) : option (list A) :=
  if (a <=? b) && has_len b l then Some (firstnN (b - a) (skipnN a l)) else None.
(** overwrite [l] at [a ..] with [bs]: [None] unless it fits
    ([= firstn a l ++ bs ++ skipn (a + |bs|) l], lemma [storeN_spec]) *)
Definition storeN {A} (l : list A) (a : N) (bs : list A) : option (list A) :=
  if has_len (a + lenN bs) l
  then Some (rev_append (rev_firstnN a l []) (bs ++ skipnN (a + lenN bs) l))
  else None.
(** `Vec::resize(n, 0)` *)
Definition resizeN (l : list N) (n : N) : list N :=
  if n <=? lenN l then firstnN n l else l ++ zerosN (n - lenN l).

(** ** Linear memory: its length and an explicit prefix; bytes beyond the prefix are zero.
    (A dense 64 KiB list would make every access walk the whole memory.) *)
Record memory : Type := mkMem { m_len : N; m_pre : list N }.
(** checked `memory[a..b]` *)
Definition mem_slice (m : memory) (a b : N) : option (list N) :=
  if (a <=? b) && (b <=? m_len m)
  then Some (let l := firstnN (b - a) (skipnN a (m_pre m)) in l ++ zerosN ((b - a) - lenN l))
  else None.
(** checked write of [bs] at [a] *)
Definition mem_store (m : memory) (a : N) (bs : list N) : option memory :=
  if a + lenN bs <=? m_len m
  then Some (mkMem (m_len m)
               (let p := m_pre m in
                rev_append (rev_firstnN a p []) (zerosN (a - lenN p) ++ bs ++ skipnN (a + lenN bs) p)))
  else None.

(** little-endian encodings *)
Fixpoint le_bytes (k : nat) (x : N) : list N :=
  match k with O => [] | S k' => (x mod 256) :: le_bytes k' (x / 256) end.
Fixpoint le_val (bs : list N) : N :=
  match bs with [] => 0 | b :: t => b + 256 * le_val t end.

(** ** Events and the monad *)
Inductive event : Type :=
| EvTick (c : N)      (* successful energy charge *)
| EvCopy (n : N)      (* copy of [n] bytes whose size depends on a length argument (to_vec, write, digest) *)
| EvAlloc (n : N)     (* growth of a host-side buffer by [n] bytes *)
| EvFixed (n : N).    (* copy of bounded size not governed by a length argument (addresses, names <= 64 KiB) *)

Inductive rsl (A : Type) : Type :=
| Ok (a : A) | Trap | OutOfEnergy | Fault.
Arguments Ok {A} a.
Arguments Trap {A}.
Arguments OutOfEnergy {A}.
Arguments Fault {A}.

Record st (X : Type) : Type := mkSt {
  energy : N;
  mem : memory;
  evs : list event;      (* most recent first *)
  hs : X }.
Arguments mkSt {X}.
Arguments energy {X}.
Arguments mem {X}.
Arguments evs {X}.
Arguments hs {X}.

Definition M (X A : Type) : Type := st X -> st X * rsl A.

Definition ret {X A} (a : A) : M X A := fun s => (s, Ok a).
Definition bind {X A B} (m : M X A) (f : A -> M X B) : M X B :=
  fun s => match m s with
           | (s', Ok a) => f a s'
           | (s', Trap) => (s', Trap)
           | (s', OutOfEnergy) => (s', OutOfEnergy)
           | (s', Fault) => (s', Fault)
           end.
Notation "x <- m ;; f" := (bind m (fun x => f)) (at level 61, m at next level, right associativity).
Notation "m ;;; f" := (bind m (fun _ => f)) (at level 61, right associativity).

Definition trap {X A} : M X A := fun s => (s, Trap).
Definition fault {X A} : M X A := fun s => (s, Fault).
Definition ensure {X} (b : bool) : M X unit := fun s => (s, if b then Ok tt else Trap).
Definition emit {X} (e : event) : M X unit :=
  fun s => (mkSt (energy s) (mem s) (e :: evs s) (hs s), Ok tt).
(** `InterpreterEnergy::tick_energy` *)
Definition tick {X} (c : N) : M X unit :=
  fun s => if c <=? energy s
           then (mkSt (energy s - c) (mem s) (EvTick c :: evs s) (hs s), Ok tt)
           else (mkSt 0 (mem s) (evs s) (hs s), OutOfEnergy).
Definition get_hs {X} : M X X := fun s => (s, Ok (hs s)).
Definition set_hs {X} (h : X) : M X unit := fun s => (mkSt (energy s) (mem s) (evs s) h, Ok tt).
Definition mem_len {X} : M X N := fun s => (s, Ok (m_len (mem s))).
(** `ensure!(n <= memory.len())` *)
Definition ensure_fits {X} (n : N) : M X unit :=
  fun s => (s, if n <=? m_len (mem s) then Ok tt else Trap).
(** checked `memory[a..]` (only the borrow; contents are not needed) *)
Definition mborrow_from {X} (a : N) : M X unit :=
  fun s => (s, if a <=? m_len (mem s) then Ok tt else Fault).
Definition get_energy {X} : M X N := fun s => (s, Ok (energy s)).
(** checked `memory[a..b]` *)
Definition mslice {X} (a b : N) : M X (list N) :=
  fun s => match mem_slice (mem s) a b with Some bs => (s, Ok bs) | None => (s, Fault) end.
(** checked write of [bs] at [a] *)
Definition mstore {X} (a : N) (bs : list N) : M X unit :=
  fun s => match mem_store (mem s) a bs with
           | Some m' => (mkSt (energy s) m' (evs s) (hs s), Ok tt)
           | None => (s, Fault) end.
(** checked slice of a host-side vector *)
Definition vslice {X} (v : list N) (a b : N) : M X (list N) :=
  fun s => match sliceN v a b with Some bs => (s, Ok bs) | None => (s, Fault) end.
(** usize addition: overflow would be a panic (checked build) or a wrap (release): [Fault] *)
Definition uadd {X} (a b : N) : M X N :=
  fun s => if a + b <? W64 then (s, Ok (a + b)) else (s, Fault).
(** stack values are well-typed: each argument is below the bound of its Wasm type *)
Fixpoint args_wf (bounds args : list N) : Prop :=
  match bounds, args with
  | b :: bounds', a :: args' => a < b /\ args_wf bounds' args'
  | _, _ => True
  end.

(** lifting an option: [None] is a trap *)
Definition lift_trap {X A} (o : option A) : M X A :=
  fun s => match o with Some a => (s, Ok a) | None => (s, Trap) end.

(** `(&mut dst[..]).write(src)`: copies [min (len dst) (len src)] bytes to memory at [a],
    where [dst = memory[a .. a+dlen]] has already been borrowed. *)
Definition write_to_mem {X} (a dlen : N) (src : list N) : M X N :=
  let amt := N.min dlen (lenN src) in
  mstore a (firstnN amt src) ;;; emit (EvCopy amt) ;;; ret amt.

(** ** Validity of names *)
Definition name_char (b : N) : bool := (33 <=? b) && (b <=? 126).   (* ascii alphanumeric or punctuation *)
Definition valid_receive_name (bs : list N) : bool :=
  existsb (N.eqb 46) bs && (lenN bs <=? 100) && forallb name_char bs.
Definition valid_entrypoint_name (bs : list N) : bool :=
  (lenN bs <? 100) && forallb name_char bs.

(** is [p] a prefix of [k] *)
Fixpoint is_prefix (p k : list N) : bool :=
  match p, k with
  | [], _ => true
  | a :: p', b :: k' => (a =? b) && is_prefix p' k'
  | _ :: _, [] => false
  end.
Fixpoint list_eqb (a b : list N) : bool :=
  match a, b with
  | [], [] => true
  | x :: a', y :: b' => (x =? y) && list_eqb a' b'
  | _, _ => false
  end.
Fixpoint list_ltb (a b : list N) : bool :=        (* lexicographic *)
  match a, b with
  | [], [] => false
  | [], _ :: _ => true
  | _ :: _, [] => false
  | x :: a', y :: b' => (x <? y) || ((x =? y) && list_ltb a' b')
  end.

(** ** The charge-before-work discipline as a checker on event lists (chronological order) *)
Fixpoint cbw_from (sched : N) (paid : bool) (es : list event) : bool :=
  match es with
  | [] => true
  | EvTick c :: t => cbw_from sched (paid || (sched <=? c)) t
  | EvCopy _ :: t => paid && cbw_from sched paid t
  | EvAlloc _ :: t => paid && cbw_from sched paid t
  | EvFixed _ :: t => cbw_from sched paid t
  end.
(** [cbw sched evs]: in [evs] (most recent first) every copy/allocation event is preceded by a
    tick of at least [sched]. *)
Definition cbw (sched : N) (evs : list event) : bool := cbw_from sched false (rev evs).

(** every allocation of [n] bytes is preceded by some tick of at least [cost n] *)
Fixpoint alloc_paid_from (cost : N -> N) (ticks : list N) (es : list event) : bool :=
  match es with
  | [] => true
  | EvTick c :: t => alloc_paid_from cost (c :: ticks) t
  | EvAlloc n :: t => existsb (fun c => cost n <=? c) ticks && alloc_paid_from cost ticks t
  | _ :: t => alloc_paid_from cost ticks t
  end.
Definition alloc_paid (cost : N -> N) (evs : list event) : bool := alloc_paid_from cost [] (rev evs).

(** every bounded-size copy/scan event is at most [b] bytes *)
Definition fixed_le (b : N) (evs : list event) : bool :=
  forallb (fun e => match e with EvFixed n => n <=? b | _ => true end) evs.
