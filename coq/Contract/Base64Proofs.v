(** * Base64Proofs — decode (encode b) = b for all byte strings; the strict decoder accepts exactly what the
    encoder writes (so it rejects padding, a single left-over symbol and non-zero trailing bits). *)
From Coq Require Import NArith ZArith Bool List Lia.
From CB Require Import Contract.Base64.
Import ListNotations.
Local Open Scope N_scope.
Arguments N.add : simpl never.
Arguments N.sub : simpl never.
Arguments N.mul : simpl never.
Arguments N.div : simpl never.
Arguments N.modulo : simpl never.
Arguments N.eqb : simpl never.
Arguments N.ltb : simpl never.
Arguments N.leb : simpl never.
#[local] Ltac Zify.zify_post_hook ::= Z.to_euclidean_division_equations.

Lemma sweep_below : forall (n : nat) (P : N -> bool),
  forallb P (map N.of_nat (seq 0 n)) = true -> forall v, v < N.of_nat n -> P v = true.
Proof.
  intros n P H v Hv. rewrite forallb_forall in H. apply H. apply in_map_iff.
  exists (N.to_nat v). split; [lia|]. apply in_seq. lia.
Qed.

Lemma b64_val_char : forall v, v < 64 -> b64_val (b64_char v) = Some v.
Proof.
  intros v Hv.
  pose proof (sweep_below 64 (fun v => match b64_val (b64_char v) with Some w => w =? v | None => false end)
                ltac:(vm_compute; reflexivity) v Hv) as H.
  cbv beta in H. destruct (b64_val (b64_char v)); [|discriminate]. apply N.eqb_eq in H. subst. reflexivity.
Qed.

Lemma b64_val_small : forall c v, b64_val c = Some v -> c < 123.
Proof.
  intros c v. unfold b64_val.
  destruct (N.leb_spec 65 c); destruct (N.leb_spec c 90); destruct (N.leb_spec 97 c); destruct (N.leb_spec c 122);
    destruct (N.leb_spec 48 c); destruct (N.leb_spec c 57); destruct (N.eqb_spec c 43); destruct (N.eqb_spec c 47);
    cbn [andb]; intros Hv; try discriminate; lia.
Qed.

Lemma b64_char_val : forall c v, b64_val c = Some v -> v < 64 /\ b64_char v = c.
Proof.
  intros c v H. pose proof (b64_val_small _ _ H) as Hc.
  pose proof (sweep_below 123 (fun c => match b64_val c with Some w => (w <? 64) && (b64_char w =? c) | None => true end)
                ltac:(vm_compute; reflexivity) c Hc) as S.
  cbv beta in S. rewrite H in S. apply andb_true_iff in S. destruct S as [S1 S2].
  apply N.ltb_lt in S1. apply N.eqb_eq in S2. auto.
Qed.

Lemma list_ind3 : forall (P : list N -> Prop),
  P [] -> (forall a, P [a]) -> (forall a b, P [a; b]) -> (forall a b c r, P r -> P (a :: b :: c :: r)) ->
  forall l, P l.
Proof.
  intros P H0 H1 H2 H3. fix IH 1. intros [|a [|b [|c r]]]; [exact H0|apply H1|apply H2|apply H3; apply IH].
Qed.

Lemma list_ind4 : forall (P : list N -> Prop),
  P [] -> (forall a, P [a]) -> (forall a b, P [a; b]) -> (forall a b c, P [a; b; c]) ->
  (forall a b c d r, P r -> P (a :: b :: c :: d :: r)) -> forall l, P l.
Proof.
  intros P H0 H1 H2 H3 H4. fix IH 1. intros [|a [|b [|c [|d r]]]]; [exact H0|apply H1|apply H2|apply H3|apply H4; apply IH].
Qed.

Lemma ok_cons : forall a l, b64_bytes_ok (a :: l) = true -> a < 256 /\ b64_bytes_ok l = true.
Proof.
  unfold b64_bytes_ok. intros a l H. cbn [forallb] in H. apply andb_true_iff in H. destruct H as [H1 H2].
  apply N.ltb_lt in H1. auto.
Qed.

Theorem b64_decode_gen_encode : forall strict bs, b64_bytes_ok bs = true ->
  b64_decode_gen strict (b64_encode bs) = Some bs.
Proof.
  intros strict. induction bs as [|a|a b|a b c r IH] using list_ind3; intros Hok.
  - reflexivity.
  - apply ok_cons in Hok. destruct Hok as [Ha _]. cbn [b64_encode b64_decode_gen].
    rewrite !b64_val_char by lia.
    replace ((a mod 4 * 16) mod 16 =? 0) with true by (symmetry; apply N.eqb_eq; lia).
    cbn [negb]. rewrite andb_false_r. f_equal. f_equal. lia.
  - apply ok_cons in Hok. destruct Hok as [Ha Hok]. apply ok_cons in Hok. destruct Hok as [Hb _].
    cbn [b64_encode b64_decode_gen]. rewrite !b64_val_char by lia.
    replace ((b mod 16 * 4) mod 4 =? 0) with true by (symmetry; apply N.eqb_eq; lia).
    cbn [negb]. rewrite andb_false_r. f_equal. f_equal; [lia|]. f_equal. lia.
  - apply ok_cons in Hok. destruct Hok as [Ha Hok]. apply ok_cons in Hok. destruct Hok as [Hb Hok].
    apply ok_cons in Hok. destruct Hok as [Hc Hok].
    cbn [b64_encode b64_decode_gen]. rewrite !b64_val_char by lia. rewrite IH by auto.
    f_equal. f_equal; [lia|]. f_equal; [lia|]. f_equal. lia.
Qed.

Theorem b64_decode_encode : forall bs, b64_bytes_ok bs = true -> b64_decode (b64_encode bs) = Some bs.
Proof. apply b64_decode_gen_encode. Qed.

Ltac val_cases :=
  repeat match goal with
         | H : context [match b64_val ?x with _ => _ end] |- _ =>
             let E := fresh "E" in destruct (b64_val x) eqn:E; try discriminate
         end.

Theorem b64_decode_ok_bytes : forall strict s bs, b64_decode_gen strict s = Some bs -> b64_bytes_ok bs = true.
Proof.
  intros strict. induction s as [|x|x y|x y z|x y z w r IH] using list_ind4; intros bs H;
    cbn [b64_decode_gen] in H; try discriminate.
  - injection H as <-. reflexivity.
  - val_cases. destruct (strict && _); [discriminate|]. injection H as <-.
    apply b64_char_val in E, E0. unfold b64_bytes_ok. cbn [forallb].
    destruct (N.ltb_spec (n * 4 + n0 / 16) 256); [reflexivity|lia].
  - val_cases. destruct (strict && _); [discriminate|]. injection H as <-.
    apply b64_char_val in E, E0, E1. unfold b64_bytes_ok. cbn [forallb].
    destruct (N.ltb_spec (n * 4 + n0 / 16) 256); [|lia].
    destruct (N.ltb_spec (n0 mod 16 * 16 + n1 / 4) 256); [reflexivity|lia].
  - val_cases. destruct (b64_decode_gen strict r) as [l|] eqn:El; [|discriminate]. injection H as <-.
    apply b64_char_val in E, E0, E1, E2. specialize (IH _ eq_refl). unfold b64_bytes_ok in *. cbn [forallb].
    destruct (N.ltb_spec (n * 4 + n0 / 16) 256); [|lia].
    destruct (N.ltb_spec (n0 mod 16 * 16 + n1 / 4) 256); [|lia].
    destruct (N.ltb_spec (n1 mod 4 * 64 + n2) 256); [|lia]. exact IH.
Qed.

(** the strict decoder is canonical: it accepts only what the encoder writes *)
Theorem b64_encode_decode : forall s bs, b64_decode s = Some bs -> b64_encode bs = s.
Proof.
  unfold b64_decode. induction s as [|x|x y|x y z|x y z w r IH] using list_ind4; intros bs H;
    cbn [b64_decode_gen] in H; try discriminate.
  - injection H as <-. reflexivity.
  - val_cases. cbn [andb] in H. destruct (N.eqb_spec (n0 mod 16) 0); [|discriminate]. cbn [negb] in H.
    injection H as <-. apply b64_char_val in E, E0. destruct E as [Hn <-]. destruct E0 as [Hn0 <-].
    cbn [b64_encode]. f_equal; [f_equal; lia|]. f_equal. f_equal. lia.
  - val_cases. cbn [andb] in H. destruct (N.eqb_spec (n1 mod 4) 0); [|discriminate]. cbn [negb] in H.
    injection H as <-. apply b64_char_val in E, E0, E1.
    destruct E as [Hn <-]. destruct E0 as [Hn0 <-]. destruct E1 as [Hn1 <-].
    cbn [b64_encode]. f_equal; [f_equal; lia|]. f_equal; [f_equal; lia|]. f_equal. f_equal. lia.
  - val_cases. destruct (b64_decode_gen true r) as [l|] eqn:El; [|discriminate]. injection H as <-.
    apply b64_char_val in E, E0, E1, E2.
    destruct E as [Hn <-]. destruct E0 as [Hn0 <-]. destruct E1 as [Hn1 <-]. destruct E2 as [Hn2 <-].
    cbn [b64_encode]. rewrite (IH _ eq_refl).
    f_equal; [f_equal; lia|]. f_equal; [f_equal; lia|]. f_equal; [f_equal; lia|]. f_equal. f_equal. lia.
Qed.

Theorem b64_decode_iff : forall s bs, b64_decode s = Some bs <-> (b64_bytes_ok bs = true /\ s = b64_encode bs).
Proof.
  intros s bs. split.
  - intros H. split; [eapply b64_decode_ok_bytes; exact H|symmetry; apply b64_encode_decode; exact H].
  - intros [Hok ->]. apply b64_decode_encode; auto.
Qed.

Theorem b64_strict_implies_lax : forall s bs, b64_decode s = Some bs -> b64_decode_lax s = Some bs.
Proof.
  intros s bs H. apply b64_decode_iff in H. destruct H as [Hok ->]. apply b64_decode_gen_encode; auto.
Qed.

(** what strictness adds: of the strings the lax decoder reads as [bs], the strict one accepts exactly the
    canonical one *)
Theorem b64_noncanonical_rejected : forall s bs, b64_decode_lax s = Some bs ->
  (b64_decode s = Some bs <-> s = b64_encode bs).
Proof.
  intros s bs H. split.
  - intros H1. symmetry. apply b64_encode_decode; auto.
  - intros ->. apply b64_decode_encode. eapply b64_decode_ok_bytes; exact H.
Qed.

Theorem b64_encode_injective : forall a b, b64_bytes_ok a = true -> b64_bytes_ok b = true ->
  b64_encode a = b64_encode b -> a = b.
Proof.
  intros a b Ha Hb H. pose proof (b64_decode_encode a Ha) as A. rewrite H in A.
  rewrite (b64_decode_encode b Hb) in A. inversion A. reflexivity.
Qed.

Theorem b64_encode_length : forall bs,
  length (b64_encode bs) = (4 * (length bs / 3) + match length bs mod 3 with 0 => 0 | r => S r end)%nat.
Proof.
  induction bs as [|a|a b|a b c r IH] using list_ind3; try reflexivity.
  cbn [b64_encode length]. rewrite IH.
  replace (S (S (S (length r)))) with (length r + 1 * 3)%nat by lia.
  rewrite Nat.div_add by lia. rewrite Nat.mod_add by lia. lia.
Qed.

(** "QQ" = [65]; "QR" has trailing bits; "QQ==" is padded; "Q" is too short *)
Example b64_examples :
  b64_decode [81; 81] = Some [65] /\ b64_decode [81; 82] = None /\ b64_decode_lax [81; 82] = Some [65] /\
  b64_decode [81; 81; 61; 61] = None /\ b64_decode_lax [81; 81; 61; 61] = None /\ b64_decode [81] = None /\
  b64_decode [] = Some [] /\ b64_encode [65] = [81; 81] /\ b64_encode [255; 255; 254] = [47; 47; 47; 43].
Proof. vm_compute. repeat split. Qed.
