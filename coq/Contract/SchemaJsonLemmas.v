(** * SchemaJsonLemmas — facts about the helpers of [SchemaJson.v] (integers, lengths, loops, LEB128). *)
From Coq Require Import NArith ZArith Bool List Lia.
From CB Require Import Contract.SchemaJson.
Import ListNotations.
Local Open Scope N_scope.
Arguments N.add : simpl never.
Arguments N.sub : simpl never.
Arguments N.mul : simpl never.
Arguments N.pow : simpl never.
Arguments N.div : simpl never.
Arguments N.modulo : simpl never.
Arguments N.eqb : simpl never.
Arguments N.ltb : simpl never.
Arguments N.leb : simpl never.
Arguments Z.pow : simpl never.
Arguments Z.mul : simpl never.
Arguments Z.add : simpl never.
Arguments Z.sub : simpl never.
Arguments Z.modulo : simpl never.
Arguments Z.div : simpl never.
Arguments Z.ltb : simpl never.
Arguments Z.leb : simpl never.
Arguments Z.eqb : simpl never.
Arguments N.of_nat : simpl never.
Arguments Z.of_nat : simpl never.
Arguments Z.of_N : simpl never.
Arguments Z.to_N : simpl never.

(* ------------------------------------------------------------------ strings *)
Lemma str_eqb_eq : forall a b, str_eqb a b = true -> a = b.
Proof.
  induction a as [|x a IH]; destruct b as [|y b]; simpl; intros H; try discriminate; auto.
  apply andb_true_iff in H. destruct H as [H1 H2]. apply N.eqb_eq in H1. subst. f_equal. auto.
Qed.

(* ------------------------------------------------------------------ little-endian integers *)
Lemma le_length : forall k n, length (le k n) = k.
Proof. induction k; simpl; intros; auto. Qed.

Lemma pow256_S : forall k : nat, 2 ^ (8 * N.of_nat (S k)) = 256 * 2 ^ (8 * N.of_nat k).
Proof.
  intros. replace (8 * N.of_nat (S k)) with (8 + 8 * N.of_nat k) by lia.
  rewrite N.pow_add_r. reflexivity.
Qed.

Lemma le_dec_le : forall k n rest, n < 2 ^ (8 * N.of_nat k) ->
  le_dec k (le k n ++ rest) = Some (n, rest).
Proof.
  induction k as [|k IH]; intros n rest H.
  - simpl in *. change (2 ^ (8 * N.of_nat 0)) with 1 in H. assert (n = 0) by lia. subst. reflexivity.
  - cbn [le le_dec app]. rewrite pow256_S in H.
    rewrite IH.
    + f_equal. f_equal. pose proof (N.div_mod n 256). lia.
    + apply N.div_lt_upper_bound; lia.
Qed.

Lemma le_dec_1 : forall b r, le_dec 1 (b :: r) = Some (b, r).
Proof. intros. cbn [le_dec]. f_equal. f_equal. lia. Qed.

Lemma le_dec_some : forall k bs n rest, le_dec k bs = Some (n, rest) ->
  exists pre, bs = pre ++ rest /\ length pre = k.
Proof.
  induction k as [|k IH]; intros bs n rest H; cbn [le_dec] in H.
  - inversion H; subst. exists []. auto.
  - destruct bs as [|b r]; try discriminate.
    destruct (le_dec k r) as [[m rest']|] eqn:E; try discriminate. inversion H; subst.
    destruct (IH _ _ _ E) as [pre [H1 H2]]. subst. exists (b :: pre). simpl. auto.
Qed.

Lemma Zpow256_S : forall k : nat, (2 ^ (8 * Z.of_nat (S k)) = 256 * 2 ^ (8 * Z.of_nat k))%Z.
Proof.
  intros. replace (8 * Z.of_nat (S k))%Z with (8 + 8 * Z.of_nat k)%Z by lia.
  rewrite Z.pow_add_r by lia. reflexivity.
Qed.

Lemma Z_N_pow256 : forall k : nat, Z.of_N (2 ^ (8 * N.of_nat k)) = (2 ^ (8 * Z.of_nat k))%Z.
Proof.
  intros. rewrite N2Z.inj_pow. f_equal. lia.
Qed.

Lemma le_signed_roundtrip : forall (k : nat) z rest, (0 < k)%nat ->
  (- 2 ^ (8 * Z.of_nat k - 1) <= z < 2 ^ (8 * Z.of_nat k - 1))%Z ->
  le_signed_dec k (le_signed k z ++ rest) = Some (z, rest).
Proof.
  intros k z rest Hk Hz. unfold le_signed_dec, le_signed.
  set (M := (2 ^ (8 * Z.of_nat k))%Z).
  assert (HM : (M = 2 * 2 ^ (8 * Z.of_nat k - 1))%Z).
  { unfold M. replace (8 * Z.of_nat k)%Z with (1 + (8 * Z.of_nat k - 1))%Z at 1 by lia.
    rewrite Z.pow_add_r by lia. reflexivity. }
  assert (Hpos : (0 < 2 ^ (8 * Z.of_nat k - 1))%Z) by (apply Z.pow_pos_nonneg; lia).
  assert (Hmod : (0 <= z mod M < M)%Z) by (apply Z.mod_pos_bound; lia).
  rewrite le_dec_le.
  2:{ apply N2Z.inj_lt. rewrite Z2N.id by lia. rewrite Z_N_pow256. fold M. lia. }
  rewrite Z2N.id by lia.
  f_equal. f_equal.
  destruct (Z.ltb_spec (z mod M) (2 ^ (8 * Z.of_nat k - 1))).
  - (* non-negative *)
    destruct (Z.neg_nonneg_cases z) as [Hn|Hn].
    + exfalso. assert (z mod M = z + M)%Z.
      { symmetry. apply Z.mod_unique with (q := (-1)%Z); lia. } lia.
    + apply Z.mod_small. lia.
  - destruct (Z.neg_nonneg_cases z) as [Hn|Hn].
    + assert (z mod M = z + M)%Z.
      { symmetry. apply Z.mod_unique with (q := (-1)%Z); lia. } lia.
    + exfalso. rewrite Z.mod_small in H by lia. lia.
Qed.

(* ------------------------------------------------------------------ lengths *)
Lemma enc_len_dec_len : forall s n l rest, enc_len s n = Some l ->
  dec_len s (l ++ rest) = Some (N.of_nat n, rest).
Proof.
  unfold enc_len, dec_len. intros s n l rest H.
  destruct (N.ltb_spec (N.of_nat n) (2 ^ (8 * N.of_nat (sl_bytes s)))); try discriminate.
  inversion H; subst. apply le_dec_le. assumption.
Qed.

Lemma take_n_app : forall a rest, take_n (a ++ rest) (N.of_nat (length a)) = Some (a, rest).
Proof.
  induction a as [|x a IH]; intros rest.
  - simpl. destruct rest; reflexivity.
  - cbn [length app take_n].
    destruct (N.eqb_spec (N.of_nat (S (length a))) 0); [lia|].
    replace (N.pred (N.of_nat (S (length a)))) with (N.of_nat (length a)) by lia.
    rewrite IH. reflexivity.
Qed.

Lemma take_n_some : forall bs n a rest, take_n bs n = Some (a, rest) -> bs = a ++ rest /\ N.of_nat (length a) = n.
Proof.
  induction bs as [|b r IH]; intros n a rest H.
  - cbn [take_n] in H. destruct (N.eqb_spec n 0); try discriminate. inversion H; subst. auto.
  - cbn [take_n] in H. destruct (N.eqb_spec n 0).
    + inversion H; subst. auto.
    + destruct (take_n r (N.pred n)) as [[a' rest']|] eqn:E; try discriminate.
      inversion H; subst. destruct (IH _ _ _ E) as [H1 H2]. subst. split; [reflexivity|].
      cbn [length]. lia.
Qed.

(* ------------------------------------------------------------------ iteration *)
Fixpoint iter_nat_opt {A : Type} (n : nat) (f : A -> option A) (a : A) : option A :=
  match n with
  | O => Some a
  | S n' => match f a with Some a' => iter_nat_opt n' f a' | None => None end
  end.

Lemma iter_nat_opt_add : forall {A} (n m : nat) (f : A -> option A) a,
  iter_nat_opt (n + m) f a = match iter_nat_opt n f a with Some a' => iter_nat_opt m f a' | None => None end.
Proof.
  induction n as [|n IH]; intros; simpl; auto.
  destruct (f a); auto.
Qed.

Lemma iter_pos_opt_nat : forall {A} (p : positive) (f : A -> option A) a,
  iter_pos_opt p f a = iter_nat_opt (Pos.to_nat p) f a.
Proof.
  induction p as [p IH|p IH|]; intros f a; cbn [iter_pos_opt].
  - rewrite Pos2Nat.inj_xI. cbn [iter_nat_opt Nat.mul]. destruct (f a) as [a1|]; auto.
    replace (Pos.to_nat p + (Pos.to_nat p + 0))%nat with (Pos.to_nat p + Pos.to_nat p)%nat by lia.
    rewrite iter_nat_opt_add. rewrite <- IH. destruct (iter_pos_opt p f a1); auto.
  - rewrite Pos2Nat.inj_xO. cbn [Nat.mul].
    replace (Pos.to_nat p + (Pos.to_nat p + 0))%nat with (Pos.to_nat p + Pos.to_nat p)%nat by lia.
    rewrite iter_nat_opt_add. rewrite <- IH. destruct (iter_pos_opt p f a); auto.
  - simpl. destruct (f a); auto.
Qed.

Lemma iter_N_opt_nat : forall {A} (n : N) (f : A -> option A) a,
  iter_N_opt n f a = iter_nat_opt (N.to_nat n) f a.
Proof.
  intros A [|p] f a; simpl; auto. apply iter_pos_opt_nat.
Qed.

(** sequential decoding of [n] items, written by plain recursion *)
Fixpoint dec_seq {A : Type} (item : list N -> option (A * list N)) (n : nat) (bs : list N) : option (list A * list N) :=
  match n with
  | O => Some ([], bs)
  | S n' => match item bs with
            | Some (v, bs') => match dec_seq item n' bs' with
                               | Some (vs, r) => Some (v :: vs, r)
                               | None => None
                               end
            | None => None
            end
  end.

Lemma iter_step_item : forall {A} (item : list N -> option (A * list N)) n acc bs,
  iter_nat_opt n (step_item item) (acc, bs) =
  match dec_seq item n bs with Some (vs, r) => Some (rev vs ++ acc, r) | None => None end.
Proof.
  induction n as [|n IH]; intros acc bs; cbn [iter_nat_opt dec_seq].
  - reflexivity.
  - unfold step_item at 1. destruct (item bs) as [[v bs']|]; auto.
    rewrite IH. destruct (dec_seq item n bs') as [[vs r]|]; auto.
    cbn [rev]. rewrite <- app_assoc. reflexivity.
Qed.

Lemma dec_items_seq : forall {A} (item : list N -> option (A * list N)) n bs,
  dec_items item n bs = dec_seq item (N.to_nat n) bs.
Proof.
  intros. unfold dec_items. rewrite iter_N_opt_nat, iter_step_item.
  destruct (dec_seq item (N.to_nat n) bs) as [[vs r]|]; auto.
  rewrite rev_append_rev, !app_nil_r, rev_involutive. reflexivity.
Qed.

(** the list loop of [from_json] followed by the count loop of [to_json] *)
Lemma dec_seq_from_list : forall (f : json -> option (list N)) (g : json -> json)
  (item : list N -> option (json * list N)) vs p rest,
  (forall v b r, In v vs -> f v = Some b -> item (b ++ r) = Some (g v, r)) ->
  from_list f vs = Some p ->
  dec_seq item (length vs) (p ++ rest) = Some (map g vs, rest).
Proof.
  induction vs as [|v vs IH]; intros p rest Hitem H; cbn [from_list] in H.
  - inversion H; subst. reflexivity.
  - destruct (f v) as [a|] eqn:Ea; try discriminate.
    destruct (from_list f vs) as [b|] eqn:Eb; try discriminate.
    inversion H; subst. cbn [length dec_seq map].
    rewrite <- app_assoc. rewrite (Hitem v a); [|left; reflexivity|assumption].
    rewrite IH; auto. intros. apply Hitem; auto. right; assumption.
Qed.

Lemma dec_items_from_list : forall (f : json -> option (list N)) (g : json -> json)
  (item : list N -> option (json * list N)) vs p rest,
  (forall v b r, In v vs -> f v = Some b -> item (b ++ r) = Some (g v, r)) ->
  from_list f vs = Some p ->
  dec_items item (N.of_nat (length vs)) (p ++ rest) = Some (map g vs, rest).
Proof.
  intros. rewrite dec_items_seq, Nat2N.id. eapply dec_seq_from_list; eauto.
Qed.

(* ------------------------------------------------------------------ unsigned LEB128 *)
Lemma uleb_groups_dec : forall fuel n c shift acc rest,
  n < 2 ^ N.of_nat fuel -> (fuel > 0)%nat ->
  N.of_nat (length (uleb_groups fuel n)) <= c ->
  uleb_dec (uleb_groups fuel n ++ rest) c shift acc = Some (acc + n * 2 ^ shift, rest).
Proof.
  induction fuel as [|fuel IH]; intros n c shift acc rest Hn Hf Hc; [lia|].
  cbn [uleb_groups] in *.
  assert (Hdm : n = 128 * (n / 128) + n mod 128) by (apply N.div_mod; lia).
  assert (Hm : n mod 128 < 128) by (apply N.mod_lt; lia).
  assert (Hmm : (n mod 128 + 128) mod 128 = n mod 128).
  { rewrite N.add_mod by lia. rewrite N.mod_same by lia. rewrite N.add_0_r.
    rewrite N.mod_mod by lia. rewrite N.mod_mod by lia. reflexivity. }
  assert (Hsm : (n mod 128) mod 128 = n mod 128) by (apply N.mod_mod; lia).
  remember (n mod 128) as m eqn:Em. remember (n / 128) as q eqn:Eq.
  destruct (N.eqb_spec q 0) as [E|E].
  - cbn [app uleb_dec length] in *.
    destruct (N.eqb_spec c 0); [lia|].
    rewrite Hsm.
    destruct (N.ltb_spec m 128); [|lia].
    f_equal. f_equal. subst q. rewrite Hdm. lia.
  - cbn [app uleb_dec length] in *.
    destruct (N.eqb_spec c 0); [lia|].
    destruct (N.ltb_spec (m + 128) 128); [lia|].
    rewrite Hmm.
    destruct fuel as [|fuel'].
    { exfalso. change (2 ^ N.of_nat 1) with 2 in Hn. assert (n / 128 = 0) by (apply N.div_small; lia). congruence. }
    rewrite IH.
    + f_equal. f_equal. rewrite N.pow_add_r. change (2 ^ 7) with 128. rewrite Hdm. lia.
    + replace (N.of_nat (S (S fuel'))) with (1 + N.of_nat (S fuel')) in Hn by lia.
      rewrite N.pow_add_r in Hn. change (2 ^ 1) with 2 in Hn. lia.
    + lia.
    + lia.
Qed.

Lemma pos_size_nat_bound : forall p, Npos p < 2 ^ N.of_nat (Pos.size_nat p).
Proof.
  induction p as [p IH|p IH|]; cbn [Pos.size_nat].
  - replace (N.of_nat (S (Pos.size_nat p))) with (1 + N.of_nat (Pos.size_nat p)) by lia.
    rewrite N.pow_add_r. change (2 ^ 1) with 2. lia.
  - replace (N.of_nat (S (Pos.size_nat p))) with (1 + N.of_nat (Pos.size_nat p)) by lia.
    rewrite N.pow_add_r. change (2 ^ 1) with 2. lia.
  - reflexivity.
Qed.

Lemma size_nat_bound : forall n, n < 2 ^ N.of_nat (N.size_nat n).
Proof.
  intros. destruct n as [|p]; [reflexivity|]. apply pos_size_nat_bound.
Qed.

Lemma uleb_roundtrip : forall c n bs rest, uleb_enc c n = Some bs ->
  uleb_dec (bs ++ rest) c 0 0 = Some (n, rest).
Proof.
  unfold uleb_enc. intros c n bs rest H.
  remember (S (N.size_nat n)) as fuel eqn:Ef.
  destruct (N.leb_spec (N.of_nat (length (uleb_groups fuel n))) c); try discriminate.
  injection H as <-. rewrite uleb_groups_dec; auto; subst fuel.
  - f_equal. f_equal. change (2 ^ 0) with 1. lia.
  - pose proof (size_nat_bound n).
    replace (N.of_nat (S (N.size_nat n))) with (1 + N.of_nat (N.size_nat n)) by lia.
    rewrite N.pow_add_r. change (2 ^ 1) with 2. lia.
  - lia.
Qed.

(* ------------------------------------------------------------------ signed LEB128 *)
Lemma sleb_groups_dec : forall fuel z c shift acc rest,
  (- 2 ^ Z.of_nat fuel <= z < 2 ^ Z.of_nat fuel)%Z -> (fuel > 0)%nat ->
  N.of_nat (length (sleb_groups fuel z)) <= c ->
  sleb_dec (sleb_groups fuel z ++ rest) c shift acc = Some ((acc + z * 2 ^ Z.of_N shift)%Z, rest).
Proof.
  induction fuel as [|fuel IH]; intros z c shift acc rest Hz Hf Hc; [lia|].
  cbn [sleb_groups] in *.
  assert (Hdm : (z = 128 * (z / 128) + z mod 128)%Z) by (apply Z.div_mod; lia).
  assert (Hm : (0 <= z mod 128 < 128)%Z) by (apply Z.mod_pos_bound; lia).
  remember (z mod 128)%Z as m eqn:Em. remember (z / 128)%Z as q eqn:Eq.
  remember (Z.to_N m) as b eqn:Eb.
  assert (Hb : Z.of_N b = m) by (subst b; rewrite Z2N.id; lia).
  assert (Hb128 : b < 128) by lia.
  assert (Hbm : b mod 128 = b) by (apply N.mod_small; lia).
  assert (Hbm' : (b + 128) mod 128 = b).
  { rewrite N.add_mod by lia. rewrite N.mod_same by lia. rewrite N.add_0_r.
    rewrite N.mod_mod by lia. exact Hbm. }
  assert (Hpow : (2 ^ Z.of_N (shift + 7) = 128 * 2 ^ Z.of_N shift)%Z).
  { rewrite N2Z.inj_add. rewrite Z.pow_add_r by lia. change (2 ^ Z.of_N 7)%Z with 128%Z. lia. }
  remember (2 ^ Z.of_N shift)%Z as P eqn:EP.
  destruct (((q =? 0)%Z && (b <? 64)) || ((q =? -1)%Z && (64 <=? b))) eqn:Efin.
  - cbn [app sleb_dec length] in *.
    destruct (N.eqb_spec c 0); [lia|].
    rewrite Hbm.
    destruct (N.ltb_spec b 128); [|lia].
    f_equal. f_equal. rewrite <- EP.
    apply orb_true_iff in Efin. destruct Efin as [E|E]; apply andb_true_iff in E; destruct E as [E1 E2].
    + apply Z.eqb_eq in E1. apply N.ltb_lt in E2.
      destruct (N.leb_spec 64 b); [lia|]. rewrite Hb. rewrite Hdm, E1. ring.
    + apply Z.eqb_eq in E1. apply N.leb_le in E2.
      destruct (N.leb_spec 64 b); [|lia]. rewrite Hb, Hpow. rewrite Hdm, E1. ring.
  - cbn [app sleb_dec length] in *.
    destruct (N.eqb_spec c 0); [lia|].
    destruct (N.ltb_spec (b + 128) 128); [lia|].
    rewrite Hbm'.
    destruct fuel as [|fuel'].
    { exfalso. change (2 ^ Z.of_nat 1)%Z with 2%Z in Hz.
      apply orb_false_iff in Efin. destruct Efin as [E1 E2].
      assert (z = -2 \/ z = -1 \/ z = 0 \/ z = 1)%Z as Hcases by lia.
      subst q b m.
      destruct Hcases as [?|[?|[?|?]]]; subst z; vm_compute in E1, E2; discriminate. }
    rewrite IH.
    + f_equal. f_equal. rewrite Hb, Hpow, <- EP. rewrite Hdm. ring.
    + assert (Hp : (2 ^ Z.of_nat (S (S fuel')) = 2 * 2 ^ Z.of_nat (S fuel'))%Z).
      { replace (Z.of_nat (S (S fuel'))) with (1 + Z.of_nat (S fuel'))%Z by lia.
        rewrite Z.pow_add_r by lia. reflexivity. }
      assert (0 < 2 ^ Z.of_nat (S fuel'))%Z by (apply Z.pow_pos_nonneg; lia).
      remember (2 ^ Z.of_nat (S fuel'))%Z as Q. lia.
    + lia.
    + lia.
Qed.

Lemma abs_size_bound : forall z, (- 2 ^ Z.of_nat (N.size_nat (Z.abs_N z)) <= z < 2 ^ Z.of_nat (N.size_nat (Z.abs_N z)))%Z.
Proof.
  intros z. pose proof (size_nat_bound (Z.abs_N z)) as H.
  apply N2Z.inj_lt in H. rewrite N2Z.inj_pow in H. rewrite N2Z.inj_abs_N in H.
  replace (Z.of_N (N.of_nat (N.size_nat (Z.abs_N z)))) with (Z.of_nat (N.size_nat (Z.abs_N z))) in H by lia.
  change (Z.of_N 2) with 2%Z in H. lia.
Qed.

Lemma sleb_roundtrip : forall c z bs rest, sleb_enc c z = Some bs ->
  sleb_dec (bs ++ rest) c 0 0 = Some (z, rest).
Proof.
  unfold sleb_enc. intros c z bs rest H.
  remember (S (N.size_nat (Z.abs_N z))) as fuel eqn:Ef.
  destruct (N.leb_spec (N.of_nat (length (sleb_groups fuel z))) c); try discriminate.
  injection H as <-. rewrite sleb_groups_dec; auto; subst fuel.
  - f_equal. f_equal. change (2 ^ Z.of_N 0)%Z with 1%Z. lia.
  - pose proof (abs_size_bound z).
    replace (Z.of_nat (S (N.size_nat (Z.abs_N z)))) with (1 + Z.of_nat (N.size_nat (Z.abs_N z)))%Z by lia.
    rewrite Z.pow_add_r by lia. change (2 ^ 1)%Z with 2%Z.
    assert (0 < 2 ^ Z.of_nat (N.size_nat (Z.abs_N z)))%Z by (apply Z.pow_pos_nonneg; lia). lia.
  - lia.
Qed.

(* ------------------------------------------------------------------ text *)
Lemma hex_decode_length : forall s b, hex_decode s = Some b -> (2 * length b = length s)%nat.
Proof.
  fix IH 1. intros s b H. destruct s as [|x [|y r]]; simpl in H.
  - inversion H; reflexivity.
  - discriminate.
  - destruct (hex_val x); try discriminate. destruct (hex_val y); try discriminate.
    destruct (hex_decode r) as [bs|] eqn:E; try discriminate. inversion H; subst.
    apply IH in E. simpl. lia.
Qed.

Lemma name_chars_utf8 : forall s, forallb name_char s = true -> utf8_valid s = true.
Proof.
  induction s as [|b s IH]; intros H; [reflexivity|].
  cbn [forallb] in H. apply andb_true_iff in H. destruct H as [H1 H2].
  unfold name_char in H1. apply andb_true_iff in H1. destruct H1 as [_ H1]. apply N.leb_le in H1.
  cbn [utf8_valid]. destruct (N.ltb_spec b 128); [auto|lia].
Qed.

Lemma split_dot_app : forall c f, has_dot c = false -> split_dot (c ++ 46 :: f) = (c, f).
Proof.
  induction c as [|b c IH]; intros f H.
  - reflexivity.
  - unfold has_dot in H. cbn [existsb] in H. apply orb_false_iff in H. destruct H as [H1 H2].
    cbn [app split_dot]. rewrite H1. rewrite IH; auto.
Qed.
