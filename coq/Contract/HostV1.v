(** C14 - executable model of the v1 host functions
    (smart-contracts/wasm-chain-integration/src/v1/mod.rs `mod host`, v1/types.rs InstanceState).
    Definitions only.

    The instance state is modelled through a small interface (entries with validity, ownership
    and values; iterators with a root prefix, a current key and the keys still to visit; the
    multiset of locked prefixes).  The radix-tree representation, its hashing and persistence are
    the subject of C03/C04/C15; here only what the host functions add on top is modelled:
    handle encoding and validation, size limits, charging and memory access.  Energy charged by
    the tree itself for traversals (iterator_next, delete_prefix) is modelled EXACTLY through
    HostTreeEnergy.v: the shape of the tree is the canonical radix tree of the live keys
    ([live_tree]), and [x_exp] records which nodes have been made owned in the current generation.
    [x_lower] ("energy is a lower bound") is only raised when the environment forces a lock count
    to zero while an iterator is alive (cfg hook), which lets the subtree of a live iterator change. *)
From Coq Require Import NArith List Bool.
From CB Require Import Gen.HostCosts Contract.HostBase Contract.HostV0 Contract.HostTreeEnergy.
Import ListNotations.
Local Open Scope N_scope.

(** ** Instance state *)
Record entry : Type := mkEntry {
  e_key : list N;
  e_val : option (list N);        (* None: deleted / invalidated *)
  e_owned : bool }.               (* already copied into the current generation (get_mut is free) *)

Record iter : Type := mkIter {
  it_root : list N;
  it_todo : list (list N * N);    (* (key, entry id) still to be returned, ascending *)
  it_key : list N;                (* key of the entry returned last *)
  it_started : bool;
  it_exh : list N }.              (* the key reported once the iterator is exhausted (see [exhausted_key]) *)

Record istate : Type := mkIS {
  is_gen : N;
  is_entries : list entry;        (* indexed by entry id *)
  is_emap : list N;               (* entry_mapping: handle index -> entry id *)
  is_iters : list (option iter);
  is_locks : list (list N * N);   (* iterator roots with their reference counts (u32) *)
  is_changed : bool }.

Record rparams : Type := mkRP {    (* v1::ReceiveParams *)
  rp_max_parameter_size : N;
  rp_limit : bool;
  rp_queries : bool;
  rp_sigchecks : bool;
  rp_inspection : bool }.

(** Protocol parameter sets as documented (P4: 1 KiB parameters, limited logs/return values, no
    queries; P5: 65535, unlimited, queries; P6: + account signature checks; P7: + inspection). *)
Definition rparams_of (pv : N) : rparams :=
  if pv <=? 4 then mkRP 1024 true false false false
  else if pv =? 5 then mkRP 65535 false true false false
  else if pv =? 6 then mkRP 65535 false true true false
  else mkRP 65535 false true true true.

Record v1ext : Type := mkExt {
  x_rv : list N;                          (* return value *)
  x_params : list (list N);               (* parameters: [0] is the call parameter, then responses *)
  x_is : istate;
  x_rp : rparams;
  x_entrypoint : list N;
  x_digests : list (list N);              (* oracle: digests returned by the hash functions, in order *)
  x_hashlog : list (N * list N);          (* (kind, data) of every hash call, most recent first *)
  x_unspec : bool;                        (* behaviour outside the model (unused at present) *)
  x_lower : bool;                         (* charged energy is a lower bound (see above) *)
  x_exp : list (list N) }.                (* full keys (4-bit chunks) of the tree nodes expanded in this generation *)

Notation H1 := (host v1ext).
Notation M1 := (M (host v1ext)).

Definition with_is (x : v1ext) (s : istate) : v1ext :=
  mkExt (x_rv x) (x_params x) s (x_rp x) (x_entrypoint x) (x_digests x) (x_hashlog x) (x_unspec x) (x_lower x) (x_exp x).
Definition with_rv (x : v1ext) (r : list N) : v1ext :=
  mkExt r (x_params x) (x_is x) (x_rp x) (x_entrypoint x) (x_digests x) (x_hashlog x) (x_unspec x) (x_lower x) (x_exp x).
Definition with_params (x : v1ext) (p : list (list N)) : v1ext :=
  mkExt (x_rv x) p (x_is x) (x_rp x) (x_entrypoint x) (x_digests x) (x_hashlog x) (x_unspec x) (x_lower x) (x_exp x).
Definition with_hash (x : v1ext) (d : list (list N)) (l : list (N * list N)) : v1ext :=
  mkExt (x_rv x) (x_params x) (x_is x) (x_rp x) (x_entrypoint x) d l (x_unspec x) (x_lower x) (x_exp x).
Definition with_flags (x : v1ext) (u l : bool) : v1ext :=
  mkExt (x_rv x) (x_params x) (x_is x) (x_rp x) (x_entrypoint x) (x_digests x) (x_hashlog x) u l (x_exp x).
Definition with_exp (x : v1ext) (e : list (list N)) : v1ext :=
  mkExt (x_rv x) (x_params x) (x_is x) (x_rp x) (x_entrypoint x) (x_digests x) (x_hashlog x) (x_unspec x) (x_lower x) e.

Definition get_x : M1 v1ext := h <- get_hs ;; ret (h_ext h).
Definition set_x (x : v1ext) : M1 unit := h <- get_hs ;; set_hs (with_ext h x).
Definition get_is : M1 istate := x <- get_x ;; ret (x_is x).
Definition set_is (s : istate) : M1 unit := x <- get_x ;; set_x (with_is x s).
Definition flag_unspec : M1 unit := x <- get_x ;; set_x (with_flags x true (x_lower x)).
Definition flag_lower : M1 unit := x <- get_x ;; set_x (with_flags x (x_unspec x) true).

(** *** pure operations on the instance state *)
Definition is_set_changed (s : istate) : istate :=
  mkIS (is_gen s) (is_entries s) (is_emap s) (is_iters s) (is_locks s) true.
Definition is_with_entries (s : istate) (es : list entry) : istate :=
  mkIS (is_gen s) es (is_emap s) (is_iters s) (is_locks s) (is_changed s).
Definition is_push_handle (s : istate) (id : N) : istate :=
  mkIS (is_gen s) (is_entries s) (is_emap s ++ [id]) (is_iters s) (is_locks s) (is_changed s).

Fixpoint find_live (key : list N) (es : list entry) (i : N) : option N :=
  match es with
  | [] => None
  | e :: t => match e_val e with
              | Some _ => if list_eqb (e_key e) key then Some i else find_live key t (N.succ i)
              | None => find_live key t (N.succ i)
              end
  end.
Fixpoint insert_sorted (k : list N * N) (l : list (list N * N)) : list (list N * N) :=
  match l with
  | [] => [k]
  | x :: t => if list_ltb (fst k) (fst x) then k :: l else x :: insert_sorted k t
  end.
Fixpoint live_with_prefix (p : list N) (es : list entry) (i : N) : list (list N * N) :=
  match es with
  | [] => []
  | e :: t => let rest := live_with_prefix p t (N.succ i) in
              match e_val e with
              | Some _ => if is_prefix p (e_key e) then insert_sorted (e_key e, i) rest else rest
              | None => rest
              end
  end.
Definition any_live (es : list entry) : bool :=
  existsb (fun e => match e_val e with Some _ => true | None => false end) es.
(** `check_has_no_prefix` fails: some iterator root is a prefix of the key *)
Definition locked_key (locks : list (list N * N)) (key : list N) : bool :=
  existsb (fun p => is_prefix (fst p) key) locks.
(** `is_or_has_prefix` *)
Definition locked_prefix (locks : list (list N * N)) (key : list N) : bool :=
  existsb (fun p => is_prefix (fst p) key || is_prefix key (fst p)) locks.
(** `PrefixesMap::insert`: the reference count is a u32; [None] = TooManyIterators *)
Fixpoint lock_add (p : list N) (l : list (list N * N)) : option (list (list N * N)) :=
  match l with
  | [] => Some [(p, 1)]
  | (q, c) :: t =>
      if list_eqb q p then (if c =? U32MAX then None else Some ((q, c + 1) :: t))
      else match lock_add p t with Some t' => Some ((q, c) :: t') | None => None end
  end.
(** `PrefixesMap::delete` *)
Fixpoint remove_one (p : list N) (l : list (list N * N)) : list (list N * N) :=
  match l with
  | [] => []
  | (q, c) :: t => if list_eqb q p then (if c <=? 1 then t else (q, c - 1) :: t) else (q, c) :: remove_one p t
  end.
(** verification hook `verif_set_lock_count` (only for an existing lock) *)
Fixpoint lock_set (p : list N) (c : N) (l : list (list N * N)) : list (list N * N) :=
  match l with
  | [] => []
  | (q, c0) :: t => if list_eqb q p then (q, c) :: t else (q, c0) :: lock_set p c t
  end.

(** The key an iterator reports after exhaustion: the walk returns to the node it started at,
    whose key is the longest common prefix, in 4-bit chunks, of the keys below the iterator root;
    an odd number of chunks leaves a last byte with a zero low half. *)
Definition nibbles (k : list N) : list N := flat_map (fun b => [b / 16; b mod 16]) k.
Fixpoint lcp (a b : list N) : list N :=
  match a, b with
  | x :: a', y :: b' => if x =? y then x :: lcp a' b' else []
  | _, _ => []
  end.
Fixpoint pack_nibbles (l : list N) : list N :=
  match l with
  | [] => []
  | [a] => [16 * a]
  | a :: b :: t => (16 * a + b) :: pack_nibbles t
  end.
Definition exhausted_key (todo : list (list N * N)) : list N :=
  match todo with
  | [] => []
  | (k, _) :: t => pack_nibbles (fold_left (fun acc ki => lcp acc (nibbles (fst ki))) t (nibbles k))
  end.

Definition handle (gen idx : N) : N := gen * W32 + idx.            (* (gen << 32) | idx *)
Definition split_handle (h : N) : N * N := (u32 (h / W32), h mod W32).
Definition NEW_ERR : N := U64MAX - 4611686018427387904.            (* u64::MAX & !(1 << 62) *)

(** entry behind a handle: [None] = handle of another generation or unknown index *)
Definition handle_entry (s : istate) (h : N) : option N :=
  let '(gen, idx) := split_handle h in
  if gen =? is_gen s then nthN idx (is_emap s) else None.

(** *** `parse_call_args` and interrupts *)
Record interrupt : Type := mkInt { i_bytes : list N; i_clear : bool }.
Inductive hres : Type := HVal (v : option N) | HInt (i : interrupt).

Definition be_bytes (k : nat) (x : N) : list N := rev (le_bytes k x).

Definition parse_call_args (data : list N) (max_parameter_size : N) : M1 interrupt :=
  (* address: two u64 *)
  ensure (16 <=? lenN data) ;;;
  let index := firstnN 8 data in
  let subindex := firstnN 8 (skipnN 8 data) in
  ensure (18 <=? lenN data) ;;;
  let parameter_len := u16 (le_val (firstnN 2 (skipnN 16 data))) in
  ensure (negb (max_parameter_size <? parameter_len)) ;;;
  tick (copy_parameter_cost parameter_len) ;;;
  let start := 18 in
  end_ <- uadd 18 parameter_len ;;                              (* cursor.offset + parameter_len as usize *)
  ensure (negb (lenN data <? end_)) ;;;
  parameter <- vslice data start end_ ;;
  emit (EvCopy parameter_len) ;;;
  (* name: u16 length; (fix) rejected when >= MAX_FUNC_NAME_SIZE before any byte of it is read *)
  ensure (end_ + 2 <=? lenN data) ;;;
  let name_len := u16 (le_val (firstnN 2 (skipnN end_ data))) in
  ensure (name_len <? 100) ;;;
  ensure (end_ + 2 + name_len <=? lenN data) ;;;
  name <- vslice data (end_ + 2) (end_ + 2 + name_len) ;;
  emit (EvFixed name_len) ;;;
  ensure (valid_entrypoint_name name) ;;;
  (* amount *)
  ensure (end_ + 2 + name_len + 8 <=? lenN data) ;;;
  amount <- vslice data (end_ + 2 + name_len) (end_ + 2 + name_len + 8) ;;
  ret (mkInt ([1] ++ rev index ++ rev subindex ++ be_bytes 2 parameter_len ++ parameter
               ++ be_bytes 2 name_len ++ name ++ rev amount) true).

(** `&memory[start .. start + k]` followed by `&memory[start + k .. start + k + j]` *)
Definition two_fields (start k j : N) : M1 (list N * list N) :=
  e1 <- uadd start k ;;
  a <- mslice start e1 ;;
  e2 <- uadd e1 j ;;
  b <- mslice e1 e2 ;;
  ret (a, b).

Definition invoke (tag start length : N) : M1 hres :=
  x <- get_x ;;
  let params := x_rp x in
  tick INVOKE_BASE_COST ;;;
  if tag =? 0 then                                              (* transfer *)
    ensure (length =? 40) ;;;
    end_ <- uadd start length ;;
    ensure_fits end_ ;;;
    ab <- two_fields start 32 8 ;;
    emit (EvFixed 40) ;;;
    ret (HInt (mkInt ([0] ++ fst ab ++ rev (snd ab)) true))
  else if tag =? 1 then                                         (* call *)
    end_ <- uadd start length ;;
    ensure_fits end_ ;;;
    data <- mslice start end_ ;;
    i <- parse_call_args data (rp_max_parameter_size params) ;;
    ret (HInt i)
  else if (tag =? 2) && rp_queries params then                  (* account balance *)
    ensure (length =? 32) ;;;
    end_ <- uadd start length ;;
    ensure_fits end_ ;;;
    e <- uadd start 32 ;;
    a <- mslice start e ;;
    emit (EvFixed 32) ;;;
    ret (HInt (mkInt ([3] ++ a) false))
  else if (tag =? 3) && rp_queries params then                  (* contract balance *)
    ensure (length =? 16) ;;;
    end_ <- uadd start length ;;
    ensure_fits end_ ;;;
    ab <- two_fields start 8 8 ;;
    emit (EvFixed 16) ;;;
    ret (HInt (mkInt ([4] ++ rev (fst ab) ++ rev (snd ab)) false))
  else if (tag =? 4) && rp_queries params then                  (* exchange rates *)
    ensure (length =? 0) ;;;
    ret (HInt (mkInt [5] false))
  else if (tag =? 5) && rp_sigchecks params then                (* check account signature *)
    ensure (32 <=? length) ;;;
    end_ <- uadd start length ;;
    ensure_fits end_ ;;;
    tick (copy_to_host_cost length) ;;;
    e <- uadd start 32 ;;
    a <- mslice start e ;;
    payload <- mslice e end_ ;;
    emit (EvCopy (length - 32)) ;;;
    ret (HInt (mkInt ([6] ++ a ++ be_bytes 8 (lenN payload) ++ payload) false))
  else if (tag =? 6) && rp_sigchecks params then                (* account keys *)
    ensure (length =? 32) ;;;
    end_ <- uadd start length ;;
    ensure_fits end_ ;;;
    e <- uadd start 32 ;;
    a <- mslice start e ;;
    emit (EvFixed 32) ;;;
    ret (HInt (mkInt ([7] ++ a) false))
  else if (tag =? 7) && rp_inspection params then               (* module reference *)
    ensure (length =? 16) ;;;
    end_ <- uadd start length ;;
    ensure_fits end_ ;;;
    ab <- two_fields start 8 8 ;;
    emit (EvFixed 16) ;;;
    ret (HInt (mkInt ([8] ++ rev (fst ab) ++ rev (snd ab)) false))
  else if (tag =? 8) && rp_inspection params then               (* contract name *)
    ensure (length =? 16) ;;;
    end_ <- uadd start length ;;
    ensure_fits end_ ;;;
    ab <- two_fields start 8 8 ;;
    emit (EvFixed 16) ;;;
    ret (HInt (mkInt ([9] ++ rev (fst ab) ++ rev (snd ab)) false))
  else trap.

Definition upgrade (module_ref_start : N) : M1 hres :=
  module_ref_end <- uadd module_ref_start 32 ;;
  ensure_fits (module_ref_end) ;;;
  r <- mslice module_ref_start module_ref_end ;;
  emit (EvFixed 32) ;;;
  tick INVOKE_BASE_COST ;;;
  ret (HInt (mkInt ([2] ++ r) true)).

(** *** return value *)
Definition write_return_value (start length offset : N) : M1 (option N) :=
  h <- get_hs ;;
  tick (write_output_cost length) ;;;
  end_ <- uadd start length ;;
  ensure_fits (end_) ;;;
  bytes <- mslice start end_ ;;
  (* write_return_value_helper *)
  x <- get_x ;;
  let rv := x_rv x in
  ensure (offset <=? lenN rv) ;;;
  ensure (offset + length <? W64) ;;;                           (* checked_add *)
  let end1 := if h_limit h then N.min (offset + length) MAX_CONTRACT_STATE else offset + length in
  (if lenN rv <? end1 then
     tick (additional_output_size_cost (end1 - lenN rv)) ;;; emit (EvAlloc (end1 - lenN rv))
   else ret tt) ;;;
  let rv1 := if lenN rv <? end1 then resizeN rv end1 else rv in
  dst <- vslice rv1 offset end1 ;;
  let written := N.min (lenN dst) length in
  match storeN rv1 offset (firstnN written bytes) with
  | Some rv2 => x' <- get_x ;; set_x (with_rv x' rv2) ;;; emit (EvCopy written) ;;; ret (Some (u32 written))
  | None => fault
  end.

(** *** parameters *)
Definition get_parameter_size1 (param_num : N) : M1 (option N) :=
  x <- get_x ;;
  match nthN param_num (x_params x) with
  | Some p => ret (Some (u32 (lenN p)))
  | None => ret (Some U32MAX)
  end.

Definition get_parameter_section1 (param_num start length offset : N) : M1 (option N) :=
  x <- get_x ;;
  tick (copy_parameter_cost length) ;;;
  match nthN param_num (x_params x) with
  | Some p => read_section p start length offset
  | None => ret (Some U32MAX)
  end.

(** *** state_* wrappers *)
(** the tree of the instance state (shape only) and the expanded-node bookkeeping *)
Definition live_keys (es : list entry) : list (list N) :=
  flat_map (fun e => match e_val e with Some _ => [e_key e] | None => [] end) es.
Definition live_tree (s : istate) : option tr := tree_of (live_keys (is_entries s)).
Definition get_exp : M1 (list (list N)) := x <- get_x ;; ret (x_exp x).
Definition set_exp (e : list (list N)) : M1 unit := x <- get_x ;; set_x (with_exp x e).
(** `counter.count_key_traverse_part(n)` summed up: `tick_energy(TREE_TRAVERSAL_STEP_COST * n)` *)
(** ([EvFixed 0] is a marker without content: it lets the correspondence runner report how much of
    the consumed energy is tree-traversal energy) *)
Definition tick_tree (steps : N) : M1 unit := emit (EvFixed 0) ;;; tick (TREE_TRAVERSAL_STEP_COST * steps).

Definition key_arg (charge_first : bool) (cost : N) (key_start key_len : N) : M1 (list N) :=
  key_end <- uadd key_start key_len ;;
  (if charge_first then tick cost ;;; ensure_fits (key_end)
   else ensure_fits (key_end) ;;; tick cost) ;;;
  mslice key_start key_end.

Definition state_lookup_entry (key_start key_len : N) : M1 (option N) :=
  key <- key_arg true (lookup_entry_cost key_len) key_start key_len ;;
  s <- get_is ;;
  ex <- get_exp ;;
  set_exp (exp_descend ex key (live_tree s)) ;;;                  (* get_entry: make_owned on the way down *)
  match find_live key (is_entries s) 0 with
  | Some id => set_is (is_push_handle s id) ;;; ret (Some (handle (is_gen s) (lenN (is_emap s))))
  | None => ret (Some U64MAX)
  end.

Definition state_create_entry (key_start key_len : N) : M1 (option N) :=
  key <- key_arg true (create_entry_cost key_len) key_start key_len ;;
  s0 <- get_is ;;
  let s := is_set_changed s0 in
  set_is s ;;;
  ensure (lenN key <=? MAX_KEY_SIZE) ;;;
  if locked_key (is_locks s) key then ret (Some U64MAX)
  else
    emit (EvCopy (lenN key)) ;;;
    ex <- get_exp ;;
    match find_live key (is_entries s) 0 with
    | Some id =>                                                 (* existing entry: value reset, same id *)
        let s' := is_with_entries s (setnthN id (mkEntry key (Some []) true) (is_entries s)) in
        set_exp (exp_insert ex key (live_tree s) (live_tree s')) ;;;
        set_is (is_push_handle s' id) ;;; ret (Some (handle (is_gen s) (lenN (is_emap s))))
    | None =>
        let id := lenN (is_entries s) in
        let s' := is_with_entries s (is_entries s ++ [mkEntry key (Some []) true]) in
        set_exp (exp_insert ex key (live_tree s) (live_tree s')) ;;;
        set_is (is_push_handle s' id) ;;; ret (Some (handle (is_gen s) (lenN (is_emap s))))
    end.

Definition state_delete_entry (key_start key_len : N) : M1 (option N) :=
  key <- key_arg true (delete_entry_cost key_len) key_start key_len ;;
  s0 <- get_is ;;
  let s := is_set_changed s0 in
  set_is s ;;;
  if negb (any_live (is_entries s)) then ret (Some 1)
  else if locked_key (is_locks s) key then ret (Some 0)
  else
    ex <- get_exp ;;
    match find_live key (is_entries s) 0 with
       | Some id =>
           let s' := is_with_entries s (setnthN id (mkEntry key None true) (is_entries s)) in
           set_exp (exp_delete ex key true (live_tree s) (live_tree s')) ;;;
           set_is s' ;;;
           ret (Some 2)
       | None =>
           set_exp (exp_delete ex key false (live_tree s) (live_tree s)) ;;;
           ret (Some 1)
       end.

Definition state_delete_prefix (key_start key_len : N) : M1 (option N) :=
  key <- key_arg false (delete_prefix_find_cost key_len) key_start key_len ;;
  s0 <- get_is ;;
  let s := is_set_changed s0 in
  set_is s ;;;
  if negb (any_live (is_entries s)) then ret (Some 1)
  else if locked_prefix (is_locks s) key then ret (Some 0)
  else
    ex <- get_exp ;;
    match live_with_prefix key (is_entries s) 0 with
       | [] => set_exp (exp_descend ex key (live_tree s)) ;;; ret (Some 1)
       | _ :: _ =>
           (* the tree charges per invalidated node: (stem length + 1) steps each, BEFORE the node's
              entry is invalidated; the total is charged here before the entries change *)
           tick_tree (delete_prefix_steps (exp_descend ex key (live_tree s)) key (live_tree s)) ;;;
           let s' := is_with_entries s
                     (map (fun e => if is_prefix key (e_key e) then mkEntry (e_key e) None true else e)
                          (is_entries s)) in
           set_exp (exp_delete_prefix ex key (live_tree s) (live_tree s')) ;;;
           set_is s' ;;;
           ret (Some 2)
       end.

Definition state_iterator (prefix_start prefix_len : N) : M1 (option N) :=
  prefix <- key_arg false (new_iterator_cost prefix_len) prefix_start prefix_len ;;
  s <- get_is ;;
  ex <- get_exp ;;
  set_exp (exp_descend ex prefix (live_tree s)) ;;;               (* iter: make_owned on the way down *)
  match live_with_prefix prefix (is_entries s) 0 with
  | [] => ret (Some U64MAX)                                      (* OK_NONE *)
  | todo =>
      match lock_add prefix (is_locks s) with
      | None => ret (Some NEW_ERR)                               (* TooManyIterators *)
      | Some locks' =>
          emit (EvCopy (lenN prefix)) ;;;
          set_is (mkIS (is_gen s) (is_entries s) (is_emap s)
                       (is_iters s ++ [Some (mkIter prefix todo prefix false (exhausted_key todo))])
                       locks' (is_changed s)) ;;;
          ret (Some (handle (is_gen s) (lenN (is_iters s))))
      end
  end.

Definition handle_iter (s : istate) (h : N) : option (N * option iter) :=
  let '(gen, idx) := split_handle h in
  if gen =? is_gen s then
    match nthN idx (is_iters s) with Some oi => Some (idx, oi) | None => None end
  else None.

Definition state_iterator_next (it : N) : M1 (option N) :=
  tick ITERATOR_NEXT_COST ;;;
  s <- get_is ;;
  match handle_iter s it with
  | Some (idx, Some i) =>
      (* the walk to the next value charges per stem chunk / child step (HostTreeEnergy.dfs) *)
      ex <- get_exp ;;
      let exhausted := it_started i && (match it_todo i with [] => true | _ => false end)
                         && list_eqb (it_key i) (it_exh i) in
      let nc := next_cost (live_tree s) (it_root i) (it_started i) exhausted (it_key i) in
      tick_tree (fst nc) ;;;
      set_exp (addks (snd nc) ex) ;;;
      match it_todo i with
      | (k, id) :: rest =>
          let i' := mkIter (it_root i) rest k true (it_exh i) in
          set_is (mkIS (is_gen s) (is_entries s) (is_emap s ++ [id]) (setnthN idx (Some i') (is_iters s))
                       (is_locks s) (is_changed s)) ;;;
          ret (Some (handle (is_gen s) (lenN (is_emap s))))
      | [] =>
          let i' := mkIter (it_root i) [] (it_exh i) true (it_exh i) in
          set_is (mkIS (is_gen s) (is_entries s) (is_emap s) (setnthN idx (Some i') (is_iters s))
                       (is_locks s) (is_changed s)) ;;;
          ret (Some U64MAX)                                      (* OK_NONE *)
      end
  | _ => ret (Some NEW_ERR)
  end.

Definition iter_key (i : iter) : list N := if it_started i then it_key i else it_root i.

Definition state_iterator_delete (it : N) : M1 (option N) :=
  tick DELETE_ITERATOR_BASE_COST ;;;
  s <- get_is ;;
  match handle_iter s it with
  | Some (idx, Some i) =>
      tick (delete_iterator_cost (u32 (lenN (iter_key i)))) ;;;
      set_is (mkIS (is_gen s) (is_entries s) (is_emap s) (setnthN idx None (is_iters s))
                   (remove_one (it_root i) (is_locks s)) (is_changed s)) ;;;
      ret (Some 1)
  | Some (_, None) => ret (Some 0)
  | None => ret (Some U32MAX)
  end.

Definition state_iterator_key_size (it : N) : M1 (option N) :=
  tick ITERATOR_KEY_SIZE_COST ;;;
  s <- get_is ;;
  match handle_iter s it with
  | Some (_, Some i) =>
      ret (Some (u32 (lenN (iter_key i))))
  | _ => ret (Some U32MAX)
  end.

(** shared tail of iterator_key_read / entry_read: copy a section of [v] to memory *)
Definition read_into (v : list N) (start dlen offset : N) : M1 (option N) :=
  let offset' := N.min (lenN v) offset in
  let num_copied := N.min (lenN v - offset') dlen in
  (* offset + num_copied <= v.len(): bounded by the length of an existing vector *)
  src <- vslice v offset' (offset' + num_copied) ;;
  mstore start src ;;; emit (EvCopy num_copied) ;;; ret (Some (u32 num_copied)).

Definition state_iterator_key_read (it start length offset : N) : M1 (option N) :=
  tick (copy_from_host_cost length) ;;;
  dest_end <- uadd start length ;;
  ensure_fits (dest_end) ;;;
  _ <- mslice start dest_end ;;
  s <- get_is ;;
  match handle_iter s it with
  | Some (_, Some i) =>
      read_into (iter_key i) start length offset
  | _ => ret (Some U32MAX)
  end.

Definition live_value (s : istate) (h : N) : option (N * entry * list N) :=
  match handle_entry s h with
  | Some id => match nthN id (is_entries s) with
               | Some e => match e_val e with Some v => Some (id, e, v) | None => None end
               | None => None
               end
  | None => None
  end.

Definition state_entry_read (entry_index dest_start length offset : N) : M1 (option N) :=
  tick (read_entry_cost length) ;;;
  dest_end <- uadd dest_start length ;;
  ensure_fits (dest_end) ;;;
  _ <- mslice dest_start dest_end ;;
  s <- get_is ;;
  match live_value s entry_index with
  | Some (_, _, v) => read_into v dest_start length offset
  | None => ret (Some U32MAX)
  end.

(** `MutableTrie::get_mut`: a value that is not yet owned is copied; [charge] is the amount the
    allocation counter ticks for it. *)
Definition get_mut (id : N) (e : entry) (v : list N) (charge : N) : M1 unit :=
  if e_owned e then ret tt
  else
    tick charge ;;; emit (EvCopy (lenN v)) ;;;                  (* copy of the existing value *)
    s <- get_is ;;
    set_is (is_with_entries s (setnthN id (mkEntry (e_key e) (Some v) true) (is_entries s))).

Definition set_value (id : N) (key v : list N) : M1 unit :=
  s <- get_is ;;
  set_is (is_with_entries s (setnthN id (mkEntry key (Some v) true) (is_entries s))).

Definition state_entry_write (entry_index source_start length offset : N) : M1 (option N) :=
  tick (write_entry_cost length) ;;;
  source_end <- uadd source_start length ;;
  ensure_fits (source_end) ;;;
  src <- mslice source_start source_end ;;
  s0 <- get_is ;;
  set_is (is_set_changed s0) ;;;
  s <- get_is ;;
  match live_value s entry_index with
  | Some (id, e, v) =>
      get_mut id e v (additional_entry_size_cost (lenN v)) ;;;
      if offset <=? lenN v then
        ensure (offset + lenN src <? W64) ;;;                    (* checked_add(..).context(..)? *)
        let end_ := N.min MAX_ENTRY_SIZE (offset + lenN src) in
        (if lenN v <? end_ then
           tick (additional_entry_size_cost (end_ - lenN v)) ;;; emit (EvAlloc (end_ - lenN v))
         else ret tt) ;;;
        let v1 := if lenN v <? end_ then resizeN v end_ else v in
        if end_ <? offset then fault                             (* end - offset *)
        else
          let num := end_ - offset in
          bytes <- vslice src 0 num ;;                           (* &src[0..num_bytes_to_write] *)
          _ <- vslice v1 offset end_ ;;                          (* v[offset..end] *)
          match storeN v1 offset bytes with
          | Some v2 => set_value id (e_key e) v2 ;;; emit (EvCopy num) ;;; ret (Some (u32 num))
          | None => fault
          end
      else ret (Some 0)
  | None => ret (Some U32MAX)
  end.

Definition state_entry_size (entry_index : N) : M1 (option N) :=
  tick ENTRY_SIZE_COST ;;;
  s <- get_is ;;
  match live_value s entry_index with
  | Some (_, _, v) => ret (Some (u32 (lenN v)))
  | None => ret (Some U32MAX)
  end.

Definition state_entry_resize (entry_index new_size : N) : M1 (option N) :=
  tick RESIZE_ENTRY_BASE_COST ;;;
  s0 <- get_is ;;
  set_is (is_set_changed s0) ;;;
  s <- get_is ;;
  match handle_entry s entry_index with
  | None => ret (Some U32MAX)
  | Some id0 =>
      if MAX_ENTRY_SIZE <? new_size then ret (Some 0)
      else match live_value s entry_index with
           | Some (id, e, v) =>
               get_mut id e v (additional_entry_size_cost (N.min (lenN v) new_size)) ;;;
               (if lenN v <? new_size then
                  tick (additional_entry_size_cost (new_size - lenN v)) ;;; emit (EvAlloc (new_size - lenN v))
                else ret tt) ;;;
               set_value id (e_key e) (resizeN v new_size) ;;;
               ret (Some 1)
           | None => ret (Some U32MAX)
           end
  end.

(** *** entrypoint name *)
Definition get_receive_entrypoint_size : M1 (option N) :=
  x <- get_x ;; ret (Some (u32 (lenN (x_entrypoint x)))).
Definition get_receive_entrypoint (start : N) : M1 (option N) :=
  x <- get_x ;;
  let size := u32 (lenN (x_entrypoint x)) in
  end_ <- uadd start size ;;
  ensure_fits (end_) ;;;
  _ <- mslice start end_ ;;
  mstore start (x_entrypoint x) ;;; emit (EvFixed size) ;;; ret None.

(** *** cryptographic primitives: argument validation and charging; results are oracles *)
Definition verify_ed25519_signature (public_key_start signature_start message_start message_len : N)
  : M1 (option N) :=
  message_end <- uadd message_start message_len ;;
  ensure_fits (message_end) ;;;
  public_key_end <- uadd public_key_start 32 ;;
  ensure_fits (public_key_end) ;;;
  signature_end <- uadd signature_start 64 ;;
  ensure_fits (signature_end) ;;;
  tick (verify_ed25519_cost message_len) ;;;
  _ <- mslice signature_start signature_end ;;
  _ <- mslice message_start message_end ;;
  _ <- mslice public_key_start public_key_end ;;
  emit (EvCopy message_len) ;;;
  ret (Some 0).                                                  (* verification result: outside the model *)

Definition verify_ecdsa_secp256k1_signature (public_key_start signature_start message_start : N)
  : M1 (option N) :=
  message_end <- uadd message_start 32 ;;
  ensure_fits (message_end) ;;;
  public_key_end <- uadd public_key_start 33 ;;
  ensure_fits (public_key_end) ;;;
  signature_end <- uadd signature_start 64 ;;
  ensure_fits (signature_end) ;;;
  tick VERIFY_ECDSA_SECP256K1_COST ;;;
  _ <- mslice signature_start signature_end ;;
  _ <- mslice message_start message_end ;;
  _ <- mslice public_key_start public_key_end ;;
  emit (EvFixed 129) ;;;
  ret (Some 0).

Definition hash_generic (kind : N) (cost : N -> N) (data_start data_len output_start : N) : M1 (option N) :=
  data_end <- uadd data_start data_len ;;
  ensure_fits (data_end) ;;;
  output_end <- uadd output_start 32 ;;
  ensure_fits (output_end) ;;;
  tick (cost data_len) ;;;
  data <- mslice data_start data_end ;;
  emit (EvCopy data_len) ;;;
  x <- get_x ;;
  let d := match x_digests x with d :: _ => d | [] => [] end in
  set_x (with_hash x (tl (x_digests x)) ((kind, data) :: x_hashlog x)) ;;;
  _ <- mslice output_start output_end ;;
  mstore output_start (firstnN 32 (d ++ zerosN 32)) ;;; emit (EvFixed 32) ;;; ret None.

(** *** dispatch *)
Inductive v1fn : Type :=
| V1invoke | V1write_output | V1get_parameter_size | V1get_parameter_section | V1get_policy_section
| V1log_event | V1get_init_origin | V1get_receive_invoker | V1get_receive_self_address
| V1get_receive_self_balance | V1get_receive_sender | V1get_receive_owner
| V1get_receive_entrypoint_size | V1get_receive_entrypoint | V1get_slot_time
| V1state_lookup_entry | V1state_create_entry | V1state_delete_entry | V1state_delete_prefix
| V1state_iterate_prefix | V1state_iterator_next | V1state_iterator_delete | V1state_iterator_key_size
| V1state_iterator_key_read | V1state_entry_read | V1state_entry_write | V1state_entry_size
| V1state_entry_resize | V1verify_ed25519_signature | V1verify_ecdsa_secp256k1_signature
| V1hash_sha2_256 | V1hash_sha3_256 | V1hash_keccak_256 | V1upgrade.

Definition v1_receive_only (f : v1fn) : bool :=
  match f with
  | V1invoke | V1get_receive_invoker | V1get_receive_self_address | V1get_receive_self_balance
  | V1get_receive_sender | V1get_receive_owner | V1get_receive_entrypoint_size
  | V1get_receive_entrypoint | V1upgrade => true
  | _ => false
  end.

Definition sig1 (f : v1fn) : list N :=
  match f with
  | V1invoke | V1write_output | V1get_policy_section | V1verify_ecdsa_secp256k1_signature
  | V1hash_sha2_256 | V1hash_sha3_256 | V1hash_keccak_256 => [W32; W32; W32]
  | V1get_parameter_section | V1verify_ed25519_signature => [W32; W32; W32; W32]
  | V1log_event | V1state_lookup_entry | V1state_create_entry | V1state_delete_entry
  | V1state_delete_prefix | V1state_iterate_prefix => [W32; W32]
  | V1state_iterator_next | V1state_iterator_delete | V1state_iterator_key_size | V1state_entry_size => [W64]
  | V1state_iterator_key_read | V1state_entry_read | V1state_entry_write => [W64; W32; W32; W32]
  | V1state_entry_resize => [W64; W32]
  | V1get_receive_self_balance | V1get_receive_entrypoint_size | V1get_slot_time => []
  | _ => [W32]
  end.

Definition val (m : M1 (option N)) : M1 hres := v <- m ;; ret (HVal v).

Definition call_v1_raw (f : v1fn) (args : list N) : M1 hres :=
  match f, args with
  | V1invoke, [a; b; c] => invoke a b c
  | V1write_output, [a; b; c] => val (write_return_value a b c)
  | V1get_parameter_size, [a] => val (get_parameter_size1 a)
  | V1get_parameter_section, [a; b; c; d] => val (get_parameter_section1 a b c d)
  | V1get_policy_section, [a; b; c] => val (get_policy_section a b c)
  | V1log_event, [a; b] => val (log_event a b)
  | V1get_init_origin, [a] => val (get_init_origin a)
  | V1get_receive_invoker, [a] => val (get_receive_invoker a)
  | V1get_receive_self_address, [a] => val (get_receive_self_address a)
  | V1get_receive_self_balance, [] => val get_receive_self_balance
  | V1get_receive_sender, [a] => val (get_receive_sender a)
  | V1get_receive_owner, [a] => val (get_receive_owner a)
  | V1get_receive_entrypoint_size, [] => val get_receive_entrypoint_size
  | V1get_receive_entrypoint, [a] => val (get_receive_entrypoint a)
  | V1get_slot_time, [] => val get_slot_time
  | V1state_lookup_entry, [a; b] => val (state_lookup_entry a b)
  | V1state_create_entry, [a; b] => val (state_create_entry a b)
  | V1state_delete_entry, [a; b] => val (state_delete_entry a b)
  | V1state_delete_prefix, [a; b] => val (state_delete_prefix a b)
  | V1state_iterate_prefix, [a; b] => val (state_iterator a b)
  | V1state_iterator_next, [a] => val (state_iterator_next a)
  | V1state_iterator_delete, [a] => val (state_iterator_delete a)
  | V1state_iterator_key_size, [a] => val (state_iterator_key_size a)
  | V1state_iterator_key_read, [a; b; c; d] => val (state_iterator_key_read a b c d)
  | V1state_entry_read, [a; b; c; d] => val (state_entry_read a b c d)
  | V1state_entry_write, [a; b; c; d] => val (state_entry_write a b c d)
  | V1state_entry_size, [a] => val (state_entry_size a)
  | V1state_entry_resize, [a; b] => val (state_entry_resize a b)
  | V1verify_ed25519_signature, [a; b; c; d] => val (verify_ed25519_signature a b c d)
  | V1verify_ecdsa_secp256k1_signature, [a; b; c] => val (verify_ecdsa_secp256k1_signature a b c)
  | V1hash_sha2_256, [a; b; c] => val (hash_generic 0 hash_sha2_256_cost a b c)
  | V1hash_sha3_256, [a; b; c] => val (hash_generic 1 hash_sha3_256_cost a b c)
  | V1hash_keccak_256, [a; b; c] => val (hash_generic 2 hash_keccak_256_cost a b c)
  | V1upgrade, [a] => upgrade a
  | _, _ => trap
  end.

Definition call_v1 (f : v1fn) (args : list N) : M1 hres :=
  h <- get_hs ;;
  if h_init h && v1_receive_only f then trap
  else if negb (h_init h) && match f with V1get_init_origin => true | _ => false end then trap
  else call_v1_raw f args.

(** *** resuming after an interrupt (`resume_receive`) *)
Inductive response : Type :=
| RespOk (new_balance : N) (data : option (list N)) (state_updated : bool)
| RespReject (code : N) (data : list N) (state_updated : bool)       (* code as u32 bit pattern *)
| RespFail (n : N) (state_updated : bool).                           (* 1..11 *)

Definition resp_updated (r : response) : bool :=
  match r with RespOk _ _ u => u | RespReject _ _ u => u | RespFail _ u => u end.

Definition MAX_PARAMS : N := 8388607.                                (* 0b0111_1111_1111_1111_1111_1111 *)

(** `InstanceState::migrate` *)
Definition migrate (updated : bool) (s : istate) : istate :=
  if updated then mkIS (is_gen s + 1) (is_entries s) [] [] (is_locks s) false
  else mkIS (is_gen s) (is_entries s) (is_emap s) (is_iters s) (is_locks s) false.

(** `ResumeError::TooManyInterrupts` is turned into a trap that consumes all energy *)
Definition too_many_if (b : bool) : M1 unit :=
  fun s => if b then (mkSt 0 (mem s) (evs s) (hs s), Trap) else (s, Ok tt).

(** returns the value pushed as the result of the interrupted host call *)
Definition resume (r : response) : M1 N :=
  x0 <- get_x ;;
  set_x (with_is x0 (migrate (resp_updated r) (x_is x0))) ;;;
  x <- get_x ;;
  let len := lenN (x_params x) in
  match r with
  | RespOk new_balance data updated =>
      h <- get_hs ;;
      set_hs (with_balance h new_balance) ;;;
      let tag := if updated then 8388608 else 0 in                   (* 1 << 23 *)
      match data with
      | Some d =>
          too_many_if (MAX_PARAMS <? len) ;;;
          x1 <- get_x ;;
          set_x (with_params x1 (x_params x1 ++ [d])) ;;;
          ret ((len + tag) * 1099511627776)                          (* (len | tag) << 40 *)
      | None => ret (tag * 1099511627776)
      end
  | RespReject code data _ =>
      too_many_if (MAX_PARAMS <? len) ;;;
      set_x (with_params x (x_params x ++ [data])) ;;;
      ret (len * 1099511627776 + code)                               (* (len << 40) | code as u32 *)
  | RespFail n _ => ret (n * W32)
  end.
