(** * SchemaJson — executable model of schema-directed JSON <-> binary conversion.

    Transcribes, from smart-contracts/contracts-common/concordium-contracts-common/src:
      - schema.rs      [Type], [Fields], [SizeLength]
      - schema_json.rs [write_bytes_from_json_schema_type], [write_bytes_from_json_schema_fields],
                       [write_bytes_for_length_of_size], [serial_biguint], [serial_bigint]   (JSON -> bytes)
                       [Type::to_json], [Fields::to_json], [item_list_to_json], [deserial_string],
                       [deserial_biguint], [deserial_bigint]                                   (bytes -> JSON)

    Definitions only (no proofs) so that the model keeps running when a proof breaks.
    Bytes are [N] below 256 in [list N]; strings are their UTF-8 bytes ([list N]); JSON numbers are
    integers [Z] (serde_json without arbitrary precision: an integer literal outside
    [-2^63, 2^64) and every non-integer literal is a float, modelled by [JFloat], which every
    integer-typed schema rejects).

    The opaque text forms (base58check account addresses, RFC3339 timestamps, duration strings)
    are abstract leaf codecs: a record [leaves] of parse/show functions.  The theorems quantify
    over all of them; [stub_leaves] is a concrete instance used to run the model (the harness
    translates the implementation's leaf strings through the implementation's own parser). *)
From Coq Require Import String Ascii.
From Coq Require Import NArith ZArith Bool List.
Import ListNotations.
Local Open Scope N_scope.

Definition str := list N.

(* ------------------------------------------------------------------ string constants *)
Fixpoint str_of (s : string) : str :=
  match s with
  | EmptyString => []
  | String a r => N_of_ascii a :: str_of r
  end.
Definition s_index : str := Eval vm_compute in str_of "index".
Definition s_subindex : str := Eval vm_compute in str_of "subindex".
Definition s_contract : str := Eval vm_compute in str_of "contract".
Definition s_func : str := Eval vm_compute in str_of "func".
Definition s_init_ : str := Eval vm_compute in str_of "init_".

Fixpoint str_eqb (a b : str) : bool :=
  match a, b with
  | [], [] => true
  | x :: a', y :: b' => (x =? y) && str_eqb a' b'
  | _, _ => false
  end.

(* ------------------------------------------------------------------ schema AST *)
Inductive size_len := SL8 | SL16 | SL32 | SL64.

(** [schema::Type] and [schema::Fields]; the vectors / the BTreeMap inside are first-order lists
    of the mutual block (TaggedEnum variants are in increasing tag order, as BTreeMap iterates). *)
Inductive ty :=
| TUnit | TBool
| TU8 | TU16 | TU32 | TU64 | TU128
| TI8 | TI16 | TI32 | TI64 | TI128
| TAmount | TAccountAddress | TContractAddress | TTimestamp | TDuration
| TPair (a b : ty)
| TList (s : size_len) (t : ty)
| TSet (s : size_len) (t : ty)
| TMap (s : size_len) (k v : ty)
| TArray (n : N) (t : ty)
| TStruct (f : fields)
| TEnum (vs : variants)
| TString (s : size_len)
| TContractName (s : size_len)
| TReceiveName (s : size_len)
| TULeb128 (c : N)
| TILeb128 (c : N)
| TByteList (s : size_len)
| TByteArray (n : N)
| TTaggedEnum (vs : tvariants)
with fields :=
| FNamed (l : nfields)
| FUnnamed (l : tys)
| FNone
with nfields := NFnil | NFcons (name : str) (t : ty) (r : nfields)
with tys := TSnil | TScons (t : ty) (r : tys)
with variants := Vnil | Vcons (name : str) (f : fields) (r : variants)
with tvariants := TVnil | TVcons (tag : N) (name : str) (f : fields) (r : tvariants).

Fixpoint nfields_len (l : nfields) : nat := match l with NFnil => O | NFcons _ _ r => S (nfields_len r) end.
Fixpoint tys_len (l : tys) : nat := match l with TSnil => O | TScons _ r => S (tys_len r) end.
Fixpoint variants_len (l : variants) : nat := match l with Vnil => O | Vcons _ _ r => S (variants_len r) end.

(* ------------------------------------------------------------------ JSON AST *)
Inductive json :=
| JNull
| JBool (b : bool)
| JNum (z : Z)
| JFloat
| JStr (s : str)
| JArr (l : list json)
| JObj (l : list (str * json)).

Fixpoint obj_get (k : str) (l : list (str * json)) : option json :=
  match l with
  | [] => None
  | (k', v) :: r => if str_eqb k' k then Some v else obj_get k r
  end.
(** [serde_json::Map::insert]: replace the value of an existing key, else add the key. *)
Fixpoint obj_insert (k : str) (v : json) (l : list (str * json)) : list (str * json) :=
  match l with
  | [] => [(k, v)]
  | (k', v') :: r => if str_eqb k' k then (k', v) :: r else (k', v') :: obj_insert k v r
  end.

(* ------------------------------------------------------------------ leaf codecs *)
Record leaves := {
  acc_parse : str -> option (list N);   (* AccountAddress::from_str : 32 bytes *)
  acc_show : list N -> str;             (* Display for AccountAddress *)
  ts_parse : str -> option N;           (* Timestamp::from_str : milliseconds, u64 *)
  ts_show : N -> str;
  dur_parse : str -> option N;          (* Duration::from_str : milliseconds, u64 *)
  dur_show : N -> str
}.

(* ------------------------------------------------------------------ fixed-width integers *)
(** little-endian, [k] bytes *)
Fixpoint le (k : nat) (n : N) : list N :=
  match k with
  | O => []
  | S k' => n mod 256 :: le k' (n / 256)
  end.
Fixpoint le_dec (k : nat) (bs : list N) : option (N * list N) :=
  match k with
  | O => Some (0, bs)
  | S k' => match bs with
            | [] => None
            | b :: r => match le_dec k' r with
                        | Some (n, rest) => Some (b + 256 * n, rest)
                        | None => None
                        end
            end
  end.
(** two's complement of [k] bytes *)
Definition le_signed (k : nat) (z : Z) : list N :=
  le k (Z.to_N (z mod 2 ^ (8 * Z.of_nat k))%Z).
Definition le_signed_dec (k : nat) (bs : list N) : option (Z * list N) :=
  match le_dec k bs with
  | Some (n, rest) =>
      let z := Z.of_N n in
      Some ((if z <? 2 ^ (8 * Z.of_nat k - 1) then z else z - 2 ^ (8 * Z.of_nat k))%Z, rest)
  | None => None
  end.

Definition sl_bytes (s : size_len) : nat :=
  match s with SL8 => 1 | SL16 => 2 | SL32 => 4 | SL64 => 8 end%nat.
(** [write_bytes_for_length_of_size]: [try_into] fails when the length does not fit. *)
Definition enc_len (s : size_len) (len : nat) : option (list N) :=
  let n := N.of_nat len in
  if n <? 2 ^ (8 * N.of_nat (sl_bytes s)) then Some (le (sl_bytes s) n) else None.
(** [deserial_length] (64-bit usize: no failure besides running out of input). *)
Definition dec_len (s : size_len) (bs : list N) : option (N * list N) := le_dec (sl_bytes s) bs.

(* ------------------------------------------------------------------ decimal text *)
Definition is_digit (b : N) : bool := (48 <=? b) && (b <=? 57).
Fixpoint parse_digits (s : str) (acc : N) : option N :=
  match s with
  | [] => Some acc
  | b :: r => if is_digit b then parse_digits r (acc * 10 + (b - 48)) else None
  end.
(** Rust [<uN as FromStr>]: optional '+', at least one digit, overflow is an error. *)
Definition parse_unsigned (bound : N) (s : str) : option N :=
  let d := match s with b :: r => if b =? 43 then r else s | [] => s end in
  match d with
  | [] => None
  | _ => match parse_digits d 0 with
         | Some n => if n <? bound then Some n else None
         | None => None
         end
  end.
(** Rust [<iN as FromStr>]: optional '+' or '-', at least one digit, range checked. *)
Definition parse_signed (bits : Z) (s : str) : option Z :=
  let '(neg, d) := match s with
                   | b :: r => if b =? 43 then (false, r) else if b =? 45 then (true, r) else (false, s)
                   | [] => (false, s)
                   end in
  match d with
  | [] => None
  | _ => match parse_digits d 0 with
         | Some n => let z := (if neg then - Z.of_N n else Z.of_N n)%Z in
                     if ((- 2 ^ (bits - 1) <=? z) && (z <? 2 ^ (bits - 1)))%Z then Some z else None
         | None => None
         end
  end.
(** num-bigint 0.4 [BigUint::from_str]: one optional '+', then a digit, then digits or '_'. *)
Fixpoint parse_digits_us (s : str) (acc : N) : option N :=
  match s with
  | [] => Some acc
  | b :: r => if b =? 95 then parse_digits_us r acc
              else if is_digit b then parse_digits_us r (acc * 10 + (b - 48)) else None
  end.
Definition parse_biguint (s : str) : option N :=
  let d := match s with b :: r => if b =? 43 then r else s | [] => s end in
  match d with
  | [] => None
  | b :: _ => if b =? 95 then None else parse_digits_us d 0
  end.
(** [BigInt::from_str]: optional '-' (not followed by '+'), then as [BigUint]. *)
Definition parse_bigint (s : str) : option Z :=
  let pos := match parse_biguint s with Some n => Some (Z.of_N n) | None => None end in
  match s with
  | b :: r =>
      if b =? 45 then
        if match r with c :: _ => c =? 43 | [] => false end then None
        else match parse_biguint r with Some n => Some (- Z.of_N n)%Z | None => None end
      else pos
  | [] => pos
  end.

(** [to_string] of an unsigned integer: no sign, no leading zeros. *)
Fixpoint show_digits (fuel : nat) (n : N) (acc : str) : str :=
  match fuel with
  | O => acc
  | S f => let acc' := (48 + n mod 10) :: acc in
           if n / 10 =? 0 then acc' else show_digits f (n / 10) acc'
  end.
Definition show_N (n : N) : str := show_digits (S (N.size_nat n)) n [].
Definition show_Z (z : Z) : str :=
  match z with
  | Zneg p => 45 :: show_N (Npos p)
  | _ => show_N (Z.to_N z)
  end.

(* ------------------------------------------------------------------ hex text *)
Definition hex_digit (d : N) : N := if d <? 10 then 48 + d else 87 + d.   (* lowercase *)
Fixpoint hex_encode (bs : list N) : str :=
  match bs with
  | [] => []
  | b :: r => hex_digit (b / 16) :: hex_digit (b mod 16) :: hex_encode r
  end.
Definition hex_val (c : N) : option N :=
  if (48 <=? c) && (c <=? 57) then Some (c - 48)
  else if (97 <=? c) && (c <=? 102) then Some (c - 87)
  else if (65 <=? c) && (c <=? 70) then Some (c - 55)
  else None.
(** [hex::decode]: even length, both cases accepted. *)
Fixpoint hex_decode (s : str) : option (list N) :=
  match s with
  | [] => Some []
  | [_] => None
  | a :: b :: r => match hex_val a, hex_val b with
                   | Some x, Some y => match hex_decode r with
                                       | Some bs => Some (16 * x + y :: bs)
                                       | None => None
                                       end
                   | _, _ => None
                   end
  end.

(* ------------------------------------------------------------------ UTF-8 validity *)
Definition cont (b : N) : bool := (128 <=? b) && (b <=? 191).
Definition inr (lo hi b : N) : bool := (lo <=? b) && (b <=? hi).
(** [String::from_utf8] accepts exactly the well-formed sequences of Unicode Table 3-7. *)
Fixpoint utf8_valid (bs : list N) : bool :=
  match bs with
  | [] => true
  | b0 :: r =>
      if b0 <? 128 then utf8_valid r
      else if inr 194 223 b0 then
        match r with b1 :: r1 => cont b1 && utf8_valid r1 | _ => false end
      else if inr 224 239 b0 then
        match r with
        | b1 :: b2 :: r2 =>
            (if b0 =? 224 then inr 160 191 b1 else if b0 =? 237 then inr 128 159 b1 else cont b1)
            && cont b2 && utf8_valid r2
        | _ => false
        end
      else if inr 240 244 b0 then
        match r with
        | b1 :: b2 :: b3 :: r3 =>
            (if b0 =? 240 then inr 144 191 b1 else if b0 =? 244 then inr 128 143 b1 else cont b1)
            && cont b2 && cont b3 && utf8_valid r3
        | _ => false
        end
      else false
  end.

(* ------------------------------------------------------------------ contract / receive names *)
(** [is_ascii_alphanumeric || is_ascii_punctuation] = the graphic ASCII characters '!'..'~'. *)
Definition name_char (b : N) : bool := (33 <=? b) && (b <=? 126).
Definition has_dot (s : str) : bool := existsb (fun b => b =? 46) s.
Fixpoint starts_with (p s : str) : bool :=
  match p, s with
  | [], _ => true
  | x :: p', y :: s' => (x =? y) && starts_with p' s'
  | _, [] => false
  end.
(** [ContractName::is_valid_contract_name] *)
Definition valid_contract_name (s : str) : bool :=
  starts_with s_init_ s && (N.of_nat (length s) <=? 100) && negb (has_dot s) && forallb name_char s.
(** [ReceiveName::is_valid_receive_name] *)
Definition valid_receive_name (s : str) : bool :=
  has_dot s && (N.of_nat (length s) <=? 100) && forallb name_char s.
(** [splitn(2, '.')] *)
Fixpoint split_dot (s : str) : str * str :=
  match s with
  | [] => ([], [])
  | b :: r => if b =? 46 then ([], r) else let '(a, c) := split_dot r in (b :: a, c)
  end.

(* ------------------------------------------------------------------ LEB128 with a byte-count constraint *)
(** [serial_biguint]: at most [c] groups of 7 bits, least significant first; fails when the value
    needs more than [c] bytes (in particular always when [c = 0]). *)
Fixpoint uleb_groups (fuel : nat) (n : N) : list N :=
  match fuel with
  | O => []
  | S f => let b := n mod 128 in
           let n' := n / 128 in
           if n' =? 0 then [b] else (b + 128) :: uleb_groups f n'
  end.
Definition uleb_enc (c : N) (n : N) : option (list N) :=
  let bs := uleb_groups (S (N.size_nat n)) n in
  if N.of_nat (length bs) <=? c then Some bs else None.
(** [deserial_biguint]: reads at most [c] bytes; padding (non-minimal encodings) is accepted. *)
Fixpoint uleb_dec (bs : list N) (c : N) (shift : N) (acc : N) : option (N * list N) :=
  if c =? 0 then None
  else match bs with
       | [] => None
       | b :: r => let acc' := acc + (b mod 128) * 2 ^ shift in
                   if b <? 128 then Some (acc', r) else uleb_dec r (N.pred c) (shift + 7) acc'
       end.

(** [serial_bigint]: [value >>= 7] is the arithmetic shift (floor division). *)
Fixpoint sleb_groups (fuel : nat) (z : Z) : list N :=
  match fuel with
  | O => []
  | S f => let b := Z.to_N (z mod 128)%Z in
           let z' := (z / 128)%Z in
           if ((z' =? 0)%Z && (b <? 64)) || ((z' =? -1)%Z && (64 <=? b)) then [b]
           else (b + 128) :: sleb_groups f z'
  end.
Definition sleb_enc (c : N) (z : Z) : option (list N) :=
  let bs := sleb_groups (S (N.size_nat (Z.abs_N z))) z in
  if N.of_nat (length bs) <=? c then Some bs else None.
(** [deserial_bigint] *)
Fixpoint sleb_dec (bs : list N) (c : N) (shift : N) (acc : Z) : option (Z * list N) :=
  if c =? 0 then None
  else match bs with
       | [] => None
       | b :: r => let acc' := (acc + Z.of_N (b mod 128) * 2 ^ Z.of_N shift)%Z in
                   if b <? 128
                   then Some (if 64 <=? b mod 128 then (acc' - 2 ^ Z.of_N (shift + 7))%Z else acc', r)
                   else sleb_dec r (N.pred c) (shift + 7) acc'
       end.

(* ------------------------------------------------------------------ byte-string helpers *)
(** read exactly [n] bytes (lazy in [n]: a hostile length fails at the end of the input) *)
Fixpoint take_n (bs : list N) (n : N) : option (list N * list N) :=
  if n =? 0 then Some ([], bs)
  else match bs with
       | [] => None
       | b :: r => match take_n r (N.pred n) with
                   | Some (a, rest) => Some (b :: a, rest)
                   | None => None
                   end
       end.

(** [n]-fold iteration of a partial step with early exit; binary recursion on [n], so a hostile
    count costs log n before the first failing step (and, like the implementation, as many steps
    as it declares when every step succeeds without consuming input). *)
Fixpoint iter_pos_opt {A : Type} (p : positive) (f : A -> option A) (a : A) : option A :=
  match p with
  | xH => f a
  | xO p' => match iter_pos_opt p' f a with
             | Some a' => iter_pos_opt p' f a'
             | None => None
             end
  | xI p' => match f a with
             | Some a1 => match iter_pos_opt p' f a1 with
                          | Some a2 => iter_pos_opt p' f a2
                          | None => None
                          end
             | None => None
             end
  end.
Definition iter_N_opt {A : Type} (n : N) (f : A -> option A) (a : A) : option A :=
  match n with N0 => Some a | Npos p => iter_pos_opt p f a end.

Definition step_item {A : Type} (item : list N -> option (A * list N)) (st : list A * list N)
  : option (list A * list N) :=
  let '(acc, bs) := st in
  match item bs with
  | Some (v, bs') => Some (v :: acc, bs')
  | None => None
  end.
(** [item_list_to_json] after the length / the [Array] loop: [n] items in sequence *)
Definition dec_items {A : Type} (item : list N -> option (A * list N)) (n : N) (bs : list N)
  : option (list A * list N) :=
  match iter_N_opt n (step_item item) ([], bs) with
  | Some (acc, r) => Some (rev_append acc [], r)   (* linear-time reversal *)
  | None => None
  end.

(** the JSON -> bytes direction over the elements of an array *)
Fixpoint from_list (f : json -> option (list N)) (vs : list json) : option (list N) :=
  match vs with
  | [] => Some []
  | v :: r => match f v with
              | Some a => match from_list f r with
                          | Some b => Some (a ++ b)
                          | None => None
                          end
              | None => None
              end
  end.

Definition is_u64 (z : Z) : bool := ((0 <=? z) && (z <? 2 ^ 64))%Z.
Definition is_i64 (z : Z) : bool := ((- 2 ^ 63 <=? z) && (z <? 2 ^ 63))%Z.
(** [as_u64] then [try_into::<uK>] *)
Definition from_unum (k : nat) (j : json) : option (list N) :=
  match j with
  | JNum z => if is_u64 z && (z <? 2 ^ (8 * Z.of_nat k))%Z then Some (le k (Z.to_N z)) else None
  | _ => None
  end.
(** [as_i64] then [try_into::<iK>] *)
Definition from_snum (k : nat) (j : json) : option (list N) :=
  match j with
  | JNum z => if is_i64 z && (- 2 ^ (8 * Z.of_nat k - 1) <=? z)%Z && (z <? 2 ^ (8 * Z.of_nat k - 1))%Z
              then Some (le_signed k z) else None
  | _ => None
  end.
Definition to_unum (k : nat) (bs : list N) : option (json * list N) :=
  match le_dec k bs with Some (n, r) => Some (JNum (Z.of_N n), r) | None => None end.
Definition to_snum (k : nat) (bs : list N) : option (json * list N) :=
  match le_signed_dec k bs with Some (z, r) => Some (JNum z, r) | None => None end.

Definition with_len (s : size_len) (payload : list N) : option (list N) :=
  match enc_len s (length payload) with
  | Some l => Some (l ++ payload)
  | None => None
  end.

(** [deserial_string]: length, that many bytes, UTF-8 check *)
Definition dec_string (s : size_len) (bs : list N) : option (str * list N) :=
  match dec_len s bs with
  | Some (n, r) => match take_n r n with
                   | Some (b, rest) => if utf8_valid b then Some (b, rest) else None
                   | None => None
                   end
  | None => None
  end.

Section Model.
Variable L : leaves.

(* ================================================================== JSON -> bytes *)
Fixpoint from_json (t : ty) (j : json) {struct t} : option (list N) :=
  match t with
  | TUnit => Some []
  | TBool => match j with JBool b => Some [if b then 1 else 0] | _ => None end
  | TU8 => from_unum 1 j
  | TU16 => from_unum 2 j
  | TU32 => from_unum 4 j
  | TU64 => from_unum 8 j
  | TI8 => from_snum 1 j
  | TI16 => from_snum 2 j
  | TI32 => from_snum 4 j
  | TI64 => from_snum 8 j
  | TU128 => match j with
             | JStr s => match parse_unsigned (2 ^ 128) s with Some n => Some (le 16 n) | None => None end
             | _ => None
             end
  | TI128 => match j with
             | JStr s => match parse_signed 128 s with Some z => Some (le_signed 16 z) | None => None end
             | _ => None
             end
  | TAmount => match j with
               | JStr s => match parse_unsigned (2 ^ 64) s with Some n => Some (le 8 n) | None => None end
               | _ => None
               end
  | TAccountAddress => match j with
                       | JStr s => match acc_parse L s with
                                   | Some a => if N.of_nat (length a) =? 32 then Some a else None
                                   | None => None
                                   end
                       | _ => None
                       end
  | TContractAddress =>
      match j with
      | JObj fs =>
          if (length fs <=? 2)%nat then
            match obj_get s_index fs with
            | Some (JNum i) =>
                if is_u64 i then
                  let sub := match obj_get s_subindex fs with
                             | Some (JNum z) => if is_u64 z then z else 0%Z
                             | _ => 0%Z
                             end in
                  Some (le 8 (Z.to_N i) ++ le 8 (Z.to_N sub))
                else None
            | _ => None
            end
          else None
      | _ => None
      end
  | TTimestamp => match j with
                  | JStr s => match ts_parse L s with
                              | Some m => if m <? 2 ^ 64 then Some (le 8 m) else None
                              | None => None
                              end
                  | _ => None
                  end
  | TDuration => match j with
                 | JStr s => match dur_parse L s with
                             | Some m => if m <? 2 ^ 64 then Some (le 8 m) else None
                             | None => None
                             end
                 | _ => None
                 end
  | TPair a b => match j with
                 | JArr [x; y] => match from_json a x, from_json b y with
                                  | Some p, Some q => Some (p ++ q)
                                  | _, _ => None
                                  end
                 | _ => None
                 end
  | TList s e | TSet s e =>
      match j with
      | JArr vs => match enc_len s (length vs), from_list (from_json e) vs with
                   | Some l, Some p => Some (l ++ p)
                   | _, _ => None
                   end
      | _ => None
      end
  | TMap s k v =>
      match j with
      | JArr es =>
          match enc_len s (length es),
                from_list (fun e => match e with
                                    | JArr [x; y] => match from_json k x, from_json v y with
                                                     | Some p, Some q => Some (p ++ q)
                                                     | _, _ => None
                                                     end
                                    | _ => None
                                    end) es with
          | Some l, Some p => Some (l ++ p)
          | _, _ => None
          end
      | _ => None
      end
  | TArray n e =>
      match j with
      | JArr vs => if N.of_nat (length vs) mod 2 ^ 32 =? n   (* [(values.len() as u32) == *len] *)
                   then from_list (from_json e) vs else None
      | _ => None
      end
  | TStruct f => from_fields f j
  | TEnum vs =>
      match j with
      | JObj [(name, fv)] =>
          match from_variants vs name fv 0 with
          | Some (i, p) =>
              if (N.of_nat (variants_len vs) <=? 256) then Some (le 1 i ++ p)
              else if (N.of_nat (variants_len vs) <=? 65536) then Some (le 2 i ++ p)
              else None
          | None => None
          end
      | _ => None
      end
  | TTaggedEnum vs =>
      match j with
      | JObj [(name, fv)] => from_tvariants vs name fv
      | _ => None
      end
  | TString s => match j with JStr x => with_len s x | _ => None end
  | TContractName s =>
      match j with
      | JObj [(k, JStr name)] =>
          if str_eqb k s_contract then
            let full := s_init_ ++ name in
            if valid_contract_name full then with_len s full else None
          else None
      | _ => None
      end
  | TReceiveName s =>
      match j with
      | JObj fs =>
          match obj_get s_contract fs, obj_get s_func fs with
          | Some (JStr c), Some (JStr f) =>
              if (length fs =? 2)%nat then
                let full := c ++ 46 :: f in
                if negb (has_dot c) && valid_receive_name full then with_len s full else None
              else None
          | _, _ => None
          end
      | _ => None
      end
  | TULeb128 c => match j with
                  | JStr s => match parse_biguint s with Some n => uleb_enc c n | None => None end
                  | _ => None
                  end
  | TILeb128 c => match j with
                  | JStr s => match parse_bigint s with Some z => sleb_enc c z | None => None end
                  | _ => None
                  end
  | TByteList s => match j with
                   | JStr x => match hex_decode x with Some b => with_len s b | None => None end
                   | _ => None
                   end
  | TByteArray n => match j with
                    | JStr x => match hex_decode x with
                                | Some b => if N.of_nat (length b) mod 2 ^ 32 =? n then Some b else None
                                | None => None
                                end
                    | _ => None
                    end
  end
with from_fields (f : fields) (j : json) {struct f} : option (list N) :=
  match f with
  | FNamed l => match j with
                | JObj m => if (length m <=? nfields_len l)%nat then from_nfields l m else None
                | _ => None
                end
  | FUnnamed l => match j with
                  | JArr vs => if (tys_len l =? length vs)%nat then from_tys l vs else None
                  | _ => None
                  end
  | FNone => Some []
  end
with from_nfields (l : nfields) (m : list (str * json)) {struct l} : option (list N) :=
  match l with
  | NFnil => Some []
  | NFcons name t r => match obj_get name m with
                       | Some v => match from_json t v, from_nfields r m with
                                   | Some p, Some q => Some (p ++ q)
                                   | _, _ => None
                                   end
                       | None => None
                       end
  end
with from_tys (l : tys) (vs : list json) {struct l} : option (list N) :=
  match l, vs with
  | TSnil, _ => Some []
  | TScons t r, v :: vs' => match from_json t v, from_tys r vs' with
                            | Some p, Some q => Some (p ++ q)
                            | _, _ => None
                            end
  | TScons _ _, [] => None
  end
with from_variants (vs : variants) (name : str) (fv : json) (i : N) {struct vs} : option (N * list N) :=
  match vs with
  | Vnil => None
  | Vcons n f r => if str_eqb n name
                   then match from_fields f fv with Some p => Some (i, p) | None => None end
                   else from_variants r name fv (i + 1)
  end
with from_tvariants (vs : tvariants) (name : str) (fv : json) {struct vs} : option (list N) :=
  match vs with
  | TVnil => None
  | TVcons tag n f r => if str_eqb n name
                        then match from_fields f fv with Some p => Some (tag :: p) | None => None end
                        else from_tvariants r name fv
  end.

(* ================================================================== bytes -> JSON *)
Definition pair_item (fk fv : list N -> option (json * list N)) (bs : list N) : option (json * list N) :=
  match fk bs with
  | Some (x, r) => match fv r with
                   | Some (y, r') => Some (JArr [x; y], r')
                   | None => None
                   end
  | None => None
  end.

Fixpoint to_json (t : ty) (bs : list N) {struct t} : option (json * list N) :=
  match t with
  | TUnit => Some (JNull, bs)
  | TBool => match bs with
             | 0 :: r => Some (JBool false, r)
             | 1 :: r => Some (JBool true, r)
             | _ => None
             end
  | TU8 => to_unum 1 bs
  | TU16 => to_unum 2 bs
  | TU32 => to_unum 4 bs
  | TU64 => to_unum 8 bs
  | TI8 => to_snum 1 bs
  | TI16 => to_snum 2 bs
  | TI32 => to_snum 4 bs
  | TI64 => to_snum 8 bs
  | TU128 => match le_dec 16 bs with Some (n, r) => Some (JStr (show_N n), r) | None => None end
  | TI128 => match le_signed_dec 16 bs with Some (z, r) => Some (JStr (show_Z z), r) | None => None end
  | TAmount => match le_dec 8 bs with Some (n, r) => Some (JStr (show_N n), r) | None => None end
  | TAccountAddress => match take_n bs 32 with
                       | Some (a, r) => Some (JStr (acc_show L a), r)
                       | None => None
                       end
  | TContractAddress =>
      match le_dec 8 bs with
      | Some (i, r) => match le_dec 8 r with
                       | Some (s, r') => Some (JObj [(s_index, JNum (Z.of_N i)); (s_subindex, JNum (Z.of_N s))], r')
                       | None => None
                       end
      | None => None
      end
  | TTimestamp => match le_dec 8 bs with Some (m, r) => Some (JStr (ts_show L m), r) | None => None end
  | TDuration => match le_dec 8 bs with Some (m, r) => Some (JStr (dur_show L m), r) | None => None end
  | TPair a b => pair_item (to_json a) (to_json b) bs
  | TList s e | TSet s e =>
      match dec_len s bs with
      | Some (n, r) => match dec_items (to_json e) n r with
                       | Some (vs, r') => Some (JArr vs, r')
                       | None => None
                       end
      | None => None
      end
  | TMap s k v =>
      match dec_len s bs with
      | Some (n, r) => match dec_items (pair_item (to_json k) (to_json v)) n r with
                       | Some (vs, r') => Some (JArr vs, r')
                       | None => None
                       end
      | None => None
      end
  | TArray n e => match dec_items (to_json e) n bs with
                  | Some (vs, r') => Some (JArr vs, r')
                  | None => None
                  end
  | TStruct f => to_fields f bs
  | TEnum vs =>
      match (if (N.of_nat (variants_len vs) <=? 256) then le_dec 1 bs else le_dec 2 bs) with
      | Some (i, r) => to_variants vs i r
      | None => None
      end
  | TTaggedEnum vs => match bs with
                      | tag :: r => to_tvariants vs tag r
                      | [] => None
                      end
  | TString s => match dec_string s bs with Some (x, r) => Some (JStr x, r) | None => None end
  | TContractName s =>
      match dec_string s bs with
      | Some (x, r) => if valid_contract_name x
                       then Some (JObj [(s_contract, JStr (skipn 5 x))], r) else None
      | None => None
      end
  | TReceiveName s =>
      match dec_string s bs with
      | Some (x, r) => if valid_receive_name x
                       then let '(c, f) := split_dot x in
                            Some (JObj [(s_contract, JStr c); (s_func, JStr f)], r)
                       else None
      | None => None
      end
  | TULeb128 c => match uleb_dec bs c 0 0 with Some (n, r) => Some (JStr (show_N n), r) | None => None end
  | TILeb128 c => match sleb_dec bs c 0 0 with Some (z, r) => Some (JStr (show_Z z), r) | None => None end
  | TByteList s => match dec_len s bs with
                   | Some (n, r) => match take_n r n with
                                    | Some (b, r') => Some (JStr (hex_encode b), r')
                                    | None => None
                                    end
                   | None => None
                   end
  | TByteArray n => match take_n bs n with
                    | Some (b, r') => Some (JStr (hex_encode b), r')
                    | None => None
                    end
  end
with to_fields (f : fields) (bs : list N) {struct f} : option (json * list N) :=
  match f with
  | FNamed l => match to_nfields l bs [] with
                | Some (m, r) => Some (JObj m, r)
                | None => None
                end
  | FUnnamed l => match to_tys l bs with
                  | Some (vs, r) => Some (JArr vs, r)
                  | None => None
                  end
  | FNone => Some (JArr [], bs)
  end
with to_nfields (l : nfields) (bs : list N) (acc : list (str * json)) {struct l}
  : option (list (str * json) * list N) :=
  match l with
  | NFnil => Some (acc, bs)
  | NFcons name t r => match to_json t bs with
                       | Some (v, bs') => to_nfields r bs' (obj_insert name v acc)
                       | None => None
                       end
  end
with to_tys (l : tys) (bs : list N) {struct l} : option (list json * list N) :=
  match l with
  | TSnil => Some ([], bs)
  | TScons t r => match to_json t bs with
                  | Some (v, bs') => match to_tys r bs' with
                                     | Some (vs, bs'') => Some (v :: vs, bs'')
                                     | None => None
                                     end
                  | None => None
                  end
  end
with to_variants (vs : variants) (i : N) (bs : list N) {struct vs} : option (json * list N) :=
  match vs with
  | Vnil => None
  | Vcons n f r => if i =? 0
                   then match to_fields f bs with
                        | Some (v, bs') => Some (JObj [(n, v)], bs')
                        | None => None
                        end
                   else to_variants r (N.pred i) bs
  end
with to_tvariants (vs : tvariants) (tag : N) (bs : list N) {struct vs} : option (json * list N) :=
  match vs with
  | TVnil => None
  | TVcons tg n f r => if tg =? tag
                       then match to_fields f bs with
                            | Some (v, bs') => Some (JObj [(n, v)], bs')
                            | None => None
                            end
                       else to_tvariants r tag bs
  end.

(* ================================================================== the documented normalisations *)
(** What [to_json] prints for a value that [from_json] accepted, as a JSON -> JSON map that never
    looks at bytes:
    - [Unit] prints [null]; a [Fields::None] payload prints [[]]  (any JSON is accepted there);
    - decimal strings (u128, i128, Amount, LEB128) lose '+', leading zeros, '_' and "-0";
    - hex strings are printed in lower case;
    - account addresses, timestamps and durations are re-printed from the parsed value;
    - a contract address always has both [index] and [subindex]; other keys are dropped;
    - named fields are printed in schema order with unknown keys dropped;
    - everything else is printed as it was given. *)
Definition norm_dec_u (bound : N) (s : str) : json :=
  match parse_unsigned bound s with Some n => JStr (show_N n) | None => JStr s end.

Fixpoint normalize (t : ty) (j : json) {struct t} : json :=
  match t with
  | TUnit => JNull
  | TU128 => match j with JStr s => norm_dec_u (2 ^ 128) s | _ => j end
  | TAmount => match j with JStr s => norm_dec_u (2 ^ 64) s | _ => j end
  | TI128 => match j with
             | JStr s => match parse_signed 128 s with Some z => JStr (show_Z z) | None => j end
             | _ => j
             end
  | TAccountAddress => match j with
                       | JStr s => match acc_parse L s with Some a => JStr (acc_show L a) | None => j end
                       | _ => j
                       end
  | TContractAddress =>
      match j with
      | JObj fs =>
          match obj_get s_index fs with
          | Some (JNum i) =>
              let sub := match obj_get s_subindex fs with
                         | Some (JNum z) => if is_u64 z then z else 0%Z
                         | _ => 0%Z
                         end in
              JObj [(s_index, JNum i); (s_subindex, JNum sub)]
          | _ => j
          end
      | _ => j
      end
  | TTimestamp => match j with
                  | JStr s => match ts_parse L s with Some m => JStr (ts_show L m) | None => j end
                  | _ => j
                  end
  | TDuration => match j with
                 | JStr s => match dur_parse L s with Some m => JStr (dur_show L m) | None => j end
                 | _ => j
                 end
  | TPair a b => match j with
                 | JArr [x; y] => JArr [normalize a x; normalize b y]
                 | _ => j
                 end
  | TList _ e | TSet _ e | TArray _ e =>
      match j with JArr vs => JArr (map (normalize e) vs) | _ => j end
  | TMap _ k v =>
      match j with
      | JArr es => JArr (map (fun e => match e with
                                       | JArr [x; y] => JArr [normalize k x; normalize v y]
                                       | _ => e
                                       end) es)
      | _ => j
      end
  | TStruct f => normalize_fields f j
  | TEnum vs => match j with
                | JObj [(name, fv)] => JObj [(name, normalize_variants vs name fv)]
                | _ => j
                end
  | TTaggedEnum vs => match j with
                      | JObj [(name, fv)] => JObj [(name, normalize_tvariants vs name fv)]
                      | _ => j
                      end
  | TULeb128 _ => match j with
                  | JStr s => match parse_biguint s with Some n => JStr (show_N n) | None => j end
                  | _ => j
                  end
  | TILeb128 _ => match j with
                  | JStr s => match parse_bigint s with Some z => JStr (show_Z z) | None => j end
                  | _ => j
                  end
  | TByteList _ | TByteArray _ =>
      match j with
      | JStr x => match hex_decode x with Some b => JStr (hex_encode b) | None => j end
      | _ => j
      end
  | TReceiveName _ =>
      match j with
      | JObj fs => match obj_get s_contract fs, obj_get s_func fs with
                   | Some c, Some f => JObj [(s_contract, c); (s_func, f)]
                   | _, _ => j
                   end
      | _ => j
      end
  | _ => j
  end
with normalize_fields (f : fields) (j : json) {struct f} : json :=
  match f with
  | FNamed l => match j with JObj m => JObj (normalize_nfields l m []) | _ => j end
  | FUnnamed l => match j with JArr vs => JArr (normalize_tys l vs) | _ => j end
  | FNone => JArr []
  end
with normalize_nfields (l : nfields) (m acc : list (str * json)) {struct l} : list (str * json) :=
  match l with
  | NFnil => acc
  | NFcons name t r => match obj_get name m with
                       | Some v => normalize_nfields r m (obj_insert name (normalize t v) acc)
                       | None => normalize_nfields r m acc
                       end
  end
with normalize_tys (l : tys) (vs : list json) {struct l} : list json :=
  match l, vs with
  | TScons t r, v :: vs' => normalize t v :: normalize_tys r vs'
  | _, _ => []
  end
with normalize_variants (vs : variants) (name : str) (fv : json) {struct vs} : json :=
  match vs with
  | Vnil => fv
  | Vcons n f r => if str_eqb n name then normalize_fields f fv else normalize_variants r name fv
  end
with normalize_tvariants (vs : tvariants) (name : str) (fv : json) {struct vs} : json :=
  match vs with
  | TVnil => fv
  | TVcons _ n f r => if str_eqb n name then normalize_fields f fv else normalize_tvariants r name fv
  end.

End Model.

(* ------------------------------------------------------------------ well-formedness of schema types *)
(** The only constraint: the tags of a [TaggedEnum] are pairwise distinct (they are the keys of a
    [BTreeMap<u8, _>] in the implementation). *)
Fixpoint tv_tags (vs : tvariants) : list N :=
  match vs with TVnil => [] | TVcons t _ _ r => t :: tv_tags r end.
Fixpoint nodup_N (l : list N) : bool :=
  match l with [] => true | x :: r => negb (existsb (N.eqb x) r) && nodup_N r end.
Fixpoint ty_wf (t : ty) : bool :=
  match t with
  | TPair a b => ty_wf a && ty_wf b
  | TList _ e | TSet _ e | TArray _ e => ty_wf e
  | TMap _ k v => ty_wf k && ty_wf v
  | TStruct f => fields_wf f
  | TEnum vs => variants_wf vs
  | TTaggedEnum vs => nodup_N (tv_tags vs) && tvariants_wf vs
  | _ => true
  end
with fields_wf (f : fields) : bool :=
  match f with FNamed l => nfields_wf l | FUnnamed l => tys_wf l | FNone => true end
with nfields_wf (l : nfields) : bool :=
  match l with NFnil => true | NFcons _ t r => ty_wf t && nfields_wf r end
with tys_wf (l : tys) : bool :=
  match l with TSnil => true | TScons t r => ty_wf t && tys_wf r end
with variants_wf (l : variants) : bool :=
  match l with Vnil => true | Vcons _ f r => fields_wf f && variants_wf r end
with tvariants_wf (l : tvariants) : bool :=
  match l with TVnil => true | TVcons _ _ f r => fields_wf f && tvariants_wf r end.

(* ------------------------------------------------------------------ side conditions of the converse direction *)
Definition bytes_ok (bs : list N) : bool := forallb (fun b => b <? 256) bs.
Fixpoint nodup_str (l : list str) : bool :=
  match l with [] => true | x :: r => negb (existsb (str_eqb x) r) && nodup_str r end.
Fixpoint nf_names (l : nfields) : list str := match l with NFnil => [] | NFcons n _ r => n :: nf_names r end.
Fixpoint v_names (l : variants) : list str := match l with Vnil => [] | Vcons n _ r => n :: v_names r end.
Fixpoint tv_names (l : tvariants) : list str := match l with TVnil => [] | TVcons _ n _ r => n :: tv_names r end.

(** What [derive(SchemaType)] guarantees and the printed JSON needs in order to be read back:
    no struct repeats a field name, no enum repeats a variant name, an enum has at most 65536
    variants (more cannot be written), array sizes are u32 (as in the Rust type). *)
Fixpoint ty_distinct_fields (t : ty) : bool :=
  match t with
  | TPair a b => ty_distinct_fields a && ty_distinct_fields b
  | TList _ e | TSet _ e => ty_distinct_fields e
  | TMap _ k v => ty_distinct_fields k && ty_distinct_fields v
  | TArray n e => (n <? 2 ^ 32) && ty_distinct_fields e
  | TByteArray n => n <? 2 ^ 32
  | TStruct f => fields_df f
  | TEnum vs => nodup_str (v_names vs) && (N.of_nat (variants_len vs) <=? 65536) && variants_df vs
  | TTaggedEnum vs => nodup_str (tv_names vs) && tvariants_df vs
  | _ => true
  end
with fields_df (f : fields) : bool :=
  match f with
  | FNamed l => nodup_str (nf_names l) && nfields_df l
  | FUnnamed l => tys_df l
  | FNone => true
  end
with nfields_df (l : nfields) : bool :=
  match l with NFnil => true | NFcons _ t r => ty_distinct_fields t && nfields_df r end
with tys_df (l : tys) : bool :=
  match l with TSnil => true | TScons t r => ty_distinct_fields t && tys_df r end
with variants_df (l : variants) : bool :=
  match l with Vnil => true | Vcons _ f r => fields_df f && variants_df r end
with tvariants_df (l : tvariants) : bool :=
  match l with TVnil => true | TVcons _ _ f r => fields_df f && tvariants_df r end.

(** no LEB128 component: then [to_json] accepts exactly one byte string per value *)
Fixpoint ty_no_leb (t : ty) : bool :=
  match t with
  | TULeb128 _ | TILeb128 _ => false
  | TPair a b => ty_no_leb a && ty_no_leb b
  | TList _ e | TSet _ e | TArray _ e => ty_no_leb e
  | TMap _ k v => ty_no_leb k && ty_no_leb v
  | TStruct f => fields_no_leb f
  | TEnum vs => variants_no_leb vs
  | TTaggedEnum vs => tvariants_no_leb vs
  | _ => true
  end
with fields_no_leb (f : fields) : bool :=
  match f with FNamed l => nfields_no_leb l | FUnnamed l => tys_no_leb l | FNone => true end
with nfields_no_leb (l : nfields) : bool :=
  match l with NFnil => true | NFcons _ t r => ty_no_leb t && nfields_no_leb r end
with tys_no_leb (l : tys) : bool :=
  match l with TSnil => true | TScons t r => ty_no_leb t && tys_no_leb r end
with variants_no_leb (l : variants) : bool :=
  match l with Vnil => true | Vcons _ f r => fields_no_leb f && variants_no_leb r end
with tvariants_no_leb (l : tvariants) : bool :=
  match l with TVnil => true | TVcons _ _ f r => fields_no_leb f && tvariants_no_leb r end.

(* ------------------------------------------------------------------ well-formedness of JSON inputs *)
(** What a [serde_json::Value] in memory always satisfies and the model's lists do not: strings are
    valid UTF-8, and (because of the two [as u32] length comparisons for [Array]/[ByteArray]) no
    array or string has 2^32 or more elements. *)
Fixpoint json_wf (j : json) : bool :=
  match j with
  | JStr s => utf8_valid s && (N.of_nat (length s) <? 2 ^ 33)
  | JArr l => (N.of_nat (length l) <? 2 ^ 32) && forallb json_wf l
  | JObj l => forallb (fun kv => json_wf (snd kv)) l
  | _ => true
  end.

(* ------------------------------------------------------------------ executable leaf instance *)
(** '@' followed by hex (addresses) or decimal (milliseconds): injective and trivially parsed back.
    '@' occurs in no base58, RFC3339 or duration string, so text the implementation rejects stays
    rejected after the harness' translation. *)
Definition stub_leaves : leaves := {|
  acc_parse := fun s => match s with
                        | 64 :: h => match hex_decode h with
                                     | Some a => if N.of_nat (length a) =? 32 then Some a else None
                                     | None => None
                                     end
                        | _ => None
                        end;
  acc_show := fun a => 64 :: hex_encode a;
  ts_parse := fun s => match s with 64 :: d => parse_unsigned (2 ^ 64) d | _ => None end;
  ts_show := fun m => 64 :: show_N m;
  dur_parse := fun s => match s with 64 :: d => parse_unsigned (2 ^ 64) d | _ => None end;
  dur_show := fun m => 64 :: show_N m
|}.

(** entry points used by the correspondence check *)
Definition run_from (t : ty) (j : json) : option (list N) := from_json stub_leaves t j.
Definition run_to (t : ty) (bs : list N) : option (json * list N) := to_json stub_leaves t bs.
Definition run_norm (t : ty) (j : json) : json := normalize stub_leaves t j.
