(** C16 - the codec terms for the concrete types of concordium-contracts-common
    (impls.rs, types.rs, hashes.rs), built from the combinators of [CcCodec.v].
    Definitions only. *)
From Coq Require Import NArith ZArith List Bool.
From CB Require Import Contract.CcCodec Contract.Names.
Import ListNotations.
Local Open Scope N_scope.

(** ** primitive types *)
Definition c_u8 := c_uint 1.
Definition c_u16 := c_uint 2.
Definition c_u32 := c_uint 4.
Definition c_u64 := c_uint 8.
Definition c_u128 := c_uint 16.

(** two's complement: [iN::to_le_bytes] / [from_le_bytes] *)
Definition to_signed (k : nat) (v : N) : Z :=
  if v <? 2 ^ (8 * N.of_nat k - 1) then Z.of_N v else (Z.of_N v - Z.of_N (256 ^ N.of_nat k))%Z.
Definition of_signed (k : nat) (z : Z) : N := Z.to_N (z mod Z.of_N (256 ^ N.of_nat k)).
Definition signed_range (k : nat) (z : Z) : Prop :=
  (- Z.of_N (2 ^ (8 * N.of_nat k - 1)) <= z < Z.of_N (2 ^ (8 * N.of_nat k - 1)))%Z.
Definition c_sint (k : nat) : codec Z := c_map (c_uint k) (to_signed k) (of_signed k) (signed_range k).
Definition c_i8 := c_sint 1.
Definition c_i16 := c_sint 2.
Definition c_i32 := c_sint 4.
Definition c_i64 := c_sint 8.
Definition c_i128 := c_sint 16.

(** [bool]: one byte, only 0 and 1 *)
Definition c_bool : codec bool :=
  c_map (c_refine c_u8 (fun n => n <? 2)) (fun n => n =? 1) (fun b : bool => if b then 1 else 0)
        (fun _ => True).

(** [Option<T>]: tag 0 / 1 *)
Definition c_option {A} (c : codec A) : codec (option A) :=
  c_map (c_sum c_unit c)
        (fun s => match s with inl _ => None | inr a => Some a end)
        (fun o => match o with None => inl tt | Some a => inr a end)
        (fun o => match o with None => True | Some a => wf c a end).

(** [[u8; n]] *)
Definition c_bytes (n : nat) : codec (list N) := c_array c_u8 n.

(** [Vec<T>]: u32 length, [deserial_vector_no_length] *)
Definition c_vec32 {A} (c : codec A) : codec (list A) := c_vec c 4 rsv_std.
(** [deserial_ctx] with the other [SizeLength]s *)
Definition c_vec8 {A} (c : codec A) : codec (list A) := c_vec c 1 rsv_std.
Definition c_vec16 {A} (c : codec A) : codec (list A) := c_vec c 2 rsv_std.
Definition c_vec64 {A} (c : codec A) : codec (list A) := c_vec c 8 rsv_std.

(** [String]: u32 length, bytes, [String::from_utf8] *)
Definition c_string : codec (list N) := c_refine (c_vec32 c_u8) utf8_valid.

(** sets and maps with numeric keys *)
Definition key_ltb {V} (p q : N * V) : bool := fst p <? fst q.
(** [Deserial for BTreeSet<K>] / [BTreeMap<K, V>] (also [HashSet]/[HashMap], whose decoded
    collections are compared as sorted lists): no order check, duplicates rejected *)
Definition c_set32 (ck : codec N) : codec (list N) := c_unordered N.ltb (c_vec32 ck).
Definition c_map32 {V} (ck : codec N) (cv : codec V) : codec (list (N * V)) :=
  c_unordered key_ltb (c_vec32 (c_pair ck cv)).
(** [deserial_set_no_length] / [deserial_map_no_length] behind a length prefix of [k] bytes
    ([DeserialCtx::deserial_ctx(size_len, ensure_ordered = true, ..)]) *)
Definition c_set_ordered (k : nat) (ck : codec N) : codec (list N) :=
  c_ordered N.ltb (c_vec ck k rsv_none).
Definition c_map_ordered {V} (k : nat) (ck : codec N) (cv : codec V) : codec (list (N * V)) :=
  c_ordered key_ltb (c_vec (c_pair ck cv) k rsv_none).
(** [deserial_ctx(size_len, ensure_ordered = false, ..)] *)
Definition c_set_unordered (k : nat) (ck : codec N) : codec (list N) :=
  c_unordered N.ltb (c_vec ck k rsv_none).
Definition c_map_unordered {V} (k : nat) (ck : codec N) (cv : codec V) : codec (list (N * V)) :=
  c_unordered key_ltb (c_vec (c_pair ck cv) k rsv_none).

(** ** chain types *)
Definition c_amount := c_u64.
Definition c_timestamp := c_u64.
Definition c_duration := c_u64.
Definition c_account_address := c_bytes 32.
Definition c_contract_address := c_pair c_u64 c_u64.
(** [Address]: tag 0 account, tag 1 contract *)
Definition c_address := c_sum c_account_address c_contract_address.
Definition c_hash := c_bytes 32.

(** [AccountBalance]: three amounts, staked and locked not above the total *)
Definition c_account_balance : codec (N * (N * N)) :=
  c_refine (c_pair c_u64 (c_pair c_u64 c_u64))
           (fun p => (fst (snd p) <=? fst p) && (snd (snd p) <=? fst p)).

(** [ExchangeRate]: numerator and denominator, both non-zero *)
Definition c_exchange_rate : codec (N * N) :=
  c_refine (c_pair c_u64 c_u64) (fun p => negb (fst p =? 0) && negb (snd p =? 0)).
Definition c_exchange_rates := c_pair c_exchange_rate c_exchange_rate.

(** [NonZeroThresholdU8] *)
Definition c_threshold : codec N := c_refine c_u8 (fun n => negb (n =? 0)).

(** names: u16 length, bytes, UTF-8, validator.  The value is the byte string. *)
Definition name_ok (valid : list N -> bool) (bs : list N) : bool :=
  match utf8_decode bs with Some cs => valid cs | None => false end.
Definition c_contract_name := c_refine (c_vec16 c_u8) (name_ok valid_contract_name).
Definition c_receive_name := c_refine (c_vec16 c_u8) (name_ok valid_receive_name).
Definition c_entrypoint_name := c_refine (c_vec16 c_u8) (name_ok valid_entrypoint_name).
(** [OwnedParameter]: u16 length and bytes *)
Definition c_parameter := c_vec16 c_u8.

(** [AttributeValue]: one length byte of at most 31, then the bytes (stack buffer) *)
Definition c_attribute_value : codec (list N) :=
  c_refine (c_vec c_u8 1 rsv_none) (fun l => N.of_nat (length l) <=? 31).
(** [OwnedPolicy]: identity provider u32, two timestamps, u16 count, (tag, value) pairs;
    [Vec::with_capacity(len)] with a u16 length *)
Definition c_policy :=
  c_pair c_u32 (c_pair c_u64 (c_pair c_u64 (c_vec (c_pair c_u8 c_attribute_value) 2 rsv_all))).

(** [ChainMetadata] *)
Definition c_chain_metadata := c_timestamp.

(** ** what the correspondence run compares: accepted?, bytes consumed, re-encoding;
    and the ghost pre-allocation *)
Definition probe {A} (c : codec A) (bs : list N) : option (N * list N) * N :=
  (match dec c bs with
   | Some (v, rest) => Some (N.of_nat (length bs - length rest), enc c v)
   | None => None
   end, pre c bs).
