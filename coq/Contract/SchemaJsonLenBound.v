(** C10: the length prefix written by [from_json] ([write_bytes_for_length_of_size], schema_json.rs).
    A String / ByteList / List / Set / Map whose element count does not fit the size length is an error,
    never bytes; when it fits, the prefix is the little-endian count. *)
From Coq Require Import NArith ZArith Bool List Lia.
From CB Require Import Contract.SchemaJson.
Import ListNotations.
Local Open Scope N_scope.

Definition sl_bound (s : size_len) : N := 2 ^ (8 * N.of_nat (sl_bytes s)).

Lemma enc_len_none_iff : forall s n, enc_len s n = None <-> sl_bound s <= N.of_nat n.
Proof.
  intros s n. unfold enc_len, sl_bound. cbv zeta.
  destruct (N.ltb_spec (N.of_nat n) (2 ^ (8 * N.of_nat (sl_bytes s)))); split; intro; try discriminate; try reflexivity; lia.
Qed.

Lemma enc_len_some_iff : forall s n l, enc_len s n = Some l <-> (N.of_nat n < sl_bound s /\ l = le (sl_bytes s) (N.of_nat n)).
Proof.
  intros s n l. unfold enc_len, sl_bound. cbv zeta.
  destruct (N.ltb_spec (N.of_nat n) (2 ^ (8 * N.of_nat (sl_bytes s)))); split.
  - intro E. inversion E. split; [assumption | reflexivity].
  - intros [_ E]. subst. reflexivity.
  - discriminate.
  - intros [E _]. lia.
Qed.

Lemma from_json_string_too_long : forall (L : leaves) s x, sl_bound s <= N.of_nat (length x) -> from_json L (TString s) (JStr x) = None.
Proof. intros L s x H. apply enc_len_none_iff in H. cbn. unfold with_len. rewrite H. reflexivity. Qed.

Lemma from_json_bytelist_too_long : forall (L : leaves) s x b, hex_decode x = Some b -> sl_bound s <= N.of_nat (length b) ->
  from_json L (TByteList s) (JStr x) = None.
Proof. intros L s x b Hx H. apply enc_len_none_iff in H. cbn. rewrite Hx. unfold with_len. rewrite H. reflexivity. Qed.

Lemma from_json_list_too_long : forall (L : leaves) s e vs, sl_bound s <= N.of_nat (length vs) -> from_json L (TList s e) (JArr vs) = None.
Proof. intros L s e vs H. apply enc_len_none_iff in H. cbn. rewrite H. reflexivity. Qed.

Lemma from_json_set_too_long : forall (L : leaves) s e vs, sl_bound s <= N.of_nat (length vs) -> from_json L (TSet s e) (JArr vs) = None.
Proof. intros L s e vs H. apply enc_len_none_iff in H. cbn. rewrite H. reflexivity. Qed.

Lemma from_json_map_too_long : forall (L : leaves) s k v es, sl_bound s <= N.of_nat (length es) -> from_json L (TMap s k v) (JArr es) = None.
Proof. intros L s k v es H. apply enc_len_none_iff in H. cbn. rewrite H. reflexivity. Qed.

Lemma from_json_string_prefix : forall (L : leaves) s x b, from_json L (TString s) (JStr x) = Some b ->
  b = le (sl_bytes s) (N.of_nat (length x)) ++ x /\ N.of_nat (length x) < sl_bound s.
Proof.
  intros L s x b. cbn. unfold with_len. destruct (enc_len s (length x)) eqn:E; [|discriminate].
  apply enc_len_some_iff in E. destruct E as [Hlt ->]. intro H. inversion H. split; [reflexivity | assumption].
Qed.

Lemma from_json_list_prefix : forall (L : leaves) s e vs b, from_json L (TList s e) (JArr vs) = Some b ->
  (exists p, b = le (sl_bytes s) (N.of_nat (length vs)) ++ p) /\ N.of_nat (length vs) < sl_bound s.
Proof.
  intros L s e vs b. cbn. destruct (enc_len s (length vs)) eqn:E; [|discriminate].
  apply enc_len_some_iff in E. destruct E as [Hlt ->].
  destruct (from_list _ vs); [|discriminate]. intro H. inversion H. split; [eexists; reflexivity | assumption].
Qed.

Example sl_bound_values : sl_bound SL8 = 256 /\ sl_bound SL16 = 65536 /\ sl_bound SL32 = 4294967296.
Proof. repeat split. Qed.
