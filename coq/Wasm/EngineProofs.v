(** The faithful model of the engine ([Compile.v] + [Machine.v]) reproduces the findings
    F1-F3: on the witness modules it disagrees with the specification [Sem.run]. *)
From Coq Require Import ZArith NArith List Bool Lia.
From CB Require Import Common.IntN Wasm.Syntax Wasm.Sem Wasm.Compile Wasm.Machine Wasm.KnownClasses
     Wasm.Engine Wasm.Witnesses.
Import ListNotations.
Local Open Scope Z_scope.

Definition spec_obs (m : module) (fuel : nat) (args : list val) : option observation :=
  observe_spec (run no_host 512%N m fuel 0 args).
Definition engine_obs (m : module) (fuel : nat) (args : list val) : option observation :=
  match engine_run m fuel 0 args with
  | Some o => observe_engine (global_types m) o
  | None => None
  end.

Definition disagree (m : module) (args : list val) : Prop :=
  exists a b, spec_obs m 100 args = Some a /\ engine_obs m 100 args = Some b /\ a <> b.

Lemma f1a_disagree : disagree w_f1a [VI32 0] /\ known_class w_f1a = (true, false).
Proof.
  split; [|vm_compute; reflexivity].
  exists (ObsDone (Some (VI32 1)) 0 [] []), (ObsDone (Some (VI32 2)) 0 [] []).
  split; [vm_compute; reflexivity|]. split; [vm_compute; reflexivity|]. discriminate.
Qed.
Lemma f1b_disagree : disagree w_f1b [VI32 1] /\ known_class w_f1b = (true, false).
Proof.
  split; [|vm_compute; reflexivity].
  exists (ObsDone (Some (VI32 0)) 0 [] []), (ObsDone (Some (VI32 42)) 0 [] []).
  split; [vm_compute; reflexivity|]. split; [vm_compute; reflexivity|]. discriminate.
Qed.
Lemma f2a_disagree : disagree w_f2a [VI32 7; VI32 0] /\ known_class w_f2a = (false, true).
Proof.
  split; [|vm_compute; reflexivity].
  exists (ObsDone (Some (VI32 7)) 0 [] []), (ObsDone (Some (VI32 0)) 0 [] []).
  split; [vm_compute; reflexivity|]. split; [vm_compute; reflexivity|]. discriminate.
Qed.
Lemma f2b_disagree : disagree w_f2b [VI32 0] /\ known_class w_f2b = (false, true).
Proof.
  split; [|vm_compute; reflexivity].
  exists (ObsDone (Some (VI32 0)) 0 [] []), (ObsDone (Some (VI32 2)) 0 [] []).
  split; [vm_compute; reflexivity|]. split; [vm_compute; reflexivity|]. discriminate.
Qed.
Lemma f3_disagree :
  spec_obs w_f3 100 [VI32 2147483648; VI32 4294967295] = Some (ObsDone (Some (VI32 0)) 0 [] [])
  /\ engine_run w_f3 100 0 [VI32 2147483648; VI32 4294967295] = Some (MTrap TRemSOverflow)
  /\ known_class w_f3 = (false, false).
Proof. repeat split; vm_compute; reflexivity. Qed.

(** outside the classes the two agree on this (non-vacuity example for the guarded claims) *)
Lemma plain_agree :
  known_class w_plain = (false, false)
  /\ spec_obs w_plain 100 [VI32 3; VI32 4] = engine_obs w_plain 100 [VI32 3; VI32 4]
  /\ spec_obs w_plain 100 [VI32 3; VI32 4] = Some (ObsDone (Some (VI32 49)) 0 [] []).
Proof. repeat split; vm_compute; reflexivity. Qed.

(** rem_s: the machine's operator differs from the specification's exactly at (MIN, -1) *)
Lemma rem_s_machine_vs_spec_i32 :
  rs_binop 32 RemS (as_i32 2147483648) (as_i32 4294967295) 2147483648 4294967295 = inl TRemSOverflow
  /\ irem_s 32 2147483648 4294967295 = Some 0.
Proof. split; vm_compute; reflexivity. Qed.
Lemma rem_s_machine_vs_spec_i64 :
  rs_binop 64 RemS (as_i64 9223372036854775808) (as_i64 18446744073709551615) 9223372036854775808 18446744073709551615
    = inl TRemSOverflow
  /\ irem_s 64 9223372036854775808 18446744073709551615 = Some 0.
Proof. split; vm_compute; reflexivity. Qed.
