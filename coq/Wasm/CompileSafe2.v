(** * Wasm/CompileSafe2 — the invariant [L] of [CompileSafe.v] through the building blocks of
    [Handler::handle_opcode] (consume / provide / push_consume / push_provide / copy /
    insert_jump_location / truncate), and the instruction grammar [shaped] of the emitted
    code (the decode table of machine.rs). *)
From Coq Require Import ZArith NArith List Lia Bool.
From CB Require Import Wasm.Syntax Wasm.Compile Wasm.Machine Wasm.MachineLemmas Wasm.CompileLemmas
     Wasm.StraightProofs Wasm.BlockProofs Wasm.BlockInv Wasm.CompileSafe.
Import ListNotations.
Local Open Scope Z_scope.
Local Arguments i32_bytes : simpl never.
Local Arguments u32_bytes : simpl never.
Local Arguments u16_bytes : simpl never.

(** ** instruction grammar: what the decoder of machine.rs reads after each opcode byte *)
(** opcodes with a fixed layout: (immediate bytes, source operands, has a written register) *)
Definition fixed_shape (o : N) : option (nat * nat * bool) :=
  if (o =? 0)%N || (o =? 6)%N then Some (0, 0, false)%nat
  else if (o =? 8)%N then Some (4, 0, false)%nat
  else if (o =? 10)%N then Some (0, 3, true)%nat
  else if (o =? 11)%N then Some (2, 0, true)%nat
  else if (o =? 12)%N then Some (2, 1, false)%nat
  else if (13 <=? o)%N && (o <=? 24)%N then Some (4, 1, true)%nat
  else if (25 <=? o)%N && (o <=? 31)%N then Some (4, 2, false)%nat
  else if (o =? 32)%N then Some (0, 0, true)%nat
  else if (o =? 33)%N then Some (0, 1, true)%nat
  else if (o =? 34)%N || (o =? 45)%N || ((56 <=? o)%N && (o <=? 58)%N) || ((74 <=? o)%N && (o <=? 76)%N)
          || ((92 <=? o)%N && (o <=? 100)%N) then Some (0, 1, true)%nat
  else if ((35 <=? o)%N && (o <=? 44)%N) || ((46 <=? o)%N && (o <=? 55)%N) || ((59 <=? o)%N && (o <=? 73)%N)
          || ((77 <=? o)%N && (o <=? 91)%N) then Some (0, 2, true)%nat
  else None.

Definition dst_opt (b : bool) : list kind := if b then [KDst] else [].
Definition res_flag (bt : blocktype) : bool := match bt with Some _ => true | None => false end.

Inductive oshape (cx : cctx) : N -> list kind -> Prop :=
| sh_fixed o ni ns d imm : fixed_shape o = Some (ni, ns, d) -> length imm = ni ->
    oshape cx o ((match ni with O => [] | _ => [KImm imm] end) ++ repeat KSrc ns ++ dst_opt d)
| sh_if : oshape cx IIf [KSrc; KTgt]
| sh_br : oshape cx IBr [KTgt]
| sh_brif : oshape cx IBrIf [KTgt; KSrc]
| sh_brtable imm tail : length imm = 2%nat -> Forall (fun k => k = KDst \/ k = KTgt) tail ->
    oshape cx IBrTable (KSrc :: KImm imm :: tail)
| sh_brtablecarry imm tail : length imm = 2%nat -> Forall (fun k => k = KDst \/ k = KTgt) tail ->
    oshape cx IBrTableCarry (KSrc :: KSrc :: KImm imm :: tail)
| sh_call f ft : cx_func_type cx f = Some ft ->
    oshape cx ICall (KImm (u32_bytes (Z.of_nat f)) :: repeat KSrc (length (ft_params ft)) ++ dst_opt (res_flag (ft_result ft)))
| sh_calli ti ft : cx_type cx ti = Some ft ->
    oshape cx ICallIndirect (KImm (u32_bytes (Z.of_nat ti)) :: KSrc :: repeat KSrc (length (ft_params ft))
                             ++ dst_opt (res_flag (ft_result ft))).

Inductive shapedk (cx : cctx) : list kind -> Prop :=
| shk_nil : shapedk cx []
| shk_cons o args rest : oshape cx o args -> shapedk cx rest -> shapedk cx (KOp o :: args ++ rest).
Definition shaped (cx : cctx) (fl : list field) : Prop := shapedk cx (map kind_of fl).

Lemma shapedk_app cx a b : shapedk cx a -> shapedk cx b -> shapedk cx (a ++ b).
Proof.
  induction 1; intros Hb; [exact Hb|]. cbn [app]. rewrite <- app_assoc. constructor; auto.
Qed.
Lemma shaped_app cx a b : shaped cx a -> shaped cx b -> shaped cx (a ++ b).
Proof. unfold shaped. rewrite map_app. apply shapedk_app. Qed.
Lemma shaped_nil cx : shaped cx []. Proof. constructor. Qed.
Lemma shaped_one cx o args : oshape cx o (map kind_of args) -> shaped cx (FOp o :: args).
Proof.
  intros H. unfold shaped. cbn [map kind_of]. rewrite <- (app_nil_r (map kind_of args)). constructor; auto. constructor.
Qed.
Lemma map_kind_src ps : map kind_of (map FSrc ps) = repeat KSrc (length ps).
Proof. induction ps; cbn; congruence. Qed.

Section Safe2.
Variable nl : Z.
Notation L := (L nl).
Definition Iv (bs : list Z) (s : cstate) (fl : list field) : Prop := L bs (all_locs (c_bp s)) s fl.

Lemma cur_off_off bs pl s fl : L bs pl s fl -> cur_off s = off fl.
Proof. intros H. unfold cur_off, off. rewrite (l_out _ _ _ _ _ H). reflexivity. Qed.

(** emit one field *)
Lemma L_emit bs pl s fl f :
  L bs pl s fl -> c_last s = None -> fok (c_next s) (ncon s) f -> (forall t, f = FTgt t -> In t bs) ->
  L bs pl (emit s (enc_f f)) (fl ++ [f]).
Proof.
  intros H Hl Hf Ht. eapply (L_app nl); eauto; try reflexivity; try (cbn; lia).
  all: try (eapply cwf_same; [|apply (l_cwf _ _ _ _ _ H)]; apply same_alloc_emit).
  all: try (unfold ncon; cbn; lia).
Qed.

Lemma L_consume bs pl s fl p s' :
  L bs pl s fl -> consume s = Some (p, s') ->
  L bs pl s' fl /\ fok (c_next s') (ncon s') (FSrc (provider_idx p)) /\ c_last s' = c_last s /\ c_bp s' = c_bp s
  /\ c_next s' = c_next s /\ c_stack s = p :: c_stack s'.
Proof.
  intros H E. destruct (consume_spec nl s p s' E (l_cwf _ _ _ _ _ H)) as (Es & (O1 & O2 & O3) & En & Ec & W & Wp).
  assert (Hc : ncon s' = ncon s) by (unfold ncon; rewrite Ec; reflexivity).
  splits; auto.
  - eapply (L_alloc nl); eauto; lia.
  - rewrite En, Hc. apply (pwf_fok nl); auto. apply (l_cwf _ _ _ _ _ H).
Qed.

Lemma L_push_consume bs pl s fl p s' :
  L bs pl s fl -> c_last s = None -> push_consume s = Some (p, s') ->
  L bs pl s' (fl ++ [FSrc (provider_idx p)]) /\ c_last s' = None /\ c_bp s' = c_bp s /\ c_next s' = c_next s
  /\ c_stack s = p :: c_stack s'.
Proof.
  intros H Hl E. unfold push_consume in E. destruct (consume s) as [[q s1]|] eqn:Ec; [|discriminate]. inversion E; subst; clear E.
  destruct (L_consume _ _ _ _ _ _ H Ec) as (H1 & F1 & L1 & B1 & N1 & S1).
  splits; auto; try (cbn; congruence).
  apply (L_emit bs pl s1 fl (FSrc (provider_idx p))); auto. congruence. discriminate.
Qed.

Lemma L_push_consume_n bs pl k : forall s fl s',
  L bs pl s fl -> c_last s = None -> push_consume_n k s = Some s' ->
  exists ps, length ps = k /\ L bs pl s' (fl ++ map FSrc ps) /\ c_last s' = None /\ c_bp s' = c_bp s /\ c_next s' = c_next s
  /\ (length (c_stack s) = k + length (c_stack s'))%nat.
Proof.
  induction k as [|k IH]; intros s fl s' H Hl E; cbn [push_consume_n] in E.
  - inversion E; subst. exists []. cbn [map]. rewrite app_nil_r. splits; auto.
  - destruct (push_consume s) as [[p s1]|] eqn:Ep; [|discriminate].
    destruct (L_push_consume _ _ _ _ _ _ H Hl Ep) as (H1 & L1 & B1 & N1 & S1).
    destruct (IH _ _ _ H1 L1 E) as (ps & Lp & H2 & L2 & B2 & N2 & S2).
    exists (provider_idx p :: ps). cbn [map length]. splits; auto; try congruence.
    + rewrite <- app_assoc in H2. exact H2.
    + rewrite S1. cbn [length]. lia.
Qed.

Lemma L_push_provide bs pl s fl :
  L bs pl s fl -> c_last s = None ->
  exists r, L bs pl (push_provide s) (fl ++ [FDst r]) /\ c_bp (push_provide s) = c_bp s
  /\ c_next s <= c_next (push_provide s) /\ length (c_stack (push_provide s)) = S (length (c_stack s)).
Proof.
  intros H Hl. destruct (push_provide_spec nl s (l_cwf _ _ _ _ _ H)) as (r & Es & Eo & El & Eb & Ec & Bn & Br & _ & W).
  exists r. splits; auto; try lia.
  - eapply (L_app nl); eauto; try lia.
    + unfold ncon. rewrite Ec. lia.
    + destruct W as [W1 _ _ _ _]. cbn. lia.
    + discriminate.
    + right. split; [|eauto]. rewrite El. f_equal. eapply cur_off_off; eauto.
  - rewrite Es. reflexivity.
Qed.

Lemma L_dyn_get bs pl s fl r s' :
  L bs pl s fl -> dyn_get s = (r, s') ->
  L bs pl s' fl /\ nl <= r < c_next s' /\ c_bp s' = c_bp s /\ c_last s' = c_last s /\ c_next s <= c_next s'
  /\ c_stack s' = c_stack s /\ c_out s' = c_out s.
Proof.
  intros H E. destruct (dyn_get_spec nl s r s' E (l_cwf _ _ _ _ _ H)) as (B & N & Nst & Es & (O1 & O2 & O3) & Ec & Bn & Sub & W).
  splits; auto; try lia. eapply (L_alloc nl); eauto; try lia. unfold ncon. rewrite Ec. lia.
Qed.

Lemma L_provide_existing bs pl s fl r :
  L bs pl s fl -> res_ok nl (c_next s) r ->
  L bs pl (provide_existing s r) fl /\ c_bp (provide_existing s r) = c_bp s /\ c_last (provide_existing s r) = c_last s
  /\ c_next (provide_existing s r) = c_next s /\ c_stack (provide_existing s r) = r :: c_stack s
  /\ c_out (provide_existing s r) = c_out s.
Proof.
  intros H Hr. assert (W : cwf nl (provide_existing s r)).
  { destruct r as [d|i|c]; cbn in Hr; [apply cwf_provide_dyn|apply cwf_push_local|contradiction]; auto; apply (l_cwf _ _ _ _ _ H). }
  assert (E : c_bp (provide_existing s r) = c_bp s /\ c_last (provide_existing s r) = c_last s
              /\ c_next (provide_existing s r) = c_next s /\ c_stack (provide_existing s r) = r :: c_stack s
              /\ c_out (provide_existing s r) = c_out s /\ c_consts (provide_existing s r) = c_consts s)
    by (destruct r; cbn; repeat split; reflexivity).
  destruct E as (E1 & E2 & E3 & E4 & E5 & E6). splits; auto.
  eapply (L_alloc nl); eauto; try lia. unfold ncon. rewrite E6. lia.
Qed.

Definition copy_fields (p res : provider) : list field :=
  if provider_eqb p res then [] else [FOp ICopy; FSrc (provider_idx p); FDst (provider_idx res)].
Lemma copy_shaped cx p res : shaped cx (copy_fields p res).
Proof.
  unfold copy_fields. destruct (provider_eqb p res); [constructor|]. apply shaped_one.
  apply (sh_fixed cx ICopy 0 1 true []); reflexivity.
Qed.

Lemma L_copy bs pl s fl p res :
  L bs pl s fl -> c_last s = None -> fok (c_next s) (ncon s) (FSrc (provider_idx p)) -> res_ok nl (c_next s) res ->
  L bs pl (copy_if_needed s p res) (fl ++ copy_fields p res) /\ c_last (copy_if_needed s p res) = None
  /\ c_bp (copy_if_needed s p res) = c_bp s /\ c_next (copy_if_needed s p res) = c_next s
  /\ c_stack (copy_if_needed s p res) = c_stack s.
Proof.
  intros H Hl Hp Hr. unfold copy_if_needed, copy_fields. destruct (provider_eqb p res).
  - rewrite app_nil_r. auto.
  - pose proof (L_emit _ _ _ _ (FOp ICopy) H Hl Logic.I ltac:(discriminate)) as H1.
    pose proof (L_emit _ _ _ _ (FSrc (provider_idx p)) H1 Hl Hp ltac:(discriminate)) as H2.
    assert (Hd : fok (c_next s) (ncon s) (FDst (provider_idx res))) by (apply (res_ok_fok nl); auto; apply (l_cwf _ _ _ _ _ H)).
    pose proof (L_emit _ _ _ _ (FDst (provider_idx res)) H2 Hl Hd ltac:(discriminate)) as H3.
    rewrite <- !app_assoc in H3. splits; auto.
Qed.

Lemma L_truncate_n bs pl k : forall s fl s',
  L bs pl s fl -> truncate_n k s = Some s' ->
  L bs pl s' fl /\ c_last s' = c_last s /\ c_bp s' = c_bp s /\ c_next s' = c_next s.
Proof.
  induction k as [|k IH]; intros s fl s' H E; cbn [truncate_n] in E.
  - inversion E; subst. auto.
  - destruct (consume s) as [[p s1]|] eqn:Ec; [|discriminate].
    destruct (L_consume _ _ _ _ _ _ H Ec) as (H1 & _ & L1 & B1 & N1 & _).
    destruct (IH _ _ _ H1 E) as (H2 & L2 & B2 & N2). splits; auto; congruence.
Qed.

(** all_locs of an updated back-patch stack *)
Lemma all_locs_update : forall bp l locs res x,
  nth_error bp l = Some (JUnknown locs res) ->
  forall q, In q (all_locs (update_nth bp l (JUnknown (locs ++ [x]) res))) <-> q = x \/ In q (all_locs bp).
Proof.
  induction bp as [|j bp IH]; intros [|l] locs res x E q; cbn in E; try discriminate.
  - inversion E; subst. cbn [update_nth all_locs flat_map locs_of]. rewrite !in_app_iff. cbn. intuition.
  - cbn [update_nth all_locs flat_map]. fold (all_locs bp). fold (all_locs (update_nth bp l (JUnknown (locs ++ [x]) res))).
    rewrite !in_app_iff, (IH l locs res x E q). intuition.
Qed.
Lemma in_update_nth {A} : forall (bp : list A) l y z, In z (update_nth bp l y) -> z = y \/ In z bp.
Proof.
  induction bp as [|j bp IH]; intros [|l] y z H; cbn in H; auto.
  - destruct H; auto. right; right; auto.
  - destruct H as [H|H]; [right; left; auto|]. destruct (IH _ _ _ H); auto. right; right; auto.
Qed.

Lemma I_insert_jump bs s fl l s' :
  Iv bs s fl -> c_last s = None -> insert_jump_location s l = Some s' ->
  exists t, Iv bs s' (fl ++ [FTgt t]) /\ c_last s' = None /\ c_next s' = c_next s /\ c_stack s' = c_stack s
  /\ length (c_bp s') = length (c_bp s).
Proof.
  intros H Hl E. unfold insert_jump_location in E. destruct (nth_error (c_bp s) l) as [[pos|locs res]|] eqn:En; [| |discriminate].
  - inversion E; subst; clear E. exists pos. splits; auto.
    apply (L_emit bs _ s fl (FTgt pos)); auto. cbn; auto.
    intros t Et. inversion Et; subst. apply (l_known _ _ _ _ _ H). eapply nth_error_In; eauto.
  - inversion E; subst; clear E. exists 0.
    set (s1 := set_bp s (update_nth (c_bp s) l (JUnknown (locs ++ [cur_off s]) res))).
    assert (Hlen : forall (bp : list jump_target) k y, length (update_nth bp k y) = length bp).
    { induction bp as [|j bp IH]; intros [|k] y; cbn; auto. }
    splits; auto; [|cbn; apply Hlen].
    unfold Iv. eapply (L_pl nl).
    + eapply (L_app_pend nl bs (all_locs (c_bp s)) s (emit s1 (u32_bytes 0)) fl H); try reflexivity.
      * eapply cwf_same; [|apply (l_cwf _ _ _ _ _ H)]. repeat split.
      * cbn [emit s1 set_out set_bp c_bp]. intros pos Hp. apply in_update_nth in Hp. destruct Hp as [Hp|Hp]; [discriminate|auto].
      * cbn [emit s1 set_out set_bp c_bp]. intros lo r Hp. apply in_update_nth in Hp. destruct Hp as [Hp|Hp]; [|eauto].
        inversion Hp; subst. exists locs. eapply nth_error_In; eauto.
      * cbn. exact Hl.
    + intros q. cbn [emit s1 set_out set_bp c_bp]. rewrite (all_locs_update _ _ _ _ (cur_off s) En q).
      rewrite (cur_off_off _ _ _ _ H). cbn [In]. intuition.
Qed.

End Safe2.
