(** * Wasm/Meter — model of the metering transformation
    (smart-contracts/wasm-transform/src/metering_transformation.rs).

    Two presentations, tied to each other by [MeterProofs.flat_structured_agree] and both tied to
    the implementation by the C02 correspondence check:

    - [trun]/[inject_accounting_flat]: a line-by-line transcription of
      [InstrSeqTransformer::run] over the flat opcode sequence, with the accumulator [energy],
      the [pending_instructions], the label stack and the output sequence;
    - [mseq]/[meter_body]: the same transformation as a compositional function on structured code
      ([Syntax.instr]), which is what the semantic theorems are proved about: [mseq] returns the
      cost [h] of the *head segment* of the sequence (the instructions executed unconditionally
      before the first flush point) and the transformed sequence WITHOUT the tick for that head
      segment - the caller merges [h] into the tick it emits before.

    [inject] is [Module::inject_metering]: new type appended, [account_memory] imported at function
    index 0, every element-segment entry and (not part of [Syntax.module]: see [inject_exports])
    every exported function index shifted by one, every function body metered.

    The cost configuration is a parameter ([CostCtx.cost_cfg]); the two instances are generated
    ([Gen/CostV0.v], [Gen/CostV1.v]).  Definitions only. *)
From Coq Require Import ZArith NArith List Bool.
From CB Require Import Wasm.Syntax Wasm.CostCtx.
Import ListNotations.
Local Open Scope N_scope.

(** [FN_IDX_MEMORY_ALLOC], [NUM_ADDED_FUNCTIONS] *)
Definition fn_idx_memory_alloc : nat := 0%nat.
Definition num_added_functions : nat := 1%nat.

(** [account_energy]: [TickEnergy(e.try_into()?)] - the amount must fit u32. *)
Definition u32_max : N := 4294967295.
Definition fits_u32 (e : N) : bool := e <=? u32_max.

(** ** Annotated instructions (see section 2) *)
Inductive origin := OSrc (c : N) (taken : N) | OInj.
Inductive ainstr :=
| ABasic (o : origin) (b : binstr)
| ABlock (o : origin) (bt : blocktype) (body : list ainstr)
| ALoop (o : origin) (bt : blocktype) (body : list ainstr)
| AIf (o : origin) (bt : blocktype) (thn els : list ainstr).

Fixpoint erase (a : ainstr) : instr :=
  match a with
  | ABasic _ b => Basic b
  | ABlock _ bt body => Block bt (map erase body)
  | ALoop _ bt body => Loop bt (map erase body)
  | AIf _ bt thn els => If bt (map erase thn) (map erase els)
  end.
Definition erase_seq (is : list ainstr) : list instr := map erase is.

Definition obind {A B} (o : option A) (f : A -> option B) : option B :=
  match o with Some x => f x | None => None end.

Section WithConfig.
Variable cfg : cost_cfg.
Variable cx : cost_ctx.

(** ** 1. Flat transcription of [InstrSeqTransformer] *)
Record tstate := {
  ts_labels : list blocktype;     (* innermost first, see CostCtx *)
  ts_new : list opcode;           (* new_seq *)
  ts_energy : N;                  (* energy *)
  ts_pending : list opcode        (* pending_instructions *)
}.

Definition account_energy (st : tstate) (e : N) : option tstate :=
  if fits_u32 e then
    Some {| ts_labels := ts_labels st; ts_new := ts_new st ++ [OBasic (BTick e)];
            ts_energy := ts_energy st; ts_pending := ts_pending st |}
  else None.

Definition account_energy_push_pending (st : tstate) : option tstate :=
  match (if 0 <? ts_energy st
         then match account_energy st (ts_energy st) with
              | Some s => Some {| ts_labels := ts_labels s; ts_new := ts_new s; ts_energy := 0;
                                  ts_pending := ts_pending s |}
              | None => None
              end
         else Some st) with
  | Some s => Some {| ts_labels := ts_labels s; ts_new := ts_new s ++ ts_pending s;
                      ts_energy := ts_energy s; ts_pending := [] |}
  | None => None
  end.

Definition add_to_new (st : tstate) (o : opcode) : tstate :=
  {| ts_labels := ts_labels st; ts_new := ts_new st ++ [o]; ts_energy := ts_energy st;
     ts_pending := ts_pending st |}.
Definition add_to_pending (st : tstate) (o : opcode) : tstate :=
  {| ts_labels := ts_labels st; ts_new := ts_new st; ts_energy := ts_energy st;
     ts_pending := ts_pending st ++ [o] |}.
Definition set_labels (st : tstate) (l : list blocktype) : tstate :=
  {| ts_labels := l; ts_new := ts_new st; ts_energy := ts_energy st; ts_pending := ts_pending st |}.
Definition add_energy (st : tstate) (e : N) : tstate :=
  {| ts_labels := ts_labels st; ts_new := ts_new st; ts_energy := ts_energy st + e;
     ts_pending := ts_pending st |}.

Definition add_instr_account_energy (st : tstate) (o : opcode) : option tstate :=
  match account_energy_push_pending st with
  | Some s => Some (add_to_new s o)
  | None => None
  end.

(** one iteration of the [for instr in input_instructions] loop of [run] *)
Definition tstep (st0 : tstate) (instr : opcode) : option tstate :=
  obind (c_cost cfg instr (ts_labels st0) cx) (fun c =>
  let st := add_energy st0 c in
  match instr with
  | OBlock bt => Some (add_to_pending (set_labels st (bt :: ts_labels st)) instr)
  | OLoop _ =>
      obind (account_energy_push_pending st) (fun s =>
      Some (add_to_new (set_labels s (None :: ts_labels s)) instr))
  | OIf ty =>
      obind (account_energy_push_pending st) (fun s =>
      Some (add_to_new (set_labels s (ty :: ts_labels s)) instr))
  | OBasic BReturn =>
      obind (account_energy_push_pending st) (fun s => Some (add_to_new s instr))
  | OEnd =>
      obind (account_energy_push_pending st) (fun s =>
      Some (add_to_new (set_labels s (tl (ts_labels s))) instr))
  | OElse =>
      obind (account_energy_push_pending st) (fun s =>
      match ts_labels s with
      | [] => None       (* "Else branch that does not have a label" *)
      | _ :: _ => Some (add_to_new s instr)
      end)
  | OBasic BMemoryGrow =>
      Some (add_to_pending (add_to_pending st (OBasic (BCall fn_idx_memory_alloc))) instr)
  | OBasic BUnreachable => add_instr_account_energy st instr
  | OBasic (BBr _) => add_instr_account_energy st instr
  | OBasic (BBrIf idx) =>
      obind (account_energy_push_pending st) (fun s =>
      obind (lookup_label (ts_labels s) idx) (fun label_arity =>
      if label_arity =? 0 then
        let s1 := add_to_new s (OIf None) in
        obind (account_energy s1 (c_branch cfg label_arity)) (fun s2 =>
        Some (add_to_new (add_to_new s2 (OBasic (BBr (idx + 1)%nat))) OEnd))
      else if label_arity =? 1 then
        let s1 := add_to_new s (OIf (Some T_i32)) in
        obind (account_energy s1 (c_branch cfg label_arity)) (fun s2 =>
        Some (add_to_new (add_to_new (add_to_new (add_to_new (add_to_new s2
               (OBasic (BConst T_i32 1%Z))) OElse) (OBasic (BConst T_i32 0%Z))) OEnd) (OBasic (BBrIf idx))))
      else None))
  | OBasic (BBrTable _ _) => add_instr_account_energy st instr
  | OBasic (BCall idx) => add_instr_account_energy st (OBasic (BCall (idx + num_added_functions)%nat))
  | OBasic (BCallIndirect _) => add_instr_account_energy st instr
  | _ => Some (add_to_pending st instr)
  end).

Fixpoint tloop (st : tstate) (ops : list opcode) : option tstate :=
  match ops with
  | [] => Some st
  | o :: r => obind (tstep st o) (fun s => tloop s r)
  end.

(** [InstrSeqTransformer::run] *)
Definition trun (st : tstate) (ops : list opcode) : option tstate :=
  obind (tloop st ops) (fun s =>
  match ts_pending s with
  | [] => Some s
  | _ :: _ => account_energy_push_pending s
  end).

(** [inject_accounting]: [num_declared_locals] = [function.num_locals - num_params];
    [result] = the function's result type; [ops] = the body including its final [End]. *)
Definition inject_accounting_flat (num_declared_locals : N) (result : blocktype) (ops : list opcode)
  : option (list opcode) :=
  let st := {| ts_labels := [result]; ts_new := []; ts_energy := c_invoke_after cfg num_declared_locals;
               ts_pending := [] |} in
  match trun st ops with Some s => Some (ts_new s) | None => None end.

(** ** 2. Structured presentation

    The structured transformer produces ANNOTATED instructions: every instruction of the output
    records whether it stems from a source instruction ([OSrc c tk]: [c] = the cost [get_cost]
    gives that source instruction in its source context; [tk] = the additional cost [branch] of
    a taken [br_if]) or was injected by the transformation ([OInj]).  [erase] forgets the
    annotation; the annotation only drives the event trace of [Wasm/SemTrace.v]. *)
Definition tick_opt (h : N) : list ainstr := if 0 <? h then [ABasic OInj (BTick h)] else [].
(** a segment of cost [h] can only be emitted if [h] fits u32 *)
Definition seg_ok (h : N) : bool := fits_u32 h.

(** the replacement of [br_if idx] (target label of arity 0 / 1); [c] = cost of the [br_if] *)
Definition brif_rewrite (c : N) (arity : N) (idx : nat) : option (list ainstr) :=
  let b := c_branch cfg arity in
  if negb (fits_u32 b) then None
  else if arity =? 0 then
    Some [AIf (OSrc c 0) None [ABasic OInj (BTick b); ABasic (OSrc b 0) (BBr (idx + 1)%nat)] []]
  else if arity =? 1 then
    Some [AIf (OSrc c 0) (Some T_i32) [ABasic OInj (BTick b); ABasic OInj (BConst T_i32 1%Z)]
                                      [ABasic OInj (BConst T_i32 0%Z)];
          ABasic (OSrc 0 b) (BBrIf idx)]
  else None.

(** how [run] treats a basic instruction *)
Inductive bkind := KPending | KFlushKeep | KCall (idx : nat) | KBrIf (idx : nat) | KMemGrow | KTick.
Definition kind_of (b : binstr) : bkind :=
  match b with
  | BUnreachable | BBr _ | BBrTable _ _ | BCallIndirect _ | BReturn => KFlushKeep
  | BCall idx => KCall idx
  | BBrIf idx => KBrIf idx
  | BMemoryGrow => KMemGrow
  | BTick _ => KTick   (* never in a parsed module; the structured presentation is not defined on it *)
  | _ => KPending
  end.

(** [mi L i] = [Some (h, pre, fl)]: the transformed form [pre] of the single instruction [i]
    (one or two instructions), the cost [h] that [i] contributes to the segment it is the head of, and
    whether the straight-line segment ends with [i] ([fl] = true: the instructions after [i] start a new
    segment and get their own tick).
    [mseq L is] = [Some (h, is')]: [h] = cost of the head segment of [is], [is'] = transformed
    sequence without the tick of the head segment.  The delimiters [End]/[Else] cost 0 in both
    schedules ([cost_positive]); [MeterProofs.flat_structured_agree] has that as hypothesis. *)
Definition mcombine (r : N * list ainstr * bool) (hr : N) (rest' : list ainstr) : option (N * list ainstr) :=
  let '(h, pre, fl) := r in
  if fl then (if seg_ok hr then Some (h, pre ++ tick_opt hr ++ rest') else None)
  else Some (h + hr, pre ++ rest').

Fixpoint mi (L : list blocktype) (i : instr) {struct i} : option (N * list ainstr * bool) :=
  let mseq_in := fix mseq_in (L' : list blocktype) (is : list instr) {struct is} : option (N * list ainstr) :=
    match is with
    | [] => Some (0, [])
    | j :: r =>
        match mseq_in L' r, mi L' j with
        | Some (hr, r'), Some x => mcombine x hr r'
        | _, _ => None
        end
    end in
  match i with
  | Basic b =>
      obind (c_cost cfg (OBasic b) L cx) (fun c =>
      match kind_of b with
      | KPending => Some (c, [ABasic (OSrc c 0) b], false)
      | KMemGrow => Some (c, [ABasic OInj (BCall fn_idx_memory_alloc); ABasic (OSrc c 0) b], false)
      | KFlushKeep => Some (c, [ABasic (OSrc c 0) b], true)
      | KCall idx => Some (c, [ABasic (OSrc c 0) (BCall (idx + num_added_functions)%nat)], true)
      | KBrIf idx =>
          obind (lookup_label L idx) (fun a =>
          obind (brif_rewrite c a idx) (fun rw => Some (c, rw, true)))
      | KTick => None
      end)
  | Block bt body =>
      obind (c_cost cfg (OBlock bt) L cx) (fun c =>
      obind (mseq_in (bt :: L) body) (fun '(hb, body') =>
      Some (c + hb, [ABlock (OSrc c 0) bt body'], true)))
  | Loop bt body =>
      obind (c_cost cfg (OLoop bt) L cx) (fun c =>
      obind (mseq_in (None :: L) body) (fun '(hb, body') =>
      if seg_ok hb then Some (c, [ALoop (OSrc c 0) bt (tick_opt hb ++ body')], true) else None))
  | If bt thn els =>
      obind (c_cost cfg (OIf bt) L cx) (fun c =>
      obind (mseq_in (bt :: L) thn) (fun '(ht, thn') =>
      obind (mseq_in (bt :: L) els) (fun '(he, els') =>
      if seg_ok ht && seg_ok he
      then Some (c, [AIf (OSrc c 0) bt (tick_opt ht ++ thn') (tick_opt he ++ els')], true)
      else None)))
  end.

Fixpoint mseq (L : list blocktype) (is : list instr) : option (N * list ainstr) :=
  match is with
  | [] => Some (0, [])
  | j :: r =>
      match mseq L r, mi L j with
      | Some (hr, r'), Some x => mcombine x hr r'
      | _, _ => None
      end
  end.

(** metered body of a function with [nl] declared locals and result type [result]:
    returns the amount of the entry tick's [invoke_after] part and the annotated body *)
Definition ameter_body (nl : N) (result : blocktype) (body : list instr) : option (list ainstr) :=
  obind (mseq [result] body) (fun '(h, body') =>
  let ia := c_invoke_after cfg nl in
  let e := ia + h in
  if seg_ok e then Some ((if 0 <? e then [ABasic (OSrc ia 0) (BTick e)] else []) ++ body') else None).

Definition meter_body (nl : N) (result : blocktype) (body : list instr) : option (list instr) :=
  match ameter_body nl result body with Some b => Some (erase_seq b) | None => None end.

(** the source program annotated with its own costs (what "work" means) *)
Fixpoint annot_instr (L : list blocktype) (i : instr) {struct i} : option ainstr :=
  let annot_in := fix annot_in (L' : list blocktype) (is : list instr) {struct is} : option (list ainstr) :=
    match is with
    | [] => Some []
    | j :: r => match annot_instr L' j, annot_in L' r with
                | Some a, Some r' => Some (a :: r')
                | _, _ => None
                end
    end in
  match i with
  | Basic b =>
      obind (c_cost cfg (OBasic b) L cx) (fun c =>
      match b with
      | BBrIf idx => obind (lookup_label L idx) (fun a => Some (ABasic (OSrc c (c_branch cfg a)) b))
      | _ => Some (ABasic (OSrc c 0) b)
      end)
  | Block bt body =>
      obind (c_cost cfg (OBlock bt) L cx) (fun c =>
      obind (annot_in (bt :: L) body) (fun body' => Some (ABlock (OSrc c 0) bt body')))
  | Loop bt body =>
      obind (c_cost cfg (OLoop bt) L cx) (fun c =>
      obind (annot_in (None :: L) body) (fun body' => Some (ALoop (OSrc c 0) bt body')))
  | If bt thn els =>
      obind (c_cost cfg (OIf bt) L cx) (fun c =>
      obind (annot_in (bt :: L) thn) (fun thn' =>
      obind (annot_in (bt :: L) els) (fun els' => Some (AIf (OSrc c 0) bt thn' els'))))
  end.
Fixpoint annot_seq (L : list blocktype) (is : list instr) : option (list ainstr) :=
  match is with
  | [] => Some []
  | j :: r => match annot_instr L j, annot_seq L r with
              | Some a, Some r' => Some (a :: r')
              | _, _ => None
              end
  end.

End WithConfig.

(** ** 3. [Module::inject_metering] *)
Definition account_memory_type : functype := {| ft_params := [T_i32]; ft_result := Some T_i32 |}.

Fixpoint omap_list {A B} (f : A -> option B) (l : list A) : option (list B) :=
  match l with
  | [] => Some []
  | x :: r => match f x, omap_list f r with Some y, Some r' => Some (y :: r') | _, _ => None end
  end.

Definition meter_func (cfg : cost_cfg) (m : module) (f : func) : option func :=
  match nth_error (m_types m) (f_type f) with
  | Some ft =>
      match meter_body cfg (ctx_of_module m) (N.of_nat (length (f_locals f))) (ft_result ft) (f_body f) with
      | Some b => Some {| f_type := f_type f; f_locals := f_locals f; f_body := b |}
      | None => None
      end
  | None => None
  end.

Definition shift_elems (es : list (N * list nat)) : list (N * list nat) :=
  map (fun e => (fst e, map (fun i => (i + num_added_functions)%nat) (snd e))) es.

Definition inject (cfg : cost_cfg) (m : module) : option module :=
  match omap_list (meter_func cfg m) (m_funcs m) with
  | Some fs =>
      Some {| m_types := m_types m ++ [account_memory_type];
              m_imports := length (m_types m) :: m_imports m;
              m_funcs := fs;
              m_table := m_table m;
              m_elems := shift_elems (m_elems m);
              m_mem := m_mem m;
              m_data := m_data m;
              m_globals := m_globals m |}
  | None => None
  end.

(** exported function indices ([Syntax.module] has no export section: an export is the function
    index the embedder invokes) *)
Definition inject_exports (es : list nat) : list nat := map (fun i => (i + num_added_functions)%nat) es.

(** flat form of a whole module's metered code, as the implementation stores it
    ([Module.code.impls[i].expr.instrs]) *)
Definition inject_flat (cfg : cost_cfg) (m : module) (bodies : list (list opcode)) : option (list (list opcode)) :=
  omap_list (fun fb : func * list opcode =>
    match nth_error (m_types m) (f_type (fst fb)) with
    | Some ft => inject_accounting_flat cfg (ctx_of_module m) (N.of_nat (length (f_locals (fst fb))))
                   (ft_result ft) (snd fb)
    | None => None
    end) (combine (m_funcs m) bodies).
