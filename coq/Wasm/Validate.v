(** * Wasm/Validate — executable model of validate.rs (wasm-transform).

    Function level: [vstep] is a transcription of the body of the [for opcode in opcodes]
    loop of [validate::validate]: operand stack of [MaybeKnown] types, control frames with
    [is_if / label_type / end_type / unreachable], maximum reachable stack height, and the
    checks of the default handler ([PureWasmModuleHandler]: no [TickEnergy]).
    The code is the flat opcode sequence of [Wasm/Syntax.v] paired with the alignment
    immediate of memory instructions (which [binstr] does not carry).

    Data representation: the implementation keeps ONE operand vector and stores in every
    control frame the [height] of that vector at frame entry; the model keeps the operands
    of each frame inside the frame ([fr_opds]) - the concatenation of the segments,
    innermost first, followed by [vs_base] entries pushed while no frame is open, is the
    implementation's vector, and [height] of a frame is the total length of everything
    below it.  [opds.len() == frame.height] is [fr_opds = []].  The maximum height is
    computed over the total length, as in the implementation, and is compared with the
    implementation's [max_reachable_height] by the correspondence check.

    Module level: [validate_module] transcribes the checks of [validate::validate_module]
    and the limit checks the parser performs while reading the table / memory sections
    (parse.rs [TableType], [MemoryType], [Limits]), over an already decoded module.

    Definitions only; proofs in [Wasm/ValidateProofs.v]. *)
From Coq Require Import ZArith NArith List Bool Arith.
From CB Require Import Common.IntN Wasm.Syntax Gen.Limits.
Import ListNotations.

Inductive mk := Unknown | Known (t : valtype).
Definition mk_is_unknown (m : mk) : bool := match m with Unknown => true | Known _ => false end.
Definition mk_eqb (a b : mk) : bool :=
  match a, b with
  | Unknown, Unknown => true
  | Known x, Known y => valtype_eqb x y
  | _, _ => false
  end.

(** validation context of one function ([FunctionContext]) *)
Record vctx := {
  vc_types : list functype;
  vc_funcs : list nat;                  (* type index of every function, imports first *)
  vc_globals : list (valtype * bool);   (* type, mutable *)
  vc_locals : list valtype;             (* parameters followed by the declared locals *)
  vc_memory : bool;
  vc_table : bool;
  vc_return : blocktype;
  vc_signext : bool                     (* the parser admits the sign-extension opcodes *)
}.

Record frame := {
  fr_is_if : bool;
  fr_label : blocktype;
  fr_end : blocktype;
  fr_unreachable : bool;
  fr_opds : list mk                     (* operands pushed inside this frame, top first *)
}.
Record vstate := {
  vs_ctrls : list frame;                (* innermost first *)
  vs_base : nat;                        (* operands pushed while no frame is open *)
  vs_max : nat                          (* max_reachable_height *)
}.

Fixpoint ctrls_height (cs : list frame) : nat :=
  match cs with [] => O | f :: r => (length (fr_opds f) + ctrls_height r)%nat end.
Definition total_height (s : vstate) : nat := (ctrls_height (vs_ctrls s) + vs_base s)%nat.

Definition set_top (s : vstate) (f : frame) (rest : list frame) : vstate :=
  {| vs_ctrls := f :: rest; vs_base := vs_base s; vs_max := vs_max s |}.
Definition with_opds (f : frame) (o : list mk) : frame :=
  {| fr_is_if := fr_is_if f; fr_label := fr_label f; fr_end := fr_end f;
     fr_unreachable := fr_unreachable f; fr_opds := o |}.

(** [push_opd] *)
Definition push_opd (m : mk) (s : vstate) : vstate :=
  match vs_ctrls s with
  | [] => {| vs_ctrls := []; vs_base := S (vs_base s); vs_max := vs_max s |}
  | f :: rest =>
      let s' := set_top s (with_opds f (m :: fr_opds f)) rest in
      if fr_unreachable f then s'
      else {| vs_ctrls := vs_ctrls s'; vs_base := vs_base s'; vs_max := Nat.max (vs_max s) (total_height s') |}
  end.

(** [pop_opd] *)
Definition pop_opd (s : vstate) : option (mk * vstate) :=
  match vs_ctrls s with
  | [] => None                                        (* "Control frame exhausted." *)
  | f :: rest =>
      match fr_opds f with
      | [] => if fr_unreachable f then Some (Unknown, s) else None
      | m :: o => Some (m, set_top s (with_opds f o) rest)
      end
  end.

(** [pop_expect_opd]: the more precise of the expected and the actual type *)
Definition pop_expect (e : mk) (s : vstate) : option (mk * vstate) :=
  match pop_opd s with
  | None => None
  | Some (a, s') =>
      if mk_is_unknown a then Some (e, s')
      else if mk_is_unknown e then Some (a, s')
      else if mk_eqb a e then Some (a, s') else None
  end.
Definition pop_known (t : valtype) (s : vstate) : option vstate :=
  match pop_expect (Known t) s with Some (_, s') => Some s' | None => None end.

Definition push_opds (bt : blocktype) (s : vstate) : vstate :=
  match bt with Some t => push_opd (Known t) s | None => s end.
Definition pop_opds (bt : blocktype) (s : vstate) : option vstate :=
  match bt with Some t => pop_known t s | None => Some s end.

Definition push_ctrl (is_if : bool) (label end_ : blocktype) (s : vstate) : vstate :=
  {| vs_ctrls := {| fr_is_if := is_if; fr_label := label; fr_end := end_;
                    fr_unreachable := false; fr_opds := [] |} :: vs_ctrls s;
     vs_base := vs_base s; vs_max := vs_max s |}.

(** [pop_ctrl]: result type and the [is_if] flag of the popped frame *)
Definition pop_ctrl (s : vstate) : option (blocktype * bool * vstate) :=
  match vs_ctrls s with
  | [] => None
  | f :: _ =>
      match pop_opds (fr_end f) s with
      | None => None
      | Some s1 =>
          match vs_ctrls s1 with
          | f1 :: rest =>
              match fr_opds f1 with
              | [] => Some (fr_end f, fr_is_if f,
                            {| vs_ctrls := rest; vs_base := vs_base s1; vs_max := vs_max s1 |})
              | _ :: _ => None                        (* "Operand stack not exhausted." *)
              end
          | [] => None
          end
      end
  end.

Definition mark_unreachable (s : vstate) : option vstate :=
  match vs_ctrls s with
  | [] => None
  | f :: rest =>
      Some (set_top s {| fr_is_if := fr_is_if f; fr_label := fr_label f; fr_end := fr_end f;
                         fr_unreachable := true; fr_opds := [] |} rest)
  end.

Definition get_label (s : vstate) (n : nat) : option blocktype :=
  match nth_error (vs_ctrls s) n with Some f => Some (fr_label f) | None => None end.
Definition outermost (s : vstate) : option frame := last (map Some (vs_ctrls s)) None.

Definition get_type (c : vctx) (i : nat) : option functype := nth_error (vc_types c) i.
Definition get_func (c : vctx) (i : nat) : option functype :=
  match nth_error (vc_funcs c) i with Some ti => get_type c ti | None => None end.

(** pop the parameters (last parameter on top) *)
Fixpoint pop_params (ps : list valtype) (s : vstate) : option vstate :=
  match ps with
  | [] => Some s
  | t :: r => match pop_known t s with Some s' => pop_params r s' | None => None end
  end.

(** [ensure_alignment]: the exponent may not exceed log2 of the access width *)
Definition max_align (width : nat) : N :=
  match width with 1%nat => 0 | 2%nat => 1 | 4%nat => 2 | _ => 3 end%N.
Definition load_width (t : valtype) (pk : option (packsize * sx)) : nat :=
  match pk with None => type_bytes t | Some (p, _) => pack_bytes p end.
Definition store_width (t : valtype) (pk : option packsize) : nat :=
  match pk with None => type_bytes t | Some p => pack_bytes p end.
(** the binary format has no i32 access of packed width 32 *)
Definition pack_ok (t : valtype) (p : packsize) : bool :=
  match t, p with T_i32, P32 => false | _, _ => true end.
Definition is_signext (op : unop) : bool :=
  match op with Extend8S | Extend16S | Extend32S => true | _ => false end.
Definition unop_ok (c : vctx) (t : valtype) (op : unop) : bool :=
  (negb (is_signext op) || vc_signext c)
  && match t, op with T_i32, Extend32S => false | _, _ => true end.

Definition obind {A B} (o : option A) (f : A -> option B) : option B :=
  match o with Some x => f x | None => None end.
Notation "'do' x <- a ; b" := (obind a (fun x => b)) (at level 200, x pattern, a at level 100, b at level 200).
Definition guard (b : bool) : option unit := if b then Some tt else None.

Definition cvt_types (op : cvtop) : valtype * valtype :=
  match op with WrapI64 => (T_i64, T_i32) | ExtendI32S | ExtendI32U => (T_i32, T_i64) end.

(** one basic instruction *)
Definition vstep_basic (c : vctx) (s : vstate) (b : binstr) (align : N) : option vstate :=
  match b with
  | BNop => Some s
  | BUnreachable => mark_unreachable s
  | BBr l => do lt <- get_label s l; do s1 <- pop_opds lt s; mark_unreachable s1
  | BBrIf l =>
      do lt <- get_label s l; do s1 <- pop_known T_i32 s; do s2 <- pop_opds lt s1; Some (push_opds lt s2)
  | BBrTable ls d =>
      do _ <- guard (N.of_nat (length ls) <=? MAX_SWITCH_SIZE)%N;
      do dlt <- get_label s d;
      do _ <- guard (forallb (fun l => match get_label s l with
                                       | Some lt => blocktype_eqb dlt lt | None => false end) ls);
      do s1 <- pop_known T_i32 s; do s2 <- pop_opds dlt s1; mark_unreachable s2
  | BReturn =>
      match outermost s with
      | Some f => do s1 <- pop_opds (fr_label f) s; mark_unreachable s1
      | None => Some s
      end
  | BCall f =>
      do ft <- get_func c f; do s1 <- pop_params (rev (ft_params ft)) s; Some (push_opds (ft_result ft) s1)
  | BCallIndirect ti =>
      do _ <- guard (vc_table c); do ft <- get_type c ti; do s1 <- pop_known T_i32 s;
      do s2 <- pop_params (rev (ft_params ft)) s1; Some (push_opds (ft_result ft) s2)
  | BDrop => do r <- pop_opd s; Some (snd r)
  | BSelect =>
      do s1 <- pop_known T_i32 s; do r1 <- pop_opd s1;
      do r2 <- pop_expect (fst r1) (snd r1); Some (push_opd (fst r2) (snd r2))
  | BLocalGet i => do t <- nth_error (vc_locals c) i; Some (push_opd (Known t) s)
  | BLocalSet i => do t <- nth_error (vc_locals c) i; pop_known t s
  | BLocalTee i =>
      do t <- nth_error (vc_locals c) i; do r <- pop_expect (Known t) s; Some (push_opd (fst r) (snd r))
  | BGlobalGet i => do g <- nth_error (vc_globals c) i; Some (push_opd (Known (fst g)) s)
  | BGlobalSet i => do g <- nth_error (vc_globals c) i; do _ <- guard (snd g); pop_known (fst g) s
  | BLoad t pk off =>
      do _ <- guard (vc_memory c);
      do _ <- guard (match pk with Some (p, _) => pack_ok t p | None => true end);
      do _ <- guard (align <=? max_align (load_width t pk))%N;
      do s1 <- pop_known T_i32 s; Some (push_opd (Known t) s1)
  | BStore t pk off =>
      do _ <- guard (vc_memory c);
      do _ <- guard (match pk with Some p => pack_ok t p | None => true end);
      do _ <- guard (align <=? max_align (store_width t pk))%N;
      do s1 <- pop_known t s; pop_known T_i32 s1
  | BMemorySize => do _ <- guard (vc_memory c); Some (push_opd (Known T_i32) s)
  | BMemoryGrow => do _ <- guard (vc_memory c); do s1 <- pop_known T_i32 s; Some (push_opd (Known T_i32) s1)
  | BConst t _ => Some (push_opd (Known t) s)
  | BUnop t op => do _ <- guard (unop_ok c t op); do s1 <- pop_known t s; Some (push_opd (Known t) s1)
  | BBinop t _ => do s1 <- pop_known t s; do s2 <- pop_known t s1; Some (push_opd (Known t) s2)
  | BEqz t => do s1 <- pop_known t s; Some (push_opd (Known T_i32) s1)
  | BRelop t _ => do s1 <- pop_known t s; do s2 <- pop_known t s1; Some (push_opd (Known T_i32) s2)
  | BCvt op => do s1 <- pop_known (fst (cvt_types op)) s; Some (push_opd (Known (snd (cvt_types op))) s1)
  | BTick _ => None                   (* PureWasmModuleHandler: ensure!(!TickEnergy) *)
  end.

Notation vop := (opcode * N)%type (only parsing).

Definition vstep (c : vctx) (s : vstate) (o : vop) : option vstate :=
  match fst o with
  | OEnd =>
      do r <- pop_ctrl s;
      let '(res, is_if, s1) := r in
      do _ <- guard (negb is_if || blocktype_eqb res None);
      Some (push_opds res s1)
  | OBlock bt => Some (push_ctrl false bt bt s)
  | OLoop bt => Some (push_ctrl false None bt s)
  | OIf bt => do s1 <- pop_known T_i32 s; Some (push_ctrl true bt bt s1)
  | OElse =>
      do r <- pop_ctrl s;
      let '(res, is_if, s1) := r in
      do _ <- guard is_if; Some (push_ctrl false res res s1)
  | OBasic b => vstep_basic c s b (snd o)
  end.

Fixpoint vrun (c : vctx) (s : vstate) (ops : list vop) : option vstate :=
  match ops with
  | [] => Some s
  | o :: r => match vstep c s o with Some s' => vrun c s' r | None => None end
  end.

Definition vinit (c : vctx) : vstate :=
  push_ctrl false (vc_return c) (vc_return c) {| vs_ctrls := []; vs_base := O; vs_max := O |}.

(** [validate]: [Some max_reachable_height] iff the body is accepted *)
Definition validate_func (c : vctx) (ops : list vop) : option nat :=
  match vrun c (vinit c) ops with
  | Some s => match vs_ctrls s with [] => Some (vs_max s) | _ :: _ => None end
  | None => None
  end.

(** The implementation keeps processing opcodes after the control stack has become empty
    (after the [end] that closes the function body).  [vrun_strict] is the run that stops
    there, as the specification's grammar [expr ::= instr* end] demands; [ends_early] says
    that the two differ (finding KF-C09-1). *)
Fixpoint vrun_strict (c : vctx) (s : vstate) (ops : list vop) : option vstate :=
  match ops with
  | [] => Some s
  | o :: r =>
      match vs_ctrls s with
      | [] => None
      | _ :: _ => match vstep c s o with Some s' => vrun_strict c s' r | None => None end
      end
  end.
Definition validate_func_strict (c : vctx) (ops : list vop) : option nat :=
  match vrun_strict c (vinit c) ops with
  | Some s => match vs_ctrls s with [] => Some (vs_max s) | _ :: _ => None end
  | None => None
  end.
(** some opcode is processed while the control stack is empty *)
Fixpoint ends_early_from (c : vctx) (s : vstate) (ops : list vop) : bool :=
  match ops with
  | [] => false
  | o :: r =>
      match vs_ctrls s with
      | [] => true
      | _ :: _ => match vstep c s o with Some s' => ends_early_from c s' r | None => false end
      end
  end.
Definition ends_early (c : vctx) (ops : list vop) : bool := ends_early_from c (vinit c) ops.

(** ** Module level *)
Record mfunc := {
  mf_type : nat;
  mf_locals : list (N * valtype);       (* (multiplicity, type) groups as in the binary *)
  mf_body : list vop
}.
Record vmodule := {
  vm_types : list functype;
  vm_imports : list nat;                (* type index of each imported function *)
  vm_funcs : list mfunc;
  vm_table : option N;                  (* minimum = size *)
  vm_mem : option (N * option N);       (* pages: min, max *)
  vm_globals : list (valtype * bool);   (* type, mutable *)
  vm_exports : list (N * N * N);        (* name (interned), kind 0..3, index *)
  vm_elems : list (N * list N);         (* offset, function indices *)
  vm_data : list (N * N)                (* offset, length *)
}.

Definition u32_max : N := 4294967295.

(** [make_locals]: [None] if the total (with u32 overflow check) exceeds ALLOWED_LOCALS *)
Fixpoint sum_mult (ls : list (N * valtype)) (acc : N) : N :=
  match ls with [] => acc | (n, _) :: r => sum_mult r (acc + n)%N end.
Definition make_locals (params : list valtype) (ls : list (N * valtype)) : option (list valtype) :=
  let total := sum_mult ls (N.of_nat (length params)) in
  if (total <=? ALLOWED_LOCALS)%N
  then Some (params ++ flat_map (fun '(n, t) => repeat t (N.to_nat n)) ls)
  else None.

Definition func_ctx (signext : bool) (m : vmodule) (ft : functype) (locals : list valtype) : vctx :=
  {| vc_types := vm_types m;
     vc_funcs := vm_imports m ++ map mf_type (vm_funcs m);
     vc_globals := vm_globals m;
     vc_locals := locals;
     vc_memory := match vm_mem m with Some _ => true | None => false end;
     vc_table := match vm_table m with Some _ => true | None => false end;
     vc_return := ft_result ft;
     vc_signext := signext |}.

(** one function: accepted, and locals + max height within MAX_ALLOWED_STACK_HEIGHT *)
Definition validate_mfunc (signext : bool) (m : vmodule) (f : mfunc) : option (nat * nat) :=
  do ft <- nth_error (vm_types m) (mf_type f);
  do locals <- make_locals (ft_params ft) (mf_locals f);
  do h <- validate_func (func_ctx signext m ft locals) (mf_body f);
  do _ <- guard (N.of_nat (length locals) + N.of_nat h <=? MAX_ALLOWED_STACK_HEIGHT)%N;
  Some (length locals, h).

Fixpoint nodupb (l : list N) : bool :=
  match l with [] => true | x :: r => negb (existsb (N.eqb x) r) && nodupb r end.

Definition mem_limits_ok (mm : N * option N) : bool :=
  let '(mn, mx) := mm in
  (mn <=? MAX_INIT_MEMORY_SIZE)%N
  && match mx with
     | Some x => (mn <=? x)%N && (x <=? 65536)%N
     | None => (mn <=? 65536)%N
     end.

Definition export_ok (m : vmodule) (e : N * N * N) : bool :=
  let '(_, kind, idx) := e in
  let funcs := vm_imports m ++ map mf_type (vm_funcs m) in
  if (kind =? 0)%N then
    (* [funcs.get(index as usize)]: the bound is tested first so that a huge index is never unfolded *)
    if (idx <? N.of_nat (length funcs))%N then
      match nth_error funcs (N.to_nat idx) with
      | Some ti => match nth_error (vm_types m) ti with Some _ => true | None => false end
      | None => false
      end
    else false
  else if (kind =? 1)%N then match vm_table m with Some _ => true | None => false end
  else if (kind =? 2)%N then match vm_mem m with Some _ => true | None => false end
  else if (kind =? 3)%N then (idx <? N.of_nat (length (vm_globals m)))%N
  else false.

Definition elem_ok (m : vmodule) (e : N * list N) : bool :=
  let '(off, inits) := e in
  let len := N.of_nat (length inits) in
  let total := N.of_nat (length (vm_imports m) + length (vm_funcs m)) in
  (len <=? MAX_INIT_TABLE_SIZE)%N
  && match vm_table m with
     | Some sz => (off + len <=? u32_max)%N && (off + len <=? sz)%N
     | None => false
     end
  && forallb (fun i => (i <? total)%N) inits.

Definition data_ok (mn : N) (d : N * N) : bool :=
  let '(off, len) := d in
  (len <=? mn * PAGE_SIZE)%N && (off + len <=? u32_max)%N && (off + len <=? mn * PAGE_SIZE)%N.

Definition validate_module (signext : bool) (m : vmodule) : bool :=
  forallb (fun ti => match nth_error (vm_types m) ti with Some _ => true | None => false end) (vm_imports m)
  && match vm_table m with Some sz => (sz <=? MAX_INIT_TABLE_SIZE)%N | None => true end
  && match vm_mem m with Some mm => mem_limits_ok mm | None => true end
  && (N.of_nat (length (vm_globals m)) <=? MAX_NUM_GLOBALS)%N
  && forallb (fun f => match validate_mfunc signext m f with Some _ => true | None => false end) (vm_funcs m)
  && (N.of_nat (length (vm_exports m)) <=? MAX_NUM_EXPORTS)%N
  && nodupb (map (fun e => fst (fst e)) (vm_exports m))
  && forallb (export_ok m) (vm_exports m)
  && forallb (elem_ok m) (vm_elems m)
  && match vm_mem m with
     | Some (mn, _) => forallb (data_ok mn) (vm_data m)
     | None => match vm_data m with [] => true | _ :: _ => false end
     end.
