(** * Wasm/MeterFlat — the two presentations of the metering transformation agree:
    the line-by-line transcription of [InstrSeqTransformer::run] on the flat opcode stream
    ([Meter.trun] / [inject_accounting_flat]) produces exactly the flattening of the structured
    transformer's output ([Meter.mseq] / [meter_body]) on every well-nested body, provided the
    delimiters [End]/[Else] cost 0 (true in both generated schedules: [CostProofs.v0_end_else],
    [v1_end_else]).  (The structured transformer is not defined on a source [TickEnergy].) *)
From Coq Require Import ZArith NArith List Bool Lia.
From CB Require Import Wasm.Syntax Wasm.CostCtx Wasm.Meter Wasm.MeterProofs.
Import ListNotations.
Local Open Scope N_scope.
Local Arguments N.add : simpl never.
Local Arguments N.ltb : simpl never.
Local Arguments N.leb : simpl never.

Ltac obind_inv H :=
  repeat match type of H with
         | obind ?o _ = Some _ => let E := fresh "E" in destruct o eqn:E; [cbn [obind] in H|discriminate H]
         | (let '(_, _) := ?p in _) = Some _ => destruct p
         | (if ?c then _ else _) = Some _ => let E := fresh "E" in destruct c eqn:E; [|discriminate H]
         end.

Section Flat.
Variable cfg : cost_cfg.
Variable cx : cost_ctx.
Hypothesis Hend : forall L, c_cost cfg OEnd L cx = Some 0.
Hypothesis Helse : forall L, c_cost cfg OElse L cx = Some 0.

Notation mseq := (mseq cfg cx).
Notation mi := (mi cfg cx).
Notation tstep := (tstep cfg cx).
Notation tloop := (tloop cfg cx).

Definition mk (L : list blocktype) (new : list opcode) (e : N) (p : list opcode) : tstate :=
  {| ts_labels := L; ts_new := new; ts_energy := e; ts_pending := p |}.
Definition ftick (x : N) : list opcode := if 0 <? x then [OBasic (BTick x)] else [].

Lemma flatten_app a b : flatten (a ++ b) = flatten a ++ flatten b.
Proof. unfold flatten. apply flat_map_app. Qed.
Lemma flatten_tick_opt h : flatten (erase_seq (tick_opt h)) = ftick h.
Proof. unfold tick_opt, ftick. destruct (0 <? h); reflexivity. Qed.
Lemma erase_app a b : erase_seq (a ++ b) = erase_seq a ++ erase_seq b.
Proof. apply map_app. Qed.

Lemma tloop_cons st o k : tloop st (o :: k) = obind (tstep st o) (fun s => tloop s k).
Proof. reflexivity. Qed.
Lemma tloop_app st a b : tloop st (a ++ b) = obind (tloop st a) (fun s => tloop s b).
Proof.
  revert st. induction a as [|o a IH]; intro st; [reflexivity|].
  cbn [app]. rewrite !tloop_cons. destruct (tstep st o); cbn [obind]; [apply IH|reflexivity].
Qed.

Lemma flush_mk L new e p :
  fits_u32 e = true ->
  account_energy_push_pending (mk L new e p) = Some (mk L (new ++ ftick e ++ p) 0 []).
Proof.
  intro Hf. unfold account_energy_push_pending, account_energy, mk, ftick. cbn [ts_energy ts_labels ts_new ts_pending].
  destruct (0 <? e) eqn:E.
  - rewrite Hf. cbn [ts_energy ts_labels ts_new ts_pending]. rewrite <- app_assoc. reflexivity.
  - apply N.ltb_ge in E. assert (e = 0) by lia. subst e. reflexivity.
Qed.

(** ** one step of the transcription on each class of opcode *)
Lemma tstep_pending L new e p b c :
  kind_of b = KPending -> c_cost cfg (OBasic b) L cx = Some c ->
  tstep (mk L new e p) (OBasic b) = Some (mk L new (e + c) (p ++ [OBasic b])).
Proof.
  intros Hk Hc. unfold Meter.tstep. cbn [ts_labels mk]. rewrite Hc. cbn [obind].
  destruct b; cbn [kind_of] in Hk; try discriminate Hk; reflexivity.
Qed.

Lemma tstep_memgrow L new e p c :
  c_cost cfg (OBasic BMemoryGrow) L cx = Some c ->
  tstep (mk L new e p) (OBasic BMemoryGrow) =
  Some (mk L new (e + c) (p ++ [OBasic (BCall fn_idx_memory_alloc); OBasic BMemoryGrow])).
Proof.
  intros Hc. unfold Meter.tstep. cbn [ts_labels mk]. rewrite Hc. cbn [obind].
  unfold add_to_pending, add_energy, mk. cbn [ts_energy ts_labels ts_new ts_pending]. rewrite <- app_assoc. reflexivity.
Qed.

Lemma tstep_flush L new e p b c :
  kind_of b = KFlushKeep -> c_cost cfg (OBasic b) L cx = Some c -> fits_u32 (e + c) = true ->
  tstep (mk L new e p) (OBasic b) = Some (mk L (new ++ ftick (e + c) ++ p ++ [OBasic b]) 0 []).
Proof.
  intros Hk Hc Hf. unfold Meter.tstep. cbn [ts_labels mk]. rewrite Hc. cbn [obind].
  assert (E : add_energy (mk L new e p) c = mk L new (e + c) p) by reflexivity.
  change {| ts_labels := L; ts_new := new; ts_energy := e; ts_pending := p |} with (mk L new e p).
  destruct b; cbn [kind_of] in Hk; try discriminate Hk; cbv zeta; rewrite E;
    unfold add_instr_account_energy; rewrite (flush_mk _ _ _ _ Hf); cbn [obind];
    unfold add_to_new, mk; cbn [ts_energy ts_labels ts_new ts_pending]; rewrite <- !app_assoc; reflexivity.
Qed.

Lemma tstep_call L new e p idx c :
  c_cost cfg (OBasic (BCall idx)) L cx = Some c -> fits_u32 (e + c) = true ->
  tstep (mk L new e p) (OBasic (BCall idx)) =
  Some (mk L (new ++ ftick (e + c) ++ p ++ [OBasic (BCall (idx + num_added_functions))]) 0 []).
Proof.
  intros Hc Hf. unfold Meter.tstep. change (ts_labels (mk L new e p)) with L. rewrite Hc. cbn [obind]. cbv zeta.
  change (add_energy (mk L new e p) c) with (mk L new (e + c) p).
  unfold add_instr_account_energy. rewrite (flush_mk _ _ _ _ Hf).
  unfold add_to_new, mk; cbn [ts_energy ts_labels ts_new ts_pending]; rewrite <- !app_assoc; reflexivity.
Qed.

Lemma tstep_brif L new e p idx c a rw :
  c_cost cfg (OBasic (BBrIf idx)) L cx = Some c -> fits_u32 (e + c) = true ->
  lookup_label L idx = Some a -> brif_rewrite cfg c a idx = Some rw ->
  tstep (mk L new e p) (OBasic (BBrIf idx)) =
  Some (mk L (new ++ ftick (e + c) ++ p ++ flatten (erase_seq rw)) 0 []).
Proof.
  intros Hc Hf Hl Hrw. unfold Meter.tstep. change (ts_labels (mk L new e p)) with L. rewrite Hc. cbn [obind]. cbv zeta.
  change (add_energy (mk L new e p) c) with (mk L new (e + c) p).
  rewrite (flush_mk _ _ _ _ Hf). cbn [obind]. change (ts_labels (mk L (new ++ ftick (e + c) ++ p) 0 [])) with L. rewrite Hl. cbn [obind].
  unfold brif_rewrite in Hrw. destruct (fits_u32 (c_branch cfg a)) eqn:Eb; [|discriminate Hrw]. cbn [negb] in Hrw.
  destruct (a =? 0) eqn:E0.
  - inversion Hrw; subst rw. unfold account_energy, add_to_new, mk. cbn [ts_energy ts_labels ts_new ts_pending].
    rewrite Eb. cbn [obind ts_energy ts_labels ts_new ts_pending]. cbn. rewrite <- !app_assoc. reflexivity.
  - destruct (a =? 1) eqn:E1; [|discriminate Hrw]. inversion Hrw; subst rw.
    unfold account_energy, add_to_new, mk. cbn [ts_energy ts_labels ts_new ts_pending].
    rewrite Eb. cbn [obind ts_energy ts_labels ts_new ts_pending]. cbn. rewrite <- !app_assoc. reflexivity.
Qed.

Lemma tstep_block L new e p bt c :
  c_cost cfg (OBlock bt) L cx = Some c ->
  tstep (mk L new e p) (OBlock bt) = Some (mk (bt :: L) new (e + c) (p ++ [OBlock bt])).
Proof. intros Hc. unfold Meter.tstep. cbn [ts_labels mk]. rewrite Hc. reflexivity. Qed.

Lemma tstep_loop L new e p bt c :
  c_cost cfg (OLoop bt) L cx = Some c -> fits_u32 (e + c) = true ->
  tstep (mk L new e p) (OLoop bt) = Some (mk (None :: L) (new ++ ftick (e + c) ++ p ++ [OLoop bt]) 0 []).
Proof.
  intros Hc Hf. unfold Meter.tstep. change (ts_labels (mk L new e p)) with L. rewrite Hc. cbn [obind]. cbv zeta.
  change (add_energy (mk L new e p) c) with (mk L new (e + c) p).
  rewrite (flush_mk _ _ _ _ Hf). cbn [obind].
  unfold add_to_new, set_labels, mk; cbn [ts_energy ts_labels ts_new ts_pending]; rewrite <- !app_assoc; reflexivity.
Qed.

Lemma tstep_if L new e p bt c :
  c_cost cfg (OIf bt) L cx = Some c -> fits_u32 (e + c) = true ->
  tstep (mk L new e p) (OIf bt) = Some (mk (bt :: L) (new ++ ftick (e + c) ++ p ++ [OIf bt]) 0 []).
Proof.
  intros Hc Hf. unfold Meter.tstep. change (ts_labels (mk L new e p)) with L. rewrite Hc. cbn [obind]. cbv zeta.
  change (add_energy (mk L new e p) c) with (mk L new (e + c) p).
  rewrite (flush_mk _ _ _ _ Hf). cbn [obind].
  unfold add_to_new, set_labels, mk; cbn [ts_energy ts_labels ts_new ts_pending]; rewrite <- !app_assoc; reflexivity.
Qed.

Lemma tstep_end L new e p :
  fits_u32 e = true ->
  tstep (mk L new e p) OEnd = Some (mk (tl L) (new ++ ftick e ++ p ++ [OEnd]) 0 []).
Proof.
  intros Hf. unfold Meter.tstep. change (ts_labels (mk L new e p)) with L. rewrite Hend. cbn [obind]. cbv zeta.
  change (add_energy (mk L new e p) 0) with (mk L new (e + 0) p).
  rewrite N.add_0_r. rewrite (flush_mk _ _ _ _ Hf). cbn [obind].
  unfold add_to_new, set_labels, mk; cbn [ts_energy ts_labels ts_new ts_pending]; rewrite <- !app_assoc; reflexivity.
Qed.

Lemma tstep_else bt L new e p :
  fits_u32 e = true ->
  tstep (mk (bt :: L) new e p) OElse = Some (mk (bt :: L) (new ++ ftick e ++ p ++ [OElse]) 0 []).
Proof.
  intros Hf. unfold Meter.tstep. change (ts_labels (mk (bt :: L) new e p)) with (bt :: L). rewrite Helse. cbn [obind]. cbv zeta.
  change (add_energy (mk (bt :: L) new e p) 0) with (mk (bt :: L) new (e + 0) p).
  rewrite N.add_0_r. rewrite (flush_mk _ _ _ _ Hf). cbn [obind]. change (ts_labels (mk (bt :: L) (new ++ ftick e ++ p) 0 [])) with (bt :: L). cbv iota.
  unfold add_to_new, mk; cbn [ts_energy ts_labels ts_new ts_pending]; rewrite <- !app_assoc; reflexivity.
Qed.

(** ** the invariant: a structured instruction / a closed sequence *)
Definition after_instr (L : list blocktype) (new : list opcode) (e : N) (p : list opcode)
  (hj : N) (pre : list ainstr) (fl : bool) : tstate :=
  if fl then mk L (new ++ ftick (e + hj) ++ p ++ flatten (erase_seq pre)) 0 []
  else mk L new (e + hj) (p ++ flatten (erase_seq pre)).

Definition P_instr (j : instr) : Prop :=
  forall L hj pre fl, mi L j = Some (hj, pre, fl) ->
  forall new e p k, fits_u32 (e + hj) = true ->
  tloop (mk L new e p) (flatten_instr j ++ k) = tloop (after_instr L new e p hj pre fl) k.

Inductive term_ok : opcode -> list blocktype -> list blocktype -> Prop :=
| term_end L : term_ok OEnd L (tl L)
| term_else bt L : term_ok OElse (bt :: L) (bt :: L).

Definition Q_seq (is : list instr) : Prop :=
  forall L h is', mseq L is = Some (h, is') ->
  forall term L' new e p k, term_ok term L L' -> fits_u32 (e + h) = true ->
  tloop (mk L new e p) (flatten is ++ term :: k) =
  tloop (mk L' (new ++ ftick (e + h) ++ p ++ flatten (erase_seq is') ++ [term]) 0 []) k.

Lemma tstep_term term L L' new e p :
  term_ok term L L' -> fits_u32 e = true ->
  tstep (mk L new e p) term = Some (mk L' (new ++ ftick e ++ p ++ [term]) 0 []).
Proof. intros [L0|bt L0] Hf; [apply tstep_end|apply tstep_else]; exact Hf. Qed.

Lemma mseq_nonempty : forall is L h is', mseq L is = Some (h, is') -> is <> [] -> is' <> [].
Proof.
  intros [|j r] L h is' H Hn; [congruence|]. rewrite mseq_cons in H.
  destruct (mseq L r) as [[hr r']|]; [|discriminate].
  destruct (mi L j) as [[[hj pre] fl]|] eqn:Ej; [|discriminate].
  assert (pre <> []).
  { rewrite mi_eq in Ej. destruct j.
    - obind_inv Ej. destruct (kind_of b); try (inversion Ej; subst; discriminate); try discriminate Ej.
      obind_inv Ej. inversion Ej; subst. unfold brif_rewrite in E1. destruct (negb _); [discriminate|].
      destruct (n0 =? 0); [inversion E1; discriminate|]. destruct (n0 =? 1); [inversion E1; discriminate|discriminate].
    - obind_inv Ej. inversion Ej; subst; discriminate.
    - obind_inv Ej. inversion Ej; subst; discriminate.
    - obind_inv Ej. inversion Ej; subst; discriminate. }
  unfold mcombine in H. destruct fl; [destruct (seg_ok hr); [|discriminate]|]; inversion H; subst;
    destruct pre; [congruence|discriminate|congruence|discriminate].
Qed.

Lemma fits_le a b : fits_u32 b = true -> a <= b -> fits_u32 a = true.
Proof. unfold fits_u32. intros H Hl. apply N.leb_le in H. apply N.leb_le. lia. Qed.

Theorem flat_seq : forall is, Q_seq is.
Proof.
  apply (instrs_ind2 P_instr Q_seq).
  - (* Basic *)
    intros b L hj pre fl Hmi new e p k Hf. rewrite mi_eq in Hmi. obind_inv Hmi.
    cbn [flatten_instr app]. rewrite tloop_cons.
    destruct (kind_of b) eqn:Ek.
    + inversion Hmi; subst hj pre fl. rewrite (tstep_pending _ _ _ _ _ _ Ek E). reflexivity.
    + inversion Hmi; subst hj pre fl. rewrite (tstep_flush _ _ _ _ _ _ Ek E Hf). reflexivity.
    + inversion Hmi; subst hj pre fl.
      destruct b; cbn [kind_of] in Ek; try discriminate Ek. inversion Ek; subst idx.
      rewrite (tstep_call _ _ _ _ _ _ E Hf). reflexivity.
    + obind_inv Hmi. inversion Hmi; subst hj pre fl.
      destruct b; cbn [kind_of] in Ek; try discriminate Ek. inversion Ek; subst idx.
      rewrite (tstep_brif _ _ _ _ _ _ _ _ E Hf E0 E1). reflexivity.
    + inversion Hmi; subst hj pre fl.
      destruct b; cbn [kind_of] in Ek; try discriminate Ek.
      rewrite (tstep_memgrow _ _ _ _ _ E). reflexivity.
    + discriminate Hmi.
  - (* Block *)
    intros bt body IH L hj pre fl Hmi new e p k Hf. rewrite mi_eq in Hmi. obind_inv Hmi.
    inversion Hmi; subst hj pre fl; clear Hmi.
    cbn [flatten_instr app]. rewrite tloop_cons, (tstep_block _ _ _ _ _ _ E). cbn [obind].
    change (flat_map flatten_instr body) with (flatten body). rewrite <- app_assoc. cbn [app].
    rewrite (IH _ _ _ E0 OEnd (tl (bt :: L)) _ _ _ k (term_end _)) by (rewrite <- N.add_assoc; exact Hf).
    unfold after_instr. cbn [tl erase_seq map erase flatten flat_map flatten_instr].
    rewrite N.add_assoc, !app_nil_r, <- !app_assoc. reflexivity.
  - (* Loop *)
    intros bt body IH L hj pre fl Hmi new e p k Hf. rewrite mi_eq in Hmi. obind_inv Hmi.
    inversion Hmi; subst hj pre fl; clear Hmi.
    cbn [flatten_instr app]. rewrite tloop_cons, (tstep_loop _ _ _ _ _ _ E Hf). cbn [obind].
    change (flat_map flatten_instr body) with (flatten body). rewrite <- app_assoc. cbn [app].
    rewrite (IH _ _ _ E0 OEnd (tl (None :: L)) _ _ _ k (term_end _)) by (rewrite N.add_0_l; exact E1).
    unfold after_instr. cbn [tl erase_seq map erase flatten flat_map flatten_instr].
    fold (erase_seq (tick_opt n0 ++ l)). rewrite erase_app. change (flat_map flatten_instr) with flatten.
    rewrite flatten_app, flatten_tick_opt, N.add_0_l, !app_nil_r. cbn [app]. rewrite <- !app_assoc. reflexivity.
  - (* If *)
    intros bt thn els IHt IHe L hj pre fl Hmi new e p k Hf. rewrite mi_eq in Hmi. obind_inv Hmi.
    apply andb_prop in E2. destruct E2 as [Eht Ehe].
    inversion Hmi; subst hj pre fl; clear Hmi.
    cbn [flatten_instr app]. rewrite tloop_cons, (tstep_if _ _ _ _ _ _ E Hf). cbn [obind].
    change (flat_map flatten_instr thn) with (flatten thn). change (flat_map flatten_instr els) with (flatten els).
    unfold after_instr. cbn [erase_seq map erase flatten flat_map flatten_instr].
    fold (erase_seq (tick_opt n0 ++ l)). fold (erase_seq (tick_opt n1 ++ l0)).
    change (flat_map flatten_instr) with flatten. rewrite !erase_app, !flatten_app, !flatten_tick_opt, !app_nil_r.
    destruct els as [|e0 els].
    + (* no else branch *)
      inversion E1; subst n1 l0. cbn [tick_opt erase_seq map app]. 
      replace (tick_opt 0) with (@nil ainstr) by reflexivity. cbn [erase_seq map app].
      rewrite <- app_assoc. cbn [app].
      rewrite (IHt _ _ _ E0 OEnd (tl (bt :: L)) _ _ _ k (term_end _)) by (rewrite N.add_0_l; exact Eht).
      cbn [tl]. rewrite N.add_0_l. cbn [app]. rewrite <- !app_assoc. reflexivity.
    + (* with else branch *)
      assert (Hne : erase_seq (tick_opt n1) ++ erase_seq l0 <> []).
      { intro Hc. apply app_eq_nil in Hc. destruct Hc as [_ Hc].
        apply (mseq_nonempty _ _ _ _ E1); [discriminate|]. destruct l0; [reflexivity|discriminate]. }
      destruct (erase_seq (tick_opt n1) ++ erase_seq l0) as [|x xs] eqn:Ex; [congruence|]. clear Ex Hne x xs.
      rewrite <- !app_assoc. cbn [app].
      rewrite (IHt _ _ _ E0 OElse (bt :: L) _ _ _ _ (term_else _ _)) by (rewrite N.add_0_l; exact Eht).
      change (flat_map flatten_instr (e0 :: els)) with (flatten (e0 :: els)).
      rewrite <- (app_assoc (flatten (e0 :: els))). cbn [app].
      rewrite (IHe _ _ _ E1 OEnd (tl (bt :: L)) _ _ _ k (term_end _)) by (rewrite N.add_0_l; exact Ehe).
      cbn [tl]. rewrite !N.add_0_l. cbn [app]. rewrite <- !app_assoc. cbn [app]. rewrite <- ?app_assoc. reflexivity.
  - (* nil *)
    intros L h is' Hm term L' new e p k Ht Hf. inversion Hm; subst. cbn [flatten flat_map app].
    rewrite tloop_cons. rewrite N.add_0_r in *. rewrite (tstep_term _ _ _ _ _ _ Ht Hf). reflexivity.
  - (* cons *)
    intros j r IHj IHr L h is' Hm term L' new e p k Ht Hf. rewrite mseq_cons in Hm.
    destruct (mseq L r) as [[hr r']|] eqn:Er; [|discriminate].
    destruct (mi L j) as [[[hj pre] fl]|] eqn:Ej; [|discriminate].
    change (flatten (j :: r)) with (flatten_instr j ++ flatten r). rewrite <- app_assoc.
    unfold mcombine in Hm. destruct fl.
    + destruct (seg_ok hr) eqn:Es; [|discriminate]. inversion Hm; subst h is'; clear Hm.
      rewrite (IHj _ _ _ _ Ej _ _ _ _ Hf). unfold after_instr.
      rewrite (IHr _ _ _ Er term L' _ _ _ k Ht) by (rewrite N.add_0_l; exact Es).
      rewrite N.add_0_l, !erase_app, !flatten_app, flatten_tick_opt. cbn [app]. rewrite <- !app_assoc. reflexivity.
    + inversion Hm; subst h is'; clear Hm.
      assert (Hf1 : fits_u32 (e + hj) = true) by (apply (fits_le (e + hj) (e + (hj + hr)) Hf); lia).
      rewrite (IHj _ _ _ _ Ej _ _ _ _ Hf1). unfold after_instr.
      rewrite (IHr _ _ _ Er term L' _ _ _ k Ht) by (rewrite <- N.add_assoc; exact Hf).
      rewrite N.add_assoc, !erase_app, !flatten_app. rewrite <- !app_assoc. reflexivity.
Qed.

(** ** whole function bodies *)
Theorem flat_structured_agree_body nl result body b :
  meter_body cfg cx nl result body = Some b ->
  inject_accounting_flat cfg cx nl result (flatten_body body) = Some (flatten_body b).
Proof.
  unfold meter_body, ameter_body. destruct (mseq [result] body) as [[h body']|] eqn:Em; [|discriminate].
  cbn [obind]. destruct (seg_ok (c_invoke_after cfg nl + h)) eqn:Es; [|discriminate].
  intro H; inversion H; subst b; clear H.
  unfold inject_accounting_flat, trun, flatten_body.
  change {| ts_labels := [result]; ts_new := []; ts_energy := c_invoke_after cfg nl; ts_pending := [] |}
    with (mk [result] [] (c_invoke_after cfg nl) []).
  rewrite (flat_seq body [result] h body' Em OEnd (tl [result]) [] _ [] [] (term_end _) Es).
  cbn [Meter.tloop obind ts_pending mk ts_new app tl].
  f_equal. rewrite erase_app, flatten_app. rewrite <- !app_assoc. f_equal.
  unfold ftick. destruct (0 <? c_invoke_after cfg nl + h); reflexivity.
Qed.

End Flat.

(** the whole module: the flat transcription applied to the flattened bodies of [m] gives the
    flattened bodies of [inject cfg m] *)
Theorem flat_structured_agree cfg m m' :
  (forall L, c_cost cfg OEnd L (ctx_of_module m) = Some 0) ->
  (forall L, c_cost cfg OElse L (ctx_of_module m) = Some 0) ->
  inject cfg m = Some m' ->
  inject_flat cfg m (map (fun f => flatten_body (f_body f)) (m_funcs m)) =
  Some (map (fun f => flatten_body (f_body f)) (m_funcs m')).
Proof.
  intros He Hl. unfold inject, inject_flat.
  destruct (omap_list (meter_func cfg m) (m_funcs m)) as [fs|] eqn:E; [|discriminate].
  intro H; inversion H; subst m'; clear H. cbn [m_funcs].
  revert fs E. induction (m_funcs m) as [|f r IH]; intros fs E; cbn [omap_list map combine] in *.
  - inversion E; reflexivity.
  - destruct (meter_func cfg m f) as [f'|] eqn:Ef; [|discriminate].
    destruct (omap_list (meter_func cfg m) r) as [fs'|] eqn:Er; [|discriminate].
    inversion E; subst fs; clear E. cbn [fst snd map]. rewrite (IH fs' eq_refl).
    unfold meter_func in Ef. destruct (nth_error (m_types m) (f_type f)) as [ft|]; [|discriminate].
    destruct (meter_body cfg (ctx_of_module m) _ _ _) as [b|] eqn:Eb; [|discriminate].
    inversion Ef; subst f'; clear Ef. cbn [f_body].
    rewrite (flat_structured_agree_body cfg (ctx_of_module m) He Hl _ _ _ _ Eb). reflexivity.
Qed.
