(** [structure_body] inverts [flatten_body]: the nesting of a structured body is recovered
    exactly from its flat opcode sequence. *)
From Coq Require Import ZArith NArith List Lia Bool.
From CB Require Import Wasm.Syntax.
Import ListNotations.

Fixpoint isize (i : instr) : nat :=
  let ls := fix ls (l : list instr) : nat := match l with [] => O | x :: r => (isize x + ls r)%nat end in
  match i with
  | Basic _ => 1
  | Block _ b | Loop _ b => S (ls b)
  | If _ t e => S (ls t + ls e)
  end.
Fixpoint lsize (l : list instr) : nat := match l with [] => O | x :: r => (isize x + lsize r)%nat end.

Lemma isize_block bt b : isize (Block bt b) = S (lsize b).
Proof. reflexivity. Qed.
Lemma isize_loop bt b : isize (Loop bt b) = S (lsize b).
Proof. reflexivity. Qed.
Lemma isize_if bt t e : isize (If bt t e) = S (lsize t + lsize e).
Proof. reflexivity. Qed.

Definition delim_of (d : bool) : opcode := if d then OElse else OEnd.

Lemma flatten_cons i is : flatten (i :: is) = flatten_instr i ++ flatten is.
Proof. reflexivity. Qed.

Lemma parse_flatten n : forall is fuel d rest,
  (lsize is <= n)%nat -> (length (flatten is) < fuel)%nat ->
  parse_seq fuel (flatten is ++ delim_of d :: rest) = Some (is, d, rest).
Proof.
  induction n as [|n IH]; intros is fuel d rest Hs Hf.
  - destruct is as [|i is']; [|destruct i; cbn [lsize isize] in Hs; lia].
    destruct fuel; [cbn in Hf; lia|]. destruct d; reflexivity.
  - destruct is as [|i is'].
    + destruct fuel; [cbn in Hf; lia|]. destruct d; reflexivity.
    + rewrite flatten_cons in *. rewrite app_length in Hf. cbn [lsize] in Hs.
      destruct fuel as [|f]; [lia|].
      destruct i as [b|bt body|bt body|bt thn els].
      * cbn [flatten_instr app length] in *. rewrite <- ?app_assoc. cbn [app parse_seq].
        rewrite (IH is' f d rest) by (cbn [isize] in Hs; lia). reflexivity.
      * rewrite isize_block in Hs. cbn [flatten_instr] in *. fold (flatten body) in *.
        cbn [app length] in Hf. rewrite app_length in Hf. cbn [length] in Hf.
        rewrite <- ?app_assoc. cbn [app]. rewrite <- ?app_assoc. cbn [app parse_seq].
        change (OEnd :: flatten is' ++ delim_of d :: rest) with (delim_of false :: (flatten is' ++ delim_of d :: rest)).
        rewrite (IH body f false) by lia. rewrite (IH is' f d rest) by lia. reflexivity.
      * rewrite isize_loop in Hs. cbn [flatten_instr] in *. fold (flatten body) in *.
        cbn [app length] in Hf. rewrite app_length in Hf. cbn [length] in Hf.
        rewrite <- ?app_assoc. cbn [app]. rewrite <- ?app_assoc. cbn [app parse_seq].
        change (OEnd :: flatten is' ++ delim_of d :: rest) with (delim_of false :: (flatten is' ++ delim_of d :: rest)).
        rewrite (IH body f false) by lia. rewrite (IH is' f d rest) by lia. reflexivity.
      * rewrite isize_if in Hs. cbn [flatten_instr] in *. fold (flatten thn) in *. fold (flatten els) in *.
        destruct els as [|e els'].
        -- cbn [app length] in Hf. rewrite app_length in Hf. cbn [length] in Hf.
           rewrite <- ?app_assoc. cbn [app]. rewrite <- ?app_assoc. cbn [app parse_seq].
           change (OEnd :: flatten is' ++ delim_of d :: rest) with (delim_of false :: (flatten is' ++ delim_of d :: rest)).
           rewrite (IH thn f false) by (cbn [lsize] in Hs; lia). rewrite (IH is' f d rest) by lia. reflexivity.
        -- cbn [app length] in Hf. rewrite !app_length in Hf. cbn [length] in Hf. rewrite app_length in Hf. cbn [length] in Hf.
           rewrite <- ?app_assoc. cbn [app]. rewrite <- ?app_assoc. cbn [app]. rewrite <- ?app_assoc. cbn [app parse_seq].
           change (OElse :: flatten (e :: els') ++ OEnd :: flatten is' ++ delim_of d :: rest)
             with (delim_of true :: (flatten (e :: els') ++ delim_of false :: (flatten is' ++ delim_of d :: rest))).
           rewrite (IH thn f true) by lia.
           rewrite (IH (e :: els') f false) by lia.
           rewrite (IH is' f d rest) by lia. reflexivity.
Qed.

Theorem structure_flatten is : structure_body (flatten_body is) = Some is.
Proof.
  unfold structure_body, flatten_body.
  change [OEnd] with (delim_of false :: []).
  rewrite (parse_flatten (lsize is) is _ false []); [reflexivity|lia|].
  rewrite app_length. cbn [length]. lia.
Qed.
