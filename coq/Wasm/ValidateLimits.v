(** * Wasm/ValidateLimits — accepted modules obey every chain limit (from Gen/Limits.v). *)
From Coq Require Import ZArith NArith List Bool Arith Lia.
From CB Require Import Common.IntN Wasm.Syntax Gen.Limits Wasm.Validate.
Import ListNotations.
Local Open Scope N_scope.

(** Consistency of the generated constants with the representation choices of the
    interpreter (these are the "relied upon by the interpreter" remarks of constants.rs):
    global indices and switch sizes fit a u16, the initial memory fits the preallocated
    [MAX_NUM_PAGES * PAGE_SIZE] bytes, and [MAX_INIT_MEMORY_SIZE * PAGE_SIZE] fits a u32. *)
Lemma limits_consistent :
  MAX_NUM_GLOBALS <= 2 ^ 16 /\ MAX_SWITCH_SIZE < 2 ^ 16 /\
  MAX_INIT_MEMORY_SIZE <= MAX_NUM_PAGES /\ MAX_NUM_PAGES * PAGE_SIZE < 2 ^ 32 /\
  MAX_INIT_MEMORY_SIZE * PAGE_SIZE <= u32_max /\ PAGE_SIZE = page_size /\
  ALLOWED_LOCALS <= MAX_ALLOWED_STACK_HEIGHT /\ MAX_NUM_PAGES <= 65536.
Proof. vm_compute. repeat split; congruence. Qed.

Lemma andb_split (a b : bool) : a && b = true -> a = true /\ b = true.
Proof. apply andb_true_iff. Qed.

Ltac split_ands H :=
  repeat match type of H with
         | (_ && _) = true => let H1 := fresh H in apply andb_split in H; destruct H as [H H1]
         end.

Record module_limits (m : vmodule) : Prop := {
  ml_table : forall sz, vm_table m = Some sz -> sz <= MAX_INIT_TABLE_SIZE;
  ml_mem_min : forall mn mx, vm_mem m = Some (mn, mx) -> mn <= MAX_INIT_MEMORY_SIZE /\ mn <= MAX_NUM_PAGES;
  ml_mem_max : forall mn mx, vm_mem m = Some (mn, Some mx) -> mn <= mx /\ mx <= 65536;
  ml_globals : N.of_nat (length (vm_globals m)) <= MAX_NUM_GLOBALS;
  ml_exports : N.of_nat (length (vm_exports m)) <= MAX_NUM_EXPORTS;
  ml_elems : forall off inits sz, In (off, inits) (vm_elems m) -> vm_table m = Some sz ->
             off + N.of_nat (length inits) <= sz /\
             Forall (fun i => i < N.of_nat (length (vm_imports m) + length (vm_funcs m))) inits;
  ml_elems_table : vm_elems m <> [] -> vm_table m <> None;
  ml_data : forall off len mn mx, In (off, len) (vm_data m) -> vm_mem m = Some (mn, mx) ->
            off + len <= mn * PAGE_SIZE /\ off + len <= MAX_NUM_PAGES * PAGE_SIZE;
  ml_data_mem : vm_data m <> [] -> vm_mem m <> None;
  ml_funcs : forall f, In f (vm_funcs m) -> forall signext nl h, validate_mfunc signext m f = Some (nl, h) ->
             N.of_nat nl <= ALLOWED_LOCALS /\ N.of_nat nl + N.of_nat h <= MAX_ALLOWED_STACK_HEIGHT
}.

Lemma make_locals_length params ls locals :
  make_locals params ls = Some locals -> N.of_nat (length locals) <= ALLOWED_LOCALS.
Proof.
  unfold make_locals. destruct (N.leb_spec (sum_mult ls (N.of_nat (length params))) ALLOWED_LOCALS); [|discriminate].
  intros E; inversion E; subst; clear E.
  assert (G : forall ls acc, N.of_nat (length (flat_map (fun '(n, t) => repeat t (N.to_nat n)) ls)) + acc = sum_mult ls acc).
  { induction ls0 as [|[n t] r IH]; intros acc; cbn [flat_map sum_mult length]; [reflexivity|].
    rewrite app_length, repeat_length, Nat2N.inj_add, N2Nat.id, <- IH. lia. }
  rewrite app_length, Nat2N.inj_add. specialize (G ls (N.of_nat (length params))). lia.
Qed.

Lemma switch_size_checked c s ls d al s' :
  vstep_basic c s (BBrTable ls d) al = Some s' -> N.of_nat (length ls) <= MAX_SWITCH_SIZE.
Proof.
  cbn [vstep_basic]. unfold obind, guard.
  destruct (N.leb_spec (N.of_nat (length ls)) MAX_SWITCH_SIZE); [auto|discriminate].
Qed.

Theorem validate_module_limits_thm signext m : validate_module signext m = true -> module_limits m.
Proof.
  intros H. unfold validate_module in H. rewrite !andb_true_iff in H.
  destruct H as [[[[[[[[[Himp Htab] Hmem] Hglob] Hfun] Hexpn] Hnodup] Hexp] Helem] Hdata].
  pose proof limits_consistent as (LC1 & LC2 & LC3 & LC4 & LC5 & LC6 & LC7 & LC8).
  assert (MEM : forall mn mx, vm_mem m = Some (mn, mx) ->
                mn <= MAX_INIT_MEMORY_SIZE /\ match mx with Some x => mn <= x /\ x <= 65536 | None => mn <= 65536 end).
  { intros mn mx E. rewrite E in Hmem. cbn [mem_limits_ok] in Hmem. apply andb_true_iff in Hmem. destruct Hmem as [M1 M2].
    apply N.leb_le in M1. split; [exact M1|]. destruct mx.
    - apply andb_true_iff in M2. destruct M2 as [M2 M3]. apply N.leb_le in M2, M3. auto.
    - apply N.leb_le in M2. auto. }
  constructor.
  - intros sz E. rewrite E in Htab. now apply N.leb_le.
  - intros mn mx E. destruct (MEM _ _ E). split; [auto|lia].
  - intros mn mx E. now destruct (MEM _ _ E).
  - now apply N.leb_le.
  - now apply N.leb_le.
  - intros off inits sz Hin E. rewrite forallb_forall in Helem. specialize (Helem _ Hin).
    cbn [elem_ok] in Helem. rewrite E in Helem. rewrite !andb_true_iff in Helem.
    destruct Helem as [[E1 [E2 E3]] E4]. apply N.leb_le in E3. split; [exact E3|].
    apply Forall_forall. intros i Hi. rewrite forallb_forall in E4. apply N.ltb_lt. auto.
  - intros NE E. destruct (vm_elems m) as [|[off inits] r] eqn:EL; [congruence|].
    cbn [forallb elem_ok] in Helem. rewrite E in Helem. rewrite !andb_true_iff in Helem.
    destruct Helem as [[[_ F] _] _]. discriminate.
  - intros off len mn mx Hin E. rewrite E in Hdata. rewrite forallb_forall in Hdata. specialize (Hdata _ Hin).
    cbn [data_ok] in Hdata. rewrite !andb_true_iff in Hdata. destruct Hdata as [[D1 D2] D3]. apply N.leb_le in D3. split; [exact D3|].
    destruct (MEM _ _ E) as [M1 _]. etransitivity; [exact D3|]. apply N.mul_le_mono_r. lia.
  - intros NE E. rewrite E in Hdata. destruct (vm_data m); congruence.
  - intros f Hin sx nl h E. unfold validate_mfunc, obind in E.
    destruct (nth_error (vm_types m) (mf_type f)) as [ft|]; [|discriminate].
    destruct (make_locals (ft_params ft) (mf_locals f)) as [locals|] eqn:ML; [|discriminate].
    destruct (validate_func _ _) as [h'|]; [|discriminate].
    unfold guard in E. destruct (N.leb_spec (N.of_nat (length locals) + N.of_nat h') MAX_ALLOWED_STACK_HEIGHT); [|discriminate].
    inversion E; subst. split; [eapply make_locals_length; eauto|auto].
Qed.

(** ** The memory bound handed to the interpreter ([Module::compile], artifact.rs):
    [max_size = limits.max.map(|x| min(x, MAX_NUM_PAGES)).unwrap_or(MAX_NUM_PAGES)].
    The interpreter preallocates [MAX_NUM_PAGES * PAGE_SIZE] bytes and [memory.grow] only
    checks against [max_size], so [max_size <= MAX_NUM_PAGES] is what keeps [set_len] inside
    the allocation. *)
Definition artifact_max_memory (mm : N * option N) : N :=
  match snd mm with Some x => N.min x MAX_NUM_PAGES | None => MAX_NUM_PAGES end.
Definition artifact_memory (m : vmodule) : option (N * N) :=
  match vm_mem m with Some mm => Some (fst mm, artifact_max_memory mm) | None => None end.

Theorem artifact_memory_bounded_thm signext m init mx :
  validate_module signext m = true -> artifact_memory m = Some (init, mx) ->
  init <= mx /\ mx <= MAX_NUM_PAGES /\ mx * PAGE_SIZE <= MAX_NUM_PAGES * PAGE_SIZE /\ MAX_NUM_PAGES * PAGE_SIZE < 2 ^ 32.
Proof.
  intros V E. pose proof (validate_module_limits_thm _ _ V) as ML.
  pose proof limits_consistent as (_ & _ & LC3 & LC4 & _).
  unfold artifact_memory in E. destruct (vm_mem m) as [[mn mxo]|] eqn:EM; [|discriminate].
  inversion E; subst; clear E. cbn [fst]. unfold artifact_max_memory. cbn [snd].
  destruct (ml_mem_min _ ML _ _ EM) as [M1 M2].
  assert (B : match mxo with Some x => N.min x MAX_NUM_PAGES | None => MAX_NUM_PAGES end <= MAX_NUM_PAGES)
    by (destruct mxo; [apply N.le_min_r|apply N.le_refl]).
  split; [|split; [exact B|split; [apply N.mul_le_mono_r; exact B|exact LC4]]].
  destruct mxo as [x|]; [|exact M2].
  destruct (ml_mem_max _ ML _ _ EM) as [M3 _]. apply N.min_glb; auto.
Qed.
