(** * Wasm/Typing — the declarative typing relation of the WebAssembly 1.0 specification
    (core spec 3.3 "Instructions", 3.3.7 "Instruction sequences", 3.4 modules) for the integer
    subset of [Wasm/Syntax.v], plus the sign-extension operators.

    Conventions.  A stack type is a [list valtype] with the TOP OF THE STACK FIRST (the
    specification writes the top last), matching the value stacks of [Wasm/Sem.v].
    The specification's rules for sequences (empty sequence, composition with the last
    instruction, and the frame/weakening rule [t* t1* -> t* t2*]) are folded into two
    rules over [cons] lists: every instruction rule carries an arbitrary untouched
    remainder [rest] (weakening), [SeqNil] types the empty sequence at any stack, and
    [SeqCons] composes.  Stack-polymorphic instructions ([unreachable], [br], [br_table],
    [return]) accept any stack below their operands and produce any stack, as in the
    specification.  Block types are the MVP ones (no parameters, at most one result).

    Definitions only. *)
From Coq Require Import ZArith NArith List Bool.
From CB Require Import Common.IntN Wasm.Syntax.
Import ListNotations.

(** typing context C (spec 3.1.1): types, funcs, globals, locals, mem, table, labels, return *)
Record tctx := {
  tc_types : list functype;
  tc_funcs : list functype;
  tc_globals : list (valtype * bool);      (* type, mutable *)
  tc_locals : list valtype;
  tc_memory : bool;
  tc_table : bool;
  tc_labels : list blocktype;              (* innermost first: the operand types of [br l] *)
  tc_return : blocktype
}.

Definition bt_list (bt : blocktype) : list valtype := match bt with Some t => [t] | None => [] end.

Definition push_label (C : tctx) (bt : blocktype) : tctx :=
  {| tc_types := tc_types C; tc_funcs := tc_funcs C; tc_globals := tc_globals C; tc_locals := tc_locals C;
     tc_memory := tc_memory C; tc_table := tc_table C; tc_labels := bt :: tc_labels C; tc_return := tc_return C |}.

(** well-formed instruction forms: no i32 access of packed width 32, no i32.extend32_s *)
Definition load_wf (t : valtype) (pk : option (packsize * sx)) : Prop :=
  match pk with Some (P32, _) => t = T_i64 | _ => True end.
Definition store_wf (t : valtype) (pk : option packsize) : Prop :=
  match pk with Some P32 => t = T_i64 | _ => True end.
Definition unop_wf (t : valtype) (op : unop) : Prop :=
  match op with Extend32S => t = T_i64 | _ => True end.

Definition cvt_from (op : cvtop) : valtype := match op with WrapI64 => T_i64 | _ => T_i32 end.
Definition cvt_to (op : cvtop) : valtype := match op with WrapI64 => T_i32 | _ => T_i64 end.

(** [basic_ok C b t1 t2]: C |- b : t1 -> t2 *)
Inductive basic_ok (C : tctx) : binstr -> list valtype -> list valtype -> Prop :=
| T_Unreachable t1 t2 : basic_ok C BUnreachable t1 t2
| T_Nop rest : basic_ok C BNop rest rest
| T_Br l bt t1 t2 : nth_error (tc_labels C) l = Some bt -> basic_ok C (BBr l) (bt_list bt ++ t1) t2
| T_BrIf l bt rest : nth_error (tc_labels C) l = Some bt ->
    basic_ok C (BBrIf l) (T_i32 :: bt_list bt ++ rest) (bt_list bt ++ rest)
| T_BrTable ls d bt t1 t2 :
    nth_error (tc_labels C) d = Some bt ->
    Forall (fun l => nth_error (tc_labels C) l = Some bt) ls ->
    basic_ok C (BBrTable ls d) (T_i32 :: bt_list bt ++ t1) t2
| T_Return t1 t2 : basic_ok C BReturn (bt_list (tc_return C) ++ t1) t2
| T_Call f ft rest : nth_error (tc_funcs C) f = Some ft ->
    basic_ok C (BCall f) (rev (ft_params ft) ++ rest) (bt_list (ft_result ft) ++ rest)
| T_CallIndirect ti ft rest : tc_table C = true -> nth_error (tc_types C) ti = Some ft ->
    basic_ok C (BCallIndirect ti) (T_i32 :: rev (ft_params ft) ++ rest) (bt_list (ft_result ft) ++ rest)
| T_Drop t rest : basic_ok C BDrop (t :: rest) rest
| T_Select t rest : basic_ok C BSelect (T_i32 :: t :: t :: rest) (t :: rest)
| T_LocalGet i t rest : nth_error (tc_locals C) i = Some t -> basic_ok C (BLocalGet i) rest (t :: rest)
| T_LocalSet i t rest : nth_error (tc_locals C) i = Some t -> basic_ok C (BLocalSet i) (t :: rest) rest
| T_LocalTee i t rest : nth_error (tc_locals C) i = Some t -> basic_ok C (BLocalTee i) (t :: rest) (t :: rest)
| T_GlobalGet i t mu rest : nth_error (tc_globals C) i = Some (t, mu) -> basic_ok C (BGlobalGet i) rest (t :: rest)
| T_GlobalSet i t rest : nth_error (tc_globals C) i = Some (t, true) -> basic_ok C (BGlobalSet i) (t :: rest) rest
| T_Load t pk off rest : tc_memory C = true -> load_wf t pk ->
    basic_ok C (BLoad t pk off) (T_i32 :: rest) (t :: rest)
| T_Store t pk off rest : tc_memory C = true -> store_wf t pk ->
    basic_ok C (BStore t pk off) (t :: T_i32 :: rest) rest
| T_MemorySize rest : tc_memory C = true -> basic_ok C BMemorySize rest (T_i32 :: rest)
| T_MemoryGrow rest : tc_memory C = true -> basic_ok C BMemoryGrow (T_i32 :: rest) (T_i32 :: rest)
| T_Const t z rest : basic_ok C (BConst t z) rest (t :: rest)
| T_Unop t op rest : unop_wf t op -> basic_ok C (BUnop t op) (t :: rest) (t :: rest)
| T_Binop t op rest : basic_ok C (BBinop t op) (t :: t :: rest) (t :: rest)
| T_Eqz t rest : basic_ok C (BEqz t) (t :: rest) (T_i32 :: rest)
| T_Relop t op rest : basic_ok C (BRelop t op) (t :: t :: rest) (T_i32 :: rest)
| T_Cvt op rest : basic_ok C (BCvt op) (cvt_from op :: rest) (cvt_to op :: rest).

(** [instr_ok C i t1 t2] and [seq_ok C is t1 t2] *)
Inductive instr_ok : tctx -> instr -> list valtype -> list valtype -> Prop :=
| T_Basic C b t1 t2 : basic_ok C b t1 t2 -> instr_ok C (Basic b) t1 t2
| T_Block C bt body rest :
    seq_ok (push_label C bt) body [] (bt_list bt) ->
    instr_ok C (Block bt body) rest (bt_list bt ++ rest)
| T_Loop C bt body rest :
    seq_ok (push_label C None) body [] (bt_list bt) ->
    instr_ok C (Loop bt body) rest (bt_list bt ++ rest)
| T_If C bt thn els rest :
    seq_ok (push_label C bt) thn [] (bt_list bt) ->
    seq_ok (push_label C bt) els [] (bt_list bt) ->
    instr_ok C (If bt thn els) (T_i32 :: rest) (bt_list bt ++ rest)
with seq_ok : tctx -> list instr -> list valtype -> list valtype -> Prop :=
| SeqNil C ts : seq_ok C [] ts ts
| SeqCons C i is t1 t2 t3 : instr_ok C i t1 t2 -> seq_ok C is t2 t3 -> seq_ok C (i :: is) t1 t3.

Scheme instr_ok_ind2 := Induction for instr_ok Sort Prop
  with seq_ok_ind2 := Induction for seq_ok Sort Prop.

(** A function body is an expression of the function's result type in the context whose only
    label is the function's result (spec 3.4.1: the context C' has the function's locals, the result type as only label and as return type). *)
Definition body_ok (C : tctx) (body : list instr) : Prop :=
  seq_ok (push_label C (tc_return C)) body [] (bt_list (tc_return C)).
