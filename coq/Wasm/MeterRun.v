(** * Wasm/MeterRun — executable entry points of the C02 model (what the extracted runner calls).
    Definitions only. *)
From Coq Require Import ZArith NArith List Bool.
From CB Require Import Common.IntN Wasm.Syntax Wasm.Sem Wasm.CostCtx Wasm.Meter Wasm.SemTrace.
From CB Require Gen.CostV0 Gen.CostV1.
Import ListNotations.

(** the deterministic test imports of harness/c02: h0 : () -> (), h1 : i32 -> i32 = 3x+1,
    h2 : (i32, i64) -> i64 = x + y *)
Definition test_host (i : nat) (args : list val) (mm : option memory) : host_result :=
  match i, args with
  | 0%nat, [] => HostOk mm None
  | 1%nat, [VI32 x] => HostOk mm (Some (VI32 (wrap 32 (3 * x + 1))))
  | 2%nat, [VI32 x; VI64 y] => HostOk mm (Some (VI64 (wrap 64 (x + y))))
  | _, _ => HostTrap
  end.

Definition cfg_of (v1 : bool) : cost_cfg := if v1 then CostV1.cfg else CostV0.cfg.

(** layer 1: the metered code, flat transcription / structured transformer *)
Definition model_flat (v1 : bool) (m : module) (bodies : list (list opcode)) : option (list (list opcode)) :=
  inject_flat (cfg_of v1) m bodies.
Definition model_struct (v1 : bool) (m : module) : option (module * list (list opcode)) :=
  match inject (cfg_of v1) m with
  | Some m' => Some (m', map (fun f => flatten_body (f_body f)) (m_funcs m'))
  | None => None
  end.

(** layer 2: the event trace of the metered module (entry [fi] is a SOURCE function index) *)
Definition model_events (v1 : bool) (cap : N) (m : module) (fuel : nat) (fi : nat) (args : list val)
  : option (list event * outcome) :=
  match inject (cfg_of v1) m, ameter_funcs (cfg_of v1) m with
  | Some m', Some afs => Some (trun (mhost test_host) cap m' afs fuel (fi + num_added_functions) args)
  | _, _ => None
  end.
(** the source module's own trace (work events only) *)
Definition model_src_events (v1 : bool) (cap : N) (m : module) (fuel : nat) (fi : nat) (args : list val)
  : option (list event * outcome) :=
  match annot_funcs (cfg_of v1) m with
  | Some afs => Some (trun test_host cap m afs fuel fi args)
  | None => None
  end.

(** the cost of every instruction of a flat body in its context: (get_cost, branch-if-taken) *)
Fixpoint flat_costs (cfg : cost_cfg) (cx : cost_ctx) (labels : list blocktype) (ops : list opcode)
  : option (list (N * N)) :=
  match ops with
  | [] => Some []
  | o :: r =>
      match c_cost cfg o labels cx with
      | None => None
      | Some c =>
          let tk := match o with
                    | OBasic (BBrIf idx) => match lookup_label labels idx with Some a => c_branch cfg a | None => 0%N end
                    | _ => 0%N
                    end in
          let labels' := match o with
                         | OBlock bt | OIf bt => bt :: labels
                         | OLoop _ => None :: labels
                         | OEnd => tl labels
                         | _ => labels
                         end in
          match flat_costs cfg cx labels' r with
          | Some rest => Some ((c, tk) :: rest)
          | None => None
          end
      end
  end.
Definition model_costs (v1 : bool) (m : module) (bodies : list (list opcode))
  : option (list (N * list (N * N))) :=
  omap_list (fun fb : func * list opcode =>
    match nth_error (m_types m) (f_type (fst fb)) with
    | Some ft =>
        match flat_costs (cfg_of v1) (ctx_of_module m) [ft_result ft] (snd fb) with
        | Some cs => Some (c_invoke_after (cfg_of v1) (N.of_nat (length (f_locals (fst fb)))), cs)
        | None => None
        end
    | None => None
    end) (combine (m_funcs m) bodies).

(** [InterpreterEnergy] (wasm-chain-integration/src/lib.rs): [tick_energy] and
    [charge_memory_alloc]; remaining energy is zeroed on failure. *)
Definition memory_cost_factor : N := 100.
Definition tick_energy (remaining amount : N) : bool * N :=
  if (amount <=? remaining)%N then (true, (remaining - amount)%N) else (false, 0%N).
Definition charge_memory_alloc (remaining pages : N) : bool * N :=
  tick_energy remaining (pages * memory_cost_factor)%N.

(** the energy charges of a trace: ticks, and [account_memory] calls (import 0 of a metered module) *)
Definition charge_of (e : event) : option N :=
  match e with
  | EvTick n => Some n
  | EvHost O [VI32 p] => Some (Z.to_N p * memory_cost_factor)%N
  | _ => None
  end.
(** run a list of charges against a budget: [(true, rem)] all paid; [(false, 0)] out of energy *)
Fixpoint pay (remaining : N) (cs : list N) : bool * N :=
  match cs with
  | [] => (true, remaining)
  | c :: r => match tick_energy remaining c with
              | (true, rem) => pay rem r
              | (false, z) => (false, z)
              end
  end.
Fixpoint charges (t : list event) : list N :=
  match t with
  | [] => []
  | e :: r => match charge_of e with Some c => c :: charges r | None => charges r end
  end.
