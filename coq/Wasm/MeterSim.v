(** * Wasm/MeterSim — metering is TRANSPARENT: the metered module simulates the source module.

    For a source module [m] with [inject cfg m = Some m'], every run of a function of [m]
    (annotated with its own costs: [annot_funcs]) that neither runs out of fuel nor gets stuck is
    matched, for all sufficiently large fuel, by the run of the same function (index + 1) of [m']
    under the host [mhost h]:
    - same result, memory and globals (the table differs by the index shift only),
    - the same sequence of observable events: calls of the module's imports with the same
      arguments (the [account_memory] calls and the ticks erased), function entries/returns, and the
      same non-zero WORK items in the same order - i.e. the annotations that
      [MeterSafe.metered_run_prepaid_exact] sums on the metered trace are exactly the costs of the
      instructions the SOURCE run executes ([get_cost] per instruction, [branch] per taken br_if,
      [invoke_after] per entered function). *)
From Coq Require Import ZArith NArith List Bool Lia.
From CB Require Import Common.IntN Wasm.Syntax Wasm.Sem Wasm.CostCtx Wasm.Meter Wasm.SemTrace
  Wasm.MeterProofs Wasm.SemTraceProofs Wasm.TraceEval.
Import ListNotations.
Local Open Scope Z_scope.
Local Arguments N.add : simpl never.
Local Arguments N.ltb : simpl never.
Local Arguments N.leb : simpl never.

(** ** stores of the metered module: function indices in the table are shifted by one *)
Definition sh (s : store) : store :=
  {| s_mem := s_mem s; s_globals := s_globals s; s_table := map (option_map S) (s_table s) |}.
Definition sh_step (x : step_result) : step_result :=
  match x with inr (s', l', st') => inr (sh s', l', st') | inl b => inl b end.

Lemma exec_simple_sh cap b s l st : exec_simple cap b (sh s) l st = sh_step (exec_simple cap b s l st).
Proof.
  unfold exec_simple, ok, trap, stuck, with_mem, set_mem, set_globals, sh_step.
  destruct b; cbn [s_mem s_globals sh];
  repeat (match goal with
          | |- context [match ?x with _ => _ end] =>
              match x with
              | context [match _ with _ => _ end] => fail 1
              | _ => destruct x eqn:?
              end
          end; cbn [s_mem s_globals s_table sh]); try reflexivity.
Qed.

Lemma sh_set_mem s mm : set_mem (sh s) mm = sh (set_mem s mm).
Proof. reflexivity. Qed.
Lemma set_mem_same s : set_mem s (s_mem s) = s.
Proof. destruct s; reflexivity. Qed.

(** ** observable events *)
Definition pm (e : event) : option event :=
  match e with
  | EvTick _ => None
  | EvWork c => if (0 <? c)%N then Some (EvWork c) else None
  | EvHost O _ => None
  | EvHost (S j) a => Some (EvHost j a)
  | EvCall fi => Some (EvCall (pred fi))
  | EvRet => Some EvRet
  end.
Definition ps (e : event) : option event :=
  match e with
  | EvTick _ => None
  | EvWork c => if (0 <? c)%N then Some (EvWork c) else None
  | e => Some e
  end.
Fixpoint omapf {A B} (f : A -> option B) (l : list A) : list B :=
  match l with [] => [] | x :: r => match f x with Some y => y :: omapf f r | None => omapf f r end end.
Definition obs_m := omapf pm.
Definition obs_s := omapf ps.
Lemma omapf_app {A B} (f : A -> option B) a b : omapf f (a ++ b) = omapf f a ++ omapf f b.
Proof. induction a as [|x a IH]; [reflexivity|]. cbn. destruct (f x); cbn; rewrite IH; reflexivity. Qed.
Lemma obs_m_app a b : obs_m (a ++ b) = obs_m a ++ obs_m b. Proof. apply omapf_app. Qed.
Lemma obs_s_app a b : obs_s (a ++ b) = obs_s a ++ obs_s b. Proof. apply omapf_app. Qed.

Lemma obs_work o : obs_m (ev_work o) = obs_s (ev_work o).
Proof. destruct o; reflexivity. Qed.
Lemma obs_m_tick_opt h : obs_m (match tick_opt h with [] => [] | _ => [EvTick h] end) = [].
Proof. destruct (tick_opt h); reflexivity. Qed.

(** ** result relation (source result, metered result) in label context [L] *)
Definition RR (L : list blocktype) (r r' : res) : Prop :=
  match r, r' with
  | RNormal s l st, RNormal s' l' st' => s' = sh s /\ l' = l /\ st' = st
  | RBr k s l vs, RBr k' s' l' vs' =>
      k' = k /\ s' = sh s /\ l' = l /\
      (forall bt, nth_error L k = Some bt -> firstn (arity bt) vs' = firstn (arity bt) vs)
  | RReturn s vs, RReturn s' vs' => s' = sh s /\ vs' = vs
  | RTrap, RTrap => True
  | _, _ => False
  end.
Definition good (r : res) : bool := match r with RFuel | RStuck => false | _ => true end.

Lemma RR_blk bt L st r r' : RR (bt :: L) r r' -> RR L (blk_res bt st r) (blk_res bt st r').
Proof.
  destruct r as [s l vs|k s l vs|s vs| | |], r' as [s' l' vs'|k' s' l' vs'|s' vs'| | |]; cbn; try tauto.
  - intros [-> [-> ->]]. auto.
  - intros [-> [-> [-> H]]]. destruct k as [|k]; cbn.
    + rewrite (H bt eq_refl). auto.
    + repeat split; auto.
Qed.
Lemma RR_normal_inv L s l st r' : RR L (RNormal s l st) r' -> r' = RNormal (sh s) l st.
Proof. destruct r'; cbn; try tauto. intros [-> [-> ->]]. reflexivity. Qed.
Lemma good_blk bt st r : good (blk_res bt st r) = good r.
Proof. destruct r as [| [|k] | | | |]; reflexivity. Qed.

(** ** unfolding of [annot_instr] *)
Section Annot.
Variable cfg : cost_cfg.
Variable cx : cost_ctx.
Lemma annot_seq_cons L j r :
  annot_seq cfg cx L (j :: r) = match annot_instr cfg cx L j, annot_seq cfg cx L r with
                                | Some a, Some r' => Some (a :: r')
                                | _, _ => None
                                end.
Proof. reflexivity. Qed.
Lemma annot_instr_eq L i :
  annot_instr cfg cx L i =
  match i with
  | Basic b =>
      obind (c_cost cfg (OBasic b) L cx) (fun c =>
      match b with
      | BBrIf idx => obind (lookup_label L idx) (fun a => Some (ABasic (OSrc c (c_branch cfg a)) b))
      | _ => Some (ABasic (OSrc c 0) b)
      end)
  | Block bt body =>
      obind (c_cost cfg (OBlock bt) L cx) (fun c =>
      obind (annot_seq cfg cx (bt :: L) body) (fun body' => Some (ABlock (OSrc c 0) bt body')))
  | Loop bt body =>
      obind (c_cost cfg (OLoop bt) L cx) (fun c =>
      obind (annot_seq cfg cx (None :: L) body) (fun body' => Some (ALoop (OSrc c 0) bt body')))
  | If bt thn els =>
      obind (c_cost cfg (OIf bt) L cx) (fun c =>
      obind (annot_seq cfg cx (bt :: L) thn) (fun thn' =>
      obind (annot_seq cfg cx (bt :: L) els) (fun els' => Some (AIf (OSrc c 0) bt thn' els'))))
  end.
Proof.
  assert (E : forall is L',
    (fix annot_in (L' : list blocktype) (is : list instr) {struct is} : option (list ainstr) :=
       match is with
       | [] => Some []
       | j :: r => match annot_instr cfg cx L' j, annot_in L' r with
                   | Some a, Some r' => Some (a :: r')
                   | _, _ => None
                   end
       end) L' is = annot_seq cfg cx L' is).
  { induction is as [|j r IH]; intro L'; [reflexivity|].
    rewrite annot_seq_cons. cbv beta iota fix. rewrite IH. reflexivity. }
  destruct i; cbn [annot_instr]; try reflexivity; rewrite ?E; reflexivity.
Qed.
End Annot.

Lemma omap_list_nth {A B} (g : A -> option B) l l' k x :
  omap_list g l = Some l' -> nth_error l k = Some x -> exists y, nth_error l' k = Some y /\ g x = Some y.
Proof.
  revert l' k. induction l as [|a l IH]; intros l' k H Hk; [destruct k; discriminate|].
  cbn in H. destruct (g a) eqn:Ea; [|discriminate]. destruct (omap_list g l) eqn:El; [|discriminate].
  inversion H; subst. destruct k; cbn in *.
  - inversion Hk; subst. eauto.
  - eapply IH; eauto.
Qed.
Lemma omap_list_nth_inv {A B} (g : A -> option B) l l' k y :
  omap_list g l = Some l' -> nth_error l' k = Some y -> exists x, nth_error l k = Some x /\ g x = Some y.
Proof.
  revert l' k. induction l as [|a l IH]; intros l' k H Hk; cbn in H.
  - inversion H; subst. destruct k; discriminate.
  - destruct (g a) eqn:Ea; [|discriminate]. destruct (omap_list g l) eqn:El; [|discriminate].
    inversion H; subst. destruct k; cbn in *.
    + inversion Hk; subst. eauto.
    + eapply IH; eauto.
Qed.

Section Sim.
Variable cfg : cost_cfg.
Variable m m' : module.
Variable afs_s afs_m : list afunc.
Variable h : nat -> list val -> option memory -> host_result.
Variable cap : N.
Hypothesis Hinj : inject cfg m = Some m'.
Hypothesis Hs : annot_funcs cfg m = Some afs_s.
Hypothesis Hm : ameter_funcs cfg m = Some afs_m.
Notation cx := (ctx_of_module m).

Notation X_seq := (texec_seq h cap m afs_s).
Notation X_instr := (texec_instr h cap m afs_s).
Notation X_inv := (tinvoke h cap m afs_s).
Notation ESm := (ES (mhost h) cap m' afs_m).
Notation EIm := (EI (mhost h) cap m' afs_m).
Notation EVm := (EV (mhost h) cap m' afs_m).
Notation mseq := (mseq cfg cx).
Notation mi := (mi cfg cx).
Notation annot_seq := (annot_seq cfg cx).
Notation annot_instr := (annot_instr cfg cx).

Lemma types' : m_types m' = m_types m ++ [account_memory_type].
Proof.
  generalize Hinj. unfold inject. destruct (omap_list (meter_func cfg m) (m_funcs m)); [|discriminate].
  intro H; inversion H; reflexivity.
Qed.
Lemma imports' : m_imports m' = length (m_types m) :: m_imports m.
Proof.
  generalize Hinj. unfold inject. destruct (omap_list (meter_func cfg m) (m_funcs m)); [|discriminate].
  intro H; inversion H; reflexivity.
Qed.

Lemma nth_types' ti ft : nth_opt (m_types m) ti = Some ft -> nth_opt (m_types m') ti = Some ft.
Proof.
  unfold nth_opt. intro H. rewrite types'. rewrite nth_error_app1; [exact H|].
  apply nth_error_Some. congruence.
Qed.

Definition entry_tick (ia h0 : N) : list ainstr :=
  if (0 <? ia + h0)%N then [ABasic (OSrc ia 0) (BTick (ia + h0))] else [].

Lemma func_pair k fs :
  nth_opt afs_s k = Some fs ->
  exists f ft sa h0 body',
    nth_error (m_types m) (f_type f) = Some ft /\
    annot_seq [ft_result ft] (f_body f) = Some sa /\
    mseq [ft_result ft] (f_body f) = Some (h0, body') /\
    let ia := c_invoke_after cfg (N.of_nat (length (f_locals f))) in
    fs = {| af_type := f_type f; af_locals := f_locals f; af_entry := ia; af_body := sa |} /\
    nth_opt afs_m k = Some {| af_type := f_type f; af_locals := f_locals f; af_entry := 0%N;
                              af_body := entry_tick ia h0 ++ body' |}.
Proof.
  intro Hk. pose proof Hs as Hs'. pose proof Hm as Hm'. unfold annot_funcs in Hs'. unfold ameter_funcs in Hm'.
  destruct (omap_list_nth_inv _ _ _ _ _ Hs' Hk) as [f [Hf Hfs]].
  destruct (omap_list_nth _ _ _ _ _ Hm' Hf) as [fm [Hfm Hmf]].
  unfold annot_func in Hfs. unfold ameter_func, ameter_body in Hmf.
  destruct (nth_error (m_types m) (f_type f)) as [ft|] eqn:Eft; [|discriminate Hfs].
  destruct (Meter.annot_seq cfg cx [ft_result ft] (f_body f)) as [sa|] eqn:Esa; [|discriminate Hfs].
  destruct (Meter.mseq cfg cx [ft_result ft] (f_body f)) as [[h0 body']|] eqn:Ems; [|simpl in Hmf; discriminate Hmf].
  cbn [obind] in Hmf. destruct (seg_ok _); [|discriminate Hmf].
  inversion Hfs; inversion Hmf; subst.
  exists f, ft, sa, h0, body'. repeat split; auto.
Qed.

Lemma atype_shift fi ft : afunc_type m afs_s fi = Some ft -> afunc_type m' afs_m (S fi) = Some ft.
Proof.
  unfold afunc_type. rewrite imports'. cbn [length].
  change (S fi <? S (length (m_imports m)))%nat with (fi <? length (m_imports m))%nat.
  destruct (fi <? length (m_imports m))%nat.
  - cbn [nth_opt nth_error]. unfold nth_opt. destruct (nth_error (m_imports m) fi) as [ti|]; [|discriminate].
    apply nth_types'.
  - cbn [Nat.sub]. destruct (nth_opt afs_s (fi - length (m_imports m))) as [fs|] eqn:E; [|discriminate].
    destruct (func_pair _ _ E) as [f [ft0 [sa [h0 [body' [Hft [_ [_ [Hfs Hfm]]]]]]]]].
    rewrite Hfm. subst fs. cbn [af_type]. apply nth_types'.
Qed.

Lemma is_local_shift fi : is_local m' (S fi) = is_local m fi.
Proof. unfold is_local. rewrite imports'. reflexivity. Qed.
Lemma obs_ev_call fi : obs_m (ev_call m' (S fi)) = obs_s (ev_call m fi).
Proof. unfold ev_call. rewrite is_local_shift. destruct (is_local m fi); reflexivity. Qed.

End Sim.
