(** * Wasm/MeterSim — metering is TRANSPARENT: the metered module simulates the source module.

    For a source module [m] with [inject cfg m = Some m'], every run of a function of [m]
    (annotated with its own costs: [annot_funcs]) that neither runs out of fuel nor gets stuck is
    matched, for all sufficiently large fuel, by the run of the same function (index + 1) of [m']
    under the host [mhost h]:
    - same result, memory and globals (the table differs by the index shift only),
    - the same sequence of observable events: calls of the module's imports with the same
      arguments (the [account_memory] calls and the ticks erased), function entries/returns, and the
      same non-zero WORK items in the same order - i.e. the annotations that
      [MeterSafe.metered_run_prepaid_exact] sums on the metered trace are exactly the costs of the
      instructions the SOURCE run executes ([get_cost] per instruction, [branch] per taken br_if,
      [invoke_after] per entered function). *)
From Coq Require Import ZArith NArith List Bool Lia.
From CB Require Import Common.IntN Wasm.Syntax Wasm.Sem Wasm.CostCtx Wasm.Meter Wasm.SemTrace
  Wasm.MeterProofs Wasm.SemTraceProofs Wasm.TraceEval Wasm.MeterSafe.
Import ListNotations.
Local Open Scope Z_scope.
Local Arguments N.add : simpl never.
Local Arguments N.ltb : simpl never.
Local Arguments N.leb : simpl never.

Ltac obind_inv H :=
  repeat match type of H with
         | obind ?o _ = Some _ => let E := fresh "E" in destruct o eqn:E; [cbn [obind] in H|discriminate H]
         | (let '(_, _) := ?p in _) = Some _ => destruct p
         | (if ?c then _ else _) = Some _ => let E := fresh "E" in destruct c eqn:E; [|discriminate H]
         end.

(** ** stores of the metered module: function indices in the table are shifted by one *)
Definition sh (s : store) : store :=
  {| s_mem := s_mem s; s_globals := s_globals s; s_table := map (option_map S) (s_table s) |}.
Definition sh_step (x : step_result) : step_result :=
  match x with inr (s', l', st') => inr (sh s', l', st') | inl b => inl b end.

Lemma exec_simple_sh cap b s l st : exec_simple cap b (sh s) l st = sh_step (exec_simple cap b s l st).
Proof.
  unfold exec_simple, ok, trap, stuck, with_mem, set_mem, set_globals, sh_step.
  destruct b; cbn [s_mem s_globals sh];
  repeat (match goal with
          | |- context [match ?x with _ => _ end] =>
              match x with
              | context [match _ with _ => _ end] => fail 1
              | _ => destruct x eqn:?
              end
          end; cbn [s_mem s_globals s_table sh]); try reflexivity.
Qed.

Lemma sh_set_mem s mm : set_mem (sh s) mm = sh (set_mem s mm).
Proof. reflexivity. Qed.
Lemma set_mem_same s : set_mem s (s_mem s) = s.
Proof. destruct s; reflexivity. Qed.

(** ** observable events *)
Definition pm (e : event) : option event :=
  match e with
  | EvTick _ => None
  | EvWork c => if (0 <? c)%N then Some (EvWork c) else None
  | EvHost O _ => None
  | EvHost (S j) a => Some (EvHost j a)
  | EvCall fi => Some (EvCall (pred fi))
  | EvRet => Some EvRet
  end.
Definition ps (e : event) : option event :=
  match e with
  | EvTick _ => None
  | EvWork c => if (0 <? c)%N then Some (EvWork c) else None
  | e => Some e
  end.
Fixpoint omapf {A B} (f : A -> option B) (l : list A) : list B :=
  match l with [] => [] | x :: r => match f x with Some y => y :: omapf f r | None => omapf f r end end.
Definition obs_m := omapf pm.
Definition obs_s := omapf ps.
Lemma omapf_app {A B} (f : A -> option B) a b : omapf f (a ++ b) = omapf f a ++ omapf f b.
Proof. induction a as [|x a IH]; [reflexivity|]. cbn. destruct (f x); cbn; rewrite IH; reflexivity. Qed.
Lemma obs_m_app a b : obs_m (a ++ b) = obs_m a ++ obs_m b. Proof. apply omapf_app. Qed.
Lemma obs_s_app a b : obs_s (a ++ b) = obs_s a ++ obs_s b. Proof. apply omapf_app. Qed.

Lemma obs_work o : obs_m (ev_work o) = obs_s (ev_work o).
Proof. destruct o; reflexivity. Qed.
Lemma obs_m_tick_opt h : obs_m (match tick_opt h with [] => [] | _ => [EvTick h] end) = [].
Proof. destruct (tick_opt h); reflexivity. Qed.

(** ** result relation (source result, metered result) in label context [L] *)
Definition RR (L : list blocktype) (r r' : res) : Prop :=
  match r, r' with
  | RNormal s l st, RNormal s' l' st' => s' = sh s /\ l' = l /\ st' = st
  | RBr k s l vs, RBr k' s' l' vs' =>
      k' = k /\ s' = sh s /\ l' = l /\
      (forall bt, nth_error L k = Some bt -> firstn (arity bt) vs' = firstn (arity bt) vs)
  | RReturn s vs, RReturn s' vs' => s' = sh s /\ vs' = vs
  | RTrap, RTrap => True
  | _, _ => False
  end.
Definition good (r : res) : bool := match r with RFuel | RStuck => false | _ => true end.

Lemma RR_blk bt L st r r' : RR (bt :: L) r r' -> RR L (blk_res bt st r) (blk_res bt st r').
Proof.
  destruct r as [s l vs|k s l vs|s vs| | |], r' as [s' l' vs'|k' s' l' vs'|s' vs'| | |]; cbn; try tauto.
  - intros [-> [-> ->]]. auto.
  - intros [-> [-> [-> H]]]. destruct k as [|k]; cbn.
    + rewrite (H bt eq_refl). auto.
    + repeat split; auto.
Qed.
Lemma RR_normal_inv L s l st r' : RR L (RNormal s l st) r' -> r' = RNormal (sh s) l st.
Proof. destruct r'; cbn; try tauto. intros [-> [-> ->]]. reflexivity. Qed.
Lemma good_blk bt st r : good (blk_res bt st r) = good r.
Proof. destruct r as [| [|k] | | | |]; reflexivity. Qed.

(** ** unfolding of [annot_instr] *)
Section Annot.
Variable cfg : cost_cfg.
Variable cx : cost_ctx.
Lemma annot_seq_cons L j r :
  annot_seq cfg cx L (j :: r) = match annot_instr cfg cx L j, annot_seq cfg cx L r with
                                | Some a, Some r' => Some (a :: r')
                                | _, _ => None
                                end.
Proof. reflexivity. Qed.
Lemma annot_instr_eq L i :
  annot_instr cfg cx L i =
  match i with
  | Basic b =>
      obind (c_cost cfg (OBasic b) L cx) (fun c =>
      match b with
      | BBrIf idx => obind (lookup_label L idx) (fun a => Some (ABasic (OSrc c (c_branch cfg a)) b))
      | _ => Some (ABasic (OSrc c 0) b)
      end)
  | Block bt body =>
      obind (c_cost cfg (OBlock bt) L cx) (fun c =>
      obind (annot_seq cfg cx (bt :: L) body) (fun body' => Some (ABlock (OSrc c 0) bt body')))
  | Loop bt body =>
      obind (c_cost cfg (OLoop bt) L cx) (fun c =>
      obind (annot_seq cfg cx (None :: L) body) (fun body' => Some (ALoop (OSrc c 0) bt body')))
  | If bt thn els =>
      obind (c_cost cfg (OIf bt) L cx) (fun c =>
      obind (annot_seq cfg cx (bt :: L) thn) (fun thn' =>
      obind (annot_seq cfg cx (bt :: L) els) (fun els' => Some (AIf (OSrc c 0) bt thn' els'))))
  end.
Proof.
  assert (E : forall is L',
    (fix annot_in (L' : list blocktype) (is : list instr) {struct is} : option (list ainstr) :=
       match is with
       | [] => Some []
       | j :: r => match annot_instr cfg cx L' j, annot_in L' r with
                   | Some a, Some r' => Some (a :: r')
                   | _, _ => None
                   end
       end) L' is = annot_seq cfg cx L' is).
  { induction is as [|j r IH]; intro L'; [reflexivity|].
    rewrite annot_seq_cons. cbv beta iota fix. rewrite IH. reflexivity. }
  destruct i; cbn [annot_instr]; try reflexivity; rewrite ?E; reflexivity.
Qed.
End Annot.

Lemma omap_list_nth {A B} (g : A -> option B) l l' k x :
  omap_list g l = Some l' -> nth_error l k = Some x -> exists y, nth_error l' k = Some y /\ g x = Some y.
Proof.
  revert l' k. induction l as [|a l IH]; intros l' k H Hk; [destruct k; discriminate|].
  cbn in H. destruct (g a) eqn:Ea; [|discriminate]. destruct (omap_list g l) eqn:El; [|discriminate].
  inversion H; subst. destruct k; cbn in *.
  - inversion Hk; subst. eauto.
  - eapply IH; eauto.
Qed.
Lemma omap_list_nth_inv {A B} (g : A -> option B) l l' k y :
  omap_list g l = Some l' -> nth_error l' k = Some y -> exists x, nth_error l k = Some x /\ g x = Some y.
Proof.
  revert l' k. induction l as [|a l IH]; intros l' k H Hk; cbn in H.
  - inversion H; subst. destruct k; discriminate.
  - destruct (g a) eqn:Ea; [|discriminate]. destruct (omap_list g l) eqn:El; [|discriminate].
    inversion H; subst. destruct k; cbn in *.
    + inversion Hk; subst. eauto.
    + eapply IH; eauto.
Qed.

Section Sim.
Variable cfg : cost_cfg.
Variable m m' : module.
Variable afs_s afs_m : list afunc.
Variable h : nat -> list val -> option memory -> host_result.
Variable cap : N.
Hypothesis Hinj : inject cfg m = Some m'.
Hypothesis Hs : annot_funcs cfg m = Some afs_s.
Hypothesis Hm : ameter_funcs cfg m = Some afs_m.
Notation cx := (ctx_of_module m).

Notation X_seq := (texec_seq h cap m afs_s).
Notation X_instr := (texec_instr h cap m afs_s).
Notation X_inv := (tinvoke h cap m afs_s).
Notation ESm := (ES (mhost h) cap m' afs_m).
Notation EIm := (EI (mhost h) cap m' afs_m).
Notation EVm := (EV (mhost h) cap m' afs_m).
Notation mseq := (mseq cfg cx).
Notation mi := (mi cfg cx).
Notation annot_seq := (annot_seq cfg cx).
Notation annot_instr := (annot_instr cfg cx).

Lemma types' : m_types m' = m_types m ++ [account_memory_type].
Proof.
  generalize Hinj. unfold inject. destruct (omap_list (meter_func cfg m) (m_funcs m)); [|discriminate].
  intro H; inversion H; reflexivity.
Qed.
Lemma imports' : m_imports m' = length (m_types m) :: m_imports m.
Proof.
  generalize Hinj. unfold inject. destruct (omap_list (meter_func cfg m) (m_funcs m)); [|discriminate].
  intro H; inversion H; reflexivity.
Qed.

Lemma nth_types' ti ft : nth_opt (m_types m) ti = Some ft -> nth_opt (m_types m') ti = Some ft.
Proof.
  unfold nth_opt. intro H. rewrite types'. rewrite nth_error_app1; [exact H|].
  apply nth_error_Some. congruence.
Qed.

Definition entry_tick (ia h0 : N) : list ainstr :=
  if (0 <? ia + h0)%N then [ABasic (OSrc ia 0) (BTick (ia + h0))] else [].

Lemma func_pair k fs :
  nth_opt afs_s k = Some fs ->
  exists f ft sa h0 body',
    nth_error (m_types m) (f_type f) = Some ft /\
    annot_seq [ft_result ft] (f_body f) = Some sa /\
    mseq [ft_result ft] (f_body f) = Some (h0, body') /\
    let ia := c_invoke_after cfg (N.of_nat (length (f_locals f))) in
    fs = {| af_type := f_type f; af_locals := f_locals f; af_entry := ia; af_body := sa |} /\
    nth_opt afs_m k = Some {| af_type := f_type f; af_locals := f_locals f; af_entry := 0%N;
                              af_body := entry_tick ia h0 ++ body' |}.
Proof.
  intro Hk. pose proof Hs as Hs'. pose proof Hm as Hm'. unfold annot_funcs in Hs'. unfold ameter_funcs in Hm'.
  destruct (omap_list_nth_inv _ _ _ _ _ Hs' Hk) as [f [Hf Hfs]].
  destruct (omap_list_nth _ _ _ _ _ Hm' Hf) as [fm [Hfm Hmf]].
  unfold annot_func in Hfs. unfold ameter_func, ameter_body in Hmf.
  destruct (nth_error (m_types m) (f_type f)) as [ft|] eqn:Eft;
    rewrite ?Eft in Hfs, Hmf; [|discriminate Hfs].
  match type of Hfs with context [Meter.annot_seq ?a ?b ?c ?d] =>
    destruct (Meter.annot_seq a b c d) as [sa|] eqn:Esa; [|discriminate Hfs] end.
  match type of Hmf with context [Meter.mseq ?a ?b ?c ?d] =>
    destruct (Meter.mseq a b c d) as [[h0 body']|] eqn:Ems; cbn [obind] in Hmf; [|discriminate Hmf] end.
  destruct (seg_ok _); [|discriminate Hmf].
  inversion Hfs; inversion Hmf; subst.
  exists f, ft, sa, h0, body'. repeat split; auto.
Qed.

Lemma atype_shift fi ft : afunc_type m afs_s fi = Some ft -> afunc_type m' afs_m (S fi) = Some ft.
Proof.
  unfold afunc_type. rewrite imports'. cbn [length].
  change (S fi <? S (length (m_imports m)))%nat with (fi <? length (m_imports m))%nat.
  destruct (fi <? length (m_imports m))%nat.
  - cbn [nth_opt nth_error]. unfold nth_opt. destruct (nth_error (m_imports m) fi) as [ti|]; [|discriminate].
    apply nth_types'.
  - cbn [Nat.sub]. destruct (nth_opt afs_s (fi - length (m_imports m))) as [fs|] eqn:E; [|discriminate].
    destruct (func_pair _ _ E) as [f [ft0 [sa [h0 [body' [Hft [_ [_ [Hfs Hfm]]]]]]]]].
    rewrite Hfm. subst fs. cbn [af_type]. apply nth_types'.
Qed.

Lemma is_local_shift fi : is_local m' (S fi) = is_local m fi.
Proof. unfold is_local. rewrite imports'. reflexivity. Qed.
Lemma obs_ev_call fi : obs_m (ev_call m' (S fi)) = obs_s (ev_call m fi).
Proof. unfold ev_call. rewrite is_local_shift. destruct (is_local m fi); reflexivity. Qed.

(** ** the simulation statements (source fuel [f]; the metered side holds for all large fuel) *)
Definition shv (r : sum res (store * option val)) : sum res (store * option val) :=
  match r with inr (s', v) => inr (sh s', v) | inl r0 => inl r0 end.
Definition goodv (r : sum res (store * option val)) : bool :=
  match r with inl r0 => good r0 | inr _ => true end.

Definition SimA (f : nat) : Prop :=
  forall L is h0 is' sa, mseq L is = Some (h0, is') -> annot_seq L is = Some sa ->
  forall s l st W r, X_seq f s l st sa = (W, r) -> good r = true ->
  exists T r', ESm is' (sh s) l st T r' /\ RR L r r' /\ obs_m T = obs_s W.
Definition SimInv (f : nat) : Prop :=
  forall s fi args W r, X_inv f s fi args = (W, r) -> goodv r = true ->
  exists T, EVm (sh s) (S fi) args T (shv r) /\ obs_m T = obs_s W.
Definition SimLoop (f : nat) : Prop :=
  forall L body hb body' sbody o bt,
  mseq (None :: L) body = Some (hb, body') -> annot_seq (None :: L) body = Some sbody ->
  forall s l st W r, X_instr f s l st (ALoop o bt sbody) = (W, r) -> good r = true ->
  exists T r', EIm (ALoop o bt (tick_opt hb ++ body')) (sh s) l st T r' /\ RR L r r' /\ obs_m T = obs_s W.

Lemma EI_tick o n s l st : EIm (ABasic o (BTick n)) s l st (EvTick n :: ev_work o) (RNormal s l st).
Proof. apply (EI_simple (mhost h) cap m' afs_m o (BTick n) s l st eq_refl). Qed.

Lemma ES_tick_opt hh is' s l st T r :
  ESm is' s l st T r -> exists T', ESm (tick_opt hh ++ is') s l st T' r /\ obs_m T' = obs_m T.
Proof.
  intro H. unfold tick_opt. destruct (0 <? hh)%N.
  - exists ((EvTick hh :: ev_work OInj) ++ T). split; [|reflexivity].
    eapply (ES_cons_normal (mhost h) cap m' afs_m); [apply EI_tick|exact H].
  - exists T. split; [exact H|reflexivity].
Qed.

Lemma RR_good L r r' : RR L r r' -> good r = true.
Proof. destruct r, r'; cbn; tauto. Qed.
Lemma RR_normal_iff L r r' : RR L r r' -> is_normal r' = is_normal r.
Proof. destruct r, r'; cbn; tauto. Qed.

(** invocation *)
Lemma fin_result_sh ft s' vs vs' :
  firstn (arity (ft_result ft)) vs' = firstn (arity (ft_result ft)) vs ->
  fin_result ft (sh s') vs' = (fst (fin_result ft s' vs), shv (snd (fin_result ft s' vs))).
Proof.
  unfold fin_result. destruct (ft_result ft); cbn [arity]; [|reflexivity].
  destruct vs, vs'; cbn [firstn]; intro H; try discriminate; try reflexivity. inversion H; reflexivity.
Qed.

Lemma inv_res_sh ft r r' :
  RR [ft_result ft] r r' ->
  inv_res ft r' = (fst (inv_res ft r), shv (snd (inv_res ft r))).
Proof.
  destruct r as [s1 l1 vs|k s1 l1 vs|s1 vs| | |], r' as [s2 l2 vs'|k' s2 l2 vs'|s2 vs'| | |]; cbn [RR]; try tauto.
  - intros [-> [-> ->]]. cbn [inv_res]. apply fin_result_sh. reflexivity.
  - intros [-> [-> [-> H]]]. destruct k; cbn [inv_res]; [|reflexivity]. apply fin_result_sh. apply H. reflexivity.
  - intros [-> ->]. cbn [inv_res]. apply fin_result_sh. reflexivity.
Qed.

Lemma simInv_step f : (forall f', (f' < f)%nat -> SimA f') -> SimInv f.
Proof.
  intros HA s fi args W r H Hg. destruct f as [|f]; [inversion H; subst; discriminate|].
  rewrite tinv_S in H. unfold inv_body in H.
  destruct (fi <? length (m_imports m))%nat eqn:Eimp.
  - (* imported function *)
    destruct (afunc_type m afs_s fi) as [ft|] eqn:Eft; [|inversion H; subst; discriminate].
    inversion H; subst; clear H.
    exists [EvHost (S fi) args]. split; [|reflexivity].
    assert (El : (S fi <? length (m_imports m'))%nat = true) by (rewrite imports'; exact Eimp).
    pose proof (EV_host (mhost h) cap m' afs_m (sh s) (S fi) args ft El (atype_shift _ _ Eft)) as E.
    cbn [mhost s_mem sh] in E. destruct (h fi args (s_mem s)); exact E.
  - destruct (nth_opt afs_s (fi - length (m_imports m))) as [fs|] eqn:Efs; [|inversion H; subst; discriminate].
    destruct (func_pair _ _ Efs) as [fn [ft [sa [h0 [body' [Hft [Hsa [Hms [Hfs Hfm]]]]]]]]].
    subst fs. cbn [af_type af_locals af_body af_entry] in H.
    unfold nth_opt in H at 1. rewrite Hft in H.
    destruct (X_seq f s (args ++ map zero_of (f_locals fn)) [] sa) as [t r1] eqn:Et.
    assert (Hg1 : good r1 = true).
    { destruct r1 as [| [|k] | | | |]; try reflexivity; exfalso; inversion H; subst; cbn in Hg; discriminate Hg. }
    destruct (HA f (Nat.lt_succ_diag_r f) [ft_result ft] (f_body fn) h0 body' sa Hms Hsa _ _ _ _ _ Et Hg1)
      as [T [r1' [HES [HRR Hobs]]]].
    set (ia := c_invoke_after cfg (N.of_nat (length (f_locals fn)))) in *.
    (* the metered body: entry tick, then body' *)
    assert (HB : exists T', ESm (entry_tick ia h0 ++ body') (sh s) (args ++ map zero_of (f_locals fn)) [] T' r1'
                            /\ obs_m T' = obs_s [EvWork ia] ++ obs_m T).
    { unfold entry_tick. destruct (0 <? ia + h0)%N eqn:E0.
      - exists ((EvTick (ia + h0) :: ev_work (OSrc ia 0)) ++ T). split.
        + eapply (ES_cons_normal (mhost h) cap m' afs_m); [apply EI_tick|exact HES].
        + rewrite obs_m_app. apply f_equal2; [cbn; destruct (0 <? ia)%N; reflexivity|reflexivity].
      - exists T. split; [exact HES|]. apply N.ltb_ge in E0. assert (ia = 0%N) by lia.
        replace ia with 0%N. reflexivity. }
    destruct HB as [T' [HES' Hobs']].
    assert (El : (S fi <? length (m_imports m'))%nat = false) by (rewrite imports'; exact Eimp).
    assert (Hn : nth_opt afs_m (S fi - length (m_imports m')) =
                 Some {| af_type := f_type fn; af_locals := f_locals fn; af_entry := 0%N;
                         af_body := entry_tick ia h0 ++ body' |}) by (rewrite imports'; exact Hfm).
    pose proof (EV_local (mhost h) cap m' afs_m (sh s) (S fi) args _ ft T' r1' El Hn (nth_types' _ _ Hft) HES') as E.
    cbn [af_entry] in E. rewrite (inv_res_sh ft r1 r1' HRR) in E. cbn [fst snd] in E.
    assert (Hr : (W, r) = (EvWork ia :: t ++ fst (inv_res ft r1), snd (inv_res ft r1))).
    { rewrite <- H. unfold inv_res. destruct r1 as [| [|k] | | | |]; try reflexivity;
        destruct (fin_result _ _ _); reflexivity. }
    inversion Hr; subst W r; clear Hr.
    eexists. split; [exact E|].
    change (EvWork 0%N :: T' ++ fst (inv_res ft r1)) with ([EvWork 0%N] ++ T' ++ fst (inv_res ft r1)).
    change (EvWork ia :: t ++ fst (inv_res ft r1)) with ([EvWork ia] ++ t ++ fst (inv_res ft r1)).
    rewrite !obs_m_app, !obs_s_app, Hobs', Hobs.
    change (obs_m [EvWork 0%N]) with (@nil event). cbn [app]. rewrite <- app_assoc. do 2 f_equal.
    (* the EvRet events *)
    unfold inv_res. destruct r1 as [s1 l1 vs|[|k] s1 l1 vs|s1 vs| | |]; try reflexivity;
      unfold fin_result; destruct (ft_result ft); try reflexivity; destruct vs; reflexivity.
Qed.

Lemma RR_loop bt L st r r' :
  RR (None :: L) r r' -> is_br0 r = false -> RR L (blk_res bt st r) (blk_res bt st r').
Proof.
  destruct r as [s1 l1 vs|k s1 l1 vs|s1 vs| | |], r' as [s2 l2 vs'|k' s2 l2 vs'|s2 vs'| | |]; cbn; try tauto.
  - intros [-> [-> ->]] _. auto.
  - intros [-> [-> [-> H]]]. destruct k as [|k]; [discriminate|]. intros _. cbn. repeat split; auto.
Qed.

Lemma simLoop_step f :
  (forall f', (f' < f)%nat -> SimA f') -> (forall f', (f' < f)%nat -> SimLoop f') -> SimLoop f.
Proof.
  intros HA HL L body hb body' sbody o bt Hms Hsa s l st W r H Hg.
  destruct f as [|f]; [inversion H; subst; discriminate|].
  rewrite tinstr_S in H. cbn [instr_body] in H.
  destruct (X_seq f s l [] sbody) as [t r1] eqn:E1.
  assert (Hg1 : good r1 = true).
  { destruct r1 as [| [|k] | | | |]; try reflexivity; exfalso; inversion H; subst; discriminate Hg. }
  destruct (HA f (Nat.lt_succ_diag_r f) _ _ _ _ _ Hms Hsa _ _ _ _ _ E1 Hg1) as [T1 [r1' [HES [HRR Hobs]]]].
  destruct (ES_tick_opt hb _ _ _ _ _ _ HES) as [T1' [HES' Hobs']].
  destruct (is_br0 r1) eqn:Eb.
  - (* the body branches back: next iteration *)
    destruct r1 as [|[|k] s1 l1 vs| | | |]; try discriminate.
    destruct r1' as [|k' s2 l2 vs'| | | |]; try (cbn in HRR; tauto). destruct HRR as [-> [-> [-> _]]].
    destruct (X_instr f s1 l1 st (ALoop OInj bt sbody)) as [t2 r2] eqn:E2. inversion H; subst W r; clear H.
    destruct (HL f (Nat.lt_succ_diag_r f) L body hb body' sbody OInj bt Hms Hsa _ _ _ _ _ E2 Hg) as [T2 [r2' [HEI [HRR2 Hobs2]]]].
    exists (ev_work o ++ T1' ++ T2), r2'. split; [|split; [exact HRR2|]].
    + eapply (EI_loop_again (mhost h) cap m' afs_m); eassumption.
    + rewrite !obs_m_app, !obs_s_app, obs_work, Hobs', Hobs, Hobs2. reflexivity.
  - (* the loop is left *)
    assert (Hr : (W, r) = (ev_work o ++ t, blk_res bt st r1)).
    { rewrite <- H. destruct r1 as [|[|k]| | | |]; try reflexivity. discriminate. }
    inversion Hr; subst W r; clear Hr H.
    exists (ev_work o ++ T1'), (blk_res bt st r1'). split; [|split].
    + apply (EI_loop_exit (mhost h) cap m' afs_m); [exact HES'|].
      destruct r1 as [|[|k]| | | |], r1'  as [|[|k']| | | |]; cbn in HRR; try tauto; try reflexivity; try discriminate.
      destruct HRR as [HH _]; discriminate.
    + apply RR_loop; assumption.
    + rewrite !obs_m_app, !obs_s_app, obs_work, Hobs', Hobs. reflexivity.
Qed.

(** ** single instructions *)
Notation EPm := (EP (mhost h) cap m' afs_m).

Definition InstrSim (f : nat) : Prop :=
  forall L j hj pre fl a, mi L j = Some (hj, pre, fl) -> annot_instr L j = Some a ->
  forall s l st t1 r1, X_instr f s l st a = (t1, r1) -> good r1 = true ->
  exists T1 r1', EPm pre (sh s) l st T1 r1' /\ RR L r1 r1' /\ obs_m T1 = obs_s t1.

Lemma RR_step L x : good (res_of_step x) = true -> RR L (res_of_step x) (res_of_step (sh_step x)).
Proof. destruct x as [[|]|[[s' l'] st']]; cbn; auto; discriminate. Qed.

Lemma sim_simple f L c b s l st t1 r1 :
  simple_b b = true ->
  X_instr f s l st (ABasic (OSrc c 0) b) = (t1, r1) -> good r1 = true ->
  exists T1 r1', EIm (ABasic (OSrc c 0) b) (sh s) l st T1 r1' /\ RR L r1 r1' /\ obs_m T1 = obs_s t1.
Proof.
  intros Hb H Hg. destruct f as [|f]; [inversion H; subst; discriminate|].
  rewrite tinstr_S, instr_body_simple in H by exact Hb. inversion H; subst; clear H.
  exists (simple_events (OSrc c 0) b), (res_of_step (exec_simple cap b (sh s) l st)).
  split; [apply EI_simple; exact Hb|]. rewrite exec_simple_sh. split; [apply RR_step; exact Hg|].
  destruct b; reflexivity.
Qed.

Lemma table_sh s c :
  (if c <? Z.of_nat (length (s_table (sh s))) then nth_opt (s_table (sh s)) (Z.to_nat c) else None) =
  option_map (option_map S)
    (if c <? Z.of_nat (length (s_table s)) then nth_opt (s_table s) (Z.to_nat c) else None).
Proof.
  cbn [sh s_table]. rewrite map_length. destruct (c <? _); [|reflexivity]. unfold nth_opt. apply nth_error_map.
Qed.

Lemma atype0 : afunc_type m' afs_m 0 = Some account_memory_type.
Proof.
  unfold afunc_type. rewrite imports'. cbn [length Nat.ltb Nat.leb nth_opt nth_error].
  unfold nth_opt. rewrite types'. rewrite nth_error_app2 by lia. rewrite Nat.sub_diag. reflexivity.
Qed.

Lemma sim_callres f0 L s fi args t rv l st :
  SimInv f0 ->
  X_inv f0 s fi args = (t, rv) -> good (call_res l st rv) = true ->
  exists T, EVm (sh s) (S fi) args T (shv rv) /\ obs_m T = obs_s t /\
            RR L (call_res l st rv) (call_res l st (shv rv)).
Proof.
  intros HI H Hg.
  assert (Hgv : goodv rv = true) by (destruct rv as [r0|[s' v]]; [exact Hg|reflexivity]).
  destruct (HI _ _ _ _ _ H Hgv) as [T [HEV Hobs]]. exists T. repeat split; auto.
  destruct rv as [r0|[s' v]]; cbn.
  - destruct (tinv_inl_shape _ _ _ _ _ _ _ _ _ _ H) as [-> | [-> | ->]]; cbn; auto; discriminate.
  - auto.
Qed.

Lemma kind_pending b : kind_of b = KPending ->
  simple_b b = true /\ (forall n, b <> BTick n) /\ (forall idx, b <> BBrIf idx).
Proof. destruct b; cbn; intro H; try discriminate; repeat split; intros; discriminate. Qed.

Lemma label_arity0 L idx bt : lookup_label L idx = Some 0%N -> nth_error L idx = Some bt -> arity bt = 0%nat.
Proof. unfold lookup_label. intros H E. rewrite E in H. destruct bt; [discriminate|reflexivity]. Qed.

Lemma obs_pre o T t : obs_m T = obs_s t -> obs_m (ev_work o ++ T) = obs_s (ev_work o ++ t).
Proof. intro H. rewrite obs_m_app, obs_s_app, obs_work, H. reflexivity. Qed.

Lemma obs_call o fi T t : obs_m T = obs_s t ->
  obs_m (ev_work o ++ ev_call m' (S fi) ++ T) = obs_s (ev_work o ++ ev_call m fi ++ t).
Proof. intro H. rewrite !obs_m_app, !obs_s_app, obs_ev_call, obs_work, H. reflexivity. Qed.

(** direct calls *)
Lemma sim_call f L c idx s l st t1 r1 :
  (forall f', (f' < f)%nat -> SimInv f') ->
  X_instr f s l st (ABasic (OSrc c 0) (BCall idx)) = (t1, r1) -> good r1 = true ->
  exists T1 r1', EIm (ABasic (OSrc c 0) (BCall (idx + num_added_functions))) (sh s) l st T1 r1' /\
                 RR L r1 r1' /\ obs_m T1 = obs_s t1.
Proof.
  intros HI H Hg. destruct f as [|f]; [inversion H; subst; discriminate|].
  rewrite tinstr_S in H. cbn [instr_body] in H.
  destruct (afunc_type m afs_s idx) as [ft|] eqn:Eft; [|inversion H; subst; discriminate].
  destruct (take_args (length (ft_params ft)) st []) as [[args st']|] eqn:Eta; [|inversion H; subst; discriminate].
  destruct (X_inv f s idx args) as [t rv] eqn:Ei.
  rewrite (call_body_eval h cap m afs_s f _ _ _ _ _ _ _ _ Ei) in H. inversion H; subst t1 r1; clear H.
  destruct (sim_callres f L _ _ _ _ _ l st' (HI f (Nat.lt_succ_diag_r f)) Ei Hg) as [T [HEV [Hobs HRR]]].
  replace (idx + num_added_functions)%nat with (S idx) by (unfold num_added_functions; lia).
  eexists. eexists. split; [eapply (EI_call (mhost h) cap m' afs_m); [apply atype_shift; exact Eft|exact Eta|exact HEV]|].
  split; [exact HRR|]. apply (obs_call (OSrc c 0)); exact Hobs.
Qed.

(** indirect calls *)
Lemma sim_call_indirect f L c ti s l st t1 r1 :
  (forall f', (f' < f)%nat -> SimInv f') ->
  X_instr f s l st (ABasic (OSrc c 0) (BCallIndirect ti)) = (t1, r1) -> good r1 = true ->
  exists T1 r1', EIm (ABasic (OSrc c 0) (BCallIndirect ti)) (sh s) l st T1 r1' /\
                 RR L r1 r1' /\ obs_m T1 = obs_s t1.
Proof.
  intros HI H Hg. destruct f as [|f]; [inversion H; subst; discriminate|].
  rewrite tinstr_S in H. cbn [instr_body] in H.
  destruct st as [|[c0|c0] st0]; try (inversion H; subst; discriminate).
  destruct (nth_opt (m_types m) ti) as [ft|] eqn:Ety; [|inversion H; subst; discriminate].
  pose proof (table_sh s c0) as Htab.
  destruct (if c0 <? Z.of_nat (length (s_table s)) then nth_opt (s_table s) (Z.to_nat c0) else None) as [[fi|]|] eqn:El.
  - destruct (afunc_type m afs_s fi) as [ft'|] eqn:Eft; [|inversion H; subst; discriminate].
    destruct (functype_eqb ft ft') eqn:Eeq.
    + destruct (take_args (length (ft_params ft)) st0 []) as [[args st']|] eqn:Eta; [|inversion H; subst; discriminate].
      destruct (X_inv f s fi args) as [t rv] eqn:Ei.
      rewrite (call_body_eval h cap m afs_s f _ _ _ _ _ _ _ _ Ei) in H. inversion H; subst t1 r1; clear H.
      destruct (sim_callres f L _ _ _ _ _ l st' (HI f (Nat.lt_succ_diag_r f)) Ei Hg) as [T [HEV [Hobs HRR]]].
      eexists. eexists.
      split; [eapply (EI_call_indirect (mhost h) cap m' afs_m);
              [apply nth_types'; exact Ety|exact Htab|apply atype_shift; exact Eft|exact Eeq|exact Eta|exact HEV]|].
      split; [exact HRR|]. apply (obs_call (OSrc c 0)); exact Hobs.
    + inversion H; subst t1 r1; clear H. eexists. exists RTrap.
      split; [eapply (EI_call_indirect_mismatch (mhost h) cap m' afs_m);
              [apply nth_types'; exact Ety|exact Htab|apply atype_shift; exact Eft|exact Eeq]|].
      split; [exact I|]. pose proof (obs_call (OSrc c 0) fi [] [] eq_refl) as Ho. rewrite !app_nil_r in Ho. exact Ho.
  - inversion H; subst t1 r1; clear H. eexists. exists RTrap.
    split; [eapply (EI_call_indirect_undef (mhost h) cap m' afs_m); [apply nth_types'; exact Ety|rewrite Htab; exact I]|].
    split; [exact I|reflexivity].
  - inversion H; subst t1 r1; clear H. eexists. exists RTrap.
    split; [eapply (EI_call_indirect_undef (mhost h) cap m' afs_m); [apply nth_types'; exact Ety|rewrite Htab; exact I]|].
    split; [exact I|reflexivity].
Qed.

(** memory.grow: the injected call of import 0 returns its argument and leaves the store alone *)
Lemma sim_memgrow f L c s l st t1 r1 :
  X_instr f s l st (ABasic (OSrc c 0) BMemoryGrow) = (t1, r1) -> good r1 = true ->
  exists T1 r1', EPm [ABasic OInj (BCall fn_idx_memory_alloc); ABasic (OSrc c 0) BMemoryGrow] (sh s) l st T1 r1'
                 /\ RR L r1 r1' /\ obs_m T1 = obs_s t1.
Proof.
  intros H Hg.
  destruct (sim_simple f L c BMemoryGrow s l st t1 r1 eq_refl H Hg) as [T [r' [HEI [HRR Hobs]]]].
  destruct f as [|f]; [inversion H; subst; discriminate|].
  rewrite tinstr_S, instr_body_simple in H by reflexivity. inversion H; subst t1 r1; clear H.
  destruct st as [|[n|n] st0]; try discriminate Hg.
  (* Call 0 on the stack (VI32 n :: st0) *)
  assert (HC : EIm (ABasic OInj (BCall fn_idx_memory_alloc)) (sh s) l (VI32 n :: st0)
                   (ev_work OInj ++ ev_call m' 0 ++ [EvHost 0%nat [VI32 n]]) (RNormal (sh s) l (VI32 n :: st0))).
  { assert (El : (0 <? length (m_imports m'))%nat = true) by (rewrite imports'; reflexivity).
    pose proof (EV_host (mhost h) cap m' afs_m (sh s) 0%nat [VI32 n] _ El atype0) as EV0.
    cbn [mhost] in EV0. rewrite set_mem_same in EV0.
    exact (EI_call (mhost h) cap m' afs_m OInj 0%nat (sh s) l (VI32 n :: st0) account_memory_type
             [VI32 n] st0 _ _ atype0 eq_refl EV0). }
  eexists. exists r'. split; [eapply (EP2n (mhost h) cap m' afs_m); [exact HC|exact HEI]|].
  split; [exact HRR|]. rewrite obs_m_app, Hobs.
  assert (E0 : ev_call m' 0 = []) by (unfold ev_call, is_local; rewrite imports'; reflexivity).
  rewrite E0. reflexivity.
Qed.

(** br_if, target label without value *)
Lemma sim_brif0 f L c idx s l st t1 r1 :
  lookup_label L idx = Some 0%N ->
  X_instr f s l st (ABasic (OSrc c (c_branch cfg 0)) (BBrIf idx)) = (t1, r1) -> good r1 = true ->
  exists T1 r1',
    EIm (AIf (OSrc c 0) None [ABasic OInj (BTick (c_branch cfg 0)); ABasic (OSrc (c_branch cfg 0) 0) (BBr (idx + 1))] [])
        (sh s) l st T1 r1' /\ RR L r1 r1' /\ obs_m T1 = obs_s t1.
Proof.
  intros Hl H Hg. destruct f as [|f]; [inversion H; subst; discriminate|].
  rewrite tinstr_S in H. cbn [instr_body] in H.
  destruct st as [|[v|v] st0]; try (inversion H; subst; discriminate).
  set (b := c_branch cfg 0) in *.
  destruct (v =? 0) eqn:Ev.
  - inversion H; subst t1 r1; clear H.
    pose proof (EI_block (mhost h) cap m' afs_m OInj None [] (sh s) l st0 _ _ (ES_nil _ _ _ _ _ _ _)) as EB.
    eexists. eexists. split; [apply (EI_if (mhost h) cap m' afs_m); rewrite Ev; exact EB|].
    split; [cbn; auto|reflexivity].
  - inversion H; subst t1 r1; clear H.
    assert (ESb : ESm [ABasic OInj (BTick b); ABasic (OSrc b 0) (BBr (idx + 1))] (sh s) l []
                      ((EvTick b :: ev_work OInj) ++ ev_work (OSrc b 0)) (RBr (idx + 1) (sh s) l [])).
    { eapply (ES_cons_normal (mhost h) cap m' afs_m); [apply EI_tick|].
      apply (ES_cons_stop (mhost h) cap m' afs_m); [apply EI_br|reflexivity]. }
    pose proof (EI_block (mhost h) cap m' afs_m OInj None _ (sh s) l st0 _ _ ESb) as EB.
    eexists. eexists. split; [apply (EI_if (mhost h) cap m' afs_m); rewrite Ev; exact EB|].
    split.
    + replace (idx + 1)%nat with (S idx) by lia. cbn. repeat split; auto.
      intros bt Hbt. rewrite (label_arity0 _ _ _ Hl Hbt). reflexivity.
    + cbn. destruct (0 <? c)%N, (0 <? b)%N; reflexivity.
Qed.

(** br_if, target label with a value *)
Lemma sim_brif1 f L c idx s l st t1 r1 :
  X_instr f s l st (ABasic (OSrc c (c_branch cfg 1)) (BBrIf idx)) = (t1, r1) -> good r1 = true ->
  exists T1 r1',
    EPm [AIf (OSrc c 0) (Some T_i32) [ABasic OInj (BTick (c_branch cfg 1)); ABasic OInj (BConst T_i32 1)]
                                     [ABasic OInj (BConst T_i32 0)];
         ABasic (OSrc 0 (c_branch cfg 1)) (BBrIf idx)]
        (sh s) l st T1 r1' /\ RR L r1 r1' /\ obs_m T1 = obs_s t1.
Proof.
  intros H Hg. destruct f as [|f]; [inversion H; subst; discriminate|].
  rewrite tinstr_S in H. cbn [instr_body] in H.
  destruct st as [|[v|v] st0]; try (inversion H; subst; discriminate).
  set (b := c_branch cfg 1) in *.
  destruct (v =? 0) eqn:Ev.
  - inversion H; subst t1 r1; clear H.
    assert (ESb : ESm [ABasic OInj (BConst T_i32 0)] (sh s) l [] (simple_events OInj (BConst T_i32 0) ++ [])
                      (RNormal (sh s) l [VI32 0])).
    { eapply (ES_cons_normal (mhost h) cap m' afs_m);
        [exact (EI_simple (mhost h) cap m' afs_m OInj (BConst T_i32 0) (sh s) l [] eq_refl)|apply ES_nil]. }
    pose proof (EI_block (mhost h) cap m' afs_m OInj (Some T_i32) _ (sh s) l st0 _ _ ESb) as EB.
    cbn [blk_res arity firstn app] in EB.
    pose proof (EI_brif (mhost h) cap m' afs_m (OSrc 0 b) idx (sh s) l 0 st0) as EBR. cbn [Z.eqb] in EBR.
    eexists. eexists. split; [eapply (EP2n (mhost h) cap m' afs_m); [apply (EI_if (mhost h) cap m' afs_m); rewrite Ev; exact EB|exact EBR]|].
    split; [cbn; auto|]. cbn. destruct (0 <? c)%N; reflexivity.
  - inversion H; subst t1 r1; clear H.
    assert (ESb : ESm [ABasic OInj (BTick b); ABasic OInj (BConst T_i32 1)] (sh s) l []
                      ((EvTick b :: ev_work OInj) ++ simple_events OInj (BConst T_i32 1) ++ [])
                      (RNormal (sh s) l [VI32 1])).
    { eapply (ES_cons_normal (mhost h) cap m' afs_m); [apply EI_tick|].
      eapply (ES_cons_normal (mhost h) cap m' afs_m);
        [exact (EI_simple (mhost h) cap m' afs_m OInj (BConst T_i32 1) (sh s) l [] eq_refl)|apply ES_nil]. }
    pose proof (EI_block (mhost h) cap m' afs_m OInj (Some T_i32) _ (sh s) l st0 _ _ ESb) as EB.
    cbn [blk_res arity firstn app] in EB.
    pose proof (EI_brif (mhost h) cap m' afs_m (OSrc 0 b) idx (sh s) l 1 st0) as EBR. cbn [Z.eqb] in EBR.
    eexists. eexists. split; [eapply (EP2n (mhost h) cap m' afs_m); [apply (EI_if (mhost h) cap m' afs_m); rewrite Ev; exact EB|exact EBR]|].
    split; [cbn; repeat split; auto|]. cbn. destruct (0 <? c)%N, (0 <? b)%N; reflexivity.
Qed.


Lemma block_instr_eq o bt body s l st f :
  X_instr (S f) s l st (ABlock o bt body) =
  (ev_work o ++ fst (X_seq f s l [] body), blk_res bt st (snd (X_seq f s l [] body))).
Proof. rewrite tinstr_S. cbn [instr_body]. destruct (X_seq f s l [] body) as [t r]. reflexivity. Qed.

Lemma sim_block f L bt body hb body' sbody o st s l t1 r1 :
  (forall f', (f' < f)%nat -> SimA f') ->
  mseq (bt :: L) body = Some (hb, body') -> annot_seq (bt :: L) body = Some sbody ->
  X_instr f s l st (ABlock o bt sbody) = (t1, r1) -> good r1 = true ->
  exists T r', EIm (ABlock o bt body') (sh s) l st T r' /\ RR L r1 r' /\ obs_m T = obs_s t1.
Proof.
  intros HA Hms Hsa H Hg. destruct f as [|f]; [inversion H; subst; discriminate|].
  rewrite block_instr_eq in H. destruct (X_seq f s l [] sbody) as [t r0] eqn:EX. cbn [fst snd] in H.
  inversion H; subst t1 r1; clear H. rewrite good_blk in Hg.
  destruct (HA f (Nat.lt_succ_diag_r f) _ _ _ _ _ Hms Hsa _ _ _ _ _ EX Hg) as [T [r0' [HES [HRR Hobs]]]].
  eexists. eexists. split; [apply (EI_block (mhost h) cap m' afs_m); exact HES|].
  split; [apply RR_blk; exact HRR|]. apply (obs_pre o); exact Hobs.
Qed.

Lemma sim_tblock f L bt body hb body' sbody st s l t1 r1 :
  (forall f', (f' < f)%nat -> SimA f') ->
  mseq (bt :: L) body = Some (hb, body') -> annot_seq (bt :: L) body = Some sbody ->
  X_instr f s l st (ABlock OInj bt sbody) = (t1, r1) -> good r1 = true ->
  exists T r', EIm (ABlock OInj bt (tick_opt hb ++ body')) (sh s) l st T r' /\ RR L r1 r' /\ obs_m T = obs_s t1.
Proof.
  intros HA Hms Hsa H Hg. destruct f as [|f]; [inversion H; subst; discriminate|].
  rewrite block_instr_eq in H. destruct (X_seq f s l [] sbody) as [t r0] eqn:EX. cbn [fst snd] in H.
  inversion H; subst t1 r1; clear H. rewrite good_blk in Hg.
  destruct (HA f (Nat.lt_succ_diag_r f) _ _ _ _ _ Hms Hsa _ _ _ _ _ EX Hg) as [T [r0' [HES [HRR Hobs]]]].
  destruct (ES_tick_opt hb _ _ _ _ _ _ HES) as [T' [HES' Hobs']].
  eexists. eexists. split; [apply (EI_block (mhost h) cap m' afs_m); exact HES'|].
  split; [apply RR_blk; exact HRR|]. apply (obs_pre OInj). congruence.
Qed.

Lemma instr_sim f :
  (forall f', (f' < f)%nat -> SimA f') -> (forall f', (f' < f)%nat -> SimInv f') -> SimLoop f -> InstrSim f.
Proof.
  intros HA HI HL L j hj pre fl a Hmi Ha s l st t1 r1 H Hg.
  rewrite mi_eq in Hmi. rewrite annot_instr_eq in Ha.
  destruct j as [b|bt body|bt body|bt thn els].
  - (* Basic *)
    destruct (c_cost cfg (OBasic b) L cx) as [c|] eqn:Ec; [|discriminate Hmi]. cbn [obind] in Hmi, Ha.
    destruct (kind_of b) eqn:Ek.
    + (* pending *)
      destruct (kind_pending b Ek) as [Hsb [_ Hnb]].
      assert (a = ABasic (OSrc c 0) b)
        by (destruct b; try (inversion Ha; reflexivity); exfalso; eapply Hnb; reflexivity).
      subst a. inversion Hmi; subst hj pre fl; clear Hmi.
      destruct (sim_simple f L c b s l st t1 r1 Hsb H Hg) as [T [r' [HEI [HRR Hobs]]]].
      exists T, r'. split; [apply EP1; exact HEI|auto].
    + (* flush, kept *)
      inversion Hmi; subst hj pre fl; clear Hmi.
      destruct b; cbn [kind_of] in Ek; try discriminate Ek; inversion Ha; subst a; clear Ha.
      * (* unreachable *)
        destruct (sim_simple f L c BUnreachable s l st t1 r1 eq_refl H Hg) as [T [r' [HEI [HRR Hobs]]]].
        exists T, r'. split; [apply EP1; exact HEI|auto].
      * (* br *)
        destruct f as [|f]; [inversion H; subst; discriminate|]. rewrite tinstr_S in H. cbn [instr_body] in H.
        inversion H; subst t1 r1; clear H.
        eexists. eexists. split; [apply EP1; apply EI_br|]. split; [cbn; repeat split; auto|reflexivity].
      * (* br_table *)
        destruct f as [|f]; [inversion H; subst; discriminate|]. rewrite tinstr_S in H. cbn [instr_body] in H.
        destruct st as [|[v|v] st0]; inversion H; subst t1 r1; clear H; try discriminate Hg.
        eexists. eexists. split; [apply EP1; apply EI_brtable|]. split; [cbn; repeat split; auto|reflexivity].
      * (* return *)
        destruct f as [|f]; [inversion H; subst; discriminate|]. rewrite tinstr_S in H. cbn [instr_body] in H.
        inversion H; subst t1 r1; clear H.
        eexists. eexists. split; [apply EP1; apply EI_return|]. split; [cbn; auto|reflexivity].
      * (* call_indirect *)
        destruct (sim_call_indirect f L c ty s l st t1 r1 HI H Hg) as [T [r' [HEI [HRR Hobs]]]].
        exists T, r'. split; [apply EP1; exact HEI|auto].
    + (* call *)
      inversion Hmi; subst hj pre fl; clear Hmi.
      destruct b; cbn [kind_of] in Ek; try discriminate Ek; inversion Ek; subst idx; inversion Ha; subst a; clear Ha.
      destruct (sim_call f L c f0 s l st t1 r1 HI H Hg) as [T [r' [HEI [HRR Hobs]]]].
      exists T, r'. split; [apply EP1; exact HEI|auto].
    + (* br_if *)
      destruct b; cbn [kind_of] in Ek; try discriminate Ek; inversion Ek; subst idx; clear Ek.
      destruct (lookup_label L l0) as [a0|] eqn:El; [|discriminate Hmi]. cbn [obind] in Hmi, Ha.
      inversion Ha; subst a; clear Ha.
      destruct (brif_rewrite cfg c a0 l0) as [rw|] eqn:Erw; [|discriminate Hmi]. cbn [obind] in Hmi.
      inversion Hmi; subst hj pre fl; clear Hmi.
      unfold brif_rewrite in Erw. destruct (negb _); [discriminate|].
      destruct (a0 =? 0)%N eqn:E0.
      * apply N.eqb_eq in E0. subst a0. inversion Erw; subst rw; clear Erw.
        destruct (sim_brif0 f L c l0 s l st t1 r1 El H Hg) as [T [r' [HEI [HRR Hobs]]]].
        exists T, r'. split; [apply EP1; exact HEI|auto].
      * destruct (a0 =? 1)%N eqn:E1; [|discriminate]. apply N.eqb_eq in E1. subst a0.
        inversion Erw; subst rw; clear Erw.
        exact (sim_brif1 f L c l0 s l st t1 r1 H Hg).
    + (* memory.grow *)
      inversion Hmi; subst hj pre fl; clear Hmi.
      destruct b; cbn [kind_of] in Ek; try discriminate Ek. inversion Ha; subst a; clear Ha.
      exact (sim_memgrow f L c s l st t1 r1 H Hg).
    + discriminate Hmi.
  - (* Block *)
    obind_inv Hmi. obind_inv Ha. inversion Hmi; subst hj pre fl; clear Hmi. inversion Ha; subst a; clear Ha.
    repeat match goal with HH : Some _ = Some _ |- _ => inversion HH; subst; clear HH end.
    destruct (sim_block f L bt body _ _ _ _ st s l t1 r1 HA ltac:(eassumption) ltac:(eassumption) H Hg)
      as [T [r' [HEI [HRR Hobs]]]].
    exists T, r'. split; [apply EP1; exact HEI|auto].
  - (* Loop *)
    obind_inv Hmi. obind_inv Ha. inversion Hmi; subst hj pre fl; clear Hmi. inversion Ha; subst a; clear Ha.
    repeat match goal with HH : Some _ = Some _ |- _ => inversion HH; subst; clear HH end.
    destruct (HL L body _ _ _ _ bt ltac:(eassumption) ltac:(eassumption) _ _ _ _ _ H Hg) as [T [r' [HEI [HRR Hobs]]]].
    exists T, r'. split; [apply EP1; exact HEI|auto].
  - (* If *)
    obind_inv Hmi. obind_inv Ha. inversion Hmi; subst hj pre fl; clear Hmi. inversion Ha; subst a; clear Ha.
    repeat match goal with HH : Some _ = Some _ |- _ => inversion HH; subst; clear HH end.
    destruct f as [|f]; [inversion H; subst; discriminate|].
    rewrite tinstr_S in H. cbn [instr_body] in H.
    destruct st as [|[v|v] st0]; try (inversion H; subst; discriminate).
    match type of H with context [X_instr f s l st0 ?blk] => destruct (X_instr f s l st0 blk) as [t r0] eqn:EX end.
    inversion H; subst t1 r1; clear H.
    assert (HA' : forall f', (f' < f)%nat -> SimA f') by (intros; apply HA; lia).
    destruct (v =? 0) eqn:Ev.
    + destruct (sim_tblock f L bt els _ _ _ st0 s l t r0 HA' ltac:(eassumption) ltac:(eassumption) EX Hg)
        as [T [r' [HEI [HRR Hobs]]]].
      eexists. exists r'. split; [apply EP1; apply (EI_if (mhost h) cap m' afs_m); rewrite Ev; exact HEI|].
      split; [exact HRR|]. apply (obs_pre (OSrc _ 0)); exact Hobs.
    + destruct (sim_tblock f L bt thn _ _ _ st0 s l t r0 HA' ltac:(eassumption) ltac:(eassumption) EX Hg)
        as [T [r' [HEI [HRR Hobs]]]].
      eexists. exists r'. split; [apply EP1; apply (EI_if (mhost h) cap m' afs_m); rewrite Ev; exact HEI|].
      split; [exact HRR|]. apply (obs_pre (OSrc _ 0)); exact Hobs.
Qed.

(** ** sequences, and the induction *)
Lemma simA_step f :
  (forall f', (f' < f)%nat -> SimA f') -> (forall f', (f' < f)%nat -> SimInv f') ->
  (forall f', (f' < f)%nat -> SimLoop f') -> SimA f.
Proof.
  intros HA HI HL L is h0 is' sa Hms Hsa s l st W r H Hg.
  destruct f as [|f]; [inversion H; subst; discriminate|].
  rewrite tseq_S in H.
  destruct is as [|j rest].
  - inversion Hms; subst. inversion Hsa; subst. cbn [seq_body] in H. inversion H; subst.
    exists [], (RNormal (sh s) l st). split; [apply ES_nil|]. split; [cbn; auto|reflexivity].
  - rewrite mseq_cons in Hms. rewrite annot_seq_cons in Hsa.
    destruct (mseq L rest) as [[hr r']|] eqn:Er; [|discriminate].
    destruct (mi L j) as [[[hj pre] fl]|] eqn:Ej; [|discriminate].
    destruct (annot_instr L j) as [a|] eqn:Ea; [|discriminate].
    destruct (annot_seq L rest) as [sa'|] eqn:Esa; [|discriminate].
    inversion Hsa; subst sa; clear Hsa. cbn [seq_body] in H.
    assert (HIS : InstrSim f).
    { apply instr_sim; [intros; apply HA; lia|intros; apply HI; lia|apply HL; lia]. }
    destruct (X_instr f s l st a) as [t1 r1] eqn:E1.
    assert (Htail : forall T2 r2 s1 l1 st1, ESm r' s1 l1 st1 T2 r2 ->
              exists T2', ESm (if fl then tick_opt hr ++ r' else r') s1 l1 st1 T2' r2 /\ obs_m T2' = obs_m T2).
    { intros T2 r2 s1 l1 st1 HE. destruct fl; [apply ES_tick_opt; exact HE|exists T2; auto]. }
    assert (His' : is' = pre ++ (if fl then tick_opt hr ++ r' else r')).
    { unfold mcombine in Hms. destruct fl; [destruct (seg_ok hr); [|discriminate]|]; inversion Hms; reflexivity. }
    subst is'.
    destruct r1 as [s1 l1 st1| | | | |].
    + destruct (X_seq f s1 l1 st1 sa') as [t2 r2] eqn:E2. inversion H; subst W r; clear H.
      destruct (HIS L j hj pre fl a Ej Ea _ _ _ _ _ E1 eq_refl) as [T1 [r1' [HEP [HRR1 Hobs1]]]].
      apply RR_normal_inv in HRR1. subst r1'.
      destruct (HA f (Nat.lt_succ_diag_r f) L rest hr r' sa' Er Esa _ _ _ _ _ E2 Hg) as [T2 [r2' [HES2 [HRR2 Hobs2]]]].
      destruct (Htail _ _ _ _ _ HES2) as [T2' [HES2' Hobs2']].
      exists (T1 ++ T2'), r2'. split; [apply HEP; exact HES2'|]. split; [exact HRR2|].
      rewrite obs_m_app, obs_s_app. congruence.
    + inversion H; subst W r; clear H.
      destruct (HIS L j hj pre fl a Ej Ea _ _ _ _ _ E1 Hg) as [T1 [r1' [HEP [HRR1 Hobs1]]]].
      exists T1, r1'. split; [|auto]. apply (EP_stop (mhost h) cap m' afs_m); [exact HEP|].
      rewrite (RR_normal_iff _ _ _ HRR1). reflexivity.
    + inversion H; subst W r; clear H.
      destruct (HIS L j hj pre fl a Ej Ea _ _ _ _ _ E1 Hg) as [T1 [r1' [HEP [HRR1 Hobs1]]]].
      exists T1, r1'. split; [|auto]. apply (EP_stop (mhost h) cap m' afs_m); [exact HEP|].
      rewrite (RR_normal_iff _ _ _ HRR1). reflexivity.
    + inversion H; subst W r; clear H.
      destruct (HIS L j hj pre fl a Ej Ea _ _ _ _ _ E1 Hg) as [T1 [r1' [HEP [HRR1 Hobs1]]]].
      exists T1, r1'. split; [|auto]. apply (EP_stop (mhost h) cap m' afs_m); [exact HEP|].
      rewrite (RR_normal_iff _ _ _ HRR1). reflexivity.
    + inversion H; subst; discriminate.
    + inversion H; subst; discriminate.
Qed.

Theorem sim_all : forall f, SimA f /\ SimInv f /\ SimLoop f.
Proof.
  induction f as [f IH] using lt_wf_ind.
  assert (HA : SimA f) by (apply simA_step; intros f' Hl; apply IH; exact Hl).
  split; [exact HA|]. split.
  - apply simInv_step. intros f' Hl; apply IH; exact Hl.
  - apply simLoop_step; intros f' Hl; apply IH; exact Hl.
Qed.

End Sim.

(** ** instantiation of the metered module: the table entries are shifted *)
Lemma set_nth_map {A B} (g : A -> B) t i x :
  set_nth (map g t) i (g x) = option_map (map g) (set_nth t i x).
Proof.
  revert i. induction t as [|y t IH]; intro i; [reflexivity|].
  destruct i; cbn [map set_nth]; [reflexivity|]. rewrite IH. destruct (set_nth t i x); reflexivity.
Qed.

Lemma write_elems_sh t off fs :
  write_elems (map (option_map S) t) off (map (fun i => (i + num_added_functions)%nat) fs) =
  option_map (map (option_map S)) (write_elems t off fs).
Proof.
  revert t off. induction fs as [|fi fs IH]; intros t off; [reflexivity|].
  cbn [map write_elems]. replace (fi + num_added_functions)%nat with (S fi) by (unfold num_added_functions; lia).
  change (Some (S fi)) with (option_map S (Some fi)). rewrite set_nth_map.
  destruct (set_nth t off (Some fi)) as [t'|]; [|reflexivity]. cbn [option_map]. apply IH.
Qed.

Lemma init_table_sh t es :
  init_table (map (option_map S) t) (shift_elems es) = option_map (map (option_map S)) (init_table t es).
Proof.
  revert t. induction es as [|[off fs] es IH]; intro t; [reflexivity|].
  cbn [shift_elems map init_table fst snd]. rewrite write_elems_sh.
  destruct (write_elems t (N.to_nat off) fs) as [t'|]; [|reflexivity]. cbn [option_map]. apply IH.
Qed.

Lemma map_repeat_none k : map (option_map S) (repeat (@None nat) k) = repeat None k.
Proof. induction k as [|k IH]; [reflexivity|]. cbn [repeat map option_map]. f_equal. exact IH. Qed.

Lemma instantiate_inject cfg m m' s :
  inject cfg m = Some m' -> instantiate m = Some s -> instantiate m' = Some (sh s).
Proof.
  unfold inject. destruct (omap_list _ _) as [fs|]; [|discriminate]. intro H; inversion H; subst m'; clear H.
  unfold instantiate. cbn [m_table m_elems m_mem m_data m_globals].
  set (t0 := match m_table m with Some n => repeat (@None nat) (N.to_nat n) | None => @nil (option nat) end).
  assert (E0 : match m_table m with Some n => Some (repeat (@None nat) (N.to_nat n)) | None => Some [] end = Some t0)
    by (unfold t0; destruct (m_table m); reflexivity).
  rewrite E0.
  assert (Et : map (option_map S) t0 = t0).
  { unfold t0. destruct (m_table m) as [n|]; [apply map_repeat_none|reflexivity]. }
  intro Hsrc. replace (init_table t0 (shift_elems (m_elems m)))
    with (option_map (map (option_map S)) (init_table t0 (m_elems m)))
    by (rewrite <- init_table_sh, Et; reflexivity).
  destruct (init_table t0 (m_elems m)) as [t|]; [|discriminate]. cbn [option_map].
  destruct (match m_mem m with
            | Some l => Some {| mem_pages := l_min l; mem_max := l_max l; mem_data := FMapPositive.PositiveMap.empty Z |}
            | None => None
            end) as [x|].
  - destruct (init_data x (m_data m)); [|discriminate]. inversion Hsrc; reflexivity.
  - destruct (m_data m); [|discriminate]. inversion Hsrc; reflexivity.
Qed.

(** ** whole runs *)
Theorem metered_run_simulates cfg m m' afs_s afs_m h cap fuel fi args W o :
  inject cfg m = Some m' -> annot_funcs cfg m = Some afs_s -> ameter_funcs cfg m = Some afs_m ->
  trun h cap m afs_s fuel fi args = (W, o) -> o <> OutOfFuel -> o <> Stuck ->
  exists f0 T, (forall f, (f0 <= f)%nat -> trun (mhost h) cap m' afs_m f (S fi) args = (T, o)) /\
               obs_m T = obs_s W.
Proof.
  intros Hinj Hs Hm H Hnf Hns. unfold trun in H.
  destruct (instantiate m) as [s|] eqn:Ei; [|inversion H; subst; congruence].
  destruct (tinvoke h cap m afs_s fuel s fi args) as [W0 rv] eqn:Ev.
  assert (Hgv : goodv rv = true).
  { destruct rv as [r0|x]; [|reflexivity]. destruct r0; try reflexivity; inversion H; subst; congruence. }
  destruct (sim_all cfg m m' afs_s afs_m h cap Hinj Hs Hm fuel) as [_ [HI _]].
  destruct (HI _ _ _ _ _ Ev Hgv) as [T [[f0 HEV] Hobs]].
  assert (HW : W = W0) by (destruct rv as [[]|[? ?]]; inversion H; reflexivity). subst W0.
  exists f0, T. split; [|exact Hobs]. intros f Hf. unfold trun.
  rewrite (instantiate_inject _ _ _ _ Hinj Ei). rewrite (HEV f Hf).
  destruct rv as [r0|[s' rv]]; cbn [shv].
  - destruct r0; inversion H; reflexivity.
  - inversion H; reflexivity.
Qed.

(** ** the annotated source program is the source program; metering succeeds only on annotatable code *)
Section AnnotFacts.
Variable cfg : cost_cfg.
Variable cx : cost_ctx.

Lemma annot_erase_seq : forall is L sa, annot_seq cfg cx L is = Some sa -> erase_seq sa = is.
Proof.
  apply (instrs_ind2
           (fun i => forall L a, annot_instr cfg cx L i = Some a -> erase a = i)
           (fun is => forall L sa, annot_seq cfg cx L is = Some sa -> erase_seq sa = is)).
  - intros b L a H. rewrite annot_instr_eq in H. obind_inv H.
    destruct b; try (inversion H; reflexivity). obind_inv H. inversion H; reflexivity.
  - intros bt body IH L a H. rewrite annot_instr_eq in H. obind_inv H. inversion H; subst. cbn [erase].
    f_equal. eapply IH; eassumption.
  - intros bt body IH L a H. rewrite annot_instr_eq in H. obind_inv H. inversion H; subst. cbn [erase].
    f_equal. eapply IH; eassumption.
  - intros bt t e IHt IHe L a H. rewrite annot_instr_eq in H. obind_inv H. inversion H; subst. cbn [erase].
    f_equal; [eapply IHt|eapply IHe]; eassumption.
  - intros L sa H. inversion H; reflexivity.
  - intros i r IHi IHr L sa H. rewrite annot_seq_cons in H.
    destruct (annot_instr cfg cx L i) as [a|] eqn:Ea; [|discriminate].
    destruct (annot_seq cfg cx L r) as [r'|] eqn:Er; [|discriminate]. inversion H; subst. cbn [erase_seq map].
    f_equal; [eapply IHi; eassumption|eapply IHr; eassumption].
Qed.

Lemma annot_of_mseq : forall is L x, Meter.mseq cfg cx L is = Some x -> exists sa, annot_seq cfg cx L is = Some sa.
Proof.
  apply (instrs_ind2
           (fun i => forall L x, Meter.mi cfg cx L i = Some x -> exists a, annot_instr cfg cx L i = Some a)
           (fun is => forall L x, Meter.mseq cfg cx L is = Some x -> exists sa, annot_seq cfg cx L is = Some sa)).
  - intros b L x H. rewrite mi_eq in H. rewrite annot_instr_eq. obind_inv H. cbn [obind].
    destruct b; try (eexists; reflexivity). cbn [kind_of] in H. obind_inv H. cbn [obind]. eexists; reflexivity.
  - intros bt body IH L x H. rewrite mi_eq in H. rewrite annot_instr_eq. obind_inv H. cbn [obind].
    destruct (IH _ _ E0) as [sa Hsa]. rewrite Hsa. cbn [obind]. eexists; reflexivity.
  - intros bt body IH L x H. rewrite mi_eq in H. rewrite annot_instr_eq. obind_inv H. cbn [obind].
    destruct (IH _ _ E0) as [sa Hsa]. rewrite Hsa. cbn [obind]. eexists; reflexivity.
  - intros bt t e IHt IHe L x H. rewrite mi_eq in H. rewrite annot_instr_eq. obind_inv H. cbn [obind].
    destruct (IHt _ _ E0) as [st Hst]. destruct (IHe _ _ E1) as [se Hse]. rewrite Hst, Hse. cbn [obind].
    eexists; reflexivity.
  - intros L x H. eexists; reflexivity.
  - intros i r IHi IHr L x H. rewrite mseq_cons in H. rewrite annot_seq_cons.
    destruct (Meter.mseq cfg cx L r) as [[hr r']|] eqn:Er; [|discriminate].
    destruct (Meter.mi cfg cx L i) as [y|] eqn:Ei; [|discriminate].
    destruct (IHi _ _ Ei) as [a Ha]. destruct (IHr _ _ Er) as [sa Hsa]. rewrite Ha, Hsa. eexists; reflexivity.
Qed.
End AnnotFacts.

Lemma omap_list_some {A B C} (g : A -> option B) (g' : A -> option C) l l' :
  omap_list g l = Some l' -> (forall x y, g x = Some y -> exists y', g' x = Some y') -> exists l'', omap_list g' l = Some l''.
Proof.
  revert l'. induction l as [|x r IH]; intros l' H Hg; [eexists; reflexivity|].
  cbn in H. destruct (g x) eqn:Ex; [|discriminate]. destruct (omap_list g r) eqn:Er; [|discriminate].
  destruct (Hg _ _ Ex) as [y' Hy]. destruct (IH _ eq_refl Hg) as [l'' Hl]. cbn. rewrite Hy, Hl. eexists; reflexivity.
Qed.

Lemma inject_ameter cfg m m' : inject cfg m = Some m' -> exists afs, ameter_funcs cfg m = Some afs.
Proof.
  unfold inject, ameter_funcs. destruct (omap_list (meter_func cfg m) (m_funcs m)) as [fs|] eqn:E; [|discriminate].
  intros _. eapply omap_list_some; [exact E|]. intros f f' Hf. unfold meter_func, meter_body in Hf. unfold ameter_func.
  destruct (nth_error (m_types m) (f_type f)); [|discriminate].
  destruct (ameter_body cfg (ctx_of_module m) _ _ _); [|discriminate]. eexists; reflexivity.
Qed.

Lemma ameter_annot cfg m afs : ameter_funcs cfg m = Some afs -> exists afs_s, annot_funcs cfg m = Some afs_s.
Proof.
  unfold ameter_funcs, annot_funcs. intro H. eapply omap_list_some; [exact H|].
  intros f f' Hf. unfold ameter_func, ameter_body in Hf. unfold annot_func. revert Hf.
  destruct (nth_error (m_types m) (f_type f)) as [ft|]; [|discriminate].
  match goal with |- context [Meter.mseq ?a ?b ?c ?d] => destruct (Meter.mseq a b c d) as [x|] eqn:E end;
    [|cbn [obind]; discriminate].
  intros _. destruct (annot_of_mseq _ _ _ _ _ E) as [sa Hsa].
  match goal with |- context [annot_seq ?a ?b ?c ?d] => replace (annot_seq a b c d) with (Some sa) end.
  eexists; reflexivity.
Qed.

Lemma annot_funcs_erase cfg m afs_s : annot_funcs cfg m = Some afs_s -> m_funcs m = map erase_func afs_s.
Proof.
  unfold annot_funcs. revert afs_s. induction (m_funcs m) as [|f r IH]; intros afs_s H; cbn [omap_list] in H.
  - inversion H; reflexivity.
  - destruct (annot_func cfg m f) as [af|] eqn:Ea; [|discriminate].
    destruct (omap_list (annot_func cfg m) r) as [afs'|] eqn:Er; [|discriminate].
    inversion H; subst. cbn [map]. f_equal; [|apply IH; reflexivity].
    unfold annot_func in Ea. destruct (nth_error (m_types m) (f_type f)) as [ft|]; [|discriminate].
    destruct (annot_seq cfg (ctx_of_module m) [ft_result ft] (f_body f)) as [sa|] eqn:Es; [|discriminate].
    inversion Ea; subst. unfold erase_func; cbn [af_type af_locals af_body]. rewrite (annot_erase_seq _ _ _ _ _ Es). destruct f; reflexivity.
Qed.

(** ** what the observation equality says about work and host calls *)
Definition wk (e : event) : option N := match e with EvWork c => Some c | _ => None end.
Definition hostcall (e : event) : option (nat * list val) := match e with EvHost i a => Some (i, a) | _ => None end.

Lemma works_obs_m T : works T = omapf wk (obs_m T).
Proof.
  induction T as [|e T IH]; [reflexivity|]. destruct e as [n|c|[|j] a|fi|]; cbn [works obs_m omapf pm]; try exact IH.
  destruct (0 <? c)%N; cbn [omapf wk]; [f_equal|]; exact IH.
Qed.
Lemma works_obs_s T : works T = omapf wk (obs_s T).
Proof.
  induction T as [|e T IH]; [reflexivity|]. destruct e as [n|c|i a|fi|]; cbn [works obs_s omapf ps]; try exact IH.
  destruct (0 <? c)%N; cbn [omapf wk]; [f_equal|]; exact IH.
Qed.
Lemma work_works T : work T = fold_right N.add 0%N (works T).
Proof.
  induction T as [|e T IH]; [reflexivity|]. destruct e; cbn [work works]; try exact IH.
  destruct (0 <? c)%N eqn:E; cbn [fold_right]; [rewrite IH; reflexivity|].
  apply N.ltb_ge in E. rewrite IH. lia.
Qed.

(** host calls of the metered trace other than [account_memory], re-indexed to the source imports *)
Fixpoint src_hostcalls (T : list event) : list (nat * list val) :=
  match T with
  | [] => []
  | EvHost (S j) a :: r => (j, a) :: src_hostcalls r
  | _ :: r => src_hostcalls r
  end.
Fixpoint hostcalls (T : list event) : list (nat * list val) :=
  match T with
  | [] => []
  | EvHost i a :: r => (i, a) :: hostcalls r
  | _ :: r => hostcalls r
  end.
Lemma src_hostcalls_obs T : src_hostcalls T = omapf hostcall (obs_m T).
Proof.
  induction T as [|e T IH]; [reflexivity|]. destruct e as [n|c|[|j] a|fi|]; cbn [src_hostcalls obs_m omapf pm]; try exact IH.
  - destruct (0 <? c)%N; cbn [omapf hostcall]; exact IH.
  - cbn [omapf hostcall]. f_equal. exact IH.
Qed.
Lemma hostcalls_obs T : hostcalls T = omapf hostcall (obs_s T).
Proof.
  induction T as [|e T IH]; [reflexivity|]. destruct e as [n|c|i a|fi|]; cbn [hostcalls obs_s omapf ps]; try exact IH.
  - destruct (0 <? c)%N; cbn [omapf hostcall]; exact IH.
  - cbn [omapf hostcall]. f_equal. exact IH.
Qed.

(** ** meter_transparent on the reference semantics *)
Theorem meter_transparent_sem cfg m m' h cap fuel fi args o :
  inject cfg m = Some m' ->
  run h cap m fuel fi args = o -> o <> OutOfFuel -> o <> Stuck ->
  exists f0, forall f, (f0 <= f)%nat -> run (mhost h) cap m' f (S fi) args = o.
Proof.
  intros Hinj Hrun Hnf Hns.
  destruct (inject_ameter _ _ _ Hinj) as [afs_m Hm]. destruct (ameter_annot _ _ _ Hm) as [afs_s Hs].
  pose proof (trun_erase h cap m afs_s (annot_funcs_erase _ _ _ Hs) fuel fi args) as Es.
  destruct (trun h cap m afs_s fuel fi args) as [W o0] eqn:Et. cbn [snd] in Es. rewrite Hrun in Es. subst o0.
  destruct (metered_run_simulates _ _ _ _ _ _ _ _ _ _ _ _ Hinj Hs Hm Et Hnf Hns) as [f0 [T [HT _]]].
  exists f0. intros f Hf.
  rewrite <- (trun_erase (mhost h) cap m' afs_m (MeterSafe.inject_erase _ _ _ _ Hinj Hm) f (S fi) args).
  rewrite (HT f Hf). reflexivity.
Qed.

(** the work summed on the metered trace is the work of the source run; same host calls *)
Theorem metered_work_is_source_work cfg m m' afs_s afs_m h cap fuel fi args W o :
  inject cfg m = Some m' -> annot_funcs cfg m = Some afs_s -> ameter_funcs cfg m = Some afs_m ->
  trun h cap m afs_s fuel fi args = (W, o) -> o <> OutOfFuel -> o <> Stuck ->
  exists f0 T, (forall f, (f0 <= f)%nat -> trun (mhost h) cap m' afs_m f (S fi) args = (T, o)) /\
               works T = works W /\ work T = work W /\ src_hostcalls T = hostcalls W.
Proof.
  intros Hinj Hs Hm H Hnf Hns.
  destruct (metered_run_simulates _ _ _ _ _ _ _ _ _ _ _ _ Hinj Hs Hm H Hnf Hns) as [f0 [T [HT Hobs]]].
  exists f0, T. split; [exact HT|].
  assert (Hw : works T = works W) by (rewrite works_obs_m, works_obs_s, Hobs; reflexivity).
  split; [exact Hw|]. split; [rewrite !work_works, Hw; reflexivity|].
  rewrite src_hostcalls_obs, hostcalls_obs, Hobs. reflexivity.
Qed.

Theorem exact_wrt_source : forall cfg m m' afs_s afs_m h cap fuel fi args W r mem g,
  inject cfg m = Some m' -> annot_funcs cfg m = Some afs_s -> ameter_funcs cfg m = Some afs_m ->
  trun h cap m afs_s fuel fi args = (W, Done r mem g) ->
  exists f0 T, (forall f, (f0 <= f)%nat -> trun (mhost h) cap m' afs_m f (S fi) args = (T, Done r mem g)) /\
               ticks T = work W.
Proof.
  intros cfg m m' afs_s afs_m h cap fuel fi args W r mem g Hi Hs Hm H.
  assert (N1 : Done r mem g <> OutOfFuel) by discriminate. assert (N2 : Done r mem g <> Stuck) by discriminate.
  destruct (metered_work_is_source_work _ _ _ _ _ _ _ _ _ _ _ _ Hi Hs Hm H N1 N2)
    as [f0 [T [HT [_ [Hw _]]]]].
  exists f0, T. split; [exact HT|].
  destruct (metered_run_prepaid_exact _ _ _ _ _ _ _ _ _ _ _ Hi Hm (HT f0 (le_n _))) as [_ He].
  rewrite (He r mem g eq_refl). exact Hw.
Qed.
