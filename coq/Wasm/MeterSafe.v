(** * Wasm/MeterSafe — metering is PREPAID and EXACT on every run of a metered module.

    For every module whose functions are outputs of the structured transformer ([Meter.mseq]) and
    whose function 0 is an import (as in [Meter.inject]), every fuel, every host, every store and
    arguments: along the event trace of [SemTrace.tinvoke] the balance
        (sum of ticks so far) - (sum of the work executed so far)
    never becomes negative ([bal 0 T = Some b]), and it is 0 whenever the invocation returns.
    Work = the annotations the transformer put on the instructions it copied from the source
    (cost of the source instruction in its source context, [branch] for a taken [br_if],
    [invoke_after] per entered function). *)
From Coq Require Import ZArith NArith List Bool Lia.
From CB Require Import Common.IntN Wasm.Syntax Wasm.Sem Wasm.CostCtx Wasm.Meter Wasm.SemTrace
  Wasm.MeterProofs Wasm.SemTraceProofs.
Import ListNotations.
Local Open Scope N_scope.
Local Arguments N.add : simpl never.
Local Arguments N.sub : simpl never.
Local Arguments N.mul : simpl never.
Local Arguments N.leb : simpl never.
Local Arguments N.ltb : simpl never.

(** ** balance lemmas *)
Lemma bal_app b t1 t2 :
  bal b (t1 ++ t2) = match bal b t1 with Some b1 => bal b1 t2 | None => None end.
Proof.
  revert b. induction t1 as [|e t IH]; intro b; [reflexivity|].
  destruct e; cbn [app bal]; try apply IH. destruct (c <=? b); [apply IH|reflexivity].
Qed.

Lemma bal_add b t b' x : bal b t = Some b' -> bal (b + x) t = Some (b' + x).
Proof.
  revert b. induction t as [|e t IH]; intro b; cbn [bal].
  - intro H; inversion H; reflexivity.
  - destruct e; try apply IH.
    + intro H. replace (b + x + n) with (b + n + x) by lia. apply IH; exact H.
    + destruct (c <=? b) eqn:E; [|discriminate]. apply N.leb_le in E.
      replace (c <=? b + x) with true by (symmetry; apply N.leb_le; lia).
      intro H. replace (b + x - c) with (b - c + x) by lia. apply IH; exact H.
Qed.

(** conservation: what was paid is either consumed or still there *)
Lemma bal_conserve b t b' : bal b t = Some b' -> b' + work t = b + ticks t.
Proof.
  revert b. induction t as [|e t IH]; intro b; cbn [bal work ticks].
  - intro H; inversion H; lia.
  - destruct e; try apply IH.
    + intro H. apply IH in H. lia.
    + destruct (c <=? b) eqn:E; [|discriminate]. apply N.leb_le in E. intro H. apply IH in H. lia.
Qed.

(** every prefix of a trace with non-negative balance has non-negative balance:
    at every point, work so far <= credit + ticks so far *)
Lemma bal_prefix b p q b' : bal b (p ++ q) = Some b' -> work p <= b + ticks p.
Proof.
  rewrite bal_app. destruct (bal b p) as [b1|] eqn:E; [|discriminate]. intros _.
  apply bal_conserve in E. lia.
Qed.

Definition settled (r : res) : bool :=
  match r with RNormal _ _ _ | RBr _ _ _ _ | RReturn _ _ => true | _ => false end.

Definition cost_of (o : origin) : N := match o with OSrc c _ => c | OInj => 0 end.
Lemma bal_ev_work o b t : bal (cost_of o + b) (ev_work o ++ t) = bal b t.
Proof.
  destruct o as [c tk|]; cbn [ev_work cost_of app bal]; [|f_equal; lia].
  replace (c <=? c + b) with true by (symmetry; apply N.leb_le; lia). f_equal. lia.
Qed.

Ltac obind_inv H :=
  repeat match type of H with
         | obind ?o _ = Some _ => let E := fresh "E" in destruct o eqn:E; [cbn [obind] in H|discriminate H]
         | (let '(_, _) := ?p in _) = Some _ => destruct p
         | (if ?c then _ else _) = Some _ => let E := fresh "E" in destruct c eqn:E; [|discriminate H]
         end.

Section Safe.
Variable host : nat -> list val -> option memory -> host_result.
Variable cap : N.
Variable m : module.
Variable afs : list afunc.
Variable cfg : cost_cfg.
Variable cx : cost_ctx.

Notation tseq := (texec_seq host cap m afs).
Notation tinstr := (texec_instr host cap m afs).
Notation tinv := (tinvoke host cap m afs).
Notation mseq := (mseq cfg cx).
Notation mi := (mi cfg cx).

(** function 0 (the target of the injected [Call 0]) is an import *)
Hypothesis Himp : (0 < length (m_imports m))%nat.
(** every function of the module is the output of the transformer *)
Definition metered_fn (fn : afunc) : Prop :=
  exists result body nl b, ameter_body cfg cx nl result body = Some b /\ af_body fn = b /\ af_entry fn = 0.
Hypothesis Hafs : Forall metered_fn afs.

Definition SafeSeq (f : nat) (h : N) (is : list ainstr) : Prop :=
  forall s l st T r, tseq f s l st is = (T, r) ->
  exists b, bal h T = Some b /\ (settled r = true -> b = 0).
Definition SafeInv (f : nat) : Prop :=
  forall s fi args T r, tinv f s fi args = (T, r) ->
  exists b, bal 0 T = Some b /\
            match r with inr _ => b = 0 | inl r0 => settled r0 = false end.
Definition SafeLoop (f : nat) : Prop :=
  forall L body hb body' o bt, mseq L body = Some (hb, body') ->
  forall s l st T r, tinstr f s l st (ALoop o bt (tick_opt hb ++ body')) = (T, r) ->
  exists b, bal (cost_of o) T = Some b /\ (settled r = true -> b = 0).
Definition SafeA (f : nat) : Prop :=
  forall L is h is', mseq L is = Some (h, is') -> SafeSeq f h is'.
Definition SafeB (f : nat) : Prop :=
  forall L is h is', mseq L is = Some (h, is') -> SafeSeq f 0 (tick_opt h ++ is').
Definition SafeAll (f : nat) : Prop := SafeA f /\ SafeB f /\ SafeInv f /\ SafeLoop f.

Lemma tseq_0 s l st is : tseq 0 s l st is = ([], RFuel). Proof. reflexivity. Qed.
Lemma tinstr_0 s l st i : tinstr 0 s l st i = ([], RFuel). Proof. reflexivity. Qed.
Lemma tinv_0 s fi args : tinv 0 s fi args = ([], inl RFuel). Proof. reflexivity. Qed.

Ltac fuel0 H :=
  first [rewrite tseq_0 in H | rewrite tinstr_0 in H | rewrite tinv_0 in H];
  inversion H; subst; clear H; eexists; split; [reflexivity|cbn; try discriminate; auto].

(** the result of a block wrapper is settled iff the body's is *)
Definition block_res (bt : blocktype) (stack : list val) (r : res) : res :=
  match r with
  | RNormal s' l' vs => RNormal s' l' (firstn (arity bt) vs ++ stack)
  | RBr O s' l' vs => RNormal s' l' (firstn (arity bt) vs ++ stack)
  | RBr (S k) s' l' vs => RBr k s' l' vs
  | r => r
  end.
Lemma block_res_settled bt st r : settled (block_res bt st r) = settled r.
Proof. destruct r as [| [|k] | | | |]; reflexivity. Qed.

(** B from A (one unit of fuel more) *)
Lemma safeB_step f : (forall f', (f' <= f)%nat -> SafeA f') -> SafeB f.
Proof.
  intros HA L is h is' Hm s l st T r H. unfold tick_opt in H.
  destruct (0 <? h) eqn:Eh.
  - destruct f as [|f]; [fuel0 H|]. rewrite tseq_S in H. cbn [app seq_body] in H.
    destruct f as [|f]; [rewrite tinstr_0 in H; inversion H; subst; eexists; split; [reflexivity|discriminate]|].
    rewrite tinstr_S in H. cbn [instr_body exec_simple ok ev_work] in H.
    destruct (tseq (S f) s l st is') as [t2 r2] eqn:E2. inversion H; subst; clear H.
    destruct (HA (S f) ltac:(lia) L is h is' Hm s l st t2 r E2) as [b [Hb Hs]].
    exists b. split; [|exact Hs]. cbn [app bal]. rewrite N.add_0_l. exact Hb.
  - apply N.ltb_ge in Eh. assert (h = 0) by lia. subst h. cbn [app] in H.
    exact (HA f (le_n _) L is 0 is' Hm s l st T r H).
Qed.

(** invocation *)
Lemma safeInv_step f : (forall f', (f' < f)%nat -> SafeA f') -> SafeInv f.
Proof.
  intros HA s fi args T r H. destruct f as [|f]; [rewrite tinv_0 in H; inversion H; subst; eexists; split; [reflexivity|reflexivity]|].
  rewrite tinv_S in H. unfold inv_body in H.
  destruct (fi <? length (m_imports m))%nat.
  - destruct (afunc_type m afs fi).
    + inversion H; subst; clear H. exists 0. split; [reflexivity|]. destruct (host fi args (s_mem s)); reflexivity.
    + inversion H; subst. exists 0. split; reflexivity.
  - destruct (nth_opt afs (fi - length (m_imports m))) as [fn|] eqn:Efn; [|inversion H; subst; exists 0; split; reflexivity].
    destruct (nth_opt (m_types m) (af_type fn)) as [ft|]; [|inversion H; subst; exists 0; split; reflexivity].
    assert (Hfn : metered_fn fn).
    { rewrite Forall_forall in Hafs. apply Hafs. eapply nth_error_In. exact Efn. }
    destruct Hfn as [result [body [nl [b0 [Hb0 [Hbody Hentry]]]]]]. rewrite Hbody, Hentry in H. clear Hbody Hentry.
    unfold ameter_body in Hb0. destruct (mseq [result] body) as [[h body']|] eqn:Em; [|discriminate].
    cbn [obind] in Hb0. destruct (seg_ok _); [|discriminate]. inversion Hb0; subst b0; clear Hb0.
    set (ia := c_invoke_after cfg nl) in *.
    destruct (tseq f s (args ++ map zero_of (af_locals fn)) []
                ((if 0 <? ia + h then [ABasic (OSrc ia 0) (BTick (ia + h))] else []) ++ body')) as [t r1] eqn:Et.
    assert (Hbody : exists b, bal 0 t = Some b /\ (settled r1 = true -> b = 0)).
    { destruct (0 <? ia + h) eqn:E0.
      - destruct f as [|f]; [rewrite tseq_0 in Et; inversion Et; subst; eexists; split; [reflexivity|discriminate]|].
        rewrite tseq_S in Et. cbn [app seq_body] in Et.
        destruct f as [|f]; [rewrite tinstr_0 in Et; inversion Et; subst; eexists; split; [reflexivity|discriminate]|].
        rewrite tinstr_S in Et. cbn [instr_body exec_simple ok ev_work] in Et.
        destruct (tseq (S f) s (args ++ map zero_of (af_locals fn)) [] body') as [t2 r2] eqn:E2.
        inversion Et; subst; clear Et.
        destruct (HA (S f) ltac:(lia) [result] body h body' Em _ _ _ _ _ E2) as [b [Hb Hs]].
        exists b. split; [|exact Hs]. cbn [app bal]. rewrite N.add_0_l.
        replace (ia <=? ia + h) with true by (symmetry; apply N.leb_le; lia).
        replace (ia + h - ia) with h by lia. exact Hb.
      - apply N.ltb_ge in E0. assert (h = 0) by lia. subst h. cbn [app] in Et.
        exact (HA f ltac:(lia) [result] body 0 body' Em _ _ _ _ _ Et). }
    destruct Hbody as [b [Hb Hs]].
    assert (Hfin : forall s' vs, let '(t2, r2) := fin_result ft s' vs in
                    bal b t2 = Some b /\ match r2 with inr _ => True | inl r0 => settled r0 = false end).
    { intros s' vs. unfold fin_result. destruct (ft_result ft); [destruct vs|]; cbn; auto. }
    destruct r1 as [s' l' vs|k s' l' vs|s' vs| | |].
    + specialize (Hfin s' vs). destruct (fin_result ft s' vs) as [t2 r2]. inversion H; subst; clear H.
      exists b. cbn [bal]. rewrite N.leb_refl, N.sub_0_r, bal_app, Hb. destruct Hfin as [H1 H2]. split; [exact H1|].
      destruct r; [exact H2|]. apply Hs; reflexivity.
    + destruct k.
      * specialize (Hfin s' vs). destruct (fin_result ft s' vs) as [t2 r2]. inversion H; subst; clear H.
        exists b. cbn [bal]. rewrite N.leb_refl, N.sub_0_r, bal_app, Hb. destruct Hfin as [H1 H2]. split; [exact H1|].
        destruct r; [exact H2|]. apply Hs; reflexivity.
      * inversion H; subst; clear H. exists b. cbn [bal]. rewrite N.leb_refl, N.sub_0_r, bal_app, Hb. split; reflexivity.
    + specialize (Hfin s' vs). destruct (fin_result ft s' vs) as [t2 r2]. inversion H; subst; clear H.
      exists b. cbn [bal]. rewrite N.leb_refl, N.sub_0_r, bal_app, Hb. destruct Hfin as [H1 H2]. split; [exact H1|].
      destruct r; [exact H2|]. apply Hs; reflexivity.
    + inversion H; subst; clear H. exists b. cbn [bal]. rewrite N.leb_refl, N.sub_0_r, bal_app, Hb. split; reflexivity.
    + inversion H; subst; clear H. exists b. cbn [bal]. rewrite N.leb_refl, N.sub_0_r, bal_app, Hb. split; reflexivity.
    + inversion H; subst; clear H. exists b. cbn [bal]. rewrite N.leb_refl, N.sub_0_r, bal_app, Hb. split; reflexivity.
Qed.

(** ** instruction-level safety: from credit [h], the instruction never overdraws; when it
    completes normally the balance is [x], when it branches/returns it is 0 *)
Definition InstrSafe (f : nat) (h x : N) (i : ainstr) : Prop :=
  forall s l st T r, tinstr f s l st i = (T, r) ->
  exists b, bal h T = Some b /\
            match r with RNormal _ _ _ => b = x | RBr _ _ _ _ | RReturn _ _ => b = 0 | _ => True end.

Lemma safeSeq_0 h is : SafeSeq 0 h is.
Proof. intros s l st T r H. rewrite tseq_0 in H. inversion H; subst. eexists; split; [reflexivity|discriminate]. Qed.
Lemma instrSafe_0 h x i : InstrSafe 0 h x i.
Proof. intros s l st T r H. rewrite tinstr_0 in H. inversion H; subst. eexists; split; [reflexivity|exact I]. Qed.

Lemma seq_cons_safe f h x i k : InstrSafe f h x i -> SafeSeq f x k -> SafeSeq (S f) h (i :: k).
Proof.
  intros Hi Hk s l st T r H. rewrite tseq_S in H. cbn [seq_body] in H.
  destruct (tinstr f s l st i) as [t1 r1] eqn:E1. destruct (Hi _ _ _ _ _ E1) as [b [Hb Hr]].
  destruct r1 as [s' l' st'| | | | |].
  - destruct (tseq f s' l' st' k) as [t2 r2] eqn:E2. injection H as HT HR. subst T r.
    rewrite Hr in Hb. destruct (Hk _ _ _ _ _ E2) as [b2 [Hb2 Hs2]]. exists b2. rewrite bal_app, Hb. auto.
  - injection H as HT HR. subst T r. exists b. split; [exact Hb|intros _; exact Hr].
  - injection H as HT HR. subst T r. exists b. split; [exact Hb|intros _; exact Hr].
  - injection H as HT HR. subst T r. exists b. split; [exact Hb|discriminate].
  - injection H as HT HR. subst T r. exists b. split; [exact Hb|discriminate].
  - injection H as HT HR. subst T r. exists b. split; [exact Hb|discriminate].
Qed.

Lemma bal_work1 c x : bal (c + x) [EvWork c] = Some x.
Proof. cbn [bal]. replace (c <=? c + x) with true by (symmetry; apply N.leb_le; lia). f_equal. lia. Qed.

(** (1) instructions that stay in the pending list *)
Lemma simple_res_shape (e : step_result) x :
  match (match e with inr (s', l', st') => RNormal s' l' st' | inl true => RTrap | inl false => RStuck end) with
  | RNormal _ _ _ => x = x | RBr _ _ _ _ | RReturn _ _ => x = 0 | _ => True end.
Proof. destruct e as [[|]|[[? ?] ?]]; auto. Qed.

Local Opaque exec_simple.
Lemma pending_safe f c x b :
  (kind_of b = KPending \/ b = BMemoryGrow) -> InstrSafe f (c + x) x (ABasic (OSrc c 0) b).
Proof.
  intros Hk. destruct f as [|f]; [apply instrSafe_0|]. intros s l st T r H. rewrite tinstr_S in H.
  destruct b; cbn [kind_of] in Hk; try (destruct Hk; discriminate);
    cbn [instr_body ev_work] in H; injection H as HT HR; subst T r;
    (exists x; split; [apply bal_work1|apply simple_res_shape]).
Qed.
Local Transparent exec_simple.

(** (2) the injected call of import 0 *)
Lemma call0_safe f x : InstrSafe f x x (ABasic OInj (BCall fn_idx_memory_alloc)).
Proof.
  destruct f as [|f]; [apply instrSafe_0|]. intros s l st T r H. rewrite tinstr_S in H.
  cbn [instr_body ev_work] in H. unfold fn_idx_memory_alloc in H.
  destruct (afunc_type m afs 0) as [ft|] eqn:Eft; [|inversion H; subst; exists x; split; [reflexivity|exact I]].
  destruct (take_args (length (ft_params ft)) st []) as [[args st']|]; [|inversion H; subst; exists x; split; [reflexivity|exact I]].
  unfold call_body in H.
  assert (E0 : ev_call m 0 = []).
  { unfold ev_call, is_local. destruct (length (m_imports m)); [lia|reflexivity]. }
  rewrite E0 in H. cbn [app ev_work] in H.
  destruct f as [|f].
  - rewrite tinv_0 in H. inversion H; subst. exists x; split; [reflexivity|exact I].
  - rewrite tinv_S in H. unfold inv_body in H.
    replace (0 <? length (m_imports m))%nat with true in H by (symmetry; apply Nat.ltb_lt; exact Himp).
    rewrite Eft in H. destruct (host 0%nat args (s_mem s)); inversion H; subst; exists x; (split; [reflexivity|]); auto.
Qed.

(** (3) calls: the callee's trace is safe from balance 0 *)
Lemma call_body_safe f o s l fi args st T r :
  SafeInv f ->
  call_body m (tinv f) o s l fi args st = (T, r) ->
  exists b, bal (cost_of o) T = Some b /\
            match r with RNormal _ _ _ => b = 0 | RBr _ _ _ _ | RReturn _ _ => b = 0 | _ => True end.
Proof.
  intros HI H. unfold call_body in H. destruct (tinv f s fi args) as [t r0] eqn:E.
  destruct (HI _ _ _ _ _ E) as [b [Hb Hr]].
  assert (Hc : forall t', bal 0 (ev_call m fi ++ t') = bal 0 t').
  { intro t'. unfold ev_call. destruct (is_local m fi); reflexivity. }
  destruct r0 as [r0|[s' rv]]; injection H as HT HR; subst T r.
  - exists b. replace (cost_of o) with (cost_of o + 0) by lia. rewrite bal_ev_work, Hc. split; [exact Hb|].
    destruct r0; try exact I; discriminate.
  - exists b. replace (cost_of o) with (cost_of o + 0) by lia. rewrite bal_ev_work, Hc. split; [exact Hb|exact Hr].
Qed.

Lemma flush_safe f c b :
  (forall f', (f' < f)%nat -> SafeInv f') ->
  kind_of b = KFlushKeep \/ (exists idx, b = BCall idx) ->
  InstrSafe f c 0 (ABasic (OSrc c 0) b).
Proof.
  intros HI Hk. destruct f as [|f]; [apply instrSafe_0|]. intros s l st T r H. rewrite tinstr_S in H.
  assert (W : bal c [EvWork c] = Some 0).
  { replace c with (c + 0) at 1 by lia. apply bal_work1. }
  destruct b; cbn [kind_of] in Hk; try (destruct Hk as [Hk|[? Hk]]; discriminate); cbn [instr_body ev_work] in H.
  - (* unreachable *) inversion H; subst. exists 0. split; [exact W|]. cbn. exact I.
  - (* br *) inversion H; subst. exists 0. split; [exact W|reflexivity].
  - (* br_table *) destruct st as [|[z|z] st]; inversion H; subst; exists 0; (split; [exact W|]); auto.
  - (* return *) inversion H; subst. exists 0. split; [exact W|reflexivity].
  - (* call *)
    destruct (afunc_type m afs f0) as [ft|]; [|inversion H; subst; exists 0; split; [exact W|exact I]].
    destruct (take_args (length (ft_params ft)) st []) as [[args st']|]; [|inversion H; subst; exists 0; split; [exact W|exact I]].
    exact (call_body_safe f (OSrc c 0) s l f0 args st' T r (HI f (Nat.lt_succ_diag_r f)) H).
  - (* call_indirect *)
    destruct st as [|[z|z] st0]; try (inversion H; subst; exists 0; split; [exact W|exact I]).
    destruct (nth_opt (m_types m) ty) as [ft|]; [|inversion H; subst; exists 0; split; [exact W|exact I]].
    destruct (if (z <? Z.of_nat (length (s_table s)))%Z then nth_opt (s_table s) (Z.to_nat z) else None) as [[fi|]|];
      try (inversion H; subst; exists 0; split; [exact W|exact I]).
    destruct (afunc_type m afs fi) as [ft'|]; [|inversion H; subst; exists 0; split; [exact W|exact I]].
    destruct (functype_eqb ft ft').
    + destruct (take_args (length (ft_params ft)) st0 []) as [[args st']|]; [|inversion H; subst; exists 0; split; [exact W|exact I]].
      exact (call_body_safe f (OSrc c 0) s l fi args st' T r (HI f (Nat.lt_succ_diag_r f)) H).
    + inversion H; subst. exists 0. split; [|exact I]. unfold ev_call. destruct (is_local m fi); cbn [app bal];
        replace (c <=? c) with true by (symmetry; apply N.leb_refl); rewrite N.sub_diag; reflexivity.
Qed.

(** (5)/(7) a block whose body is safe *)
Lemma block_safe f o bt body h :
  SafeSeq f h body -> InstrSafe (S f) (cost_of o + h) 0 (ABlock o bt body).
Proof.
  intros Hb s l st T r H. rewrite tinstr_S in H. cbn [instr_body] in H.
  destruct (tseq f s l [] body) as [t r1] eqn:E. destruct (Hb _ _ _ _ _ E) as [b [Hbal Hs]].
  inversion H; subst; clear H. exists b. rewrite bal_ev_work. split; [exact Hbal|].
  destruct r1 as [| [|k] | | | |]; try exact I; apply Hs; reflexivity.
Qed.

Lemma if_safe f c bt thn els :
  (forall f', (f' < f)%nat -> SafeSeq f' 0 thn) -> (forall f', (f' < f)%nat -> SafeSeq f' 0 els) ->
  InstrSafe f c 0 (AIf (OSrc c 0) bt thn els).
Proof.
  intros Ht He. destruct f as [|f]; [apply instrSafe_0|]. intros s l st T r H. rewrite tinstr_S in H.
  cbn [instr_body ev_work] in H.
  assert (W : bal c [EvWork c] = Some 0).
  { replace c with (c + 0) at 1 by lia. apply bal_work1. }
  destruct st as [|[z|z] st]; try (inversion H; subst; exists 0; split; [exact W|exact I]).
  destruct (tinstr f s l st (ABlock OInj bt (if (z =? 0)%Z then els else thn))) as [t r1] eqn:E.
  inversion H; subst; clear H.
  destruct f as [|f].
  - rewrite tinstr_0 in E. inversion E; subst. exists 0. split; [exact W|exact I].
  - assert (Hs : SafeSeq f 0 (if (z =? 0)%Z then els else thn)).
    { destruct (z =? 0)%Z; [apply He|apply Ht]; lia. }
    destruct (block_safe f OInj bt _ 0 Hs _ _ _ _ _ E) as [b [Hb Hr]]. cbn [cost_of] in Hb. rewrite N.add_0_l in Hb.
    exists b. cbn [app bal]. replace (c <=? c) with true by (symmetry; apply N.leb_refl). rewrite N.sub_diag.
    split; [exact Hb|exact Hr].
Qed.

(** (6) loops *)
Lemma safeLoop_step f :
  (forall f', (f' < f)%nat -> SafeB f') -> (forall f', (f' < f)%nat -> SafeLoop f') -> SafeLoop f.
Proof.
  intros HB HL L body hb body' o bt Hm s l st T r H.
  destruct f as [|f]; [rewrite tinstr_0 in H; inversion H; subst; eexists; split; [reflexivity|discriminate]|].
  rewrite tinstr_S in H. cbn [instr_body] in H.
  destruct (tseq f s l [] (tick_opt hb ++ body')) as [t r1] eqn:E.
  destruct (HB f (Nat.lt_succ_diag_r f) L body hb body' Hm _ _ _ _ _ E) as [b1 [Hb1 Hs1]].
  assert (P : forall t', bal (cost_of o) (ev_work o ++ t') = bal 0 t').
  { intro t'. replace (cost_of o) with (cost_of o + 0) by lia. apply bal_ev_work. }
  destruct r1 as [s' l' vs|k s' l' vs|s' vs| | |].
  - inversion H; subst. exists b1. rewrite P. split; [exact Hb1|intros _; apply Hs1; reflexivity].
  - destruct k.
    + destruct (tinstr f s' l' st (ALoop OInj bt (tick_opt hb ++ body'))) as [t2 r2] eqn:E2.
      inversion H; subst; clear H.
      destruct (HL f (Nat.lt_succ_diag_r f) L body hb body' OInj bt Hm _ _ _ _ _ E2) as [b2 [Hb2 Hs2]].
      exists b2. rewrite P, bal_app, Hb1. rewrite (Hs1 eq_refl). split; [exact Hb2|exact Hs2].
    + inversion H; subst. exists b1. rewrite P. split; [exact Hb1|intros _; apply Hs1; reflexivity].
  - inversion H; subst. exists b1. rewrite P. split; [exact Hb1|intros _; apply Hs1; reflexivity].
  - inversion H; subst. exists b1. rewrite P. split; [exact Hb1|discriminate].
  - inversion H; subst. exists b1. rewrite P. split; [exact Hb1|discriminate].
  - inversion H; subst. exists b1. rewrite P. split; [exact Hb1|discriminate].
Qed.

Lemma loop_instr_safe f L body hb body' c bt :
  SafeLoop f -> mseq L body = Some (hb, body') ->
  InstrSafe f c 0 (ALoop (OSrc c 0) bt (tick_opt hb ++ body')).
Proof.
  intros HL Hm s l st T r H. destruct (HL L body hb body' (OSrc c 0) bt Hm _ _ _ _ _ H) as [b [Hb Hs]].
  exists b. split; [exact Hb|]. destruct r; try exact I; apply Hs; reflexivity.
Qed.

(** (4) the two rewritings of br_if *)
Lemma safeSeq_nil f : SafeSeq f 0 [].
Proof.
  destruct f as [|f]; [apply safeSeq_0|]. intros s l st T r H. rewrite tseq_S in H. cbn [seq_body] in H.
  inversion H; subst. exists 0. split; reflexivity.
Qed.

Lemma tick_instr_safe f x n : InstrSafe f x (x + n) (ABasic OInj (BTick n)).
Proof.
  destruct f as [|f]; [apply instrSafe_0|]. intros s l st T r H. rewrite tinstr_S in H.
  cbn [instr_body exec_simple ok ev_work] in H. injection H as HT HR; subst T r.
  exists (x + n). split; reflexivity.
Qed.

Lemma brif0_safe f c b idx :
  (forall f', (f' < f)%nat -> SafeInv f') ->
  InstrSafe f c 0 (AIf (OSrc c 0) None [ABasic OInj (BTick b); ABasic (OSrc b 0) (BBr idx)] []).
Proof.
  intro HI. apply if_safe.
  - intros f' Hlt. destruct f' as [|f']; [apply safeSeq_0|].
    apply seq_cons_safe with (x := 0 + b); [apply tick_instr_safe|].
    destruct f' as [|f']; [apply safeSeq_0|].
    apply seq_cons_safe with (x := 0); [|apply safeSeq_nil].
    rewrite N.add_0_l. apply flush_safe; [intros; apply HI; lia|left; reflexivity].
  - intros; apply safeSeq_nil.
Qed.

Ltac crunch H :=
  repeat (match type of H with
          | context [texec_instr _ _ _ _ (S _) _ _ _ _] =>
              rewrite tinstr_S in H; cbn [instr_body exec_simple ok mkval ev_work app] in H
          | context [texec_seq _ _ _ _ (S _) _ _ _ _] =>
              rewrite tseq_S in H; cbn [seq_body app] in H
          | context [texec_instr _ _ _ _ O _ _ _ _] => rewrite tinstr_0 in H
          | context [texec_seq _ _ _ _ O _ _ _ _] => rewrite tseq_0 in H
          | context [texec_instr _ _ _ _ ?f _ _ _ _] => is_var f; destruct f as [|f]
          | context [texec_seq _ _ _ _ ?f _ _ _ _] => is_var f; destruct f as [|f]
          end).

Definition brif1_if (c b : N) : ainstr :=
  AIf (OSrc c 0) (Some T_i32) [ABasic OInj (BTick b); ABasic OInj (BConst T_i32 1%Z)]
      [ABasic OInj (BConst T_i32 0%Z)].

Lemma brif1_if_shape f c b s l st T r :
  tinstr f s l st (brif1_if c b) = (T, r) ->
  (exists st', r = RNormal s l (VI32 1 :: st') /\ T = [EvWork c; EvTick b]) \/
  (exists st', r = RNormal s l (VI32 0 :: st') /\ T = [EvWork c]) \/
  (settled r = false /\ (T = [] \/ T = [EvWork c] \/ T = [EvWork c; EvTick b])).
Proof.
  unfold brif1_if. intro H.
  destruct f as [|f]; [rewrite tinstr_0 in H; inversion H; subst; right; right; split; auto|].
  rewrite tinstr_S in H. cbn [instr_body ev_work] in H.
  destruct st as [|[z|z] st0]; try (inversion H; subst; right; right; split; auto; fail).
  destruct (z =? 0)%Z.
  - crunch H; inversion H; subst; cbn [firstn arity app];
      first [ right; left; eexists; split; reflexivity | right; right; split; auto ].
  - crunch H; inversion H; subst; cbn [firstn arity app];
      first [ left; eexists; split; reflexivity | right; right; split; auto ].
Qed.

Lemma brif1_safe f c b idx k :
  (forall f', (f' < f)%nat -> SafeSeq f' 0 k) ->
  SafeSeq f c (brif1_if c b :: ABasic (OSrc 0 b) (BBrIf idx) :: k).
Proof.
  intros Hk. destruct f as [|f]; [apply safeSeq_0|]. intros s l st T r H.
  rewrite tseq_S in H. cbn [seq_body] in H.
  destruct (tinstr f s l st (brif1_if c b)) as [t1 r1] eqn:E1.
  assert (Wc : forall t', bal c (EvWork c :: t') = bal 0 t').
  { intro t'. cbn [bal]. replace (c <=? c) with true by (symmetry; apply N.leb_refl). rewrite N.sub_diag. reflexivity. }
  destruct (brif1_if_shape _ _ _ _ _ _ _ _ E1) as [[st' [Hr Ht]]|[[st' [Hr Ht]]|[Hs Ht]]]; subst.
  - (* then-branch: balance b, br_if taken *)
    destruct f as [|f]; [rewrite tseq_0 in H; inversion H; subst; eexists; split; [rewrite Wc; reflexivity|discriminate]|].
    rewrite tseq_S in H. cbn [seq_body] in H.
    destruct f as [|f]; [rewrite tinstr_0 in H; inversion H; subst; eexists; split; [rewrite Wc; reflexivity|discriminate]|].
    rewrite tinstr_S in H. cbn [instr_body ev_work ev_taken app] in H. cbn in H. inversion H; subst.
    exists 0. split; [|reflexivity]. rewrite Wc. cbn [app bal]. rewrite N.add_0_l.
    cbn. replace (0 <=? b) with true by (symmetry; apply N.leb_le; lia).
    replace (b <=? b - 0) with true by (symmetry; apply N.leb_le; lia). f_equal. lia.
  - (* else-branch: balance 0, br_if not taken *)
    destruct f as [|f]; [rewrite tseq_0 in H; inversion H; subst; eexists; split; [rewrite Wc; reflexivity|discriminate]|].
    rewrite tseq_S in H. cbn [seq_body] in H.
    destruct f as [|f]; [rewrite tinstr_0 in H; inversion H; subst; eexists; split; [rewrite Wc; reflexivity|discriminate]|].
    rewrite tinstr_S in H. cbn [instr_body ev_work ev_taken app Z.eqb] in H.
    destruct (tseq (S f) s l st' k) as [t2 r2] eqn:E2. inversion H; subst; clear H.
    destruct (Hk (S f) ltac:(lia) _ _ _ _ _ E2) as [b2 [Hb2 Hs2]].
    exists b2. split; [|exact Hs2]. rewrite Wc. cbn [app bal]. cbn. exact Hb2.
  - (* the rewriting itself did not complete *)
    destruct r1; try discriminate; inversion H; subst;
      (destruct Ht as [Ht|[Ht|Ht]]; subst; eexists; (split; [first [reflexivity | rewrite Wc; reflexivity]|discriminate])).
Qed.

(** ** assembling: the transformer's output is safe, by strong induction on the fuel *)
Lemma safeA_step f : (forall f', (f' < f)%nat -> SafeAll f') -> SafeA f.
Proof.
  intros IH L is h is' Hm.
  destruct f as [|f0]; [apply safeSeq_0|].
  assert (IHA : forall f', (f' <= f0)%nat -> SafeA f') by (intros f' Hl; apply IH; lia).
  assert (IHB : forall f', (f' <= f0)%nat -> SafeB f') by (intros f' Hl; apply IH; lia).
  assert (IHI : forall f', (f' < S f0)%nat -> SafeInv f') by (intros f' Hl; apply IH; lia).
  assert (IHL : SafeLoop f0) by (apply IH; lia).
  destruct is as [|j r].
  - inversion Hm; subst. apply safeSeq_nil.
  - rewrite mseq_cons in Hm.
    destruct (mseq L r) as [[hr r']|] eqn:Er; [|discriminate].
    destruct (mi L j) as [[[hj pre] fl]|] eqn:Ej; [|discriminate].
    assert (tailA : forall f', (f' <= f0)%nat -> SafeSeq f' hr r') by (intros f' Hl; exact (IHA f' Hl L r hr r' Er)).
    assert (tailB : forall f', (f' <= f0)%nat -> SafeSeq f' 0 (tick_opt hr ++ r')) by (intros f' Hl; exact (IHB f' Hl L r hr r' Er)).
    rewrite mi_eq in Ej. destruct j as [b|bt body|bt body|bt thn els].
    + (* Basic *)
      obind_inv Ej. destruct (kind_of b) eqn:Ek.
      * (* pending *)
        inversion Ej; subst; clear Ej. cbn [mcombine] in Hm. inversion Hm; subst; clear Hm. cbn [app].
        apply seq_cons_safe with (x := hr); [apply pending_safe; left; exact Ek|apply tailA; lia].
      * (* flush, kept *)
        inversion Ej; subst; clear Ej. cbn [mcombine] in Hm. destruct (seg_ok hr); [|discriminate].
        inversion Hm; subst; clear Hm. cbn [app].
        apply seq_cons_safe with (x := 0); [|apply tailB; lia].
        apply flush_safe; [intros; apply IHI; lia|left; exact Ek].
      * (* call *)
        inversion Ej; subst; clear Ej. cbn [mcombine] in Hm. destruct (seg_ok hr); [|discriminate].
        inversion Hm; subst; clear Hm. cbn [app].
        apply seq_cons_safe with (x := 0); [|apply tailB; lia].
        apply flush_safe; [intros; apply IHI; lia|right; eexists; reflexivity].
      * (* br_if *)
        obind_inv Ej. inversion Ej; subst; clear Ej. cbn [mcombine] in Hm. destruct (seg_ok hr); [|discriminate].
        inversion Hm; subst; clear Hm.
        unfold brif_rewrite in E1. destruct (negb _); [discriminate|].
        destruct (n0 =? 0).
        -- inversion E1; subst; clear E1. cbn [app].
           apply seq_cons_safe with (x := 0); [|apply tailB; lia].
           apply brif0_safe. intros; apply IHI; lia.
        -- destruct (n0 =? 1); [|discriminate]. inversion E1; subst; clear E1. cbn [app].
           apply brif1_safe. intros f' Hl. apply tailB; lia.
      * (* memory.grow *)
        inversion Ej; subst; clear Ej. cbn [mcombine] in Hm. inversion Hm; subst; clear Hm. cbn [app].
        eapply seq_cons_safe; [apply call0_safe|].
        destruct f0 as [|f1]; [apply safeSeq_0|].
        apply seq_cons_safe with (x := hr); [|apply tailA; lia].
        apply pending_safe. right. destruct b; cbn [kind_of] in Ek; try discriminate. reflexivity.
      * discriminate.
    + (* Block *)
      obind_inv Ej. inversion Ej; subst; clear Ej. cbn [mcombine] in Hm. destruct (seg_ok hr); [|discriminate].
      inversion Hm; subst; clear Hm. cbn [app].
      apply seq_cons_safe with (x := 0); [|apply tailB; lia].
      destruct f0 as [|f1]; [apply instrSafe_0|].
      refine (block_safe f1 (OSrc _ 0) _ _ _ _). eapply (IHA f1 ltac:(lia)); eassumption.
    + (* Loop *)
      obind_inv Ej. inversion Ej; subst; clear Ej. cbn [mcombine] in Hm. destruct (seg_ok hr); [|discriminate].
      inversion Hm; subst; clear Hm. cbn [app].
      apply seq_cons_safe with (x := 0); [|apply tailB; lia].
      eapply loop_instr_safe; eassumption.
    + (* If *)
      obind_inv Ej. inversion Ej; subst; clear Ej. cbn [mcombine] in Hm. destruct (seg_ok hr); [|discriminate].
      inversion Hm; subst; clear Hm. cbn [app].
      apply seq_cons_safe with (x := 0); [|apply tailB; lia].
      apply if_safe; intros f' Hl; eapply (IHB f' ltac:(lia)); eassumption.
Qed.

Theorem safe_all : forall f, SafeAll f.
Proof.
  induction f as [f IH] using lt_wf_ind.
  assert (HA : SafeA f) by (apply safeA_step; exact IH).
  repeat split.
  - exact HA.
  - apply safeB_step. intros f' Hl. destruct (Nat.eq_dec f' f) as [->|Hn]; [exact HA|apply IH; lia].
  - apply safeInv_step. intros f' Hl. apply IH; exact Hl.
  - apply safeLoop_step; intros f' Hl; apply IH; exact Hl.
Qed.

End Safe.

(** ** the statement for whole runs of a metered module *)
Lemma inject_imports cfg m m' : inject cfg m = Some m' -> (0 < length (m_imports m'))%nat.
Proof.
  unfold inject. destruct (omap_list _ _); [|discriminate]. intro H; inversion H; subst; cbn. lia.
Qed.

Lemma ameter_funcs_metered cfg m afs :
  ameter_funcs cfg m = Some afs -> Forall (metered_fn cfg (ctx_of_module m)) afs.
Proof.
  intro H. eapply omap_list_forall; [exact H|]. intros f fn Hf. unfold ameter_func in Hf.
  destruct (nth_error (m_types m) (f_type f)) as [ft|]; [|discriminate].
  destruct (ameter_body _ _ _ _ _) as [b|] eqn:Eb; [|discriminate]. inversion Hf; subst.
  exists (ft_result ft), (f_body f), (N.of_nat (length (f_locals f))), b. cbn. auto.
Qed.

Theorem metered_run_prepaid_exact cfg m m' afs host cap fuel fi args T o :
  inject cfg m = Some m' -> ameter_funcs cfg m = Some afs ->
  trun host cap m' afs fuel fi args = (T, o) ->
  (forall p q, T = p ++ q -> work p <= ticks p) /\
  (forall r mem g, o = Done r mem g -> ticks T = work T).
Proof.
  intros Hi Ha H. unfold trun in H. destruct (instantiate m') as [s|].
  - destruct (tinvoke host cap m' afs fuel s fi args) as [t r0] eqn:E.
    destruct (safe_all host cap m' afs cfg (ctx_of_module m) (inject_imports _ _ _ Hi) (ameter_funcs_metered _ _ _ Ha) fuel)
      as [_ [_ [HI _]]].
    destruct (HI _ _ _ _ _ E) as [b [Hb Hr]].
    assert (T = t) by (destruct r0 as [[]|[? ?]]; inversion H; reflexivity). subst t.
    split.
    + intros p q Hpq. subst T. apply bal_prefix in Hb. lia.
    + intros r mem g Ho. destruct r0 as [r0|[s' rv]].
      * destruct r0; inversion H; subst; discriminate.
      * subst b. apply bal_conserve in Hb. lia.
  - inversion H; subst. split; [intros p q Hpq; destruct p; [cbn; lia|discriminate]|discriminate].
Qed.

(** the module [inject] builds is the erasure of the annotated functions the theorems are about *)
Lemma inject_erase cfg m m' afs :
  inject cfg m = Some m' -> ameter_funcs cfg m = Some afs -> m_funcs m' = map erase_func afs.
Proof.
  unfold inject, ameter_funcs. intros Hi Ha.
  destruct (omap_list (meter_func cfg m) (m_funcs m)) as [fs|] eqn:E; [|discriminate].
  inversion Hi; subst; cbn. clear Hi. revert fs afs E Ha.
  induction (m_funcs m) as [|f r IH]; intros fs afs E Ha; cbn [omap_list] in *.
  - inversion E; inversion Ha; reflexivity.
  - destruct (meter_func cfg m f) as [f'|] eqn:E0; [|discriminate].
    destruct (ameter_func cfg m f) as [af|] eqn:A0; [|discriminate].
    destruct (omap_list (meter_func cfg m) r) as [fs'|] eqn:E1; [|discriminate].
    destruct (omap_list (ameter_func cfg m) r) as [afs'|] eqn:E2; [|discriminate].
    inversion E; inversion Ha; subst. cbn [map]. f_equal; [|apply IH; reflexivity].
    unfold meter_func, meter_body in E0. unfold ameter_func in A0.
    destruct (nth_error (m_types m) (f_type f)) as [ft|]; [|discriminate].
    destruct (ameter_body cfg (ctx_of_module m) _ _ _) as [b|]; [|discriminate].
    inversion E0; inversion A0; subst. reflexivity.
Qed.

(** instructions of non-zero cost executed so far never outnumber the energy ticked so far *)
Lemma works_le_work t : N.of_nat (length (works t)) <= work t.
Proof.
  induction t as [|e t IH]; cbn [works work length]; [lia|].
  destruct e; try exact IH. destruct (0 <? c) eqn:E; cbn [length].
  - apply N.ltb_lt in E. lia.
  - lia.
Qed.

Theorem costed_steps : forall cfg m m' afs host cap fuel fi args T o,
  inject cfg m = Some m' -> ameter_funcs cfg m = Some afs ->
  trun host cap m' afs fuel fi args = (T, o) ->
  forall p q, T = p ++ q -> N.of_nat (length (works p)) <= ticks p.
Proof.
  intros cfg m m' afs host cap fuel fi args T o Hi Ha H p q Hpq.
  destruct (metered_run_prepaid_exact _ _ _ _ _ _ _ _ _ _ _ Hi Ha H) as [Hp _].
  specialize (Hp p q Hpq). pose proof (works_le_work p). eapply N.le_trans; eassumption.
Qed.

Theorem run_is_sem_run : forall cfg m m' afs host cap fuel fi args,
  inject cfg m = Some m' -> ameter_funcs cfg m = Some afs ->
  snd (trun host cap m' afs fuel fi args) = run host cap m' fuel fi args.
Proof. intros. apply trun_erase. eapply inject_erase; eassumption. Qed.
