(** * Wasm/ResumeProofs — interrupted-and-resumed execution equals direct execution.

    1. [drive_eq_direct] (generic): for ANY step machine, host and choice function, if resuming
       from the captured configuration with a response equals answering the live state directly
       ([capture_resume]), then [drive] (interrupt, push the response, [run_config] again) returns
       the same outcome, host state, event trace and call count as [run_direct].
    2. [capture_resume_machine]: the [RunConfig] of machine.rs has that property
       ([push_value] on the captured configuration = writing the result register of the live state).
    3. [resume_equiv_thm]: 1 + 2 for the machine model, every artifact, host, schedule.
    4. [step_decompose], [direct_refines_machine_thm]: the interruptible model run with a stateless,
       memory-preserving host is exactly [Machine.mrun] (the model C01 ties to the implementation). *)
From Coq Require Import ZArith NArith List Bool Lia FMapPositive.
From CB Require Import Common.IntN Wasm.Syntax Wasm.Sem Wasm.Compile Wasm.Machine Wasm.Resume.
Import ListNotations.

Section GenericProofs.
Variables St K Q L A R Out H Ev : Type.
Variable gstep : St -> gres St Q L Out.
Variable gev : St -> list Ev.
Variable gapply : St -> A -> St.
Variable gdirect : St -> L -> R -> St.
Variable gcapture : St -> L -> K.
Variable gresume : K -> L -> R -> St.
Variable hcall : H -> nat -> Q -> H * option (A * R).
(** the captured configuration is the live state: resuming it with a response is answering directly *)
Hypothesis capture_resume : forall s l r, gresume (gcapture s l) l r = gdirect s l r.

Let rd := run_direct St Q L A R Out H Ev gstep gev gapply gdirect hcall.
Let rc := run_config St K Q L A R Out H Ev gstep gev gapply gdirect gcapture hcall.
Let dr := drive St K Q L A R Out H Ev gstep gev gapply gdirect gcapture gresume hcall.

Lemma run_config_spec : forall choose fuel h n tr s,
  match rc choose fuel h n tr s with
  | RCDone _ _ _ _ _ _ _ res => rd fuel h n tr s = res
  | RCInterrupted _ _ _ _ _ _ _ q l r k h' n' tr' f' =>
      (f' < fuel)%nat /\ rd fuel h n tr s = rd f' h' n' tr' (gresume k l r)
  end.
Proof.
  unfold rc, rd. intros choose. induction fuel as [|f IH]; intros h n tr s.
  - reflexivity.
  - cbn [run_config run_direct]. destruct (gstep s) as [s'|o|q s' l].
    + specialize (IH h n (tr ++ gev s) s').
      destruct (run_config St K Q L A R Out H Ev gstep gev gapply gdirect gcapture hcall choose f h n (tr ++ gev s) s').
      * exact IH.
      * destruct IH as [Hlt Heq]. split; [lia | exact Heq].
    + reflexivity.
    + destruct (hcall h n q) as [h' [[a r]|]].
      * destruct (choose n q).
        -- split; [lia|]. rewrite capture_resume. reflexivity.
        -- specialize (IH h' (S n) (tr ++ gev s) (gdirect (gapply s' a) l r)).
           destruct (run_config St K Q L A R Out H Ev gstep gev gapply gdirect gcapture hcall choose f h' (S n) (tr ++ gev s) (gdirect (gapply s' a) l r)).
           ++ exact IH.
           ++ destruct IH as [Hlt Heq]. split; [lia | exact Heq].
      * reflexivity.
Qed.

Theorem drive_eq_direct : forall choose rounds fuel h n tr s,
  (fuel <= rounds)%nat -> dr choose rounds fuel h n tr s = rd fuel h n tr s.
Proof.
  intros choose. induction rounds as [|rdn IH]; intros fuel h n tr s Hle.
  - unfold dr. cbn [drive]. pose proof (run_config_spec choose fuel h n tr s) as Hs. unfold rc in Hs.
    destruct (run_config St K Q L A R Out H Ev gstep gev gapply gdirect gcapture hcall choose fuel h n tr s).
    + symmetry. exact Hs.
    + destruct Hs as [Hlt _]. lia.
  - unfold dr. cbn [drive]. pose proof (run_config_spec choose fuel h n tr s) as Hs. unfold rc in Hs.
    destruct (run_config St K Q L A R Out H Ev gstep gev gapply gdirect gcapture hcall choose fuel h n tr s).
    + symmetry. exact Hs.
    + destruct Hs as [Hlt Heq]. rewrite Heq. apply IH. lia.
Qed.

(** the schedule is not observable *)
Corollary drive_schedule_independent : forall c1 c2 rounds fuel h n tr s,
  (fuel <= rounds)%nat -> dr c1 rounds fuel h n tr s = dr c2 rounds fuel h n tr s.
Proof. intros. rewrite !drive_eq_direct by assumption. reflexivity. Qed.

(** [drive_count] returns the result of [drive] *)
Lemma drive_count_fst : forall choose rounds fuel h n tr s acc,
  fst (drive_count St K Q L A R Out H Ev gstep gev gapply gdirect gcapture gresume hcall choose rounds fuel h n tr s acc)
  = dr choose rounds fuel h n tr s.
Proof.
  unfold dr. intros choose. induction rounds as [|rdn IH]; intros; cbn [drive drive_count];
    destruct (run_config St K Q L A R Out H Ev gstep gev gapply gdirect gcapture hcall choose fuel h n tr s);
    try reflexivity. apply IH.
Qed.
End GenericProofs.

(** ** the RunConfig of the machine *)
Lemma restore_capture st l : restore (capture st l) = st.
Proof. destruct st; reflexivity. Qed.

Lemma push_value_capture st l v :
  restore (push_value (capture st (Some l)) v) = set_reg st l v.
Proof. destruct st; reflexivity. Qed.

Lemma capture_resume_machine : forall st l r, resume_with (capture st l) l r = direct_answer st l r.
Proof.
  intros st [l|] [v|]; cbn [resume_with direct_answer].
  - apply push_value_capture.
  - apply restore_capture.
  - apply restore_capture.
  - apply restore_capture.
Qed.

(** a configuration captured with a DIFFERENT result location does not have the property
    (what a stale [return_value_loc] would do): non-vacuity of the hypothesis *)
Example stale_return_value_loc_differs :
  let st := {| ms_pc := 0; ms_idx := O; ms_frames := []; ms_ret := None; ms_mem := None;
               ms_regs := [0; 0]%Z; ms_base := O; ms_globals := []; ms_energy := 0%N |} in
  resume_with (capture st (Some 0%Z)) (Some 1%Z) (Some 7%Z) <> direct_answer st (Some 1%Z) (Some 7%Z).
Proof. cbv. discriminate. Qed.

Theorem resume_equiv_thm : forall (H : Type) (art : artifact) (hc : H -> nat -> hquery -> H * option (heffect * hresponse))
    (choose : nat -> hquery -> bool) (rounds fuel : nat) (h : H) (st : mstate),
  (fuel <= rounds)%nat ->
  m_drive H art hc choose rounds fuel h st = m_run_direct H art hc fuel h st.
Proof.
  intros. unfold m_drive, m_run_direct. apply drive_eq_direct; [exact capture_resume_machine | assumption].
Qed.

Theorem schedule_independent_thm : forall (H : Type) art hc c1 c2 rounds fuel (h : H) st,
  (fuel <= rounds)%nat -> m_drive H art hc c1 rounds fuel h st = m_drive H art hc c2 rounds fuel h st.
Proof. intros. rewrite !resume_equiv_thm by assumption. reflexivity. Qed.

(** energy is host state: whatever is charged, it is charged once - the remaining energy (and every
    other part of the result) after an interrupted run equals that of the direct run *)
Theorem energy_no_double_charge_thm : forall (H : Type) art (cost : hquery -> N) hc choose rounds fuel (e : N) (h : H) st,
  (fuel <= rounds)%nat ->
  fst (r_host (m_drive (N * H) art (metered_host cost hc) choose rounds fuel (e, h) st))
  = fst (r_host (m_run_direct (N * H) art (metered_host cost hc) fuel (e, h) st)).
Proof. intros. rewrite resume_equiv_thm by assumption. reflexivity. Qed.

Lemma m_drive_count_fst : forall (H : Type) art hc choose rounds fuel (h : H) st,
  fst (m_drive_count H art hc choose rounds fuel h st) = m_drive H art hc choose rounds fuel h st.
Proof. intros. unfold m_drive_count, m_drive. apply drive_count_fst. Qed.

(** ** the interruptible model refines [Machine.step] *)
Section Decompose.
Variable art : artifact.
Variable codes : list (code_map * list Z).
Variable mhost : nat -> list Z -> option (option Z).

Definition host_step (st : mstate) (x : nat * functype * list Z * option Z * Z) : step_res :=
  let '(fidx, ft, args, loc, pc') := x in
  match loc with
  | Some l => match mhost fidx args with Some (Some r) => SNext (set_pc (set_reg st l r) pc') | _ => STrap THost end
  | None => match mhost fidx args with Some _ => SNext (set_pc st pc') | None => STrap THost end
  end.

Lemma call_function_decompose c consts st pc fidx check :
  call_function art mhost c consts st pc fidx check =
  match import_call art c consts st pc fidx check with
  | Some x => host_step st x
  | None => call_function art no_host c consts st pc fidx check
  end.
Proof.
  unfold call_function, import_call, host_step.
  destruct (fidx <? length (a_imports art))%nat; [|reflexivity].
  destruct (nth_error (a_imports art) fidx) as [ft|]; [|reflexivity].
  destruct (check ft O); [|reflexivity].
  destruct (read_args c consts st pc (length (ft_params ft)) []) as [args pc1].
  destruct (ft_result ft); reflexivity.
Qed.

Lemma step_decompose st :
  step art mhost codes st =
  match host_call_at art codes st with
  | Some x => host_step st x
  | None => step art no_host codes st
  end.
Proof.
  unfold step, host_call_at.
  destruct (nth_error codes (ms_idx st)) as [[c consts]|]; [|reflexivity].
  unfold exec_op. cbv zeta.
  destruct (Z.to_N (byte_at c (ms_pc st)) =? 0)%N; [reflexivity|].
  destruct (Z.to_N (byte_at c (ms_pc st)) =? 1)%N; [reflexivity|].
  destruct (Z.to_N (byte_at c (ms_pc st)) =? 2)%N; [reflexivity|].
  destruct (Z.to_N (byte_at c (ms_pc st)) =? 3)%N; [reflexivity|].
  destruct (Z.to_N (byte_at c (ms_pc st)) =? 4)%N; [reflexivity|].
  destruct (Z.to_N (byte_at c (ms_pc st)) =? 5)%N; [reflexivity|].
  destruct (Z.to_N (byte_at c (ms_pc st)) =? 100)%N; [reflexivity|].
  destruct (Z.to_N (byte_at c (ms_pc st)) =? 6)%N; [reflexivity|].
  destruct (Z.to_N (byte_at c (ms_pc st)) =? 8)%N; [reflexivity|].
  destruct (Z.to_N (byte_at c (ms_pc st)) =? 7)%N.
  { apply call_function_decompose. }
  destruct (Z.to_N (byte_at c (ms_pc st)) =? 9)%N; [|reflexivity].
  destruct (nth_error (a_types art) (Z.to_nat (get_u32 c (ms_pc st + 1)))) as [ty|]; [|reflexivity].
  match goal with |- context [if (?a <? ?b)%Z then nth_error (a_table art) ?i else None] =>
    destruct (if (a <? b)%Z then nth_error (a_table art) i else None) as [[fidx|]|] end;
    try reflexivity.
  apply call_function_decompose.
Qed.

Lemma import_call_loc c consts st pc fidx check f ft args loc pc' :
  import_call art c consts st pc fidx check = Some (f, ft, args, loc, pc') ->
  (loc = None <-> ft_result ft = None).
Proof.
  unfold import_call.
  destruct (fidx <? length (a_imports art))%nat; [|discriminate].
  destruct (nth_error (a_imports art) fidx) as [ft0|]; [|discriminate].
  destruct (check ft0 O); [|discriminate].
  destruct (read_args c consts st pc (length (ft_params ft0)) []) as [args0 pc1].
  destruct (ft_result ft0) eqn:Hr; intros Heq; inversion Heq; subst; rewrite Hr; split; intros; (discriminate || reflexivity).
Qed.

Lemma host_call_at_loc st f ft args loc pc' :
  host_call_at art codes st = Some (f, ft, args, loc, pc') -> (loc = None <-> ft_result ft = None).
Proof.
  unfold host_call_at.
  destruct (nth_error codes (ms_idx st)) as [[c consts]|]; [|discriminate].
  cbv zeta.
  destruct (Z.to_N (byte_at c (ms_pc st)) =? 0)%N; [discriminate|].
  destruct (Z.to_N (byte_at c (ms_pc st)) =? 1)%N; [discriminate|].
  destruct (Z.to_N (byte_at c (ms_pc st)) =? 2)%N; [discriminate|].
  destruct (Z.to_N (byte_at c (ms_pc st)) =? 3)%N; [discriminate|].
  destruct (Z.to_N (byte_at c (ms_pc st)) =? 4)%N; [discriminate|].
  destruct (Z.to_N (byte_at c (ms_pc st)) =? 5)%N; [discriminate|].
  destruct (Z.to_N (byte_at c (ms_pc st)) =? 100)%N; [discriminate|].
  destruct (Z.to_N (byte_at c (ms_pc st)) =? 6)%N; [discriminate|].
  destruct (Z.to_N (byte_at c (ms_pc st)) =? 8)%N; [discriminate|].
  destruct (Z.to_N (byte_at c (ms_pc st)) =? 7)%N.
  { apply import_call_loc. }
  destruct (Z.to_N (byte_at c (ms_pc st)) =? 9)%N; [|discriminate].
  destruct (nth_error (a_types art) (Z.to_nat (get_u32 c (ms_pc st + 1)))) as [ty|]; [|discriminate].
  match goal with |- context [if (?a <? ?b)%Z then nth_error (a_table art) ?i else None] =>
    destruct (if (a <? b)%Z then nth_error (a_table art) i else None) as [[fidx|]|] end;
    try discriminate.
  apply import_call_loc.
Qed.

Lemma set_reg_set_pc st l r pc : set_reg (set_pc st pc) l r = set_pc (set_reg st l r) pc.
Proof. destruct st; reflexivity. Qed.

(** the interruptible model with a stateless memory-preserving host takes exactly the steps of
    [Machine.run_steps] *)
Lemma direct_refines_steps entry : forall fuel st n tr,
  finish art entry
    (r_out (run_direct mstate hquery (option Z) heffect hresponse ioutcome unit N
              (istep art codes) (tick_of art codes) apply_effect direct_answer (lift_host mhost) fuel tt n tr st))
  = match run_steps art mhost codes fuel st with
    | inl o => o
    | inr st' => finish art entry (OHalt (inr st'))
    end.
Proof.
  induction fuel as [|f IH]; intros st n tr.
  - reflexivity.
  - cbn [run_direct run_steps]. rewrite step_decompose. unfold istep.
    destruct (host_call_at art codes st) as [[[[[fidx ft] args] loc] pc']|] eqn:Hc.
    + pose proof (host_call_at_loc _ _ _ _ _ _ Hc) as Hloc.
      unfold host_step, lift_host.
      destruct loc as [l|]; destruct (ft_result ft) as [rt|] eqn:Hr.
      * destruct (mhost fidx args) as [[r|]|]; cbn [r_out finish].
        -- cbn [apply_effect direct_answer]. rewrite set_reg_set_pc. apply IH.
        -- reflexivity.
        -- reflexivity.
      * exfalso. destruct Hloc as [_ Hx]. specialize (Hx eq_refl). discriminate.
      * exfalso. destruct Hloc as [Hx _]. specialize (Hx eq_refl). discriminate.
      * destruct (mhost fidx args) as [[r|]|]; cbn [r_out finish apply_effect direct_answer];
          try reflexivity; apply IH.
    + destruct (step art no_host codes st) as [s'|s'|r].
      * apply IH.
      * reflexivity.
      * reflexivity.
Qed.
End Decompose.

Theorem direct_refines_machine_thm : forall art mhost fuel entry args,
  mrun art mhost fuel entry args =
  match init_state art entry args with
  | None => MTrap TBadCode
  | Some st0 => finish art entry (r_out (m_run_direct unit art (lift_host mhost) fuel tt st0))
  end.
Proof.
  intros art mhost fuel entry args. unfold mrun, init_state, m_run_direct.
  destruct (nth_error (a_code art) entry) as [f|] eqn:Hf; [|reflexivity].
  cbv zeta. rewrite direct_refines_steps.
  match goal with |- context [run_steps ?a ?b ?c ?d ?e] => destruct (run_steps a b c d e) as [o|st'] end.
  - reflexivity.
  - unfold finish. rewrite Hf. reflexivity.
Qed.
