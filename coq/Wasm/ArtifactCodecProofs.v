(** * Wasm/ArtifactCodecProofs — round trip of the artifact serialisation of [Wasm/ArtifactCodec.v].

    Main results:
    - [artifact_roundtrip_thm]: parsing the serialisation of a well-formed artifact (followed by
      anything) returns that artifact and leaves exactly the trailing bytes;
    - [artifact_reserialise_identical_thm]: serialising the parsed artifact again is byte-identical;
    - [artifact_output_injective_thm]: the serialisation is injective on well-formed artifacts;
    - [artifact_overlong_accepted_ex]: the parser is not byte-canonical on arbitrary input
      (over-long LEB128 forms are accepted), so canonicity holds for serialised artifacts only;
    - [artifact_nonvacuous_ex]: a non-trivial well-formed artifact and its round trip by computation;
    - [p_many_eq_nat]: the element loop equals the structural loop on [N.to_nat count];
    - [wf_artifactb_iff]: the boolean well-formedness check decides [wf_artifact]. *)
From Coq Require Import ZArith NArith List Bool Lia Setoid.
From CB Require Import Wasm.Syntax Wasm.Leb128 Wasm.Leb128Proofs Wasm.ArtifactLeb Wasm.ArtifactCodec.
Import ListNotations.
Local Open Scope N_scope.

(** [RT o d P]: [d] inverts [o] on values satisfying [P], whatever follows *)
Definition RT {A} (o : A -> list N) (d : dec A) (P : A -> Prop) : Prop :=
  forall a rest, P a -> d (o a ++ rest) = Some (a, rest).

Lemma RT_weaken {A} (o : A -> list N) d (P Q : A -> Prop) :
  (forall a, Q a -> P a) -> RT o d P -> RT o d Q.
Proof. intros H R a rest W. apply R. auto. Qed.

(** ** the element loop *)
Fixpoint iter_nat {S : Type} (n : nat) (step : S -> option S) (s : S) : option S :=
  match n with
  | O => Some s
  | S k => match step s with Some s' => iter_nat k step s' | None => None end
  end.
Lemma iter_nat_add {S} a b (step : S -> option S) : forall s,
  iter_nat (a + b) step s = match iter_nat a step s with Some s' => iter_nat b step s' | None => None end.
Proof.
  induction a as [|a IH]; intros s; cbn [iter_nat plus]; [reflexivity|].
  destruct (step s); auto.
Qed.
Lemma iter_pos_nat {S} p (step : S -> option S) : forall s,
  iter_pos p step s = iter_nat (Pos.to_nat p) step s.
Proof.
  induction p as [p IH|p IH|]; intros s; cbn [iter_pos].
  - rewrite Pos2Nat.inj_xI. cbn [iter_nat]. destruct (step s) as [s0|]; [|reflexivity].
    replace (2 * Pos.to_nat p)%nat with (Pos.to_nat p + Pos.to_nat p)%nat by lia.
    rewrite iter_nat_add, <- IH. destruct (iter_pos p step s0); auto.
  - rewrite Pos2Nat.inj_xO.
    replace (2 * Pos.to_nat p)%nat with (Pos.to_nat p + Pos.to_nat p)%nat by lia.
    rewrite iter_nat_add, <- IH. destruct (iter_pos p step s); auto.
  - rewrite Pos2Nat.inj_1. cbn [iter_nat]. destruct (step s); reflexivity.
Qed.
Lemma iter_many_nat {A} (d : dec A) n : forall acc bs,
  iter_nat n (many_step d) (acc, bs) =
  match p_many_nat d n bs with Some (l, r) => Some (rev l ++ acc, r) | None => None end.
Proof.
  induction n as [|n IH]; intros acc bs; cbn [iter_nat p_many_nat]; [reflexivity|].
  unfold many_step at 1. cbn [fst snd]. destruct (d bs) as [[x r]|]; [|reflexivity].
  rewrite IH. destruct (p_many_nat d n r) as [[l r']|]; [|reflexivity].
  cbn [rev]. rewrite <- app_assoc. reflexivity.
Qed.
(** the binary-count loop is the structural loop on [N.to_nat count] *)
Theorem p_many_eq_nat {A} (d : dec A) n bs : p_many d n bs = p_many_nat d (N.to_nat n) bs.
Proof.
  destruct n as [|p]; [reflexivity|]. unfold p_many. rewrite iter_pos_nat, iter_many_nat.
  cbn [N.to_nat]. destruct (p_many_nat d (Pos.to_nat p) bs) as [[l r]|]; [|reflexivity].
  rewrite app_nil_r, rev_append_rev, app_nil_r, rev_involutive. reflexivity.
Qed.

Lemma RT_many_nat {A} (o : A -> list N) d P : RT o d P ->
  forall l rest, Forall P l -> p_many_nat d (length l) (out_list o l ++ rest) = Some (l, rest).
Proof.
  intros R. induction l as [|x l IH]; intros rest F; [reflexivity|].
  inversion F as [|? ? Px Fl]; subst. unfold out_list. cbn [length flat_map p_many_nat].
  rewrite <- app_assoc. rewrite (R x _ Px). fold (out_list o l). rewrite (IH _ Fl). reflexivity.
Qed.
Lemma RT_many {A} (o : A -> list N) d P : RT o d P ->
  forall l rest, Forall P l -> p_many d (N.of_nat (length l)) (out_list o l ++ rest) = Some (l, rest).
Proof. intros R l rest F. rewrite p_many_eq_nat, Nat2N.id. apply RT_many_nat with (P := P); auto. Qed.

(** ** primitives *)
Theorem leb_u16_roundtrip_thm n rest : n < 2 ^ 16 -> decode_u16 (uenc 3 n ++ rest) = Some (n, rest).
Proof.
  intros H. unfold decode_u16. change 3%nat with (S 2). rewrite uread_uenc.
  - cbn [N.add]. rewrite N.pow_0_r, N.mul_1_r. rewrite (proj2 (N.ltb_lt n (2 ^ 16)) H). reflexivity.
  - change (7 * N.of_nat 3) with 21. assert (2 ^ 16 < 2 ^ 21) by (apply N.pow_lt_mono_r; lia). lia.
  - rewrite N.pow_0_r, N.mul_1_r. assert (2 ^ 16 < 2 ^ 64) by (apply N.pow_lt_mono_r; lia). lia.
  - lia.
Qed.
Theorem decode_u16_bounded bs v r : decode_u16 bs = Some (v, r) ->
  v < 2 ^ 16 /\ exists pre, bs = pre ++ r /\ (1 <= length pre <= 3)%nat.
Proof.
  unfold decode_u16. destruct (uread 3 bs 0 0) as [[v' r']|] eqn:E; [|discriminate].
  destruct (N.ltb_spec v' (2 ^ 16)); [|discriminate]. intros H'; inversion H'; subst.
  split; auto. eapply uread_bounded; eauto.
Qed.

Lemma RT_u16 : RT out_u16 decode_u16 wf_u16.
Proof. intros n rest H. apply leb_u16_roundtrip_thm. exact H. Qed.
Lemma RT_u32 : RT out_u32 decode_u32 wf_u32.
Proof. intros n rest H. apply leb_u32_roundtrip_thm. exact H. Qed.
Lemma RT_i32 : RT out_i32 decode_s32 wf_i32.
Proof. intros n rest H. apply leb_s32_roundtrip_thm. exact H. Qed.
Lemma RT_i64 : RT out_i64 decode_s64 wf_i64.
Proof. intros n rest H. apply leb_s64_roundtrip_thm. exact H. Qed.

(** running a [bind] whose first parser is known to succeed *)
Lemma bind_ok {A B} (d : dec A) (f : A -> dec B) bs a r : d bs = Some (a, r) -> bind d f bs = f a r.
Proof. intros H. unfold bind. rewrite H. reflexivity. Qed.

(** [rt L]: the goal is [bind d f (o a ++ r) = _] and [L : RT o d P]; leaves [f a r = _] and, unless
    [auto] proves it, [P a] *)
Ltac rt L :=
  rewrite <- ?app_assoc;
  match goal with
  | |- bind ?d ?f (?o ?a ++ ?r) = _ => rewrite (bind_ok d f (o a ++ r) a r); [cbv beta | apply L; auto]
  end.

Lemma RT_vec {A} (o : A -> list N) d P : RT o d P -> RT (out_vec o) (p_vec d) (fun l => wf_len l /\ Forall P l).
Proof.
  intros R l rest [L F]. unfold p_vec, out_vec. rt RT_u32. apply RT_many with (P := P); auto.
Qed.

Lemma firstn_length_app {A} (l r : list A) : firstn (length l) (l ++ r) = l.
Proof. induction l as [|x l IH]; cbn [length firstn app]; [destruct r; reflexivity|]. rewrite IH. reflexivity. Qed.
Lemma skipn_length_app {A} (l r : list A) : skipn (length l) (l ++ r) = r.
Proof. induction l as [|x l IH]; cbn [length skipn app]; auto. Qed.

Lemma RT_bytes : RT out_bytes p_bytes wf_len.
Proof.
  intros l rest L. unfold p_bytes, out_bytes. rt RT_u32. unfold p_take.
  rewrite (proj2 (N.leb_le _ _)) by (rewrite app_length; lia).
  rewrite Nat2N.id, firstn_length_app, skipn_length_app. reflexivity.
Qed.

Lemma RT_option {A} (o : A -> list N) d P : RT o d P -> RT (out_option o) (p_option d) (wf_opt P).
Proof.
  intros R [v|] rest W; unfold p_option, out_option; cbn [app]; unfold bind at 1, p_byte.
  - change (1 =? 0) with false. change (1 =? 1) with true. cbv iota.
    rewrite (bind_ok _ _ _ _ _ (R v rest W)). reflexivity.
  - reflexivity.
Qed.

(** ** types *)
Lemma valtype_of_byte_byte t : valtype_of_byte (valtype_byte t) = Some t.
Proof. destruct t; reflexivity. Qed.
Lemma RT_valtype : RT out_valtype p_valtype (fun _ => True).
Proof. intros t rest _. destruct t; reflexivity. Qed.
Lemma RT_valtype1 t rest : p_valtype (valtype_byte t :: rest) = Some (t, rest).
Proof. destruct t; reflexivity. Qed.
Lemma RT_blocktype : RT out_blocktype p_blocktype (fun _ => True).
Proof. intros [[|]|] rest _; reflexivity. Qed.

Lemma valtypes_of_bytes_map ts : valtypes_of_bytes (map valtype_byte ts) = Some ts.
Proof.
  induction ts as [|t ts IH]; [reflexivity|]. cbn [map valtypes_of_bytes].
  rewrite valtype_of_byte_byte, IH. reflexivity.
Qed.
Lemma RT_valtypes : RT out_valtypes p_valtypes wf_len.
Proof.
  intros ts rest L. unfold p_valtypes, out_valtypes.
  rt RT_bytes; [|unfold wf_len; rewrite map_length; exact L].
  rewrite valtypes_of_bytes_map. reflexivity.
Qed.

Lemma RT_functype : RT out_functype p_functype wf_functype.
Proof.
  intros [ps r] rest W. unfold wf_functype in W. cbn [ft_params] in W.
  unfold p_functype, out_functype. cbn [ft_params ft_result app].
  unfold bind at 1, p_byte. rewrite N.eqb_refl.
  rt (RT_vec out_valtype p_valtype (fun _ => True) RT_valtype);
    [|split; [exact W|apply Forall_forall; auto]].
  destruct r as [t|].
  - change (out_option out_valtype (Some t) ++ rest) with (out_vec out_valtype [t] ++ rest).
    rt (RT_vec out_valtype p_valtype (fun _ => True) RT_valtype); [reflexivity|].
    split; [reflexivity|auto].
  - change (out_option out_valtype None ++ rest) with (out_vec out_valtype (@nil valtype) ++ rest).
    rt (RT_vec out_valtype p_valtype (fun _ => True) RT_valtype); [reflexivity|].
    split; [reflexivity|auto].
Qed.

(** [Name] *)
Lemma forallb_iff {A} (p : A -> bool) (P : A -> Prop) :
  (forall x, p x = true <-> P x) -> forall l, forallb p l = true <-> Forall P l.
Proof.
  intros H. induction l as [|x l IH]; cbn [forallb].
  - split; auto.
  - rewrite andb_true_iff, H, IH. split.
    + intros [? ?]. constructor; auto.
    + intros F. inversion F; auto.
Qed.
Lemma name_ok_iff l : name_ok l = true <-> wf_name l.
Proof.
  unfold name_ok, wf_name. rewrite andb_true_iff, Nat.leb_le.
  rewrite (forallb_iff _ (fun b => b < 128)); [reflexivity|]. intros x. apply N.ltb_lt.
Qed.
Lemma wf_name_len l : wf_name l -> wf_len l.
Proof. intros [L _]. unfold wf_len. change (2 ^ 32) with 4294967296. lia. Qed.
Lemma RT_name : RT out_name p_name wf_name.
Proof.
  intros l rest W. unfold p_name, out_name. rt RT_bytes; [|apply wf_name_len; exact W].
  rewrite (proj2 (name_ok_iff l) W). reflexivity.
Qed.

(** ** structures *)
Lemma RT_import : RT out_import p_import wf_import.
Proof.
  intros [m i t] rest (Wm & Wi & Wt). cbn [si_mod si_item si_ty] in *.
  unfold p_import, out_import. cbn [si_mod si_item si_ty].
  rt RT_name. rt RT_name. rt RT_functype. reflexivity.
Qed.

Lemma RT_local : RT out_local p_local wf_local.
Proof.
  intros [m t] rest W. unfold wf_local in W. cbn [sl_mult] in W.
  unfold p_local, out_local. cbn [sl_mult sl_ty].
  rt RT_u16. cbn [app]. unfold bind. rewrite RT_valtype1. reflexivity.
Qed.

Lemma RT_data : RT out_data p_data wf_data.
Proof.
  intros [o i] rest (Wo & Wi & _). cbn [sd_offset sd_init] in *.
  unfold p_data, out_data. cbn [sd_offset sd_init].
  rt RT_i32. rt RT_bytes. reflexivity.
Qed.

Lemma RT_memory : RT out_memory p_memory wf_memory.
Proof.
  intros [i m d] rest (Wi & Wm & Wl & Wd). cbn [sm_init sm_max sm_data] in *.
  unfold p_memory, out_memory. cbn [sm_init sm_max sm_data].
  rt RT_u32. rt RT_u32. rt (RT_vec _ _ _ RT_data). reflexivity.
Qed.

Lemma RT_ginit : RT out_ginit p_ginit wf_ginit.
Proof.
  intros [z|z] rest W; unfold p_ginit, out_ginit; cbn [app wf_ginit] in *; unfold bind at 1, p_byte.
  - change (0 =? 0) with true. cbv iota. rt RT_i32. reflexivity.
  - change (1 =? 0) with false. change (1 =? 1) with true. cbv iota. rt RT_i64. reflexivity.
Qed.

Lemma RT_export : RT out_export p_export wf_export.
Proof.
  intros [n i] rest (Wn & Wi). cbn [fst snd] in *.
  unfold p_export, out_export. cbn [fst snd].
  rt RT_name. rt RT_u32. reflexivity.
Qed.

Lemma RT_func : RT out_func p_func wf_func.
Proof.
  intros [ti rt ps nl ls nr cs code] rest (W1 & W2 & W3 & W4 & W5 & W6 & W7 & _).
  cbn [sf_type_idx sf_return sf_params sf_num_locals sf_locals sf_num_registers sf_constants sf_code] in *.
  unfold p_func, out_func.
  cbn [sf_type_idx sf_return sf_params sf_num_locals sf_locals sf_num_registers sf_constants sf_code].
  rt RT_u32. rt RT_blocktype. rt RT_valtypes. rt RT_u32. rt (RT_vec _ _ _ RT_local).
  rt RT_u32. rt (RT_vec _ _ _ RT_i64). rt RT_bytes. reflexivity.
Qed.

(** ** the export map *)
Lemma ins_last x : forall l, Forall (fun y => lex_lt (fst y) (fst x) = true) l -> ins x l = Some (l ++ [x]).
Proof.
  induction l as [|y l IH]; intros F; [reflexivity|].
  inversion F as [|? ? Hy Fl]; subst. cbn [ins app]. rewrite Hy, (IH Fl). reflexivity.
Qed.
Lemma normalise_from_sorted : forall l acc,
  (forall y, In y acc -> Forall (fun x => lex_lt (fst y) (fst x) = true) l) -> sorted_names l ->
  fold_left (fun a x => match a with Some m => ins x m | None => None end) l (Some acc) = Some (acc ++ l).
Proof.
  induction l as [|x l IH]; intros acc Hacc Hs; cbn [fold_left].
  - rewrite app_nil_r. reflexivity.
  - destruct Hs as [Hx Hl]. rewrite ins_last.
    + rewrite IH; [rewrite <- app_assoc; reflexivity| |exact Hl].
      intros y Hy. apply in_app_or in Hy. destruct Hy as [Hy|[<-|[]]]; [|exact Hx].
      specialize (Hacc y Hy). inversion Hacc; assumption.
    + apply Forall_forall. intros y Hy. specialize (Hacc y Hy). inversion Hacc; assumption.
Qed.
Lemma normalise_sorted l : sorted_names l -> normalise l = Some l.
Proof. intros H. unfold normalise. rewrite normalise_from_sorted; auto. intros y []. Qed.

Lemma sorted_names_FOP l :
  sorted_names l <-> ForallOrdPairs (fun x y => lex_lt (fst x) (fst y) = true) l.
Proof.
  induction l as [|x l IH]; cbn [sorted_names].
  - split; [constructor|auto].
  - rewrite IH. split.
    + intros [? ?]. constructor; assumption.
    + intros F. inversion F; subst. split; assumption.
Qed.

(** ** the artifact *)
Theorem artifact_roundtrip_thm : forall a rest,
  wf_artifact a -> parse_artifact (output_artifact a ++ rest) = Some (a, rest).
Proof.
  intros [imports types table memory globals exports code] rest
         ((Wi1 & Wi2) & Wt & Wtab & Wmem & Wg & (We1 & We2 & We3) & Wc).
  cbn [sa_imports sa_types sa_table sa_memory sa_globals sa_exports sa_code] in *.
  unfold parse_artifact, output_artifact.
  cbn [sa_imports sa_types sa_table sa_memory sa_globals sa_exports sa_code app].
  unfold bind at 1, p_byte. rewrite N.eqb_refl.
  rt RT_u16.
  rewrite <- ?app_assoc. rewrite (bind_ok _ _ _ _ _ (RT_many _ _ _ RT_import imports _ Wi2)). cbv beta.
  rt (RT_vec _ _ _ RT_functype).
  rt (RT_vec _ _ _ (RT_option _ _ _ RT_u32)).
  rt (RT_option _ _ _ RT_memory).
  rt (RT_vec _ _ _ RT_ginit).
  rt (RT_vec _ _ _ RT_export).
  rewrite (normalise_sorted _ We3).
  rt (RT_vec _ _ _ RT_func). reflexivity.
Qed.

Theorem artifact_reserialise_identical_thm : forall a rest, wf_artifact a ->
  exists a', parse_artifact (output_artifact a ++ rest) = Some (a', rest) /\ output_artifact a' = output_artifact a.
Proof. intros a rest W. exists a. split; [apply artifact_roundtrip_thm; exact W|reflexivity]. Qed.

Theorem artifact_output_injective_thm : forall a b,
  wf_artifact a -> wf_artifact b -> output_artifact a = output_artifact b -> a = b.
Proof.
  intros a b Wa Wb E.
  pose proof (artifact_roundtrip_thm a [] Wa) as Ha. pose proof (artifact_roundtrip_thm b [] Wb) as Hb.
  rewrite E, Hb in Ha. inversion Ha. reflexivity.
Qed.

(** ** the boolean well-formedness check decides [wf_artifact] *)
Lemma u16b_iff n : u16b n = true <-> wf_u16 n. Proof. apply N.ltb_lt. Qed.
Lemma u32b_iff n : u32b n = true <-> wf_u32 n. Proof. apply N.ltb_lt. Qed.
Lemma i32b_iff z : i32b z = true <-> wf_i32 z.
Proof. unfold i32b, wf_i32. rewrite andb_true_iff, Z.leb_le, Z.ltb_lt. reflexivity. Qed.
Lemma i64b_iff z : i64b z = true <-> wf_i64 z.
Proof. unfold i64b, wf_i64. rewrite andb_true_iff, Z.leb_le, Z.ltb_lt. reflexivity. Qed.
Lemma lenb_iff {A} (l : list A) : lenb l = true <-> wf_len l. Proof. apply N.ltb_lt. Qed.
Lemma bytesb_iff l : bytesb l = true <-> wf_bytes l.
Proof.
  unfold bytesb, wf_bytes. rewrite andb_true_iff, lenb_iff.
  rewrite (forallb_iff _ (fun b => b < 256)); [reflexivity|]. intros x. apply N.ltb_lt.
Qed.
Lemma functypeb_iff t : functypeb t = true <-> wf_functype t. Proof. apply lenb_iff. Qed.
Lemma importb_iff i : importb i = true <-> wf_import i.
Proof. unfold importb, wf_import. rewrite !andb_true_iff, !name_ok_iff, functypeb_iff. reflexivity. Qed.
Lemma localb_iff l : localb l = true <-> wf_local l. Proof. apply u16b_iff. Qed.
Lemma funcb_iff f : funcb f = true <-> wf_func f.
Proof.
  unfold funcb, wf_func. rewrite !andb_true_iff, !u32b_iff, !lenb_iff, bytesb_iff.
  rewrite (forallb_iff _ _ localb_iff), (forallb_iff _ _ i64b_iff). reflexivity.
Qed.
Lemma ginitb_iff g : ginitb g = true <-> wf_ginit g.
Proof. destruct g; [apply i32b_iff|apply i64b_iff]. Qed.
Lemma datab_iff d : datab d = true <-> wf_data d.
Proof. unfold datab, wf_data. rewrite andb_true_iff, i32b_iff, bytesb_iff. reflexivity. Qed.
Lemma memoryb_iff m : memoryb m = true <-> wf_memory m.
Proof.
  unfold memoryb, wf_memory. rewrite !andb_true_iff, !u32b_iff, lenb_iff, (forallb_iff _ _ datab_iff).
  reflexivity.
Qed.
Lemma optb_iff {A} (p : A -> bool) (P : A -> Prop) : (forall x, p x = true <-> P x) ->
  forall o, optb p o = true <-> wf_opt P o.
Proof. intros H [x|]; cbn [optb wf_opt]; [apply H|split; auto]. Qed.
Lemma exportb_iff e : exportb e = true <-> wf_export e.
Proof. unfold exportb, wf_export. rewrite andb_true_iff, name_ok_iff, u32b_iff. reflexivity. Qed.
Lemma sorted_namesb_iff l : sorted_namesb l = true <-> sorted_names l.
Proof.
  induction l as [|x l IH]; cbn [sorted_namesb sorted_names]; [split; auto|].
  rewrite andb_true_iff, IH.
  rewrite (forallb_iff _ (fun y => lex_lt (fst x) (fst y) = true)); [reflexivity|]. intros y. reflexivity.
Qed.
Theorem wf_artifactb_iff a : wf_artifactb a = true <-> wf_artifact a.
Proof.
  unfold wf_artifactb, wf_artifact.
  rewrite !andb_true_iff, !lenb_iff, u16b_iff, sorted_namesb_iff.
  rewrite (forallb_iff _ _ importb_iff), (forallb_iff _ _ functypeb_iff),
          (forallb_iff _ _ (optb_iff _ _ u32b_iff)), (optb_iff _ _ memoryb_iff),
          (forallb_iff _ _ ginitb_iff), (forallb_iff _ _ exportb_iff), (forallb_iff _ _ funcb_iff).
  reflexivity.
Qed.

(** ** the parser is not byte-canonical on arbitrary input: the import count 0 written over-long as
    [0x80; 0x00] is accepted and re-serialises to the short form.  Canonicity (re-serialisation is
    byte-identical) therefore holds for serialised artifacts, not for every accepted byte string. *)
Definition empty_artifact : s_artifact :=
  {| sa_imports := []; sa_types := []; sa_table := []; sa_memory := None; sa_globals := [];
     sa_exports := []; sa_code := [] |}.
Example artifact_overlong_accepted_ex :
  let bs := [255; 0x80; 0x00; 0; 0; 0; 0; 0; 0] in
  parse_artifact bs = Some (empty_artifact, []) /\ output_artifact empty_artifact <> bs
  /\ output_artifact empty_artifact = [255; 0; 0; 0; 0; 0; 0; 0].
Proof. cbv zeta. split; [vm_compute; reflexivity|]. split; [vm_compute; discriminate|vm_compute; reflexivity]. Qed.

(** a declared element count of 2^32 - 1 on a short input fails at the first missing element; the
    count is neither materialised nor used to allocate *)
Example artifact_huge_count_ex :
  parse_artifact [255; 0; 255; 255; 255; 255; 15] = None /\
  parse_artifact [255; 0; 0; 0; 0; 0; 0; 255; 255; 255; 255; 15; 1] = None.
Proof. split; vm_compute; reflexivity. Qed.

(** ** non-vacuity: a non-trivial well-formed artifact *)
Definition sample_artifact : s_artifact :=
  {| sa_imports := [ {| si_mod := [99; 111; 110; 99; 111; 114; 100; 105; 117; 109];
                        si_item := [103; 101; 116];
                        si_ty := {| ft_params := [T_i32; T_i64]; ft_result := Some T_i32 |} |} ];
     sa_types := [ {| ft_params := []; ft_result := None |};
                   {| ft_params := [T_i64; T_i32; T_i32]; ft_result := Some T_i64 |} ];
     sa_table := [Some 1; None; Some 4294967295];
     sa_memory := Some {| sm_init := 1; sm_max := 32;
                          sm_data := [ {| sd_offset := (-8)%Z; sd_init := [0; 255; 128; 7] |} ] |};
     sa_globals := [GI32 (-1)%Z; GI64 (-9223372036854775808)%Z; GI32 2147483647%Z; GI64 64%Z];
     sa_exports := [ ([105; 110; 105; 116], 1); ([105; 110; 105; 116; 95; 97], 300) ];
     sa_code := [ {| sf_type_idx := 1; sf_return := Some T_i64; sf_params := [T_i64; T_i32; T_i32];
                     sf_num_locals := 5;
                     sf_locals := [ {| sl_mult := 3; sl_ty := T_i32 |}; {| sl_mult := 65535; sl_ty := T_i64 |} ];
                     sf_num_registers := 200;
                     sf_constants := [(-3)%Z; 9223372036854775807%Z; (-65)%Z; 0%Z];
                     sf_code := [1; 0; 200; 255; 11] |} ] |}.
Example artifact_nonvacuous_ex :
  wf_artifact sample_artifact /\
  parse_artifact (output_artifact sample_artifact) = Some (sample_artifact, []) /\
  (length (output_artifact sample_artifact) = 131)%nat.
Proof.
  split; [apply wf_artifactb_iff; vm_compute; reflexivity|]. split; vm_compute; reflexivity.
Qed.

(** ** the zero-copy view: parsing into slices of the input and reading the slices back is parsing

    Every parser leaves a suffix of its input ([Sfx]), so at every point the remaining bytes [bs]
    satisfy [input = pre ++ bs], the position is [length input - length bs] and
    [input[pos .. pos + n]] is [firstn n bs]. *)
Definition Sfx {A} (d : dec A) : Prop := forall bs a r, d bs = Some (a, r) -> exists pre, bs = pre ++ r.

Lemma Sfx_ret {A} (a : A) : Sfx (ret a).
Proof. intros bs a' r H. inversion H; subst. exists []. reflexivity. Qed.
Lemma Sfx_fail {A} : Sfx (@fail A).
Proof. intros bs a r H. discriminate. Qed.
Lemma Sfx_bind {A B} (d : dec A) (k : A -> dec B) : Sfx d -> (forall a, Sfx (k a)) -> Sfx (bind d k).
Proof.
  intros Hd Hk bs b r. unfold bind. destruct (d bs) as [[a r1]|] eqn:E; [|discriminate]. intros H.
  destruct (Hd _ _ _ E) as [p1 ->]. destruct (Hk _ _ _ _ H) as [p2 ->].
  exists (p1 ++ p2). rewrite <- app_assoc. reflexivity.
Qed.
Lemma Sfx_byte : Sfx p_byte.
Proof. intros [|b t] a r H; inversion H; subst. exists [a]. reflexivity. Qed.
Lemma Sfx_u16 : Sfx decode_u16.
Proof. intros bs a r H. destruct (decode_u16_bounded _ _ _ H) as (_ & pre & -> & _). exists pre. reflexivity. Qed.
Lemma Sfx_u32 : Sfx decode_u32.
Proof. intros bs a r H. destruct (decode_u32_bounded _ _ _ H) as (_ & pre & -> & _). exists pre. reflexivity. Qed.
Lemma Sfx_s32 : Sfx decode_s32.
Proof. intros bs a r H. destruct (decode_s32_bounded _ _ _ H) as (_ & pre & -> & _). exists pre. reflexivity. Qed.
Lemma Sfx_s64 : Sfx decode_s64.
Proof. intros bs a r H. destruct (decode_s64_bounded _ _ _ H) as (pre & -> & _). exists pre. reflexivity. Qed.
Lemma Sfx_many_nat {A} (d : dec A) : Sfx d -> forall n, Sfx (p_many_nat d n).
Proof.
  intros Hd. induction n as [|n IH]; intros bs l r; cbn [p_many_nat].
  - intros H. inversion H; subst. exists []. reflexivity.
  - destruct (d bs) as [[x r1]|] eqn:E; [|discriminate].
    destruct (p_many_nat d n r1) as [[l' r2]|] eqn:E2; [|discriminate].
    intros H. inversion H; subst. destruct (Hd _ _ _ E) as [p1 ->]. destruct (IH _ _ _ E2) as [p2 ->].
    exists (p1 ++ p2). rewrite <- app_assoc. reflexivity.
Qed.
Lemma Sfx_many {A} (d : dec A) n : Sfx d -> Sfx (p_many d n).
Proof. intros H bs l r. rewrite p_many_eq_nat. apply Sfx_many_nat. exact H. Qed.
Lemma Sfx_vec {A} (d : dec A) : Sfx d -> Sfx (p_vec d).
Proof. intros H. unfold p_vec. apply Sfx_bind; [apply Sfx_u32|intros n; apply Sfx_many; exact H]. Qed.
Lemma Sfx_take n : Sfx (p_take n).
Proof.
  intros bs a r. unfold p_take. destruct (n <=? N.of_nat (length bs)); [|discriminate].
  intros H. inversion H; subst. exists (firstn (N.to_nat n) bs). symmetry. apply firstn_skipn.
Qed.
#[local] Hint Resolve Sfx_byte Sfx_u16 Sfx_u32 Sfx_s32 Sfx_s64 Sfx_many Sfx_vec Sfx_take : sfx.

Ltac sfx_tac :=
  repeat first
    [ apply Sfx_ret | apply Sfx_fail | assumption | solve [auto with sfx]
    | match goal with |- Sfx (if ?c then _ else _) => destruct c end
    | match goal with |- Sfx (match ?x with _ => _ end) => destruct x end
    | apply Sfx_bind; [|intros ?] ].

Lemma Sfx_bytes : Sfx p_bytes. Proof. unfold p_bytes. sfx_tac. Qed.
#[local] Hint Resolve Sfx_bytes : sfx.
Lemma Sfx_option {A} (d : dec A) : Sfx d -> Sfx (p_option d). Proof. intros H. unfold p_option. sfx_tac. Qed.
Lemma Sfx_valtype : Sfx p_valtype. Proof. unfold p_valtype. sfx_tac. Qed.
Lemma Sfx_blocktype : Sfx p_blocktype. Proof. unfold p_blocktype. sfx_tac. Qed.
#[local] Hint Resolve Sfx_option Sfx_valtype Sfx_blocktype : sfx.
Lemma Sfx_valtypes : Sfx p_valtypes. Proof. unfold p_valtypes. sfx_tac. Qed.
Lemma Sfx_functype : Sfx p_functype. Proof. unfold p_functype. sfx_tac. Qed.
Lemma Sfx_name : Sfx p_name. Proof. unfold p_name. sfx_tac. Qed.
#[local] Hint Resolve Sfx_valtypes Sfx_functype Sfx_name : sfx.
Lemma Sfx_import : Sfx p_import. Proof. unfold p_import. sfx_tac. Qed.
Lemma Sfx_local : Sfx p_local. Proof. unfold p_local. sfx_tac. Qed.
Lemma Sfx_data : Sfx p_data. Proof. unfold p_data. sfx_tac. Qed.
#[local] Hint Resolve Sfx_import Sfx_local Sfx_data : sfx.
Lemma Sfx_memory : Sfx p_memory. Proof. unfold p_memory. sfx_tac. Qed.
Lemma Sfx_ginit : Sfx p_ginit. Proof. unfold p_ginit. sfx_tac. Qed.
Lemma Sfx_export : Sfx p_export. Proof. unfold p_export. sfx_tac. Qed.
Lemma Sfx_func : Sfx p_func. Proof. unfold p_func. sfx_tac. Qed.
#[local] Hint Resolve Sfx_memory Sfx_ginit Sfx_export Sfx_func : sfx.
(** in particular the whole parser consumes a prefix and returns the rest unchanged *)
Theorem parse_artifact_suffix_thm : Sfx parse_artifact.
Proof. unfold parse_artifact. sfx_tac. Qed.

Definition suffix (input bs : list N) : Prop := exists pre, input = pre ++ bs.
(** [View input f db d]: on every suffix of [input], [db] followed by [f] is [d] *)
Definition View {A B} (input : list N) (f : B -> A) (db : dec B) (d : dec A) : Prop :=
  forall bs, suffix input bs -> option_map (fun '(b, r) => (f b, r)) (db bs) = d bs.

Lemma suffix_step input bs pre r : suffix input bs -> bs = pre ++ r -> suffix input r.
Proof. intros [p ->] ->. exists (p ++ pre). rewrite <- app_assoc. reflexivity. Qed.

Lemma View_ret {A B} input (f : B -> A) b a : f b = a -> View input f (ret b) (ret a).
Proof. intros <- bs _. reflexivity. Qed.
Lemma View_fail {A B} input (f : B -> A) : View input f fail fail.
Proof. intros bs _. reflexivity. Qed.
Lemma View_bind {A1 B1 A2 B2} input (f1 : B1 -> A1) (f2 : B2 -> A2) db d kb k :
  View input f1 db d -> Sfx d -> (forall b, View input f2 (kb b) (k (f1 b))) ->
  View input f2 (bind db kb) (bind d k).
Proof.
  intros H1 Hs H2 bs Hb. unfold bind. specialize (H1 bs Hb).
  destruct (db bs) as [[b r]|]; cbn [option_map] in H1; rewrite <- H1; [|reflexivity].
  apply H2. destruct (Hs _ _ _ (eq_sym H1)) as [pre E]. eapply suffix_step; eauto.
Qed.
Lemma View_bind_same {A1 A2 B2} input (f2 : B2 -> A2) (d : dec A1) kb k :
  Sfx d -> (forall a, View input f2 (kb a) (k a)) -> View input f2 (bind d kb) (bind d k).
Proof.
  intros Hs H2. apply (View_bind input (fun x => x) f2 d d kb k); auto.
  intros bs _. destruct (d bs) as [[a r]|]; reflexivity.
Qed.
Lemma View_ext {A B} input (f : B -> A) db d d' :
  (forall bs, d bs = d' bs) -> View input f db d' -> View input f db d.
Proof. intros E H bs Hb. rewrite E. apply H. exact Hb. Qed.
Lemma bind_assoc {A B C} (d : dec A) (k1 : A -> dec B) (k2 : B -> dec C) bs :
  bind (bind d k1) k2 bs = bind d (fun a => bind (k1 a) k2) bs.
Proof. unfold bind. destruct (d bs) as [[a r]|]; reflexivity. Qed.

Lemma View_many_nat {A B} input (f : B -> A) db d : View input f db d -> Sfx d ->
  forall n, View input (map f) (p_many_nat db n) (p_many_nat d n).
Proof.
  intros H Hs. induction n as [|n IH]; intros bs Hb; cbn [p_many_nat]; [reflexivity|].
  pose proof (H bs Hb) as E. destruct (db bs) as [[b r]|]; cbn [option_map] in E; rewrite <- E; [|reflexivity].
  destruct (Hs _ _ _ (eq_sym E)) as [pre Ep].
  pose proof (IH r (suffix_step _ _ _ _ Hb Ep)) as E2.
  destruct (p_many_nat db n r) as [[l r']|]; cbn [option_map] in E2; rewrite <- E2; reflexivity.
Qed.
Lemma View_vec {A B} input (f : B -> A) db d : View input f db d -> Sfx d ->
  View input (map f) (p_vec db) (p_vec d).
Proof.
  intros H Hs. unfold p_vec. apply View_bind_same; [apply Sfx_u32|]. intros n bs Hb.
  rewrite !p_many_eq_nat. exact (View_many_nat input f db d H Hs (N.to_nat n) bs Hb).
Qed.

Lemma slice_suffix input bs n : suffix input bs ->
  slice input (N.of_nat (length input) - N.of_nat (length bs), n) = firstn (N.to_nat n) bs.
Proof.
  intros [pre ->]. unfold slice. cbn [fst snd].
  rewrite app_length, Nat2N.inj_add, N.add_sub, Nat2N.id, skipn_length_app. reflexivity.
Qed.

Lemma View_slice input :
  View input (slice input) (p_slice (N.of_nat (length input))) p_bytes.
Proof.
  unfold p_slice, p_bytes. apply View_bind_same; [apply Sfx_u32|]. intros n bs Hb.
  unfold p_slice_raw, p_take. destruct (n <=? N.of_nat (length bs)); [|reflexivity].
  cbn [option_map]. cbv beta iota. rewrite slice_suffix by exact Hb. reflexivity.
Qed.
Lemma View_valtype_slice input :
  View input (slice_valtypes input) (p_valtype_slice (N.of_nat (length input))) p_valtypes.
Proof.
  unfold p_valtype_slice, p_valtypes, p_bytes.
  eapply View_ext; [intros bs; apply bind_assoc|].
  apply View_bind_same; [apply Sfx_u32|]. intros n bs Hb.
  unfold p_valtype_slice_raw, bind, p_take. destruct (n <=? N.of_nat (length bs)); [|reflexivity].
  destruct (valtypes_of_bytes (firstn (N.to_nat n) bs)) as [ts|] eqn:E; [|reflexivity].
  cbn [option_map]. cbv beta iota. unfold slice_valtypes. rewrite slice_suffix by exact Hb.
  rewrite E. reflexivity.
Qed.

Lemma View_func input : View input (resolve_func input) (p_func_b (N.of_nat (length input))) p_func.
Proof.
  unfold p_func_b, p_func.
  apply View_bind_same; [sfx_tac|intros ti].
  apply View_bind_same; [sfx_tac|intros rt].
  apply (View_bind input (slice_valtypes input)); [apply View_valtype_slice|sfx_tac|intros ps].
  apply View_bind_same; [sfx_tac|intros nl].
  apply View_bind_same; [sfx_tac|intros ls].
  apply View_bind_same; [sfx_tac|intros nr].
  apply View_bind_same; [sfx_tac|intros cs].
  apply (View_bind input (slice input)); [apply View_slice|sfx_tac|intros code].
  apply View_ret. reflexivity.
Qed.

Lemma View_artifact input :
  View input (resolve input) (parse_artifact_b (N.of_nat (length input))) parse_artifact.
Proof.
  unfold parse_artifact_b, parse_artifact.
  apply View_bind_same; [sfx_tac|intros v]. destruct (v =? 255); [|apply View_fail].
  apply View_bind_same; [sfx_tac|intros ni].
  apply View_bind_same; [sfx_tac|intros imports].
  apply View_bind_same; [sfx_tac|intros types].
  apply View_bind_same; [sfx_tac|intros table].
  apply View_bind_same; [sfx_tac|intros memory].
  apply View_bind_same; [sfx_tac|intros globals].
  apply View_bind_same; [sfx_tac|intros raw].
  destruct (normalise raw) as [exports|]; [|apply View_fail].
  apply (View_bind input (map (resolve_func input))); [|sfx_tac|intros code; apply View_ret; reflexivity].
  apply View_vec; [apply View_func|sfx_tac].
Qed.

Theorem borrowed_view_eq_thm : forall bs,
  option_map (fun '(b, r) => (resolve bs b, r)) (parse_artifact_borrowed bs) = parse_artifact bs.
Proof. intros bs. unfold parse_artifact_borrowed. apply View_artifact. exists []. reflexivity. Qed.

(** the borrowed parse of a serialised well-formed artifact resolves to that artifact *)
Corollary borrowed_roundtrip_thm : forall a rest, wf_artifact a ->
  option_map (fun '(b, r) => (resolve (output_artifact a ++ rest) b, r))
             (parse_artifact_borrowed (output_artifact a ++ rest)) = Some (a, rest).
Proof. intros a rest W. rewrite borrowed_view_eq_thm. apply artifact_roundtrip_thm. exact W. Qed.

Example borrowed_nonvacuous_ex :
  match parse_artifact_borrowed (output_artifact sample_artifact ++ [7; 7]) with
  | Some (b, r) => map bf_params (ba_code b) = [(97, 3)] /\ map bf_code (ba_code b) = [(126, 5)] /\ r = [7; 7]
  | None => False
  end.
Proof. vm_compute. repeat split; reflexivity. Qed.
