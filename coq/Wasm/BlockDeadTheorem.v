(** * Stage B, extension 1, closed form: function bodies with DEAD CODE after [br] / [return] /
    [unreachable] (and [br_table]).  The fragment is [blocks_ok] / [blocks_ok_r] of the body with the dead
    instructions removed ([strip]); the theorem is about the ORIGINAL body: the code compiled from it
    (dead instructions included in the compiler's input) simulates the reference interpreter running it. *)
From Coq Require Import ZArith NArith List Lia Bool FMapPositive.
From CB Require Import Common.IntN Common.IntNProofs Wasm.Syntax Wasm.Opcodes Wasm.Sem Wasm.Compile Wasm.Machine
     Wasm.MachineLemmas Wasm.CompileLemmas Wasm.NumOpsProofs Wasm.SemProofs Wasm.SyntaxProofs Wasm.StraightProofs
     Wasm.BlockProofs Wasm.BlockInv Wasm.BlockSim Wasm.BlockSim2 Wasm.BlockTheorem Wasm.BlockDead.
Import ListNotations.
Local Open Scope Z_scope.

Definition blocks_ok_dead (nl : Z) (cx : cctx) (is : list instr) : bool := blocks_ok nl cx (strip is).
Definition blocks_ok_r_dead (nl : Z) (cx : cctx) (t : valtype) (is : list instr) : bool := blocks_ok_r nl cx t (strip is).

Lemma init_vstate_ok ret : v_unreach (init_vstate ret) = None /\ (0 < clen (init_vstate ret))%nat.
Proof. split; [reflexivity|cbn; lia]. Qed.

Theorem compile_dead_correct :
  forall (art : artifact) (mhost : nat -> list Z -> option (option Z)) (cap : N)
         (host : nat -> list val -> option memory -> host_result) (m : module) (cx : cctx)
         (is : list instr) (nl next : Z) (v' : vstate) (sF : cstate) (rest_code : list N),
    blocks_ok_dead nl cx is = true -> 0 <= nl <= next ->
    compile_ops cx (flatten_body is) (init_vstate None) (init_fstate next) = Some (v', sF) ->
    c_next sF < 2147483648 -> Z.of_nat (length (c_consts sF)) < 2147483648 ->
    Z.of_nat (length (c_out sF ++ rest_code)) < 4294967296 ->
    forall (codes : list (code_map * list Z)) (fidx : nat),
      nth_error codes fidx
        = Some (build_code (c_out sF ++ rest_code) xH (PositiveMap.empty N), map fst (c_consts sF)) ->
      forall (st : store) (locals : list val) (M : mstate) (fuel : nat),
        rel art fidx (map fst (c_consts sF)) nl (c_next sF) cap (init_fstate next) st locals [] M ->
        match exec_instr host cap m fuel st locals [] (Block None is) with
        | RNormal st' l' vs' =>
            vs' = [] /\ exists n M', nsteps art mhost codes n M = SNext M'
                       /\ rel art fidx (map fst (c_consts sF)) nl (c_next sF) cap sF st' l' [] M' /\ frame_eq M M'
        | RReturn st' vs' =>
            exists n M', nsteps art mhost codes n M = SNext M' /\ frame_eq M M' /\ ms_idx M' = fidx
              /\ code_at (build_code (c_out sF ++ rest_code) xH (PositiveMap.empty N)) (ms_pc M') [IReturn]
              /\ Forall2 repr (ms_globals M') (s_globals st') /\ mem_rel art cap (ms_mem M') (s_mem st')
              /\ match cx_return cx with
                 | Some _ => exists v vs0, vs' = v :: vs0 /\ repr (reg M' 0) v
                 | None => True
                 end
        | RTrap => exists n e, nsteps art mhost codes n M = STrap e
        | RBr _ _ _ _ => False
        | _ => True
        end.
Proof.
  intros art mhost cap host m cx is nl next v' sF rest_code Hok Hnl Hc Hn Hcs Hlen codes fidx Hcodes st locals M fuel R.
  destruct (init_vstate_ok None) as [Hu Hl].
  pose proof (strip_compile_body cx is _ _ v' sF Hu Hl Hc) as Hc2.
  rewrite <- (exec_strip_block host cap m fuel st locals [] None is).
  exact (compile_block_correct art mhost cap host m cx (strip is) nl next v' sF rest_code Hok Hnl Hc2 Hn Hcs Hlen
           codes fidx Hcodes st locals M fuel R).
Qed.

Theorem compile_dead_fn_result_correct :
  forall (art : artifact) (mhost : nat -> list Z -> option (option Z)) (cap : N)
         (host : nat -> list val -> option memory -> host_result) (m : module) (cx : cctx)
         (is : list instr) (t : valtype) (nl next : Z) (v' : vstate) (sF : cstate) (rest_code : list N),
    blocks_ok_r_dead nl cx t is = true -> 0 <= nl <= next -> 0 < next ->
    compile_ops cx (flatten_body is) (init_vstate (Some t)) (init_fstate_r next) = Some (v', sF) ->
    c_next sF < 2147483648 -> Z.of_nat (length (c_consts sF)) < 2147483648 ->
    Z.of_nat (length (c_out sF ++ rest_code)) < 4294967296 ->
    forall (codes : list (code_map * list Z)) (fidx : nat),
      nth_error codes fidx
        = Some (build_code (c_out sF ++ rest_code) xH (PositiveMap.empty N), map fst (c_consts sF)) ->
      forall (st : store) (locals : list val) (M : mstate) (fuel : nat),
        rel art fidx (map fst (c_consts sF)) nl (c_next sF) cap (init_fstate_r next) st locals [] M ->
        match exec_instr host cap m fuel st locals [] (Block (Some t) is) with
        | RNormal st' l' vs' =>
            exists v, vs' = [v] /\ exists n M', nsteps art mhost codes n M = SNext M' /\ frame_eq M M'
              /\ ms_idx M' = fidx /\ ms_pc M' = cur_off sF
              /\ Forall2 repr (ms_globals M') (s_globals st') /\ mem_rel art cap (ms_mem M') (s_mem st')
              /\ repr (reg M' 0) v
        | RReturn st' vs' =>
            exists n M', nsteps art mhost codes n M = SNext M' /\ frame_eq M M' /\ ms_idx M' = fidx
              /\ code_at (build_code (c_out sF ++ rest_code) xH (PositiveMap.empty N)) (ms_pc M') [IReturn]
              /\ Forall2 repr (ms_globals M') (s_globals st') /\ mem_rel art cap (ms_mem M') (s_mem st')
              /\ match cx_return cx with
                 | Some _ => exists v vs0, vs' = v :: vs0 /\ repr (reg M' 0) v
                 | None => True
                 end
        | RTrap => exists n e, nsteps art mhost codes n M = STrap e
        | RBr _ _ _ _ => False
        | _ => True
        end.
Proof.
  intros art mhost cap host m cx is t nl next v' sF rest_code Hok Hnl Hnx Hc Hn Hcs Hlen codes fidx Hcodes st locals M fuel R.
  destruct (init_vstate_ok (Some t)) as [Hu Hl].
  pose proof (strip_compile_body cx is _ _ v' sF Hu Hl Hc) as Hc2.
  rewrite <- (exec_strip_block host cap m fuel st locals [] (Some t) is).
  exact (compile_fn_result_correct art mhost cap host m cx (strip is) t nl next v' sF rest_code Hok Hnl Hnx Hc2 Hn Hcs Hlen
           codes fidx Hcodes st locals M fuel R).
Qed.

(** ** non-vacuity: dead code after [br] (incl. stack-polymorphic pops from the empty stack and a whole dead
    nested frame), after [return] and after [unreachable]; a dead [br_if] to a value-typed label *)
Definition dead_cx : cctx := {| cx_func_type := fun _ => None; cx_type := fun _ => None; cx_return := None |}.
Definition dead_body : list instr :=
  [ Block None
      [ Basic (BConst T_i32 1); Basic (BLocalSet 0); Basic (BBr 0);
        Basic (BBinop T_i32 Add); Basic (BLocalSet 0);
        Block (Some T_i32) [ Basic (BConst T_i32 8); Basic (BLocalGet 1); Basic (BBrIf 0); Basic BUnreachable; Basic BDrop ];
        Basic (BLocalSet 1); Basic BReturn ];
    Basic (BLocalGet 1);
    If None [ Basic (BConst T_i32 5); Basic (BLocalSet 1); Basic BReturn; Basic (BConst T_i32 6); Basic (BLocalSet 1) ]
            [ Basic BUnreachable; Basic (BLocalGet 0); Basic (BBr 1) ];
    Basic (BLocalGet 0); Basic (BLocalSet 1) ].

Lemma ex_dead :
  blocks_ok_dead 2 dead_cx dead_body = true /\ blocks_ok 2 dead_cx dead_body = false
  /\ (exists v' sF, compile_ops dead_cx (flatten_body dead_body) (init_vstate None) (init_fstate 2) = Some (v', sF)
       /\ c_bp sF = [] /\ c_stack sF = []
       /\ c_next sF < 2147483648 /\ Z.of_nat (length (c_consts sF)) < 2147483648
       /\ Z.of_nat (length (c_out sF ++ [IReturn])) < 4294967296)
  /\ (forall host cap m st,
        exec_instr host cap m 30 st [VI32 0; VI32 1] [] (Block None dead_body) = RReturn st []
        /\ exec_instr host cap m 30 st [VI32 0; VI32 0] [] (Block None dead_body) = RTrap).
Proof.
  split; [vm_compute; reflexivity|]. split; [vm_compute; reflexivity|]. split.
  - eexists _, _. split; [vm_compute; reflexivity|]. vm_compute. repeat split; congruence.
  - intros host cap m st. repeat split; vm_compute; reflexivity.
Qed.

Definition dead_fn_cx : cctx := {| cx_func_type := fun _ => None; cx_type := fun _ => None; cx_return := Some T_i32 |}.
Definition dead_fn_body : list instr :=
  [ Basic (BLocalGet 0);
    If None [ Basic (BConst T_i32 7); Basic (BBr 1); Basic (BConst T_i32 9); Basic BReturn ] [];
    Basic (BLocalGet 1); Basic BReturn; Basic BDrop; Basic (BConst T_i32 3) ].

Lemma ex_dead_fn :
  blocks_ok_r_dead 2 dead_fn_cx T_i32 dead_fn_body = true /\ blocks_ok_r 2 dead_fn_cx T_i32 dead_fn_body = false
  /\ (exists v' sF, compile_ops dead_fn_cx (flatten_body dead_fn_body) (init_vstate (Some T_i32)) (init_fstate_r 2) = Some (v', sF)
       /\ c_bp sF = []
       /\ c_next sF < 2147483648 /\ Z.of_nat (length (c_consts sF)) < 2147483648
       /\ Z.of_nat (length (c_out sF ++ [IReturn])) < 4294967296)
  /\ (forall host cap m st,
        exec_instr host cap m 30 st [VI32 1; VI32 5] [] (Block (Some T_i32) dead_fn_body) = RNormal st [VI32 1; VI32 5] [VI32 7]
        /\ exec_instr host cap m 30 st [VI32 0; VI32 5] [] (Block (Some T_i32) dead_fn_body) = RReturn st [VI32 5]).
Proof.
  split; [vm_compute; reflexivity|]. split; [vm_compute; reflexivity|]. split.
  - eexists _, _. split; [vm_compute; reflexivity|]. vm_compute. repeat split; congruence.
  - intros host cap m st. repeat split; vm_compute; reflexivity.
Qed.
