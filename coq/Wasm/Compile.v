(** * Wasm/Compile — line-by-line functional transcription of the stack-to-register
    compiler of smart-contracts/wasm-transform/src/artifact.rs ([BackPatch],
    [ProvidersStack], [DynamicLocations], [BackPatchStack], [Handler::handle_opcode])
    together with the part of the validation state machine of validate.rs that the
    compiler consumes (operand-stack HEIGHT, control frames, reachability).

    This is the IMPLEMENTATION side: it reproduces what the Rust code does, including where
    that is wrong (findings F1/F2 of DESIGN.md section 8).  It emits the same bytes, the
    same [num_registers] and the same constants vector; the C01 check compares them with
    the real compiler's output for every generated function (correspondence layer (i)).

    Only validated code is modelled: operand types are not tracked (validate.rs already
    accepted the function), only heights.  Definitions only. *)
From Coq Require Import ZArith NArith List Bool.
From CB Require Import Wasm.Syntax.
Import ListNotations.
Local Open Scope Z_scope.

(** ** InternalOpcode numbering (artifact.rs [enum InternalOpcode], [repr(u8)]) *)
Definition IUnreachable := 0%N. Definition IIf := 1%N. Definition IBr := 2%N.
Definition IBrIf := 3%N. Definition IBrTable := 4%N. Definition IBrTableCarry := 5%N.
Definition IReturn := 6%N. Definition ICall := 7%N. Definition ITickEnergy := 8%N.
Definition ICallIndirect := 9%N. Definition ISelect := 10%N.
Definition IGlobalGet := 11%N. Definition IGlobalSet := 12%N.
Definition IMemorySize := 32%N. Definition IMemoryGrow := 33%N.
Definition ICopy := 100%N.

Definition idx_of {A} (eqb : A -> A -> bool) (l : list A) (x : A) : N :=
  (fix go (l : list A) (k : N) : N :=
     match l with [] => k | y :: r => if eqb x y then k else go r (k + 1)%N end) l 0%N.

Definition relop_idx (op : relop) : N :=
  match op with Eq => 0 | Ne => 1 | LtS => 2 | LtU => 3 | GtS => 4 | GtU => 5
              | LeS => 6 | LeU => 7 | GeS => 8 | GeU => 9 end%N.
Definition binop_idx (op : binop) : N :=
  match op with Add => 0 | Sub => 1 | Mul => 2 | DivS => 3 | DivU => 4 | RemS => 5 | RemU => 6
              | And => 7 | Or => 8 | Xor => 9 | Shl => 10 | ShrS => 11 | ShrU => 12
              | Rotl => 13 | Rotr => 14 end%N.

Definition load_opcode (t : valtype) (pk : option (packsize * sx)) : N :=
  match t, pk with
  | T_i32, None => 13 | T_i64, None => 14
  | T_i32, Some (P8, SX_S) => 15 | T_i32, Some (P8, SX_U) => 16
  | T_i32, Some (P16, SX_S) => 17 | T_i32, Some (P16, SX_U) => 18
  | T_i64, Some (P8, SX_S) => 19 | T_i64, Some (P8, SX_U) => 20
  | T_i64, Some (P16, SX_S) => 21 | T_i64, Some (P16, SX_U) => 22
  | T_i64, Some (P32, SX_S) => 23 | T_i64, Some (P32, SX_U) => 24
  | T_i32, Some (P32, _) => 13
  end%N.
Definition store_opcode (t : valtype) (pk : option packsize) : N :=
  match t, pk with
  | T_i32, None => 25 | T_i64, None => 26
  | T_i32, Some P8 => 27 | T_i32, Some P16 => 28
  | T_i64, Some P8 => 29 | T_i64, Some P16 => 30 | T_i64, Some P32 => 31
  | T_i32, Some P32 => 25
  end%N.
Definition unop_opcode (t : valtype) (op : unop) : N :=
  match t, op with
  | T_i32, Clz => 56 | T_i32, Ctz => 57 | T_i32, Popcnt => 58
  | T_i64, Clz => 74 | T_i64, Ctz => 75 | T_i64, Popcnt => 76
  | T_i32, Extend8S => 95 | T_i32, Extend16S => 96
  | T_i64, Extend8S => 97 | T_i64, Extend16S => 98 | T_i64, Extend32S => 99
  | T_i32, Extend32S => 99
  end%N.
Definition binop_opcode (t : valtype) (op : binop) : N :=
  (match t with T_i32 => 59 | T_i64 => 77 end + binop_idx op)%N.
Definition relop_opcode (t : valtype) (op : relop) : N :=
  (match t with T_i32 => 35 | T_i64 => 46 end + relop_idx op)%N.
Definition eqz_opcode (t : valtype) : N := match t with T_i32 => 34 | T_i64 => 45 end%N.
Definition cvt_opcode (op : cvtop) : N :=
  match op with WrapI64 => 92 | ExtendI32S => 93 | ExtendI32U => 94 end%N.

(** ** little-endian immediates *)
Fixpoint le_bytes (k : nat) (x : Z) : list N :=
  match k with O => [] | S k' => Z.to_N (x mod 256) :: le_bytes k' (x / 256) end.
Definition u16_bytes (x : Z) := le_bytes 2 (x mod 65536).
Definition u32_bytes (x : Z) := le_bytes 4 (x mod 4294967296).
Definition i32_bytes (x : Z) := le_bytes 4 (x mod 4294967296).   (* two's complement *)

(** ** validate.rs: the state the compiler looks at *)
Record vframe := {
  vf_is_if : bool;
  vf_label : blocktype;
  vf_end : blocktype;
  vf_height : nat;
  vf_unreachable : bool
}.
Record vstate := {
  v_opds : nat;                       (* opds.stack.len() *)
  v_ctrls : list vframe;              (* head = innermost *)
  v_unreach : option nat              (* unreachable_section: index from the bottom *)
}.
Inductive reachability := Reachable | UnreachableInstruction | UnreachableFrame.

Definition v_reachability (v : vstate) : reachability :=
  match v_unreach v with
  | None => Reachable
  | Some idx => if (idx + 1 <? length (v_ctrls v))%nat then UnreachableFrame else UnreachableInstruction
  end.

Definition v_push (v : vstate) : vstate :=
  {| v_opds := S (v_opds v); v_ctrls := v_ctrls v; v_unreach := v_unreach v |}.
Definition v_pop (v : vstate) : option vstate :=
  match v_ctrls v with
  | [] => None
  | f :: _ =>
      if (v_opds v =? vf_height f)%nat then (if vf_unreachable f then Some v else None)
      else Some {| v_opds := pred (v_opds v); v_ctrls := v_ctrls v; v_unreach := v_unreach v |}
  end.
Fixpoint v_popn (n : nat) (v : vstate) : option vstate :=
  match n with O => Some v | S n' => match v_pop v with Some v' => v_popn n' v' | None => None end end.
Fixpoint v_pushn (n : nat) (v : vstate) : vstate :=
  match n with O => v | S n' => v_pushn n' (v_push v) end.
Definition bt_arity (bt : blocktype) : nat := match bt with Some _ => 1%nat | None => 0%nat end.
Definition v_push_ctrl (is_if : bool) (label end_ : blocktype) (v : vstate) : vstate :=
  {| v_opds := v_opds v;
     v_ctrls := {| vf_is_if := is_if; vf_label := label; vf_end := end_;
                   vf_height := v_opds v; vf_unreachable := false |} :: v_ctrls v;
     v_unreach := v_unreach v |}.
Definition v_pop_ctrl (v : vstate) : option (blocktype * bool * vstate) :=
  match v_ctrls v with
  | [] => None
  | f :: rest =>
      match v_popn (bt_arity (vf_end f)) v with
      | Some v1 =>
          if (v_opds v1 =? vf_height f)%nat then
            let un := match v_unreach v1 with
                      | Some idx => if (idx =? length rest)%nat then None else Some idx
                      | None => None
                      end in
            Some (vf_end f, vf_is_if f, {| v_opds := v_opds v1; v_ctrls := rest; v_unreach := un |})
          else None
      | None => None
      end
  end.
Definition v_mark_unreachable (v : vstate) : option vstate :=
  match v_ctrls v with
  | [] => None
  | f :: rest =>
      let last_idx := length rest in
      Some {| v_opds := vf_height f;
              v_ctrls := {| vf_is_if := vf_is_if f; vf_label := vf_label f; vf_end := vf_end f;
                            vf_height := vf_height f; vf_unreachable := true |} :: rest;
              v_unreach := match v_unreach v with
                           | Some idx => Some (Nat.min idx last_idx)
                           | None => Some last_idx
                           end |}
  end.

(** Module context of a function being compiled. *)
Record cctx := {
  cx_func_type : nat -> option functype;   (* ctx.get_func *)
  cx_type : nat -> option functype;        (* ctx.get_type *)
  cx_return : blocktype
}.

Definition pops_pushes (b : binstr) : nat * nat :=
  match b with
  | BNop | BTick _ => (0, 0)
  | BDrop => (1, 0) | BSelect => (3, 1)
  | BLocalGet _ => (0, 1) | BLocalSet _ => (1, 0) | BLocalTee _ => (1, 1)
  | BGlobalGet _ => (0, 1) | BGlobalSet _ => (1, 0)
  | BLoad _ _ _ => (1, 1) | BStore _ _ _ => (2, 0)
  | BMemorySize => (0, 1) | BMemoryGrow => (1, 1)
  | BConst _ _ => (0, 1)
  | BUnop _ _ => (1, 1) | BBinop _ _ => (2, 1) | BEqz _ => (1, 1) | BRelop _ _ => (2, 1) | BCvt _ => (1, 1)
  | _ => (0, 0)
  end%nat.

Definition label_type (v : vstate) (l : nat) : option blocktype :=
  match nth_error (v_ctrls v) l with Some f => Some (vf_label f) | None => None end.

(** one step of [validate] (heights only) *)
Definition vstep (cx : cctx) (v : vstate) (op : opcode) : option vstate :=
  match op with
  | OEnd =>
      match v_pop_ctrl v with
      | Some (res, _, v1) => Some (v_pushn (bt_arity res) v1)
      | None => None
      end
  | OBlock ty => Some (v_push_ctrl false ty ty v)
  | OLoop ty => Some (v_push_ctrl false None ty v)
  | OIf ty => match v_pop v with Some v1 => Some (v_push_ctrl true ty ty v1) | None => None end
  | OElse =>
      match v_pop_ctrl v with
      | Some (res, true, v1) => Some (v_push_ctrl false res res v1)
      | _ => None
      end
  | OBasic BUnreachable => v_mark_unreachable v
  | OBasic (BBr l) =>
      match label_type v l with
      | Some lt => match v_popn (bt_arity lt) v with Some v1 => v_mark_unreachable v1 | None => None end
      | None => None
      end
  | OBasic (BBrIf l) =>
      match label_type v l with
      | Some lt =>
          match v_pop v with
          | Some v1 => match v_popn (bt_arity lt) v1 with Some v2 => Some (v_pushn (bt_arity lt) v2) | None => None end
          | None => None
          end
      | None => None
      end
  | OBasic (BBrTable _ d) =>
      match label_type v d with
      | Some lt =>
          match v_pop v with
          | Some v1 => match v_popn (bt_arity lt) v1 with Some v2 => v_mark_unreachable v2 | None => None end
          | None => None
          end
      | None => None
      end
  | OBasic BReturn =>
      match last (map (fun f => Some (vf_label f)) (v_ctrls v)) None with
      | Some lt => match v_popn (bt_arity lt) v with Some v1 => v_mark_unreachable v1 | None => None end
      | None => Some v
      end
  | OBasic (BCall f) =>
      match cx_func_type cx f with
      | Some ft => match v_popn (length (ft_params ft)) v with
                   | Some v1 => Some (v_pushn (bt_arity (ft_result ft)) v1) | None => None end
      | None => None
      end
  | OBasic (BCallIndirect ti) =>
      match cx_type cx ti with
      | Some ft => match v_popn (S (length (ft_params ft))) v with
                   | Some v1 => Some (v_pushn (bt_arity (ft_result ft)) v1) | None => None end
      | None => None
      end
  | OBasic b =>
      let '(po, pu) := pops_pushes b in
      match v_popn po v with Some v1 => Some (v_pushn pu v1) | None => None end
  end.

(** ** artifact.rs: providers, dynamic locations, jump targets *)
Inductive provider := PDyn (i : Z) | PLocal (i : Z) | PConst (i : Z).
Definition provider_eqb (a b : provider) : bool :=
  match a, b with
  | PDyn x, PDyn y | PLocal x, PLocal y | PConst x, PConst y => x =? y
  | _, _ => false
  end.
Definition provider_idx (p : provider) : Z := match p with PDyn i | PLocal i | PConst i => i end.

Inductive jump_target :=
| JKnown (pos : Z)
| JUnknown (locs : list Z) (result : option provider).

Record cstate := {
  c_out : list N;
  c_bp : list jump_target;          (* BackPatchStack, head = top *)
  c_stack : list provider;          (* ProvidersStack.stack, head = top *)
  c_next : Z;                       (* DynamicLocations.next_location *)
  c_reuse : list Z;                 (* reusable_locations (BTreeSet): ascending, no duplicates *)
  c_consts : list (Z * Z);          (* constants map: (value, index), insertion order *)
  c_last : option Z                 (* last_provide_loc *)
}.

Definition set_out (s : cstate) (o : list N) : cstate :=
  {| c_out := o; c_bp := c_bp s; c_stack := c_stack s; c_next := c_next s; c_reuse := c_reuse s;
     c_consts := c_consts s; c_last := c_last s |}.
Definition set_bp (s : cstate) (b : list jump_target) : cstate :=
  {| c_out := c_out s; c_bp := b; c_stack := c_stack s; c_next := c_next s; c_reuse := c_reuse s;
     c_consts := c_consts s; c_last := c_last s |}.
Definition set_stack (s : cstate) (st : list provider) : cstate :=
  {| c_out := c_out s; c_bp := c_bp s; c_stack := st; c_next := c_next s; c_reuse := c_reuse s;
     c_consts := c_consts s; c_last := c_last s |}.
Definition set_dyn (s : cstate) (nx : Z) (ru : list Z) : cstate :=
  {| c_out := c_out s; c_bp := c_bp s; c_stack := c_stack s; c_next := nx; c_reuse := ru;
     c_consts := c_consts s; c_last := c_last s |}.
Definition set_consts (s : cstate) (cs : list (Z * Z)) : cstate :=
  {| c_out := c_out s; c_bp := c_bp s; c_stack := c_stack s; c_next := c_next s; c_reuse := c_reuse s;
     c_consts := cs; c_last := c_last s |}.
Definition set_last (s : cstate) (l : option Z) : cstate :=
  {| c_out := c_out s; c_bp := c_bp s; c_stack := c_stack s; c_next := c_next s; c_reuse := c_reuse s;
     c_consts := c_consts s; c_last := l |}.

Definition emit (s : cstate) (bs : list N) : cstate := set_out s (c_out s ++ bs).
Definition cur_off (s : cstate) : Z := Z.of_nat (length (c_out s)).
Definition push_op (s : cstate) (o : N) : cstate := emit s [o].
Definition push_loc (s : cstate) (p : provider) : cstate := emit s (i32_bytes (provider_idx p)).

Fixpoint insert_sorted (x : Z) (l : list Z) : list Z :=
  match l with
  | [] => [x]
  | y :: r => if x <? y then x :: l else if x =? y then l else y :: insert_sorted x r
  end.
Fixpoint remove_z (x : Z) (l : list Z) : list Z :=
  match l with [] => [] | y :: r => if x =? y then r else y :: remove_z x r end.

(** DynamicLocations::get — smallest reusable location first *)
Definition dyn_get (s : cstate) : Z * cstate :=
  match c_reuse s with
  | r :: rs => (r, set_dyn s (c_next s) rs)
  | [] => (c_next s, set_dyn s (c_next s + 1) [])
  end.
Definition dyn_reuse (s : cstate) (p : provider) : cstate :=
  match p with PDyn i => set_dyn s (c_next s) (insert_sorted i (c_reuse s)) | _ => s end.

(** ProvidersStack::consume *)
Definition consume (s : cstate) : option (provider * cstate) :=
  match c_stack s with
  | [] => None
  | p :: st =>
      let s1 := set_stack s st in
      let unused := negb (existsb (provider_eqb p) st) in
      Some (p, if unused then dyn_reuse s1 p else s1)
  end.
(** ProvidersStack::provide *)
Definition provide (s : cstate) : Z * cstate :=
  let '(r, s1) := dyn_get s in (r, set_stack s1 (PDyn r :: c_stack s1)).
(** ProvidersStack::provide_existing *)
Definition provide_existing (s : cstate) (p : provider) : cstate :=
  let s1 := set_stack s (p :: c_stack s) in
  match p with PDyn i => set_dyn s1 (c_next s1) (remove_z i (c_reuse s1)) | _ => s1 end.
(** ProvidersStack::push_constant *)
Definition push_constant (s : cstate) (c : Z) : cstate :=
  match find (fun e => fst e =? c) (c_consts s) with
  | Some (_, idx) => set_stack s (PConst idx :: c_stack s)
  | None =>
      let idx := - Z.of_nat (length (c_consts s)) - 1 in
      set_stack (set_consts s (c_consts s ++ [(c, idx)])) (PConst idx :: c_stack s)
  end.
(** ProvidersStack::truncate *)
Fixpoint truncate_n (k : nat) (s : cstate) : option cstate :=
  match k with
  | O => Some s
  | S k' => match consume s with Some (_, s1) => truncate_n k' s1 | None => None end
  end.
Definition truncate (s : cstate) (new_len : nat) : option cstate :=
  truncate_n (length (c_stack s) - new_len) s.

(** Instructions::back_patch: overwrite 4 bytes at [pos] *)
Fixpoint overwrite (l : list N) (pos : nat) (bs : list N) : list N :=
  match pos, l with
  | O, _ => bs ++ skipn (length bs) l
  | S p, x :: r => x :: overwrite r p bs
  | S _, [] => []
  end.
Definition back_patch (s : cstate) (pos : Z) (v : Z) : cstate :=
  set_out s (overwrite (c_out s) (Z.to_nat pos) (u32_bytes v)).

Fixpoint update_nth {A} (l : list A) (n : nat) (x : A) : list A :=
  match l, n with
  | [], _ => []
  | _ :: r, O => x :: r
  | y :: r, S n' => y :: update_nth r n' x
  end.

(** BackPatch::insert_jump_location *)
Definition insert_jump_location (s : cstate) (l : nat) : option cstate :=
  match nth_error (c_bp s) l with
  | Some (JKnown pos) => Some (emit s (u32_bytes pos))
  | Some (JUnknown locs res) =>
      let s1 := set_bp s (update_nth (c_bp s) l (JUnknown (locs ++ [cur_off s]) res)) in
      Some (emit s1 (u32_bytes 0))
  | None => None
  end.

(** copy [provider] into [result] unless they are the same location *)
Definition copy_if_needed (s : cstate) (p res : provider) : cstate :=
  if provider_eqb p res then s
  else push_loc (push_loc (push_op s ICopy) p) res.

(** BackPatch::push_br_if_jump.  NB (finding F1): the Copy is emitted BEFORE the BrIf. *)
Definition push_br_if_jump (s : cstate) (l : nat) : option cstate :=
  match nth_error (c_bp s) l with
  | Some (JUnknown _ (Some res)) =>
      match consume s with
      | Some (p, s1) =>
          let s2 := copy_if_needed s1 p res in
          let s3 := provide_existing s2 res in
          insert_jump_location (push_op s3 IBrIf) l
      | None => None
      end
  | Some _ => insert_jump_location (push_op s IBrIf) l
  | None => None
  end.

(** BackPatch::push_br_jump *)
Definition push_br_jump (s : cstate) (reachable : bool) (l : nat) : option cstate :=
  match nth_error (c_bp s) l with
  | None => None
  | Some tgt =>
      let s1 :=
        match reachable, tgt with
        | true, JUnknown _ (Some res) =>
            match consume s with
            | Some (p, s1) => Some (copy_if_needed s1 p res)
            | None => None
            end
        | _, _ => Some s
        end in
      match s1 with
      | Some s1 => insert_jump_location (push_op s1 IBr) l
      | None => None
      end
  end.

(** BackPatch::push_br_table_jump *)
Definition push_br_table_jump (s : cstate) (l : nat) : option cstate :=
  match nth_error (c_bp s) l with
  | Some (JUnknown _ (Some res)) => insert_jump_location (push_loc s res) l
  | Some _ => insert_jump_location s l
  | None => None
  end.
Fixpoint push_br_table_jumps (s : cstate) (ls : list nat) : option cstate :=
  match ls with
  | [] => Some s
  | l :: r => match push_br_table_jump s l with Some s1 => push_br_table_jumps s1 r | None => None end
  end.

Definition push_consume (s : cstate) : option (provider * cstate) :=
  match consume s with Some (p, s1) => Some (p, push_loc s1 p) | None => None end.
Fixpoint push_consume_n (k : nat) (s : cstate) : option cstate :=
  match k with
  | O => Some s
  | S k' => match push_consume s with Some (_, s1) => push_consume_n k' s1 | None => None end
  end.
(** BackPatch::push_provide *)
Definition push_provide (s : cstate) : cstate :=
  let '(r, s1) := provide s in
  let off := cur_off s1 in
  set_last (emit s1 (i32_bytes r)) (Some off).

(** opcode followed by [k] consumed operands and a provided result *)
Definition push_nary (s : cstate) (o : N) (k : nat) : option cstate :=
  match push_consume_n k (push_op s o) with Some s1 => Some (push_provide s1) | None => None end.

Definition RETURN_VALUE_LOCATION := PLocal 0.

(** rewrite every [Local idx] on the providers stack to a (lazily allocated) reserve slot *)
Fixpoint preserve_local (idx : Z) (st : list provider) (s : cstate) (reserve : option provider)
  : list provider * cstate * option provider :=
  match st with
  | [] => ([], s, reserve)
  | p :: r =>
      (* the Rust iterates from the bottom of the stack; allocation happens at the first hit, and
         every hit gets the same reserve slot, so the direction does not matter *)
      let '(r', s1, res1) := preserve_local idx r s reserve in
      match p with
      | PLocal l =>
          if l =? idx then
            match res1 with
            | Some rp => (rp :: r', s1, res1)
            | None => let '(d, s2) := dyn_get s1 in (PDyn d :: r', s2, Some (PDyn d))
            end
          else (p :: r', s1, res1)
      | _ => (p :: r', s1, res1)
      end
  end.

(** [Handler::handle_opcode].  [v] is the validation state AFTER the opcode, [reach] the
    reachability BEFORE it. *)
Definition handle_opcode (cx : cctx) (s0 : cstate) (v : vstate) (reach : reachability) (op : opcode)
  : option cstate :=
  let last_provide := c_last s0 in
  let s := set_last s0 None in
  let go (instruction_reachable : bool) : option cstate :=
    let r :=
      match op with
      | OEnd =>
          match c_bp s with
          | [] => None
          | JKnown _ :: bp' =>
              let s1 := set_bp s bp' in
              if negb instruction_reachable && (length (c_stack s1) <? v_opds v)%nat
              then Some (snd (provide s1)) else Some s1
          | JUnknown locs result :: bp' =>
              let s1 := set_bp s bp' in
              let s2 :=
                match result with
                | Some res =>
                    if instruction_reachable then
                      match consume s1 with
                      | Some (p, s2) => Some (provide_existing (copy_if_needed s2 p res) res)
                      | None => None
                      end
                    else
                      let s2 := if (length (c_stack s1) =? v_opds v)%nat
                                then match consume s1 with Some (_, x) => Some x | None => None end
                                else Some s1 in
                      match s2 with Some s2 => Some (provide_existing s2 res) | None => None end
                | None => Some s1
                end in
              match s2 with
              | Some s2 =>
                  let pos := cur_off s2 in
                  Some (fold_left (fun acc l => back_patch acc l pos) locs s2)
              | None => None
              end
          end
      | OBlock ty =>
          match ty with
          | Some _ => let '(r, s1) := dyn_get s in Some (set_bp s1 (JUnknown [] (Some (PDyn r)) :: c_bp s1))
          | None => Some (set_bp s (JUnknown [] None :: c_bp s))
          end
      | OLoop _ => Some (set_bp s (JKnown (cur_off s) :: c_bp s))
      | OIf ty =>
          match push_consume (push_op s IIf) with
          | Some (_, s1) =>
              let '(res, s2) :=
                match ty with
                | Some _ => let '(r, s2) := dyn_get s1 in (Some (PDyn r), s2)
                | None => (None, s1)
                end in
              let s3 := set_bp s2 (JUnknown [cur_off s2] res :: c_bp s2) in
              Some (emit s3 (u32_bytes 0))
          | None => None
          end
      | OElse =>
          match push_br_jump s instruction_reachable 0 with
          | Some s1 =>
              match c_bp s1 with
              | JUnknown (first :: rest) res :: bp' =>
                  let pos := cur_off s1 in
                  Some (back_patch (set_bp s1 (JUnknown rest res :: bp')) first pos)
              | _ => None
              end
          | None => None
          end
      | OBasic (BBr l) =>
          match push_br_jump s instruction_reachable l with
          | Some s1 => truncate s1 (v_opds v)
          | None => None
          end
      | OBasic (BBrIf l) =>
          match consume s with
          | Some (cond, s1) =>
              match push_br_if_jump s1 l with
              | Some s2 => Some (push_loc s2 cond)
              | None => None
              end
          | None => None
          end
      | OBasic (BBrTable ls d) =>
          match nth_error (v_ctrls v) d with
          | Some tf =>
              let s1 :=
                match vf_label tf with
                | None => match push_consume (push_op s IBrTable) with Some (_, x) => Some x | None => None end
                | Some _ => push_consume_n 2 (push_op s IBrTableCarry)
                end in
              match s1 with
              | Some s1 =>
                  let s2 := emit s1 (u16_bytes (Z.of_nat (length ls))) in
                  match push_br_table_jump s2 d with
                  | Some s3 =>
                      match push_br_table_jumps s3 ls with
                      | Some s4 => truncate s4 (v_opds v)
                      | None => None
                      end
                  | None => None
                  end
              | None => None
              end
          | None => None
          end
      | OBasic BReturn =>
          let s1 :=
            match cx_return cx with
            | Some _ =>
                match consume s with
                | Some (top, s1) => Some (copy_if_needed s1 top RETURN_VALUE_LOCATION)
                | None => None
                end
            | None => Some s
            end in
          match s1 with
          | Some s1 => truncate (push_op s1 IReturn) (v_opds v)
          | None => None
          end
      | OBasic (BCall f) =>
          match cx_func_type cx f with
          | Some ft =>
              match push_consume_n (length (ft_params ft)) (emit (push_op s ICall) (u32_bytes (Z.of_nat f))) with
              | Some s1 => Some (match ft_result ft with Some _ => push_provide s1 | None => s1 end)
              | None => None
              end
          | None => None
          end
      | OBasic (BTick n) => Some (emit (push_op s ITickEnergy) (u32_bytes (Z.of_N n)))
      | OBasic (BCallIndirect ti) =>
          match push_consume (emit (push_op s ICallIndirect) (u32_bytes (Z.of_nat ti))) with
          | Some (_, s1) =>
              match cx_type cx ti with
              | Some ft =>
                  match push_consume_n (length (ft_params ft)) s1 with
                  | Some s2 => Some (match ft_result ft with Some _ => push_provide s2 | None => s2 end)
                  | None => None
                  end
              | None => None
              end
          | None => None
          end
      | OBasic BNop => Some s
      | OBasic BUnreachable => truncate (push_op s IUnreachable) (v_opds v)
      | OBasic BDrop => match consume s with Some (_, s1) => Some s1 | None => None end
      | OBasic BSelect => push_nary s ISelect 3
      | OBasic (BLocalGet i) => Some (provide_existing s (PLocal (Z.of_nat i)))
      | OBasic (BLocalSet i) | OBasic (BLocalTee i) =>
          let idx := Z.of_nat i in
          let is_set := match op with OBasic (BLocalSet _) => true | _ => false end in
          (* NB (finding F2): the stack entries are redirected here, the Copy is emitted here,
             whatever control region we are in *)
          let '(st', s1, reserve) := preserve_local idx (c_stack s) s None in
          let s2 := set_stack s1 st' in
          let s3 := match reserve with
                    | Some rp => push_loc (emit (push_op s2 ICopy) (i32_bytes idx)) rp
                    | None => s2
                    end in
          let short := match last_provide, reserve with Some bl, None => Some bl | _, _ => None end in
          match short with
          | Some back_loc =>
              match consume (back_patch s3 back_loc idx) with
              | Some (_, s4) => Some (if is_set then s4 else provide_existing s4 (PLocal idx))
              | None => None
              end
          | None =>
              match push_consume (push_op s3 ICopy) with
              | Some (_, s4) =>
                  let s5 := emit s4 (i32_bytes idx) in
                  Some (if is_set then s5 else provide_existing s5 (PLocal idx))
              | None => None
              end
          end
      | OBasic (BGlobalGet i) =>
          Some (push_provide (emit (push_op s IGlobalGet) (u16_bytes (Z.of_nat i))))
      | OBasic (BGlobalSet i) =>
          match push_consume (emit (push_op s IGlobalSet) (u16_bytes (Z.of_nat i))) with
          | Some (_, s1) => Some s1 | None => None end
      | OBasic (BLoad t pk off) =>
          match push_consume (emit (push_op s (load_opcode t pk)) (u32_bytes (Z.of_N off))) with
          | Some (_, s1) => Some (push_provide s1) | None => None end
      | OBasic (BStore t pk off) =>
          push_consume_n 2 (emit (push_op s (store_opcode t pk)) (u32_bytes (Z.of_N off)))
      | OBasic BMemorySize => Some (push_provide (push_op s IMemorySize))
      | OBasic BMemoryGrow => push_nary s IMemoryGrow 1
      | OBasic (BConst t z) =>
          (* the constant is kept as a sign-extended i64: [c as i64] *)
          let c := match t with
                   | T_i32 => if z <? 2147483648 then z else z - 4294967296
                   | T_i64 => if z <? 9223372036854775808 then z else z - 18446744073709551616
                   end in
          Some (push_constant s c)
      | OBasic (BUnop t o) => push_nary s (unop_opcode t o) 1
      | OBasic (BBinop t o) => push_nary s (binop_opcode t o) 2
      | OBasic (BEqz t) => push_nary s (eqz_opcode t) 1
      | OBasic (BRelop t o) => push_nary s (relop_opcode t o) 2
      | OBasic (BCvt o) => push_nary s (cvt_opcode o) 1
      end in
    (* assert_eq!(providers_stack.len(), opds.stack.len()) *)
    match r with
    | Some s' => if (length (c_stack s') =? v_opds v)%nat then Some s' else None
    | None => None
    end in
  match reach, op with
  | UnreachableFrame, _ => Some s
  | UnreachableInstruction, OElse | UnreachableInstruction, OEnd => go false
  | UnreachableInstruction, _ => Some s
  | Reachable, _ => go true
  end.

(** [validate(&context, opcodes, BackPatch::new(..))] *)
Fixpoint compile_ops (cx : cctx) (ops : list opcode) (v : vstate) (s : cstate) : option (vstate * cstate) :=
  match ops with
  | [] => Some (v, s)
  | op :: rest =>
      let reach := v_reachability v in
      match vstep cx v op with
      | Some v1 =>
          match handle_opcode cx s v1 reach op with
          | Some s1 => compile_ops cx rest v1 s1
          | None => None
          end
      | None => None
      end
  end.

Record compiled_function := {
  cf_type_idx : nat;
  cf_params : list valtype;
  cf_num_locals : nat;              (* declared locals, parameters excluded *)
  cf_return : blocktype;
  cf_num_registers : Z;
  cf_constants : list Z;            (* as i64 (signed) *)
  cf_code : list N
}.

(** BackPatch::new + validate + finish + the trailing Return added by Module::compile *)
Definition compile_function (cx : cctx) (type_idx : nat) (ft : functype) (num_declared : nat)
           (ops : list opcode) : option compiled_function :=
  let num_locals := (length (ft_params ft) + num_declared)%nat in
  let next := match num_locals, ft_result ft with
              | O, Some _ => 1
              | _, _ => Z.of_nat num_locals
              end in
  let s0 := {| c_out := [];
               c_bp := [JUnknown [] (match ft_result ft with Some _ => Some RETURN_VALUE_LOCATION | None => None end)];
               c_stack := []; c_next := next; c_reuse := []; c_consts := []; c_last := None |} in
  let v0 := v_push_ctrl false (ft_result ft) (ft_result ft)
              {| v_opds := 0; v_ctrls := []; v_unreach := None |} in
  match compile_ops cx ops v0 s0 with
  | Some (v, s) =>
      match v_ctrls v, c_bp s with
      | [], [] =>
          Some {| cf_type_idx := type_idx; cf_params := ft_params ft; cf_num_locals := num_declared;
                  cf_return := ft_result ft; cf_num_registers := c_next s;
                  cf_constants := map fst (c_consts s);
                  cf_code := c_out s ++ [IReturn] |}
      | _, _ => None
      end
  | None => None
  end.

(** A module as the compiler sees it: flat code per function. *)
Record cmodule := {
  cm_types : list functype;
  cm_imports : list nat;                            (* type index per import *)
  cm_funcs : list (nat * list valtype * list opcode)   (* type index, declared locals, body incl. final end *)
}.
Definition cm_func_type (cm : cmodule) (f : nat) : option functype :=
  let ni := length (cm_imports cm) in
  if (f <? ni)%nat then
    match nth_error (cm_imports cm) f with Some ti => nth_error (cm_types cm) ti | None => None end
  else
    match nth_error (cm_funcs cm) (f - ni) with
    | Some (ti, _, _) => nth_error (cm_types cm) ti
    | None => None
    end.

Definition compile_module_function (cm : cmodule) (fd : nat * list valtype * list opcode)
  : option compiled_function :=
  let '(ti, locals, ops) := fd in
  match nth_error (cm_types cm) ti with
  | Some ft =>
      compile_function {| cx_func_type := cm_func_type cm; cx_type := nth_error (cm_types cm);
                          cx_return := ft_result ft |} ti ft (length locals) ops
  | None => None
  end.
Definition compile_module (cm : cmodule) : list (option compiled_function) :=
  map (compile_module_function cm) (cm_funcs cm).
