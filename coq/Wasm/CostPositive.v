(** * Wasm/CostPositive — both GENERATED schedules are positive on every instruction that can close a
    control-flow cycle (what [MeterBound] needs), and price the delimiters at 0 (what [MeterFlat] needs). *)
From Coq Require Import NArith List Bool Lia.
From CB Require Import Wasm.Syntax Wasm.CostCtx Wasm.CostProofs Wasm.Meter Wasm.MeterBound.
From CB Require Gen.CostV0 Gen.CostV1.
Local Open Scope N_scope.

Lemma jumpy_branch b : jumpy b = true -> is_branch_or_call (OBasic b) = true.
Proof. destruct b; cbn; intro H; try discriminate; reflexivity. Qed.

Lemma positive_v0 cx : positive_cfg CostV0.cfg cx.
Proof.
  split.
  - intros b L c H Hj. exact (v0_total _ _ _ _ H (jumpy_branch _ Hj)).
  - exact v0_branch.
Qed.
Lemma positive_v1 cx : positive_cfg CostV1.cfg cx.
Proof.
  split.
  - intros b L c H Hj. exact (v1_total _ _ _ _ H (jumpy_branch _ Hj)).
  - exact v1_branch.
Qed.
