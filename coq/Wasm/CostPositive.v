(** * Wasm/CostPositive — both GENERATED schedules are positive on every instruction that can close a
    control-flow cycle (what [MeterBound] needs), and price the delimiters at 0 (what [MeterFlat] needs). *)
From Coq Require Import NArith List Bool Lia.
From CB Require Import Wasm.Syntax Wasm.CostCtx Wasm.CostProofs Wasm.Meter Wasm.MeterBound Wasm.MeterFlat.
From Coq Require Import List.
From CB Require Gen.CostV0 Gen.CostV1.
Local Open Scope N_scope.

Lemma jumpy_branch b : jumpy b = true -> is_branch_or_call (OBasic b) = true.
Proof. destruct b; cbn; intro H; try discriminate; reflexivity. Qed.

Lemma positive_v0 cx : positive_cfg CostV0.cfg cx.
Proof.
  split.
  - intros b L c H Hj. exact (v0_total _ _ _ _ H (jumpy_branch _ Hj)).
  - exact v0_branch.
Qed.
Lemma positive_v1 cx : positive_cfg CostV1.cfg cx.
Proof.
  split.
  - intros b L c H Hj. exact (v1_total _ _ _ _ H (jumpy_branch _ Hj)).
  - exact v1_branch.
Qed.

Theorem flat_agree_v0_v1 : forall m m',
  (inject CostV0.cfg m = Some m' ->
   inject_flat CostV0.cfg m (map (fun f => flatten_body (f_body f)) (m_funcs m)) =
   Some (map (fun f => flatten_body (f_body f)) (m_funcs m'))) /\
  (inject CostV1.cfg m = Some m' ->
   inject_flat CostV1.cfg m (map (fun f => flatten_body (f_body f)) (m_funcs m)) =
   Some (map (fun f => flatten_body (f_body f)) (m_funcs m'))).
Proof.
  intros m m'. split; apply MeterFlat.flat_structured_agree; intro L;
    first [apply (v0_end_else L (ctx_of_module m)) | apply (v1_end_else L (ctx_of_module m))].
Qed.

Theorem schedules_positive : forall cx, positive_cfg CostV0.cfg cx /\ positive_cfg CostV1.cfg cx.
Proof. intro cx. exact (conj (positive_v0 cx) (positive_v1 cx)). Qed.
