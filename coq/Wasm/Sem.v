(** * Wasm/Sem — reference semantics (the SPECIFICATION side of C01).

    A definitional interpreter for the WebAssembly 1.0 integer subset plus the
    sign-extension operators, over structured code, written from the W3C core
    specification (sections 4.2 runtime structure, 4.3 numerics, 4.4 instructions,
    4.5 modules) — NOT from the implementation.  Fuel makes it total; running out
    of fuel is the distinct outcome [OutOfFuel], which the theorems exclude.

    Deviations / choices, all permitted by the specification:
    - [memory.grow] may fail non-deterministically in the spec; here it succeeds iff the
      new size is within the declared maximum, 65536 pages and the embedder cap
      [page_cap] (a parameter of instantiation; the implementation uses 512 pages);
    - host (imported) functions are a parameter [host];
    - an ill-typed program can get [Stuck]; validated modules never do
      (type soundness; property C09) so [Stuck] is not an observable outcome of C01.

    Definitions only; lemmas in [Wasm/SemProofs.v]. *)
From Coq Require Import ZArith NArith List Bool FMapPositive.
From CB Require Import Common.IntN Wasm.Syntax.
Import ListNotations.
Local Open Scope Z_scope.

(** ** Linear memory: size in pages, optional maximum, sparse byte map (absent = 0). *)
Record memory := {
  mem_pages : N;
  mem_max : option N;
  mem_data : PositiveMap.t Z
}.
Definition mem_len (m : memory) : N := (mem_pages m * page_size)%N.
Definition mem_key (a : N) : positive := N.succ_pos a.
Definition mem_get (m : memory) (a : N) : Z :=
  match PositiveMap.find (mem_key a) (mem_data m) with Some b => b | None => 0 end.
Definition mem_set (m : memory) (a : N) (b : Z) : memory :=
  {| mem_pages := mem_pages m; mem_max := mem_max m;
     mem_data := PositiveMap.add (mem_key a) b (mem_data m) |}.

(** [k] bytes starting at address [a], little endian, no bounds check. *)
Fixpoint mem_read (m : memory) (a : N) (k : nat) : list Z :=
  match k with O => [] | S k' => mem_get m a :: mem_read m (a + 1)%N k' end.
Fixpoint mem_write (m : memory) (a : N) (bs : list Z) : memory :=
  match bs with [] => m | b :: r => mem_write (mem_set m a b) (a + 1)%N r end.

(** spec 4.4.4: the access traps if ea + width/8 is larger than the memory length. *)
Definition in_bounds (m : memory) (ea : N) (k : nat) : bool :=
  (ea + N.of_nat k <=? mem_len m)%N.
Definition mem_load (m : memory) (ea : N) (k : nat) : option Z :=
  if in_bounds m ea k then Some (of_bytes (mem_read m ea k)) else None.
Definition mem_store (m : memory) (ea : N) (k : nat) (x : Z) : option memory :=
  if in_bounds m ea k then Some (mem_write m ea (bytes_of k x)) else None.

(** ** Store and results *)
Record store := {
  s_mem : option memory;
  s_globals : list val;
  s_table : list (option nat)     (* function index per element; immutable in Wasm 1.0 *)
}.
Definition set_mem (s : store) (mm : option memory) : store :=
  {| s_mem := mm; s_globals := s_globals s; s_table := s_table s |}.
Definition set_globals (s : store) (g : list val) : store :=
  {| s_mem := s_mem s; s_globals := g; s_table := s_table s |}.

Inductive host_result :=
| HostOk (m : option memory) (r : option val)
| HostTrap.

(** Result of executing an instruction sequence. *)
Inductive res :=
| RNormal (s : store) (locals : list val) (stack : list val)
| RBr (l : nat) (s : store) (locals : list val) (stack : list val)  (* branch to label l *)
| RReturn (s : store) (stack : list val)
| RTrap
| RStuck
| RFuel.

(** Final outcome of an invocation. *)
Inductive outcome :=
| Done (result : option val) (mem : option memory) (globals : list val)
| Trap
| Stuck
| OutOfFuel.

(** ** Numeric instructions (spec 4.3.2 via IntN) *)
Definition app_unop (t : valtype) (op : unop) (x : Z) : option Z :=
  let n := bits t in
  match op with
  | Clz => Some (iclz n x)
  | Ctz => Some (ictz n x)
  | Popcnt => Some (ipopcnt n x)
  | Extend8S => Some (iextendM_s 8 n x)
  | Extend16S => Some (iextendM_s 16 n x)
  | Extend32S => match t with T_i64 => Some (iextendM_s 32 n x) | T_i32 => None end
  end.

(** [None] = trap *)
Definition app_binop (t : valtype) (op : binop) (x y : Z) : option Z :=
  let n := bits t in
  match op with
  | Add => Some (iadd n x y) | Sub => Some (isub n x y) | Mul => Some (imul n x y)
  | DivS => idiv_s n x y | DivU => idiv_u n x y
  | RemS => irem_s n x y | RemU => irem_u n x y
  | And => Some (iand n x y) | Or => Some (ior n x y) | Xor => Some (ixor n x y)
  | Shl => Some (ishl n x y) | ShrS => Some (ishr_s n x y) | ShrU => Some (ishr_u n x y)
  | Rotl => Some (irotl n x y) | Rotr => Some (irotr n x y)
  end.

Definition app_relop (t : valtype) (op : relop) (x y : Z) : Z :=
  let n := bits t in
  match op with
  | Eq => ieq n x y | Ne => ine n x y
  | LtS => ilt_s n x y | LtU => ilt_u n x y | GtS => igt_s n x y | GtU => igt_u n x y
  | LeS => ile_s n x y | LeU => ile_u n x y | GeS => ige_s n x y | GeU => ige_u n x y
  end.

Definition mkval (t : valtype) (z : Z) : val := match t with T_i32 => VI32 z | T_i64 => VI64 z end.
(** the payload of a value of type [t]; [None] if the value has the other type *)
Definition payload (t : valtype) (v : val) : option Z :=
  match t, v with T_i32, VI32 z | T_i64, VI64 z => Some z | _, _ => None end.

Definition nth_opt {A} (l : list A) (i : nat) : option A := nth_error l i.
Fixpoint set_nth {A} (l : list A) (i : nat) (x : A) : option (list A) :=
  match l, i with
  | [], _ => None
  | _ :: r, O => Some (x :: r)
  | y :: r, S i' => match set_nth r i' x with Some r' => Some (y :: r') | None => None end
  end.

Definition arity (bt : blocktype) : nat := match bt with Some _ => 1%nat | None => 0%nat end.

Section WithHost.
(** Imported functions: [host i args mem] for import number [i]. *)
Variable host : nat -> list val -> option memory -> host_result.
(** embedder's cap on the number of memory pages *)
Variable page_cap : N.
Variable m : module.

Definition func_type (fidx : nat) : option functype :=
  let ni := length (m_imports m) in
  if (fidx <? ni)%nat then
    match nth_opt (m_imports m) fidx with Some ti => nth_opt (m_types m) ti | None => None end
  else
    match nth_opt (m_funcs m) (fidx - ni) with Some f => nth_opt (m_types m) (f_type f) | None => None end.

(** ** memory.grow (spec 4.4.4 + 4.5.3.9 growing memories) *)
Definition grow_limit (mm : memory) : N :=
  N.min page_cap (N.min 65536 (match mem_max mm with Some x => x | None => 65536 end)).
Definition mem_grow (mm : memory) (n : Z) : memory * Z :=
  let new := (mem_pages mm + Z.to_N n)%N in
  if (new <=? grow_limit mm)%N then
    ({| mem_pages := new; mem_max := mem_max mm; mem_data := mem_data mm |}, Z.of_N (mem_pages mm))
  else (mm, 4294967295).

(** ** Basic instructions that neither branch nor call.
    Returns the new (store, locals, stack); [inl true] = trap, [inl false] = stuck. *)
Definition step_result := (sum bool (store * list val * list val))%type.
Definition ok (s : store) (l st : list val) : step_result := inr (s, l, st).
Definition trap : step_result := inl true.
Definition stuck : step_result := inl false.

Definition with_mem (s : store) (mm : memory) : store := set_mem s (Some mm).

Definition exec_simple (b : binstr) (s : store) (locals stack : list val) : step_result :=
  match b, stack with
  | BNop, _ => ok s locals stack
  | BTick _, _ => ok s locals stack
  | BUnreachable, _ => trap
  | BDrop, _ :: st => ok s locals st
  | BSelect, VI32 c :: v2 :: v1 :: st =>
      if valtype_eqb (type_of_val v1) (type_of_val v2)
      then ok s locals ((if c =? 0 then v2 else v1) :: st) else stuck
  | BLocalGet i, st =>
      match nth_opt locals i with Some v => ok s locals (v :: st) | None => stuck end
  | BLocalSet i, v :: st =>
      match set_nth locals i v with Some l' => ok s l' st | None => stuck end
  | BLocalTee i, v :: st =>
      match set_nth locals i v with Some l' => ok s l' (v :: st) | None => stuck end
  | BGlobalGet i, st =>
      match nth_opt (s_globals s) i with Some v => ok s locals (v :: st) | None => stuck end
  | BGlobalSet i, v :: st =>
      match set_nth (s_globals s) i v with
      | Some g' => ok (set_globals s g') locals st
      | None => stuck
      end
  | BLoad t pk off, VI32 i :: st =>
      match s_mem s with
      | None => stuck
      | Some mm =>
          let ea := (Z.to_N i + off)%N in
          match pk with
          | None =>
              match mem_load mm ea (type_bytes t) with
              | Some x => ok s locals (mkval t x :: st)
              | None => trap
              end
          | Some (p, sg) =>
              match mem_load mm ea (pack_bytes p) with
              | Some x =>
                  let w := (8 * Z.of_nat (pack_bytes p)) in
                  let x' := match sg with SX_U => iextend_u w (bits t) x | SX_S => iextend_s w (bits t) x end in
                  ok s locals (mkval t x' :: st)
              | None => trap
              end
          end
      end
  | BStore t pk off, v :: VI32 i :: st =>
      match s_mem s, payload t v with
      | Some mm, Some x =>
          let ea := (Z.to_N i + off)%N in
          let k := match pk with None => type_bytes t | Some p => pack_bytes p end in
          (* storing N bits of a wider value wraps it: bytes_of takes the low bytes *)
          match mem_store mm ea k x with
          | Some mm' => ok (with_mem s mm') locals st
          | None => trap
          end
      | _, _ => stuck
      end
  | BMemorySize, st =>
      match s_mem s with
      | Some mm => ok s locals (VI32 (Z.of_N (mem_pages mm)) :: st)
      | None => stuck
      end
  | BMemoryGrow, VI32 n :: st =>
      match s_mem s with
      | Some mm => let '(mm', r) := mem_grow mm n in ok (with_mem s mm') locals (VI32 r :: st)
      | None => stuck
      end
  | BConst t z, st => ok s locals (mkval t z :: st)
  | BUnop t op, v :: st =>
      match payload t v with
      | Some x => match app_unop t op x with Some r => ok s locals (mkval t r :: st) | None => stuck end
      | None => stuck
      end
  | BBinop t op, v2 :: v1 :: st =>
      match payload t v1, payload t v2 with
      | Some x, Some y =>
          match app_binop t op x y with Some r => ok s locals (mkval t r :: st) | None => trap end
      | _, _ => stuck
      end
  | BEqz t, v :: st =>
      match payload t v with Some x => ok s locals (VI32 (ieqz (bits t) x) :: st) | None => stuck end
  | BRelop t op, v2 :: v1 :: st =>
      match payload t v1, payload t v2 with
      | Some x, Some y => ok s locals (VI32 (app_relop t op x y) :: st)
      | _, _ => stuck
      end
  | BCvt WrapI64, VI64 x :: st => ok s locals (VI32 (iwrap 64 32 x) :: st)
  | BCvt ExtendI32S, VI32 x :: st => ok s locals (VI64 (iextend_s 32 64 x) :: st)
  | BCvt ExtendI32U, VI32 x :: st => ok s locals (VI64 (iextend_u 32 64 x) :: st)
  | _, _ => stuck
  end.

(** Split the argument values of a call off the stack: [n] values, the last argument on
    top.  Returns (arguments in declaration order, remaining stack). *)
Fixpoint take_args (n : nat) (stack acc : list val) : option (list val * list val) :=
  match n with
  | O => Some (acc, stack)
  | S n' => match stack with v :: st => take_args n' st (v :: acc) | [] => None end
  end.

(** ** The interpreter.  [exec_seq]/[exec_instr]/[invoke] are mutually recursive on fuel;
    every instruction, loop iteration and call consumes one unit. *)
Fixpoint exec_seq (fuel : nat) (s : store) (locals stack : list val) (is : list instr) {struct fuel} : res :=
  match fuel with
  | O => RFuel
  | S f =>
      match is with
      | [] => RNormal s locals stack
      | i :: rest =>
          match exec_instr f s locals stack i with
          | RNormal s' l' st' => exec_seq f s' l' st' rest
          | r => r
          end
      end
  end

with exec_instr (fuel : nat) (s : store) (locals stack : list val) (i : instr) {struct fuel} : res :=
  match fuel with
  | O => RFuel
  | S f =>
      match i with
      | Block bt body =>
          (* label of arity |bt| whose continuation is the end of the block *)
          match exec_seq f s locals [] body with
          | RNormal s' l' vs => RNormal s' l' (firstn (arity bt) vs ++ stack)
          | RBr O s' l' vs => RNormal s' l' (firstn (arity bt) vs ++ stack)
          | RBr (S k) s' l' vs => RBr k s' l' vs
          | r => r
          end
      | Loop bt body =>
          (* label of arity 0 (no block parameters in 1.0) whose continuation is the loop *)
          match exec_seq f s locals [] body with
          | RNormal s' l' vs => RNormal s' l' (firstn (arity bt) vs ++ stack)
          | RBr O s' l' _ => exec_instr f s' l' stack (Loop bt body)
          | RBr (S k) s' l' vs => RBr k s' l' vs
          | r => r
          end
      | If bt thn els =>
          match stack with
          | VI32 c :: st => exec_instr f s locals st (Block bt (if c =? 0 then els else thn))
          | _ => RStuck
          end
      | Basic (BBr l) => RBr l s locals stack
      | Basic (BBrIf l) =>
          match stack with
          | VI32 c :: st => if c =? 0 then RNormal s locals st else RBr l s locals st
          | _ => RStuck
          end
      | Basic (BBrTable ls d) =>
          match stack with
          | VI32 c :: st =>
              (* if c < |ls| then br ls[c] else br d *)
              RBr (if c <? Z.of_nat (length ls)
                   then match nth_opt ls (Z.to_nat c) with Some l => l | None => d end
                   else d) s locals st
          | _ => RStuck
          end
      | Basic BReturn => RReturn s stack
      | Basic (BCall fi) =>
          match func_type fi with
          | Some ft =>
              match take_args (length (ft_params ft)) stack [] with
              | Some (args, st) =>
                  match invoke f s fi args with
                  | inr (s', r) => RNormal s' locals (match r with Some v => v :: st | None => st end)
                  | inl r => r
                  end
              | None => RStuck
              end
          | None => RStuck
          end
      | Basic (BCallIndirect ti) =>
          match stack, nth_opt (m_types m) ti with
          | VI32 c :: st0, Some ft =>
              match (if c <? Z.of_nat (length (s_table s)) then nth_opt (s_table s) (Z.to_nat c) else None) with
              | Some (Some fi) =>
                  match func_type fi with
                  | Some ft' =>
                      if functype_eqb ft ft' then
                        match take_args (length (ft_params ft)) st0 [] with
                        | Some (args, st) =>
                            match invoke f s fi args with
                            | inr (s', r) => RNormal s' locals (match r with Some v => v :: st | None => st end)
                            | inl r => r
                            end
                        | None => RStuck
                        end
                      else RTrap
                  | None => RStuck
                  end
              | _ => RTrap   (* index out of table bounds or uninitialised element *)
              end
          | _, _ => RStuck
          end
      | Basic b =>
          match exec_simple b s locals stack with
          | inr (s', l', st') => RNormal s' l' st'
          | inl true => RTrap
          | inl false => RStuck
          end
      end
  end

(** Function invocation (spec 4.4.7): locals = arguments followed by zeroed declared
    locals; the body is a block whose label has the arity of the result type. *)
with invoke (fuel : nat) (s : store) (fi : nat) (args : list val) {struct fuel}
  : sum res (store * option val) :=
  match fuel with
  | O => inl RFuel
  | S f =>
      let ni := length (m_imports m) in
      if (fi <? ni)%nat then
        match func_type fi with
        | Some ft =>
            match host fi args (s_mem s) with
            | HostOk mm r => inr (set_mem s mm, r)
            | HostTrap => inl RTrap
            end
        | None => inl RStuck
        end
      else
        match nth_opt (m_funcs m) (fi - ni) with
        | Some fn =>
            match nth_opt (m_types m) (f_type fn) with
            | Some ft =>
                let locals := args ++ map zero_of (f_locals fn) in
                let fin (s' : store) (vs : list val) : sum res (store * option val) :=
                  match ft_result ft with
                  | None => inr (s', None)
                  | Some _ => match vs with v :: _ => inr (s', Some v) | [] => inl RStuck end
                  end in
                match exec_seq f s locals [] (f_body fn) with
                | RNormal s' _ vs => fin s' vs
                | RBr O s' _ vs => fin s' vs
                | RReturn s' vs => fin s' vs
                | RBr (S _) _ _ _ => inl RStuck
                | r => inl r
                end
            | None => inl RStuck
            end
        | None => inl RStuck
        end
  end.

(** ** Instantiation (spec 4.5.4): table from the element segments, memory from the data
    segments, globals from their constant initialisers.  [None] if a segment does not fit
    (the specification fails instantiation in that case). *)
Fixpoint write_elems (t : list (option nat)) (off : nat) (fs : list nat) : option (list (option nat)) :=
  match fs with
  | [] => Some t
  | fi :: r => match set_nth t off (Some fi) with Some t' => write_elems t' (S off) r | None => None end
  end.
Fixpoint init_table (t : list (option nat)) (es : list (N * list nat)) : option (list (option nat)) :=
  match es with
  | [] => Some t
  | (off, fs) :: r => match write_elems t (N.to_nat off) fs with Some t' => init_table t' r | None => None end
  end.
Fixpoint init_data (mm : memory) (ds : list (N * list Z)) : option memory :=
  match ds with
  | [] => Some mm
  | (off, bs) :: r =>
      if in_bounds mm off (length bs) then init_data (mem_write mm off bs) r else None
  end.

Definition instantiate : option store :=
  let tbl := match m_table m with Some n => Some (repeat None (N.to_nat n)) | None => Some [] end in
  match tbl with
  | Some t0 =>
      match init_table t0 (m_elems m) with
      | Some t =>
          let mm0 := match m_mem m with
                     | Some l => Some {| mem_pages := l_min l; mem_max := l_max l;
                                         mem_data := PositiveMap.empty Z |}
                     | None => None
                     end in
          let mm := match mm0 with
                    | Some x => match init_data x (m_data m) with Some y => Some (Some y) | None => None end
                    | None => match m_data m with [] => Some None | _ => None end
                    end in
          match mm with
          | Some mem => Some {| s_mem := mem; s_globals := map g_init (m_globals m); s_table := t |}
          | None => None
          end
      | None => None
      end
  | None => None
  end.

(** ** [run]: instantiate and invoke function [fi] with [args]. *)
Definition run (fuel : nat) (fi : nat) (args : list val) : outcome :=
  match instantiate with
  | None => Stuck
  | Some s =>
      match invoke fuel s fi args with
      | inr (s', r) => Done r (s_mem s') (s_globals s')
      | inl RTrap => Trap
      | inl RFuel => OutOfFuel
      | inl _ => Stuck
      end
  end.

End WithHost.

(** A host that has no functions (every import call traps). *)
Definition no_host (i : nat) (args : list val) (mm : option memory) : host_result := HostTrap.
