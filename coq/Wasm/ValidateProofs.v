(** * Wasm/ValidateProofs — soundness of the validation algorithm ([Wasm/Validate.v]) with
    respect to the declarative typing of the specification ([Wasm/Typing.v]). *)
From Coq Require Import ZArith NArith List Bool Arith Lia.
From CB Require Import Common.IntN Wasm.Syntax Gen.Limits Wasm.Validate Wasm.Typing.
Import ListNotations.

(** ** Concretisations of an abstract operand segment *)
Definition mk_match (m : mk) (t : valtype) : Prop :=
  match m with Unknown => True | Known t' => t' = t end.

(** [conc o u ts]: the concrete stack type [ts] is described by the frame-local abstract
    stack [o]; in an unreachable frame ([u = true]) anything may lie below. *)
Definition conc (o : list mk) (u : bool) (ts : list valtype) : Prop :=
  exists ts1 ts2, ts = ts1 ++ ts2 /\ Forall2 mk_match o ts1 /\ (u = false -> ts2 = []).

Lemma conc_nil u : conc [] u [].
Proof. exists [], []. repeat split; auto. Qed.
Lemma conc_nil_true ts : conc [] true ts.
Proof. exists [], ts. repeat split; auto. discriminate. Qed.
Lemma conc_nil_false ts : conc [] false ts -> ts = [].
Proof. intros (a & b & -> & F & H). inversion F; subst. cbn. auto. Qed.
Lemma conc_cons m o u t ts : mk_match m t -> conc o u ts -> conc (m :: o) u (t :: ts).
Proof. intros M (a & b & -> & F & H). exists (t :: a), b. repeat split; auto. Qed.
Lemma conc_cons_inv m o u ts' : conc (m :: o) u ts' -> exists t ts, ts' = t :: ts /\ mk_match m t /\ conc o u ts.
Proof.
  intros (a & b & -> & F & H). inversion F; subst. eexists _, _. split; [reflexivity|]. split; auto.
  eexists _, _. eauto.
Qed.
Lemma conc_known_inv t o u ts' : conc (Known t :: o) u ts' -> exists ts, ts' = t :: ts /\ conc o u ts.
Proof. intros H. apply conc_cons_inv in H. destruct H as (t' & ts & -> & M & C). cbn in M. subst. eauto. Qed.
Lemma conc_pop_empty t ts : conc [] true ts -> conc [] true (t :: ts).
Proof. intros _. apply conc_nil_true. Qed.
Lemma conc_inhabited o u : exists ts, conc o u ts.
Proof.
  induction o as [|m o [ts IH]]; [exists []; apply conc_nil|].
  exists (match m with Known t => t | Unknown => T_i32 end :: ts). apply conc_cons; auto. destruct m; cbn; auto.
Qed.
Lemma conc_bt_inv bt o u ts' : conc (match bt with Some t => Known t :: o | None => o end) u ts' ->
  exists ts, ts' = bt_list bt ++ ts /\ conc o u ts.
Proof. destruct bt; cbn; [apply conc_known_inv|eauto]. Qed.

(** ** Frames *)
Definition shape (F F' : frame) : Prop :=
  fr_is_if F' = fr_is_if F /\ fr_label F' = fr_label F /\ fr_end F' = fr_end F.
Definition same (F F' : frame) : Prop := shape F F' /\ fr_unreachable F' = fr_unreachable F.
Lemma shape_refl F : shape F F. Proof. repeat split. Qed.
Lemma same_refl F : same F F. Proof. repeat split. Qed.
Lemma shape_trans A B C : shape A B -> shape B C -> shape A C.
Proof. unfold shape. intuition congruence. Qed.
Lemma same_trans A B C : same A B -> same B C -> same A C.
Proof. unfold same, shape. intuition congruence. Qed.
Lemma same_shape A B : same A B -> shape A B. Proof. now intros []. Qed.
#[global] Hint Resolve shape_refl same_refl same_shape : vproofs.

Notation unr := fr_unreachable.
Notation opds := fr_opds.

(** ** Primitive operations on the top frame *)
Section Prims.
Variables (F : frame) (K : list frame).

Lemma pop_opd_spec s m s' : vs_ctrls s = F :: K -> pop_opd s = Some (m, s') ->
  exists F', vs_ctrls s' = F' :: K /\ same F F' /\
    forall ts t, conc (opds F') (unr F) ts -> mk_match m t -> conc (opds F) (unr F) (t :: ts).
Proof.
  intros HC. unfold pop_opd. rewrite HC. destruct (opds F) as [|m0 o] eqn:EO.
  - destruct (unr F) eqn:EU; [|discriminate]. intros E; inversion E; subst. exists F. rewrite EO.
    repeat split; auto. intros. apply conc_nil_true.
  - intros E; inversion E; subst. eexists. split; [reflexivity|]. split; [repeat split|].
    cbn. intros. apply conc_cons; auto.
Qed.

Lemma pop_expect_spec e s r s' : vs_ctrls s = F :: K -> pop_expect e s = Some (r, s') ->
  exists F', vs_ctrls s' = F' :: K /\ same F F' /\
    forall ts t, conc (opds F') (unr F) ts -> mk_match r t -> conc (opds F) (unr F) (t :: ts) /\ mk_match e t.
Proof.
  intros HC. unfold pop_expect. destruct (pop_opd s) as [[a s1]|] eqn:EP; [|discriminate].
  destruct (pop_opd_spec _ _ _ HC EP) as (F' & HC' & HS & HP).
  destruct a as [|ta]; cbn [mk_is_unknown].
  - intros E; inversion E; subst. exists F'. split; [exact HC'|]. split; [exact HS|].
    intros ts t Hts Hm. split; [apply HP; cbn; auto|exact Hm].
  - destruct e as [|te]; cbn [mk_is_unknown mk_eqb].
    + intros E; inversion E; subst. exists F'. split; [exact HC'|]. split; [exact HS|].
      intros ts t Hts Hm. split; [apply HP; auto|cbn; auto].
    + destruct (valtype_eqb ta te) eqn:EQ; [|discriminate]. intros E; inversion E; subst.
      assert (ta = te) by (destruct ta, te; cbn in EQ; congruence). subst.
      exists F'. split; [exact HC'|]. split; [exact HS|].
      intros ts t Hts Hm. split; [apply HP; auto|exact Hm].
Qed.

Lemma pop_known_spec t s s' : vs_ctrls s = F :: K -> pop_known t s = Some s' ->
  exists F', vs_ctrls s' = F' :: K /\ same F F' /\
    forall ts, conc (opds F') (unr F) ts -> conc (opds F) (unr F) (t :: ts).
Proof.
  intros HC. unfold pop_known. destruct (pop_expect (Known t) s) as [[r s1]|] eqn:EP; [|discriminate].
  intros E; inversion E; subst.
  destruct (pop_expect_spec _ _ _ _ HC EP) as (F' & HC' & HS & HP).
  exists F'. split; [exact HC'|]. split; [exact HS|]. intros ts Hts.
  destruct r as [|tr].
  - apply (HP ts t); cbn; auto.
  - destruct (HP ts tr Hts eq_refl) as [H1 H2]. cbn in H2. subst. auto.
Qed.

Lemma pop_opds_spec bt s s' : vs_ctrls s = F :: K -> pop_opds bt s = Some s' ->
  exists F', vs_ctrls s' = F' :: K /\ same F F' /\
    forall ts, conc (opds F') (unr F) ts -> conc (opds F) (unr F) (bt_list bt ++ ts).
Proof.
  intros HC. destruct bt as [t|]; cbn [pop_opds bt_list].
  - apply pop_known_spec; auto.
  - intros E; inversion E; subst. exists F. repeat split; auto.
Qed.

Lemma push_opd_ctrls m s : vs_ctrls s = F :: K -> vs_ctrls (push_opd m s) = with_opds F (m :: opds F) :: K.
Proof. intros HC. unfold push_opd. rewrite HC. destruct (unr F); reflexivity. Qed.

Lemma push_opds_ctrls bt s : vs_ctrls s = F :: K ->
  vs_ctrls (push_opds bt s) = with_opds F (match bt with Some t => Known t :: opds F | None => opds F end) :: K.
Proof.
  intros HC. destruct bt; cbn [push_opds]; [apply push_opd_ctrls; auto|].
  rewrite HC. destruct F; reflexivity.
Qed.

Lemma mark_unreachable_spec s s' : vs_ctrls s = F :: K -> mark_unreachable s = Some s' ->
  exists F', vs_ctrls s' = F' :: K /\ shape F F' /\ opds F' = [] /\ unr F' = true.
Proof.
  intros HC. unfold mark_unreachable. rewrite HC. intros E; inversion E; subst.
  eexists. split; [reflexivity|]. repeat split.
Qed.
End Prims.

Lemma with_opds_same F o : same F (with_opds F o).
Proof. repeat split. Qed.

Lemma pop_params_spec ps : forall F K s s', vs_ctrls s = F :: K -> pop_params ps s = Some s' ->
  exists F', vs_ctrls s' = F' :: K /\ same F F' /\
    forall ts, conc (opds F') (unr F) ts -> conc (opds F) (unr F) (ps ++ ts).
Proof.
  induction ps as [|t r IH]; intros F K s s' HC; cbn [pop_params app].
  - intros E; inversion E; subst. exists F. repeat split; auto.
  - destruct (pop_known t s) as [s1|] eqn:EP; [|discriminate]. intros E.
    destruct (pop_known_spec _ _ _ _ _ HC EP) as (F1 & HC1 & HS1 & HP1).
    destruct (IH _ _ _ _ HC1 E) as (F2 & HC2 & HS2 & HP2).
    exists F2. split; auto. split; [eapply same_trans; eauto|].
    intros ts Hts. apply HP1. destruct HS1 as [_ HU]. rewrite <- HU. apply HP2. rewrite HU. exact Hts.
Qed.
