(** * Wasm/ValidateProofs — soundness of the validation algorithm ([Wasm/Validate.v]) with
    respect to the declarative typing of the specification ([Wasm/Typing.v]). *)
From Coq Require Import ZArith NArith List Bool Arith Lia.
From CB Require Import Common.IntN Wasm.Syntax Gen.Limits Wasm.Validate Wasm.Typing.
Import ListNotations.

(** ** Concretisations of an abstract operand segment *)
Definition mk_match (m : mk) (t : valtype) : Prop :=
  match m with Unknown => True | Known t' => t' = t end.

(** [conc o u ts]: the concrete stack type [ts] is described by the frame-local abstract
    stack [o]; in an unreachable frame ([u = true]) anything may lie below. *)
Definition conc (o : list mk) (u : bool) (ts : list valtype) : Prop :=
  exists ts1 ts2, ts = ts1 ++ ts2 /\ Forall2 mk_match o ts1 /\ (u = false -> ts2 = []).

Lemma conc_nil u : conc [] u [].
Proof. exists [], []. repeat split; auto. Qed.
Lemma conc_nil_true ts : conc [] true ts.
Proof. exists [], ts. repeat split; auto. discriminate. Qed.
Lemma conc_nil_false ts : conc [] false ts -> ts = [].
Proof. intros (a & b & -> & F & H). inversion F; subst. cbn. auto. Qed.
Lemma conc_cons m o u t ts : mk_match m t -> conc o u ts -> conc (m :: o) u (t :: ts).
Proof. intros M (a & b & -> & F & H). exists (t :: a), b. repeat split; auto. Qed.
Lemma conc_cons_inv m o u ts' : conc (m :: o) u ts' -> exists t ts, ts' = t :: ts /\ mk_match m t /\ conc o u ts.
Proof.
  intros (a & b & -> & F & H). inversion F; subst. eexists _, _. split; [reflexivity|]. split; auto.
  eexists _, _. eauto.
Qed.
Lemma conc_known_inv t o u ts' : conc (Known t :: o) u ts' -> exists ts, ts' = t :: ts /\ conc o u ts.
Proof. intros H. apply conc_cons_inv in H. destruct H as (t' & ts & -> & M & C). cbn in M. subst. eauto. Qed.
Lemma conc_pop_empty t ts : conc [] true ts -> conc [] true (t :: ts).
Proof. intros _. apply conc_nil_true. Qed.
Lemma conc_inhabited o u : exists ts, conc o u ts.
Proof.
  induction o as [|m o [ts IH]]; [exists []; apply conc_nil|].
  exists (match m with Known t => t | Unknown => T_i32 end :: ts). apply conc_cons; auto. destruct m; cbn; auto.
Qed.
Lemma conc_bt_inv bt o u ts' : conc (match bt with Some t => Known t :: o | None => o end) u ts' ->
  exists ts, ts' = bt_list bt ++ ts /\ conc o u ts.
Proof. destruct bt; cbn; [apply conc_known_inv|eauto]. Qed.

(** ** Frames *)
Definition shape (F F' : frame) : Prop :=
  fr_is_if F' = fr_is_if F /\ fr_label F' = fr_label F /\ fr_end F' = fr_end F.
Definition same (F F' : frame) : Prop := shape F F' /\ fr_unreachable F' = fr_unreachable F.
Lemma shape_refl F : shape F F. Proof. repeat split. Qed.
Lemma same_refl F : same F F. Proof. repeat split. Qed.
Lemma shape_trans A B C : shape A B -> shape B C -> shape A C.
Proof. unfold shape. intuition congruence. Qed.
Lemma same_trans A B C : same A B -> same B C -> same A C.
Proof. unfold same, shape. intuition congruence. Qed.
Lemma same_shape A B : same A B -> shape A B. Proof. now intros []. Qed.
#[global] Hint Resolve shape_refl same_refl same_shape : vproofs.

Notation unr := fr_unreachable.
Notation opds := fr_opds.

(** ** Primitive operations on the top frame *)
Section Prims.
Variables (F : frame) (K : list frame).

Lemma pop_opd_spec s m s' : vs_ctrls s = F :: K -> pop_opd s = Some (m, s') ->
  exists F', vs_ctrls s' = F' :: K /\ same F F' /\
    forall ts t, conc (opds F') (unr F) ts -> mk_match m t -> conc (opds F) (unr F) (t :: ts).
Proof.
  intros HC. unfold pop_opd. rewrite HC. destruct (opds F) as [|m0 o] eqn:EO.
  - destruct (unr F) eqn:EU; [|discriminate]. intros E; inversion E; subst. exists F. rewrite EO.
    repeat split; auto. intros. apply conc_nil_true.
  - intros E; inversion E; subst. eexists. split; [reflexivity|]. split; [repeat split|].
    cbn. intros. apply conc_cons; auto.
Qed.

Lemma pop_expect_spec e s r s' : vs_ctrls s = F :: K -> pop_expect e s = Some (r, s') ->
  exists F', vs_ctrls s' = F' :: K /\ same F F' /\
    forall ts t, conc (opds F') (unr F) ts -> mk_match r t -> conc (opds F) (unr F) (t :: ts) /\ mk_match e t.
Proof.
  intros HC. unfold pop_expect. destruct (pop_opd s) as [[a s1]|] eqn:EP; [|discriminate].
  destruct (pop_opd_spec _ _ _ HC EP) as (F' & HC' & HS & HP).
  destruct a as [|ta]; cbn [mk_is_unknown].
  - intros E; inversion E; subst. exists F'. split; [exact HC'|]. split; [exact HS|].
    intros ts t Hts Hm. split; [apply HP; cbn; auto|exact Hm].
  - destruct e as [|te]; cbn [mk_is_unknown mk_eqb].
    + intros E; inversion E; subst. exists F'. split; [exact HC'|]. split; [exact HS|].
      intros ts t Hts Hm. split; [apply HP; auto|cbn; auto].
    + destruct (valtype_eqb ta te) eqn:EQ; [|discriminate]. intros E; inversion E; subst.
      assert (ta = te) by (destruct ta, te; cbn in EQ; congruence). subst.
      exists F'. split; [exact HC'|]. split; [exact HS|].
      intros ts t Hts Hm. split; [apply HP; auto|exact Hm].
Qed.

Lemma pop_known_spec t s s' : vs_ctrls s = F :: K -> pop_known t s = Some s' ->
  exists F', vs_ctrls s' = F' :: K /\ same F F' /\
    forall ts, conc (opds F') (unr F) ts -> conc (opds F) (unr F) (t :: ts).
Proof.
  intros HC. unfold pop_known. destruct (pop_expect (Known t) s) as [[r s1]|] eqn:EP; [|discriminate].
  intros E; inversion E; subst.
  destruct (pop_expect_spec _ _ _ _ HC EP) as (F' & HC' & HS & HP).
  exists F'. split; [exact HC'|]. split; [exact HS|]. intros ts Hts.
  destruct r as [|tr].
  - apply (HP ts t); cbn; auto.
  - destruct (HP ts tr Hts eq_refl) as [H1 H2]. cbn in H2. subst. auto.
Qed.

Lemma pop_opds_spec bt s s' : vs_ctrls s = F :: K -> pop_opds bt s = Some s' ->
  exists F', vs_ctrls s' = F' :: K /\ same F F' /\
    forall ts, conc (opds F') (unr F) ts -> conc (opds F) (unr F) (bt_list bt ++ ts).
Proof.
  intros HC. destruct bt as [t|]; cbn [pop_opds bt_list].
  - apply pop_known_spec; auto.
  - intros E; inversion E; subst. exists F. repeat split; auto.
Qed.

Lemma push_opd_ctrls m s : vs_ctrls s = F :: K -> vs_ctrls (push_opd m s) = with_opds F (m :: opds F) :: K.
Proof. intros HC. unfold push_opd. rewrite HC. destruct (unr F); reflexivity. Qed.

Lemma push_opds_ctrls bt s : vs_ctrls s = F :: K ->
  vs_ctrls (push_opds bt s) = with_opds F (match bt with Some t => Known t :: opds F | None => opds F end) :: K.
Proof.
  intros HC. destruct bt; cbn [push_opds]; [apply push_opd_ctrls; auto|].
  rewrite HC. destruct F; reflexivity.
Qed.

Lemma mark_unreachable_spec s s' : vs_ctrls s = F :: K -> mark_unreachable s = Some s' ->
  exists F', vs_ctrls s' = F' :: K /\ shape F F' /\ opds F' = [] /\ unr F' = true.
Proof.
  intros HC. unfold mark_unreachable. rewrite HC. intros E; inversion E; subst.
  eexists. split; [reflexivity|]. repeat split.
Qed.
End Prims.

Lemma with_opds_same F o : same F (with_opds F o).
Proof. repeat split. Qed.

Lemma pop_params_spec ps : forall F K s s', vs_ctrls s = F :: K -> pop_params ps s = Some s' ->
  exists F', vs_ctrls s' = F' :: K /\ same F F' /\
    forall ts, conc (opds F') (unr F) ts -> conc (opds F) (unr F) (ps ++ ts).
Proof.
  induction ps as [|t r IH]; intros F K s s' HC; cbn [pop_params app].
  - intros E; inversion E; subst. exists F. repeat split; auto.
  - destruct (pop_known t s) as [s1|] eqn:EP; [|discriminate]. intros E.
    destruct (pop_known_spec _ _ _ _ _ HC EP) as (F1 & HC1 & HS1 & HP1).
    destruct (IH _ _ _ _ HC1 E) as (F2 & HC2 & HS2 & HP2).
    exists F2. split; auto. split; [eapply same_trans; eauto|].
    intros ts Hts. apply HP1. destruct HS1 as [_ HU]. rewrite <- HU. apply HP2. rewrite HU. exact Hts.
Qed.

(** variants that thread the reachability flag of each frame *)
Lemma pop_opd_spec' F K s m s' : vs_ctrls s = F :: K -> pop_opd s = Some (m, s') ->
  exists F', vs_ctrls s' = F' :: K /\ shape F F' /\ unr F' = unr F /\
    forall ts t, conc (opds F') (unr F') ts -> mk_match m t -> conc (opds F) (unr F) (t :: ts).
Proof.
  intros HC E. destruct (pop_opd_spec _ _ _ _ _ HC E) as (F' & H1 & [H2 H3] & H4).
  exists F'. rewrite H3. auto.
Qed.
Lemma pop_expect_spec' F K e s r s' : vs_ctrls s = F :: K -> pop_expect e s = Some (r, s') ->
  exists F', vs_ctrls s' = F' :: K /\ shape F F' /\ unr F' = unr F /\
    forall ts t, conc (opds F') (unr F') ts -> mk_match r t -> conc (opds F) (unr F) (t :: ts) /\ mk_match e t.
Proof.
  intros HC E. destruct (pop_expect_spec _ _ _ _ _ _ HC E) as (F' & H1 & [H2 H3] & H4).
  exists F'. rewrite H3. auto.
Qed.
Lemma pop_known_spec' F K t s s' : vs_ctrls s = F :: K -> pop_known t s = Some s' ->
  exists F', vs_ctrls s' = F' :: K /\ shape F F' /\ unr F' = unr F /\
    forall ts, conc (opds F') (unr F') ts -> conc (opds F) (unr F) (t :: ts).
Proof.
  intros HC E. destruct (pop_known_spec _ _ _ _ _ HC E) as (F' & H1 & [H2 H3] & H4).
  exists F'. rewrite H3. auto.
Qed.
Lemma pop_opds_spec' F K bt s s' : vs_ctrls s = F :: K -> pop_opds bt s = Some s' ->
  exists F', vs_ctrls s' = F' :: K /\ shape F F' /\ unr F' = unr F /\
    forall ts, conc (opds F') (unr F') ts -> conc (opds F) (unr F) (bt_list bt ++ ts).
Proof.
  intros HC E. destruct (pop_opds_spec _ _ _ _ _ HC E) as (F' & H1 & [H2 H3] & H4).
  exists F'. rewrite H3. auto.
Qed.
Lemma pop_params_spec' F K ps s s' : vs_ctrls s = F :: K -> pop_params ps s = Some s' ->
  exists F', vs_ctrls s' = F' :: K /\ shape F F' /\ unr F' = unr F /\
    forall ts, conc (opds F') (unr F') ts -> conc (opds F) (unr F) (ps ++ ts).
Proof.
  intros HC E. destruct (pop_params_spec _ _ _ _ _ HC E) as (F' & H1 & [H2 H3] & H4).
  exists F'. rewrite H3. auto.
Qed.

(** ** The typing context described by a validation state *)
Definition dummy_ft : functype := {| ft_params := []; ft_result := None |}.
Definition mkC (c : vctx) (labels : list blocktype) : tctx :=
  {| tc_types := vc_types c;
     tc_funcs := map (fun ti => nth ti (vc_types c) dummy_ft) (vc_funcs c);
     tc_globals := vc_globals c; tc_locals := vc_locals c;
     tc_memory := vc_memory c; tc_table := vc_table c;
     tc_labels := labels; tc_return := last labels None |}.

Lemma get_func_tc c L f ft : get_func c f = Some ft -> nth_error (tc_funcs (mkC c L)) f = Some ft.
Proof.
  unfold get_func, get_type. destruct (nth_error (vc_funcs c) f) as [ti|] eqn:E; [|discriminate].
  intros H. cbn [mkC tc_funcs]. rewrite (map_nth_error _ _ _ E). f_equal. now apply nth_error_nth.
Qed.

Lemma get_label_map s l : get_label s l = nth_error (map fr_label (vs_ctrls s)) l.
Proof.
  unfold get_label. generalize (vs_ctrls s). intros cs. revert l.
  induction cs as [|f r IH]; intros [|l]; cbn; auto.
Qed.

Lemma outermost_label s f : outermost s = Some f -> last (map fr_label (vs_ctrls s)) None = fr_label f.
Proof.
  unfold outermost. generalize (vs_ctrls s). intros cs.
  induction cs as [|a r IH]; cbn [map last]; [discriminate|].
  destruct r as [|b r']; cbn [map] in *; [intros E; inversion E; reflexivity|]. exact IH.
Qed.
Lemma outermost_some s F K : vs_ctrls s = F :: K -> exists f, outermost s = Some f.
Proof.
  unfold outermost. intros ->. generalize F. induction K as [|a r IH]; intros G; cbn [map last]; eauto.
  apply (IH a).
Qed.

Lemma guard_true b u : guard b = Some u -> b = true.
Proof. destruct b; [auto|discriminate]. Qed.
Lemma blocktype_eqb_eq a b : blocktype_eqb a b = true -> a = b.
Proof. destruct a as [[]|], b as [[]|]; cbn; congruence. Qed.

Ltac bind H :=
  match type of H with
  | obind ?x _ = Some _ =>
      let E := fresh "E" in destruct x eqn:E; [cbn [obind] in H|discriminate H]
  end.
Ltac grd E := apply guard_true in E.

Lemma shape_with_opds F F' o : shape F F' -> shape F (with_opds F' o).
Proof. intros (A & B & C). repeat split; auto. Qed.

Lemma vstep_basic_sound c s F K b al s' :
  vs_ctrls s = F :: K -> vstep_basic c s b al = Some s' ->
  exists F', vs_ctrls s' = F' :: K /\ shape F F' /\
    forall ts', conc (opds F') (unr F') ts' ->
      exists ts, conc (opds F) (unr F) ts /\ basic_ok (mkC c (map fr_label (F :: K))) b ts ts'.
Proof.
  intros HC H.
  pose proof (get_label_map s) as GL. rewrite HC in GL.
  destruct b; cbn [vstep_basic] in H.
  - (* unreachable *)
    destruct (mark_unreachable_spec _ _ _ _ HC H) as (F' & HC' & HS & HO & HU).
    exists F'. split; auto. split; auto. intros ts' _. destruct (conc_inhabited (opds F) (unr F)) as [ts Hts].
    exists ts. split; auto. constructor.
  - (* nop *)
    inversion H; subst. exists F. split; auto. split; [apply shape_refl|]. intros ts' Hts. exists ts'. split; auto. constructor.
  - (* br *)
    bind H. rename b into lt. bind H.
    destruct (pop_opds_spec' _ _ _ _ _ HC E0) as (F1 & HC1 & HS1 & HU1 & HP1).
    destruct (mark_unreachable_spec _ _ _ _ HC1 H) as (F' & HC' & HS & HO & HU).
    exists F'. split; auto. split; [eapply shape_trans; eauto|]. intros ts' _.
    destruct (conc_inhabited (opds F1) (unr F1)) as [ts1 Hts1].
    exists (bt_list lt ++ ts1). split; [auto|]. constructor. cbn [mkC tc_labels]. rewrite <- GL. exact E.
  - (* br_if *)
    bind H. rename b into lt. bind H. bind H. inversion H; subst; clear H.
    destruct (pop_known_spec' _ _ _ _ _ HC E0) as (F1 & HC1 & HS1 & HU1 & HP1).
    destruct (pop_opds_spec' _ _ _ _ _ HC1 E1) as (F2 & HC2 & HS2 & HU2 & HP2).
    eexists. split; [apply push_opds_ctrls; eauto|]. split; [apply shape_with_opds; eapply shape_trans; eauto|].
    cbn [with_opds fr_opds fr_unreachable]. intros ts' Hts'. apply conc_bt_inv in Hts'. destruct Hts' as (ts & -> & Hts).
    exists (T_i32 :: bt_list lt ++ ts). split; [auto|]. constructor. cbn [mkC tc_labels]. rewrite <- GL. exact E.
  - (* br_table *)
    bind H. grd E. bind H. rename b into dlt. bind H. grd E1. bind H. bind H.
    destruct (pop_known_spec' _ _ _ _ _ HC E2) as (F1 & HC1 & HS1 & HU1 & HP1).
    destruct (pop_opds_spec' _ _ _ _ _ HC1 E3) as (F2 & HC2 & HS2 & HU2 & HP2).
    destruct (mark_unreachable_spec _ _ _ _ HC2 H) as (F' & HC' & HS & HO & HU).
    exists F'. split; auto. split; [eapply shape_trans; [|eauto]; eapply shape_trans; eauto|]. intros ts' _.
    destruct (conc_inhabited (opds F2) (unr F2)) as [ts2 Hts2].
    exists (T_i32 :: bt_list dlt ++ ts2). split; [auto|]. constructor; cbn [mkC tc_labels].
    + rewrite <- GL. exact E0.
    + apply Forall_forall. intros l Hl. rewrite forallb_forall in E1. specialize (E1 _ Hl).
      rewrite <- GL. destruct (get_label s l) as [lt|]; [|discriminate]. apply blocktype_eqb_eq in E1. congruence.
  - (* return *)
    destruct (outermost_some _ _ _ HC) as [f Hf]. rewrite Hf in H. bind H.
    destruct (pop_opds_spec' _ _ _ _ _ HC E) as (F1 & HC1 & HS1 & HU1 & HP1).
    destruct (mark_unreachable_spec _ _ _ _ HC1 H) as (F' & HC' & HS & HO & HU).
    exists F'. split; auto. split; [eapply shape_trans; eauto|]. intros ts' _.
    destruct (conc_inhabited (opds F1) (unr F1)) as [ts1 Hts1].
    exists (bt_list (fr_label f) ++ ts1). split; [auto|].
    pose proof (outermost_label _ _ Hf) as OL. rewrite HC in OL.
    replace (fr_label f) with (tc_return (mkC c (map fr_label (F :: K)))) by (cbn [mkC tc_return]; exact OL).
    constructor.
  - (* call *)
    bind H. bind H. inversion H; subst; clear H.
    destruct (pop_params_spec' _ _ _ _ _ HC E0) as (F1 & HC1 & HS1 & HU1 & HP1).
    eexists. split; [apply push_opds_ctrls; eauto|]. split; [apply shape_with_opds; auto|].
    cbn [with_opds fr_opds fr_unreachable]. intros ts' Hts'. apply conc_bt_inv in Hts'. destruct Hts' as (ts & -> & Hts).
    exists (rev (ft_params f0) ++ ts). split; [auto|]. constructor. apply get_func_tc. exact E.
  - (* call_indirect *)
    bind H. grd E. bind H. bind H. bind H. inversion H; subst; clear H.
    destruct (pop_known_spec' _ _ _ _ _ HC E1) as (F1 & HC1 & HS1 & HU1 & HP1).
    destruct (pop_params_spec' _ _ _ _ _ HC1 E2) as (F2 & HC2 & HS2 & HU2 & HP2).
    eexists. split; [apply push_opds_ctrls; eauto|]. split; [apply shape_with_opds; eapply shape_trans; eauto|].
    cbn [with_opds fr_opds fr_unreachable]. intros ts' Hts'. apply conc_bt_inv in Hts'. destruct Hts' as (ts & -> & Hts).
    exists (T_i32 :: rev (ft_params f) ++ ts). split; [auto|]. constructor; auto.
  - (* drop *)
    bind H. destruct p as [m s1]. inversion H; subst; clear H. cbn [snd].
    destruct (pop_opd_spec' _ _ _ _ _ HC E) as (F1 & HC1 & HS1 & HU1 & HP1).
    exists F1. split; auto. split; auto. intros ts' Hts'.
    exists ((match m with Known t => t | Unknown => T_i32 end) :: ts'). split; [|constructor].
    apply HP1; auto. destruct m; cbn; auto.
  - (* select *)
    bind H. bind H. destruct p as [m1 s2]. cbn [fst snd] in H. bind H. destruct p as [m2 s3]. cbn [fst snd] in H.
    inversion H; subst; clear H.
    destruct (pop_known_spec' _ _ _ _ _ HC E) as (F1 & HC1 & HS1 & HU1 & HP1).
    destruct (pop_opd_spec' _ _ _ _ _ HC1 E0) as (F2 & HC2 & HS2 & HU2 & HP2).
    destruct (pop_expect_spec' _ _ _ _ _ _ HC2 E1) as (F3 & HC3 & HS3 & HU3 & HP3).
    eexists. split; [apply push_opd_ctrls; eauto|].
    split; [apply shape_with_opds; eapply shape_trans; [|eauto]; eapply shape_trans; eauto|].
    cbn [with_opds fr_opds fr_unreachable]. intros ts' Hts'. apply conc_cons_inv in Hts'.
    destruct Hts' as (t & ts & -> & Hm & Hts). destruct (HP3 _ _ Hts Hm) as [Q1 Q2].
    exists (T_i32 :: t :: t :: ts). split; [auto|]. constructor.
  - (* local.get *)
    bind H. inversion H; subst; clear H.
    eexists. split; [apply push_opd_ctrls; eauto|]. split; [apply shape_with_opds; apply shape_refl|].
    cbn [with_opds fr_opds fr_unreachable]. intros ts' Hts'. apply conc_known_inv in Hts'. destruct Hts' as (ts & -> & Hts).
    exists ts. split; auto. constructor. exact E.
  - (* local.set *)
    bind H. destruct (pop_known_spec' _ _ _ _ _ HC H) as (F1 & HC1 & HS1 & HU1 & HP1).
    exists F1. split; auto. split; auto. intros ts' Hts'. exists (v :: ts'). split; auto. constructor. exact E.
  - (* local.tee *)
    bind H. bind H. destruct p as [r s1]. cbn [fst snd] in H. inversion H; subst; clear H.
    destruct (pop_expect_spec' _ _ _ _ _ _ HC E0) as (F1 & HC1 & HS1 & HU1 & HP1).
    eexists. split; [apply push_opd_ctrls; eauto|]. split; [apply shape_with_opds; auto|].
    cbn [with_opds fr_opds fr_unreachable]. intros ts' Hts'. apply conc_cons_inv in Hts'.
    destruct Hts' as (t & ts & -> & Hm & Hts). destruct (HP1 _ _ Hts Hm) as [Q1 Q2]. cbn in Q2. subst.
    exists (t :: ts). split; auto. constructor. exact E.
  - (* global.get *)
    bind H. destruct p as [gt gm]. inversion H; subst; clear H. cbn [fst].
    eexists. split; [apply push_opd_ctrls; eauto|]. split; [apply shape_with_opds; apply shape_refl|].
    cbn [with_opds fr_opds fr_unreachable]. intros ts' Hts'. apply conc_known_inv in Hts'. destruct Hts' as (ts & -> & Hts).
    exists ts. split; auto. econstructor. exact E.
  - (* global.set *)
    bind H. destruct p as [gt gm]. cbn [fst snd] in H. bind H. grd E0. subst.
    destruct (pop_known_spec' _ _ _ _ _ HC H) as (F1 & HC1 & HS1 & HU1 & HP1).
    exists F1. split; auto. split; auto. intros ts' Hts'. exists (gt :: ts'). split; auto. constructor. exact E.
  - (* load *)
    bind H. grd E. bind H. grd E0. bind H. bind H. inversion H; subst; clear H.
    destruct (pop_known_spec' _ _ _ _ _ HC E2) as (F1 & HC1 & HS1 & HU1 & HP1).
    eexists. split; [apply push_opd_ctrls; eauto|]. split; [apply shape_with_opds; auto|].
    cbn [with_opds fr_opds fr_unreachable]. intros ts' Hts'. apply conc_known_inv in Hts'. destruct Hts' as (ts & -> & Hts).
    exists (T_i32 :: ts). split; auto. constructor; auto.
    destruct pk as [[[] ?]|]; cbn; auto. destruct t; cbn in E0; congruence.
  - (* store *)
    bind H. grd E. bind H. grd E0. bind H. bind H.
    destruct (pop_known_spec' _ _ _ _ _ HC E2) as (F1 & HC1 & HS1 & HU1 & HP1).
    destruct (pop_known_spec' _ _ _ _ _ HC1 H) as (F2 & HC2 & HS2 & HU2 & HP2).
    exists F2. split; auto. split; [eapply shape_trans; eauto|]. intros ts' Hts'.
    exists (t :: T_i32 :: ts'). split; auto. constructor; auto.
    destruct pk as [[]|]; cbn; auto. destruct t; cbn in E0; congruence.
  - (* memory.size *)
    bind H. grd E. inversion H; subst; clear H.
    eexists. split; [apply push_opd_ctrls; eauto|]. split; [apply shape_with_opds; apply shape_refl|].
    cbn [with_opds fr_opds fr_unreachable]. intros ts' Hts'. apply conc_known_inv in Hts'. destruct Hts' as (ts & -> & Hts).
    exists ts. split; auto. constructor; auto.
  - (* memory.grow *)
    bind H. grd E. bind H. inversion H; subst; clear H.
    destruct (pop_known_spec' _ _ _ _ _ HC E0) as (F1 & HC1 & HS1 & HU1 & HP1).
    eexists. split; [apply push_opd_ctrls; eauto|]. split; [apply shape_with_opds; auto|].
    cbn [with_opds fr_opds fr_unreachable]. intros ts' Hts'. apply conc_known_inv in Hts'. destruct Hts' as (ts & -> & Hts).
    exists (T_i32 :: ts). split; auto. constructor; auto.
  - (* const *)
    inversion H; subst; clear H.
    eexists. split; [apply push_opd_ctrls; eauto|]. split; [apply shape_with_opds; apply shape_refl|].
    cbn [with_opds fr_opds fr_unreachable]. intros ts' Hts'. apply conc_known_inv in Hts'. destruct Hts' as (ts & -> & Hts).
    exists ts. split; auto. constructor.
  - (* unop *)
    bind H. grd E. bind H. inversion H; subst; clear H.
    destruct (pop_known_spec' _ _ _ _ _ HC E0) as (F1 & HC1 & HS1 & HU1 & HP1).
    eexists. split; [apply push_opd_ctrls; eauto|]. split; [apply shape_with_opds; auto|].
    cbn [with_opds fr_opds fr_unreachable]. intros ts' Hts'. apply conc_known_inv in Hts'. destruct Hts' as (ts & -> & Hts).
    exists (t :: ts). split; auto. constructor.
    unfold unop_ok in E. apply andb_true_iff in E. destruct E as [_ E]. destruct op; cbn; auto. destruct t; [discriminate|auto].
  - (* binop *)
    bind H. bind H. inversion H; subst; clear H.
    destruct (pop_known_spec' _ _ _ _ _ HC E) as (F1 & HC1 & HS1 & HU1 & HP1).
    destruct (pop_known_spec' _ _ _ _ _ HC1 E0) as (F2 & HC2 & HS2 & HU2 & HP2).
    eexists. split; [apply push_opd_ctrls; eauto|]. split; [apply shape_with_opds; eapply shape_trans; eauto|].
    cbn [with_opds fr_opds fr_unreachable]. intros ts' Hts'. apply conc_known_inv in Hts'. destruct Hts' as (ts & -> & Hts).
    exists (t :: t :: ts). split; auto. constructor.
  - (* eqz *)
    bind H. inversion H; subst; clear H.
    destruct (pop_known_spec' _ _ _ _ _ HC E) as (F1 & HC1 & HS1 & HU1 & HP1).
    eexists. split; [apply push_opd_ctrls; eauto|]. split; [apply shape_with_opds; auto|].
    cbn [with_opds fr_opds fr_unreachable]. intros ts' Hts'. apply conc_known_inv in Hts'. destruct Hts' as (ts & -> & Hts).
    exists (t :: ts). split; auto. constructor.
  - (* relop *)
    bind H. bind H. inversion H; subst; clear H.
    destruct (pop_known_spec' _ _ _ _ _ HC E) as (F1 & HC1 & HS1 & HU1 & HP1).
    destruct (pop_known_spec' _ _ _ _ _ HC1 E0) as (F2 & HC2 & HS2 & HU2 & HP2).
    eexists. split; [apply push_opd_ctrls; eauto|]. split; [apply shape_with_opds; eapply shape_trans; eauto|].
    cbn [with_opds fr_opds fr_unreachable]. intros ts' Hts'. apply conc_known_inv in Hts'. destruct Hts' as (ts & -> & Hts).
    exists (t :: t :: ts). split; auto. constructor.
  - (* cvt *)
    bind H. inversion H; subst; clear H.
    destruct (pop_known_spec' _ _ _ _ _ HC E) as (F1 & HC1 & HS1 & HU1 & HP1).
    eexists. split; [apply push_opd_ctrls; eauto|]. split; [apply shape_with_opds; auto|].
    cbn [with_opds fr_opds fr_unreachable]. intros ts' Hts'. apply conc_known_inv in Hts'. destruct Hts' as (ts & -> & Hts).
    exists (fst (cvt_types op) :: ts). split; auto. destruct op; constructor.
  - discriminate.
Qed.

(** ** Closing frames *)
Lemma pop_ctrl_spec F K s res isif s2 : vs_ctrls s = F :: K -> pop_ctrl s = Some (res, isif, s2) ->
  res = fr_end F /\ isif = fr_is_if F /\ vs_ctrls s2 = K /\ conc (opds F) (unr F) (bt_list (fr_end F)).
Proof.
  intros HC. unfold pop_ctrl. rewrite HC. destruct (pop_opds (fr_end F) s) as [s1|] eqn:E; [|discriminate].
  destruct (pop_opds_spec' _ _ _ _ _ HC E) as (F1 & HC1 & HS1 & HU1 & HP1). rewrite HC1.
  destruct (opds F1) eqn:EO; [|discriminate]. intros H; inversion H; subst. repeat split; auto.
  specialize (HP1 []). rewrite app_nil_r in HP1. apply HP1. apply conc_nil.
Qed.

Lemma vrun_strict_cons c s F K o r sf : vs_ctrls s = F :: K -> vrun_strict c s (o :: r) = Some sf ->
  exists s1, vstep c s o = Some s1 /\ vrun_strict c s1 r = Some sf.
Proof.
  intros HC. cbn [vrun_strict]. rewrite HC. destruct (vstep c s o) as [s1|]; [|discriminate]. eauto.
Qed.

Lemma end_step c s F0 K' dl s3 : vs_ctrls s = F0 :: K' -> fst dl = OEnd -> vstep c s dl = Some s3 ->
  exists s2, vs_ctrls s2 = K' /\ s3 = push_opds (fr_end F0) s2 /\
    conc (opds F0) (unr F0) (bt_list (fr_end F0)) /\ (fr_is_if F0 = true -> fr_end F0 = None).
Proof.
  intros HC HD. unfold vstep. rewrite HD. intros H. bind H. destruct p as [[res isif] s2].
  destruct (pop_ctrl_spec _ _ _ _ _ _ HC E) as (-> & -> & HC2 & HCn). bind H. grd E0. inversion H; subst.
  exists s2. repeat split; auto. intros HI. rewrite HI in E0. cbn in E0. now apply blocktype_eqb_eq in E0.
Qed.

Lemma else_step c s F0 K' dl s3 : vs_ctrls s = F0 :: K' -> fst dl = OElse -> vstep c s dl = Some s3 ->
  fr_is_if F0 = true /\ exists s2, vs_ctrls s2 = K' /\ s3 = push_ctrl false (fr_end F0) (fr_end F0) s2 /\
    conc (opds F0) (unr F0) (bt_list (fr_end F0)).
Proof.
  intros HC HD. unfold vstep. rewrite HD. intros H. bind H. destruct p as [[res isif] s2].
  destruct (pop_ctrl_spec _ _ _ _ _ _ HC E) as (-> & -> & HC2 & HCn). bind H. grd E0. inversion H; subst.
  split; auto. exists s2. repeat split; auto.
Qed.

Lemma map_label_shape F F' K : shape F F' -> map fr_label (F' :: K) = map fr_label (F :: K).
Proof. intros (_ & H & _). cbn. now rewrite H. Qed.

Definition new_frame (is_if : bool) (l e : blocktype) : frame :=
  {| fr_is_if := is_if; fr_label := l; fr_end := e; fr_unreachable := false; fr_opds := [] |}.

Lemma parse_seq_basic f b rest : parse_seq (S f) (OBasic b :: rest) =
  match parse_seq f rest with Some (is, d, r) => Some (Basic b :: is, d, r) | None => None end.
Proof. reflexivity. Qed.
Lemma parse_seq_block f bt rest : parse_seq (S f) (OBlock bt :: rest) =
  match parse_seq f rest with
  | Some (body, false, r) =>
      match parse_seq f r with Some (is, d, r') => Some (Block bt body :: is, d, r') | None => None end
  | _ => None
  end.
Proof. reflexivity. Qed.
Lemma parse_seq_loop f bt rest : parse_seq (S f) (OLoop bt :: rest) =
  match parse_seq f rest with
  | Some (body, false, r) =>
      match parse_seq f r with Some (is, d, r') => Some (Loop bt body :: is, d, r') | None => None end
  | _ => None
  end.
Proof. reflexivity. Qed.
Lemma parse_seq_if f bt rest : parse_seq (S f) (OIf bt :: rest) =
  match parse_seq f rest with
  | Some (thn, false, r) =>
      match parse_seq f r with Some (is, d, r') => Some (If bt thn [] :: is, d, r') | None => None end
  | Some (thn, true, r) =>
      match parse_seq f r with
      | Some (els, false, r2) =>
          match parse_seq f r2 with Some (is, d, r') => Some (If bt thn els :: is, d, r') | None => None end
      | _ => None
      end
  | None => None
  end.
Proof. reflexivity. Qed.

(** ** The flat run reconstructs the structure and a typing derivation *)
Lemma flat_sound c : forall n ops s F K sf,
  length ops <= n -> vs_ctrls s = F :: K -> vrun_strict c s ops = Some sf -> vs_ctrls sf = [] ->
  exists is d rest s' F' dl,
    parse_seq (S n) (map fst ops) = Some (is, d, map fst rest) /\
    vs_ctrls s' = F' :: K /\ shape F F' /\
    (forall ts', conc (opds F') (unr F') ts' ->
       exists ts, conc (opds F) (unr F) ts /\ seq_ok (mkC c (map fr_label (F :: K))) is ts ts') /\
    fst dl = (if d then OElse else OEnd) /\ vrun_strict c s' (dl :: rest) = Some sf /\
    length rest < length ops.
Proof.
  induction n as [|n IH]; intros ops s F K sf HL HC HR HF.
  { destruct ops; [|cbn in HL; lia]. cbn in HR. inversion HR; subst. congruence. }
  destruct ops as [|o rest]; [cbn in HR; inversion HR; subst; congruence|].
  cbn [length] in HL. assert (HL' : length rest <= n) by lia.
  destruct (vrun_strict_cons _ _ _ _ _ _ _ HC HR) as (s1 & EV & HR1).
  destruct o as [op al]. destruct op as [| |bt|bt|bt|b].
  - (* end *)
    exists [], false, rest, s, F, (OEnd, al). cbn [map fst parse_seq]. repeat split; auto using shape_refl.
    intros ts' Hts. exists ts'. split; auto. constructor.
  - (* else *)
    exists [], true, rest, s, F, (OElse, al). cbn [map fst parse_seq]. repeat split; auto using shape_refl.
    intros ts' Hts. exists ts'. split; auto. constructor.
  - (* block *)
    cbn in EV. inversion EV; subst s1; clear EV.
    assert (HC1 : vs_ctrls (push_ctrl false bt bt s) = new_frame false bt bt :: F :: K) by (cbn; now rewrite HC).
    destruct (IH _ _ _ _ _ HL' HC1 HR1 HF) as (is1 & d1 & rest1 & s1' & F0' & dl1 & P1 & HC1' & HS1 & HT1 & HD1 & HR1' & HL1).
    destruct (vrun_strict_cons _ _ _ _ _ _ _ HC1' HR1') as (s3 & EV2 & HR2).
    destruct d1.
    { destruct (else_step _ _ _ _ _ _ HC1' HD1 EV2) as [HI _]. destruct HS1 as (HS1 & _). rewrite HS1 in HI. discriminate. }
    destruct (end_step _ _ _ _ _ _ HC1' HD1 EV2) as (s2 & HC2 & -> & HCn & _).
    pose proof HS1 as (_ & _ & HE). cbn in HE. rewrite HE in *.
    pose proof (push_opds_ctrls _ _ bt _ HC2) as HC3.
    assert (HL1' : length rest1 <= n) by lia.
    destruct (IH _ _ _ _ _ HL1' HC3 HR2 HF) as (is2 & d2 & rest2 & s' & F' & dl2 & P2 & HC' & HS2 & HT2 & HD2 & HR' & HL2).
    exists (Block bt is1 :: is2), d2, rest2, s', F', dl2.
    split. { cbn [map fst]. rewrite parse_seq_block, P1, P2. reflexivity. }
    split; auto. split. { eapply shape_trans; [|exact HS2]. apply shape_with_opds, shape_refl. }
    split.
    { intros ts' Hts'. destruct (HT2 _ Hts') as (ts3 & Hts3 & HSeq). cbn [with_opds fr_opds fr_unreachable] in Hts3.
      apply conc_bt_inv in Hts3. destruct Hts3 as (ts0 & -> & Hts0). exists ts0. split; auto.
      econstructor; [|exact HSeq]. constructor.
      destruct (HT1 _ HCn) as (tsb & Hb & HSb). cbn in Hb. apply conc_nil_false in Hb. subst. exact HSb. }
    split; auto. split; auto. cbn [length]. lia.
  - (* loop *)
    cbn in EV. inversion EV; subst s1; clear EV.
    assert (HC1 : vs_ctrls (push_ctrl false None bt s) = new_frame false None bt :: F :: K) by (cbn; now rewrite HC).
    destruct (IH _ _ _ _ _ HL' HC1 HR1 HF) as (is1 & d1 & rest1 & s1' & F0' & dl1 & P1 & HC1' & HS1 & HT1 & HD1 & HR1' & HL1).
    destruct (vrun_strict_cons _ _ _ _ _ _ _ HC1' HR1') as (s3 & EV2 & HR2).
    destruct d1.
    { destruct (else_step _ _ _ _ _ _ HC1' HD1 EV2) as [HI _]. destruct HS1 as (HS1 & _). rewrite HS1 in HI. discriminate. }
    destruct (end_step _ _ _ _ _ _ HC1' HD1 EV2) as (s2 & HC2 & -> & HCn & _).
    pose proof HS1 as (_ & _ & HE). cbn in HE. rewrite HE in *.
    pose proof (push_opds_ctrls _ _ bt _ HC2) as HC3.
    assert (HL1' : length rest1 <= n) by lia.
    destruct (IH _ _ _ _ _ HL1' HC3 HR2 HF) as (is2 & d2 & rest2 & s' & F' & dl2 & P2 & HC' & HS2 & HT2 & HD2 & HR' & HL2).
    exists (Loop bt is1 :: is2), d2, rest2, s', F', dl2.
    split. { cbn [map fst]. rewrite parse_seq_loop, P1, P2. reflexivity. }
    split; auto. split. { eapply shape_trans; [|exact HS2]. apply shape_with_opds, shape_refl. }
    split.
    { intros ts' Hts'. destruct (HT2 _ Hts') as (ts3 & Hts3 & HSeq). cbn [with_opds fr_opds fr_unreachable] in Hts3.
      apply conc_bt_inv in Hts3. destruct Hts3 as (ts0 & -> & Hts0). exists ts0. split; auto.
      econstructor; [|exact HSeq]. constructor.
      destruct (HT1 _ HCn) as (tsb & Hb & HSb). cbn in Hb. apply conc_nil_false in Hb. subst. exact HSb. }
    split; auto. split; auto. cbn [length]. lia.
  - (* if *)
    cbn in EV. bind EV. rename v into s0. inversion EV; subst s1; clear EV.
    destruct (pop_known_spec' _ _ _ _ _ HC E) as (Fp & HCp & HSp & HUp & HPp).
    assert (HC1 : vs_ctrls (push_ctrl true bt bt s0) = new_frame true bt bt :: Fp :: K) by (cbn; now rewrite HCp).
    destruct (IH _ _ _ _ _ HL' HC1 HR1 HF) as (is1 & d1 & rest1 & s1' & F0' & dl1 & P1 & HC1' & HS1 & HT1 & HD1 & HR1' & HL1).
    destruct (vrun_strict_cons _ _ _ _ _ _ _ HC1' HR1') as (s3 & EV2 & HR2).
    pose proof HS1 as (HI1 & _ & HE). cbn in HE, HI1.
    pose proof HSp as (_ & HLp & _). cbn [map] in HT1. rewrite HLp in HT1.
    assert (HL1' : length rest1 <= n) by lia.
    destruct d1.
    + (* else branch present *)
      destruct (else_step _ _ _ _ _ _ HC1' HD1 EV2) as (_ & s2 & HC2 & -> & HCn). rewrite HE in *.
      assert (HC3 : vs_ctrls (push_ctrl false bt bt s2) = new_frame false bt bt :: Fp :: K) by (cbn; now rewrite HC2).
      destruct (IH _ _ _ _ _ HL1' HC3 HR2 HF) as (is2 & d2 & rest2 & s3' & Fe' & dl2 & P2 & HC3' & HS3 & HT3 & HD2 & HR3' & HL2).
      destruct (vrun_strict_cons _ _ _ _ _ _ _ HC3' HR3') as (s5 & EV4 & HR4).
      cbn [map] in HT3. rewrite HLp in HT3.
      destruct d2.
      { destruct (else_step _ _ _ _ _ _ HC3' HD2 EV4) as [HI _]. destruct HS3 as (HS3 & _). rewrite HS3 in HI. discriminate. }
      destruct (end_step _ _ _ _ _ _ HC3' HD2 EV4) as (s4 & HC4 & -> & HCn2 & _).
      pose proof HS3 as (_ & _ & HE3). cbn in HE3. rewrite HE3 in *.
      pose proof (push_opds_ctrls _ _ bt _ HC4) as HC5.
      assert (HL2' : length rest2 <= n) by lia.
      destruct (IH _ _ _ _ _ HL2' HC5 HR4 HF) as (is3 & d3 & rest3 & s' & F' & dl3 & P3 & HC' & HS5 & HT5 & HD3 & HR' & HL3).
      exists (If bt is1 is2 :: is3), d3, rest3, s', F', dl3.
      split. { cbn [map fst]. rewrite parse_seq_if, P1, P2, P3. reflexivity. }
      split; auto. split. { eapply shape_trans; [exact HSp|]. eapply shape_trans; [|exact HS5]. apply shape_with_opds, shape_refl. }
      split.
      { intros ts' Hts'. destruct (HT5 _ Hts') as (ts5 & Hts5 & HSeq). cbn [with_opds fr_opds fr_unreachable] in Hts5.
        apply conc_bt_inv in Hts5. destruct Hts5 as (ts0 & -> & Hts0). exists (T_i32 :: ts0). split; auto.
        econstructor; [|cbn [map with_opds fr_label] in HSeq; rewrite HLp in HSeq; exact HSeq]. constructor.
        - destruct (HT1 _ HCn) as (tsb & Hb & HSb). cbn in Hb. apply conc_nil_false in Hb. subst. exact HSb.
        - destruct (HT3 _ HCn2) as (tsb & Hb & HSb). cbn in Hb. apply conc_nil_false in Hb. subst. exact HSb. }
      split; auto. split; auto. cbn [length]. lia.
    + (* no else: the result type must be empty *)
      destruct (end_step _ _ _ _ _ _ HC1' HD1 EV2) as (s2 & HC2 & -> & HCn & HN). rewrite HE in *.
      specialize (HN HI1). rewrite HN in *. clear HN. cbn [push_opds] in HR2.
      destruct (IH _ _ _ _ _ HL1' HC2 HR2 HF) as (is2 & d2 & rest2 & s' & F' & dl2 & P2 & HC' & HS2 & HT2 & HD2 & HR' & HL2).
      exists (If None is1 [] :: is2), d2, rest2, s', F', dl2.
      split. { cbn [map fst]. rewrite parse_seq_if, P1, P2. reflexivity. }
      split; auto. split. { eapply shape_trans; eauto. }
      split.
      { intros ts' Hts'. destruct (HT2 _ Hts') as (ts3 & Hts3 & HSeq). exists (T_i32 :: ts3). split; auto.
        econstructor; [|cbn [map with_opds fr_label] in HSeq; rewrite HLp in HSeq; exact HSeq].
        apply (T_If _ None is1 [] ts3).
        - destruct (HT1 _ HCn) as (tsb & Hb & HSb). cbn in Hb. apply conc_nil_false in Hb. subst. exact HSb.
        - constructor. }
      split; auto. split; auto. cbn [length]. lia.
  - (* basic *)
    cbn in EV. destruct (vstep_basic_sound _ _ _ _ _ _ _ HC EV) as (F1 & HC1 & HS1 & HT1).
    destruct (IH _ _ _ _ _ HL' HC1 HR1 HF) as (is1 & d1 & rest1 & s' & F' & dl1 & P1 & HC' & HS2 & HT2 & HD1 & HR' & HL1).
    exists (Basic b :: is1), d1, rest1, s', F', dl1.
    split. { cbn [map fst]. rewrite parse_seq_basic, P1. reflexivity. }
    split; auto. split. { eapply shape_trans; eauto. }
    split.
    { intros ts' Hts'. destruct (HT2 _ Hts') as (ts2 & Hts2 & HSeq). destruct (HT1 _ Hts2) as (ts & Hts & HB).
      exists ts. split; auto. econstructor; [constructor; exact HB|].
      rewrite (map_label_shape _ _ _ HS1) in HSeq. exact HSeq. }
    split; auto. split; auto. cbn [length]. lia.
Qed.

(** ** Function level soundness *)
Definition tctx_of (c : vctx) : tctx :=
  {| tc_types := vc_types c;
     tc_funcs := map (fun ti => nth ti (vc_types c) dummy_ft) (vc_funcs c);
     tc_globals := vc_globals c; tc_locals := vc_locals c;
     tc_memory := vc_memory c; tc_table := vc_table c;
     tc_labels := []; tc_return := vc_return c |}.

Lemma push_opds_nil bt s : vs_ctrls s = [] -> vs_ctrls (push_opds bt s) = [].
Proof. intros H. destruct bt; cbn [push_opds]; auto. unfold push_opd. rewrite H. reflexivity. Qed.

Theorem validate_strict_sound c ops h :
  validate_func_strict c ops = Some h ->
  exists is, structure_body (map fst ops) = Some is /\ body_ok (tctx_of c) is.
Proof.
  unfold validate_func_strict. destruct (vrun_strict c (vinit c) ops) as [sf|] eqn:HR; [|discriminate].
  destruct (vs_ctrls sf) eqn:HF; [|discriminate]. intros _.
  assert (HC : vs_ctrls (vinit c) = new_frame false (vc_return c) (vc_return c) :: []) by reflexivity.
  destruct (flat_sound c (length ops) ops _ _ _ _ (le_n _) HC HR HF)
    as (is & d & rest & s' & F' & dl & P & HC' & HS & HT & HD & HR' & HL).
  destruct (vrun_strict_cons _ _ _ _ _ _ _ HC' HR') as (s3 & EV & HR2).
  destruct d.
  { destruct (else_step _ _ _ _ _ _ HC' HD EV) as [HI _]. destruct HS as (HS & _). rewrite HS in HI. discriminate. }
  destruct (end_step _ _ _ _ _ _ HC' HD EV) as (s2 & HC2 & -> & HCn & _).
  pose proof (push_opds_nil (fr_end F') _ HC2) as HC3.
  destruct rest as [|o r]; [|cbn [vrun_strict] in HR2; rewrite HC3 in HR2; discriminate].
  exists is. split.
  - unfold structure_body. rewrite map_length, P. reflexivity.
  - destruct (HT _ HCn) as (ts & Hts & HSeq). cbn in Hts. apply conc_nil_false in Hts. subst ts.
    destruct HS as (_ & _ & HE). cbn in HE. rewrite HE in HSeq. exact HSeq.
Qed.

Lemma vrun_strict_of_vrun c : forall ops s sf,
  vrun c s ops = Some sf -> ends_early_from c s ops = false -> vrun_strict c s ops = Some sf.
Proof.
  induction ops as [|o r IH]; intros s sf; cbn [vrun ends_early_from vrun_strict]; auto.
  destruct (vs_ctrls s); [discriminate|]. destruct (vstep c s o) as [s1|]; [|discriminate]. apply IH.
Qed.

(** [validate_sound]: an accepted body that does not continue after the end of the function is an
    expression, well typed in the function's context. *)
Theorem validate_sound_thm c ops h :
  validate_func c ops = Some h -> ends_early c ops = false ->
  exists is, structure_body (map fst ops) = Some is /\ body_ok (tctx_of c) is.
Proof.
  unfold validate_func, ends_early. destruct (vrun c (vinit c) ops) as [sf|] eqn:HR; [|discriminate].
  destruct (vs_ctrls sf) eqn:HF; [|discriminate]. intros _ HE.
  apply (validate_strict_sound c ops (vs_max sf)). unfold validate_func_strict.
  rewrite (vrun_strict_of_vrun _ _ _ _ HR HE), HF. reflexivity.
Qed.

(** The faithful model accepts the body [end; nop] (as the implementation does): it is not an
    expression of the binary grammar. *)
Definition kf_ctx : vctx :=
  {| vc_types := []; vc_funcs := []; vc_globals := []; vc_locals := []; vc_memory := false;
     vc_table := false; vc_return := None; vc_signext := true |}.
Theorem validate_sound_refuted_thm :
  exists c ops h, validate_func c ops = Some h /\ structure_body (map fst ops) = None /\ ends_early c ops = true.
Proof. exists kf_ctx, [(OEnd, 0%N); (OBasic BNop, 0%N)], O. vm_compute. auto. Qed.

(** alignment of every memory instruction of an accepted body is at most the natural one *)
Definition vop_align_ok (o : opcode * N) : bool :=
  match fst o with
  | OBasic (BLoad t pk _) => (snd o <=? max_align (load_width t pk))%N
  | OBasic (BStore t pk _) => (snd o <=? max_align (store_width t pk))%N
  | _ => true
  end.
Lemma vstep_align c s o s' : vstep c s o = Some s' -> vop_align_ok o = true.
Proof.
  destruct o as [op al]. unfold vstep, vop_align_ok. cbn [fst snd]. destruct op as [| | | | |b]; auto.
  destruct b; auto; cbn [vstep_basic]; intros H.
  - bind H. bind H. bind H. grd E1. exact E1.
  - bind H. bind H. bind H. grd E1. exact E1.
Qed.
Theorem validate_alignment c ops h : validate_func c ops = Some h -> forallb vop_align_ok ops = true.
Proof.
  unfold validate_func. destruct (vrun c (vinit c) ops) as [sf|] eqn:HR; [|discriminate]. intros _.
  revert HR. generalize (vinit c). induction ops as [|o r IH]; intros s; cbn [vrun forallb]; auto.
  destruct (vstep c s o) as [s1|] eqn:EV; [|discriminate]. intros HR.
  rewrite (vstep_align _ _ _ _ EV). cbn. eauto.
Qed.

(** ** Module level *)
Theorem validate_module_sound_thm signext m :
  validate_module signext m = true ->
  forall f, In f (vm_funcs m) ->
  exists ft locals h,
    nth_error (vm_types m) (mf_type f) = Some ft /\
    make_locals (ft_params ft) (mf_locals f) = Some locals /\
    validate_func (func_ctx signext m ft locals) (mf_body f) = Some h /\
    (N.of_nat (length locals) + N.of_nat h <= MAX_ALLOWED_STACK_HEIGHT)%N /\
    forallb vop_align_ok (mf_body f) = true /\
    (ends_early (func_ctx signext m ft locals) (mf_body f) = false ->
     exists is, structure_body (map fst (mf_body f)) = Some is /\
                body_ok (tctx_of (func_ctx signext m ft locals)) is).
Proof.
  intros H f Hin. unfold validate_module in H. rewrite !andb_true_iff in H.
  destruct H as [[[[[[[[[_ _] _] _] Hfun] _] _] _] _] _].
  rewrite forallb_forall in Hfun. specialize (Hfun _ Hin).
  unfold validate_mfunc, obind in Hfun.
  destruct (nth_error (vm_types m) (mf_type f)) as [ft|] eqn:ET; [|discriminate].
  destruct (make_locals (ft_params ft) (mf_locals f)) as [locals|] eqn:EL; [|discriminate].
  destruct (validate_func _ _) as [h|] eqn:EV; [|discriminate].
  unfold guard in Hfun.
  destruct (N.leb_spec (N.of_nat (length locals) + N.of_nat h) MAX_ALLOWED_STACK_HEIGHT); [|discriminate].
  exists ft, locals, h. split; [reflexivity|]. split; [exact EL|]. split; [exact EV|]. split; [assumption|]. split.
  - eapply validate_alignment; eauto.
  - intros HE. eapply validate_sound_thm; eauto.
Qed.

(** non-vacuity: a body with nested control, a branch with a value and dead code *)
Definition ex_ctx : vctx :=
  {| vc_types := [ {| ft_params := [T_i32]; ft_result := Some T_i32 |} ]; vc_funcs := [O];
     vc_globals := [(T_i64, true)]; vc_locals := [T_i32; T_i64]; vc_memory := true;
     vc_table := false; vc_return := Some T_i32; vc_signext := true |}.
Definition ex_body : list (opcode * N) :=
  [ (OBlock (Some T_i32), 0); (OBasic (BLocalGet 0), 0); (OIf None, 0);
    (OBasic (BConst T_i32 7), 0); (OBasic (BBr 1), 0); (OBasic BSelect, 0); (OBasic BDrop, 0);
    (OElse, 0); (OBasic (BGlobalGet 0), 0); (OBasic (BLocalSet 1), 0); (OEnd, 0);
    (OBasic (BConst T_i32 0), 0); (OBasic (BLoad T_i32 None 4), 2); (OEnd, 0);
    (OBasic (BCall 0), 0); (OEnd, 0) ]%N.
Example validate_sound_nonvacuous :
  validate_func ex_ctx ex_body = Some 1%nat /\ ends_early ex_ctx ex_body = false.
Proof. vm_compute. auto. Qed.
