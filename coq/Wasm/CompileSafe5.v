(** * Wasm/CompileSafe5 — link of the field description of the emitted code to the decoder
    functions of [Wasm/Machine.v]: reading the decoded code map at the offset of an operand
    field with [get_i32] (what machine.rs' [get_local]/[get_local_mut] callers do) returns the
    field's value, which is a register below [num_registers] or a constant inside the table. *)
From Coq Require Import ZArith NArith List Lia Bool FMapPositive.
From CB Require Import Wasm.Syntax Wasm.Compile Wasm.Machine Wasm.MachineLemmas Wasm.CompileLemmas
     Wasm.CompileSafe Wasm.CompileSafe2 Wasm.CompileSafe4.
Import ListNotations.
Local Open Scope Z_scope.
Local Arguments i32_bytes : simpl never.
Local Arguments u32_bytes : simpl never.

Lemma field_code_at pre f post :
  code_at (build_code (enc (pre ++ f :: post)) xH (PositiveMap.empty N)) (off pre) (enc_f f).
Proof.
  pose proof (build_code_at (enc (pre ++ f :: post))) as H.
  assert (E : enc (pre ++ f :: post) = enc pre ++ enc_f f ++ enc post) by (rewrite enc_app; reflexivity).
  rewrite E in H at 2. apply code_at_app in H.
  destruct H as [_ H]. apply code_at_app in H. destruct H as [H _]. exact H.
Qed.

Theorem machine_operands_in_bounds_proof cx ti ft nd ops cf :
  cx_return cx = ft_result ft ->
  Forall (fun op => op_locals (Z.of_nat (length (ft_params ft) + nd)) op = true) ops ->
  compile_function cx ti ft nd ops = Some cf ->
  cf_num_registers cf <= 2147483648 -> Z.of_nat (length (cf_constants cf)) <= 2147483648 ->
  Z.of_nat (length (cf_code cf)) < 4294967296 ->
  let c := build_code (cf_code cf) xH (PositiveMap.empty N) in
  exists fl, cf_code cf = enc fl /\ shaped cx fl /\
    (forall pre p post, fl = pre ++ FSrc p :: post ->
       get_i32 c (off pre) = p /\ - Z.of_nat (length (cf_constants cf)) <= p < cf_num_registers cf) /\
    (forall pre r post, fl = pre ++ FDst r :: post ->
       get_i32 c (off pre) = r /\ 0 <= r < cf_num_registers cf) /\
    (forall pre t post, fl = pre ++ FTgt t :: post ->
       get_u32 c (off pre) = t /\ starts cx fl t /\ 0 <= t <= Z.of_nat (length (cf_code cf))).
Proof.
  intros Hr Hl E B1 B2 B3 c.
  destruct (compile_output_safe_partial_proof cx ti ft nd ops cf Hr Hl E) as (_ & _ & fl & Ec & Sh & Fo & Tg).
  exists fl. splits; auto.
  - intros pre p post Ef. rewrite Forall_forall in Fo. assert (Hp : fok (cf_num_registers cf) (Z.of_nat (length (cf_constants cf))) (FSrc p)).
    { apply Fo. rewrite Ef. apply in_or_app. right. left. reflexivity. }
    cbn in Hp. split; auto. subst c. rewrite Ec, Ef. apply code_at_i32; [lia|]. apply (field_code_at pre (FSrc p) post).
  - intros pre r post Ef. rewrite Forall_forall in Fo. assert (Hp : fok (cf_num_registers cf) (Z.of_nat (length (cf_constants cf))) (FDst r)).
    { apply Fo. rewrite Ef. apply in_or_app. right. left. reflexivity. }
    cbn in Hp. split; auto. subst c. rewrite Ec, Ef. apply code_at_i32; [lia|]. apply (field_code_at pre (FDst r) post).
  - intros pre t post Ef. destruct (Tg _ _ _ Ef) as (St & Bt). splits; auto; try lia.
    subst c. rewrite Ec, Ef. apply code_at_u32; [lia|]. apply (field_code_at pre (FTgt t) post).
Qed.
