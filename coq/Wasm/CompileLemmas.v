(** Lemmas about [Wasm/Compile.v] for straight-line code: well-formedness of the
    register-allocation state ([cwf]: dynamic locations on the stack are outside the
    reusable pool, the pool is sorted and within range, constants are numbered by position),
    and the effect of [handle_opcode] on basic instructions without control flow ([score]). *)
From Coq Require Import ZArith NArith List Lia Bool.
From CB Require Import Wasm.Syntax Wasm.Compile.
Import ListNotations.
Local Open Scope Z_scope.

Ltac splits := repeat match goal with |- _ /\ _ => split end.

Lemma provider_eqb_eq a b : provider_eqb a b = true <-> a = b.
Proof.
  destruct a, b; cbn; split; intros H; try discriminate; try (apply Z.eqb_eq in H; subst; reflexivity);
    try (inversion H; apply Z.eqb_refl).
Qed.
Lemma existsb_provider p st : existsb (provider_eqb p) st = true <-> In p st.
Proof.
  rewrite existsb_exists. split.
  - intros (x & Hx & E). apply provider_eqb_eq in E. subst. exact Hx.
  - intros H. exists p. split; auto. apply provider_eqb_eq. reflexivity.
Qed.

Fixpoint sorted_lt (l : list Z) : Prop :=
  match l with [] => True | x :: r => Forall (Z.lt x) r /\ sorted_lt r end.

Lemma insert_sorted_in x l y : In y (insert_sorted x l) <-> y = x \/ In y l.
Proof.
  induction l as [|a r IH]; cbn [insert_sorted].
  - cbn. intuition.
  - destruct (Z.ltb_spec x a); [cbn; intuition|]. destruct (Z.eqb_spec x a).
    + subst. cbn. intuition.
    + cbn [In]. rewrite IH. intuition.
Qed.
Lemma insert_sorted_sorted x l : sorted_lt l -> sorted_lt (insert_sorted x l).
Proof.
  induction l as [|a r IH]; cbn [insert_sorted sorted_lt]; intros H.
  - split; [constructor|exact I].
  - destruct H as [Ha Hr]. destruct (Z.ltb_spec x a).
    + cbn [sorted_lt]. split; [|split; auto]. constructor; auto.
      eapply Forall_impl; [|exact Ha]. cbn. intros; lia.
    + destruct (Z.eqb_spec x a); [cbn [sorted_lt]; auto|]. cbn [sorted_lt]. split; [|apply IH; auto].
      apply Forall_forall. intros y Hy. apply insert_sorted_in in Hy. destruct Hy as [->|Hy]; [lia|].
      rewrite Forall_forall in Ha. apply Ha. exact Hy.
Qed.
Lemma sorted_head_notin x r : sorted_lt (x :: r) -> ~ In x r.
Proof. intros [H _] Hin. rewrite Forall_forall in H. specialize (H x Hin). lia. Qed.

(** ** well-formed allocation state; [nl] = number of locals (registers [0, nl)) *)
Definition pwf (nl : Z) (s : cstate) (p : provider) : Prop :=
  match p with
  | PDyn r => nl <= r < c_next s /\ ~ In r (c_reuse s)
  | PLocal i => 0 <= i < nl
  | PConst c => c < 0 /\ exists v, nth_error (c_consts s) (Z.to_nat (- (c + 1))) = Some (v, c)
  end.
Record cwf (nl : Z) (s : cstate) : Prop := {
  w_next : 0 <= nl <= c_next s;
  w_stack : Forall (pwf nl s) (c_stack s);
  w_reuse : Forall (fun r => nl <= r < c_next s) (c_reuse s);
  w_sorted : sorted_lt (c_reuse s);
  w_consts : forall k v idx, nth_error (c_consts s) k = Some (v, idx) -> idx = - Z.of_nat k - 1
}.

(** [same_alloc s s']: same stack / dynamic locations / constants (only output, back-patch
    stack or last_provide_loc differ) *)
Definition same_alloc (s s' : cstate) : Prop :=
  c_stack s' = c_stack s /\ c_next s' = c_next s /\ c_reuse s' = c_reuse s /\ c_consts s' = c_consts s.
Lemma cwf_same nl s s' : same_alloc s s' -> cwf nl s -> cwf nl s'.
Proof.
  intros (E1 & E2 & E3 & E4) [H1 H2 H3 H4 H5]. constructor; rewrite ?E1, ?E2, ?E3, ?E4; auto.
  eapply Forall_impl; [|exact H2]. intros p Hp. destruct p; cbn in *; rewrite ?E2, ?E3, ?E4; auto.
Qed.
Lemma same_alloc_refl s : same_alloc s s. Proof. repeat split. Qed.
Lemma same_alloc_emit s bs : same_alloc s (emit s bs). Proof. repeat split. Qed.
Lemma same_alloc_set_last s l : same_alloc s (set_last s l). Proof. repeat split. Qed.
Lemma same_alloc_set_out s o : same_alloc s (set_out s o). Proof. repeat split. Qed.
Lemma same_alloc_trans a b c : same_alloc a b -> same_alloc b c -> same_alloc a c.
Proof. intros (A1 & A2 & A3 & A4) (B1 & B2 & B3 & B4). repeat split; congruence. Qed.

Lemma pwf_ext nl s s' p :
  c_next s' = c_next s -> c_reuse s' = c_reuse s -> c_consts s' = c_consts s -> pwf nl s p -> pwf nl s' p.
Proof. intros E1 E2 E3. destruct p; cbn; rewrite ?E1, ?E2, ?E3; auto. Qed.
Lemma cwf_set_stack nl s st : cwf nl s -> Forall (pwf nl s) st -> cwf nl (set_stack s st).
Proof.
  intros [W1 W2 W3 W4 W5] H. constructor; cbn; auto.
Qed.

(** unchanged apart from the allocation part: output, back-patch stack *)
Definition same_out (s s' : cstate) : Prop := c_out s' = c_out s /\ c_bp s' = c_bp s /\ c_last s' = c_last s.

(** ** consume *)
Lemma consume_spec nl s p s' :
  consume s = Some (p, s') -> cwf nl s ->
  c_stack s = p :: c_stack s' /\ same_out s s' /\ c_next s' = c_next s /\ c_consts s' = c_consts s
  /\ cwf nl s' /\ pwf nl s p.
Proof.
  unfold consume. destruct (c_stack s) as [|q st] eqn:Es; [discriminate|].
  intros H W. pose proof W as W0. destruct W as [W1 W2 W3 W4 W5]. rewrite Es in W2. inversion W2 as [|? ? Wq Wst]; subst.
  destruct (existsb (provider_eqb q) st) eqn:Ex; cbn [negb] in H; inversion H; subst; clear H.
  - cbn. splits; auto; try (unfold same_out; cbn; tauto). apply cwf_set_stack; auto.
  - assert (Hn : ~ In p st) by (intro Hin; apply existsb_provider in Hin; congruence).
    destruct p as [r|i|c]; cbn [dyn_reuse set_dyn set_stack c_stack c_out c_bp c_last c_next c_consts c_reuse].
    + cbn in Wq. splits; auto; try (unfold same_out; cbn; tauto). constructor; cbn; auto.
      * apply Forall_forall. intros q Hq. rewrite Forall_forall in Wst. specialize (Wst q Hq).
        destruct q as [r'|i'|c']; cbn in *; auto. destruct Wst as [B N]. split; auto.
        intro Hin. apply insert_sorted_in in Hin. destruct Hin as [->|]; [apply Hn; exact Hq|contradiction].
      * apply Forall_forall. intros y Hy. apply insert_sorted_in in Hy. destruct Hy as [->|Hy]; [tauto|].
        rewrite Forall_forall in W3. apply W3. exact Hy.
      * apply insert_sorted_sorted. auto.
    + splits; auto; try (unfold same_out; cbn; tauto). apply cwf_set_stack; auto.
    + splits; auto; try (unfold same_out; cbn; tauto). apply cwf_set_stack; auto.
Qed.

(** ** dyn_get / provide *)
Lemma dyn_get_spec nl s r s' :
  dyn_get s = (r, s') -> cwf nl s ->
  nl <= r < c_next s' /\ ~ In r (c_reuse s') /\ ~ In (PDyn r) (c_stack s)
  /\ c_stack s' = c_stack s /\ same_out s s' /\ c_consts s' = c_consts s
  /\ c_next s <= c_next s' <= c_next s + 1
  /\ (forall y, In y (c_reuse s') -> In y (c_reuse s))
  /\ cwf nl s'.
Proof.
  unfold dyn_get. intros H [W1 W2 W3 W4 W5]. destruct (c_reuse s) as [|x rs] eqn:Er; inversion H; subst; clear H;
    cbn [set_dyn c_stack c_out c_bp c_last c_next c_consts c_reuse].
  - splits; auto; try lia; try (unfold same_out; cbn; tauto).
    + intro Hin. rewrite Forall_forall in W2. specialize (W2 _ Hin). cbn in W2. lia.
    + constructor; cbn; auto; try lia. eapply Forall_impl; [|exact W2]. intros p Hp.
      destruct p; cbn in *; rewrite ?Er in *; auto. destruct Hp. split; [lia|auto].
  - inversion W3 as [|? ? Wx Wrs]; subst. pose proof (sorted_head_notin _ _ W4) as Hnot. destruct W4 as [_ W4'].
    splits; auto; try lia; try (unfold same_out; cbn; tauto).
    all: try (intro Hin; rewrite Forall_forall in W2; specialize (W2 _ Hin); cbn in W2; rewrite Er in W2; apply (proj2 W2); left; reflexivity).
    all: try (intros y Hy; right; exact Hy).
    constructor; cbn; auto. eapply Forall_impl; [|exact W2]. intros p Hp.
    destruct p; cbn in *; rewrite ?Er in *; auto. destruct Hp as [B N]. split; auto. intro; apply N; right; auto.
Qed.

Lemma cwf_push_dyn nl s r :
  cwf nl s -> nl <= r < c_next s -> ~ In r (c_reuse s) -> cwf nl (set_stack s (PDyn r :: c_stack s)).
Proof.
  intros [W1 W2 W3 W4 W5] B N. constructor; cbn; auto;
    try (constructor; [cbn; auto|]; eapply Forall_impl; [|exact W2]; intros p Hp; destruct p; cbn in *; auto).
Qed.
Lemma cwf_push_local nl s i :
  cwf nl s -> 0 <= i < nl -> cwf nl (provide_existing s (PLocal i)).
Proof.
  intros [W1 W2 W3 W4 W5] B. constructor; cbn; auto;
    try (constructor; [cbn; auto|]; eapply Forall_impl; [|exact W2]; intros p Hp; destruct p; cbn in *; auto).
Qed.

(** ** push_constant *)
Lemma push_constant_spec nl s c :
  cwf nl s ->
  exists idx, c_stack (push_constant s c) = PConst idx :: c_stack s
  /\ same_out s (push_constant s c) /\ c_next (push_constant s c) = c_next s
  /\ c_reuse (push_constant s c) = c_reuse s
  /\ (exists ext, c_consts (push_constant s c) = c_consts s ++ ext)
  /\ idx < 0 /\ nth_error (c_consts (push_constant s c)) (Z.to_nat (- (idx + 1))) = Some (c, idx)
  /\ cwf nl (push_constant s c).
Proof.
  intros [W1 W2 W3 W4 W5]. unfold push_constant.
  destruct (find (fun e => fst e =? c) (c_consts s)) as [[v idx]|] eqn:F.
  - apply find_some in F. destruct F as [Hin Hc]. cbn in Hc. apply Z.eqb_eq in Hc. subst v.
    apply In_nth_error in Hin. destruct Hin as [k Hk]. pose proof (W5 _ _ _ Hk) as Ei.
    exists idx. cbn. splits; auto; try lia; try (unfold same_out; cbn; tauto).
    + exists []. rewrite app_nil_r. reflexivity.
    + subst idx. replace (Z.to_nat (- (- Z.of_nat k - 1 + 1))) with k by lia. exact Hk.
    + constructor; cbn; auto. constructor; auto. cbn. split; [lia|]. exists c.
      subst idx. replace (Z.to_nat (- (- Z.of_nat k - 1 + 1))) with k by lia. exact Hk.
  - set (idx := - Z.of_nat (length (c_consts s)) - 1).
    assert (Hn : nth_error (c_consts s ++ [(c, idx)]) (Z.to_nat (- (idx + 1))) = Some (c, idx)).
    { unfold idx. replace (Z.to_nat (- (- Z.of_nat (length (c_consts s)) - 1 + 1))) with (length (c_consts s)) by lia.
      rewrite nth_error_app2 by lia. rewrite Nat.sub_diag. reflexivity. }
    assert (F1 : Forall (pwf nl (set_stack (set_consts s (c_consts s ++ [(c, idx)])) (PConst idx :: c_stack s)))
                        (PConst idx :: c_stack s)).
    { constructor; [cbn; split; [unfold idx; lia|exists c; exact Hn]|].
      eapply Forall_impl; [|exact W2]. intros p Hp. destruct p; cbn in *; auto.
      destruct Hp as [Hneg (v & Hv)]. split; auto. exists v. rewrite nth_error_app1; auto.
      apply nth_error_Some. congruence. }
    assert (F2 : forall k v i, nth_error (c_consts s ++ [(c, idx)]) k = Some (v, i) -> i = - Z.of_nat k - 1).
    { intros k v i Hk. destruct (Nat.lt_ge_cases k (length (c_consts s))).
      - rewrite nth_error_app1 in Hk by lia. eapply W5; eauto.
      - rewrite nth_error_app2 in Hk by lia. destruct (k - length (c_consts s))%nat eqn:E.
        + cbn in Hk. inversion Hk. unfold idx. lia.
        + cbn in Hk. destruct n; discriminate. }
    exists idx. cbn. splits; auto; try (unfold idx; lia); try (unfold same_out; cbn; tauto).
    + exists [(c, idx)]. reflexivity.
    + constructor; cbn; auto.
Qed.
